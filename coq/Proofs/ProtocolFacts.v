(* Facts about the thread / channel protocol LTS of Model/Protocol.v.

   History: an earlier version of the model had a spurious transition.  In the ESend case of [pstep]
   the guard was only [Nat.eqb (nth k (out_edges g t) (length (pg_edges g))) e && receiver_alive g s e];
   when k >= length (out_edges g t) the default makes e = length (pg_edges g), and
   [receiver_alive g s e] then looks at [nth e (pg_edges g) (0,0)] = (0,0), i.e. at the phase of
   WORKER 0.  So, while worker 0 was NotSpawned / Receiving, a worker t > 0 in phase [Sending k] with
   k >= #out-edges could perform [ESend t (length (pg_edges g))] arbitrarily often, after which
   EFinish t was never enabled.  Witness on g = mk_pgraph 2 []:
     [ESpawn 0; ESpawn 1; EWork 1; ESend 1 0; ESend 1 0; ESend 1 0]  ran (unbounded runs), and
     [ESpawn 0; ESpawn 1; EWork 1; ESend 1 0; EWork 0; EFinish 0; EJoin 0] reached a deadlock
     (phases [Done; Sending 1], main = 3).
   This refuted c05_deadlock_free and c05_bounded.  The model now guards ESend with
   [Nat.ltb e (length (pg_edges g))]; everything below is about the repaired model.
   (Example [old_defect_witness_now_rejected] checks that the witnesses are rejected.) *)
From Coq Require Import List Arith Lia Permutation Bool Sorted.
From Ruler Require Import Protocol.
Import ListNotations.
Local Open Scope nat_scope.

(* ------------------------------------------------------------------------------------------ *)
(* set_nth / nth / firstn                                                                       *)
(* ------------------------------------------------------------------------------------------ *)

Lemma set_nth_length {A} (l : list A) i x : length (set_nth l i x) = length l.
Proof.
  revert i; induction l as [|y r IH]; intros [|i]; cbn [set_nth length]; auto.
Qed.

Lemma set_nth_out {A} (l : list A) i x : length l <= i -> set_nth l i x = l.
Proof.
  revert i; induction l as [|y r IH]; intros [|i] H; cbn [set_nth length] in *; auto; try lia.
  f_equal. apply IH. lia.
Qed.

Lemma nth_set_nth_eq {A} (l : list A) i x d : i < length l -> nth i (set_nth l i x) d = x.
Proof.
  revert i; induction l as [|y r IH]; intros [|i] H; cbn [set_nth length nth] in *; auto; try lia.
  apply IH. lia.
Qed.

Lemma nth_set_nth_neq {A} (l : list A) i j x d : i <> j -> nth j (set_nth l i x) d = nth j l d.
Proof.
  revert i j; induction l as [|y r IH]; intros [|i] [|j] H; cbn [set_nth nth]; auto; try lia.
Qed.

Lemma nth_set_nth_true (l : list bool) i j :
  nth j (set_nth l i true) false = true <-> nth j l false = true \/ (j = i /\ i < length l).
Proof.
  destruct (Nat.eq_dec i j) as [->|Hn].
  - destruct (Nat.lt_ge_cases j (length l)) as [Hl|Hl].
    + rewrite nth_set_nth_eq by assumption. tauto.
    + rewrite set_nth_out by assumption. split; [tauto|]. intros [H|[_ H]]; [assumption|lia].
  - rewrite nth_set_nth_neq by assumption. split; [tauto|]. intros [H|[H _]]; [assumption|congruence].
Qed.

Lemma nth_true_lt (l : list bool) e : nth e l false = true -> e < length l.
Proof.
  intros H. destruct (Nat.lt_ge_cases e (length l)) as [Hl|Hl]; [assumption|].
  rewrite nth_overflow in H by assumption. discriminate.
Qed.

Lemma firstn_S_In (l : list nat) k e d :
  In e (firstn (S k) l) <-> In e (firstn k l) \/ (k < length l /\ e = nth k l d).
Proof.
  revert k; induction l as [|x r IH]; intros k.
  - rewrite !firstn_nil. cbn [In length]. split; [tauto|]. intros [H|[H _]]; [assumption|lia].
  - destruct k as [|k].
    + cbn [firstn In nth length]. split.
      * intros [H|[]]. right. split; [lia|congruence].
      * intros [[]|[_ H]]. left; congruence.
    + change (firstn (S (S k)) (x :: r)) with (x :: firstn (S k) r).
      change (firstn (S k) (x :: r)) with (x :: firstn k r).
      cbn [In nth length]. rewrite IH. split.
      * intros [H|[H|[H1 H2]]]; [tauto|tauto|]. right. split; [lia|assumption].
      * intros [[H|H]|[H1 H2]]; [tauto|tauto|]. right; right. split; [lia|assumption].
Qed.

Lemma firstn_In_full (l : list nat) k e : length l <= k -> (In e (firstn k l) <-> In e l).
Proof. intros H. rewrite firstn_all2 by assumption. tauto. Qed.

Lemma In_firstn_In (l : list nat) k e : In e (firstn k l) -> In e l.
Proof. intros H. rewrite <- (firstn_skipn k l). apply in_or_app. left; assumption. Qed.

Lemma NoDup_nth_not_firstn (l : list nat) k d :
  NoDup l -> k < length l -> ~ In (nth k l d) (firstn k l).
Proof.
  intros Hnd; revert k; induction Hnd as [|x r Hx Hnd IH]; intros k Hk; cbn [length] in Hk; [lia|].
  destruct k as [|k]; cbn [firstn nth In]; [tauto|].
  intros [H|H].
  - apply Hx. rewrite H. apply nth_In. lia.
  - apply (IH k); [lia|assumption].
Qed.

Lemma existsb_eqb_false (e : nat) l : existsb (Nat.eqb e) l = false -> ~ In e l.
Proof.
  intros H Hin. assert (existsb (Nat.eqb e) l = true) as H1.
  { apply existsb_exists. exists e. split; [assumption|apply Nat.eqb_refl]. }
  congruence.
Qed.

Lemma In_not_skipn_firstn (l : list nat) k e : In e l -> ~ In e (skipn k l) -> In e (firstn k l).
Proof.
  intros Hin Hn. rewrite <- (firstn_skipn k l) in Hin. apply in_app_or in Hin. tauto.
Qed.

(* ------------------------------------------------------------------------------------------ *)
(* indices_where, in_edges, out_edges                                                           *)
(* ------------------------------------------------------------------------------------------ *)

Lemma indices_where_In {A} (f : A -> bool) l i e d :
  In e (indices_where f l i) <-> i <= e /\ e < i + length l /\ f (nth (e - i) l d) = true.
Proof.
  revert i; induction l as [|x r IH]; intros i; cbn [indices_where length].
  - cbn [In]. split; [tauto|]. intros (H1 & H2 & _). lia.
  - assert (In e (indices_where f r (S i)) <->
            i < e /\ e < i + S (length r) /\ f (nth (e - i) (x :: r) d) = true) as Hrec.
    { rewrite IH. split.
      - intros (H1 & H2 & H3). split; [lia|]. split; [lia|].
        replace (e - i) with (S (e - S i)) by lia. exact H3.
      - intros (H1 & H2 & H3). split; [lia|]. split; [lia|].
        replace (e - i) with (S (e - S i)) in H3 by lia. exact H3. }
    destruct (f x) eqn:Efx.
    + cbn [In]. rewrite Hrec. split.
      * intros [H|H].
        -- subst e. split; [lia|]. split; [lia|]. rewrite Nat.sub_diag. exact Efx.
        -- destruct H as (H1 & H2 & H3). split; [lia|]. split; assumption.
      * intros (H1 & H2 & H3). destruct (Nat.eq_dec i e) as [He|He]; [left; assumption|].
        right. split; [lia|]. split; assumption.
    + rewrite Hrec. split.
      * intros (H1 & H2 & H3). split; [lia|]. split; assumption.
      * intros (H1 & H2 & H3). destruct (Nat.eq_dec i e) as [He|He].
        -- subst e. rewrite Nat.sub_diag in H3. cbn [nth] in H3. congruence.
        -- split; [lia|]. split; assumption.
Qed.

Lemma indices_where_sorted {A} (f : A -> bool) l i : StronglySorted lt (indices_where f l i).
Proof.
  revert i; induction l as [|x r IH]; intros i; cbn [indices_where]; [constructor|].
  destruct (f x); [|apply IH]. constructor; [apply IH|].
  apply Forall_forall. intros e He. apply (indices_where_In f r (S i) e x) in He. lia.
Qed.

Lemma sorted_lt_NoDup (l : list nat) : StronglySorted lt l -> NoDup l.
Proof.
  induction 1 as [|x r Hs IH Hf]; constructor; [|assumption].
  intros Hin. rewrite Forall_forall in Hf. specialize (Hf x Hin). lia.
Qed.

Lemma in_edges_In g t e :
  In e (in_edges g t) <-> e < length (pg_edges g) /\ snd (nth e (pg_edges g) (0, 0)) = t.
Proof.
  unfold in_edges. rewrite (indices_where_In _ _ 0 e (0, 0)). rewrite Nat.sub_0_r, Nat.eqb_eq.
  cbn [plus]. split; [tauto|]. intros [H1 H2]. split; [lia|]. split; assumption.
Qed.

Lemma out_edges_In g t e :
  In e (out_edges g t) <-> e < length (pg_edges g) /\ fst (nth e (pg_edges g) (0, 0)) = t.
Proof.
  unfold out_edges. rewrite (indices_where_In _ _ 0 e (0, 0)). rewrite Nat.sub_0_r, Nat.eqb_eq.
  cbn [plus]. split; [tauto|]. intros [H1 H2]. split; [lia|]. split; assumption.
Qed.

Lemma in_edges_sorted g t : StronglySorted lt (in_edges g t).
Proof. apply indices_where_sorted. Qed.
Lemma out_edges_sorted g t : StronglySorted lt (out_edges g t).
Proof. apply indices_where_sorted. Qed.
Lemma in_edges_NoDup g t : NoDup (in_edges g t).
Proof. apply sorted_lt_NoDup, in_edges_sorted. Qed.
Lemma out_edges_NoDup g t : NoDup (out_edges g t).
Proof. apply sorted_lt_NoDup, out_edges_sorted. Qed.

(* the k-th in-edge (with the default used by pstep) is a real edge iff k is in range *)
Lemma nth_in_edges_lt g t k :
  nth k (in_edges g t) (length (pg_edges g)) < length (pg_edges g) <-> k < length (in_edges g t).
Proof.
  split.
  - intros H. destruct (Nat.lt_ge_cases k (length (in_edges g t))) as [Hl|Hl]; [assumption|].
    rewrite nth_overflow in H by assumption. lia.
  - intros H. apply (in_edges_In g t). apply nth_In. assumption.
Qed.

Lemma nth_out_edges_lt g t k :
  nth k (out_edges g t) (length (pg_edges g)) < length (pg_edges g) <-> k < length (out_edges g t).
Proof.
  split.
  - intros H. destruct (Nat.lt_ge_cases k (length (out_edges g t))) as [Hl|Hl]; [assumption|].
    rewrite nth_overflow in H by assumption. lia.
  - intros H. apply (out_edges_In g t). apply nth_In. assumption.
Qed.

Lemma wf_graph_edge g e :
  wf_graph g -> e < length (pg_edges g) ->
  fst (nth e (pg_edges g) (0, 0)) < snd (nth e (pg_edges g) (0, 0)) /\
  snd (nth e (pg_edges g) (0, 0)) < pg_n g.
Proof.
  intros Hwf He. unfold wf_graph in Hwf. rewrite Forall_forall in Hwf.
  apply Hwf. apply nth_In. assumption.
Qed.

(* ------------------------------------------------------------------------------------------ *)
(* phases                                                                                       *)
(* ------------------------------------------------------------------------------------------ *)

Lemma phase_of_lt s t : phase_of s t <> Done -> t < length (ps_phase s).
Proof.
  unfold phase_of. intros H. destruct (Nat.lt_ge_cases t (length (ps_phase s))) as [Hl|Hl]; [assumption|].
  rewrite nth_overflow in H by assumption. congruence.
Qed.

Lemma phase_of_mk ph st rc m t : phase_of (mk_pstate ph st rc m) t = nth t ph Done.
Proof. reflexivity. Qed.

Lemma nth_set_nth_phase (l : list phase) t t' p :
  t < length l -> nth t' (set_nth l t p) Done = if Nat.eqb t t' then p else nth t' l Done.
Proof.
  intros Hl. destruct (Nat.eqb t t') eqn:E.
  - apply Nat.eqb_eq in E. subst t'. apply nth_set_nth_eq. assumption.
  - apply Nat.eqb_neq in E. apply nth_set_nth_neq. assumption.
Qed.

(* what "sent" / "received" mean in terms of the phases of the two ends of the edge *)
Definition sent_spec (g : pgraph) (s : pstate) (e : nat) : Prop :=
  match phase_of s (fst (nth e (pg_edges g) (0, 0))) with
  | Sending k => In e (firstn k (out_edges g (fst (nth e (pg_edges g) (0, 0)))))
  | Done => True
  | _ => False
  end.

Definition recvd_spec (g : pgraph) (s : pstate) (e : nat) : Prop :=
  match phase_of s (snd (nth e (pg_edges g) (0, 0))) with
  | NotSpawned => False
  | Receiving k => In e (firstn k (in_edges g (snd (nth e (pg_edges g) (0, 0)))))
  | _ => True
  end.

Lemma sent_spec_ext g s s' e :
  phase_of s' (fst (nth e (pg_edges g) (0, 0))) = phase_of s (fst (nth e (pg_edges g) (0, 0))) ->
  (sent_spec g s' e <-> sent_spec g s e).
Proof. unfold sent_spec. intros ->. tauto. Qed.

Lemma recvd_spec_ext g s s' e :
  phase_of s' (snd (nth e (pg_edges g) (0, 0))) = phase_of s (snd (nth e (pg_edges g) (0, 0))) ->
  (recvd_spec g s' e <-> recvd_spec g s e).
Proof. unfold recvd_spec. intros ->. tauto. Qed.

(* ------------------------------------------------------------------------------------------ *)
(* P1: the invariant                                                                            *)
(* ------------------------------------------------------------------------------------------ *)

Record pinv (g : pgraph) (s : pstate) : Prop := mk_pinv {
  pi_len_phase : length (ps_phase s) = pg_n g;
  pi_len_sent : length (ps_sent s) = length (pg_edges g);
  pi_len_recvd : length (ps_recvd s) = length (pg_edges g);
  pi_main_le : ps_main s <= 2 * pg_n g;
  pi_notspawned : forall t, t < pg_n g -> (phase_of s t = NotSpawned <-> ps_main s <= t);
  pi_joined : forall t, pg_n g + t < ps_main s -> phase_of s t = Done;
  pi_recv_bound : forall t k, phase_of s t = Receiving k -> k <= length (in_edges g t);
  pi_send_bound : forall t k, phase_of s t = Sending k -> k <= length (out_edges g t);
  pi_sent : forall e, e < length (pg_edges g) -> (nth e (ps_sent s) false = true <-> sent_spec g s e);
  pi_recvd : forall e, e < length (pg_edges g) -> (nth e (ps_recvd s) false = true <-> recvd_spec g s e);
  pi_recvd_sent : forall e, nth e (ps_recvd s) false = true -> nth e (ps_sent s) false = true
}.

Lemma nth_repeat_phase n t : nth t (repeat NotSpawned n) Done = if Nat.ltb t n then NotSpawned else Done.
Proof.
  revert t; induction n as [|n IH]; intros [|t]; cbn [repeat nth]; auto.
  rewrite IH. reflexivity.
Qed.

Lemma nth_repeat_false n e d : e < n -> nth e (repeat false n) d = false.
Proof.
  revert e; induction n as [|n IH]; intros [|e] H; cbn [repeat nth]; auto; try lia.
  apply IH. lia.
Qed.

Lemma pinv_init g : wf_graph g -> pinv g (init_pstate g).
Proof.
  intros Hwf. unfold init_pstate.
  assert (forall t, t < pg_n g ->
            phase_of (mk_pstate (repeat NotSpawned (pg_n g)) (repeat false (length (pg_edges g)))
                                (repeat false (length (pg_edges g))) 0) t = NotSpawned) as Hph.
  { intros t Ht. rewrite phase_of_mk, nth_repeat_phase.
    apply Nat.ltb_lt in Ht. rewrite Ht. reflexivity. }
  constructor; cbn [ps_phase ps_sent ps_recvd ps_main].
  - apply repeat_length.
  - apply repeat_length.
  - apply repeat_length.
  - lia.
  - intros t Ht. rewrite (Hph t Ht). split; intros; [lia|reflexivity].
  - intros t Ht. lia.
  - intros t k H. rewrite phase_of_mk, nth_repeat_phase in H. destruct (Nat.ltb t (pg_n g)); discriminate.
  - intros t k H. rewrite phase_of_mk, nth_repeat_phase in H. destruct (Nat.ltb t (pg_n g)); discriminate.
  - intros e He. rewrite nth_repeat_false by assumption. unfold sent_spec.
    rewrite Hph; [split; [discriminate|tauto]|].
    destruct (wf_graph_edge g e Hwf He). lia.
  - intros e He. rewrite nth_repeat_false by assumption. unfold recvd_spec.
    rewrite Hph; [split; [discriminate|tauto]|].
    destruct (wf_graph_edge g e Hwf He). lia.
  - intros e H. apply nth_true_lt in H as Hl. rewrite repeat_length in Hl.
    rewrite nth_repeat_false in H by assumption. discriminate.
Qed.

(* ---- inversion of pstep, one lemma per event ---- *)

Lemma pstep_spawn_inv g s t s' :
  pstep g s (ESpawn t) = Some s' ->
  ps_main s = t /\ t < pg_n g /\
  s' = mk_pstate (set_nth (ps_phase s) t (Receiving 0)) (ps_sent s) (ps_recvd s) (S (ps_main s)).
Proof.
  cbn [pstep]. destruct (Nat.eqb (ps_main s) t) eqn:E1; cbn [andb]; [|discriminate].
  destruct (Nat.ltb t (pg_n g)) eqn:E2; [|discriminate].
  intros H. injection H as <-. apply Nat.eqb_eq in E1. apply Nat.ltb_lt in E2. auto.
Qed.

Lemma pstep_recv_inv g s t e s' :
  pstep g s (ERecv t e) = Some s' ->
  exists k, phase_of s t = Receiving k /\ nth k (in_edges g t) (length (pg_edges g)) = e /\
            nth e (ps_sent s) false = true /\ nth e (ps_recvd s) true = false /\
            s' = mk_pstate (set_nth (ps_phase s) t (Receiving (S k))) (ps_sent s)
                           (set_nth (ps_recvd s) e true) (ps_main s).
Proof.
  cbn [pstep]. destruct (phase_of s t) as [|k|k|] eqn:Ep; try discriminate.
  destruct (Nat.eqb (nth k (in_edges g t) (length (pg_edges g))) e) eqn:E1; cbn [andb]; [|discriminate].
  destruct (nth e (ps_sent s) false) eqn:E2; cbn [andb]; [|discriminate].
  destruct (nth e (ps_recvd s) true) eqn:E3; cbn [negb]; [discriminate|].
  intros H. injection H as <-. apply Nat.eqb_eq in E1. exists k. auto.
Qed.

Lemma pstep_work_inv g s t s' :
  pstep g s (EWork t) = Some s' ->
  phase_of s t = Receiving (length (in_edges g t)) /\ s' = set_phase s t (Sending 0).
Proof.
  cbn [pstep]. destruct (phase_of s t) as [|k|k|] eqn:Ep; try discriminate.
  destruct (Nat.eqb k (length (in_edges g t))) eqn:E1; [|discriminate].
  intros H. injection H as <-. apply Nat.eqb_eq in E1. subst k. auto.
Qed.

Lemma pstep_send_inv g s t e s' :
  pstep g s (ESend t e) = Some s' ->
  exists k, phase_of s t = Sending k /\ e < length (pg_edges g) /\
            nth k (out_edges g t) (length (pg_edges g)) = e /\ receiver_alive g s e = true /\
            s' = mk_pstate (set_nth (ps_phase s) t (Sending (S k))) (set_nth (ps_sent s) e true)
                           (ps_recvd s) (ps_main s).
Proof.
  cbn [pstep]. destruct (phase_of s t) as [|k|k|] eqn:Ep; try discriminate.
  destruct (Nat.ltb e (length (pg_edges g))) eqn:E0; cbn [andb]; [|discriminate].
  destruct (Nat.eqb (nth k (out_edges g t) (length (pg_edges g))) e) eqn:E1; cbn [andb]; [|discriminate].
  destruct (receiver_alive g s e) eqn:E2; [|discriminate].
  intros H. injection H as <-. apply Nat.eqb_eq in E1. apply Nat.ltb_lt in E0. exists k. auto.
Qed.

Lemma pstep_finish_inv g s t s' :
  pstep g s (EFinish t) = Some s' ->
  phase_of s t = Sending (length (out_edges g t)) /\ s' = set_phase s t Done.
Proof.
  cbn [pstep]. destruct (phase_of s t) as [|k|k|] eqn:Ep; try discriminate.
  destruct (Nat.eqb k (length (out_edges g t))) eqn:E1; [|discriminate].
  intros H. injection H as <-. apply Nat.eqb_eq in E1. subst k. auto.
Qed.

Lemma pstep_join_inv g s t s' :
  pstep g s (EJoin t) = Some s' ->
  ps_main s = pg_n g + t /\ t < pg_n g /\ phase_of s t = Done /\
  s' = mk_pstate (ps_phase s) (ps_sent s) (ps_recvd s) (S (ps_main s)).
Proof.
  cbn [pstep]. destruct (Nat.eqb (ps_main s) (pg_n g + t)) eqn:E1; cbn [andb]; [|discriminate].
  destruct (Nat.ltb t (pg_n g)) eqn:E2; [|discriminate].
  destruct (phase_of s t) as [|k|k|] eqn:Ep; try discriminate.
  intros H. injection H as <-. apply Nat.eqb_eq in E1. apply Nat.ltb_lt in E2. auto.
Qed.

Ltac eqb_case t t' E :=
  destruct (Nat.eqb t t') eqn:E; [apply Nat.eqb_eq in E; try subst t'|apply Nat.eqb_neq in E].

(* ---- preservation, event by event ---- *)

Lemma pinv_spawn g s t s' :
  wf_graph g -> pinv g s -> pstep g s (ESpawn t) = Some s' -> pinv g s'.
Proof.
  intros Hwf Hi H. apply pstep_spawn_inv in H. destruct H as (Hm & Htn & ->).
  assert (t < length (ps_phase s)) as Hlt by (rewrite (pi_len_phase g s Hi); assumption).
  assert (phase_of s t = NotSpawned) as HNS by (apply (pi_notspawned g s Hi); lia).
  set (s' := mk_pstate _ _ _ _).
  assert (forall t', phase_of s' t' = if Nat.eqb t t' then Receiving 0 else phase_of s t') as Hph.
  { intros t'. unfold s'. rewrite phase_of_mk. apply nth_set_nth_phase. assumption. }
  constructor; cbn [ps_phase ps_sent ps_recvd ps_main s'].
  - rewrite set_nth_length. apply (pi_len_phase g s Hi).
  - apply (pi_len_sent g s Hi).
  - apply (pi_len_recvd g s Hi).
  - lia.
  - intros t' Ht'. rewrite Hph. eqb_case t t' E.
    + split; [discriminate|lia].
    + rewrite (pi_notspawned g s Hi t' Ht'). lia.
  - intros t' Ht'. lia.
  - intros t' k. rewrite Hph. eqb_case t t' E.
    + intros H. injection H as <-. lia.
    + apply (pi_recv_bound g s Hi).
  - intros t' k. rewrite Hph. eqb_case t t' E.
    + discriminate.
    + apply (pi_send_bound g s Hi).
  - intros e He. rewrite (pi_sent g s Hi e He). unfold sent_spec. rewrite Hph.
    eqb_case t (fst (nth e (pg_edges g) (0, 0))) E; [|tauto].
    rewrite <- E, HNS. tauto.
  - intros e He. rewrite (pi_recvd g s Hi e He). unfold recvd_spec. rewrite Hph.
    eqb_case t (snd (nth e (pg_edges g) (0, 0))) E; [|tauto].
    rewrite <- E, HNS. cbn [firstn In]. tauto.
  - apply (pi_recvd_sent g s Hi).
Qed.

Lemma pinv_recv g s t e s' :
  wf_graph g -> pinv g s -> pstep g s (ERecv t e) = Some s' -> pinv g s'.
Proof.
  intros Hwf Hi H. apply pstep_recv_inv in H. destruct H as (k & Hp & Hn & Hs & Hr & ->).
  assert (t < length (ps_phase s)) as Hlt by (apply phase_of_lt; rewrite Hp; discriminate).
  assert (e < length (pg_edges g)) as He
    by (rewrite <- (pi_len_sent g s Hi); apply nth_true_lt; assumption).
  assert (k < length (in_edges g t)) as Hk by (apply nth_in_edges_lt; rewrite Hn; assumption).
  assert (snd (nth e (pg_edges g) (0, 0)) = t) as Hdst.
  { apply (in_edges_In g t e). rewrite <- Hn. apply nth_In. assumption. }
  set (s' := mk_pstate _ _ _ _).
  assert (forall t', phase_of s' t' = if Nat.eqb t t' then Receiving (S k) else phase_of s t') as Hph.
  { intros t'. unfold s'. rewrite phase_of_mk. apply nth_set_nth_phase. assumption. }
  constructor; cbn [ps_phase ps_sent ps_recvd ps_main s'].
  - rewrite set_nth_length. apply (pi_len_phase g s Hi).
  - apply (pi_len_sent g s Hi).
  - rewrite set_nth_length. apply (pi_len_recvd g s Hi).
  - apply (pi_main_le g s Hi).
  - intros t' Ht'. rewrite Hph. eqb_case t t' E.
    + split; [discriminate|]. intros Hm. apply (pi_notspawned g s Hi t Ht') in Hm. congruence.
    + apply (pi_notspawned g s Hi t' Ht').
  - intros t' Ht'. rewrite Hph. pose proof (pi_joined g s Hi t' Ht') as HD. eqb_case t t' E.
    + congruence.
    + assumption.
  - intros t' k'. rewrite Hph. eqb_case t t' E.
    + intros H. injection H as <-. lia.
    + apply (pi_recv_bound g s Hi).
  - intros t' k'. rewrite Hph. eqb_case t t' E.
    + discriminate.
    + apply (pi_send_bound g s Hi).
  - intros e' He'. rewrite (pi_sent g s Hi e' He'). unfold sent_spec. rewrite Hph.
    eqb_case t (fst (nth e' (pg_edges g) (0, 0))) E; [|tauto].
    rewrite <- E, Hp. tauto.
  - intros e' He'. rewrite nth_set_nth_true. rewrite (pi_recvd g s Hi e' He'). unfold recvd_spec.
    rewrite Hph. eqb_case t (snd (nth e' (pg_edges g) (0, 0))) E.
    + rewrite <- E, Hp. rewrite (firstn_S_In _ k e' (length (pg_edges g))). rewrite Hn.
      rewrite (pi_len_recvd g s Hi). tauto.
    + split; [|tauto]. intros [H|[H _]]; [assumption|]. subst e'. congruence.
  - intros e'. rewrite nth_set_nth_true. intros [H|[-> _]]; [|assumption].
    apply (pi_recvd_sent g s Hi). assumption.
Qed.

Lemma pinv_work g s t s' :
  wf_graph g -> pinv g s -> pstep g s (EWork t) = Some s' -> pinv g s'.
Proof.
  intros Hwf Hi H. apply pstep_work_inv in H. destruct H as (Hp & ->).
  assert (t < length (ps_phase s)) as Hlt by (apply phase_of_lt; rewrite Hp; discriminate).
  unfold set_phase. set (s' := mk_pstate _ _ _ _).
  assert (forall t', phase_of s' t' = if Nat.eqb t t' then Sending 0 else phase_of s t') as Hph.
  { intros t'. unfold s'. rewrite phase_of_mk. apply nth_set_nth_phase. assumption. }
  constructor; cbn [ps_phase ps_sent ps_recvd ps_main s'].
  - rewrite set_nth_length. apply (pi_len_phase g s Hi).
  - apply (pi_len_sent g s Hi).
  - apply (pi_len_recvd g s Hi).
  - apply (pi_main_le g s Hi).
  - intros t' Ht'. rewrite Hph. eqb_case t t' E.
    + split; [discriminate|]. intros Hm. apply (pi_notspawned g s Hi t Ht') in Hm. congruence.
    + apply (pi_notspawned g s Hi t' Ht').
  - intros t' Ht'. rewrite Hph. pose proof (pi_joined g s Hi t' Ht') as HD. eqb_case t t' E.
    + congruence.
    + assumption.
  - intros t' k'. rewrite Hph. eqb_case t t' E.
    + discriminate.
    + apply (pi_recv_bound g s Hi).
  - intros t' k'. rewrite Hph. eqb_case t t' E.
    + intros H. injection H as <-. lia.
    + apply (pi_send_bound g s Hi).
  - intros e' He'. rewrite (pi_sent g s Hi e' He'). unfold sent_spec. rewrite Hph.
    eqb_case t (fst (nth e' (pg_edges g) (0, 0))) E; [|tauto].
    rewrite <- E, Hp. cbn [firstn In]. tauto.
  - intros e' He'. rewrite (pi_recvd g s Hi e' He'). unfold recvd_spec. rewrite Hph.
    eqb_case t (snd (nth e' (pg_edges g) (0, 0))) E; [|tauto].
    rewrite <- E, Hp. rewrite firstn_all. split; [tauto|]. intros _.
    apply in_edges_In. split; [assumption|symmetry; assumption].
  - apply (pi_recvd_sent g s Hi).
Qed.

Lemma pinv_send g s t e s' :
  wf_graph g -> pinv g s -> pstep g s (ESend t e) = Some s' -> pinv g s'.
Proof.
  intros Hwf Hi H. apply pstep_send_inv in H. destruct H as (k & Hp & He & Hn & Ha & ->).
  assert (t < length (ps_phase s)) as Hlt by (apply phase_of_lt; rewrite Hp; discriminate).
  assert (k < length (out_edges g t)) as Hk by (apply nth_out_edges_lt; rewrite Hn; assumption).
  assert (fst (nth e (pg_edges g) (0, 0)) = t) as Hsrc.
  { apply (out_edges_In g t e). rewrite <- Hn. apply nth_In. assumption. }
  set (s' := mk_pstate _ _ _ _).
  assert (forall t', phase_of s' t' = if Nat.eqb t t' then Sending (S k) else phase_of s t') as Hph.
  { intros t'. unfold s'. rewrite phase_of_mk. apply nth_set_nth_phase. assumption. }
  constructor; cbn [ps_phase ps_sent ps_recvd ps_main s'].
  - rewrite set_nth_length. apply (pi_len_phase g s Hi).
  - rewrite set_nth_length. apply (pi_len_sent g s Hi).
  - apply (pi_len_recvd g s Hi).
  - apply (pi_main_le g s Hi).
  - intros t' Ht'. rewrite Hph. eqb_case t t' E.
    + split; [discriminate|]. intros Hm. apply (pi_notspawned g s Hi t Ht') in Hm. congruence.
    + apply (pi_notspawned g s Hi t' Ht').
  - intros t' Ht'. rewrite Hph. pose proof (pi_joined g s Hi t' Ht') as HD. eqb_case t t' E.
    + congruence.
    + assumption.
  - intros t' k'. rewrite Hph. eqb_case t t' E.
    + discriminate.
    + apply (pi_recv_bound g s Hi).
  - intros t' k'. rewrite Hph. eqb_case t t' E.
    + intros H. injection H as <-. lia.
    + apply (pi_send_bound g s Hi).
  - intros e' He'. rewrite nth_set_nth_true. rewrite (pi_sent g s Hi e' He'). unfold sent_spec.
    rewrite Hph. eqb_case t (fst (nth e' (pg_edges g) (0, 0))) E.
    + rewrite <- E, Hp. rewrite (firstn_S_In _ k e' (length (pg_edges g))). rewrite Hn.
      rewrite (pi_len_sent g s Hi). tauto.
    + split; [|tauto]. intros [H|[H _]]; [assumption|]. subst e'. congruence.
  - intros e' He'. rewrite (pi_recvd g s Hi e' He'). unfold recvd_spec. rewrite Hph.
    eqb_case t (snd (nth e' (pg_edges g) (0, 0))) E; [|tauto].
    rewrite <- E, Hp. tauto.
  - intros e' H. rewrite nth_set_nth_true. left. apply (pi_recvd_sent g s Hi). assumption.
Qed.

Lemma pinv_finish g s t s' :
  wf_graph g -> pinv g s -> pstep g s (EFinish t) = Some s' -> pinv g s'.
Proof.
  intros Hwf Hi H. apply pstep_finish_inv in H. destruct H as (Hp & ->).
  assert (t < length (ps_phase s)) as Hlt by (apply phase_of_lt; rewrite Hp; discriminate).
  unfold set_phase. set (s' := mk_pstate _ _ _ _).
  assert (forall t', phase_of s' t' = if Nat.eqb t t' then Done else phase_of s t') as Hph.
  { intros t'. unfold s'. rewrite phase_of_mk. apply nth_set_nth_phase. assumption. }
  constructor; cbn [ps_phase ps_sent ps_recvd ps_main s'].
  - rewrite set_nth_length. apply (pi_len_phase g s Hi).
  - apply (pi_len_sent g s Hi).
  - apply (pi_len_recvd g s Hi).
  - apply (pi_main_le g s Hi).
  - intros t' Ht'. rewrite Hph. eqb_case t t' E.
    + split; [discriminate|]. intros Hm. apply (pi_notspawned g s Hi t Ht') in Hm. congruence.
    + apply (pi_notspawned g s Hi t' Ht').
  - intros t' Ht'. rewrite Hph. eqb_case t t' E.
    + reflexivity.
    + apply (pi_joined g s Hi t' Ht').
  - intros t' k'. rewrite Hph. eqb_case t t' E.
    + discriminate.
    + apply (pi_recv_bound g s Hi).
  - intros t' k'. rewrite Hph. eqb_case t t' E.
    + discriminate.
    + apply (pi_send_bound g s Hi).
  - intros e' He'. rewrite (pi_sent g s Hi e' He'). unfold sent_spec. rewrite Hph.
    eqb_case t (fst (nth e' (pg_edges g) (0, 0))) E; [|tauto].
    rewrite <- E, Hp. rewrite firstn_all. split; [tauto|]. intros _.
    apply out_edges_In. split; [assumption|symmetry; assumption].
  - intros e' He'. rewrite (pi_recvd g s Hi e' He'). unfold recvd_spec. rewrite Hph.
    eqb_case t (snd (nth e' (pg_edges g) (0, 0))) E; [|tauto].
    rewrite <- E, Hp. tauto.
  - apply (pi_recvd_sent g s Hi).
Qed.

Lemma pinv_join g s t s' :
  wf_graph g -> pinv g s -> pstep g s (EJoin t) = Some s' -> pinv g s'.
Proof.
  intros Hwf Hi H. apply pstep_join_inv in H. destruct H as (Hm & Ht & Hp & ->).
  set (s' := mk_pstate _ _ _ _).
  assert (forall t', phase_of s' t' = phase_of s t') as Hph by reflexivity.
  constructor; cbn [ps_phase ps_sent ps_recvd ps_main s'].
  - apply (pi_len_phase g s Hi).
  - apply (pi_len_sent g s Hi).
  - apply (pi_len_recvd g s Hi).
  - lia.
  - intros t' Ht'. rewrite Hph. rewrite (pi_notspawned g s Hi t' Ht'). lia.
  - intros t' Ht'. rewrite Hph. destruct (Nat.eq_dec t' t) as [->|Hne]; [assumption|].
    apply (pi_joined g s Hi). lia.
  - intros t' k'. rewrite Hph. apply (pi_recv_bound g s Hi).
  - intros t' k'. rewrite Hph. apply (pi_send_bound g s Hi).
  - intros e' He'. rewrite (pi_sent g s Hi e' He'). apply iff_sym, sent_spec_ext. apply Hph.
  - intros e' He'. rewrite (pi_recvd g s Hi e' He'). apply iff_sym, recvd_spec_ext. apply Hph.
  - apply (pi_recvd_sent g s Hi).
Qed.

Theorem pinv_step g s ev s' :
  wf_graph g -> pinv g s -> pstep g s ev = Some s' -> pinv g s'.
Proof.
  intros Hwf Hi H. destruct ev as [t|t e|t|t e|t|t].
  - eapply pinv_spawn; eassumption.
  - eapply pinv_recv; eassumption.
  - eapply pinv_work; eassumption.
  - eapply pinv_send; eassumption.
  - eapply pinv_finish; eassumption.
  - eapply pinv_join; eassumption.
Qed.

Theorem pinv_reachable g s : wf_graph g -> reachable g s -> pinv g s.
Proof.
  intros Hwf Hr. induction Hr as [|s ev s' Hr IH Hs].
  - apply pinv_init. assumption.
  - eapply pinv_step; eassumption.
Qed.

Lemma pinv_run g s evs s' :
  wf_graph g -> pinv g s -> run_events g s evs = Some s' -> pinv g s'.
Proof.
  intros Hwf. revert s. induction evs as [|ev evs IH]; intros s Hi H; cbn [run_events] in H.
  - injection H as <-. assumption.
  - destruct (pstep g s ev) as [s1|] eqn:E; [|discriminate].
    apply (IH s1); [|assumption]. eapply pinv_step; eassumption.
Qed.

Lemma reachable_run g s evs s' :
  reachable g s -> run_events g s evs = Some s' -> reachable g s'.
Proof.
  revert s. induction evs as [|ev evs IH]; intros s Hr H; cbn [run_events] in H.
  - injection H as <-. assumption.
  - destruct (pstep g s ev) as [s1|] eqn:E; [|discriminate].
    apply (IH s1); [|assumption]. eapply reach_step; eassumption.
Qed.

Lemma reachable_iff_run g s :
  reachable g s <-> exists evs, run_events g (init_pstate g) evs = Some s.
Proof.
  split.
  - intros Hr. induction Hr as [|s ev s' Hr [evs IH] Hs].
    + exists []. reflexivity.
    + exists (evs ++ [ev]). clear Hr. revert IH. generalize (init_pstate g) as s0.
      induction evs as [|ev0 evs IHe]; intros s0 H; cbn [run_events app] in *.
      * injection H as ->. rewrite Hs. reflexivity.
      * destruct (pstep g s0 ev0) as [s1|]; [|discriminate]. apply IHe. assumption.
  - intros [evs H]. eapply reachable_run; [apply reach_init|eassumption].
Qed.

(* ------------------------------------------------------------------------------------------ *)
(* P2: no worker ever fails on a closed channel                                                 *)
(* ------------------------------------------------------------------------------------------ *)

Lemma pinv_no_send_failure g s t : pinv g s -> ~ send_would_fail g s t.
Proof.
  intros Hi (k & e & Hp & Hn & Ha).
  assert (In e (out_edges g t)) as Hin by (eapply nth_error_In; eassumption).
  assert (k < length (out_edges g t)) as Hk by (apply nth_error_Some; congruence).
  assert (nth k (out_edges g t) 0 = e) as Hnth by (apply nth_error_nth; assumption).
  apply out_edges_In in Hin. destruct Hin as [He Hsrc].
  assert (recvd_spec g s e) as Hrs.
  { unfold recvd_spec. unfold receiver_alive in Ha.
    destruct (phase_of s (snd (nth e (pg_edges g) (0, 0)))); try discriminate; exact I. }
  apply (pi_recvd g s Hi e He) in Hrs. apply (pi_recvd_sent g s Hi) in Hrs.
  apply (pi_sent g s Hi e He) in Hrs. unfold sent_spec in Hrs. rewrite Hsrc, Hp in Hrs.
  rewrite <- Hnth in Hrs. revert Hrs. apply NoDup_nth_not_firstn; [apply out_edges_NoDup|assumption].
Qed.

Lemma pinv_no_recv_failure g s t : pinv g s -> ~ recv_would_fail g s t.
Proof.
  intros Hi (k & e & Hp & Hn & Hs & Ha).
  assert (In e (in_edges g t)) as Hin by (eapply nth_error_In; eassumption).
  apply in_edges_In in Hin. destruct Hin as [He Hdst].
  assert (sent_spec g s e) as Hss.
  { unfold sent_spec. unfold sender_alive in Ha.
    destruct (phase_of s (fst (nth e (pg_edges g) (0, 0)))) as [| |k'|]; try discriminate; [|exact I].
    apply In_not_skipn_firstn.
    - apply out_edges_In. split; [assumption|reflexivity].
    - apply existsb_eqb_false. assumption. }
  apply (pi_sent g s Hi e He) in Hss. congruence.
Qed.

(* ------------------------------------------------------------------------------------------ *)
(* P3: deadlock freedom                                                                         *)
(* ------------------------------------------------------------------------------------------ *)

Lemma least_not_done s n :
  (forall t, t < n -> phase_of s t = Done) \/
  (exists t, t < n /\ phase_of s t <> Done /\ forall t', t' < t -> phase_of s t' = Done).
Proof.
  induction n as [|n IH].
  - left. intros t Ht. lia.
  - destruct IH as [IH|(t & Ht & Hnd & Hl)].
    + assert ({phase_of s n = Done} + {phase_of s n <> Done}) as [Hd|Hd]
        by (destruct (phase_of s n); (left; reflexivity) || (right; discriminate)).
      * left. intros t Ht. destruct (Nat.eq_dec t n) as [->|Hne]; [assumption|]. apply IH. lia.
      * right. exists n. split; [lia|]. split; assumption.
    + right. exists t. split; [lia|]. split; assumption.
Qed.

(* a worker all of whose predecessors are Done can move *)
Lemma worker_enabled g s t :
  wf_graph g -> pinv g s -> t < pg_n g -> pg_n g <= ps_main s -> phase_of s t <> Done ->
  (forall t', t' < t -> phase_of s t' = Done) ->
  exists ev s', pstep g s ev = Some s'.
Proof.
  intros Hwf Hi Ht Hm Hnd Hl. destruct (phase_of s t) as [|k|k|] eqn:Hp.
  - apply (pi_notspawned g s Hi t Ht) in Hp. lia.
  - pose proof (pi_recv_bound g s Hi t k Hp) as Hk.
    destruct (Nat.eq_dec k (length (in_edges g t))) as [->|Hne].
    + exists (EWork t). eexists. cbn [pstep]. rewrite Hp, Nat.eqb_refl. reflexivity.
    + assert (k < length (in_edges g t)) as Hk' by lia.
      set (e := nth k (in_edges g t) (length (pg_edges g))).
      assert (In e (in_edges g t)) as Hin by (apply nth_In; assumption).
      apply in_edges_In in Hin. destruct Hin as [He Hdst].
      destruct (wf_graph_edge g e Hwf He) as [Hlt _].
      assert (nth e (ps_sent s) false = true) as Hs.
      { apply (pi_sent g s Hi e He). unfold sent_spec. rewrite Hl by lia. exact I. }
      assert (nth e (ps_recvd s) true = false) as Hr.
      { rewrite (nth_indep _ true false) by (rewrite (pi_len_recvd g s Hi); assumption).
        destruct (nth e (ps_recvd s) false) eqn:Er; [|reflexivity]. exfalso.
        apply (pi_recvd g s Hi e He) in Er. unfold recvd_spec in Er. rewrite Hdst, Hp in Er.
        revert Er. apply NoDup_nth_not_firstn; [apply in_edges_NoDup|assumption]. }
      exists (ERecv t e). eexists. cbn [pstep]. rewrite Hp. fold e.
      rewrite Nat.eqb_refl, Hs, Hr. reflexivity.
  - pose proof (pi_send_bound g s Hi t k Hp) as Hk.
    destruct (Nat.eq_dec k (length (out_edges g t))) as [->|Hne].
    + exists (EFinish t). eexists. cbn [pstep]. rewrite Hp, Nat.eqb_refl. reflexivity.
    + assert (k < length (out_edges g t)) as Hk' by lia.
      set (e := nth k (out_edges g t) (length (pg_edges g))).
      assert (In e (out_edges g t)) as Hin by (apply nth_In; assumption).
      apply out_edges_In in Hin. destruct Hin as [He Hsrc].
      assert (receiver_alive g s e = true) as Ha.
      { destruct (receiver_alive g s e) eqn:Ea; [reflexivity|]. exfalso.
        apply (pinv_no_send_failure g s t Hi). exists k, e. split; [assumption|]. split; [|assumption].
        unfold e. apply nth_error_nth'. assumption. }
      exists (ESend t e). eexists. cbn [pstep]. rewrite Hp. fold e.
      apply Nat.ltb_lt in He. rewrite He, Nat.eqb_refl, Ha. reflexivity.
  - congruence.
Qed.

Lemma pinv_deadlock_free g s :
  wf_graph g -> pinv g s -> finished g s = true \/ exists ev s', pstep g s ev = Some s'.
Proof.
  intros Hwf Hi. destruct (Nat.lt_ge_cases (ps_main s) (pg_n g)) as [Hm|Hm].
  - right. exists (ESpawn (ps_main s)). eexists. cbn [pstep]. rewrite Nat.eqb_refl.
    apply Nat.ltb_lt in Hm. rewrite Hm. reflexivity.
  - destruct (Nat.eq_dec (ps_main s) (2 * pg_n g)) as [He|Hne].
    + left. unfold finished. apply Nat.eqb_eq. assumption.
    + right. pose proof (pi_main_le g s Hi) as Hle.
      destruct (least_not_done s (pg_n g)) as [Hall|(t & Ht & Hnd & Hl)].
      * exists (EJoin (ps_main s - pg_n g)). eexists. cbn [pstep].
        replace (pg_n g + (ps_main s - pg_n g)) with (ps_main s) by lia.
        rewrite Nat.eqb_refl. assert (ps_main s - pg_n g < pg_n g) as Hj by lia.
        rewrite (Hall _ Hj). apply Nat.ltb_lt in Hj. rewrite Hj. reflexivity.
      * eapply worker_enabled; eassumption.
Qed.

(* ------------------------------------------------------------------------------------------ *)
(* P4: every step decreases a measure, so runs are bounded                                      *)
(* ------------------------------------------------------------------------------------------ *)

(* remaining program steps of worker t when it is in phase p (spawning is a step of main) *)
Definition wmeasure (g : pgraph) (t : nat) (p : phase) : nat :=
  match p with
  | NotSpawned => length (in_edges g t) + length (out_edges g t) + 2
  | Receiving k => (length (in_edges g t) - k) + length (out_edges g t) + 2
  | Sending k => (length (out_edges g t) - k) + 1
  | Done => 0
  end.

Fixpoint wsum (g : pgraph) (l : list phase) (i : nat) : nat :=
  match l with
  | [] => 0
  | p :: r => wmeasure g i p + wsum g r (S i)
  end.

(* remaining steps of main (n spawns, n joins) + remaining steps of all workers *)
Definition measure (g : pgraph) (s : pstate) : nat :=
  (2 * pg_n g - ps_main s) + wsum g (ps_phase s) 0.

Lemma wsum_set_nth g l t p' i :
  t < length l ->
  wsum g (set_nth l t p') i + wmeasure g (i + t) (nth t l Done) = wsum g l i + wmeasure g (i + t) p'.
Proof.
  revert t i; induction l as [|p r IH]; intros t i Ht; cbn [length] in Ht; [lia|].
  destruct t as [|t]; cbn [set_nth wsum nth].
  - rewrite Nat.add_0_r. lia.
  - specialize (IH t (S i)). replace (S i + t) with (i + S t) in IH by lia.
    assert (t < length r) as Ht' by lia. specialize (IH Ht'). lia.
Qed.

Lemma wsum_phase_change g s t p p' st rc :
  phase_of s t = p -> p <> Done ->
  wsum g (ps_phase (mk_pstate (set_nth (ps_phase s) t p') st rc (ps_main s))) 0 + wmeasure g t p =
  wsum g (ps_phase s) 0 + wmeasure g t p'.
Proof.
  intros Hp Hnd. cbn [ps_phase]. unfold phase_of in Hp. rewrite <- Hp.
  apply (wsum_set_nth g (ps_phase s) t p' 0). apply phase_of_lt. unfold phase_of. congruence.
Qed.

Lemma pinv_measure_step_exact g s ev s' :
  wf_graph g -> pinv g s -> pstep g s ev = Some s' -> S (measure g s') = measure g s.
Proof.
  intros Hwf Hi H. unfold measure. destruct ev as [t|t e|t|t e|t|t].
  - apply pstep_spawn_inv in H. destruct H as (Hm & Ht & ->).
    assert (phase_of s t = NotSpawned) as Hp by (apply (pi_notspawned g s Hi); lia).
    pose proof (wsum_set_nth g (ps_phase s) t (Receiving 0) 0) as Hw.
    unfold phase_of in Hp. rewrite Hp in Hw. cbn [plus wmeasure] in Hw.
    rewrite (pi_len_phase g s Hi) in Hw. specialize (Hw Ht). cbn [ps_phase ps_main]. lia.
  - apply pstep_recv_inv in H. destruct H as (k & Hp & Hn & Hs & Hr & ->).
    assert (e < length (pg_edges g)) as He
      by (rewrite <- (pi_len_sent g s Hi); apply nth_true_lt; assumption).
    assert (k < length (in_edges g t)) as Hk by (apply nth_in_edges_lt; rewrite Hn; assumption).
    pose proof (wsum_phase_change g s t (Receiving k) (Receiving (S k)) (ps_sent s)
                  (set_nth (ps_recvd s) e true) Hp) as Hw.
    cbn [wmeasure] in Hw. cbn [ps_main ps_phase] in *. assert (Receiving k <> Done) as Hd by discriminate.
    specialize (Hw Hd). lia.
  - apply pstep_work_inv in H. destruct H as (Hp & ->). unfold set_phase.
    pose proof (wsum_phase_change g s t _ (Sending 0) (ps_sent s) (ps_recvd s) Hp) as Hw.
    cbn [wmeasure] in Hw. cbn [ps_main ps_phase] in *.
    assert (Receiving (length (in_edges g t)) <> Done) as Hd by discriminate.
    specialize (Hw Hd). lia.
  - apply pstep_send_inv in H. destruct H as (k & Hp & He & Hn & Ha & ->).
    assert (k < length (out_edges g t)) as Hk by (apply nth_out_edges_lt; rewrite Hn; assumption).
    pose proof (wsum_phase_change g s t (Sending k) (Sending (S k)) (set_nth (ps_sent s) e true)
                  (ps_recvd s) Hp) as Hw.
    cbn [wmeasure] in Hw. cbn [ps_main ps_phase] in *. assert (Sending k <> Done) as Hd by discriminate.
    specialize (Hw Hd). lia.
  - apply pstep_finish_inv in H. destruct H as (Hp & ->). unfold set_phase.
    pose proof (wsum_phase_change g s t _ Done (ps_sent s) (ps_recvd s) Hp) as Hw.
    cbn [wmeasure] in Hw. cbn [ps_main ps_phase] in *.
    assert (Sending (length (out_edges g t)) <> Done) as Hd by discriminate.
    specialize (Hw Hd). lia.
  - apply pstep_join_inv in H. destruct H as (Hm & Ht & Hp & ->). cbn [ps_main ps_phase]. lia.
Qed.

Lemma pinv_measure_step g s ev s' :
  wf_graph g -> pinv g s -> pstep g s ev = Some s' -> measure g s' < measure g s.
Proof. intros Hwf Hi H. pose proof (pinv_measure_step_exact g s ev s' Hwf Hi H). lia. Qed.

Lemma pinv_run_length g s evs s' :
  wf_graph g -> pinv g s -> run_events g s evs = Some s' -> length evs + measure g s' = measure g s.
Proof.
  intros Hwf. revert s. induction evs as [|ev evs IH]; intros s Hi H; cbn [run_events length] in *.
  - injection H as <-. lia.
  - destruct (pstep g s ev) as [s1|] eqn:E; [|discriminate].
    pose proof (pinv_measure_step_exact g s ev s1 Hwf Hi E) as Hlt.
    pose proof (pinv_step g s ev s1 Hwf Hi E) as Hi1.
    specialize (IH s1 Hi1 H). lia.
Qed.

(* closed form of the bound: 2n steps of main, and per worker its in-edges, its out-edges, work, finish *)
Lemma wsum_repeat_NotSpawned g n i :
  wsum g (repeat NotSpawned n) i =
  list_sum (map (fun t => length (in_edges g t) + length (out_edges g t) + 2) (seq i n)).
Proof.
  revert i; induction n as [|n IH]; intros i; cbn [repeat wsum seq map list_sum]; [reflexivity|].
  rewrite IH. reflexivity.
Qed.

Lemma measure_init g :
  measure g (init_pstate g) =
  2 * pg_n g + list_sum (map (fun t => length (in_edges g t) + length (out_edges g t) + 2) (seq 0 (pg_n g))).
Proof.
  unfold measure, init_pstate. cbn [ps_main ps_phase]. rewrite wsum_repeat_NotSpawned. lia.
Qed.

Lemma wsum_repeat_Done g n i : wsum g (repeat Done n) i = 0.
Proof. revert i; induction n as [|n IH]; intros i; cbn [repeat wsum wmeasure plus]; [reflexivity|apply IH]. Qed.

(* ------------------------------------------------------------------------------------------ *)
(* which events have happened can be read off the state                                         *)
(* ------------------------------------------------------------------------------------------ *)

Definition event_eq_dec : forall a b : event, {a = b} + {a <> b}.
Proof. decide equality; apply Nat.eq_dec. Defined.

Definition worked (p : phase) : bool :=
  match p with
  | Sending _ | Done => true
  | _ => false
  end.

Definition occurred (g : pgraph) (s : pstate) (ev : event) : Prop :=
  match ev with
  | ESpawn t => t < ps_main s /\ t < pg_n g
  | ERecv t e => e < length (pg_edges g) /\ snd (nth e (pg_edges g) (0, 0)) = t /\
                 nth e (ps_recvd s) false = true
  | EWork t => t < pg_n g /\ worked (phase_of s t) = true
  | ESend t e => e < length (pg_edges g) /\ fst (nth e (pg_edges g) (0, 0)) = t /\
                 nth e (ps_sent s) false = true
  | EFinish t => t < pg_n g /\ phase_of s t = Done
  | EJoin t => pg_n g + t < ps_main s
  end.

Lemma iff_or_false (P Q R : Prop) : (P <-> Q) -> ~ R -> (P <-> Q \/ R).
Proof. tauto. Qed.

Lemma occ_work_upd s s' t p p' n :
  (forall t', phase_of s' t' = if Nat.eqb t t' then p' else phase_of s t') ->
  phase_of s t = p -> t < n -> (worked p = true -> worked p' = true) ->
  forall t', (t' < n /\ worked (phase_of s' t') = true) <->
             (t' < n /\ worked (phase_of s t') = true) \/ (t' = t /\ worked p = false /\ worked p' = true).
Proof.
  intros Hph Hp Ht Hmono t'. rewrite Hph. eqb_case t t' E.
  - rewrite Hp. destruct (worked p), (worked p'); intuition congruence.
  - intuition congruence.
Qed.

Lemma occ_done_upd s s' t p p' n :
  (forall t', phase_of s' t' = if Nat.eqb t t' then p' else phase_of s t') ->
  phase_of s t = p -> t < n -> p <> Done ->
  forall t', (t' < n /\ phase_of s' t' = Done) <->
             (t' < n /\ phase_of s t' = Done) \/ (t' = t /\ p' = Done).
Proof.
  intros Hph Hp Ht Hnd t'. rewrite Hph. eqb_case t t' E.
  - rewrite Hp. intuition congruence.
  - intuition congruence.
Qed.

Lemma occurred_step g s ev s' :
  wf_graph g -> pinv g s -> pstep g s ev = Some s' ->
  forall ev', occurred g s' ev' <-> occurred g s ev' \/ ev' = ev.
Proof.
  intros Hwf Hi H. destruct ev as [t|t e|t|t e|t|t].
  - (* ESpawn *)
    apply pstep_spawn_inv in H. destruct H as (Hm & Htn & ->).
    assert (t < length (ps_phase s)) as Hlt by (rewrite (pi_len_phase g s Hi); assumption).
    assert (phase_of s t = NotSpawned) as HNS by (apply (pi_notspawned g s Hi); lia).
    set (s' := mk_pstate _ _ _ _).
    assert (forall t', phase_of s' t' = if Nat.eqb t t' then Receiving 0 else phase_of s t') as Hph.
    { intros t'. unfold s'. rewrite phase_of_mk. apply nth_set_nth_phase. assumption. }
    intros [t'|t' e'|t'|t' e'|t'|t']; cbn [occurred].
    + cbn [s' ps_main]. split.
      * intros [H1 H2]. destruct (Nat.eq_dec t' t) as [->|Hne]; [right; reflexivity|left; lia].
      * intros [[H1 H2]|H]; [lia|]. injection H as ->. lia.
    + apply iff_or_false; [reflexivity|discriminate].
    + rewrite (occ_work_upd s s' t NotSpawned (Receiving 0) (pg_n g) Hph HNS Htn) by (cbn; congruence).
      cbn [worked]. intuition congruence.
    + apply iff_or_false; [reflexivity|discriminate].
    + rewrite (occ_done_upd s s' t NotSpawned (Receiving 0) (pg_n g) Hph HNS Htn) by discriminate.
      intuition congruence.
    + cbn [s' ps_main]. split; [lia|]. intros [H|H]; [lia|discriminate].
  - (* ERecv *)
    apply pstep_recv_inv in H. destruct H as (k & Hp & Hn & Hs & Hr & ->).
    assert (t < length (ps_phase s)) as Hlt by (apply phase_of_lt; rewrite Hp; discriminate).
    assert (t < pg_n g) as Htn by (rewrite <- (pi_len_phase g s Hi); assumption).
    assert (e < length (pg_edges g)) as He
      by (rewrite <- (pi_len_sent g s Hi); apply nth_true_lt; assumption).
    assert (k < length (in_edges g t)) as Hk by (apply nth_in_edges_lt; rewrite Hn; assumption).
    assert (snd (nth e (pg_edges g) (0, 0)) = t) as Hdst.
    { apply (in_edges_In g t e). rewrite <- Hn. apply nth_In. assumption. }
    set (s' := mk_pstate _ _ _ _).
    assert (forall t', phase_of s' t' = if Nat.eqb t t' then Receiving (S k) else phase_of s t') as Hph.
    { intros t'. unfold s'. rewrite phase_of_mk. apply nth_set_nth_phase. assumption. }
    intros [t'|t' e'|t'|t' e'|t'|t']; cbn [occurred].
    + apply iff_or_false; [reflexivity|discriminate].
    + cbn [s' ps_recvd]. rewrite nth_set_nth_true. rewrite (pi_len_recvd g s Hi). split.
      * intros (H1 & H2 & [H3|[H3 H4]]); [left; auto|]. right. subst e'. congruence.
      * intros [(H1 & H2 & H3)|H]; [auto|]. injection H as -> ->. auto.
    + rewrite (occ_work_upd s s' t _ (Receiving (S k)) (pg_n g) Hph Hp Htn) by (cbn; congruence).
      cbn [worked]. intuition congruence.
    + apply iff_or_false; [reflexivity|discriminate].
    + rewrite (occ_done_upd s s' t _ (Receiving (S k)) (pg_n g) Hph Hp Htn) by discriminate.
      intuition congruence.
    + apply iff_or_false; [reflexivity|discriminate].
  - (* EWork *)
    apply pstep_work_inv in H. destruct H as (Hp & ->).
    assert (t < length (ps_phase s)) as Hlt by (apply phase_of_lt; rewrite Hp; discriminate).
    assert (t < pg_n g) as Htn by (rewrite <- (pi_len_phase g s Hi); assumption).
    unfold set_phase. set (s' := mk_pstate _ _ _ _).
    assert (forall t', phase_of s' t' = if Nat.eqb t t' then Sending 0 else phase_of s t') as Hph.
    { intros t'. unfold s'. rewrite phase_of_mk. apply nth_set_nth_phase. assumption. }
    intros [t'|t' e'|t'|t' e'|t'|t']; cbn [occurred].
    + apply iff_or_false; [reflexivity|discriminate].
    + apply iff_or_false; [reflexivity|discriminate].
    + rewrite (occ_work_upd s s' t _ (Sending 0) (pg_n g) Hph Hp Htn) by (cbn; congruence).
      cbn [worked]. split.
      * intros [H|(-> & _)]; [left; assumption|right; reflexivity].
      * intros [H|H]; [left; assumption|]. injection H as ->. right. auto.
    + apply iff_or_false; [reflexivity|discriminate].
    + rewrite (occ_done_upd s s' t _ (Sending 0) (pg_n g) Hph Hp Htn) by discriminate.
      intuition congruence.
    + apply iff_or_false; [reflexivity|discriminate].
  - (* ESend *)
    apply pstep_send_inv in H. destruct H as (k & Hp & He & Hn & Ha & ->).
    assert (t < length (ps_phase s)) as Hlt by (apply phase_of_lt; rewrite Hp; discriminate).
    assert (t < pg_n g) as Htn by (rewrite <- (pi_len_phase g s Hi); assumption).
    assert (k < length (out_edges g t)) as Hk by (apply nth_out_edges_lt; rewrite Hn; assumption).
    assert (fst (nth e (pg_edges g) (0, 0)) = t) as Hsrc.
    { apply (out_edges_In g t e). rewrite <- Hn. apply nth_In. assumption. }
    set (s' := mk_pstate _ _ _ _).
    assert (forall t', phase_of s' t' = if Nat.eqb t t' then Sending (S k) else phase_of s t') as Hph.
    { intros t'. unfold s'. rewrite phase_of_mk. apply nth_set_nth_phase. assumption. }
    intros [t'|t' e'|t'|t' e'|t'|t']; cbn [occurred].
    + apply iff_or_false; [reflexivity|discriminate].
    + apply iff_or_false; [reflexivity|discriminate].
    + rewrite (occ_work_upd s s' t _ (Sending (S k)) (pg_n g) Hph Hp Htn) by (cbn; congruence).
      cbn [worked]. intuition congruence.
    + cbn [s' ps_sent]. rewrite nth_set_nth_true. rewrite (pi_len_sent g s Hi). split.
      * intros (H1 & H2 & [H3|[H3 H4]]); [left; auto|]. right. subst e'. congruence.
      * intros [(H1 & H2 & H3)|H]; [auto|]. injection H as -> ->. auto.
    + rewrite (occ_done_upd s s' t _ (Sending (S k)) (pg_n g) Hph Hp Htn) by discriminate.
      intuition congruence.
    + apply iff_or_false; [reflexivity|discriminate].
  - (* EFinish *)
    apply pstep_finish_inv in H. destruct H as (Hp & ->).
    assert (t < length (ps_phase s)) as Hlt by (apply phase_of_lt; rewrite Hp; discriminate).
    assert (t < pg_n g) as Htn by (rewrite <- (pi_len_phase g s Hi); assumption).
    unfold set_phase. set (s' := mk_pstate _ _ _ _).
    assert (forall t', phase_of s' t' = if Nat.eqb t t' then Done else phase_of s t') as Hph.
    { intros t'. unfold s'. rewrite phase_of_mk. apply nth_set_nth_phase. assumption. }
    intros [t'|t' e'|t'|t' e'|t'|t']; cbn [occurred].
    + apply iff_or_false; [reflexivity|discriminate].
    + apply iff_or_false; [reflexivity|discriminate].
    + rewrite (occ_work_upd s s' t _ Done (pg_n g) Hph Hp Htn) by (cbn; congruence).
      cbn [worked]. intuition congruence.
    + apply iff_or_false; [reflexivity|discriminate].
    + rewrite (occ_done_upd s s' t _ Done (pg_n g) Hph Hp Htn) by discriminate. split.
      * intros [H|(-> & _)]; [left; assumption|right; reflexivity].
      * intros [H|H]; [left; assumption|]. injection H as ->. right. auto.
    + apply iff_or_false; [reflexivity|discriminate].
  - (* EJoin *)
    apply pstep_join_inv in H. destruct H as (Hm & Ht & Hp & ->).
    intros [t'|t' e'|t'|t' e'|t'|t']; cbn [occurred ps_main ps_sent ps_recvd].
    + split; [lia|]. intros [H|H]; [lia|discriminate].
    + apply iff_or_false; [reflexivity|discriminate].
    + apply iff_or_false; [reflexivity|discriminate].
    + apply iff_or_false; [reflexivity|discriminate].
    + apply iff_or_false; [reflexivity|discriminate].
    + split.
      * intros H. destruct (Nat.eq_dec t' t) as [->|Hne]; [right; reflexivity|left; lia].
      * intros [H|H]; [lia|]. injection H as ->. lia.
Qed.

(* an enabled event has not happened before *)
Lemma enabled_not_occurred g s ev s' :
  pinv g s -> pstep g s ev = Some s' -> ~ occurred g s ev.
Proof.
  intros Hi H. destruct ev as [t|t e|t|t e|t|t]; cbn [occurred].
  - apply pstep_spawn_inv in H. destruct H as (Hm & Htn & _). lia.
  - apply pstep_recv_inv in H. destruct H as (k & Hp & Hn & Hs & Hr & _).
    intros (He & _ & Hr'). rewrite (nth_indep _ true false) in Hr by (rewrite (pi_len_recvd g s Hi); assumption).
    congruence.
  - apply pstep_work_inv in H. destruct H as (Hp & _). rewrite Hp. cbn [worked]. intros [_ H]. discriminate.
  - apply pstep_send_inv in H. destruct H as (k & Hp & He & Hn & Ha & _).
    assert (k < length (out_edges g t)) as Hk by (apply nth_out_edges_lt; rewrite Hn; assumption).
    intros (_ & Hsrc & Hs). apply (pi_sent g s Hi e He) in Hs. unfold sent_spec in Hs.
    rewrite Hsrc, Hp in Hs. rewrite <- Hn in Hs. revert Hs.
    apply NoDup_nth_not_firstn; [apply out_edges_NoDup|assumption].
  - apply pstep_finish_inv in H. destruct H as (Hp & _). rewrite Hp. intros [_ H]. discriminate.
  - apply pstep_join_inv in H. destruct H as (Hm & _). lia.
Qed.

Lemma occurred_init g ev : ~ occurred g (init_pstate g) ev.
Proof.
  assert (forall t, t < pg_n g -> phase_of (init_pstate g) t = NotSpawned) as Hph.
  { intros t Ht. unfold init_pstate. rewrite phase_of_mk, nth_repeat_phase.
    apply Nat.ltb_lt in Ht. rewrite Ht. reflexivity. }
  destruct ev as [t|t e|t|t e|t|t]; cbn [occurred].
  - unfold init_pstate; cbn [ps_main]. lia.
  - intros (He & _ & H). unfold init_pstate in H; cbn [ps_recvd] in H.
    rewrite nth_repeat_false in H by assumption. discriminate.
  - intros [Ht H]. rewrite (Hph t Ht) in H. discriminate.
  - intros (He & _ & H). unfold init_pstate in H; cbn [ps_sent] in H.
    rewrite nth_repeat_false in H by assumption. discriminate.
  - intros [Ht H]. rewrite (Hph t Ht) in H. discriminate.
  - unfold init_pstate; cbn [ps_main]. lia.
Qed.

Lemma run_occurred g s evs s' :
  wf_graph g -> pinv g s -> run_events g s evs = Some s' ->
  forall ev, occurred g s' ev <-> occurred g s ev \/ In ev evs.
Proof.
  intros Hwf. revert s. induction evs as [|ev0 evs IH]; intros s Hi H ev; cbn [run_events In] in *.
  - injection H as <-. tauto.
  - destruct (pstep g s ev0) as [s1|] eqn:E; [|discriminate].
    pose proof (pinv_step g s ev0 s1 Hwf Hi E) as Hi1.
    rewrite (IH s1 Hi1 H ev). rewrite (occurred_step g s ev0 s1 Hwf Hi E ev).
    split.
    + intros [[H1|H1]|H1]; [left; assumption|right; left; symmetry; assumption|right; right; assumption].
    + intros [H1|[H1|H1]]; [left; left; assumption|left; right; symmetry; assumption|right; assumption].
Qed.

(* no event happens twice *)
Lemma run_NoDup_gen g s evs s' :
  wf_graph g -> pinv g s -> run_events g s evs = Some s' ->
  NoDup evs /\ forall ev, In ev evs -> ~ occurred g s ev.
Proof.
  intros Hwf. revert s. induction evs as [|ev0 evs IH]; intros s Hi H; cbn [run_events] in *.
  - split; [constructor|]. intros ev [].
  - destruct (pstep g s ev0) as [s1|] eqn:E; [|discriminate].
    pose proof (pinv_step g s ev0 s1 Hwf Hi E) as Hi1.
    destruct (IH s1 Hi1 H) as [Hnd Hno]. split.
    + constructor; [|assumption]. intros Hin. apply (Hno ev0 Hin).
      apply (occurred_step g s ev0 s1 Hwf Hi E). right; reflexivity.
    + intros ev [<-|Hin].
      * eapply enabled_not_occurred; eassumption.
      * intros Ho. apply (Hno ev Hin). apply (occurred_step g s ev0 s1 Hwf Hi E). left; assumption.
Qed.

Lemma run_init_occurred g evs s :
  wf_graph g -> run_events g (init_pstate g) evs = Some s ->
  forall ev, In ev evs <-> occurred g s ev.
Proof.
  intros Hwf H ev. rewrite (run_occurred g _ evs s Hwf (pinv_init g Hwf) H ev).
  pose proof (occurred_init g ev). tauto.
Qed.

Lemma run_init_NoDup g evs s :
  wf_graph g -> run_events g (init_pstate g) evs = Some s -> NoDup evs.
Proof.
  intros Hwf H. apply (run_NoDup_gen g _ evs s Hwf (pinv_init g Hwf) H).
Qed.

Lemma run_events_app g s a b s' :
  run_events g s (a ++ b) = Some s' ->
  exists s1, run_events g s a = Some s1 /\ run_events g s1 b = Some s'.
Proof.
  revert s. induction a as [|ev a IH]; intros s H; cbn [run_events app] in *.
  - exists s. auto.
  - destruct (pstep g s ev) as [s1|]; [|discriminate]. apply IH. assumption.
Qed.

(* ------------------------------------------------------------------------------------------ *)
(* P5: work order                                                                               *)
(* ------------------------------------------------------------------------------------------ *)

Lemma work_order g evs s i t e :
  wf_graph g -> run_events g (init_pstate g) evs = Some s ->
  nth_error evs i = Some (EWork t) -> In e (in_edges g t) ->
  exists j, j < i /\ nth_error evs j = Some (EWork (fst (nth e (pg_edges g) (0, 0)))).
Proof.
  intros Hwf Hrun Hi Hin.
  apply nth_error_split in Hi. destruct Hi as (pre & post & -> & Hlen).
  apply run_events_app in Hrun. destruct Hrun as (s1 & Hpre & Hpost).
  pose proof (pinv_run g _ pre s1 Hwf (pinv_init g Hwf) Hpre) as Hi1.
  cbn [run_events] in Hpost. destruct (pstep g s1 (EWork t)) as [s2|] eqn:E; [|discriminate].
  apply pstep_work_inv in E. destruct E as (Hp & _).
  apply in_edges_In in Hin. destruct Hin as [He Hdst].
  destruct (wf_graph_edge g e Hwf He) as [Hlt Hltn].
  assert (nth e (ps_sent s1) false = true) as Hs.
  { apply (pi_recvd_sent g s1 Hi1). apply (pi_recvd g s1 Hi1 e He). unfold recvd_spec.
    rewrite Hdst, Hp. rewrite firstn_all. apply in_edges_In. auto. }
  apply (pi_sent g s1 Hi1 e He) in Hs. unfold sent_spec in Hs.
  assert (occurred g s1 (EWork (fst (nth e (pg_edges g) (0, 0))))) as Ho.
  { cbn [occurred]. split; [lia|].
    destruct (phase_of s1 (fst (nth e (pg_edges g) (0, 0)))); try contradiction; reflexivity. }
  apply (run_init_occurred g pre s1 Hwf Hpre) in Ho. apply In_nth_error in Ho. destruct Ho as [j Hj].
  assert (j < length pre) as Hjl by (apply nth_error_Some; congruence).
  exists j. split; [lia|]. rewrite nth_error_app1 by assumption. assumption.
Qed.

Lemma work_once g evs s t :
  wf_graph g -> run_events g (init_pstate g) evs = Some s ->
  count_occ event_eq_dec evs (EWork t) <= 1.
Proof.
  intros Hwf Hrun. apply NoDup_count_occ. eapply run_init_NoDup; eassumption.
Qed.

(* ------------------------------------------------------------------------------------------ *)
(* P6: every complete execution consists of the same events and ends in the same state          *)
(* ------------------------------------------------------------------------------------------ *)

Definition final_pstate (g : pgraph) : pstate :=
  mk_pstate (repeat Done (pg_n g)) (repeat true (length (pg_edges g)))
            (repeat true (length (pg_edges g))) (2 * pg_n g).

Lemma list_eq_repeat {A} (l : list A) n x d :
  length l = n -> (forall i, i < n -> nth i l d = x) -> l = repeat x n.
Proof.
  revert n; induction l as [|y r IH]; intros n Hl Hn; cbn [length] in Hl; subst n; [reflexivity|].
  cbn [repeat]. f_equal.
  - apply (Hn 0). lia.
  - apply IH; [reflexivity|]. intros i Hi. apply (Hn (S i)). lia.
Qed.

Lemma finished_state_unique g s :
  wf_graph g -> pinv g s -> finished g s = true -> s = final_pstate g.
Proof.
  intros Hwf Hi Hf. unfold finished in Hf. apply Nat.eqb_eq in Hf.
  assert (forall t, t < pg_n g -> phase_of s t = Done) as Hd.
  { intros t Ht. apply (pi_joined g s Hi). lia. }
  destruct s as [ph st rc m]. unfold final_pstate. cbn [ps_main] in Hf. subst m. f_equal.
  - apply (list_eq_repeat ph (pg_n g) Done Done); [apply (pi_len_phase g _ Hi)|]. exact Hd.
  - apply (list_eq_repeat st _ true false); [apply (pi_len_sent g _ Hi)|].
    intros e He. apply (pi_sent g _ Hi e He). unfold sent_spec.
    destruct (wf_graph_edge g e Hwf He) as [Hlt Hltn]. rewrite Hd by lia. exact I.
  - apply (list_eq_repeat rc _ true false); [apply (pi_len_recvd g _ Hi)|].
    intros e He. apply (pi_recvd g _ Hi e He). unfold recvd_spec.
    destruct (wf_graph_edge g e Hwf He) as [Hlt Hltn]. rewrite Hd by lia. exact I.
Qed.

(* the fixed set of events of a complete execution *)
Definition event_of_graph (g : pgraph) (ev : event) : Prop :=
  match ev with
  | ESpawn t | EWork t | EFinish t | EJoin t => t < pg_n g
  | ERecv t e => e < length (pg_edges g) /\ snd (nth e (pg_edges g) (0, 0)) = t
  | ESend t e => e < length (pg_edges g) /\ fst (nth e (pg_edges g) (0, 0)) = t
  end.

Lemma nth_repeat_true n e : e < n -> nth e (repeat true n) false = true.
Proof.
  revert e; induction n as [|n IH]; intros [|e] H; cbn [repeat nth]; auto; try lia.
  apply IH. lia.
Qed.

Lemma occurred_final g ev : occurred g (final_pstate g) ev <-> event_of_graph g ev.
Proof.
  assert (forall t, phase_of (final_pstate g) t = Done) as Hph.
  { intros t. unfold final_pstate. rewrite phase_of_mk. generalize (pg_n g) as n.
    intros n; revert t; induction n as [|n IH]; intros [|t]; cbn [repeat nth]; auto. }
  destruct ev as [t|t e|t|t e|t|t]; cbn [occurred event_of_graph]; rewrite ?Hph;
    unfold final_pstate; cbn [ps_main ps_sent ps_recvd worked].
  - lia.
  - split; [tauto|]. intros [H1 H2]. rewrite nth_repeat_true by assumption. auto.
  - tauto.
  - split; [tauto|]. intros [H1 H2]. rewrite nth_repeat_true by assumption. auto.
  - tauto.
  - lia.
Qed.

Lemma finished_run_events g evs s :
  wf_graph g -> run_events g (init_pstate g) evs = Some s -> finished g s = true ->
  NoDup evs /\ forall ev, In ev evs <-> event_of_graph g ev.
Proof.
  intros Hwf Hrun Hf. split; [eapply run_init_NoDup; eassumption|]. intros ev.
  rewrite (run_init_occurred g evs s Hwf Hrun ev).
  pose proof (pinv_run g _ evs s Hwf (pinv_init g Hwf) Hrun) as Hi.
  rewrite (finished_state_unique g s Hwf Hi Hf). apply occurred_final.
Qed.

(* ------------------------------------------------------------------------------------------ *)
(* Examples                                                                                     *)
(* ------------------------------------------------------------------------------------------ *)

(* edges: 0 = (0,1), 1 = (0,2), 2 = (1,3), 3 = (2,3) *)
Definition diamond : pgraph := mk_pgraph 4 [(0, 1); (0, 2); (1, 3); (2, 3)].

Lemma diamond_wf : wf_graph diamond.
Proof. unfold wf_graph, diamond. cbn [pg_edges pg_n]. repeat constructor; cbn [fst snd]; lia. Qed.

(* one worker after the other *)
Definition diamond_run_seq : list event :=
  [ESpawn 0; ESpawn 1; ESpawn 2; ESpawn 3;
   EWork 0; ESend 0 0; ESend 0 1; EFinish 0;
   ERecv 1 0; EWork 1; ESend 1 2; EFinish 1;
   ERecv 2 1; EWork 2; ESend 2 3; EFinish 2;
   ERecv 3 2; ERecv 3 3; EWork 3; EFinish 3;
   EJoin 0; EJoin 1; EJoin 2; EJoin 3].

(* workers start before all are spawned, 2 overtakes 1, joins interleave with the last worker *)
Definition diamond_run_mixed : list event :=
  [ESpawn 0; EWork 0; ESpawn 1; ESend 0 0; ERecv 1 0; ESpawn 2; ESend 0 1; ESpawn 3; EFinish 0;
   ERecv 2 1; EWork 2; EWork 1; ESend 2 3; ESend 1 2; ERecv 3 2; EJoin 0; EFinish 2; ERecv 3 3;
   EFinish 1; EJoin 1; EWork 3; EJoin 2; EFinish 3; EJoin 3].

Example diamond_seq_finishes :
  run_events diamond (init_pstate diamond) diamond_run_seq = Some (final_pstate diamond) /\
  finished diamond (final_pstate diamond) = true.
Proof. vm_compute. split; reflexivity. Qed.

Example diamond_mixed_finishes :
  run_events diamond (init_pstate diamond) diamond_run_mixed = Some (final_pstate diamond) /\
  finished diamond (final_pstate diamond) = true.
Proof. vm_compute. split; reflexivity. Qed.

Example diamond_runs_differ : diamond_run_seq <> diamond_run_mixed.
Proof. discriminate. Qed.

(* worker 0 sends before it has worked: rejected, at index 1 *)
Example diamond_send_before_work_rejected :
  run_events diamond (init_pstate diamond) [ESpawn 0; ESend 0 0; EWork 0] = None /\
  first_bad diamond (init_pstate diamond) [ESpawn 0; ESend 0 0; EWork 0] 0 = Some 1.
Proof. vm_compute. split; reflexivity. Qed.

(* worker 3 works before its second source has been received; worker 1 receives before 0 has sent *)
Example diamond_work_before_recv_rejected :
  run_events diamond (init_pstate diamond)
    [ESpawn 0; ESpawn 1; ESpawn 2; ESpawn 3; EWork 0; ESend 0 0; ERecv 1 0; EWork 1; ESend 1 2;
     ERecv 3 2; EWork 3] = None /\
  run_events diamond (init_pstate diamond) [ESpawn 0; ESpawn 1; ERecv 1 0] = None.
Proof. vm_compute. split; reflexivity. Qed.

(* the witnesses of the defect of the earlier model (see the header) are rejected by the repaired one *)
Example old_defect_witness_now_rejected :
  run_events (mk_pgraph 2 []) (init_pstate (mk_pgraph 2 []))
    [ESpawn 0; ESpawn 1; EWork 1; ESend 1 0] = None /\
  run_events (mk_pgraph 2 []) (init_pstate (mk_pgraph 2 []))
    [ESpawn 0; ESpawn 1; EWork 1; ESend 1 0; EWork 0; EFinish 0; EJoin 0] = None.
Proof. vm_compute. split; reflexivity. Qed.

Example diamond_measure : measure diamond (init_pstate diamond) = 24 /\ length diamond_run_seq = 24.
Proof. vm_compute. split; reflexivity. Qed.

(* ==== RESULTS ==== *)

(* ---- P1: invariants of every reachable state ---- *)

Theorem P1_invariant : forall g s, wf_graph g -> reachable g s -> pinv g s.
Proof. intros g s. apply pinv_reachable. Qed.

Theorem P1_lengths : forall g s, wf_graph g -> reachable g s ->
  length (ps_phase s) = pg_n g /\ length (ps_sent s) = length (pg_edges g) /\
  length (ps_recvd s) = length (pg_edges g).
Proof.
  intros g s Hwf Hr. pose proof (pinv_reachable g s Hwf Hr) as Hi.
  split; [apply (pi_len_phase g s Hi)|]. split; [apply (pi_len_sent g s Hi)|apply (pi_len_recvd g s Hi)].
Qed.

Theorem P1_recvd_sent : forall g s e, wf_graph g -> reachable g s ->
  nth e (ps_recvd s) false = true -> nth e (ps_sent s) false = true.
Proof. intros g s e Hwf Hr. apply (pi_recvd_sent g s (pinv_reachable g s Hwf Hr)). Qed.

Theorem P1_sent_iff : forall g s e, wf_graph g -> reachable g s -> e < length (pg_edges g) ->
  (nth e (ps_sent s) false = true <->
   match phase_of s (fst (nth e (pg_edges g) (0, 0))) with
   | Sending k => In e (firstn k (out_edges g (fst (nth e (pg_edges g) (0, 0)))))
   | Done => True
   | _ => False
   end).
Proof. intros g s e Hwf Hr He. apply (pi_sent g s (pinv_reachable g s Hwf Hr) e He). Qed.

Theorem P1_recvd_iff : forall g s e, wf_graph g -> reachable g s -> e < length (pg_edges g) ->
  (nth e (ps_recvd s) false = true <->
   match phase_of s (snd (nth e (pg_edges g) (0, 0))) with
   | NotSpawned => False
   | Receiving k => In e (firstn k (in_edges g (snd (nth e (pg_edges g) (0, 0)))))
   | _ => True
   end).
Proof. intros g s e Hwf Hr He. apply (pi_recvd g s (pinv_reachable g s Hwf Hr) e He). Qed.

Theorem P1_main : forall g s, wf_graph g -> reachable g s ->
  ps_main s <= 2 * pg_n g /\
  (forall t, t < pg_n g -> (phase_of s t = NotSpawned <-> ps_main s <= t)) /\
  (forall t, pg_n g + t < ps_main s -> phase_of s t = Done).
Proof.
  intros g s Hwf Hr. pose proof (pinv_reachable g s Hwf Hr) as Hi.
  split; [apply (pi_main_le g s Hi)|]. split; [apply (pi_notspawned g s Hi)|apply (pi_joined g s Hi)].
Qed.

(* progress counters never run past the number of edges *)
Theorem P1_counters : forall g s t k, wf_graph g -> reachable g s ->
  (phase_of s t = Receiving k -> k <= length (in_edges g t)) /\
  (phase_of s t = Sending k -> k <= length (out_edges g t)).
Proof.
  intros g s t k Hwf Hr. pose proof (pinv_reachable g s Hwf Hr) as Hi.
  split; [apply (pi_recv_bound g s Hi)|apply (pi_send_bound g s Hi)].
Qed.

(* ---- P2 ---- *)

Theorem c05_no_send_failure : forall g s t, wf_graph g -> reachable g s -> ~ send_would_fail g s t.
Proof. intros g s t Hwf Hr. apply pinv_no_send_failure. apply pinv_reachable; assumption. Qed.

Theorem c05_no_recv_failure : forall g s t, wf_graph g -> reachable g s -> ~ recv_would_fail g s t.
Proof. intros g s t Hwf Hr. apply pinv_no_recv_failure. apply pinv_reachable; assumption. Qed.

(* ---- P3 ---- *)

Theorem c05_deadlock_free : forall g s, wf_graph g -> reachable g s ->
  finished g s = true \/ exists ev s', pstep g s ev = Some s'.
Proof. intros g s Hwf Hr. apply pinv_deadlock_free; [assumption|]. apply pinv_reachable; assumption. Qed.

(* ---- P4 ---- *)

Theorem c05_bounded : forall g s ev s', wf_graph g -> reachable g s -> pstep g s ev = Some s' ->
  measure g s' < measure g s.
Proof.
  intros g s ev s' Hwf Hr H. eapply pinv_measure_step; [assumption| |eassumption].
  apply pinv_reachable; assumption.
Qed.

Theorem c05_bounded_length : forall g evs s, wf_graph g ->
  run_events g (init_pstate g) evs = Some s -> length evs <= measure g (init_pstate g).
Proof.
  intros g evs s Hwf H. pose proof (pinv_run_length g _ evs s Hwf (pinv_init g Hwf) H). lia.
Qed.

Theorem c05_maximal_run_finished : forall g evs s, wf_graph g ->
  run_events g (init_pstate g) evs = Some s -> (forall ev, pstep g s ev = None) -> finished g s = true.
Proof.
  intros g evs s Hwf H Hmax.
  destruct (c05_deadlock_free g s Hwf) as [Hf|(ev & s' & Hs)]; [|assumption|].
  - eapply reachable_run; [apply reach_init|eassumption].
  - rewrite Hmax in Hs. discriminate.
Qed.

(* ---- P5 ---- *)

Theorem c03_work_order : forall g evs s i t e, wf_graph g ->
  run_events g (init_pstate g) evs = Some s ->
  nth_error evs i = Some (EWork t) -> In e (in_edges g t) ->
  exists j, j < i /\ nth_error evs j = Some (EWork (fst (nth e (pg_edges g) (0, 0)))).
Proof. intros g evs s i t e. apply work_order. Qed.

Theorem c03_work_once : forall g evs s t, wf_graph g ->
  run_events g (init_pstate g) evs = Some s -> count_occ event_eq_dec evs (EWork t) <= 1.
Proof. intros g evs s t. apply work_once. Qed.

(* stronger: no event at all happens twice in a run *)
Theorem c03_events_once : forall g evs s, wf_graph g ->
  run_events g (init_pstate g) evs = Some s -> NoDup evs.
Proof. intros g evs s. apply run_init_NoDup. Qed.

(* ---- P6 ---- *)

Theorem c06_same_events_every_schedule : forall g evs1 evs2 s1 s2, wf_graph g ->
  run_events g (init_pstate g) evs1 = Some s1 -> finished g s1 = true ->
  run_events g (init_pstate g) evs2 = Some s2 -> finished g s2 = true ->
  Permutation evs1 evs2 /\ s1 = s2.
Proof.
  intros g evs1 evs2 s1 s2 Hwf H1 F1 H2 F2.
  destruct (finished_run_events g evs1 s1 Hwf H1 F1) as [N1 I1].
  destruct (finished_run_events g evs2 s2 Hwf H2 F2) as [N2 I2].
  split.
  - apply NoDup_Permutation; [assumption|assumption|]. intros ev. rewrite I1, I2. tauto.
  - rewrite (finished_state_unique g s1 Hwf (pinv_run g _ evs1 s1 Hwf (pinv_init g Hwf) H1) F1).
    rewrite (finished_state_unique g s2 Hwf (pinv_run g _ evs2 s2 Hwf (pinv_init g Hwf) H2) F2).
    reflexivity.
Qed.

(* the events of a complete execution are exactly the events of the graph, each once (and, below, a
   complete execution has exactly [measure g (init_pstate g)] events: the bound of P4 is tight) *)
Theorem c06_complete_run_events : forall g evs s, wf_graph g ->
  run_events g (init_pstate g) evs = Some s -> finished g s = true ->
  NoDup evs /\ (forall ev, In ev evs <-> event_of_graph g ev) /\ s = final_pstate g.
Proof.
  intros g evs s Hwf H F. destruct (finished_run_events g evs s Hwf H F) as [N I].
  split; [assumption|]. split; [assumption|].
  apply finished_state_unique; [assumption| |assumption].
  apply (pinv_run g _ evs s Hwf (pinv_init g Hwf) H).
Qed.

Theorem c06_complete_run_length : forall g evs s, wf_graph g ->
  run_events g (init_pstate g) evs = Some s -> finished g s = true ->
  length evs = measure g (init_pstate g).
Proof.
  intros g evs s Hwf H F. pose proof (pinv_run_length g _ evs s Hwf (pinv_init g Hwf) H) as Hl.
  destruct (c06_complete_run_events g evs s Hwf H F) as (_ & _ & ->).
  unfold measure at 1 in Hl. unfold final_pstate in Hl. cbn [ps_main ps_phase] in Hl.
  rewrite wsum_repeat_Done in Hl. lia.
Qed.

(* instance: the two diamond schedules *)
Example diamond_schedules_permutation : Permutation diamond_run_seq diamond_run_mixed.
Proof.
  apply (c06_same_events_every_schedule diamond diamond_run_seq diamond_run_mixed
           (final_pstate diamond) (final_pstate diamond) diamond_wf).
  - apply diamond_seq_finishes.
  - apply diamond_seq_finishes.
  - apply diamond_mixed_finishes.
  - apply diamond_mixed_finishes.
Qed.
