(* FINE-COROLLARIES, part 1: one step of Model/Fine.v, spelled out once and for all.
   - ptrans: a move of a rule thread between two of its middle phases (what it looked at, what it did to the world);
   - fstep_shape: every step is a leaf thread's only step, a rule thread's start, a ptrans move, a failure /
     cancellation (the world is left alone) or the last step (Fine.rule_tail);
   - what each kind of step does to the world: the state files are left alone (wstep_rd), only the moving thread's
     own targets change (wstep_frame, for confined commands: the whole file record). *)
From Coq Require Import Relations.Relation_Operators Relations.Operators_Properties.
From Ruler Require Import Tactics Bytes AList RuleSyntax TopoSort World Cmdlang Work Build Ops Inv
     BuildSpec Ideal Sched Fine BytesFacts InvFacts BuildFacts C01Script C01Hist C01Build C01Plan C04Facts
     SchedBasic SchedSerial SchedRule SchedInv FineBasic FineRule FineInv.
Local Open Scope nat_scope.

Section FineCorStep.
  Variable T : Type.
  Variable teqb : T -> T -> bool.
  Variable hc : bytes -> T.
  Variable hl : list T -> T.

  Notation world := (world T).
  Notation fstate := (fstate T).
  Notation fnstate := (fnstate T).
  Notation wstate := (wstate T).
  Notation fstep := (fstep teqb hc hl).
  Notation frun := (frun teqb hc hl).
  Notation rule_tail := (rule_tail T teqb hc).
  Notation phase_of := (phase_of T).
  Notation sent_by := (sent_by T).
  Notation upd_worker := (upd_worker T).
  Notation finish_worker := (finish_worker T).
  Notation set_world := (set_world T).
  Notation wsk := (wsk T).
  Notation wdone := (mk_wst T WDone None []).

  (* the resolutions a rule thread enters its last step with *)
  Definition ress_of (ro : option (list resolution)) (b : blob T) : list resolution :=
    match ro with Some r => r | None => map (fun _ => NeedsRebuild) b end.

  (* a move between two middle phases of a rule thread with blob b and remembered vector rem, in world w *)
  Inductive ptrans (b : blob T) (rem : list fstate) (w : world) : wphase -> wphase -> world -> Prop :=
  | PT_res_end done i :
      nth_error b i = None -> ptrans b rem w (WResolve done i) (WFinish (Some done)) w
  | PT_keep done i p a r cur :
      nth_error b i = Some (p, a) -> nth_error rem i = Some r ->
      get_file_ticket teqb hc w p a = Some cur -> teqb (fs_t r) cur = true ->
      ptrans b rem w (WResolve done i) (WResolve (done ++ [AlreadyCorrect]) (S i)) w
  | PT_res_backup done i p a r cur w1 :
      nth_error b i = Some (p, a) -> nth_error rem i = Some r ->
      get_file_ticket teqb hc w p a = Some cur -> teqb (fs_t r) cur = false ->
      back_up teqb w cur p = Some w1 ->
      ptrans b rem w (WResolve done i) (WCheck done i) w1
  | PT_res_absent done i p a r :
      nth_error b i = Some (p, a) -> nth_error rem i = Some r ->
      get_file_ticket teqb hc w p a = None ->
      ptrans b rem w (WResolve done i) (WCheck done i) w
  | PT_check_yes done i r c f :
      nth_error rem i = Some r -> cache_of w = Some c -> alookup teqb c (fs_t r) = Some f ->
      ptrans b rem w (WCheck done i) (WRename done i) w
  | PT_check_no done i r c :
      nth_error rem i = Some r -> cache_of w = Some c -> alookup teqb c (fs_t r) = None ->
      ptrans b rem w (WCheck done i) (WResolve (done ++ [NeedsRebuild]) (S i)) w
  | PT_rename_done done i p a r w1 :
      nth_error b i = Some (p, a) -> nth_error rem i = Some r ->
      restore teqb w (fs_t r) p = RDone w1 ->
      ptrans b rem w (WRename done i) (WResolve (done ++ [Recovered]) (S i)) w1
  | PT_rename_gone done i p a r :
      nth_error b i = Some (p, a) -> nth_error rem i = Some r ->
      restore teqb w (fs_t r) p = RNotThere ->
      ptrans b rem w (WRename done i) (WResolve (done ++ [NeedsRebuild]) (S i)) w
  | PT_fresh_backup i p a cur w1 :
      nth_error b i = Some (p, a) -> get_file_ticket teqb hc w p a = Some cur ->
      back_up teqb w cur p = Some w1 ->
      ptrans b rem w (WFresh i) (WFresh (S i)) w1
  | PT_fresh_absent i p a :
      nth_error b i = Some (p, a) -> get_file_ticket teqb hc w p a = None ->
      ptrans b rem w (WFresh i) (WFresh (S i)) w
  | PT_fresh_end i :
      nth_error b i = None -> ptrans b rem w (WFresh i) (WFinish None) w.

  (* ---------- reading a move backwards ---------- *)

  Lemma gft_none_absent (w : world) p a : get_file_ticket teqb hc w p a = None -> fget w p = None.
  Proof.
    unfold get_file_ticket. destruct (fget w p) as [f|]; [|reflexivity]. destruct (shortcut teqb hc f a); discriminate.
  Qed.

  (* a thread enters WCheck done i only with target i out of the way *)
  Lemma ptrans_to_check b rem w ph done i w' :
    ptrans b rem w ph (WCheck done i) w' ->
    ph = WResolve done i /\ exists p a, nth_error b i = Some (p, a) /\ fget w' p = None.
  Proof.
    intro H. inversion H; subst; (split; [reflexivity|]); do 2 eexists; (split; [eassumption|]).
    - eapply back_up_fget_eq; eassumption.
    - eapply gft_none_absent; eassumption.
  Qed.

  Lemma ptrans_to_rename b rem w ph done i w' :
    ptrans b rem w ph (WRename done i) w' -> ph = WCheck done i /\ w' = w.
  Proof. intro H. inversion H; subst. split; reflexivity. Qed.

  (* the kinds of steps *)
  Definition leaf_step (pack : node_pack) (st : fnstate) (k : nat) (st' : fnstate) : Prop :=
    k < length (p_leaves pack) /\ phase_of st k = WWait /\
    exists sent tr, st' = finish_worker st k (fn_world st) sent (None, tr) [].

  Definition start_step (hists : list (history T)) (st : fnstate) (k j : nat) (st' : fnstate) : Prop :=
    phase_of st k = WWait /\
    exists key, (exists rem, alookup teqb (nth j hists []) key = Some rem /\
                             st' = upd_worker st k (mk_wst T (WResolve [] 0) (Some key) rem)) \/
                (alookup teqb (nth j hists []) key = None /\
                 st' = upd_worker st k (mk_wst T (WFresh 0) (Some key) [])).

  Definition mid_step (blobs : list (blob T)) (st : fnstate) (k : nat) (st' : fnstate) : Prop :=
    exists ph' w', ptrans (nth k blobs []) (wst_rem T (wsk st k)) (fn_world st) (phase_of st k) ph' w' /\
      st' = upd_worker (set_world st w') k (mk_wst T ph' (wst_key T (wsk st k)) (wst_rem T (wsk st k))).

  (* the thread gives up (no packet from a producer, or an error of the resolution): nothing changes in the world *)
  Definition fail_step (st : fnstate) (k : nat) (n : node) (st' : fnstate) : Prop :=
    (forall ro, phase_of st k <> WFinish ro) /\
    exists tr, (tr = TCanceled \/ exists e, tr = TErr e) /\
               st' = finish_worker st k (fn_world st) None (Some (n_rule n), tr) [].

  Definition last_step (blobs : list (blob T)) (hists : list (history T)) (st : fnstate) (k j : nat) (n : node)
             (st' : fnstate) : Prop :=
    exists ro key res w' script,
      phase_of st k = WFinish ro /\ wst_key T (wsk st k) = Some key /\
      rule_tail (fn_world st) (nth k blobs []) (nth j hists []) key (n_command n) (ress_of ro (nth k blobs []))
      = (res, w', script) /\
      st' = finish_worker st k w' (res_sent T res) (Some (n_rule n), res_tr T res) script.

  Definition node_step pack blobs hists (st : fnstate) (k : nat) (st' : fnstate) : Prop :=
    exists n, length (p_leaves pack) <= k /\
      nth_error (p_nodes pack) (k - length (p_leaves pack)) = Some n /\
      (start_step hists st k (k - length (p_leaves pack)) st' \/ mid_step blobs st k st' \/
       fail_step st k n st' \/ last_step blobs hists st k (k - length (p_leaves pack)) n st').

  Theorem fstep_shape pack blobs hists st k st' :
    fstep pack blobs hists st k = Some st' ->
    leaf_step pack st k st' \/ node_step pack blobs hists st k st'.
  Proof.
    unfold Fine.fstep. cbv zeta. fold (wsk st k).
    destruct (Nat.ltb k (length (p_leaves pack))) eqn:Ek.
    { apply Nat.ltb_lt in Ek. intro H. left. unfold leaf_step. rewrite phase_of_wsk.
      destruct (wst_phase T (wsk st k)); try discriminate.
      split; [exact Ek|]. split; [reflexivity|].
      destruct (handle_leaf teqb hc (fn_world st) (nth k blobs [])); injection H as <-; eauto. }
    apply Nat.ltb_ge in Ek.
    destruct (nth_error (p_nodes pack) (k - length (p_leaves pack))) as [n|] eqn:En; [|discriminate].
    intro H. right. exists n. split; [exact Ek|]. split; [exact En|].
    set (j := k - length (p_leaves pack)) in *.
    assert (forall ph' w',
              ptrans (nth k blobs []) (wst_rem T (wsk st k)) (fn_world st) (phase_of st k) ph' w' ->
              mid_step blobs st k
                (upd_worker (set_world st w') k (mk_wst T ph' (wst_key T (wsk st k)) (wst_rem T (wsk st k))))) as Hmid.
    { intros ph' w' Hp. exists ph', w'. split; [exact Hp | reflexivity]. }
    assert (forall e, (forall ro, phase_of st k <> WFinish ro) ->
              fail_step st k n (finish_worker st k (fn_world st) None (Some (n_rule n), TErr e) [])) as Hfail.
    { intros e Hnf. split; [exact Hnf|]. exists (TErr e). split; [right; eauto | reflexivity]. }
    change (wst_phase T (wsk st k)) with (phase_of st k) in H.
    destruct (phase_of st k) as [|done i|done i|done i|i|ro|] eqn:Eph.
    - (* WWait *)
      destruct (negb (forallb (sent_by st) (deps pack k))); [discriminate|].
      destruct (all_some _) as [tickets|].
      + destruct (alookup teqb (nth j hists []) (hl tickets)) as [rem|] eqn:El; injection H as <-;
          left; (split; [exact Eph|]); exists (hl tickets).
        * left. exists rem. split; [exact El | reflexivity].
        * right. split; [exact El | reflexivity].
      + injection H as <-. right. right. left. split; [intro ro; rewrite Eph; discriminate|].
        exists TCanceled. split; [left; reflexivity | reflexivity].
    - (* WResolve *)
      destruct (nth_error (nth k blobs []) i) as [[p a]|] eqn:Eb.
      2:{ injection H as <-. right. left. apply Hmid. apply PT_res_end. exact Eb. }
      destruct (nth_error (wst_rem T (wsk st k)) i) as [r|] eqn:Er.
      2:{ injection H as <-. right. right. left. apply Hfail. discriminate. }
      destruct (get_file_ticket teqb hc (fn_world st) p a) as [cur|] eqn:Eg.
      2:{ injection H as <-. right. left. apply Hmid. eapply PT_res_absent; eauto. }
      destruct (teqb (fs_t r) cur) eqn:Et.
      { injection H as <-. right. left. apply Hmid. eapply PT_keep; eauto. }
      destruct (back_up teqb (fn_world st) cur p) as [w1|] eqn:Ebk; injection H as <-.
      + right. left. apply Hmid. eapply PT_res_backup; eauto.
      + right. right. left. apply Hfail. discriminate.
    - (* WCheck *)
      destruct (nth_error (wst_rem T (wsk st k)) i) as [r|] eqn:Er.
      2:{ injection H as <-. right. right. left. apply Hfail. discriminate. }
      destruct (cache_of (fn_world st)) as [c|] eqn:Ec.
      2:{ injection H as <-. right. right. left. apply Hfail. discriminate. }
      destruct (alookup teqb c (fs_t r)) as [f|] eqn:El; injection H as <-; right; left; apply Hmid.
      + eapply PT_check_yes; eauto.
      + eapply PT_check_no; eauto.
    - (* WRename *)
      destruct (nth_error (nth k blobs []) i) as [[p a]|] eqn:Eb.
      2:{ injection H as <-. right. right. left. apply Hfail. discriminate. }
      destruct (nth_error (wst_rem T (wsk st k)) i) as [r|] eqn:Er.
      2:{ injection H as <-. right. right. left. apply Hfail. discriminate. }
      destruct (restore teqb (fn_world st) (fs_t r) p) as [w1| |] eqn:Ers; injection H as <-.
      + right. left. apply Hmid. eapply PT_rename_done; eauto.
      + right. left. apply Hmid. eapply PT_rename_gone; eauto.
      + right. right. left. apply Hfail. discriminate.
    - (* WFresh *)
      destruct (nth_error (nth k blobs []) i) as [[p a]|] eqn:Eb.
      2:{ injection H as <-. right. left. apply Hmid. apply PT_fresh_end. exact Eb. }
      destruct (get_file_ticket teqb hc (fn_world st) p a) as [cur|] eqn:Eg.
      2:{ injection H as <-. right. left. apply Hmid. eapply PT_fresh_absent; eauto. }
      destruct (back_up teqb (fn_world st) cur p) as [w1|] eqn:Ebk; injection H as <-.
      + right. left. apply Hmid. eapply PT_fresh_backup; eauto.
      + right. right. left. apply Hfail. discriminate.
    - (* WFinish *)
      destruct (wst_key T (wsk st k)) as [key|] eqn:Ekey; [|discriminate].
      right. right. right.
      destruct (rule_tail (fn_world st) (nth k blobs []) (nth j hists []) key (n_command n)
                  (match ro with Some r => r | None => map (fun _ => NeedsRebuild) (nth k blobs []) end))
        as [[res w'] script] eqn:Et.
      exists ro, key, res, w', script. split; [exact Eph|]. split; [exact Ekey|]. split; [exact Et|].
      destruct res as [wr|e]; injection H as <-; reflexivity.
    - discriminate.
  Qed.

  (* ================================================================== *)
  (* what a step does to the world                                        *)
  (* ================================================================== *)

  (* rule_tail: the command ran (the whole script) or nothing happened *)
  Lemma rule_tail_world (w1 : world) b h key cmd ress res w' script :
    rule_tail w1 b h key cmd ress = (res, w', script) ->
    (needs_rebuild ress = true /\ script = script_lines cmd /\ w' = snd (run_script w1 (script_lines cmd))) \/
    (needs_rebuild ress = false /\ script = [] /\ w' = w1).
  Proof.
    unfold Fine.rule_tail. cbv zeta. destruct (needs_rebuild ress).
    - destruct (run_script w1 (script_lines cmd)) as [codes w2] eqn:ERS. cbn [snd].
      destruct (command_verdict codes) as [e|]; [intro H; injection H as <- <- <-; left; auto|].
      destruct (update_blob teqb hc w2 (forget_replaced hc b ress)) as [b'|p];
        [|intro H; injection H as <- <- <-; left; auto].
      destruct (history_insert teqb h key _ _) as [h'|e]; intro H; injection H as <- <- <-; left; auto.
    - destruct (current_tickets teqb hc w1 (forget_replaced hc b ress)) as [ts|p];
        intro H; injection H as <- <- <-; right; auto.
  Qed.

  (* the world after a step of worker k, by kind *)
  Inductive wchange (blobs : list (blob T)) (st : fnstate) (k : nat) (n : node) (w' : world) : Prop :=
  | WC_same : w' = fn_world st -> wchange blobs st k n w'
  | WC_backup i p a cur :
      (forall ro, phase_of st k <> WFinish ro) ->
      nth_error (nth k blobs []) i = Some (p, a) -> get_file_ticket teqb hc (fn_world st) p a = Some cur ->
      back_up teqb (fn_world st) cur p = Some w' -> wchange blobs st k n w'
  | WC_restore done i p a r :
      phase_of st k = WRename done i ->
      nth_error (nth k blobs []) i = Some (p, a) -> nth_error (wst_rem T (wsk st k)) i = Some r ->
      restore teqb (fn_world st) (fs_t r) p = RDone w' -> wchange blobs st k n w'
  | WC_command ro :
      phase_of st k = WFinish ro ->
      w' = snd (run_script (fn_world st) (script_lines (n_command n))) -> wchange blobs st k n w'.

  Lemma ptrans_wchange blobs st k n ph' w' :
    ptrans (nth k blobs []) (wst_rem T (wsk st k)) (fn_world st) (phase_of st k) ph' w' -> wchange blobs st k n w'.
  Proof.
    intro H. inversion H; subst; try (apply WC_same; reflexivity).
    - eapply WC_backup; eauto. intros ro E. congruence.
    - eapply WC_restore; eauto.
    - eapply WC_backup; eauto. intros ro E. congruence.
  Qed.

  Lemma node_step_wchange pack blobs hists st k st' :
    node_step pack blobs hists st k st' ->
    exists n, length (p_leaves pack) <= k /\ nth_error (p_nodes pack) (k - length (p_leaves pack)) = Some n /\
              wchange blobs st k n (fn_world st').
  Proof.
    intros (n & Hk & Hn & Hc). exists n. split; [exact Hk|]. split; [exact Hn|].
    destruct Hc as [(_ & key & [(rem & _ & ->) | (_ & ->)]) | [(ph' & w' & Hp & ->) | [(_ & tr & _ & ->) | Hl]]].
    - apply WC_same. reflexivity.
    - apply WC_same. reflexivity.
    - cbn [Fine.upd_worker Fine.set_world fn_world]. eapply ptrans_wchange; eauto.
    - apply WC_same. reflexivity.
    - destruct Hl as (ro & key & res & w' & script & Eph & _ & Et & ->). cbn [Fine.finish_worker fn_world].
      destruct (rule_tail_world _ _ _ _ _ _ _ _ _ Et) as [(_ & _ & ->) | (_ & _ & ->)].
      + eapply WC_command; eauto.
      + apply WC_same. reflexivity.
  Qed.

  Lemma leaf_step_world pack st k st' : leaf_step pack st k st' -> fn_world st' = fn_world st.
  Proof. intros (_ & _ & sent & tr & ->). reflexivity. Qed.

  (* the state files (table and histories) are left alone by every step *)
  Lemma wchange_rd blobs st k n w' :
    wchange blobs st k n w' ->
    rd_table (w_rd w') = rd_table (w_rd (fn_world st)) /\ rd_hist (w_rd w') = rd_hist (w_rd (fn_world st)).
  Proof.
    intros [-> | i p a cur _ _ _ Hb | done i p a r _ _ _ Hr | ro _ ->].
    - split; reflexivity.
    - apply (InvProofs.back_up_inv T teqb) in Hb as (c & f & _ & _ & ->). split; reflexivity.
    - apply (InvProofs.restore_inv T teqb) in Hr as (c & f & _ & _ & ->). split; reflexivity.
    - rewrite (run_script_rd T (script_lines (n_command n)) (fn_world st)). split; reflexivity.
  Qed.

  Theorem fstep_rd pack blobs hists st k st' :
    fstep pack blobs hists st k = Some st' ->
    rd_table (w_rd (fn_world st')) = rd_table (w_rd (fn_world st)) /\
    rd_hist (w_rd (fn_world st')) = rd_hist (w_rd (fn_world st)).
  Proof.
    intro H. destruct (fstep_shape _ _ _ _ _ _ H) as [Hl | Hn].
    - rewrite (leaf_step_world _ _ _ _ Hl). split; reflexivity.
    - destruct (node_step_wchange _ _ _ _ _ _ Hn) as (n & _ & _ & Hc). eapply wchange_rd; eauto.
  Qed.

  Theorem frun_rd pack blobs hists ch st :
    rd_table (w_rd (fn_world (frun pack blobs hists ch st))) = rd_table (w_rd (fn_world st)) /\
    rd_hist (w_rd (fn_world (frun pack blobs hists ch st))) = rd_hist (w_rd (fn_world st)).
  Proof.
    apply (frun_ind T teqb hc hl
             (fun s => rd_table (w_rd (fn_world s)) = rd_table (w_rd (fn_world st)) /\
                       rd_hist (w_rd (fn_world s)) = rd_hist (w_rd (fn_world st)))).
    - intros s k s' [I1 I2] E. destruct (fstep_rd _ _ _ _ _ _ E) as [E1 E2]. split; congruence.
    - split; reflexivity.
  Qed.

  (* only the targets of the moving thread's node change, the whole file record (commands confined) *)
  Lemma wchange_frame blobs st k n w' :
    map fst (nth k blobs []) = n_targets n -> node_confined n ->
    wchange blobs st k n w' -> forall q, ~ In q (n_targets n) -> fget w' q = fget (fn_world st) q.
  Proof.
    intros Hfst Hconf Hc q Hq.
    assert (forall i p a, nth_error (nth k blobs []) i = Some (p, a) -> q <> p) as Hne.
    { intros i p a E <-. apply Hq. rewrite <- Hfst. apply (in_map fst _ (q, a)). eapply nth_error_In; eauto. }
    destruct Hc as [-> | i p a cur _ Eb _ Hb | done i p a r _ Eb _ Hr | ro _ ->].
    - reflexivity.
    - apply (back_up_fget_neq T teqb _ _ _ _ _ Hb). eapply Hne; eauto.
    - apply (frame_at_fget T [p] _ _ q (restore_frame T teqb _ _ _ _ Hr)). intros [E | []].
      apply (Hne _ _ _ Eb). symmetry. exact E.
    - apply (frame_at_fget T (n_targets n) _ _ q); [|exact Hq]. apply run_script_frame_at. exact Hconf.
  Qed.

  Theorem fstep_frame pack blobs hists st k st' :
    blobs_shaped T pack blobs -> Forall node_confined (p_nodes pack) ->
    fstep pack blobs hists st k = Some st' ->
    forall q, ~ In q (plan_targets pack) -> fget (fn_world st') q = fget (fn_world st) q.
  Proof.
    intros Hshape Hconf H q Hq. destruct (fstep_shape _ _ _ _ _ _ H) as [Hl | Hn].
    - rewrite (leaf_step_world _ _ _ _ Hl). reflexivity.
    - destruct (node_step_wchange _ _ _ _ _ _ Hn) as (n & Hk & En & Hc).
      apply (wchange_frame blobs st k n); [| |exact Hc|].
      + replace k with (length (p_leaves pack) + (k - length (p_leaves pack))) at 1 by lia.
        apply (blobs_shaped_node T pack blobs _ n Hshape En).
      + rewrite Forall_forall in Hconf. apply Hconf. eapply nth_error_In; eauto.
      + intro X. apply Hq. unfold plan_targets. apply in_flat_map. exists n. split; [eapply nth_error_In; eauto | exact X].
  Qed.
End FineCorStep.
