(* FINE, part 5 -- C06 for interleavings INSIDE the rule threads' work (Model/Fine.v).
   G1: termination and absence of deadlock along every run of build_fine (build_fine_step_decreases,
       build_fine_no_deadlock, build_fine_completable);
   G2: the serial run is the serial build (build_fine_serial);
   G3: any two complete runs give the same verdict and the same content of every file
       (build_fine_schedule_independent);
   G4: C01 for every complete run (build_fine_equals_scratch);  G5: the verdict of every complete run is that of
       Build.build (build_fine_verdict);  G6: the closed instances for the free symbolic hashes;
   and an example in which two rule threads race for one cache entry. *)
From Coq Require Import String Ascii.
From Coq Require Import Relations.Relation_Operators Relations.Operators_Properties.
From Ruler Require Import Tactics Bytes AList RuleSyntax Parser TopoSort TopoSpec World Cmdlang Work Build Ops Inv
     BuildSpec Ideal Sched Fine BytesFacts InvFacts TableFrame BuildFacts TopoSortFacts C01Script C01Hist C01Build C01Plan
     C01Facts C04Facts SchedBasic SchedSerial SchedRule SchedInv SchedFacts FineBasic FineRule FineInv FineSerial.
Local Open Scope nat_scope.

Lemma nth_seq_lt a m k : k < m -> nth k (seq a m) 0 = a + k.
Proof. intro H. apply seq_nth. exact H. Qed.

(* ================================================================== *)
(* runs, in the context of the invariant                                *)
(* ================================================================== *)

Section Runs.
  Variable T : Type.
  Variable teqb : T -> T -> bool.
  Variable hc : bytes -> T.
  Variable hl : list T -> T.
  Hypothesis teqb_spec : forall a b, teqb a b = true <-> a = b.
  Hypothesis hc_inj : forall a b, hc a = hc b -> a = b.
  Hypothesis hl_inj : forall a b, hl a = hl b -> a = b.

  Notation world := (world T).
  Notation fnstate := (fnstate T).
  Notation disk_inv := (disk_inv teqb hc).
  Notation blob_ok := (InvProofs.blob_ok T teqb hc).
  Notation hist_ok := (hist_ok T teqb hc hl).
  Notation has_worked := (has_worked T).
  Notation work_step := (work_step teqb hc hl).
  Notation frun := (frun teqb hc hl).
  Notation wsk := (wsk T).
  Notation wdone := (mk_wst T WDone None []).

  Variable w w1 : world.
  Variable pack : node_pack.
  Variable blobs : list (blob T).
  Variable hists : list (history T).
  Hypothesis Hinv1 : disk_inv w1.
  Hypothesis Hfiles : forall p, content_at w1 p = content_at w p.
  Hypothesis Hcache1 : cache_of w1 <> None.
  Hypothesis Hwf : plan_wf pack.
  Hypothesis Hdet : Forall det_node (p_nodes pack).
  Hypothesis Hshape : blobs_shaped T pack blobs.
  Hypothesis Hblobs : forall k, blob_ok w1 (nth k blobs []).
  Hypothesis Hhok : forall j nd, nth_error (p_nodes pack) j = Some nd -> hist_ok (n_rule nd) (nth j hists []).

  Notation finv := (finv T teqb hc hl w w1 pack hists).
  Notation winv := (winv T teqb hc hl w w1 pack hists).

  Let nl := length (p_leaves pack).
  Let n := nworkers pack.

  Lemma r_finv_init : finv (fn_init T w1 pack).
  Proof. exact (finv_init T teqb hc hl hc_inj w w1 pack blobs hists Hfiles Hcache1 Hblobs Hhok). Qed.

  Lemma r_finv_run ch st : finv st -> finv (frun pack blobs hists ch st).
  Proof.
    exact (finv_run T teqb hc hl teqb_spec hc_inj w w1 pack blobs hists Hinv1 Hfiles Hwf Hdet Hshape Hblobs Hhok ch st).
  Qed.

  Lemma r_done_iff st k : finv st -> k < n -> (phase_of T st k = WDone <-> has_worked (fproj st) k = true).
  Proof. exact (finv_done_iff T teqb hc hl w w1 pack blobs hists Hblobs Hhok st k). Qed.

  (* ---------- two complete states agree ---------- *)

  Lemma errs_of_det (st st' : sstate T) :
    winv st -> winv st' -> all_worked T pack st -> all_worked T pack st' -> errs_of T st = errs_of T st'.
  Proof.
    intros Hw Hw' Ha Ha'. unfold errs_of.
    destruct (wi_lens _ _ _ _ _ _ _ _ _ Hw) as [_ L1]. destruct (wi_lens _ _ _ _ _ _ _ _ _ Hw') as [_ L2].
    apply (flat_map_nth_ext _ None); [congruence|]. intros k Hk. rewrite L1 in Hk.
    pose proof (winv_kind_det T teqb hc hl w w1 pack blobs hists Hwf Hblobs Hhok _ _ Hw Hw' Ha Ha' k Hk) as E.
    unfold res_kind in E.
    destruct (nth k (ss_res st) None) as [[r1 tr1]|]; destruct (nth k (ss_res st') None) as [[r2 tr2]|];
      try discriminate; [|reflexivity].
    injection E as E. destruct tr1; destruct tr2; cbn in E; try discriminate; try reflexivity.
    injection E as ->. reflexivity.
  Qed.

  Lemma complete_agree st st' :
    finv st -> finv st' -> all_done st = true -> all_done st' = true ->
    errs_of T (fproj st) = errs_of T (fproj st') /\
    forall p, content_at (fn_world st) p = content_at (fn_world st') p.
  Proof.
    intros Hf Hf' Hd Hd'.
    pose proof (finv_winv T teqb hc hl w w1 pack blobs hists Hblobs Hhok st Hf Hd) as Hw.
    pose proof (finv_winv T teqb hc hl w w1 pack blobs hists Hblobs Hhok st' Hf' Hd') as Hw'.
    pose proof (finv_all_worked T teqb hc hl w w1 pack blobs hists Hblobs Hhok st Hf Hd) as Ha.
    pose proof (finv_all_worked T teqb hc hl w w1 pack blobs hists Hblobs Hhok st' Hf' Hd') as Ha'.
    split; [apply errs_of_det; assumption|].
    exact (winv_content_det T teqb hc hl hc_inj w w1 pack blobs hists Hfiles Hwf Hblobs Hhok _ _ Hw Hw' Ha Ha').
  Qed.

  (* ---------- the serial run ---------- *)

  (* along a build the resolution of a rule thread cannot end in an error: the cache directory is there, and a
     sound entry for the sources at hand has one state per target *)
  Lemma serial_no_err st j nd tk :
    finv st -> nth_error (p_nodes pack) j = Some nd ->
    (forall d, In d (deps pack (nl + j)) -> has_worked (fproj st) d = true) ->
    all_some (map (sreceived nl (fn_sent st)) (n_source_indices nd)) = Some tk ->
    exists ress w', resolved_of T teqb hc (fn_world st) (nth (nl + j) blobs []) (nth j hists []) (hl tk) = Ok (ress, w').
  Proof.
    intros Hf Hn Hdeps Htk.
    destruct (node_sources T teqb hc hl hc_inj w w1 pack blobs hists Hfiles Hwf Hdet Hblobs Hhok st j nd tk Hf Hn Hdeps Htk)
      as (cs & -> & Hcs & _).
    pose proof (det_node_nth pack Hdet _ _ Hn) as (_ & Etg & _).
    pose proof (node_blob_length T pack blobs Hshape j nd Hn) as Hlen. fold nl in Hlen.
    pose proof (fi_cache _ _ _ _ _ _ _ _ _ Hf) as Hc.
    unfold resolved_of. destruct (alookup teqb (nth j hists []) (hl (map hc cs))) as [rem|] eqn:El.
    - destruct (Hhok j nd Hn _ _ El (fn_world st) cs Hcs eq_refl) as [_ F0]. apply Forall2_len in F0.
      destruct (resolve_remembered_total T teqb hc hc_inj (nth (nl + j) blobs []) (fn_world st) rem Hc) as (ress & w' & E & _).
      { rewrite Hlen, Etg, F0. apply Nat.le_refl. }
      eauto.
    - destruct (resolve_fresh_total T teqb hc (nth (nl + j) blobs []) (fn_world st) Hc) as (ress & w' & E & _). eauto.
  Qed.

  Definition fuel_of (k : nat) : nat := worker_fuel T (nth k blobs []).

  (* worker a alone, from a state of a build in which it waits and all its producers have reported: its whole fuel is
     Sched.work_step of worker a *)
  Theorem fine_worker_to_completion st a :
    finv st -> a < n -> wst_phase T (wsk st a) = WWait ->
    (forall d, In d (deps pack a) -> has_worked (fproj st) d = true) ->
    let st' := frun pack blobs hists (repeat a (fuel_of a)) st in
    fproj st' = work_step pack blobs hists (fproj st) a /\ fn_workers st' = set_nth a wdone (fn_workers st).
  Proof.
    intros Hf Ha Hwait Hdeps.
    pose proof (fi_len_w _ _ _ _ _ _ _ _ _ Hf) as Hlw. fold n in Hlw.
    assert (has_worked (fproj st) a = false) as Hu.
    { destruct (has_worked (fproj st) a) eqn:E; [|reflexivity]. apply (r_done_iff st a Hf Ha) in E.
      rewrite phase_of_wsk, Hwait in E. discriminate. }
    destruct (Nat.lt_ge_cases a nl) as [Hlt | Hge].
    - apply (fine_worker_to_completion_leaf T teqb hc hl pack blobs hists st a Hlt); [lia | exact Hwait | exact Hu].
    - set (j := a - nl). assert (a = nl + j) as Ea by lia.
      destruct (nth_error (p_nodes pack) j) as [nd|] eqn:En;
        [|apply nth_error_None in En; unfold n, nworkers in Ha; fold nl in Ha; lia].
      unfold fuel_of. rewrite Ea in *.
      apply (fine_worker_to_completion_node T teqb hc hl pack blobs hists j nd En st); fold nl.
      + lia.
      + exact Hwait.
      + exact Hu.
      + intros d Hd. split; [rewrite (fi_sent _ _ _ _ _ _ _ _ _ Hf)|]; apply Hdeps; exact Hd.
      + intros tk Htk. eapply serial_no_err; eauto.
  Qed.

  Lemma serial_one st a :
    finv st -> a < n ->
    (forall k, a <= k -> k < n -> wst_phase T (wsk st k) = WWait) ->
    (forall k, k < a -> has_worked (fproj st) k = true) ->
    let st' := frun pack blobs hists (repeat a (fuel_of a)) st in
    fproj st' = work_step pack blobs hists (fproj st) a /\ fn_workers st' = set_nth a wdone (fn_workers st).
  Proof.
    intros Hf Ha Hwait Hdone. apply fine_worker_to_completion; [exact Hf | exact Ha | apply Hwait; lia|].
    intros d Hd. apply Hdone. eapply deps_lt; eauto.
  Qed.

  Lemma serial_sim : forall m a st,
    finv st -> a + m = n ->
    (forall k, a <= k -> k < n -> wst_phase T (wsk st k) = WWait) ->
    (forall k, k < a -> has_worked (fproj st) k = true) ->
    let st' := frun pack blobs hists (flat_map (fun k => repeat k (fuel_of k)) (seq a m)) st in
    fproj st' = fold_left (work_step pack blobs hists) (seq a m) (fproj st) /\ all_done st' = true.
  Proof.
    induction m as [|m IH]; intros a st Hf Ham Hwait Hdone; cbn [seq flat_map fold_left].
    - split; [reflexivity|]. cbn [Fine.frun fold_left]. unfold Fine.all_done.
      apply (forallb_nth _ wdone). rewrite (fi_len_w _ _ _ _ _ _ _ _ _ Hf). fold n. intros k Hk.
      assert (phase_of T st k = WDone) as E by (apply (r_done_iff st k Hf Hk); apply Hdone; lia).
      unfold Fine.phase_of in E. rewrite E. reflexivity.
    - rewrite frun_app.
      destruct (serial_one st a Hf ltac:(lia) Hwait Hdone) as [E1 E2].
      set (st1 := frun pack blobs hists (repeat a (fuel_of a)) st) in *.
      assert (finv st1) as Hf1 by (apply r_finv_run; exact Hf).
      assert (forall k, k <> a -> wsk st1 k = wsk st k) as Hoth.
      { intros k Hne. unfold FineBasic.wsk. rewrite E2. apply nth_set_nth_neq. exact Hne. }
      rewrite <- E1. apply IH; [exact Hf1 | lia | |].
      + intros k Hk1 Hk2. rewrite (Hoth k ltac:(lia)). apply Hwait; lia.
      + intros k Hk. apply (r_done_iff st1 k Hf1 ltac:(lia)). rewrite phase_of_wsk.
        destruct (Nat.eq_dec k a) as [-> | Hne].
        * unfold FineBasic.wsk. rewrite E2, nth_set_nth_eq; [reflexivity|].
          rewrite (fi_len_w _ _ _ _ _ _ _ _ _ Hf). fold n. lia.
        * rewrite (Hoth k Hne), <- phase_of_wsk. apply (r_done_iff st k Hf ltac:(lia)). apply Hdone. lia.
  Qed.

  Theorem serial_run :
    let st' := frun pack blobs hists (serial_choices T pack blobs) (fn_init T w1 pack) in
    fproj st' = fold_left (work_step pack blobs hists) (spawn_order pack) (st_init T w1 pack) /\ all_done st' = true.
  Proof.
    unfold serial_choices, spawn_order. fold n.
    apply (serial_sim n 0 (fn_init T w1 pack) r_finv_init); [reflexivity | | intros k Hk; lia].
    intros k _ Hk. unfold FineBasic.wsk, fn_init. cbn [fn_workers]. rewrite nth_repeat_lt by exact Hk. reflexivity.
  Qed.
End Runs.

(* ================================================================== *)
(* build_fine                                                           *)
(* ================================================================== *)

Section Final.
  Variable T : Type.
  Variable teqb : T -> T -> bool.
  Variable hc : bytes -> T.
  Variable hl : list T -> T.
  Variable hr : rule -> T.
  Hypothesis teqb_spec : forall a b, teqb a b = true <-> a = b.
  Hypothesis hc_inj : forall a b, hc a = hc b -> a = b.
  Hypothesis hl_inj : forall a b, hl a = hl b -> a = b.
  Hypothesis hr_inj : forall a b, hr a = hr b -> a = b.

  Notation world := (world T).
  Notation fnstate := (fnstate T).
  Notation disk_inv := (disk_inv teqb hc).
  Notation steps := (clos_refl_trans world (step teqb hc)).
  Notation blob_ok := (InvProofs.blob_ok T teqb hc).
  Notation hist_ok := (hist_ok T teqb hc hl).
  Notation hist_sound := (hist_sound T teqb hc hl hr).
  Notation bf := (build_fine teqb hc hl hr).
  Notation bo := (build_ord teqb hc hl hr).
  Notation bld := (build teqb hc hl hr).
  Notation work_step := (work_step teqb hc hl).
  Notation fstep := (fstep teqb hc hl).
  Notation frun := (frun teqb hc hl).

  (* ---------- build_fine and build_ord, unfolded ---------- *)

  Definition outcome_of (t' : table T) (st1 : sstate T) : outcome T :=
    let js := joined_ord T teqb hr t' st1 in
    mk_outcome (write_table T (js_world T js) (js_table T js))
               (match js_errors T js with [] => VOk | es => VWorkErrors es end)
               (ss_commands st1) (js_status T js).

  Lemma build_fine_eq ch (w : world) rp goal w1 t pack hists blobs t' :
    init_dir T w = Ok (w1, t) -> get_nodes T w1 rp goal = Ok pack ->
    read_histories T teqb hr w1 (p_nodes pack) = Some hists ->
    take_blobs T hc t (worker_paths pack) = (blobs, t') ->
    bf ch w rp goal = outcome_of t' (fproj (frun pack blobs hists ch (fn_init T (write_table T w1 t') pack))).
  Proof. intros Hi Hg Hh Htb. unfold build_fine. rewrite Hi, Hg, Hh, Htb. reflexivity. Qed.

  Lemma build_ord_eq2 ord (w : world) rp goal w1 t pack hists blobs t' :
    init_dir T w = Ok (w1, t) -> get_nodes T w1 rp goal = Ok pack ->
    read_histories T teqb hr w1 (p_nodes pack) = Some hists ->
    take_blobs T hc t (worker_paths pack) = (blobs, t') ->
    bo ord w rp goal = outcome_of t' (fold_left (work_step pack blobs hists) ord (st_init T (write_table T w1 t') pack)).
  Proof. intros Hi Hg Hh Htb. unfold build_ord. rewrite Hi, Hg, Hh, Htb. reflexivity. Qed.

  (* the state in which the workers of build_fine end; None when the build stops before spawning them *)
  Definition fine_final (ch : list nat) (w : world) (rp : bytes) (goal : option bytes) : option fnstate :=
    match init_dir T w with
    | Err _ => None
    | Ok (w1, t) =>
        match get_nodes T w1 rp goal with
        | Err _ => None
        | Ok pack =>
            match read_histories T teqb hr w1 (p_nodes pack) with
            | None => None
            | Some hists =>
                let (blobs, t') := take_blobs T hc t (worker_paths pack) in
                Some (frun pack blobs hists ch (fn_init T (write_table T w1 t') pack))
            end
        end
    end.

  (* the choices let every worker finish *)
  Definition complete_run (ch : list nat) (w : world) (rp : bytes) (goal : option bytes) : Prop :=
    match fine_final ch w rp goal with Some st => all_done st = true | None => True end.

  Lemma complete_run_eq ch (w : world) rp goal w1 t pack hists blobs t' :
    init_dir T w = Ok (w1, t) -> get_nodes T w1 rp goal = Ok pack ->
    read_histories T teqb hr w1 (p_nodes pack) = Some hists ->
    take_blobs T hc t (worker_paths pack) = (blobs, t') ->
    (complete_run ch w rp goal <-> all_done (frun pack blobs hists ch (fn_init T (write_table T w1 t') pack)) = true).
  Proof. intros Hi Hg Hh Htb. unfold complete_run, fine_final. rewrite Hi, Hg, Hh, Htb. reflexivity. Qed.

  (* ---------- the hypotheses of the invariant, from those of the theorems ---------- *)

  Section Setup.
    Variable w w1 : world.
    Variable rp : bytes.
    Variable goal : option bytes.
    Variable tbl : table T.
    Variable pack : node_pack.
    Variable hists : list (history T).
    Variable blobs : list (blob T).
    Variable t' : table T.
    Hypothesis Hinv : disk_inv w.
    Hypothesis Hhs : hist_sound w.
    Hypothesis Hi : init_dir T w = Ok (w1, tbl).
    Hypothesis Hg : get_nodes T w1 rp goal = Ok pack.
    Hypothesis Hdet : Forall det_node (p_nodes pack).
    Hypothesis Hh : read_histories T teqb hr w1 (p_nodes pack) = Some hists.
    Hypothesis Htb : take_blobs T hc tbl (worker_paths pack) = (blobs, t').

    Let w1t := write_table T w1 t'.

    Lemma fs_steps : steps w1 w1t.
    Proof.
      apply rt_step. apply SWriteTable.
      destruct (InvProofs.init_dir_rs_inv T teqb hc teqb_spec _ _ _ Hinv Hi) as [_ Ht].
      assert (clock_ok teqb w1) as Hk by apply (setup_inv1 T teqb hc teqb_spec w w1 tbl Hinv Hi).
      destruct (take_blobs_ok T teqb hc teqb_spec _ _ _ _ _ Hk Ht Htb) as [_ Ht']. exact Ht'.
    Qed.

    Lemma fs_inv1 : disk_inv w1t.
    Proof. exact (inv_steps T teqb hc teqb_spec _ _ (setup_inv1 T teqb hc teqb_spec w w1 tbl Hinv Hi) fs_steps). Qed.

    Lemma fs_files : forall p, content_at w1t p = content_at w p.
    Proof. intro p. rewrite <- (setup_files T teqb w w1 tbl Hi p). apply content_at_files. reflexivity. Qed.

    Lemma fs_cache : cache_of w1t <> None.
    Proof. exact (setup_cache T teqb w w1 tbl Hi). Qed.

    Lemma fs_wf : plan_wf pack.
    Proof. exact (setup_wf T w1 rp goal pack Hg). Qed.

    Lemma fs_shape : blobs_shaped T pack blobs.
    Proof. exact (setup_shape T hc tbl pack blobs t' Htb). Qed.

    Lemma fs_blobs : forall k, blob_ok w1t (nth k blobs []).
    Proof.
      intro k. apply (blob_steps T teqb hc teqb_spec w1 w1t _ (setup_inv1 T teqb hc teqb_spec w w1 tbl Hinv Hi) fs_steps).
      exact (setup_blobs T teqb hc teqb_spec w w1 tbl pack blobs t' Hinv Hi Htb k).
    Qed.

    Lemma fs_hists : forall j nd, nth_error (p_nodes pack) j = Some nd -> hist_ok (n_rule nd) (nth j hists []).
    Proof. exact (setup_hists T teqb hc hl hr w w1 tbl pack hists Hhs Hi Hdet Hh). Qed.

    Definition fin (ch : list nat) : fnstate := frun pack blobs hists ch (fn_init T w1t pack).

    Lemma fin_finv ch : finv T teqb hc hl w w1t pack hists (fin ch).
    Proof.
      apply (r_finv_run T teqb hc hl teqb_spec hc_inj w w1t pack blobs hists fs_inv1 fs_files fs_wf Hdet fs_shape fs_blobs fs_hists).
      exact (r_finv_init T teqb hc hl hc_inj w w1t pack blobs hists fs_files fs_cache fs_blobs fs_hists).
    Qed.

    Lemma fin_agree ch1 ch2 :
      all_done (fin ch1) = true -> all_done (fin ch2) = true ->
      errs_of T (fproj (fin ch1)) = errs_of T (fproj (fin ch2)) /\
      forall p, content_at (fn_world (fin ch1)) p = content_at (fn_world (fin ch2)) p.
    Proof.
      intros H1 H2.
      exact (complete_agree T teqb hc hl hc_inj w w1t pack blobs hists fs_files fs_wf fs_blobs fs_hists _ _
               (fin_finv ch1) (fin_finv ch2) H1 H2).
    Qed.

    Lemma fin_serial :
      fproj (fin (serial_choices T pack blobs)) =
      fold_left (work_step pack blobs hists) (spawn_order pack) (st_init T w1t pack) /\
      all_done (fin (serial_choices T pack blobs)) = true.
    Proof.
      exact (serial_run T teqb hc hl teqb_spec hc_inj w w1t pack blobs hists fs_inv1 fs_files fs_cache fs_wf Hdet fs_shape
               fs_blobs fs_hists).
    Qed.
  End Setup.

  (* ================================================================== *)
  (* G2: the serial run is the serial build                               *)
  (* ================================================================== *)

  Theorem build_fine_serial : forall (w : world) rp goal w1 tbl pack blobs t',
    disk_inv w -> hist_sound w ->
    init_dir T w = Ok (w1, tbl) -> get_nodes T w1 rp goal = Ok pack -> Forall det_node (p_nodes pack) ->
    take_blobs T hc tbl (worker_paths pack) = (blobs, t') ->
    bf (serial_choices T pack blobs) w rp goal = bld w rp goal.
  Proof.
    intros w rp goal w1 tbl pack blobs t' Hinv Hhs Hi Hg Hdet Htb.
    rewrite <- (build_ord_spawn_order T teqb hc hl hr w rp goal w1 tbl pack Hi Hg).
    destruct (read_histories T teqb hr w1 (p_nodes pack)) as [hists|] eqn:Hh.
    2:{ unfold build_fine, build_ord. rewrite Hi, Hg, Hh. reflexivity. }
    rewrite (build_fine_eq _ _ _ _ _ _ _ _ _ _ Hi Hg Hh Htb), (build_ord_eq2 _ _ _ _ _ _ _ _ _ _ Hi Hg Hh Htb).
    destruct (fin_serial w w1 rp goal tbl pack hists blobs t' Hinv Hhs Hi Hg Hdet Hh Htb) as [E _].
    unfold fin in E. rewrite E. reflexivity.
  Qed.

  Theorem serial_complete : forall (w : world) rp goal w1 tbl pack blobs t',
    disk_inv w -> hist_sound w ->
    init_dir T w = Ok (w1, tbl) -> get_nodes T w1 rp goal = Ok pack -> Forall det_node (p_nodes pack) ->
    take_blobs T hc tbl (worker_paths pack) = (blobs, t') ->
    complete_run (serial_choices T pack blobs) w rp goal.
  Proof.
    intros w rp goal w1 tbl pack blobs t' Hinv Hhs Hi Hg Hdet Htb.
    destruct (read_histories T teqb hr w1 (p_nodes pack)) as [hists|] eqn:Hh.
    2:{ unfold complete_run, fine_final. rewrite Hi, Hg, Hh. exact I. }
    apply (complete_run_eq _ _ _ _ _ _ _ _ _ _ Hi Hg Hh Htb).
    exact (proj2 (fin_serial w w1 rp goal tbl pack hists blobs t' Hinv Hhs Hi Hg Hdet Hh Htb)).
  Qed.

  (* ================================================================== *)
  (* G3: the main theorem                                                 *)
  (* ================================================================== *)

  Theorem build_fine_schedule_independent : forall (w : world) rp goal w1 tbl pack ch1 ch2,
    disk_inv w -> hist_sound w ->
    init_dir T w = Ok (w1, tbl) -> get_nodes T w1 rp goal = Ok pack -> Forall det_node (p_nodes pack) ->
    complete_run ch1 w rp goal -> complete_run ch2 w rp goal ->
    o_verdict (bf ch1 w rp goal) = o_verdict (bf ch2 w rp goal) /\
    forall p, content_at (o_world (bf ch1 w rp goal)) p = content_at (o_world (bf ch2 w rp goal)) p.
  Proof.
    intros w rp goal w1 tbl pack ch1 ch2 Hinv Hhs Hi Hg Hdet Hc1 Hc2.
    destruct (read_histories T teqb hr w1 (p_nodes pack)) as [hists|] eqn:Hh.
    2:{ unfold build_fine. rewrite Hi, Hg, Hh. split; reflexivity. }
    destruct (take_blobs T hc tbl (worker_paths pack)) as [blobs t'] eqn:Htb.
    apply (complete_run_eq _ _ _ _ _ _ _ _ _ _ Hi Hg Hh Htb) in Hc1, Hc2.
    rewrite !(build_fine_eq _ _ _ _ _ _ _ _ _ _ Hi Hg Hh Htb). unfold outcome_of. cbv zeta. cbn [o_verdict o_world].
    destruct (fin_agree w w1 rp goal tbl pack hists blobs t' Hinv Hhs Hi Hg Hdet Hh Htb ch1 ch2 Hc1 Hc2) as [Ee Ec].
    unfold fin in Ee, Ec. rewrite !joined_errors, Ee. split; [reflexivity|].
    intro p. rewrite !joined_content. exact (Ec p).
  Qed.

  (* ================================================================== *)
  (* G5, G4: every complete run gives the verdict of Build.build, and C01 *)
  (* ================================================================== *)

  Theorem build_fine_agrees_with_build : forall (w : world) rp goal w1 tbl pack ch,
    disk_inv w -> hist_sound w ->
    init_dir T w = Ok (w1, tbl) -> get_nodes T w1 rp goal = Ok pack -> Forall det_node (p_nodes pack) ->
    complete_run ch w rp goal ->
    o_verdict (bf ch w rp goal) = o_verdict (bld w rp goal) /\
    forall p, content_at (o_world (bf ch w rp goal)) p = content_at (o_world (bld w rp goal)) p.
  Proof.
    intros w rp goal w1 tbl pack ch Hinv Hhs Hi Hg Hdet Hc.
    destruct (take_blobs T hc tbl (worker_paths pack)) as [blobs t'] eqn:Htb.
    rewrite <- (build_fine_serial w rp goal w1 tbl pack blobs t' Hinv Hhs Hi Hg Hdet Htb).
    apply (build_fine_schedule_independent w rp goal w1 tbl pack); try assumption.
    exact (serial_complete w rp goal w1 tbl pack blobs t' Hinv Hhs Hi Hg Hdet Htb).
  Qed.

  Theorem build_fine_verdict : forall (w : world) rp goal w1 tbl pack ch,
    disk_inv w -> hist_sound w ->
    init_dir T w = Ok (w1, tbl) -> get_nodes T w1 rp goal = Ok pack -> Forall det_node (p_nodes pack) ->
    complete_run ch w rp goal ->
    o_verdict (bf ch w rp goal) = o_verdict (bld w rp goal).
  Proof. intros w rp goal w1 tbl pack ch Hinv Hhs Hi Hg Hdet Hc. eapply build_fine_agrees_with_build; eauto. Qed.

  Theorem build_fine_equals_scratch : forall (w : world) rp goal w1 tbl pack ch,
    disk_inv w -> hist_sound w ->
    init_dir T w = Ok (w1, tbl) -> get_nodes T w1 rp goal = Ok pack -> Forall det_node (p_nodes pack) ->
    complete_run ch w rp goal ->
    o_verdict (bf ch w rp goal) = VOk ->
    forall t, In t (plan_targets pack) ->
      content_at (o_world (bf ch w rp goal)) t = content_at (scratch_world w pack) t.
  Proof.
    intros w rp goal w1 tbl pack ch Hinv Hhs Hi Hg Hdet Hc Hok t Ht.
    destruct (build_fine_agrees_with_build w rp goal w1 tbl pack ch Hinv Hhs Hi Hg Hdet Hc) as [Ev Ec].
    rewrite Ec. apply (incremental_equals_scratch T teqb hc hl hr teqb_spec hc_inj hl_inj hr_inj w rp goal w1 tbl pack);
      auto. congruence.
  Qed.

  (* ================================================================== *)
  (* G1 along the runs of build_fine                                      *)
  (* ================================================================== *)

  Theorem build_fine_step_decreases : forall pack blobs hists (st : fnstate) k st',
    fstep pack blobs hists st k = Some st' -> fmeasure T pack blobs st' < fmeasure T pack blobs st.
  Proof. exact (fstep_decreases T teqb hc hl). Qed.

  (* in every state a run of build_fine reaches, if somebody is not done then somebody can move *)
  Theorem build_fine_no_deadlock : forall (w1 w0 : world) rp goal pack blobs hists ch,
    get_nodes T w1 rp goal = Ok pack ->
    let st := frun pack blobs hists ch (fn_init T w0 pack) in
    all_done st = false -> exists k, fstep pack blobs hists st k <> None.
  Proof.
    intros w1 w0 rp goal pack blobs hists ch Hg st Hnd.
    apply (fine_no_deadlock T teqb hc hl); [exact (get_nodes_plan_wf T _ _ _ _ Hg) | | exact Hnd].
    apply frun_fwf. apply fwf_init.
  Qed.

  (* ... hence every run can be continued to a complete one, and a run after which nobody can move is complete *)
  Theorem build_fine_completable : forall (w1 w0 : world) rp goal pack blobs hists ch,
    get_nodes T w1 rp goal = Ok pack ->
    exists ch', all_done (frun pack blobs hists (ch ++ ch') (fn_init T w0 pack)) = true.
  Proof.
    intros w1 w0 rp goal pack blobs hists ch Hg.
    destruct (fine_completable T teqb hc hl pack blobs hists (frun pack blobs hists ch (fn_init T w0 pack))
                (get_nodes_plan_wf T _ _ _ _ Hg)) as (ch' & H).
    - apply frun_fwf. apply fwf_init.
    - exists ch'. rewrite frun_app. exact H.
  Qed.

  Theorem build_fine_maximal_complete : forall (w1 w0 : world) rp goal pack blobs hists ch,
    get_nodes T w1 rp goal = Ok pack ->
    let st := frun pack blobs hists ch (fn_init T w0 pack) in
    (forall k, fstep pack blobs hists st k = None) -> all_done st = true.
  Proof.
    intros w1 w0 rp goal pack blobs hists ch Hg st Hstuck.
    apply (fine_stuck_is_complete T teqb hc hl pack blobs hists); [exact (get_nodes_plan_wf T _ _ _ _ Hg) | | exact Hstuck].
    apply frun_fwf. apply fwf_init.
  Qed.
End Final.

(* ================================================================== *)
(* G6: the free symbolic hashes                                         *)
(* ================================================================== *)

Notation build_fine_sym := (build_fine sym_eqb SContent SList SRule).
Notation complete_run_sym := (complete_run sym sym_eqb SContent SList SRule).
Notation fstep_sym := (fstep sym_eqb SContent SList).
Notation frun_sym := (frun sym_eqb SContent SList).

Theorem build_fine_step_decreases_sym : forall pack blobs hists (st : fnstate sym) k st',
  fstep_sym pack blobs hists st k = Some st' -> fmeasure sym pack blobs st' < fmeasure sym pack blobs st.
Proof. exact (build_fine_step_decreases sym sym_eqb SContent SList). Qed.

Theorem build_fine_no_deadlock_sym : forall (w1 w0 : world sym) rp goal pack blobs hists ch,
  get_nodes sym w1 rp goal = Ok pack ->
  let st := frun_sym pack blobs hists ch (fn_init sym w0 pack) in
  all_done st = false -> exists k, fstep_sym pack blobs hists st k <> None.
Proof. exact (build_fine_no_deadlock sym sym_eqb SContent SList). Qed.

Theorem build_fine_completable_sym : forall (w1 w0 : world sym) rp goal pack blobs hists ch,
  get_nodes sym w1 rp goal = Ok pack ->
  exists ch', all_done (frun_sym pack blobs hists (ch ++ ch') (fn_init sym w0 pack)) = true.
Proof. exact (build_fine_completable sym sym_eqb SContent SList). Qed.

Theorem build_fine_serial_sym : forall (w : world sym) rp goal w1 tbl pack blobs t',
  disk_inv sym_eqb SContent w -> hist_sound_sym w ->
  init_dir sym w = Ok (w1, tbl) -> get_nodes sym w1 rp goal = Ok pack -> Forall det_node (p_nodes pack) ->
  take_blobs sym SContent tbl (worker_paths pack) = (blobs, t') ->
  build_fine_sym (serial_choices sym pack blobs) w rp goal = build_sym w rp goal.
Proof. exact (build_fine_serial sym sym_eqb SContent SList SRule sym_eqb_spec SContent_inj). Qed.

Theorem build_fine_schedule_independent_sym : forall (w : world sym) rp goal w1 tbl pack ch1 ch2,
  disk_inv sym_eqb SContent w -> hist_sound_sym w ->
  init_dir sym w = Ok (w1, tbl) -> get_nodes sym w1 rp goal = Ok pack -> Forall det_node (p_nodes pack) ->
  complete_run_sym ch1 w rp goal -> complete_run_sym ch2 w rp goal ->
  o_verdict (build_fine_sym ch1 w rp goal) = o_verdict (build_fine_sym ch2 w rp goal) /\
  forall p, content_at (o_world (build_fine_sym ch1 w rp goal)) p = content_at (o_world (build_fine_sym ch2 w rp goal)) p.
Proof. exact (build_fine_schedule_independent sym sym_eqb SContent SList SRule sym_eqb_spec SContent_inj). Qed.

Theorem build_fine_equals_scratch_sym : forall (w : world sym) rp goal w1 tbl pack ch,
  disk_inv sym_eqb SContent w -> hist_sound_sym w ->
  init_dir sym w = Ok (w1, tbl) -> get_nodes sym w1 rp goal = Ok pack -> Forall det_node (p_nodes pack) ->
  complete_run_sym ch w rp goal ->
  o_verdict (build_fine_sym ch w rp goal) = VOk ->
  forall t, In t (plan_targets pack) ->
    content_at (o_world (build_fine_sym ch w rp goal)) t = content_at (scratch_world w pack) t.
Proof.
  exact (build_fine_equals_scratch sym sym_eqb SContent SList SRule sym_eqb_spec SContent_inj SList_inj SRule_inj).
Qed.

Theorem build_fine_verdict_sym : forall (w : world sym) rp goal w1 tbl pack ch,
  disk_inv sym_eqb SContent w -> hist_sound_sym w ->
  init_dir sym w = Ok (w1, tbl) -> get_nodes sym w1 rp goal = Ok pack -> Forall det_node (p_nodes pack) ->
  complete_run_sym ch w rp goal ->
  o_verdict (build_fine_sym ch w rp goal) = o_verdict (build_sym w rp goal).
Proof. exact (build_fine_verdict sym sym_eqb SContent SList SRule sym_eqb_spec SContent_inj). Qed.

(* ================================================================== *)
(* two rule threads race for one cache entry                            *)
(* ================================================================== *)

(* rules: a <- s, b <- a, c <- a; b and c are independent and produce byte-identical files ("x" followed by a),
   different from a. History: build with s = "1", change s to "2", build (the old b and c go into ONE cache slot),
   change s back to "1". In the build under test a is recovered; b and c both remember the content in that one
   slot. Workers: 0 = leaf s, 1 = a, 2 = b, 3 = c. *)
Definition fx_rules : bytes := join_with [NL] (map bs
  ["a";":";"s";":";"gen a @s";":";
   "b";":";"a";":";"gen b =x @a";":";
   "c";":";"a";":";"gen c =x @a";":";""]%string).

Definition fx_ops : list (op sym) :=
  [OWrite (bs "s") (bs "1"); OWrite RULES_PATH fx_rules; OBuild None;
   OWrite (bs "s") (bs "2"); OBuild None; OWrite (bs "s") (bs "1")].

Definition fx_w : world sym := run_sym fx_ops (init_world Fine 1).
Definition fx_w1 : world sym := match init_dir sym fx_w with Ok (w1, _) => w1 | Err _ => fx_w end.
Definition fx_tbl : table sym := match init_dir sym fx_w with Ok (_, t) => t | Err _ => [] end.
Definition fx_pack : node_pack :=
  match get_nodes sym fx_w1 RULES_PATH None with Ok p => p | Err _ => mk_pack [] [] end.

Lemma fx_det_history : det_history_sym (init_world Fine 1) fx_ops.
Proof.
  unfold fx_ops. cbn [det_history].
  repeat match goal with
         | |- _ /\ _ => split
         | |- InvProofs.safe_op _ _ => exact I
         | |- True => exact I
         | |- op_det _ _ (OBuild _) => cbn [op_det]; apply build_detb_sound; vm_compute; reflexivity
         | |- op_det _ _ _ => exact I
         end.
Qed.

Lemma fx_inv : disk_inv sym_eqb SContent fx_w /\ hist_sound_sym fx_w.
Proof. apply (reach_hist_sound_partial_sym 1 fx_ops); exact fx_det_history. Qed.

Lemma fx_init : init_dir sym fx_w = Ok (fx_w1, fx_tbl).
Proof. vm_compute. reflexivity. Qed.

Lemma fx_nodes : get_nodes sym fx_w1 RULES_PATH None = Ok fx_pack.
Proof. vm_compute. reflexivity. Qed.

Lemma fx_det : Forall det_node (p_nodes fx_pack).
Proof. apply det_nodesb_sound. vm_compute. reflexivity. Qed.

(* s, then a to completion, then b and c up to their rename: both have seen the entry *)
Definition fx_pre : list nat := [0] ++ repeat 1 6 ++ [2; 2; 2; 3; 3; 3].
Definition fx_c_wins : list nat := fx_pre ++ [3; 2] ++ repeat 2 6 ++ repeat 3 6.
Definition fx_b_wins : list nat := fx_pre ++ [2; 3] ++ repeat 2 6 ++ repeat 3 6.

Definition fx_phases (ch : list nat) : option (list wphase) :=
  match fine_final sym sym_eqb SContent SList SRule ch fx_w RULES_PATH None with
  | Some st => Some (map (phase_of sym st) [0; 1; 2; 3])
  | None => None
  end.

(* both threads are between is_file(cache/h) = true and the rename; whoever renames second finds the entry gone *)
Example fx_race :
  fx_phases fx_pre = Some [WDone; WDone; WRename [] 0; WRename [] 0] /\
  fx_phases (fx_pre ++ [3; 2]) = Some [WDone; WDone; WResolve [NeedsRebuild] 1; WResolve [Recovered] 1] /\
  fx_phases (fx_pre ++ [2; 3]) = Some [WDone; WDone; WResolve [Recovered] 1; WResolve [NeedsRebuild] 1].
Proof. vm_compute. repeat split; reflexivity. Qed.

Example fx_complete : complete_run_sym fx_c_wins fx_w RULES_PATH None /\ complete_run_sym fx_b_wins fx_w RULES_PATH None.
Proof. split; vm_compute; reflexivity. Qed.

(* the hypotheses of G3 hold, so its conclusion does *)
Example fx_schedule_independent :
  o_verdict (build_fine_sym fx_c_wins fx_w RULES_PATH None) = o_verdict (build_fine_sym fx_b_wins fx_w RULES_PATH None) /\
  forall p, content_at (o_world (build_fine_sym fx_c_wins fx_w RULES_PATH None)) p =
            content_at (o_world (build_fine_sym fx_b_wins fx_w RULES_PATH None)) p.
Proof.
  destruct fx_inv as [Hinv Hhs]. destruct fx_complete as [C1 C2].
  exact (build_fine_schedule_independent_sym fx_w RULES_PATH None fx_w1 fx_tbl fx_pack _ _ Hinv Hhs fx_init fx_nodes fx_det C1 C2).
Qed.

(* ... and it is not vacuous: the two runs execute different commands (the loser of the race rebuilds) *)
Example fx_commands_differ :
  o_commands (build_fine_sym fx_c_wins fx_w RULES_PATH None) <> o_commands (build_fine_sym fx_b_wins fx_w RULES_PATH None).
Proof. vm_compute. discriminate. Qed.

Example fx_values :
  o_verdict (build_fine_sym fx_c_wins fx_w RULES_PATH None) = VOk /\
  o_verdict (build_fine_sym fx_b_wins fx_w RULES_PATH None) = VOk /\
  o_commands (build_fine_sym fx_c_wins fx_w RULES_PATH None) = [bs "gen b =x @a"] /\
  o_commands (build_fine_sym fx_b_wins fx_w RULES_PATH None) = [bs "gen c =x @a"] /\
  content_at (o_world (build_fine_sym fx_c_wins fx_w RULES_PATH None)) (bs "b") = Some (bs "x1") /\
  content_at (o_world (build_fine_sym fx_b_wins fx_w RULES_PATH None)) (bs "b") = Some (bs "x1") /\
  content_at (o_world (build_fine_sym fx_c_wins fx_w RULES_PATH None)) (bs "c") = Some (bs "x1") /\
  content_at (scratch_world fx_w fx_pack) (bs "c") = Some (bs "x1").
Proof. vm_compute. repeat split; reflexivity. Qed.

(* G4, G5 and G2 on the example *)
Example fx_equals_scratch : forall t, In t (plan_targets fx_pack) ->
  content_at (o_world (build_fine_sym fx_c_wins fx_w RULES_PATH None)) t = content_at (scratch_world fx_w fx_pack) t.
Proof.
  destruct fx_inv as [Hinv Hhs]. destruct fx_complete as [C1 _]. destruct fx_values as [Hok _].
  exact (build_fine_equals_scratch_sym fx_w RULES_PATH None fx_w1 fx_tbl fx_pack _ Hinv Hhs fx_init fx_nodes fx_det C1 Hok).
Qed.

Example fx_verdict : o_verdict (build_fine_sym fx_c_wins fx_w RULES_PATH None) = o_verdict (build_sym fx_w RULES_PATH None).
Proof.
  destruct fx_inv as [Hinv Hhs]. destruct fx_complete as [C1 _].
  exact (build_fine_verdict_sym fx_w RULES_PATH None fx_w1 fx_tbl fx_pack _ Hinv Hhs fx_init fx_nodes fx_det C1).
Qed.

Definition fx_blobs : list (blob sym) := fst (take_blobs sym SContent fx_tbl (worker_paths fx_pack)).

Example fx_serial : build_fine_sym (serial_choices sym fx_pack fx_blobs) fx_w RULES_PATH None = build_sym fx_w RULES_PATH None.
Proof.
  destruct fx_inv as [Hinv Hhs].
  apply (build_fine_serial_sym fx_w RULES_PATH None fx_w1 fx_tbl fx_pack fx_blobs
           (snd (take_blobs sym SContent fx_tbl (worker_paths fx_pack))) Hinv Hhs fx_init fx_nodes fx_det).
  unfold fx_blobs. destruct (take_blobs sym SContent fx_tbl (worker_paths fx_pack)); reflexivity.
Qed.

(* the serial run differs from both racing runs in what it executes: b takes the entry before c looks *)
Example fx_serial_commands :
  o_commands (build_fine_sym (serial_choices sym fx_pack fx_blobs) fx_w RULES_PATH None) = [bs "gen c =x @a"] /\
  fx_phases (serial_choices sym fx_pack fx_blobs) = Some [WDone; WDone; WDone; WDone].
Proof. vm_compute. split; reflexivity. Qed.

(* G1 on the example: the measure of the initial state bounds the length of every run without skipped steps *)
Example fx_measure : fmeasure sym fx_pack fx_blobs (fn_init sym fx_w1 fx_pack) = 24.
Proof. vm_compute. reflexivity. Qed.
