(* FINE-COROLLARIES, part 2: the per-instant properties for EVERY state that any run of Model/Fine.v reaches.
   `reach st` is written out: st = frun pack blobs hists ch (fn_init T (write_table T w1 t') pack), where w1, tbl, pack,
   hists, blobs, t' are what build_fine computes from w (the four equations), under the standing hypotheses
   (H): disk_inv w, hist_sound w, Forall det_node (p_nodes pack).
   P1 (C07 / C11): fine_crash_ok, fine_crash_recovers, fine_crash_recovers_tick, fine_no_stale_entries;
   P2 (C08): fine_step_keeps_content (every step but the one that runs the user's command);
   P3 (C09): fine_frame (no hypothesis but confinement of the commands). *)
From Coq Require Import Relations.Relation_Operators Relations.Operators_Properties.
From Ruler Require Import Tactics Bytes AList RuleSyntax Parser TopoSort TopoSpec World Cmdlang Work Build Ops Inv
     BuildSpec Ideal Sched Fine BytesFacts InvFacts TableFrame BuildFacts TopoSortFacts C01Script C01Hist C01Build C01Plan
     C01Facts C04Facts C11Facts ActsCrash F6Facts SchedBasic SchedSerial SchedRule SchedInv SchedFacts
     FineBasic FineRule FineInv FineSerial FineFacts FineCorStep.
Local Open Scope nat_scope.

Section FineCor.
  Variable T : Type.
  Variable teqb : T -> T -> bool.
  Variable hc : bytes -> T.
  Variable hl : list T -> T.
  Variable hr : rule -> T.

  Notation world := (world T).
  Notation fstate := (fstate T).
  Notation fnstate := (fnstate T).
  Notation disk_inv := (disk_inv teqb hc).
  Notation cache_addressed := (cache_addressed teqb hc).
  Notation state_ok := (state_ok teqb hc).
  Notation steps := (clos_refl_trans world (step teqb hc)).
  Notation blob_ok := (InvProofs.blob_ok T teqb hc).
  Notation hist_sound := (hist_sound T teqb hc hl hr).
  Notation no_bad := (no_bad_state_files T teqb).
  Notation crash_ok := (crash_ok T teqb hc hl hr).
  Notation build := (build teqb hc hl hr).
  Notation fstep := (fstep teqb hc hl).
  Notation frun := (frun teqb hc hl).
  Notation phase_of := (phase_of T).
  Notation wsk := (wsk T).
  Notation protected_content := (protected_content teqb).

  (* ================================================================== *)
  (* facts that need no invariant of the world                            *)
  (* ================================================================== *)

  Lemma det_nodes_confined ns : Forall det_node ns -> Forall node_confined ns.
  Proof.
    intro H. eapply Forall_impl; [|exact H]. intros n ((Hc & _) & Etg & Ecmd).
    unfold node_confined. rewrite Etg, Ecmd. exact Hc.
  Qed.

  Section Plan.
    Variable pack : node_pack.
    Variable blobs : list (blob T).
    Variable hists : list (history T).
    Hypothesis Hwf : plan_wf pack.
    Hypothesis Hshape : blobs_shaped T pack blobs.
    Hypothesis Hconf : Forall node_confined (p_nodes pack).

    Let nl := length (p_leaves pack).

    Lemma node_blob_target j nd i p a :
      nth_error (p_nodes pack) j = Some nd -> nth_error (nth (nl + j) blobs []) i = Some (p, a) ->
      nth_error (n_targets nd) i = Some p.
    Proof.
      intros Hn E. rewrite <- (blobs_shaped_node T pack blobs j nd Hshape Hn). fold nl. rewrite nth_error_map, E. reflexivity.
    Qed.

    (* a rule thread between "target i is out of the way" and the rename into it: target i is absent *)
    Definition absent_inv (st : fnstate) : Prop :=
      forall j nd done i p, nth_error (p_nodes pack) j = Some nd ->
        (phase_of st (nl + j) = WCheck done i \/ phase_of st (nl + j) = WRename done i) ->
        nth_error (n_targets nd) i = Some p -> fget (fn_world st) p = None.

    Lemma absent_init (w0 : world) : absent_inv (fn_init T w0 pack).
    Proof.
      intros j nd done i p Hn Hph _. exfalso.
      assert (phase_of (fn_init T w0 pack) (nl + j) = WWait) as E.
      { unfold Fine.phase_of, fn_init. cbn [fn_workers]. rewrite nth_repeat_lt; [reflexivity|].
        assert (j < length (p_nodes pack)) by (apply nth_error_Some; rewrite Hn; discriminate).
        unfold nworkers. fold nl. lia. }
      rewrite E in Hph. destruct Hph; discriminate.
    Qed.

    (* a step of worker k leaves the targets of every other rule thread alone *)
    Lemma step_others_targets st k st' j nd p :
      fstep pack blobs hists st k = Some st' -> nth_error (p_nodes pack) j = Some nd -> nl + j <> k ->
      In p (n_targets nd) -> fget (fn_world st') p = fget (fn_world st) p.
    Proof.
      intros H Hn Hne Hp. destruct (fstep_shape T teqb hc hl _ _ _ _ _ _ H) as [Hl | Hs].
      - rewrite (leaf_step_world T _ _ _ _ Hl). reflexivity.
      - destruct (node_step_wchange T teqb hc _ _ _ _ _ _ Hs) as (n & Hk & En & Hc). fold nl in Hk, En.
        apply (wchange_frame T teqb hc blobs st k n); [| |exact Hc|].
        + replace k with (nl + (k - nl)) at 1 by lia. apply (blobs_shaped_node T pack blobs _ n Hshape En).
        + rewrite Forall_forall in Hconf. apply Hconf. eapply nth_error_In; eauto.
        + apply (plan_targets_disjoint pack j (k - nl) nd n p Hwf Hn En); [lia | exact Hp].
    Qed.

    Lemma phase_upd_self (st : fnstate) w' k ws :
      k < length (fn_workers st) -> phase_of (upd_worker T (set_world T st w') k ws) k = wst_phase T ws.
    Proof. intro Hk. rewrite phase_of_wsk. rewrite upd_worker_self; [reflexivity | exact Hk]. Qed.

    Lemma absent_step st k st' : absent_inv st -> fstep pack blobs hists st k = Some st' -> absent_inv st'.
    Proof.
      intros Ha H j nd done i p Hn Hph Hp.
      pose proof (fstep_cases T teqb hc hl _ _ _ _ _ _ H) as (Hk & _ & _).
      destruct (Nat.eq_dec (nl + j) k) as [E | Hne].
      2:{ assert (In p (n_targets nd)) as Hin by (eapply nth_error_In; eauto).
          rewrite (step_others_targets st k st' j nd p H Hn Hne Hin).
          apply (Ha j nd done i p Hn); [|exact Hp].
          rewrite !phase_of_wsk in *. rewrite <- (fstep_other T teqb hc hl _ _ _ _ _ _ (nl + j) H Hne). exact Hph. }
      subst k.
      destruct (fstep_shape T teqb hc hl _ _ _ _ _ _ H) as [(Hlt & _) | (n & _ & En & Hc)]; [fold nl in Hlt; lia|].
      fold nl in En. replace (nl + j - nl) with j in * by lia. rewrite Hn in En. injection En as <-.
      destruct Hc as [(_ & key & [(rem & _ & ->) | (_ & ->)]) | [(ph' & w' & Hpt & ->) | [(_ & tr & _ & ->) | Hl]]].
      - exfalso. rewrite phase_of_wsk, upd_worker_self in Hph by exact Hk. cbn in Hph. destruct Hph; discriminate.
      - exfalso. rewrite phase_of_wsk, upd_worker_self in Hph by exact Hk. cbn in Hph. destruct Hph; discriminate.
      - rewrite phase_upd_self in Hph by exact Hk. cbn [wst_phase] in Hph.
        cbn [Fine.upd_worker Fine.set_world fn_world].
        destruct Hph as [E | E]; rewrite E in Hpt.
        + (* target i has just been put out of the way, or found absent *)
          destruct (ptrans_to_check T teqb hc _ _ _ _ _ _ _ Hpt) as (_ & p0 & a & Eb & Hnone).
          rewrite (node_blob_target j nd _ _ _ Hn Eb) in Hp. injection Hp as <-. exact Hnone.
        + (* the check said yes: nothing has moved *)
          destruct (ptrans_to_rename T teqb hc _ _ _ _ _ _ _ Hpt) as (Eph & ->).
          apply (Ha j nd done i p Hn); [left; exact Eph | exact Hp].
      - exfalso. rewrite phase_of_wsk, finish_worker_self in Hph by exact Hk. cbn in Hph. destruct Hph; discriminate.
      - destruct Hl as (ro & key & res & w' & script & _ & _ & _ & ->).
        exfalso. rewrite phase_of_wsk, finish_worker_self in Hph by exact Hk. cbn in Hph. destruct Hph; discriminate.
    Qed.

    Lemma absent_run ch st : absent_inv st -> absent_inv (frun pack blobs hists ch st).
    Proof. apply (frun_ind T teqb hc hl). intros s k s' Hs E. eapply absent_step; eauto. Qed.

    (* P3, for any start *)
    Lemma frame_run ch st p :
      ~ In p (plan_targets pack) -> fget (fn_world (frun pack blobs hists ch st)) p = fget (fn_world st) p.
    Proof.
      intro Hp. apply (frun_ind T teqb hc hl (fun s => fget (fn_world s) p = fget (fn_world st) p)); [|reflexivity].
      intros s k s' Hs E. rewrite <- Hs. eapply (fstep_frame T teqb hc hl); eauto.
    Qed.

  End Plan.

  Hypothesis teqb_spec : forall a b, teqb a b = true <-> a = b.
  Hypothesis hc_inj : forall a b, hc a = hc b -> a = b.
  Hypothesis hl_inj : forall a b, hl a = hl b -> a = b.
  Hypothesis hr_inj : forall a b, hr a = hr b -> a = b.

  Section PlanContent.
    Variable pack : node_pack.
    Variable blobs : list (blob T).
    Variable hists : list (history T).
    Hypothesis Hshape : blobs_shaped T pack blobs.

    Let nl := length (p_leaves pack).

    (* P2, one step from a state that satisfies the invariants *)
    Lemma step_keeps_content st k st' paths c :
      cache_addressed (fn_world st) -> (forall k, blob_ok (fn_world st) (nth k blobs [])) -> absent_inv pack st ->
      fstep pack blobs hists st k = Some st' ->
      (forall ro, phase_of st k <> WFinish ro) ->
      incl (plan_targets pack) paths ->
      protected_content paths (fn_world st) c -> protected_content paths (fn_world st') c.
    Proof.
      intros Hca Hb Ha H Hnf Hincl Hp.
      destruct (fstep_shape T teqb hc hl _ _ _ _ _ _ H) as [Hl | Hs].
      { rewrite (leaf_step_world T _ _ _ _ Hl). exact Hp. }
      destruct (node_step_wchange T teqb hc _ _ _ _ _ _ Hs) as (n & Hk & En & Hc). fold nl in Hk, En.
      assert (k = nl + (k - nl)) as Ek by lia. set (j := k - nl) in *.
      destruct Hc as [-> | i p a cur _ Eb Eg Hbk | done i p a r Eph Eb Er Hr | ro Eph _].
      - exact Hp.
      - apply (InvProofs.back_up_keeps_content T teqb hc teqb_spec hc_inj paths (fn_world st) p a cur (fn_world st') c Hca); try assumption.
        apply (Hb k p a). eapply nth_error_In; eauto.
      - rewrite Ek in Eb, Eph. pose proof (node_blob_target pack blobs Hshape j n i p a En Eb) as Hpi.
        apply (InvProofs.restore_keeps_content T teqb hc teqb_spec hc_inj paths (fn_world st) (fs_t r) p (fn_world st') c); try assumption.
        + apply Hincl. eapply node_targets_in_plan; [eapply nth_error_In; exact En | eapply nth_error_In; exact Hpi].
        + apply (Ha j n done i p En); [right; exact Eph | exact Hpi].
      - exfalso. exact (Hnf ro Eph).
    Qed.
  End PlanContent.

  (* ================================================================== *)
  (* the states of a build                                                *)
  (* ================================================================== *)

  Section Setup.
    Variable w w1 : world.
    Variable rp : bytes.
    Variable goal : option bytes.
    Variable tbl : table T.
    Variable pack : node_pack.
    Variable hists : list (history T).
    Variable blobs : list (blob T).
    Variable t' : table T.
    Hypothesis Hinv : disk_inv w.
    Hypothesis Hhs : hist_sound w.
    Hypothesis Hi : init_dir T w = Ok (w1, tbl).
    Hypothesis Hg : get_nodes T w1 rp goal = Ok pack.
    Hypothesis Hdet : Forall det_node (p_nodes pack).
    Hypothesis Hh : read_histories T teqb hr w1 (p_nodes pack) = Some hists.
    Hypothesis Htb : take_blobs T hc tbl (worker_paths pack) = (blobs, t').

    Let w1t := write_table T w1 t'.
    Let reached (ch : list nat) : fnstate := frun pack blobs hists ch (fn_init T w1t pack).

    Lemma su_finv ch : finv T teqb hc hl w w1t pack hists (reached ch).
    Proof. exact (fin_finv T teqb hc hl hr teqb_spec hc_inj w w1 rp goal tbl pack hists blobs t' Hinv Hhs Hi Hg Hdet Hh Htb ch). Qed.

    Lemma su_inv1 : disk_inv w1t.
    Proof. exact (fs_inv1 T teqb hc teqb_spec w w1 tbl pack blobs t' Hinv Hi Htb). Qed.

    Lemma su_disk_inv ch : disk_inv (fn_world (reached ch)).
    Proof. exact (inv_steps T teqb hc teqb_spec _ _ su_inv1 (fi_steps _ _ _ _ _ _ _ _ _ (su_finv ch))). Qed.

    Lemma su_blobs ch k : blob_ok (fn_world (reached ch)) (nth k blobs []).
    Proof.
      apply (blob_steps T teqb hc teqb_spec w1t _ _ su_inv1 (fi_steps _ _ _ _ _ _ _ _ _ (su_finv ch))).
      exact (fs_blobs T teqb hc teqb_spec w w1 tbl pack blobs t' Hinv Hi Htb k).
    Qed.

    Lemma su_rd ch :
      rd_table (w_rd (fn_world (reached ch))) = Some (SF_ok t') /\
      rd_hist (w_rd (fn_world (reached ch))) = rd_hist (w_rd w1).
    Proof. apply (frun_rd T teqb hc hl pack blobs hists ch (fn_init T w1t pack)). Qed.

    Lemma su_hist_sound ch : hist_sound (fn_world (reached ch)).
    Proof.
      apply (hist_sound_same T teqb hc hl hr w1); [exact (proj2 (su_rd ch))|].
      exact (hist_sound_sub T teqb hc hl hr _ _ (init_dir_hist_sub T teqb _ _ _ Hi) Hhs).
    Qed.

    Lemma su_no_bad ch : no_bad w -> no_bad (fn_world (reached ch)).
    Proof.
      intro Hn. destruct (C11Proofs.init_dir_no_bad T teqb _ _ _ Hi Hn) as [_ H2]. destruct (su_rd ch) as [E1 E2].
      split; [rewrite E1; discriminate | rewrite E2; exact H2].
    Qed.

    Lemma su_absent ch : absent_inv pack (reached ch).
    Proof.
      apply absent_run; [exact (fs_wf T w1 rp goal pack Hg) | exact (fs_shape T hc tbl pack blobs t' Htb)
                         | exact (det_nodes_confined _ Hdet) | apply absent_init].
    Qed.
  End Setup.

  (* ================================================================== *)
  (* P1                                                                   *)
  (* ================================================================== *)

  (* C07 / C11 at every instant of every interleaving: the world of every reachable state is ActsCrash.crash_ok
     (in particular its cache is content-addressed: first component of disk_inv) *)
  Theorem fine_crash_ok : forall (w : world) rp goal w1 tbl pack hists blobs t' ch,
    disk_inv w -> hist_sound w -> no_bad w ->
    init_dir T w = Ok (w1, tbl) -> get_nodes T w1 rp goal = Ok pack -> Forall det_node (p_nodes pack) ->
    read_histories T teqb hr w1 (p_nodes pack) = Some hists ->
    take_blobs T hc tbl (worker_paths pack) = (blobs, t') ->
    let st := frun pack blobs hists ch (fn_init T (write_table T w1 t') pack) in
    disk_inv (fn_world st) /\ hist_sound (fn_world st) /\ no_bad (fn_world st).
  Proof.
    intros w rp goal w1 tbl pack hists blobs t' ch Hinv Hhs Hn Hi Hg Hdet Hh Htb st. split; [|split].
    - exact (su_disk_inv w w1 rp goal tbl pack hists blobs t' Hinv Hhs Hi Hg Hdet Hh Htb ch).
    - exact (su_hist_sound w w1 tbl pack hists blobs t' Hhs Hi ch).
    - exact (su_no_bad w w1 tbl pack hists blobs t' Hi ch Hn).
  Qed.

  Corollary fine_cache_addressed : forall (w : world) rp goal w1 tbl pack hists blobs t' ch,
    disk_inv w -> hist_sound w ->
    init_dir T w = Ok (w1, tbl) -> get_nodes T w1 rp goal = Ok pack -> Forall det_node (p_nodes pack) ->
    read_histories T teqb hr w1 (p_nodes pack) = Some hists ->
    take_blobs T hc tbl (worker_paths pack) = (blobs, t') ->
    cache_addressed (fn_world (frun pack blobs hists ch (fn_init T (write_table T w1 t') pack))).
  Proof.
    intros w rp goal w1 tbl pack hists blobs t' ch Hinv Hhs Hi Hg Hdet Hh Htb.
    apply (su_disk_inv w w1 rp goal tbl pack hists blobs t' Hinv Hhs Hi Hg Hdet Hh Htb ch).
  Qed.

  (* a kill at any instant of any interleaving: the next build from what is on disk (goal', any plan) is not
     wedged and satisfies C01 *)
  Theorem fine_crash_recovers : forall (w : world) rp goal w1 tbl pack hists blobs t' ch goal' w1' tbl' pack',
    disk_inv w -> hist_sound w -> no_bad w ->
    init_dir T w = Ok (w1, tbl) -> get_nodes T w1 rp goal = Ok pack -> Forall det_node (p_nodes pack) ->
    read_histories T teqb hr w1 (p_nodes pack) = Some hists ->
    take_blobs T hc tbl (worker_paths pack) = (blobs, t') ->
    let wc := fn_world (frun pack blobs hists ch (fn_init T (write_table T w1 t') pack)) in
    crash_ok wc /\ cache_addressed wc /\
    o_verdict (build wc RULES_PATH goal') <> VFatal FTable /\
    o_verdict (build wc RULES_PATH goal') <> VFatal FHistory /\
    (init_dir T wc = Ok (w1', tbl') -> get_nodes T w1' RULES_PATH goal' = Ok pack' ->
     Forall det_node (p_nodes pack') ->
     o_verdict (build wc RULES_PATH goal') = VOk ->
     forall t, In t (plan_targets pack') ->
       content_at (o_world (build wc RULES_PATH goal')) t = content_at (scratch_world wc pack') t).
  Proof.
    intros w rp goal w1 tbl pack hists blobs t' ch goal' w1' tbl' pack' Hinv Hhs Hn Hi Hg Hdet Hh Htb wc.
    assert (crash_ok wc) as Hwc by exact (fine_crash_ok w rp goal w1 tbl pack hists blobs t' ch Hinv Hhs Hn Hi Hg Hdet Hh Htb).
    destruct (crash_ok_recovers T teqb hc hl hr teqb_spec hc_inj hl_inj hr_inj wc goal' Hwc) as (R1 & R2 & R3 & R4 & R5).
    repeat (split; [assumption|]). intros Hi' Hg'. apply (R5 w1' tbl' pack' Hi' Hg').
  Qed.

  (* the user re-invokes ruler later *)
  Theorem fine_crash_recovers_tick : forall (w : world) rp goal w1 tbl pack hists blobs t' ch goal' w1' tbl' pack',
    disk_inv w -> hist_sound w -> no_bad w ->
    init_dir T w = Ok (w1, tbl) -> get_nodes T w1 rp goal = Ok pack -> Forall det_node (p_nodes pack) ->
    read_histories T teqb hr w1 (p_nodes pack) = Some hists ->
    take_blobs T hc tbl (worker_paths pack) = (blobs, t') ->
    let wc := tick (fn_world (frun pack blobs hists ch (fn_init T (write_table T w1 t') pack))) in
    crash_ok wc /\ cache_addressed wc /\
    o_verdict (build wc RULES_PATH goal') <> VFatal FTable /\
    o_verdict (build wc RULES_PATH goal') <> VFatal FHistory /\
    (init_dir T wc = Ok (w1', tbl') -> get_nodes T w1' RULES_PATH goal' = Ok pack' ->
     Forall det_node (p_nodes pack') ->
     o_verdict (build wc RULES_PATH goal') = VOk ->
     forall t, In t (plan_targets pack') ->
       content_at (o_world (build wc RULES_PATH goal')) t = content_at (scratch_world wc pack') t).
  Proof.
    intros w rp goal w1 tbl pack hists blobs t' ch goal' w1' tbl' pack' Hinv Hhs Hn Hi Hg Hdet Hh Htb wc.
    assert (crash_ok wc) as Hwc.
    { apply (tick_crash_ok T teqb hc hl hr teqb_spec).
      exact (fine_crash_ok w rp goal w1 tbl pack hists blobs t' ch Hinv Hhs Hn Hi Hg Hdet Hh Htb). }
    destruct (crash_ok_recovers T teqb hc hl hr teqb_spec hc_inj hl_inj hr_inj wc goal' Hwc) as (R1 & R2 & R3 & R4 & R5).
    repeat (split; [assumption|]). intros Hi' Hg'. apply (R5 w1' tbl' pack' Hi' Hg').
  Qed.

  (* F6 for every interleaving: the table on disk in every reachable state is the remainder main saved before it
     spawned the threads, which has no entry for any leaf or target of the plan (no hypothesis at all) *)
  Theorem fine_no_stale_entries : forall (w1 : world) (tbl : table T) pack hists blobs t' ch,
    take_blobs T hc tbl (worker_paths pack) = (blobs, t') ->
    let st := frun pack blobs hists ch (fn_init T (write_table T w1 t') pack) in
    rd_table (w_rd (fn_world st)) = Some (SF_ok t') /\
    forall p, In p (p_leaves pack) \/ In p (plan_targets pack) -> alookup bytes_eqb t' p = None.
  Proof.
    intros w1 tbl pack hists blobs t' ch Htb st. split.
    - apply (frun_rd T teqb hc hl pack blobs hists ch (fn_init T (write_table T w1 t') pack)).
    - intros p Hp. assert (t' = table_rest T hc tbl pack) as -> by (unfold table_rest; rewrite Htb; reflexivity).
      apply table_rest_no_entry. apply worker_paths_spec. exact Hp.
  Qed.

  (* ================================================================== *)
  (* P2                                                                   *)
  (* ================================================================== *)

  (* C08 for every step of every interleaving except the last step of a rule thread (phase WFinish: the only step
     that runs a user's command): every content in the cache or at one of the paths (any set that contains the
     plan's targets) is still there after the step *)
  Theorem fine_step_keeps_content : forall (w : world) rp goal w1 tbl pack hists blobs t' ch k st',
    disk_inv w -> hist_sound w ->
    init_dir T w = Ok (w1, tbl) -> get_nodes T w1 rp goal = Ok pack -> Forall det_node (p_nodes pack) ->
    read_histories T teqb hr w1 (p_nodes pack) = Some hists ->
    take_blobs T hc tbl (worker_paths pack) = (blobs, t') ->
    let st := frun pack blobs hists ch (fn_init T (write_table T w1 t') pack) in
    fstep pack blobs hists st k = Some st' ->
    (forall ro, phase_of st k <> WFinish ro) ->
    forall paths c, incl (plan_targets pack) paths ->
      protected_content paths (fn_world st) c -> protected_content paths (fn_world st') c.
  Proof.
    intros w rp goal w1 tbl pack hists blobs t' ch k st' Hinv Hhs Hi Hg Hdet Hh Htb st H Hnf paths c Hincl Hp.
    apply (step_keeps_content pack blobs hists (fs_shape T hc tbl pack blobs t' Htb) st k st' paths c); try assumption.
    - apply (su_disk_inv w w1 rp goal tbl pack hists blobs t' Hinv Hhs Hi Hg Hdet Hh Htb ch).
    - intro k0. exact (su_blobs w w1 rp goal tbl pack hists blobs t' Hinv Hhs Hi Hg Hdet Hh Htb ch k0).
    - exact (su_absent w1 rp goal tbl pack hists blobs t' Hg Hdet Htb ch).
  Qed.

  (* what the proof rests on, as a fact of its own: a rule thread that has got target i out of the way (phases WCheck,
     WRename) finds it absent whatever the other threads do in between, so its restore goes into an empty path *)
  Theorem fine_restore_into_absent : forall (w1 : world) rp goal tbl pack hists blobs t' ch j nd done i p,
    get_nodes T w1 rp goal = Ok pack -> Forall det_node (p_nodes pack) ->
    take_blobs T hc tbl (worker_paths pack) = (blobs, t') ->
    let st := frun pack blobs hists ch (fn_init T (write_table T w1 t') pack) in
    nth_error (p_nodes pack) j = Some nd ->
    phase_of st (length (p_leaves pack) + j) = WCheck done i \/ phase_of st (length (p_leaves pack) + j) = WRename done i ->
    nth_error (n_targets nd) i = Some p -> fget (fn_world st) p = None.
  Proof.
    intros w1 rp goal tbl pack hists blobs t' ch j nd done i p Hg Hdet Htb st.
    exact (su_absent w1 rp goal tbl pack hists blobs t' Hg Hdet Htb ch j nd done i p).
  Qed.

  (* ================================================================== *)
  (* P3                                                                   *)
  (* ================================================================== *)

  (* C09 for every run: in every reachable state every path that is not a target of the plan holds the file record
     (content, time, executable bit) it held when the build started; commands confined, nothing else assumed *)
  Theorem fine_frame : forall (w1 : world) (tbl : table T) pack hists blobs t' ch,
    take_blobs T hc tbl (worker_paths pack) = (blobs, t') ->
    Forall node_confined (p_nodes pack) ->
    let st := frun pack blobs hists ch (fn_init T (write_table T w1 t') pack) in
    forall p, ~ In p (plan_targets pack) -> fget (fn_world st) p = fget w1 p.
  Proof.
    intros w1 tbl pack hists blobs t' ch Htb Hconf st p Hp.
    exact (frame_run pack blobs hists (fs_shape T hc tbl pack blobs t' Htb) Hconf ch (fn_init T (write_table T w1 t') pack) p Hp).
  Qed.

  (* ... which is the record the user's world had (init_dir creates directories only) *)
  Corollary fine_frame_start : forall (w : world) w1 (tbl : table T) pack hists blobs t' ch,
    init_dir T w = Ok (w1, tbl) ->
    take_blobs T hc tbl (worker_paths pack) = (blobs, t') ->
    Forall node_confined (p_nodes pack) ->
    let st := frun pack blobs hists ch (fn_init T (write_table T w1 t') pack) in
    forall p, ~ In p (plan_targets pack) -> fget (fn_world st) p = fget w p.
  Proof.
    intros w w1 tbl pack hists blobs t' ch Hi Htb Hconf st p Hp.
    unfold st. rewrite (fine_frame w1 tbl pack hists blobs t' ch Htb Hconf p Hp).
    unfold fget. rewrite (init_dir_files T teqb _ _ _ Hi). reflexivity.
  Qed.
End FineCor.
