(* C10, part 6: the closed instance for the free symbolic hashes, a concrete world on which the theorem's
   hypotheses hold (non-vacuity), and a concrete world showing that the hypothesis "pairwise different
   contents" cannot be dropped. *)
From Coq Require Import String Ascii.
From Coq Require Import Relations.Relation_Operators Relations.Operators_Properties.
From Ruler Require Import Tactics Bytes AList RuleSyntax Parser TopoSort TopoSpec World Cmdlang Work Build Ops Inv
     BuildSpec Ideal BytesFacts InvFacts TopoSortFacts BuildFacts C01Script C01Hist C01Build C01Plan C01Facts
     C10Facts C10Summary C10Clean C10Restore C10Main.
Local Open Scope N_scope.

Notation clean_sym := (clean sym_eqb SContent).

(* B3 *)
Theorem clean_then_build_restores_sym : forall (w : world sym) rp goal w1 tbl pack,
  disk_inv sym_eqb SContent w -> init_dir sym w = Ok (w1, tbl) -> get_nodes sym w1 rp goal = Ok pack ->
  Forall det_node (p_nodes pack) -> ~ In rp (plan_targets pack) ->
  o_verdict (build_sym w rp goal) = VOk ->
  let wa := tick (o_world (build_sym w rp goal)) in
  NoDup (map (fun t => content_at wa t) (plan_targets pack)) ->
  let oc := clean_sym wa rp goal in
  let wb := tick (o_world oc) in
  let o3 := build_sym wb rp goal in
  o_verdict oc = VOk /\
  (forall t, In t (plan_targets pack) -> fget (o_world oc) t = None) /\
  (forall t f, In t (plan_targets pack) -> fget wa t = Some f ->
       exists c, cache_of (o_world oc) = Some c /\ alookup sym_eqb c (SContent (f_content f)) = Some f) /\
  o_verdict o3 = VOk /\ o_commands o3 = [] /\
  (forall t, In t (plan_targets pack) -> fget (o_world o3) t = fget wa t) /\
  (forall p, ~ In p (plan_targets pack) -> fget (o_world o3) p = fget wa p) /\
  Forall (fun s => fst s = BRecovered) (o_status o3).
Proof. exact (clean_then_build_restores sym sym_eqb SContent SList SRule sym_eqb_spec SContent_inj SRule_inj). Qed.

Theorem clean_then_build_restores_no_tick_sym : forall (w : world sym) rp goal w1 tbl pack,
  disk_inv sym_eqb SContent w -> init_dir sym w = Ok (w1, tbl) -> get_nodes sym w1 rp goal = Ok pack ->
  Forall det_node (p_nodes pack) -> ~ In rp (plan_targets pack) ->
  o_verdict (build_sym w rp goal) = VOk ->
  let wa := o_world (build_sym w rp goal) in
  NoDup (map (fun t => content_at wa t) (plan_targets pack)) ->
  let oc := clean_sym wa rp goal in
  let wb := o_world oc in
  let o3 := build_sym wb rp goal in
  o_verdict oc = VOk /\
  (forall t, In t (plan_targets pack) -> fget (o_world oc) t = None) /\
  (forall t f, In t (plan_targets pack) -> fget wa t = Some f ->
       exists c, cache_of (o_world oc) = Some c /\ alookup sym_eqb c (SContent (f_content f)) = Some f) /\
  o_verdict o3 = VOk /\ o_commands o3 = [] /\
  (forall t, In t (plan_targets pack) -> fget (o_world o3) t = fget wa t) /\
  (forall p, ~ In p (plan_targets pack) -> fget (o_world o3) p = fget wa p) /\
  Forall (fun s => fst s = BRecovered) (o_status o3).
Proof. exact (clean_then_build_restores_no_tick sym sym_eqb SContent SList SRule sym_eqb_spec SContent_inj SRule_inj). Qed.

(* ================================================================== *)
(* non-vacuity: three targets with different contents, one executable   *)
(* ================================================================== *)

Definition nv_rules : bytes := join_with [NL] (map bs
  ["a";":";"s";":";"gen a @s =A";":";
   "b";":";"a";":";"gen b @a =B";";";"chmod b";":";
   "c";":";"a";"b";":";"gen c @a @b";":";""]%string).

Definition nv_ops : list (op sym) := [OWrite (bs "s") (bs "1"); OWrite RULES_PATH nv_rules].
Definition nv_w : world sym := run_sym nv_ops (init_world Fine 1).
Definition nv_w1 : world sym := match init_dir sym nv_w with Ok (w1, _) => w1 | Err _ => nv_w end.
Definition nv_tbl : table sym := match init_dir sym nv_w with Ok (_, t) => t | Err _ => [] end.
Definition nv_pack : node_pack :=
  match get_nodes sym nv_w1 RULES_PATH None with Ok p => p | Err _ => mk_pack [] [] end.
Definition nv_wa : world sym := tick (o_world (build_sym nv_w RULES_PATH None)).
Definition nv_oc : outcome sym := clean_sym nv_wa RULES_PATH None.
Definition nv_o3 : outcome sym := build_sym (tick (o_world nv_oc)) RULES_PATH None.

Lemma nv_inv : disk_inv sym_eqb SContent nv_w.
Proof. apply reach_inv_sym; repeat constructor. Qed.

Lemma nv_init : init_dir sym nv_w = Ok (nv_w1, nv_tbl).
Proof. vm_compute. reflexivity. Qed.

Lemma nv_nodes : get_nodes sym nv_w1 RULES_PATH None = Ok nv_pack.
Proof. vm_compute. reflexivity. Qed.

Lemma nv_det : Forall det_node (p_nodes nv_pack).
Proof. apply det_nodesb_sound. vm_compute. reflexivity. Qed.

Lemma nv_targets : plan_targets nv_pack = [bs "a"; bs "b"; bs "c"].
Proof. vm_compute. reflexivity. Qed.

Lemma nv_rp : ~ In RULES_PATH (plan_targets nv_pack).
Proof. rewrite nv_targets. vm_compute. intros [H | [H | [H | []]]]; discriminate. Qed.

Lemma nv_ok : o_verdict (build_sym nv_w RULES_PATH None) = VOk.
Proof. vm_compute. reflexivity. Qed.

(* the first build really ran the three commands *)
Lemma nv_first_build_ran : List.length (o_commands (build_sym nv_w RULES_PATH None)) = 4%nat.
Proof. vm_compute. reflexivity. Qed.

Lemma nv_distinct : NoDup (map (fun t => content_at nv_wa t) (plan_targets nv_pack)).
Proof.
  rewrite nv_targets. vm_compute.
  repeat constructor; cbn [In]; intros H; repeat (destruct H as [H | H]; [discriminate|]); exact H.
Qed.

(* b was made executable by its command *)
Lemma nv_b_exec : option_map f_exec (fget nv_wa (bs "b")) = Some true.
Proof. vm_compute. reflexivity. Qed.

(* the theorem applies ... *)
Example clean_then_build_restores_applies :
  o_verdict nv_oc = VOk /\
  (forall t, In t (plan_targets nv_pack) -> fget (o_world nv_oc) t = None) /\
  (forall t f, In t (plan_targets nv_pack) -> fget nv_wa t = Some f ->
       exists c, cache_of (o_world nv_oc) = Some c /\ alookup sym_eqb c (SContent (f_content f)) = Some f) /\
  o_verdict nv_o3 = VOk /\ o_commands nv_o3 = [] /\
  (forall t, In t (plan_targets nv_pack) -> fget (o_world nv_o3) t = fget nv_wa t) /\
  (forall p, ~ In p (plan_targets nv_pack) -> fget (o_world nv_o3) p = fget nv_wa p) /\
  Forall (fun s => fst s = BRecovered) (o_status nv_o3).
Proof.
  exact (clean_then_build_restores_sym nv_w RULES_PATH None nv_w1 nv_tbl nv_pack
           nv_inv nv_init nv_nodes nv_det nv_rp nv_ok nv_distinct).
Qed.

(* ... and what it says is what the model computes: the three files are back, b executable, nothing ran *)
Example clean_then_build_restores_computed :
  map (fun t => fget (o_world nv_oc) t) (plan_targets nv_pack) = [None; None; None] /\
  map (fun t => fget (o_world nv_o3) t) (plan_targets nv_pack) =
    [Some (mk_file (bs "1A") 2004 false); Some (mk_file (bs "1AB") 2005 true); Some (mk_file (bs "1A1AB") 2006 false)] /\
  map (fun t => fget nv_wa t) (plan_targets nv_pack) =
    [Some (mk_file (bs "1A") 2004 false); Some (mk_file (bs "1AB") 2005 true); Some (mk_file (bs "1A1AB") 2006 false)] /\
  o_verdict nv_o3 = VOk /\ o_commands nv_o3 = [] /\
  o_status nv_o3 = [(BRecovered, bs "a"); (BRecovered, bs "b"); (BRecovered, bs "c")].
Proof. vm_compute. repeat split; reflexivity. Qed.

(* ================================================================== *)
(* B2: two targets with the same content — the second one is rebuilt    *)
(* ================================================================== *)

Definition sc_rules : bytes := join_with [NL] (map bs
  ["a";":";"s";":";"gen a @s";":";
   "b";":";"s";":";"gen b @s";":";""]%string).

Definition sc_ops : list (op sym) := [OWrite (bs "s") (bs "1"); OWrite RULES_PATH sc_rules].
Definition sc_w : world sym := run_sym sc_ops (init_world Fine 1).
Definition sc_w1 : world sym := match init_dir sym sc_w with Ok (w1, _) => w1 | Err _ => sc_w end.
Definition sc_tbl : table sym := match init_dir sym sc_w with Ok (_, t) => t | Err _ => [] end.
Definition sc_pack : node_pack :=
  match get_nodes sym sc_w1 RULES_PATH None with Ok p => p | Err _ => mk_pack [] [] end.

Lemma sc_inv : disk_inv sym_eqb SContent sc_w.
Proof. apply reach_inv_sym; repeat constructor. Qed.

Theorem clean_then_build_same_content_reruns :
  exists (w : world sym) rp goal w1 tbl pack,
    disk_inv sym_eqb SContent w /\ init_dir sym w = Ok (w1, tbl) /\ get_nodes sym w1 rp goal = Ok pack /\
    Forall det_node (p_nodes pack) /\ ~ In rp (plan_targets pack) /\
    o_verdict (build_sym w rp goal) = VOk /\
    let wa := tick (o_world (build_sym w rp goal)) in
    let oc := clean_sym wa rp goal in
    let wb := tick (o_world oc) in
    let o3 := build_sym wb rp goal in
    ~ NoDup (map (fun t => content_at wa t) (plan_targets pack)) /\
    o_verdict oc = VOk /\ o_verdict o3 = VOk /\
    o_commands o3 = [bs "gen b @s"] /\ o_commands o3 <> [] /\
    o_status o3 = [(BRecovered, bs "a"); (BBuilt, bs "b")].
Proof.
  exists sc_w, RULES_PATH, None, sc_w1, sc_tbl, sc_pack.
  split; [exact sc_inv|].
  split; [vm_compute; reflexivity|].
  split; [vm_compute; reflexivity|].
  split; [apply det_nodesb_sound; vm_compute; reflexivity|].
  split; [vm_compute; intros [H | [H | []]]; discriminate|].
  split; [vm_compute; reflexivity|].
  cbv zeta.
  split.
  { vm_compute. intro H. inversion H as [|? ? Hnotin _]; subst. apply Hnotin. left. reflexivity. }
  vm_compute. repeat split; try reflexivity. discriminate.
Qed.

(* the same, as the failure of the statement without the distinctness hypothesis *)
Theorem clean_then_build_restores_without_distinct_refuted :
  ~ (forall (w : world sym) rp goal w1 tbl pack,
       disk_inv sym_eqb SContent w -> init_dir sym w = Ok (w1, tbl) -> get_nodes sym w1 rp goal = Ok pack ->
       Forall det_node (p_nodes pack) -> ~ In rp (plan_targets pack) ->
       o_verdict (build_sym w rp goal) = VOk ->
       o_commands (build_sym (tick (o_world (clean_sym (tick (o_world (build_sym w rp goal))) rp goal))) rp goal) = []).
Proof.
  intro H.
  destruct clean_then_build_same_content_reruns
    as (w & rp & goal & w1 & tbl & pack & H1 & H2 & H3 & H4 & H5 & H6 & H7).
  cbv zeta in H7. destruct H7 as (_ & _ & _ & _ & Hne & _).
  apply Hne. eapply H; eauto.
Qed.
