(* C02 / C08, whole-build form of "ruler never loses file content": every content that sits at a target of
   the plan or in the cache before a SUCCESSFUL build over a plan whose commands write only their own
   targets sits at a target of the plan or in the cache after it (build_keeps_protected).  The step that
   Properties/C08.v leaves open — "a target present when its command runs already holds what the command
   writes" — follows from the history check: a thread whose command produced something else than the
   remembered entry fails with a contradiction error, and a failed thread fails the build. *)
From Coq Require Import Relations.Relation_Operators Relations.Operators_Properties.
From Ruler Require Import Tactics Bytes AList RuleSyntax Parser TopoSort TopoSpec World Cmdlang Work Build Ops Inv
     BuildSpec Ideal BytesFacts InvFacts TopoSortFacts BuildFacts C01Script C01Hist C01Build C01Plan C02Extra
     C11Facts C02Hist C02Repeat.
Local Open Scope N_scope.

Section Keep.
  Variable T : Type.
  Variable teqb : T -> T -> bool.
  Variable hc : bytes -> T.
  Variable hl : list T -> T.
  Variable hr : rule -> T.
  Hypothesis teqb_spec : forall a b, teqb a b = true <-> a = b.
  Hypothesis hc_inj : forall a b, hc a = hc b -> a = b.

  Notation world := (world T).
  Notation fstate := (fstate T).
  Notation state_ok := (state_ok teqb hc).
  Notation disk_inv := (disk_inv teqb hc).
  Notation steps := (clos_refl_trans world (step teqb hc)).
  Notation blob_ok := (InvProofs.blob_ok T teqb hc).
  Notation has_hash := (has_hash T hc).
  Notation rs_inv := (InvProofs.rs_inv T teqb hc).
  Notation gft := (get_file_ticket teqb hc).
  Notation protected := (protected_content teqb).
  Notation run_node := (run_node T teqb hc hl hr).
  Notation run_nodes := (run_nodes T teqb hc hl hr).
  Notation join_one := (join_one T teqb hr).
  Notation build := (build teqb hc hl hr).

  (* ================================================================== *)
  (* the resolution phase: back-ups and restores                          *)
  (* ================================================================== *)

  Lemma restore_or_rebuild_keeps paths (w : world) r p res w1 c :
    In p paths -> fget w p = None -> restore_or_rebuild T teqb w r p = Ok (res, w1) ->
    protected paths w c -> protected paths w1 c.
  Proof.
    intros Hin Hnone. unfold restore_or_rebuild. destruct (restore teqb w r p) as [w2| |] eqn:Er; intro H;
      try discriminate; injection H as _ <-; [|auto].
    intro Hp. eapply (InvProofs.restore_keeps_content T teqb hc teqb_spec hc_inj); eauto.
  Qed.

  Lemma resolve_single_keeps paths (w : world) r p a res w1 c :
    disk_inv w -> state_ok w a -> In p paths -> resolve_single teqb hc w r p a = Ok (res, w1) ->
    protected paths w c -> protected paths w1 c.
  Proof.
    intros Hinv Hok Hin. unfold resolve_single. destruct (gft w p a) as [cur|] eqn:Eg.
    - destruct (teqb r cur); [intro H; injection H as _ <-; auto|].
      destruct (back_up teqb w cur p) as [w0|] eqn:Eb; [|discriminate]. intros H Hp.
      eapply restore_or_rebuild_keeps; [exact Hin | eapply back_up_fget_eq; eauto | exact H|].
      eapply (InvProofs.back_up_keeps_content T teqb hc teqb_spec hc_inj); eauto. apply Hinv.
    - intros H Hp. eapply restore_or_rebuild_keeps; eauto. apply (get_file_ticket_none T teqb hc w p a). exact Eg.
  Qed.

  Lemma resolve_remembered_keeps paths (b : blob T) : forall (w : world) rem ress w1 c,
    disk_inv w -> blob_ok w b -> incl (map fst b) paths ->
    resolve_remembered teqb hc w b rem = Ok (ress, w1) -> protected paths w c -> protected paths w1 c.
  Proof.
    induction b as [|[p a] rest IH]; intros w rem ress w1 c Hinv Hb Hincl; cbn [resolve_remembered].
    - intro H. injection H as _ <-. auto.
    - destruct rem as [|r rrest]; [discriminate|].
      destruct (resolve_single teqb hc w (fs_t r) p a) as [[res w0]|e] eqn:E1; [|discriminate].
      destruct (resolve_remembered teqb hc w0 rest rrest) as [[ress2 w2]|e] eqn:E2; [|discriminate].
      intro H. injection H as _ <-. intro Hp.
      apply InvProofs.blob_ok_cons in Hb as [Hok Hrest].
      pose proof (InvProofs.resolve_single_steps T teqb hc _ _ _ _ _ _ Hok E1) as Hs1.
      eapply (IH w0); [exact (inv_steps T teqb hc teqb_spec _ _ Hinv Hs1) | exact (blob_steps T teqb hc teqb_spec _ _ _ Hinv Hs1 Hrest) | | exact E2 |].
      + intros q Hq. apply Hincl. right. exact Hq.
      + eapply resolve_single_keeps; eauto. apply Hincl. left. reflexivity.
  Qed.

  Lemma resolve_fresh_keeps paths (b : blob T) : forall (w : world) ress w1 c,
    disk_inv w -> blob_ok w b ->
    resolve_fresh teqb hc w b = Ok (ress, w1) -> protected paths w c -> protected paths w1 c.
  Proof.
    induction b as [|[p a] rest IH]; intros w ress w1 c Hinv Hb; cbn [resolve_fresh].
    - intro H. injection H as _ <-. auto.
    - apply InvProofs.blob_ok_cons in Hb as [Hok Hrest].
      destruct (gft w p a) as [cur|] eqn:Eg.
      + destruct (back_up teqb w cur p) as [w0|] eqn:Eb; [|discriminate].
        destruct (resolve_fresh teqb hc w0 rest) as [[ress2 w2]|e] eqn:E2; [|discriminate].
        intro H. injection H as _ <-. intro Hp.
        pose proof (InvProofs.back_up_steps T teqb hc _ _ _ _ _ Hok Eg Eb) as Hs1.
        eapply (IH w0); [exact (inv_steps T teqb hc teqb_spec _ _ Hinv Hs1) | exact (blob_steps T teqb hc teqb_spec _ _ _ Hinv Hs1 Hrest) | exact E2 |].
        eapply (InvProofs.back_up_keeps_content T teqb hc teqb_spec hc_inj); eauto. apply Hinv.
      + destruct (resolve_fresh teqb hc w rest) as [[ress2 w2]|e] eqn:E2; [|discriminate].
        intro H. injection H as _ <-. eapply IH; eauto.
  Qed.

  (* after the resolution a target is absent, or it holds the remembered output *)
  Lemma resolve_remembered_present (b : blob T) : forall (w : world) rem ress w1,
    disk_inv w -> blob_ok w b -> NoDup (map fst b) ->
    resolve_remembered teqb hc w b rem = Ok (ress, w1) ->
    Forall2p (fun p r => content_at w1 p = None \/ has_hash w1 p (fs_t r)) (map fst b) rem.
  Proof.
    induction b as [|[p a] rest IH]; intros w rem ress w1 Hinv Hb Hnd; cbn [resolve_remembered map fst].
    - intros _. constructor.
    - destruct rem as [|r rrest]; [discriminate|].
      destruct (resolve_single teqb hc w (fs_t r) p a) as [[res w0]|e] eqn:E1; [|discriminate].
      destruct (resolve_remembered teqb hc w0 rest rrest) as [[ress2 w2]|e] eqn:E2; [|discriminate].
      intro H. injection H as _ <-.
      apply InvProofs.blob_ok_cons in Hb as [Hok Hrest]. inversion Hnd as [|? ? Hnotin Hnd']; subst.
      pose proof (InvProofs.resolve_single_steps T teqb hc _ _ _ _ _ _ Hok E1) as Hs1.
      assert (disk_inv w0) as Hinv0 by (exact (inv_steps T teqb hc teqb_spec _ _ Hinv Hs1)).
      assert (blob_ok w0 rest) as Hrest0 by (exact (blob_steps T teqb hc teqb_spec _ _ _ Hinv Hs1 Hrest)).
      destruct (resolve_remembered_spec T teqb hc teqb_spec _ _ _ _ _ Hinv0 Hrest0 Hnd' E2) as (F & _ & _).
      constructor; [|eapply IH; eauto].
      destruct (resolve_single_spec T teqb hc teqb_spec _ _ _ _ _ _ Hinv Hok E1) as (_ & _ & S3).
      destruct res.
      + right. eapply has_hash_content; [apply F; exact Hnotin|]. apply S3. discriminate.
      + right. eapply has_hash_content; [apply F; exact Hnotin|]. apply S3. discriminate.
      + left. rewrite (F p Hnotin). apply content_at_none. eapply resolve_single_needs; eauto.
  Qed.

  (* ================================================================== *)
  (* the command                                                          *)
  (* ================================================================== *)

  Lemma script_keeps paths (w1 : world) tg lines c :
    confined tg lines ->
    (forall q g, In q tg -> fget w1 q = Some g -> f_content g = c ->
                 content_at (snd (run_script w1 lines)) q = Some c) ->
    protected paths w1 c -> protected paths (snd (run_script w1 lines)) c.
  Proof.
    intros Hconf Hsame [(q & g & Hq & Hg & Hc) | (ch & k & g & Hch & Hlk & Hc)].
    - destruct (in_bytes_dec q tg) as [Hin | Hnin].
      + pose proof (Hsame q g Hin Hg Hc) as Hs. apply (content_at_some_inv T) in Hs as (g' & Hg' & Hc').
        left. exists q, g'. auto.
      + left. exists q, g. split; [exact Hq|]. split; [|exact Hc].
        rewrite (frame_at_fget T _ _ _ q (run_script_frame_at T w1 lines tg Hconf) Hnin). exact Hg.
    - right. exists ch, k, g. split; [|auto]. unfold cache_of. rewrite (run_script_rd T). exact Hch.
  Qed.

  (* ================================================================== *)
  (* one rule thread that returns Ok                                      *)
  (* ================================================================== *)

  Theorem handle_rule_keeps paths (w : world) (b : blob T) h key cmd wr w' s c :
    disk_inv w -> blob_ok w b -> NoDup (map fst b) -> b <> [] -> incl (map fst b) paths ->
    confined (map fst b) (script_lines cmd) ->
    handle_rule teqb hc w b h key cmd = (Ok wr, w', s) ->
    protected paths w c -> protected paths w' c.
  Proof.
    intros Hinv Hb Hnd Hne Hincl Hconf Hh Hp.
    destruct (handle_rule_records T teqb hc teqb_spec _ _ _ _ _ _ _ _ Hinv Hb Hnd Hne Hh) as (_ & h' & rem' & R2 & R3 & R4).
    destruct (handle_rule_history_grows T teqb hc teqb_spec _ _ _ _ _ _ _ _ Hh) as (h'' & G1 & G2).
    rewrite R2 in G1. injection G1 as <-.
    apply handle_rule_cases in Hh. unfold resolved_of in Hh.
    destruct (alookup teqb h key) as [rem|] eqn:El.
    - destruct (resolve_remembered teqb hc w b rem) as [[ress w1]|e] eqn:Er; [|destruct Hh as [Hh _]; discriminate].
      pose proof (resolve_remembered_keeps paths _ _ _ _ _ c Hinv Hb Hincl Er Hp) as Hp1.
      pose proof (resolve_remembered_present _ _ _ _ _ Hinv Hb Hnd Er) as Hpres.
      cbv zeta in Hh. destruct (needs_rebuild ress).
      + destruct Hh as (-> & -> & _).
        assert (rem' = rem) as -> by (rewrite (G2 key rem El) in R3; congruence).
        apply (script_keeps paths w1 (map fst b)); [exact Hconf | | exact Hp1].
        intros q g Hq Hg Hc.
        destruct (Forall2p_in_l _ _ _ _ (Forall2p_and _ _ _ _ Hpres R4) Hq) as (r & [Hn | H1] & H2).
        * rewrite (content_at_fget T _ _ _ Hg) in Hn. discriminate.
        * assert (has_hash w1 q (hc c)) as H0 by (exists c; split; [rewrite <- Hc; apply content_at_fget; exact Hg | reflexivity]).
          rewrite (has_hash_fun T hc _ _ _ _ H1 H0) in H2. destruct H2 as (c' & Hc' & E). apply hc_inj in E. congruence.
      + destruct Hh as (_ & -> & _). exact Hp1.
    - destruct (resolve_fresh teqb hc w b) as [[ress w1]|e] eqn:Er; [|destruct Hh as [Hh _]; discriminate].
      pose proof (resolve_fresh_keeps paths _ _ _ _ c Hinv Hb Er Hp) as Hp1.
      destruct (resolve_fresh_spec T teqb hc _ _ _ _ Er) as (_ & Hnone & _).
      cbv zeta in Hh. destruct (needs_rebuild ress).
      + destruct Hh as (-> & -> & _).
        apply (script_keeps paths w1 (map fst b)); [exact Hconf | | exact Hp1].
        intros q g Hq Hg Hc. specialize (Hnone q Hq). rewrite (content_at_fget T _ _ _ Hg) in Hnone. discriminate.
      + destruct Hh as (_ & -> & _). exact Hp1.
  Qed.

  (* ================================================================== *)
  (* the serial schedule                                                  *)
  (* ================================================================== *)

  Definition keep_node paths (n : node) : Prop :=
    node_confined n /\ NoDup (n_targets n) /\ n_targets n <> [] /\ incl (n_targets n) paths.

  Lemma run_node_keeps paths (w0 : world) st n st' :
    disk_inv w0 -> rs_inv w0 st -> keep_node paths n -> run_node st n = Some st' ->
    (exists e, rs_results T st' = rs_results T st ++ [(Some (n_rule n), TErr e)]) \/
    (forall c, protected paths (rs_world T st) c -> protected paths (rs_world T st') c).
  Proof.
    intros Hinv0 (Hsteps & Htbl & _) (Hconf & Hnd & Hne & Hincl). unfold Build.run_node.
    pose proof (inv_steps T teqb hc teqb_spec _ _ Hinv0 Hsteps) as Hinv.
    destruct (take_blob T hc (rs_table T st) (n_targets n)) as [b t'] eqn:Etb.
    pose proof (C01Build.take_blob_fst T hc _ _ _ _ Etb) as Hfst.
    assert (clock_ok teqb (rs_world T st)) as Hk by apply Hinv.
    destruct (InvProofs.take_blob_ok T teqb hc teqb_spec _ _ _ _ _ Htbl Etb) as [Hb _].
    destruct (read_history T teqb hr (rs_world T st) (n_rule n)) as [h|]; [|discriminate].
    destruct (all_some _) as [tickets|].
    2:{ intro H. injection H as <-. right. auto. }
    destruct (handle_rule teqb hc (rs_world T st) b h (hl tickets) (n_command n)) as [[res w'] s] eqn:Eh.
    destruct res as [wr|e]; intro H; injection H as <-; cbn [rs_world rs_results].
    - right. intros c Hp. eapply handle_rule_keeps; [exact Hinv | exact Hb | | | | | exact Eh | exact Hp]; rewrite ?Hfst; auto.
      intro X. subst b. cbn in Hfst. congruence.
    - left. eauto.
  Qed.

  Lemma run_nodes_keeps paths (w0 : world) : disk_inv w0 -> forall rest st st',
    rs_inv w0 st -> Forall (keep_node paths) rest -> run_nodes st rest = Some st' ->
    has_err T (rs_results T st') \/
    (forall c, protected paths (rs_world T st) c -> protected paths (rs_world T st') c).
  Proof.
    intros Hinv0. induction rest as [|n rest IH]; intros st st' Hrs Hk; cbn [Build.run_nodes].
    - intro H. injection H as <-. right. auto.
    - destruct (run_node st n) as [st1|] eqn:E1; [|discriminate]. intro H.
      inversion Hk as [|? ? Hkn Hk']; subst.
      pose proof (InvProofs.run_node_inv T teqb hc teqb_spec hl hr w0 st n st1 Hinv0 Hrs E1) as Hrs1.
      destruct (run_nodes_spec T teqb hc hl hr _ _ _ H) as (_ & _ & (trs & _ & R) & _).
      destruct (run_node_keeps paths w0 st n st1 Hinv0 Hrs Hkn E1) as [(e & He) | K1].
      + left. exists (Some (n_rule n)), e. rewrite R, He. apply in_or_app. left. apply in_or_app. right. left. reflexivity.
      + destruct (IH st1 st' Hrs1 Hk' H) as [He | K2]; [left; exact He|]. right. intros c Hp. apply K2, K1, Hp.
  Qed.

  (* ================================================================== *)
  (* the whole build                                                      *)
  (* ================================================================== *)

  Theorem build_keeps_protected (w : world) rp goal w1 tbl pack :
    disk_inv w -> init_dir T w = Ok (w1, tbl) -> get_nodes T w1 rp goal = Ok pack ->
    Forall node_confined (p_nodes pack) ->
    o_verdict (build w rp goal) = VOk ->
    forall c, protected (plan_targets pack) w c -> protected (plan_targets pack) (o_world (build w rp goal)) c.
  Proof.
    intros Hinv Hi Hg Hconf.
    pose proof (get_nodes_plan_wf T _ _ _ _ Hg) as Hwf.
    pose proof (get_nodes_targets_ne T _ _ _ _ Hg) as Hne.
    rewrite (build_eq T teqb hc hl hr), Hi, Hg. cbv zeta.
    destruct (run_nodes (st_leaves T teqb hc w1 tbl pack) (p_nodes pack)) as [st2|] eqn:Erun; [|cbn; discriminate].
    cbn [o_verdict o_world]. intros Hv c Hp. unfold joined in *.
    set (js0 := mk_js T (rs_world T st2) (rs_table T st2) [] []) in *.
    destruct (InvProofs.init_dir_rs_inv T teqb hc teqb_spec _ _ _ Hinv Hi) as [Hs1 Ht1].
    assert (rs_inv w (st_leaves T teqb hc w1 tbl pack)) as Hrs0.
    { apply (InvProofs.run_leaves_inv T teqb hc teqb_spec w (p_leaves pack) _ Hinv).
      split; [exact Hs1|]. split; [exact Ht1|]. intros r0 wr0 []. }
    assert (Forall (keep_node (plan_targets pack)) (p_nodes pack)) as Hkeep.
    { rewrite Forall_forall in *. intros n Hn. split; [apply Hconf; exact Hn|]. split; [|split].
      - destruct Hwf as (Hnd & _). eapply NoDup_flat_map_elem; eauto.
      - apply Hne. exact Hn.
      - intros t Ht. eapply node_targets_in_plan; eauto. }
    destruct (run_nodes_keeps (plan_targets pack) w Hinv _ _ _ Hrs0 Hkeep Erun) as [He | K].
    { exfalso. apply (join_all_errors T teqb hr (rs_results T st2) js0); [right; exact He|].
      destruct (js_errors T (fold_left join_one (rs_results T st2) js0)); [reflexivity | discriminate]. }
    rewrite st_leaves_world in K.
    eapply (InvProofs.rd_change_keeps_content T teqb hc hc_inj); [| |apply K].
    - cbn [write_table w_files set_rd]. rewrite BuildFacts.join_all_files. reflexivity.
    - intros ch Hch. change (cache_of (js_world T (fold_left join_one (rs_results T st2) js0)) = Some ch).
      rewrite (join_all_cache T teqb hr). exact Hch.
    - eapply (InvProofs.rd_change_keeps_content T teqb hc hc_inj); [| |exact Hp].
      + apply (init_dir_ok T teqb _ _ _ Hi).
      + intros ch. eapply InvProofs.init_dir_keeps_cache; eauto.
  Qed.

End Keep.
