(* HIST-MONO: rule histories only grow, each under its own rule's name, at every instant of a build.
   - history_insert / handle_rule only ever ADD one entry (M1, M2);
   - every history file main writes is an extension of the file main read under that very name for that very
     node before any worker ran (M4), hence after every prefix of the actions of a build (every crash point)
     every history file that was there and readable is still there, readable, and extended (M3);
   - a clean writes no history file at all;
   - the same for the final world of the schedule-generic builds build_ord (ANY order, valid or not) and
     build_fine (ANY run) (M5).
   Only teqb_spec is used; no invariant on the world, no injectivity of the hashes (not even hr_inj: two rules
   with one ticket share a file, each writes an extension of what was read from it, so whichever write comes
   last the file extends the original one). *)
From Coq Require Import String Ascii.
From Ruler Require Import Tactics Bytes AList RuleSyntax Parser TopoSort World Cmdlang Work Build Ops Inv Acts Sched Fine
  BytesFacts InvFacts BuildFacts C01Script C01Facts ActsSound ActsContent SchedBasic SchedSerial FineBasic FineCorStep.
Local Open Scope nat_scope.

Section HistMono.
  Variable T : Type.
  Variable teqb : T -> T -> bool.
  Variable hc : bytes -> T.
  Variable hl : list T -> T.
  Variable hr : rule -> T.
  Hypothesis teqb_spec : forall a b, teqb a b = true <-> a = b.

  Notation world := (world T).
  Notation history := (World.history T).
  Notation do_act := (do_act teqb hr).
  Notation run_acts := (run_acts teqb hr).
  Notation read_history := (read_history T teqb hr).
  Notation write_history := (write_history T teqb hr).

  (* every entry of h1 is an entry of h2, same key, same remembered states *)
  Definition hist_le (h1 h2 : history) : Prop :=
    forall k v, alookup teqb h1 k = Some v -> alookup teqb h2 k = Some v.

  (* h2 differs from h1 in at most one key *)
  Definition hist_diff1 (h1 h2 : history) : Prop :=
    exists key, forall k, k <> key -> alookup teqb h2 k = alookup teqb h1 k.

  (* the history directory of w' extends that of w: every file of w (by name = rule ticket) that decodes is still
     there, decodes, and is extended; nothing is said about files that were absent or damaged *)
  Definition hists_le (w w' : world) : Prop :=
    forall hs name h, rd_hist (w_rd w) = Some hs -> alookup teqb hs name = Some (SF_ok h) ->
      exists hs' h', rd_hist (w_rd w') = Some hs' /\ alookup teqb hs' name = Some (SF_ok h') /\ hist_le h h'.

  Lemma hist_le_refl h : hist_le h h.
  Proof. intros k v H. exact H. Qed.

  Lemma hist_le_trans h1 h2 h3 : hist_le h1 h2 -> hist_le h2 h3 -> hist_le h1 h3.
  Proof. intros H1 H2 k v H. apply H2, H1, H. Qed.

  Lemma hist_diff1_refl h : hist_diff1 h h.
  Proof. exists (hc []). intros k _. reflexivity. Qed.

  (* ================================================================== *)
  (* M1: RuleHistory::insert                                              *)
  (* ================================================================== *)

  Lemma history_insert_cases (h : history) key ts paths h' :
    history_insert teqb h key ts paths = Ok h' ->
    (alookup teqb h key = None /\ h' = h ++ [(key, map (fun t => mk_fstate t 0%N false) ts)]) \/
    (exists old, alookup teqb h key = Some old /\ h' = h).
  Proof.
    unfold history_insert. destruct (alookup teqb h key) as [old|] eqn:E.
    - destruct (negb (Nat.eqb (length old) (length ts))); [discriminate|].
      destruct (differing_indices T teqb 0 (map fs_t old) ts); [|discriminate].
      intro H. injection H as <-. right. exists old. auto.
    - intro H. injection H as <-. left. auto.
  Qed.

  Theorem history_insert_le : forall (h : history) key ts paths h',
    history_insert teqb h key ts paths = Ok h' -> hist_le h h'.
  Proof.
    intros h key ts paths h' H. apply history_insert_cases in H as [[_ ->] | (old & _ & ->)].
    - intros k v E. apply alookup_app_some. exact E.
    - apply hist_le_refl.
  Qed.

  Theorem history_insert_adds_at_most_one : forall (h : history) key ts paths h',
    history_insert teqb h key ts paths = Ok h' ->
    forall k, k <> key -> alookup teqb h' k = alookup teqb h k.
  Proof.
    intros h key ts paths h' H k Hne. apply history_insert_cases in H as [[_ ->] | (old & _ & ->)]; [|reflexivity].
    destruct (alookup teqb h k) as [v|] eqn:E.
    - apply alookup_app_some. exact E.
    - rewrite (alookup_app_none teqb _ _ _ E). cbn [alookup].
      rewrite (eqb_spec_false teqb teqb_spec k key Hne). reflexivity.
  Qed.

  (* the record of a key is never REPLACED: an insert under a key that is present leaves the history alone *)
  Theorem history_insert_never_replaces : forall (h : history) key ts paths h' old,
    history_insert teqb h key ts paths = Ok h' -> alookup teqb h key = Some old -> h' = h.
  Proof.
    intros h key ts paths h' old H E. apply history_insert_cases in H as [[E' _] | (old' & _ & ->)]; [congruence | reflexivity].
  Qed.

  (* and under a key that is absent it appends exactly the observed tickets *)
  Theorem history_insert_new_entry : forall (h : history) key ts paths h',
    history_insert teqb h key ts paths = Ok h' -> alookup teqb h key = None ->
    alookup teqb h' key = Some (map (fun t => mk_fstate t 0%N false) ts).
  Proof.
    intros h key ts paths h' H E. apply history_insert_cases in H as [[_ ->] | (old' & E' & _)]; [|congruence].
    rewrite (alookup_app_none teqb _ _ _ E). cbn [alookup]. rewrite (eqb_spec_refl teqb teqb_spec). reflexivity.
  Qed.

  (* ================================================================== *)
  (* M2: one rule thread                                                  *)
  (* ================================================================== *)

  Theorem handle_rule_history_le : forall (w : world) b (h : history) key cmd wr w' s h',
    handle_rule teqb hc w b h key cmd = (Ok wr, w', s) -> wr_history wr = Some h' ->
    hist_le h h' /\ forall k, k <> key -> alookup teqb h' k = alookup teqb h k.
  Proof.
    intros w b h key cmd wr w' s h' H Hh. apply handle_rule_cases in H.
    destruct (resolved_of T teqb hc w b h key) as [[ress w1]|e]; [|destruct H as [H _]; discriminate].
    cbv zeta in H. destruct (needs_rebuild ress).
    - destruct H as (_ & _ & H). destruct (command_verdict _); [discriminate|].
      destruct (update_blob teqb hc w' _) as [b'|p]; [|discriminate].
      destruct (history_insert teqb h key _ _) as [h1|e] eqn:EI; [|discriminate].
      injection H as ->. cbn [wr_history] in Hh. injection Hh as ->.
      split; [eapply history_insert_le; eauto | eapply history_insert_adds_at_most_one; eauto].
    - destruct H as (_ & _ & H). destruct (current_tickets teqb hc w1 _); [|discriminate].
      injection H as ->. cbn [wr_history] in Hh. injection Hh as ->.
      split; [apply hist_le_refl | reflexivity].
  Qed.

  (* the last step of a rule thread of Model/Fine.v *)
  Lemma rule_tail_history_le (w1 : world) b (h : history) key cmd ress wr w' s h' :
    rule_tail T teqb hc w1 b h key cmd ress = (Ok wr, w', s) -> wr_history wr = Some h' ->
    hist_le h h' /\ forall k, k <> key -> alookup teqb h' k = alookup teqb h k.
  Proof.
    unfold rule_tail. cbv zeta. destruct (needs_rebuild ress).
    - destruct (run_script w1 (script_lines cmd)) as [codes w2].
      destruct (command_verdict codes); [discriminate|].
      destruct (update_blob teqb hc w2 _) as [b'|p]; [|discriminate].
      destruct (history_insert teqb h key _ _) as [h1|e] eqn:EI; [|discriminate].
      intros H Hh. injection H as <- _ _. cbn [wr_history] in Hh. injection Hh as <-.
      split; [eapply history_insert_le; eauto | eapply history_insert_adds_at_most_one; eauto].
    - destruct (current_tickets teqb hc w1 _); [|discriminate].
      intros H Hh. injection H as <- _ _. cbn [wr_history] in Hh. injection Hh as <-.
      split; [apply hist_le_refl | reflexivity].
  Qed.

  (* ================================================================== *)
  (* the history directory                                                *)
  (* ================================================================== *)

  Lemma hists_le_refl w : hists_le w w.
  Proof. intros hs name h E El. exists hs, h. split; [exact E|]. split; [exact El | apply hist_le_refl]. Qed.

  Lemma hists_le_trans w1 w2 w3 : hists_le w1 w2 -> hists_le w2 w3 -> hists_le w1 w3.
  Proof.
    intros H1 H2 hs name h E El. destruct (H1 hs name h E El) as (hs2 & h2 & E2 & El2 & L2).
    destruct (H2 hs2 name h2 E2 El2) as (hs3 & h3 & E3 & El3 & L3).
    exists hs3, h3. split; [exact E3|]. split; [exact El3 | eapply hist_le_trans; eauto].
  Qed.

  Lemma hists_le_same (w0 w w' : world) : rd_hist (w_rd w') = rd_hist (w_rd w) -> hists_le w0 w -> hists_le w0 w'.
  Proof. intros E H hs name h E0 El. rewrite E. exact (H hs name h E0 El). Qed.

  (* creating the history directory when it is missing *)
  Lemma hists_le_mkdir (w0 w w' : world) :
    rd_hist (w_rd w') = match rd_hist (w_rd w) with Some hs => Some hs | None => Some [] end ->
    hists_le w0 w -> hists_le w0 w'.
  Proof.
    intros E H hs name h E0 El. destruct (H hs name h E0 El) as (hs' & h' & E' & R).
    rewrite E' in E. exists hs', h'. split; [exact E | exact R].
  Qed.

  (* what main may write under the name of rule r, as seen from the world w0: an extension of the file that w0 has
     under that name, if it has a readable one *)
  Definition safe_write (w0 : world) (r : rule) (h' : history) : Prop :=
    forall hs h, rd_hist (w_rd w0) = Some hs -> alookup teqb hs (hr r) = Some (SF_ok h) -> hist_le h h'.

  Lemma read_history_ok (w : world) r hs h :
    rd_hist (w_rd w) = Some hs -> alookup teqb hs (hr r) = Some (SF_ok h) -> read_history w r = Some h.
  Proof. intros E El. unfold Build.read_history. rewrite E, El. reflexivity. Qed.

  Lemma read_safe (w0 : world) r h h' : read_history w0 r = Some h -> hist_le h h' -> safe_write w0 r h'.
  Proof.
    intros Hr Hle hs h0 E El. rewrite (read_history_ok _ _ _ _ E El) in Hr. injection Hr as <-. exact Hle.
  Qed.

  Lemma write_history_hists_le (w0 w : world) r h' :
    safe_write w0 r h' -> hists_le w0 w -> hists_le w0 (write_history w r h').
  Proof.
    intros Hs Hle hs name h E El. destruct (Hle hs name h E El) as (hs' & h1 & E' & El' & L).
    unfold Build.write_history. rewrite E'. cbn [w_rd set_rd rd_hist].
    exists (ainsert teqb hs' (hr r) (SF_ok h')).
    destruct (teqb (hr r) name) eqn:Et.
    - apply teqb_spec in Et. subst name. exists h'. split; [reflexivity|]. split.
      + apply (alookup_ainsert_eq teqb teqb_spec).
      + exact (Hs hs h E El).
    - exists h1. split; [reflexivity|]. split; [|exact L].
      rewrite (alookup_ainsert_neq teqb teqb_spec); [exact El'|].
      intro X. rewrite X in Et. rewrite (eqb_spec_refl teqb teqb_spec) in Et. discriminate.
  Qed.

  Lemma init_dir_hist (w w1 : world) t :
    init_dir T w = Ok (w1, t) ->
    rd_hist (w_rd w1) = match rd_hist (w_rd w) with Some hs => Some hs | None => Some [] end.
  Proof.
    unfold init_dir. destruct (rd_table (w_rd w)) as [[tb|]|]; try discriminate; intro H; injection H as <- _; reflexivity.
  Qed.

  Lemma init_dir_hists_le (w w1 : world) t : init_dir T w = Ok (w1, t) -> hists_le w w1.
  Proof. intro H. eapply hists_le_mkdir; [exact (init_dir_hist _ _ _ H) | apply hists_le_refl]. Qed.

  Lemma init_dir_error_hists_le (w : world) : hists_le w (init_dir_world_on_error T w).
  Proof. eapply hists_le_mkdir; [|apply hists_le_refl]. reflexivity. Qed.

  Lemma safe_write_init (w w1 : world) t r h' : init_dir T w = Ok (w1, t) -> safe_write w1 r h' -> safe_write w r h'.
  Proof.
    intros Hi Hs hs h E El. apply (Hs hs h); [|exact El]. rewrite (init_dir_hist _ _ _ Hi), E. reflexivity.
  Qed.

  (* ---------- the join loop (the same code in Build.build, Sched.build_ord, Fine.build_fine) ---------- *)

  Definition res_safe (w0 : world) (res : option rule * thread_result T) : Prop :=
    forall r wr h', res = (Some r, TOk wr) -> wr_history wr = Some h' -> safe_write w0 r h'.

  Lemma join_one_hists_le (w0 : world) js res :
    res_safe w0 res -> hists_le w0 (js_world T js) -> hists_le w0 (js_world T (join_one T teqb hr js res)).
  Proof.
    intros Hs Hle. destruct res as [r tr]. unfold join_one. cbn [fst snd].
    destruct tr as [wr|e|]; cbn [js_world]; try exact Hle.
    destruct r as [r|]; [|exact Hle]. destruct (wr_history wr) as [h'|] eqn:Eh; [|exact Hle].
    apply write_history_hists_le; [|exact Hle]. exact (Hs r wr h' eq_refl Eh).
  Qed.

  Lemma join_all_hists_le (w0 : world) results : forall js,
    Forall (res_safe w0) results -> hists_le w0 (js_world T js) ->
    hists_le w0 (js_world T (fold_left (join_one T teqb hr) results js)).
  Proof.
    induction results as [|res rest IH]; intros js HF Hle; cbn [fold_left]; [exact Hle|].
    inversion HF as [|? ? H1 H2]; subst. apply IH; [exact H2|]. apply join_one_hists_le; assumption.
  Qed.

  (* ================================================================== *)
  (* one action                                                           *)
  (* ================================================================== *)

  Definition act_safe (w0 : world) (a : act T) : Prop :=
    match a with AWriteHist r h' => safe_write w0 r h' | _ => True end.

  Definition not_hw (a : act T) : Prop := match a with AWriteHist _ _ => False | _ => True end.

  Lemma back_up_hist (w : world) t p w' : back_up teqb w t p = Some w' -> rd_hist (w_rd w') = rd_hist (w_rd w).
  Proof.
    unfold back_up. destruct (cache_of w); [|discriminate]. destruct (fget w p); [|discriminate].
    intro H. injection H as <-. reflexivity.
  Qed.

  Lemma restore_hist (w : world) t p w' : restore teqb w t p = RDone w' -> rd_hist (w_rd w') = rd_hist (w_rd w).
  Proof.
    unfold restore. destruct (cache_of w) as [c|]; [|discriminate]. destruct (alookup teqb c t); [|discriminate].
    intro H. injection H as <-. reflexivity.
  Qed.

  (* an action that is not the replacement of a history file leaves the history directory alone, or creates it *)
  Lemma do_act_hist (w : world) a :
    not_hw a ->
    rd_hist (w_rd (do_act w a)) = rd_hist (w_rd w) \/
    (a = AMkHist /\ rd_hist (w_rd w) = None /\ rd_hist (w_rd (do_act w a)) = Some []).
  Proof.
    intro Hn. destruct a as [| | | |p t|t p|l|r h|tbl]; cbn [Acts.do_act]; try (left; reflexivity).
    - cbv zeta. cbn [w_rd set_rd rd_hist]. destruct (rd_hist (w_rd w)) eqn:E; [left; reflexivity|].
      right. split; [reflexivity|]. split; reflexivity.
    - left. destruct (back_up teqb w t p) as [w'|] eqn:E; [eapply back_up_hist; eauto | reflexivity].
    - left. destruct (restore teqb w t p) as [w'| |] eqn:E; try reflexivity. eapply restore_hist; eauto.
    - left. destruct (run_line_frame T w l) as [-> _]. reflexivity.
    - destruct Hn.
  Qed.

  Lemma do_act_hists_le (w0 w : world) a : act_safe w0 a -> hists_le w0 w -> hists_le w0 (do_act w a).
  Proof.
    intros Hs Hle. destruct a as [| | | |p t|t p|l|r h|tbl];
      try (match goal with
           | |- hists_le _ (Acts.do_act _ _ _ ?a) => destruct (do_act_hist w a I) as [E | (_ & E1 & E2)]
           end;
           [eapply hists_le_same; [exact E | exact Hle]
           |eapply hists_le_mkdir; [rewrite E1; exact E2 | exact Hle]]).
    cbn [Acts.do_act]. apply write_history_hists_le; [exact Hs | exact Hle].
  Qed.

  Lemma run_acts_hists_le (w0 : world) acts : forall w,
    Forall (act_safe w0) acts -> hists_le w0 w -> hists_le w0 (run_acts acts w).
  Proof.
    induction acts as [|a rest IH]; intros w HF Hle; [exact Hle|].
    inversion HF as [|? ? H1 H2]; subst. rewrite (run_acts_cons T teqb hr). apply IH; [exact H2|].
    apply do_act_hists_le; assumption.
  Qed.

  Lemma not_hw_safe (w0 : world) a : not_hw a -> act_safe w0 a.
  Proof. destruct a; intro H; try exact I. destruct H. Qed.

  (* ---------- the workers' actions replace no history file ---------- *)

  Lemma restore_acts_not_hw (w : world) t p : Forall not_hw (restore_acts T teqb w t p).
  Proof. unfold restore_acts. destruct (restore teqb w t p); repeat constructor. Qed.

  Lemma resolve_single_acts_not_hw (w : world) rem p a : Forall not_hw (resolve_single_acts T teqb hc w rem p a).
  Proof.
    unfold resolve_single_acts. destruct (get_file_ticket teqb hc w p a) as [cur|]; [|apply restore_acts_not_hw].
    destruct (teqb rem cur); [constructor|]. destruct (back_up teqb w cur p) as [w1|]; [|constructor].
    constructor; [exact I | apply restore_acts_not_hw].
  Qed.

  Lemma resolve_remembered_acts_not_hw b : forall (w : world) rem,
    Forall not_hw (resolve_remembered_acts T teqb hc w b rem).
  Proof.
    induction b as [|[p a] rest IH]; intros w rem; cbn [resolve_remembered_acts]; [constructor|].
    destruct rem as [|r rrest]; [constructor|]. apply Forall_app. split; [apply resolve_single_acts_not_hw|].
    destruct (resolve_single teqb hc w (fs_t r) p a) as [[res w1]|e]; [apply IH | constructor].
  Qed.

  Lemma resolve_fresh_acts_not_hw b : forall (w : world), Forall not_hw (resolve_fresh_acts T teqb hc w b).
  Proof.
    induction b as [|[p a] rest IH]; intros w; cbn [resolve_fresh_acts]; [constructor|].
    destruct (get_file_ticket teqb hc w p a) as [cur|]; [|apply IH].
    destruct (back_up teqb w cur p) as [w1|]; [|constructor]. constructor; [exact I | apply IH].
  Qed.

  Lemma handle_rule_acts_not_hw (w : world) b h st cmd : Forall not_hw (handle_rule_acts teqb hc w b h st cmd).
  Proof.
    unfold handle_rule_acts. cbv zeta.
    destruct (alookup teqb h st) as [rem|].
    - destruct (resolve_remembered teqb hc w b rem) as [[ress w1]|e]; [|constructor].
      apply Forall_app. split; [apply resolve_remembered_acts_not_hw|].
      destruct (needs_rebuild ress); [|constructor]. apply Forall_forall. intros a Hin.
      apply in_map_iff in Hin as (l & <- & _). exact I.
    - destruct (resolve_fresh teqb hc w b) as [[ress w1]|e]; [|constructor].
      apply Forall_app. split; [apply resolve_fresh_acts_not_hw|].
      destruct (needs_rebuild ress); [|constructor]. apply Forall_forall. intros a Hin.
      apply in_map_iff in Hin as (l & <- & _). exact I.
  Qed.

  Lemma run_node_acts_not_hw st n : Forall not_hw (run_node_acts T teqb hc hl hr st n).
  Proof.
    unfold run_node_acts. destruct (take_blob T hc (rs_table T st) (n_targets n)) as [b t'].
    destruct (read_history (rs_world T st) (n_rule n)) as [h|]; [|constructor].
    destruct (all_some _) as [tickets|]; [apply handle_rule_acts_not_hw | constructor].
  Qed.

  Lemma run_nodes_acts_not_hw ns : forall st, Forall not_hw (run_nodes_acts T teqb hc hl hr st ns).
  Proof.
    induction ns as [|n rest IH]; intro st; cbn [run_nodes_acts]; [constructor|].
    destruct (run_node T teqb hc hl hr st n) as [st1|]; [|constructor].
    apply Forall_app. split; [apply run_node_acts_not_hw | apply IH].
  Qed.

  Lemma init_acts_not_hw (w : world) : Forall not_hw (init_acts w).
  Proof.
    apply Forall_forall. intros a Hin. apply (init_acts_shape T) in Hin. destruct a; try exact I. destruct Hin.
  Qed.

  Lemma clean_acts_not_hw (w : world) rp goal : Forall not_hw (clean_acts teqb hc w rp goal).
  Proof.
    apply Forall_forall. intros a Hin. apply (clean_acts_shape T) in Hin. destruct a; try exact I. destruct Hin.
  Qed.

  (* ================================================================== *)
  (* M4: each rule's file is written from that rule's own file            *)
  (* ================================================================== *)

  (* a history came back from the thread of node n of ns, which had been given the file read under n's name *)
  Definition own_res (w1 : world) (ns : list node) (r : rule) (h' : history) : Prop :=
    exists n h, In n ns /\ r = n_rule n /\ read_history w1 r = Some h /\ hist_le h h' /\ hist_diff1 h h'.

  Lemma own_res_mono w1 ns ns' r h' : (forall n, In n ns -> In n ns') -> own_res w1 ns r h' -> own_res w1 ns' r h'.
  Proof. intros Hsub (n & h & Hin & R). exists n, h. split; [apply Hsub; exact Hin | exact R]. Qed.

  Lemma run_nodes_results_own ns : forall st st2 (w1 : world),
    run_nodes T teqb hc hl hr st ns = Some st2 ->
    rd_hist (w_rd (rs_world T st)) = rd_hist (w_rd w1) ->
    forall r wr h', In (Some r, TOk wr) (rs_results T st2) -> wr_history wr = Some h' ->
      In (Some r, TOk wr) (rs_results T st) \/ own_res w1 ns r h'.
  Proof.
    induction ns as [|n rest IH]; intros st st2 w1; cbn [run_nodes].
    - intros H _ r wr h' Hin _. injection H as <-. left. exact Hin.
    - destruct (run_node T teqb hc hl hr st n) as [st1|] eqn:E1; [|discriminate].
      intros Hrun Hw r wr h' Hin Hh.
      pose proof (run_node_hist T teqb hc hl hr _ _ _ E1) as Hh1. unfold hist_of in Hh1.
      destruct (IH st1 st2 w1 Hrun (eq_trans Hh1 Hw) r wr h' Hin Hh) as [Hin1 | Hown].
      2:{ right. eapply own_res_mono; [|exact Hown]. intros x Hx. right. exact Hx. }
      apply (run_node_result T teqb hc hl hr) in E1 as (tr & ER & Htr). rewrite ER in Hin1.
      apply in_app_or in Hin1 as [Hin1 | [Heq | []]]; [left; exact Hin1|].
      right. injection Heq as Er Etr.
      destruct Htr as [-> | (b & t' & h & tickets & res & w' & s & _ & _ & Hrd & Hhr & -> & _)]; [discriminate|].
      destruct res as [wr0|e]; [|discriminate]. injection Etr as ->.
      destruct (handle_rule_history_le _ _ _ _ _ _ _ _ _ Hhr Hh) as [Hle Hd].
      exists n, h. split; [left; reflexivity|]. split; [symmetry; exact Er|]. subst r.
      split; [rewrite <- Hrd; apply (read_history_same T teqb hr); symmetry; exact Hw|].
      split; [exact Hle|]. exists (hl tickets). exact Hd.
  Qed.

  Lemma in_join_acts r h' results :
    In (AWriteHist r h') (join_acts T results) -> exists wr, In (Some r, TOk wr) results /\ wr_history wr = Some h'.
  Proof.
    unfold join_acts. intro H. apply in_flat_map in H as ([r0 tr] & Hin & Hx).
    destruct r0 as [r0|]; [|destruct Hx]. destruct tr as [wr|e|]; try destruct Hx.
    destruct (wr_history wr) as [h0|] eqn:Eh; [|destruct Hx]. destruct Hx as [Hx | []].
    injection Hx as -> ->. exists wr. split; [exact Hin | exact Eh].
  Qed.

  Lemma st_leaves_no_rule_result (w1 : world) t pack r tr :
    ~ In (Some r, tr) (rs_results T (st_leaves T teqb hc w1 t pack)).
  Proof.
    unfold st_leaves. destruct (run_leaves_results T teqb hc (p_leaves pack) (mk_rs T w1 t [] [] [] [])) as (lr & E & HF).
    rewrite E. cbn [rs_results app]. intro Hin. rewrite Forall_forall in HF. apply HF in Hin. discriminate.
  Qed.

  Theorem build_writes_each_history_from_its_own : forall (w : world) rp goal r h',
    In (AWriteHist r h') (build_acts teqb hc hl hr w rp goal) ->
    exists w1 tbl pack n h,
      init_dir T w = Ok (w1, tbl) /\ get_nodes T w1 rp goal = Ok pack /\ In n (p_nodes pack) /\ r = n_rule n /\
      read_history w1 r = Some h /\ hist_le h h' /\ hist_diff1 h h'.
  Proof.
    intros w rp goal r h' Hin. rewrite (build_acts_eq T teqb hc hl hr) in Hin.
    apply in_app_or in Hin as [Hin | Hin].
    { pose proof (init_acts_not_hw w) as HF. rewrite Forall_forall in HF. destruct (HF _ Hin). }
    destruct (init_dir T w) as [[w1 tbl]|f] eqn:Ei; [|destruct Hin].
    destruct (get_nodes T w1 rp goal) as [pack|f] eqn:Eg; [|destruct Hin].
    cbv zeta in Hin. destruct Hin as [Hx | Hin]; [discriminate|].
    set (st1 := st_leaves T teqb hc (write_table T w1 (table_rest T hc tbl pack)) tbl pack) in *.
    apply in_app_or in Hin as [Hin | Hin].
    { pose proof (run_nodes_acts_not_hw (p_nodes pack) st1) as HF. rewrite Forall_forall in HF. destruct (HF _ Hin). }
    destruct (run_nodes T teqb hc hl hr st1 (p_nodes pack)) as [st2|] eqn:Er; [|destruct Hin].
    apply in_app_or in Hin as [Hin | [Hx | []]]; [|discriminate].
    apply in_join_acts in Hin as (wr & Hin & Hh).
    assert (rd_hist (w_rd (rs_world T st1)) = rd_hist (w_rd w1)) as Hw.
    { unfold st1. rewrite (st_leaves_world T teqb hc). reflexivity. }
    destruct (run_nodes_results_own _ _ _ w1 Er Hw r wr h' Hin Hh) as [Hbad | (n & h & Hn & R)].
    { exfalso. exact (st_leaves_no_rule_result _ _ _ _ _ Hbad). }
    exists w1, tbl, pack, n, h. split; [reflexivity|]. split; [exact Eg|]. split; [exact Hn | exact R].
  Qed.

  (* ================================================================== *)
  (* M3: every crash point                                                *)
  (* ================================================================== *)

  Lemma build_acts_safe (w : world) rp goal : Forall (act_safe w) (build_acts teqb hc hl hr w rp goal).
  Proof.
    apply Forall_forall. intros a Hin. destruct a as [| | | |p t|t p|l|r h'|tbl]; try exact I. cbn [act_safe].
    apply build_writes_each_history_from_its_own in Hin as (w1 & tbl & pack & n & h & Hi & _ & _ & _ & Hr & Hle & _).
    eapply safe_write_init; [exact Hi|]. eapply read_safe; eauto.
  Qed.

  Lemma Forall_app_l {A} (P : A -> Prop) l1 l2 : Forall P (l1 ++ l2) -> Forall P l1.
  Proof. intro H. apply Forall_app in H. apply H. Qed.

  Theorem build_histories_only_grow : forall (w : world) rp goal pre suf,
    build_acts teqb hc hl hr w rp goal = pre ++ suf -> hists_le w (run_acts pre w).
  Proof.
    intros w rp goal pre suf E. apply run_acts_hists_le; [|apply hists_le_refl].
    apply (Forall_app_l _ pre suf). rewrite <- E. apply build_acts_safe.
  Qed.

  Corollary build_keeps_every_record : forall (w : world) rp goal,
    hists_le w (o_world (build teqb hc hl hr w rp goal)).
  Proof.
    intros w rp goal. rewrite <- (acts_build_sound T teqb hc hl hr).
    apply (build_histories_only_grow w rp goal _ []). rewrite app_nil_r. reflexivity.
  Qed.

  (* ---------- clean: no history file is written; the directory is what it was, or has just been created ---------- *)

  Lemma run_acts_not_hw_hist acts : forall w : world,
    Forall not_hw acts ->
    rd_hist (w_rd (run_acts acts w)) = rd_hist (w_rd w) \/
    (rd_hist (w_rd w) = None /\ rd_hist (w_rd (run_acts acts w)) = Some []).
  Proof.
    induction acts as [|a rest IH]; intros w HF; [left; reflexivity|].
    inversion HF as [|? ? H1 H2]; subst. rewrite (run_acts_cons T teqb hr).
    destruct (IH (do_act w a) H2) as [E | [E1 E2]]; destruct (do_act_hist w a H1) as [Ea | (_ & Ea1 & Ea2)].
    - left. congruence.
    - right. split; [exact Ea1 | congruence].
    - right. split; congruence.
    - congruence.
  Qed.

  Theorem clean_histories_unchanged : forall (w : world) rp goal pre suf,
    clean_acts teqb hc w rp goal = pre ++ suf ->
    rd_hist (w_rd (run_acts pre w)) = rd_hist (w_rd w) \/
    (rd_hist (w_rd w) = None /\ rd_hist (w_rd (run_acts pre w)) = Some []).
  Proof.
    intros w rp goal pre suf E. apply run_acts_not_hw_hist.
    apply (Forall_app_l _ pre suf). rewrite <- E. apply clean_acts_not_hw.
  Qed.

  Theorem clean_histories_only_grow : forall (w : world) rp goal pre suf,
    clean_acts teqb hc w rp goal = pre ++ suf -> hists_le w (run_acts pre w).
  Proof.
    intros w rp goal pre suf E. apply run_acts_hists_le; [|apply hists_le_refl].
    apply (Forall_app_l _ pre suf). rewrite <- E.
    eapply Forall_impl; [|apply clean_acts_not_hw]. intros a. apply not_hw_safe.
  Qed.

  Corollary clean_keeps_every_record : forall (w : world) rp goal,
    hists_le w (o_world (clean teqb hc w rp goal)).
  Proof.
    intros w rp goal. rewrite <- (acts_clean_sound T teqb hc hr).
    apply (clean_histories_only_grow w rp goal _ []). rewrite app_nil_r. reflexivity.
  Qed.

  (* the whole clean: init has created the directory if it was missing; nothing else happened to it *)
  Corollary clean_history_dir_unchanged : forall (w : world) rp goal,
    rd_hist (w_rd (o_world (clean teqb hc w rp goal))) =
    match rd_hist (w_rd w) with Some hs => Some hs | None => Some [] end.
  Proof.
    intros w rp goal. rewrite <- (acts_clean_sound T teqb hc hr). unfold clean_acts.
    rewrite (run_acts_app T teqb hr).
    assert (rd_hist (w_rd (run_acts (init_acts w) w)) =
            match rd_hist (w_rd w) with Some hs => Some hs | None => Some [] end) as E0.
    { destruct (init_dir T w) as [[w1 t]|f] eqn:Ei.
      - rewrite (init_acts_ok T teqb hr _ _ _ Ei). exact (init_dir_hist _ _ _ Ei).
      - rewrite (init_acts_err T teqb hr _ _ Ei). reflexivity. }
    match goal with |- rd_hist (w_rd (run_acts ?l _)) = _ => assert (Forall not_hw l) as HF end.
    { pose proof (clean_acts_not_hw w rp goal) as H. unfold clean_acts in H. apply Forall_app in H. apply H. }
    destruct (run_acts_not_hw_hist _ (run_acts (init_acts w) w) HF) as [E | [E1 E2]].
    - rewrite E. exact E0.
    - rewrite E0 in E1. destruct (rd_hist (w_rd w)); discriminate.
  Qed.

  (* ================================================================== *)
  (* M5: the schedule-generic builds (final world)                        *)
  (* ================================================================== *)

  Lemma Forall_set_nth {A} (P : A -> Prop) k v : forall l, P v -> Forall P l -> Forall P (set_nth k v l).
  Proof.
    revert k. induction k as [|k IH]; intros [|x l] Hv HF; cbn [set_nth]; try constructor;
      inversion HF as [|? ? H1 H2]; subst; auto.
  Qed.

  Definition slot_safe (w1 : world) (o : option (option rule * thread_result T)) : Prop :=
    match o with Some res => res_safe w1 res | None => True end.

  Lemma slots_results (w1 : world) l :
    Forall (slot_safe w1) l ->
    Forall (res_safe w1) (flat_map (fun o : option (option rule * thread_result T) =>
                                      match o with Some r => [r] | None => [] end) l).
  Proof.
    induction l as [|o l IH]; intro HF; cbn [flat_map]; [constructor|].
    inversion HF as [|? ? H1 H2]; subst. apply Forall_app. split; [|apply IH; exact H2].
    destruct o as [res|]; [|constructor]. constructor; [exact H1 | constructor].
  Qed.

  Lemma res_safe_no_rule (w1 : world) tr : res_safe w1 (None, tr).
  Proof. intros r wr h' E. discriminate. Qed.

  Lemma res_safe_canceled (w1 : world) r : res_safe w1 (r, TCanceled).
  Proof. intros r0 wr h' E. discriminate. Qed.

  Lemma res_safe_err (w1 : world) r e : res_safe w1 (r, TErr e).
  Proof. intros r0 wr h' E. discriminate. Qed.

  (* main reads every node's history before any worker runs *)
  Lemma read_histories_nth (w1 : world) ns hists j n :
    read_histories T teqb hr w1 ns = Some hists -> nth_error ns j = Some n ->
    read_history w1 (n_rule n) = Some (nth j hists []).
  Proof.
    unfold read_histories. intros H En. pose proof (all_some_nth _ _ H j) as E.
    rewrite nth_error_map, En in E. cbn [option_map] in E.
    destruct (nth_error hists j) as [h|] eqn:Eh; cbn [option_map] in E; [|discriminate].
    injection E as ->. f_equal. symmetry. apply nth_error_nth. exact Eh.
  Qed.

  Section Plan.
    Variable w1 : world.
    Variable pack : node_pack.
    Variable blobs : list (blob T).
    Variable hists : list history.
    Hypothesis Hh : read_histories T teqb hr w1 (p_nodes pack) = Some hists.

    (* the result of the thread of node n, which was given the history main read for n *)
    Lemma res_safe_node j n (res : result (work_result T) work_err) :
      nth_error (p_nodes pack) j = Some n ->
      (forall wr h', res = Ok wr -> wr_history wr = Some h' -> hist_le (nth j hists []) h') ->
      res_safe w1 (Some (n_rule n), res_tr T res).
    Proof.
      intros En Hle r wr h' E Hw. injection E as <- Etr.
      destruct res as [wr0|e]; cbn [res_tr] in Etr; [|discriminate]. injection Etr as ->.
      eapply read_safe; [exact (read_histories_nth _ _ _ _ _ Hh En) | exact (Hle _ _ eq_refl Hw)].
    Qed.

    Definition sched_ok (st : sstate T) : Prop :=
      rd_hist (w_rd (ss_world st)) = rd_hist (w_rd w1) /\ Forall (slot_safe w1) (ss_res st).

    Lemma work_step_sched_ok st k : sched_ok st -> sched_ok (work_step teqb hc hl pack blobs hists st k).
    Proof.
      intros [P1 P2].
      destruct (work_step_cases T teqb hc hl pack blobs hists st k)
        as [-> | [(_ & _ & ->) | (_ & _ & n & En & [[_ ->] | (tickets & res & w' & script & _ & Ehr & ->)])]].
      - split; assumption.
      - split; [exact P1|]. unfold upd. cbn [ss_res]. apply Forall_set_nth; [|exact P2]. apply res_safe_no_rule.
      - split; [exact P1|]. unfold upd. cbn [ss_res]. apply Forall_set_nth; [|exact P2]. apply res_safe_canceled.
      - split.
        + unfold upd. cbn [ss_world]. rewrite <- P1. exact (handle_rule_hist T teqb hc _ _ _ _ _ _ _ _ Ehr).
        + unfold upd. cbn [ss_res]. apply Forall_set_nth; [|exact P2]. cbn [slot_safe].
          apply (res_safe_node _ _ _ En). intros wr h' -> Hw.
          exact (proj1 (handle_rule_history_le _ _ _ _ _ _ _ _ _ Ehr Hw)).
    Qed.

    Definition fine_ok (st : fnstate T) : Prop :=
      rd_hist (w_rd (fn_world st)) = rd_hist (w_rd w1) /\ Forall (slot_safe w1) (fn_res st).

    Lemma fstep_fine_ok st k st' : fine_ok st -> fstep teqb hc hl pack blobs hists st k = Some st' -> fine_ok st'.
    Proof.
      intros [P1 P2] E. split; [rewrite <- P1; exact (proj2 (fstep_rd T teqb hc hl _ _ _ _ _ _ E))|].
      destruct (fstep_shape T teqb hc hl _ _ _ _ _ _ E) as [Hl | (n & _ & En & [Hs | [Hm | [Hf | Hlast]]])].
      - destruct Hl as (_ & _ & sent & tr & ->). cbn [finish_worker fn_res].
        apply Forall_set_nth; [|exact P2]. apply res_safe_no_rule.
      - destruct Hs as (_ & key & [(rem & _ & ->) | (_ & ->)]); exact P2.
      - destruct Hm as (ph' & w' & _ & ->). exact P2.
      - destruct Hf as (_ & tr & Htr & ->). cbn [finish_worker fn_res]. apply Forall_set_nth; [|exact P2].
        destruct Htr as [-> | [e ->]]; [apply res_safe_canceled | apply res_safe_err].
      - destruct Hlast as (ro & key & res & w' & script & _ & _ & Et & ->). cbn [finish_worker fn_res].
        apply Forall_set_nth; [|exact P2]. cbn [slot_safe].
        apply (res_safe_node _ _ _ En). intros wr h' -> Hw.
        exact (proj1 (rule_tail_history_le _ _ _ _ _ _ _ _ _ _ Et Hw)).
    Qed.

    (* main's join loop after the workers *)
    Lemma join_after_workers (wf : world) slots t' :
      rd_hist (w_rd wf) = rd_hist (w_rd w1) -> Forall (slot_safe w1) slots ->
      hists_le w1 (js_world T (fold_left (join_one T teqb hr)
                                 (flat_map (fun o : option (option rule * thread_result T) =>
                                              match o with Some r => [r] | None => [] end) slots)
                                 (mk_js T wf t' [] []))).
    Proof.
      intros P1 P2. apply join_all_hists_le; [apply slots_results; exact P2|]. cbn [js_world].
      eapply hists_le_same; [exact P1 | apply hists_le_refl].
    Qed.
  End Plan.

  Lemma Forall_repeat {A} (P : A -> Prop) a n : P a -> Forall P (repeat a n).
  Proof. intro H. induction n as [|n IH]; cbn [repeat]; constructor; assumption. Qed.

  (* ANY order of the work steps, valid or not *)
  Theorem build_ord_keeps_every_record : forall ord (w : world) rp goal,
    hists_le w (o_world (build_ord teqb hc hl hr ord w rp goal)).
  Proof.
    intros ord w rp goal. unfold build_ord.
    destruct (init_dir T w) as [[w1 t]|f] eqn:Ei; [|apply init_dir_error_hists_le].
    pose proof (init_dir_hists_le _ _ _ Ei) as H1.
    destruct (get_nodes T w1 rp goal) as [pack|f] eqn:Eg; [|exact H1].
    destruct (read_histories T teqb hr w1 (p_nodes pack)) as [hists|] eqn:Eh; [|apply build_keeps_every_record].
    destruct (take_blobs T hc t (worker_paths pack)) as [blobs t'] eqn:Et. cbv zeta. cbn [o_world].
    eapply hists_le_trans; [exact H1|].
    eapply hists_le_same; [reflexivity|].
    match goal with |- context [fold_left (work_step teqb hc hl pack blobs hists) ord ?s0] =>
      assert (sched_ok w1 (fold_left (work_step teqb hc hl pack blobs hists) ord s0)) as [P1 P2] end.
    { apply (fold_step_ind T teqb hc hl (sched_ok w1)).
      - intros st k. apply (work_step_sched_ok w1 pack blobs hists Eh).
      - split; [reflexivity|]. cbn [ss_res]. apply Forall_repeat. exact I. }
    apply join_after_workers; assumption.
  Qed.

  (* ANY run of the fine-grained interleaving model, complete or not *)
  Theorem build_fine_keeps_every_record : forall ch (w : world) rp goal,
    hists_le w (o_world (build_fine teqb hc hl hr ch w rp goal)).
  Proof.
    intros ch w rp goal. unfold build_fine.
    destruct (init_dir T w) as [[w1 t]|f] eqn:Ei; [|apply init_dir_error_hists_le].
    pose proof (init_dir_hists_le _ _ _ Ei) as H1.
    destruct (get_nodes T w1 rp goal) as [pack|f] eqn:Eg; [|exact H1].
    destruct (read_histories T teqb hr w1 (p_nodes pack)) as [hists|] eqn:Eh; [|apply build_keeps_every_record].
    destruct (take_blobs T hc t (worker_paths pack)) as [blobs t'] eqn:Et. cbv zeta. cbn [o_world].
    eapply hists_le_trans; [exact H1|].
    eapply hists_le_same; [reflexivity|].
    match goal with |- context [frun teqb hc hl pack blobs hists ch ?s0] =>
      assert (fine_ok w1 (frun teqb hc hl pack blobs hists ch s0)) as [P1 P2] end.
    { apply (frun_ind T teqb hc hl (fine_ok w1)).
      - intros st k st'. apply (fstep_fine_ok w1 pack blobs hists Eh).
      - split; [reflexivity|]. cbn [fn_res]. apply Forall_repeat. exact I. }
    apply join_after_workers; assumption.
  Qed.
End HistMono.

(* ================================================================== *)
(* M6: the closed statements, for the free symbolic hashes              *)
(* ================================================================== *)

Notation hist_le_sym := (hist_le sym sym_eqb).
Notation hist_diff1_sym := (hist_diff1 sym sym_eqb).
Notation hists_le_sym := (hists_le sym sym_eqb).
Notation build_acts_sym := (build_acts sym_eqb SContent SList SRule).
Notation clean_acts_sym := (clean_acts sym_eqb SContent).
Notation run_acts_sym := (run_acts sym_eqb SRule).

Theorem hists_le_sym_unfold : forall w w' : world sym,
  hists_le_sym w w' <->
  forall hs name h, rd_hist (w_rd w) = Some hs -> alookup sym_eqb hs name = Some (SF_ok h) ->
    exists hs' h', rd_hist (w_rd w') = Some hs' /\ alookup sym_eqb hs' name = Some (SF_ok h') /\
                   forall k v, alookup sym_eqb h k = Some v -> alookup sym_eqb h' k = Some v.
Proof. intros w w'. reflexivity. Qed.

Theorem history_insert_le_sym : forall (h : history sym) key ts paths h',
  history_insert sym_eqb h key ts paths = Ok h' -> hist_le_sym h h'.
Proof. exact (history_insert_le sym sym_eqb). Qed.

Theorem history_insert_adds_at_most_one_sym : forall (h : history sym) key ts paths h',
  history_insert sym_eqb h key ts paths = Ok h' ->
  forall k, k <> key -> alookup sym_eqb h' k = alookup sym_eqb h k.
Proof. exact (history_insert_adds_at_most_one sym sym_eqb sym_eqb_spec). Qed.

Theorem handle_rule_history_le_sym : forall (w : world sym) b (h : history sym) key cmd wr w' s h',
  handle_rule sym_eqb SContent w b h key cmd = (Ok wr, w', s) -> wr_history wr = Some h' ->
  hist_le_sym h h' /\ forall k, k <> key -> alookup sym_eqb h' k = alookup sym_eqb h k.
Proof. exact (handle_rule_history_le sym sym_eqb SContent sym_eqb_spec). Qed.

Theorem build_histories_only_grow_sym : forall (w : world sym) rp goal pre suf,
  build_acts_sym w rp goal = pre ++ suf -> hists_le_sym w (run_acts_sym pre w).
Proof. exact (build_histories_only_grow sym sym_eqb SContent SList SRule sym_eqb_spec). Qed.

Theorem clean_histories_only_grow_sym : forall (w : world sym) rp goal pre suf,
  clean_acts_sym w rp goal = pre ++ suf -> hists_le_sym w (run_acts_sym pre w).
Proof. exact (clean_histories_only_grow sym sym_eqb SContent SRule sym_eqb_spec). Qed.

Theorem clean_histories_unchanged_sym : forall (w : world sym) rp goal pre suf,
  clean_acts_sym w rp goal = pre ++ suf ->
  rd_hist (w_rd (run_acts_sym pre w)) = rd_hist (w_rd w) \/
  (rd_hist (w_rd w) = None /\ rd_hist (w_rd (run_acts_sym pre w)) = Some []).
Proof. exact (clean_histories_unchanged sym sym_eqb SContent SRule). Qed.

Theorem build_keeps_every_record_sym : forall (w : world sym) rp goal,
  hists_le_sym w (o_world (build_sym w rp goal)).
Proof. exact (build_keeps_every_record sym sym_eqb SContent SList SRule sym_eqb_spec). Qed.

Theorem clean_keeps_every_record_sym : forall (w : world sym) rp goal,
  hists_le_sym w (o_world (clean sym_eqb SContent w rp goal)).
Proof. exact (clean_keeps_every_record sym sym_eqb SContent SRule sym_eqb_spec). Qed.

Theorem clean_history_dir_unchanged_sym : forall (w : world sym) rp goal,
  rd_hist (w_rd (o_world (clean sym_eqb SContent w rp goal))) =
  match rd_hist (w_rd w) with Some hs => Some hs | None => Some [] end.
Proof. exact (clean_history_dir_unchanged sym sym_eqb SContent SRule). Qed.

Theorem build_writes_each_history_from_its_own_sym : forall (w : world sym) rp goal r h',
  In (AWriteHist r h') (build_acts_sym w rp goal) ->
  exists w1 tbl pack n h,
    init_dir sym w = Ok (w1, tbl) /\ get_nodes sym w1 rp goal = Ok pack /\ In n (p_nodes pack) /\ r = n_rule n /\
    read_history sym sym_eqb SRule w1 r = Some h /\ hist_le_sym h h' /\ hist_diff1_sym h h'.
Proof. exact (build_writes_each_history_from_its_own sym sym_eqb SContent SList SRule sym_eqb_spec). Qed.

Theorem build_ord_keeps_every_record_sym : forall ord (w : world sym) rp goal,
  hists_le_sym w (o_world (build_ord sym_eqb SContent SList SRule ord w rp goal)).
Proof. exact (build_ord_keeps_every_record sym sym_eqb SContent SList SRule sym_eqb_spec). Qed.

Theorem build_fine_keeps_every_record_sym : forall ch (w : world sym) rp goal,
  hists_le_sym w (o_world (build_fine sym_eqb SContent SList SRule ch w rp goal)).
Proof. exact (build_fine_keeps_every_record sym sym_eqb SContent SList SRule sym_eqb_spec). Qed.

(* ================================================================== *)
(* M7: non-vacuity, and the seeded mutants C04-4 / C13-4                *)
(* ================================================================== *)

(* two rules f, g over the one source s. Build 1 gives each a history file with one entry (s = "1"). Then s is
   edited and the file m that f's command reads is removed: in build 2 the thread of f FAILS (its command exits 1),
   the thread of g succeeds and records a second entry. *)
Definition hm_rules : bytes := join_with [NL] (map bs
  ["f";":";"s";":";"gen f @s @m";":";
   "g";":";"s";":";"gen g @s";":";""]%string).

Definition hm_ops : list (op sym) :=
  [OWrite (bs "s") (bs "1"); OWrite (bs "m") (bs "x"); OWrite RULES_PATH hm_rules; OBuild None;
   OWrite (bs "s") (bs "2"); ORemove (bs "m")].

Definition hm_w : world sym := run_sym hm_ops (init_world Fine 1).

Definition hm_f : rule := mk_rule [bs "f"] [bs "s"] [bs "gen f @s @m"].
Definition hm_g : rule := mk_rule [bs "g"] [bs "s"] [bs "gen g @s"].
Definition hm_k1 : sym := SList [SContent (bs "1")].
Definition hm_k2 : sym := SList [SContent (bs "2")].
Definition hm_st (c : string) : fstate sym := mk_fstate (SContent (bs c)) 0%N false.

Definition hm_hf : history sym := [(hm_k1, [hm_st "1x"])].
Definition hm_hg : history sym := [(hm_k1, [hm_st "1"])].
Definition hm_hg' : history sym := [(hm_k1, [hm_st "1"]); (hm_k2, [hm_st "2"])].

Example hm_before : rd_hist (w_rd hm_w) = Some [(SRule hm_f, SF_ok hm_hf); (SRule hm_g, SF_ok hm_hg)].
Proof. vm_compute. reflexivity. Qed.

Example hm_f_fails : o_verdict (build_sym hm_w RULES_PATH None) = VWorkErrors [WCommandErrored].
Proof. vm_compute. reflexivity. Qed.

(* after the build g's file has both entries, f's file is untouched, and no file exists under any other name *)
Example hm_after :
  rd_hist (w_rd (o_world (build_sym hm_w RULES_PATH None))) = Some [(SRule hm_f, SF_ok hm_hf); (SRule hm_g, SF_ok hm_hg')].
Proof. vm_compute. reflexivity. Qed.

(* the instance of the theorem on it: not vacuous (both files are there and readable), not trivial (g's grew) *)
Example hm_g_grew : hist_le_sym hm_hg hm_hg' /\ hm_hg <> hm_hg' /\ alookup sym_eqb hm_hg' hm_k2 = Some [hm_st "2"].
Proof.
  split; [|split; [discriminate | vm_compute; reflexivity]].
  destruct (build_keeps_every_record_sym hm_w RULES_PATH None _ (SRule hm_g) hm_hg hm_before eq_refl)
    as (hs' & h' & E1 & E2 & L).
  rewrite hm_after in E1. injection E1 as <-. vm_compute in E2. injection E2 as <-. exact L.
Qed.

(* every crash point of that build *)
Example hm_every_crash_point : forall k,
  hists_le_sym hm_w (run_acts_sym (firstn k (build_acts_sym hm_w RULES_PATH None)) hm_w).
Proof.
  intro k. apply (build_histories_only_grow_sym hm_w RULES_PATH None _ (skipn k (build_acts_sym hm_w RULES_PATH None))).
  symmetry. apply firstn_skipn.
Qed.

Example hm_crash_points :
  map (fun w => option_map (map (fun e => (fst e, match snd e with SF_ok h => Some (List.length h) | SF_bad => None end)))
                           (rd_hist (w_rd w)))
      (crash_states sym_eqb SRule (build_acts_sym hm_w RULES_PATH None) hm_w)
  = repeat (Some [(SRule hm_f, Some 1); (SRule hm_g, Some 1)]) 6 ++ repeat (Some [(SRule hm_f, Some 1); (SRule hm_g, Some 2)]) 2.
Proof. vm_compute. reflexivity. Qed.

(* M4 on it: the one history file written is g's, from g's own file *)
Example hm_writes : filter (fun a => match a with AWriteHist _ _ => true | _ => false end) (build_acts_sym hm_w RULES_PATH None)
                    = [AWriteHist hm_g hm_hg'].
Proof. vm_compute. reflexivity. Qed.

Example hm_g_from_its_own :
  exists w1 tbl pack n,
    init_dir sym hm_w = Ok (w1, tbl) /\ get_nodes sym w1 RULES_PATH None = Ok pack /\ In n (p_nodes pack) /\ hm_g = n_rule n /\
    read_history sym sym_eqb SRule w1 hm_g = Some hm_hg /\ hist_le_sym hm_hg hm_hg' /\ hist_diff1_sym hm_hg hm_hg'.
Proof.
  assert (In (AWriteHist hm_g hm_hg') (build_acts_sym hm_w RULES_PATH None)) as Hin.
  { assert (In (AWriteHist hm_g hm_hg') [AWriteHist hm_g hm_hg']) as H by (left; reflexivity).
    rewrite <- hm_writes in H. exact (proj1 (proj1 (filter_In _ _ _) H)). }
  apply build_writes_each_history_from_its_own_sym in Hin as (w1 & tbl & pack & n & h & Hi & Hg & Hn & Hr & Hrd & Hle & Hd).
  assert (h = hm_hg) as ->.
  { vm_compute in Hi. injection Hi as <- _. vm_compute in Hrd. injection Hrd as <-. reflexivity. }
  exists w1, tbl, pack, n. repeat (split; [assumption|]). assumption.
Qed.

(* M5 on it: the order in which g's thread works before f's, and a fine-grained run in which they alternate *)
Example hm_ord :
  rd_hist (w_rd (o_world (build_ord sym_eqb SContent SList SRule [0; 2; 1] hm_w RULES_PATH None)))
  = Some [(SRule hm_f, SF_ok hm_hf); (SRule hm_g, SF_ok hm_hg')].
Proof. vm_compute. reflexivity. Qed.

Example hm_fine :
  rd_hist (w_rd (o_world (build_fine sym_eqb SContent SList SRule [0; 2; 1; 2; 1; 2; 1; 2; 1; 2; 1] hm_w RULES_PATH None)))
  = Some [(SRule hm_f, SF_ok hm_hf); (SRule hm_g, SF_ok hm_hg')].
Proof. vm_compute. reflexivity. Qed.

(* ---------- the seeded mutants (C04-4, C13-4) ---------- *)

(* build_acts with the actions of main's join loop left open *)
Definition build_acts_with (J : list (option rule * thread_result sym) -> list (act sym))
           (w : world sym) (rp : bytes) (goal : option bytes) : list (act sym) :=
  init_acts w ++
  match init_dir sym w with
  | Err _ => []
  | Ok (w1, t) =>
      match get_nodes sym w1 rp goal with
      | Err _ => []
      | Ok pack =>
          let t_rest := table_rest sym SContent t pack in
          let st0 := mk_rs sym (write_table sym w1 t_rest) t [] [] [] [] in
          let st1 := fold_left (run_leaf sym sym_eqb SContent) (p_leaves pack) st0 in
          AWriteTable t_rest ::
          run_nodes_acts sym sym_eqb SContent SList SRule st1 (p_nodes pack) ++
          match run_nodes sym sym_eqb SContent SList SRule st1 (p_nodes pack) with
          | None => []
          | Some st2 =>
              let js := fold_left (join_one sym sym_eqb SRule) (rs_results sym st2)
                                  (mk_js sym (rs_world sym st2) (rs_table sym st2) [] []) in
              J (rs_results sym st2) ++ [AWriteTable (js_table sym js)]
          end
      end
  end.

Lemma build_acts_with_join : forall w rp goal, build_acts_with (join_acts sym) w rp goal = build_acts_sym w rp goal.
Proof. reflexivity. Qed.

(* the mutant: the failed threads drop out first, then the rule tickets of the plan are zipped with the histories
   that came back *)
Definition join_acts_shifted (results : list (option rule * thread_result sym)) : list (act sym) :=
  let rules := flat_map (fun res : option rule * thread_result sym =>
                           match fst res with Some r => [r] | None => [] end) results in
  let hists := flat_map (fun res : option rule * thread_result sym =>
                           match res with
                           | (Some _, TOk wr) => match wr_history wr with Some h => [h] | None => [] end
                           | _ => []
                           end) results in
  map (fun rh : rule * history sym => AWriteHist (fst rh) (snd rh)) (combine rules hists).

Definition hm_shifted_world : world sym :=
  run_acts_sym (build_acts_with join_acts_shifted hm_w RULES_PATH None) hm_w.

(* g's entries are filed under f's name; f's own record is gone, g's new entry is not in g's file *)
Example hm_shifted_misfiles :
  rd_hist (w_rd hm_shifted_world) = Some [(SRule hm_f, SF_ok hm_hg'); (SRule hm_g, SF_ok hm_hg)].
Proof. vm_compute. reflexivity. Qed.

Theorem hm_shifted_refuted : ~ hists_le_sym hm_w hm_shifted_world.
Proof.
  intro H. destruct (H _ (SRule hm_f) hm_hf hm_before eq_refl) as (hs' & h' & E1 & E2 & L).
  rewrite hm_shifted_misfiles in E1. injection E1 as <-. vm_compute in E2. injection E2 as <-.
  specialize (L hm_k1 [hm_st "1x"] eq_refl). vm_compute in L. discriminate.
Qed.

(* the mutant's write is not one the model can make: f's thread did not succeed *)
Example hm_shifted_not_own :
  In (AWriteHist hm_f hm_hg') (build_acts_with join_acts_shifted hm_w RULES_PATH None) /\
  ~ In (AWriteHist hm_f hm_hg') (build_acts_sym hm_w RULES_PATH None).
Proof.
  split.
  - vm_compute. do 5 right. left. reflexivity.
  - intro Hin. apply build_writes_each_history_from_its_own_sym in Hin as (w1 & tbl & pack & n & h & Hi & _ & _ & _ & Hrd & Hle & _).
    vm_compute in Hi. injection Hi as <- _. vm_compute in Hrd. injection Hrd as <-.
    specialize (Hle hm_k1 [hm_st "1x"] eq_refl). vm_compute in Hle. discriminate.
Qed.
