(* Small additions for Properties/C02.v. *)
From Ruler Require Import Bytes AList RuleSyntax World Cmdlang Work Build BuildFacts.

Section Extra.
  Variable T : Type.
  Variable teqb : T -> T -> bool.
  Variable hc : bytes -> T.
  Hypothesis teqb_spec : forall a b : T, teqb a b = true <-> a = b.

  (* a target is declared NeedsRebuild only when the cache does not hold its remembered content *)
  Lemma resolve_single_needs_cache_miss (w : world T) r p a w' :
    resolve_single teqb hc w r p a = Ok (NeedsRebuild, w') ->
    exists w0,
      ((w0 = w /\ fget w p = None) \/
       (exists cur, get_file_ticket teqb hc w p a = Some cur /\ cur <> r /\ back_up teqb w cur p = Some w0)) /\
      restore teqb w0 r p = RNotThere /\ w' = w0.
  Proof.
    unfold resolve_single, restore_or_rebuild.
    destruct (get_file_ticket teqb hc w p a) as [cur|] eqn:EG.
    - destruct (teqb r cur) eqn:E; [discriminate|].
      destruct (back_up teqb w cur p) as [w1|] eqn:EB; [|discriminate].
      destruct (restore teqb w1 r p) as [w2| |] eqn:ER; try discriminate.
      intro H; injection H as <-. exists w1. split; [|split; [exact ER | reflexivity]].
      right. exists cur. split; [reflexivity|]. split; [|exact EB].
      intro E'. subst cur. assert (teqb r r = true) as Hrr by (apply teqb_spec; reflexivity). congruence.
    - destruct (restore teqb w r p) as [w2| |] eqn:ER; try discriminate.
      intro H; injection H as <-. exists w. split; [|split; [exact ER | reflexivity]].
      left. split; [reflexivity|].
      unfold get_file_ticket in EG. destruct (fget w p) as [f|]; [|reflexivity].
      destruct (shortcut teqb hc f a); discriminate.
  Qed.

  (* restore misses exactly when the cache has no entry under that ticket *)
  Lemma restore_not_there_iff (w : world T) r p :
    restore teqb w r p = RNotThere <-> exists c, cache_of w = Some c /\ alookup teqb c r = None.
  Proof.
    unfold restore. destruct (cache_of w) as [c|].
    - destruct (alookup teqb c r) as [f|] eqn:E; split.
      + discriminate.
      + intros (c' & [= <-] & H). congruence.
      + intros _. eauto.
      + reflexivity.
    - split; [discriminate|]. intros (c & H & _). discriminate.
  Qed.
End Extra.

From Ruler Require Import BytesFacts InvFacts.

Lemma restore_moves_file :
  forall (T : Type) (teqb : T -> T -> bool) (w : world T) t p w',
    (forall a b : T, teqb a b = true <-> a = b) ->
    restore teqb w t p = RDone w' ->
    exists c f, cache_of w = Some c /\ alookup teqb c t = Some f /\ fget w' p = Some f.
Proof.
  intros T teqb w t p w' _ Hr. unfold restore in Hr.
  destruct (cache_of w) as [c|] eqn:Ec; [|discriminate].
  destruct (alookup teqb c t) as [f|] eqn:Ef; [|discriminate].
  injection Hr as <-. exists c, f. split; [reflexivity|]. split; [exact Ef|].
  unfold fget. cbn. apply (alookup_ainsert_eq bytes_eqb bytes_eqb_eq).
Qed.
