(* The machine invariant of the iterative depth-first sorter and its preservation. *)
From Coq Require Import List Permutation Bool Arith Relations.
From Ruler Require Import Tactics Bytes SortList BytesFacts SortListFacts RuleSyntax TopoSort TopoSpec
     TopoSortBasic TopoSortBuild.
Import ListNotations.
Local Open Scope nat_scope.

(* ================================================================== *)
(* generic list facts                                                  *)
(* ================================================================== *)

(* a occurs strictly before (an occurrence of) b *)
Fixpoint before {A} (l : list A) (a b : A) : Prop :=
  match l with
  | [] => False
  | x :: r => (x = a /\ In b r) \/ before r a b
  end.

Lemma before_nil {A} (a b : A) : before [] a b <-> False.
Proof. reflexivity. Qed.

Lemma before_cons {A} (x : A) l a b : before (x :: l) a b <-> (x = a /\ In b l) \/ before l a b.
Proof. reflexivity. Qed.

Lemma before_app {A} (l1 l2 : list A) a b :
  before (l1 ++ l2) a b <-> before l1 a b \/ (In a l1 /\ In b l2) \/ before l2 a b.
Proof.
  induction l1 as [|x l1 IH]; cbn [app before In].
  - tauto.
  - rewrite IH, in_app_iff. tauto.
Qed.

Lemma before_in_l {A} (l : list A) a b : before l a b -> In a l.
Proof. induction l as [|x l IH]; cbn [before In]; [tauto|]. intros [[-> _]|H]; auto. Qed.

Lemma before_in_r {A} (l : list A) a b : before l a b -> In b l.
Proof. induction l as [|x l IH]; cbn [before In]; [tauto|]. intros [[_ H]|H]; auto. Qed.

Ltac bf := repeat (rewrite ?before_app, ?before_cons, ?before_nil, ?in_app_iff in *; cbn [In] in * ).
Ltac bfg := repeat (rewrite ?before_app, ?before_cons, ?before_nil, ?in_app_iff; cbn [In]).
Ltac bfh H := repeat (rewrite ?before_app, ?before_cons, ?before_nil, ?in_app_iff in H; cbn [In] in H).
Ltac bft := bfg; tauto.

Lemma nat_mem_in x l : nat_mem x l = true <-> In x l.
Proof.
  unfold nat_mem. rewrite existsb_exists. split.
  - intros (y & Hy & E). apply Nat.eqb_eq in E. subst; exact Hy.
  - intro H. exists x. split; [exact H | apply Nat.eqb_refl].
Qed.

Lemma nat_remove_notin x l : ~ In x l -> nat_remove x l = l.
Proof.
  unfold nat_remove. induction l as [|y l IH]; cbn [filter In]; intro H; [reflexivity|].
  destruct (Nat.eqb x y) eqn:E; cbn [negb].
  - apply Nat.eqb_eq in E. exfalso. apply H. auto.
  - rewrite IH; [reflexivity | tauto].
Qed.

Lemma nat_remove_head x l : nat_remove x (x :: l) = nat_remove x l.
Proof. unfold nat_remove. cbn [filter]. rewrite Nat.eqb_refl. reflexivity. Qed.

Lemma nat_remove_app x l1 l2 : nat_remove x (l1 ++ l2) = nat_remove x l1 ++ nat_remove x l2.
Proof. apply filter_app. Qed.

Lemma take_at_spec {A} (l : list (option A)) i x l' :
  take_at l i = (x, l') ->
  x = match nth_error l i with Some y => y | None => None end /\
  length l' = length l /\
  forall k, nth_error l' k =
            if Nat.eqb k i then match nth_error l i with Some _ => Some None | None => None end
            else nth_error l k.
Proof.
  revert i x l'; induction l as [|y l IH]; intros i x l' H.
  - destruct i; cbn [take_at] in H; injection H as <- <-; repeat split; intros k;
      destruct k; cbn [nth_error]; destruct (Nat.eqb _ _); reflexivity.
  - destruct i as [|i]; cbn [take_at] in H.
    + injection H as <- <-. repeat split. intros [|k]; reflexivity.
    + destruct (take_at l i) as [z r'] eqn:E. injection H as <- <-.
      specialize (IH _ _ _ E) as (H1 & H2 & H3). cbn [nth_error length]. repeat split; auto.
      intros [|k]; cbn [nth_error Nat.eqb]; [reflexivity | apply H3].
Qed.

Lemma remove_pending_some bi st f st' :
  remove_pending bi st = Some (f, st') ->
  exists p q, st = p ++ f :: q /\ st' = p ++ q /\ fr_index f = bi /\ fr_visited f = false.
Proof.
  revert f st'; induction st as [|g st IH]; intros f st' H; cbn [remove_pending] in H; [discriminate|].
  destruct (Nat.eqb (fr_index g) bi && negb (fr_visited g)) eqn:E.
  - injection H as -> ->. apply andb_true_iff in E as [E1 E2]. apply Nat.eqb_eq in E1.
    apply negb_true_iff in E2. exists [], st'. auto.
  - destruct (remove_pending bi st) as [[h r']|] eqn:Er; [|discriminate].
    injection H as -> <-. destruct (IH _ _ eq_refl) as (p & q & -> & -> & H1 & H2).
    exists (g :: p), q. auto.
Qed.

Lemma remove_pending_none bi st :
  remove_pending bi st = None -> forall f, In f st -> fr_index f = bi -> fr_visited f = true.
Proof.
  induction st as [|g st IH]; intros H f Hf Hi; cbn [remove_pending In] in *; [contradiction|].
  destruct (Nat.eqb (fr_index g) bi && negb (fr_visited g)) eqn:E; [discriminate|].
  destruct (remove_pending bi st) as [[h r']|] eqn:Er; [discriminate|].
  destruct Hf as [->|Hf]; [|apply IH; auto].
  apply andb_false_iff in E as [E|E].
  - apply Nat.eqb_neq in E. contradiction.
  - apply negb_false_iff in E. exact E.
Qed.

(* ---------- the leaf set ---------- *)

Fixpoint ssorted (l : list bytes) : Prop :=
  match l with
  | [] => True
  | x :: r => (forall y, In y r -> bytes_compare x y = Lt) /\ ssorted r
  end.

Lemma set_insert_in x l y : In y (set_insert x l) <-> y = x \/ In y l.
Proof.
  induction l as [|z l IH]; cbn [set_insert In].
  - split; [intros [H|[]]; auto | intros [H|[]]; auto].
  - destruct (bytes_compare x z) eqn:E; cbn [In].
    + apply bytes_compare_eq in E. subst. split; [auto | intros [->|H]; auto].
    + split; [intros [H|H]; auto | intros [H|H]; auto].
    + rewrite IH. split; [intros [H|[H|H]]; auto | intros [H|[H|H]]; auto].
Qed.

Lemma set_insert_ssorted x l : ssorted l -> ssorted (set_insert x l).
Proof.
  induction l as [|z l IH]; cbn [set_insert ssorted]; intro H.
  - split; [intros y []| exact I].
  - destruct H as [H1 H2]. destruct (bytes_compare x z) eqn:E; cbn [ssorted].
    + split; assumption.
    + split; [|split; assumption]. intros y [<-|Hy]; [exact E|].
      eapply bytes_compare_lt_trans; [exact E | apply H1; exact Hy].
    + split; [|apply IH; exact H2]. intros y Hy. apply set_insert_in in Hy as [->|Hy]; [|apply H1; exact Hy].
      rewrite bytes_compare_antisym, E. reflexivity.
Qed.

Lemma ssorted_NoDup l : ssorted l -> NoDup l.
Proof.
  induction l as [|x l IH]; cbn [ssorted]; intro H; [constructor|].
  destruct H as [H1 H2]. constructor; [|apply IH; exact H2].
  intro Hi. specialize (H1 x Hi). rewrite bytes_compare_refl in H1. discriminate.
Qed.

(* ---------- index_of / final_get ---------- *)

Lemma index_of_some x l : forall k i, index_of x l k = Some i -> k <= i /\ nth_error l (i - k) = Some x.
Proof.
  induction l as [|y l IH]; intros k i H; cbn [index_of] in H; [discriminate|].
  destruct (bytes_eqb x y) eqn:E.
  - injection H as <-. apply bytes_eqb_eq in E. subst. rewrite Nat.sub_diag. auto.
  - apply IH in H as [H1 H2]. split; [lia|]. replace (i - k) with (S (i - S k)) by lia. exact H2.
Qed.

Lemma index_of_none x l : forall k, index_of x l k = None -> ~ In x l.
Proof.
  induction l as [|y l IH]; intros k H; cbn [index_of In] in *; [tauto|].
  destruct (bytes_eqb x y) eqn:E; [discriminate|].
  apply bytes_eqb_neq in E. intros [Hy|Hy]; [congruence | eapply IH; eauto].
Qed.

Definition idxs (l : list frame) : list nat := map fr_index l.

Fixpoint final_of (order : list frame) : list (nat * nat) :=
  match order with
  | [] => []
  | f :: o => (fr_index f, length o) :: final_of o
  end.

Lemma final_get_final_of a g o :
  NoDup (idxs (a ++ g :: o)) -> final_get (final_of (a ++ g :: o)) (fr_index g) = length o.
Proof.
  induction a as [|f a IH]; cbn [app final_of final_get idxs map]; intro H.
  - rewrite Nat.eqb_refl. reflexivity.
  - inversion H as [|? ? Hn Hd]; subst.
    destruct (Nat.eqb (fr_index f) (fr_index g)) eqn:E.
    + apply Nat.eqb_eq in E. exfalso. apply Hn. rewrite E. apply in_map. apply in_or_app. right; left; reflexivity.
    + apply IH. exact Hd.
Qed.

Lemma nth_error_rev_split {A} (a : list A) g o : nth_error (rev (a ++ g :: o)) (length o) = Some g.
Proof.
  rewrite rev_app_distr. cbn [rev]. rewrite <- app_assoc. cbn [app].
  rewrite nth_error_app2 by (rewrite rev_length; lia). rewrite rev_length, Nat.sub_diag. reflexivity.
Qed.

Lemma nth_error_rev_inv {A} (l : list A) j f :
  nth_error (rev l) j = Some f -> exists a o, l = a ++ f :: o /\ length o = j.
Proof.
  intro H. apply nth_error_split in H as (l1 & l2 & E & Hl).
  exists (rev l2), (rev l1). split; [|rewrite rev_length; exact Hl].
  rewrite <- (rev_involutive l), E, rev_app_distr. cbn [rev]. rewrite <- app_assoc. reflexivity.
Qed.

Lemma in_mid {A} (x a : A) l1 l2 : In x (l1 ++ a :: l2) <-> In x (a :: l1 ++ l2).
Proof. rewrite !in_app_iff. cbn [In]. rewrite in_app_iff. tauto. Qed.


Lemma NoDup_map_inj_on {A B C} (h : A -> B) (k : A -> C) l :
  NoDup (map h l) -> (forall x y, In x l -> In y l -> k x = k y -> h x = h y) -> NoDup (map k l).
Proof.
  induction l as [|a l IH]; cbn [map]; intros Hnd Hinj; [constructor|].
  inversion Hnd as [|? ? Hn Hd]; subst. constructor.
  - intro Hi. apply in_map_iff in Hi as (y & Hy & Hyl). apply Hn.
    apply in_map_iff. exists y. split; [|exact Hyl]. apply Hinj; auto; [right; exact Hyl | left; reflexivity].
  - apply IH; [exact Hd|]. intros x y Hx Hy. apply Hinj; right; assumption.
Qed.

Lemma Forall2_map_r {A B} (P : A -> B -> Prop) (F : A -> B) l :
  (forall x, In x l -> P x (F x)) -> Forall2 P l (map F l).
Proof.
  induction l as [|a l IH]; intro H; cbn [map]; constructor.
  - apply H; left; reflexivity.
  - apply IH. intros x Hx. apply H; right; exact Hx.
Qed.

Definition node_of (m : machine) (f : frame) : node :=
  mk_node (r_targets (fr_rule f))
          (map (fun s =>
                  match index_of s (m_leaves m) O with
                  | Some i => Leaf i
                  | None =>
                      match tbi_get (m_tbi m) s with
                      | Some (bi, si) => Pair (final_get (m_final m) bi) si
                      | None => Leaf O
                      end
                  end) (r_sources (fr_rule f)))
          (r_command (fr_rule f))
          (fr_rule f).

Lemma get_result_eq m : get_result m = mk_pack (m_leaves m) (map (node_of m) (rev (m_order m))).
Proof. reflexivity. Qed.

(* ================================================================== *)
(* the invariant                                                       *)
(* ================================================================== *)

Definition rule0 : rule := mk_rule [] [] [].
Definition unvisited (f : frame) : Prop := fr_visited f = false.

Section Inv.
  Variable rs : list rule.
  Variable goal : option bytes.
  Variable t : tbi.
  Local Notation srs := (sort_rules rs).
  Local Notation crs := (map canon_rule (sort_rules rs)).
  Local Notation n := (length (sort_rules rs)).

  Hypothesis Ht_some : forall s b i, tbi_get t s = Some (b, i) <->
                                     exists r, nth_error crs b = Some r /\ nth_error (r_targets r) i = Some s.
  Hypothesis Ht_none : forall s, tbi_get t s = None <-> ~ In s (all_targets crs).
  Hypothesis Hnd : NoDup (all_targets crs).

  Definition orig (i : nat) : rule := nth i srs rule0.
  Definition fwf (f : frame) : Prop := nth_error crs (fr_index f) = Some (fr_rule f).
  Definition iscope (i : nat) : Prop := i < n /\ in_scope rs goal (orig i).
  Definition tdep (i j : nat) : Prop := clos_trans rule (depends rs) (orig i) (orig j).

  Lemma crs_nth i r : nth_error crs i = Some r -> i < n /\ r = canon_rule (orig i) /\ In (orig i) rs.
  Proof.
    intro H. rewrite nth_error_map in H. destruct (nth_error srs i) as [r0|] eqn:E; [|discriminate].
    cbn [option_map] in H. injection H as <-.
    assert (i < n) as Hlt by (apply nth_error_Some; congruence).
    unfold orig. rewrite (nth_error_nth _ _ rule0 E). repeat split; auto.
    apply sort_rules_in. eapply nth_error_In; eauto.
  Qed.

  Lemma crs_nth_lt i : i < n -> nth_error crs i = Some (canon_rule (orig i)).
  Proof.
    intro H. rewrite nth_error_map. unfold orig. rewrite (nth_error_nth' _ rule0 H). reflexivity.
  Qed.

  Lemma orig_in i : i < n -> In (orig i) rs.
  Proof. intro H. apply crs_nth_lt in H. apply crs_nth in H. tauto. Qed.

  Lemma fwf_facts f : fwf f ->
    fr_index f < n /\ fr_rule f = canon_rule (orig (fr_index f)) /\ In (orig (fr_index f)) rs.
  Proof. apply crs_nth. Qed.

  Lemma fwf_sources f s : fwf f -> (In s (r_sources (fr_rule f)) <-> In s (r_sources (orig (fr_index f)))).
  Proof.
    intro H. apply fwf_facts in H as (_ & -> & _). cbn [canon_rule r_sources]. apply sort_strs_in.
  Qed.

  Lemma tbi_target s b i : tbi_get t s = Some (b, i) ->
    b < n /\ In (orig b) rs /\ nth_error (r_targets (canon_rule (orig b))) i = Some s /\ In s (r_targets (orig b)).
  Proof.
    intro H. apply Ht_some in H as (r & H1 & H2). apply crs_nth in H1 as (H3 & -> & H4).
    repeat split; auto. apply nth_error_In in H2. cbn [canon_rule r_targets] in H2.
    apply (proj1 (sort_strs_in _ _)) in H2. exact H2.
  Qed.

  Lemma src_dep f s b i : fwf f -> In s (r_sources (fr_rule f)) -> tbi_get t s = Some (b, i) ->
    b < n /\ depends rs (orig (fr_index f)) (orig b).
  Proof.
    intros Hf Hs Ht. pose proof (fwf_facts _ Hf) as (H1 & H2 & H3).
    apply (fwf_sources _ _ Hf) in Hs.
    apply tbi_target in Ht as (H4 & H5 & _ & H6).
    split; [exact H4|]. unfold depends. repeat split; auto. exists s; auto.
  Qed.

  Lemma iscope_step i j : iscope i -> j < n -> depends rs (orig i) (orig j) -> iscope j.
  Proof.
    intros [Hi (r0 & Hr0 & Hrt)] Hj Hd. split; [exact Hj|]. exists r0. split; [exact Hr0|].
    eapply rt_trans; [exact Hrt | apply rt_step; exact Hd].
  Qed.

  Definition src_done (VS order : list frame) (leaves : list bytes) (v : frame) (s : bytes) : Prop :=
    match tbi_get t s with
    | None => In s leaves
    | Some (bi, _) => In bi (idxs order) \/ exists g, before VS g v /\ fr_index g = bi
    end.

  Fixpoint ord_ok (order : list frame) : Prop :=
    match order with
    | [] => True
    | f :: o => (forall s bi si, In s (r_sources (fr_rule f)) -> tbi_get t s = Some (bi, si) -> In bi (idxs o))
                /\ ord_ok o
    end.

  Record Inv (base : list nat) (buf : list (option frame)) (VS order : list frame)
         (leaves : list bytes) (final : list (nat * nat)) (ci : nat) (rem : list bytes) : Prop := {
    i_base : incl base (idxs VS ++ idxs order);
    i_buflen : length buf = n;
    i_buf : forall i f, nth_error buf i = Some (Some f) -> fr_index f = i /\ fwf f /\ unvisited f;
    i_wf_vs : Forall fwf VS;
    i_wf_ord : Forall fwf order;
    i_nodup : NoDup (idxs VS ++ idxs order);
    i_disj : forall i f, nth_error buf i = Some (Some f) -> ~ In i (idxs VS ++ idxs order);
    i_cover : forall i, nth_error buf i = Some None -> In i (idxs VS ++ idxs order);
    i_anc : forall f v, before VS f v -> fr_visited v = true -> tdep (fr_index v) (fr_index f);
    i_scope_vs : Forall (fun f => iscope (fr_index f)) VS;
    i_scope_ord : Forall (fun f => iscope (fr_index f)) order;
    i_done : forall v, In v VS -> fr_visited v = true -> forall s, In s (r_sources (fr_rule v)) ->
               (fr_index v = ci /\ In s rem) \/ src_done VS order leaves v s;
    i_ord : ord_ok order;
    i_ord_leaf : forall f, In f order -> forall s, In s (r_sources (fr_rule f)) ->
                   tbi_get t s = None -> In s leaves;
    i_final : final = final_of order;
    i_leaves_sorted : ssorted leaves;
    i_leaves : forall s, In s leaves ->
                 tbi_get t s = None /\ exists i, iscope i /\ In s (r_sources (orig i))
  }.

  (* ---------- a visited frame is popped and emitted ---------- *)
  Lemma inv_visit base buf v st order leaves final ci :
    Inv base buf (v :: st) order leaves final ci [] -> fr_visited v = true ->
    Inv base buf st (v :: order) leaves ((fr_index v, length order) :: final) ci [].
  Proof.
    intros [Hbase Hlen Hbuf Hwv Hwo Hnd' Hdisj Hcov Hanc Hsv Hso Hdone Hord Hol Hfin Hls Hl] Hv.
    assert (Hin : forall i, In i (idxs st ++ idxs (v :: order)) <-> In i (idxs (v :: st) ++ idxs order)).
    { intro i. cbn [idxs map app]. apply in_mid. }
    inversion Hwv as [|? ? Hwv1 Hwv2]; subst. inversion Hsv as [|? ? Hsv1 Hsv2]; subst.
    assert (Hv_notin : ~ In (fr_index v) (idxs st)).
    { cbn [idxs map app] in Hnd'. inversion Hnd' as [|? ? Hn _]; subst. intro Hi. apply Hn.
      apply in_or_app. left. exact Hi. }
    assert (Hsrc : forall s, In s (r_sources (fr_rule v)) ->
                   match tbi_get t s with Some (bi, _) => In bi (idxs order) | None => In s leaves end).
    { intros s Hs. destruct (Hdone v (or_introl eq_refl) Hv s Hs) as [[_ []]|Hd].
      unfold src_done in Hd. destruct (tbi_get t s) as [[bi si]|]; [|exact Hd].
      destruct Hd as [Hd|(g & Hb & Hg)]; [exact Hd|].
      exfalso. apply Hv_notin. apply in_map.
      cbn [before] in Hb. destruct Hb as [[_ H]|H]; [exact H | eapply before_in_r; exact H]. }
    split.
    - intros i Hi. apply Hin. apply Hbase. exact Hi.
    - exact Hlen.
    - exact Hbuf.
    - exact Hwv2.
    - constructor; assumption.
    - cbn [idxs map]. eapply Permutation_NoDup; [apply Permutation_middle|]. exact Hnd'.
    - intros i f Hf Hi. apply Hin in Hi. eapply Hdisj; eauto.
    - intros i Hi. apply Hin. apply Hcov. exact Hi.
    - intros f v' Hb Hv'. apply Hanc; [|exact Hv']. cbn [before]. right. exact Hb.
    - exact Hsv2.
    - constructor; assumption.
    - intros v' Hv'in Hv'vis s Hs. right.
      destruct (Hdone v' (or_intror Hv'in) Hv'vis s Hs) as [[_ []]|Hd].
      unfold src_done in *. destruct (tbi_get t s) as [[bi si]|]; [|exact Hd].
      destruct Hd as [Hd|(g & Hb & Hg)].
      + left. cbn [idxs map In]. right. exact Hd.
      + cbn [before] in Hb. destruct Hb as [[<- _]|Hb].
        * left. cbn [idxs map In]. left. exact Hg.
        * right. exists g. auto.
    - cbn [ord_ok]. split; [|exact Hord]. intros s bi si Hs Ht. specialize (Hsrc s Hs). rewrite Ht in Hsrc. exact Hsrc.
    - intros f [<-|Hf] s Hs Ht; [|eapply Hol; eauto]. specialize (Hsrc s Hs). rewrite Ht in Hsrc. exact Hsrc.
    - cbn [final_of]. reflexivity.
    - exact Hls.
    - exact Hl.
  Qed.

  (* ---------- an unvisited frame is popped: it becomes the visited frame being expanded ---------- *)
  Lemma inv_begin base buf cur st order leaves final ci :
    Inv base buf (cur :: st) order leaves final ci [] ->
    Inv base buf (visit cur :: st) order leaves final (fr_index cur) (r_sources (fr_rule cur)).
  Proof.
    intros [Hbase Hlen Hbuf Hwv Hwo Hnd' Hdisj Hcov Hanc Hsv Hso Hdone Hord Hol Hfin Hls Hl].
    change (idxs (cur :: st)) with (idxs (visit cur :: st)) in *.
    inversion Hwv as [|? ? Hwv1 Hwv2]; subst. inversion Hsv as [|? ? Hsv1 Hsv2]; subst.
    split; auto.
    - intros f v Hb Hv. cbn [before] in Hb. destruct Hb as [[<- Hin]|Hb].
      + change (fr_index (visit cur)) with (fr_index cur). apply Hanc; [|exact Hv].
        cbn [before]. left. auto.
      + apply Hanc; [|exact Hv]. cbn [before]. right. exact Hb.
    - intros v [<-|Hin] Hv s Hs.
      + left. split; [reflexivity | exact Hs].
      + right. destruct (Hdone v (or_intror Hin) Hv s Hs) as [[_ []]|Hd].
        unfold src_done in *. destruct (tbi_get t s) as [[bi si]|]; [|exact Hd].
        destruct Hd as [Hd|(g & Hb & Hg)]; [left; exact Hd|]. right.
        cbn [before] in Hb. destruct Hb as [[<- Hb]|Hb].
        * exists (visit cur). split; [|exact Hg]. cbn [before]. left. auto.
        * exists g. split; [|exact Hg]. cbn [before]. right. exact Hb.
  Qed.

  (* ---------- expansion: a source that no rule produces ---------- *)
  Lemma inv_leaf base buf VS order leaves final ci s rest :
    Inv base buf VS order leaves final ci (s :: rest) ->
    tbi_get t s = None -> iscope ci -> In s (r_sources (orig ci)) ->
    Inv base buf VS order (set_insert s leaves) final ci rest.
  Proof.
    intros [Hbase Hlen Hbuf Hwv Hwo Hnd' Hdisj Hcov Hanc Hsv Hso Hdone Hord Hol Hfin Hls Hl] Ht Hci Hsrc.
    split; auto.
    - intros v Hin Hv s' Hs'. destruct (Hdone v Hin Hv s' Hs') as [[Hi [<-|Hr]]|Hd].
      + right. unfold src_done. rewrite Ht. apply set_insert_in. left; reflexivity.
      + left. auto.
      + right. unfold src_done in *. destruct (tbi_get t s') as [[bi si]|]; [exact Hd|].
        apply set_insert_in. right; exact Hd.
    - intros f Hf s' Hs' Ht'. apply set_insert_in. right. eapply Hol; eauto.
    - apply set_insert_ssorted. exact Hls.
    - intros s' Hs'. apply set_insert_in in Hs' as [->|Hs']; [|apply Hl; exact Hs'].
      split; [exact Ht|]. exists ci. auto.
  Qed.

  (* ---------- expansion: a source whose frame is already emitted or already in the reverser ---------- *)
  Lemma inv_skip base buf VS order leaves final ci s rest bi si :
    Inv base buf VS order leaves final ci (s :: rest) ->
    tbi_get t s = Some (bi, si) ->
    (In bi (idxs order) \/
     exists g, fr_index g = bi /\ forall v, In v VS -> fr_visited v = true -> before VS g v) ->
    Inv base buf VS order leaves final ci rest.
  Proof.
    intros [Hbase Hlen Hbuf Hwv Hwo Hnd' Hdisj Hcov Hanc Hsv Hso Hdone Hord Hol Hfin Hls Hl] Ht Hor.
    split; auto.
    intros v Hin Hv s' Hs'. destruct (Hdone v Hin Hv s' Hs') as [[Hi [<-|Hr]]|Hd].
    - right. unfold src_done. rewrite Ht. destruct Hor as [Ho|(g & Hg & Hb)]; [left; exact Ho|].
      right. exists g. split; [apply Hb; assumption | exact Hg].
    - left. auto.
    - right. exact Hd.
  Qed.

  Lemma unv_contra R v : Forall unvisited R -> In v R -> fr_visited v = true -> False.
  Proof.
    intros HR Hin Hv. rewrite Forall_forall in HR. specialize (HR v Hin). unfold unvisited in HR. congruence.
  Qed.

  (* ---------- expansion: a source whose frame is still in the buffer ---------- *)
  Lemma inv_take base buf R c st order leaves final s rest bi si f buf' :
    Inv base buf (R ++ c :: st) order leaves final (fr_index c) (s :: rest) ->
    Forall unvisited R -> fr_visited c = true -> In s (r_sources (fr_rule c)) ->
    tbi_get t s = Some (bi, si) -> take_at buf bi = (Some f, buf') ->
    Inv base buf' (R ++ set_sub f si :: c :: st) order leaves final (fr_index c) rest.
  Proof.
    intros [Hbase Hlen Hbuf Hwv Hwo Hnd' Hdisj Hcov Hanc Hsv Hso Hdone Hord Hol Hfin Hls Hl]
           HR Hc Hs Ht Htk.
    apply take_at_spec in Htk as (Hx & Hlen' & Hnth).
    assert (Hbi : nth_error buf bi = Some (Some f)).
    { destruct (nth_error buf bi) as [y|]; [subst y; reflexivity | discriminate]. }
    rewrite Hbi in Hnth.
    destruct (Hbuf _ _ Hbi) as (Hfi & Hfw & Hfu).
    set (f' := set_sub f si).
    assert (Hf'i : fr_index f' = bi) by exact Hfi.
    assert (Hf'u : fr_visited f' = false) by exact Hfu.
    assert (Hin : forall i, In i (idxs (R ++ f' :: c :: st) ++ idxs order) <->
                            i = bi \/ In i (idxs (R ++ c :: st) ++ idxs order)).
    { intro i. unfold idxs. rewrite !map_app, !in_app_iff. cbn [map In]. rewrite Hf'i.
      split; [intros [[H|[H|H]]|H] | intros [H|[[H|H]|H]]]; auto. }
    assert (Hold : forall i g, nth_error buf' i = Some (Some g) -> i <> bi /\ nth_error buf i = Some (Some g)).
    { intros i g Hg. rewrite Hnth in Hg. destruct (Nat.eqb i bi) eqn:E; [discriminate|].
      apply Nat.eqb_neq in E. auto. }
    pose proof (proj1 (Forall_app _ _ _) Hwv) as [HwR Hwcs].
    pose proof (proj1 (Forall_app _ _ _) Hsv) as [HsR Hscs].
    pose proof (Forall_inv Hwcs) as Hwc. pose proof (Forall_inv_tail Hwcs) as Hwst.
    pose proof (Forall_inv Hscs) as Hsc. pose proof (Forall_inv_tail Hscs) as Hsst. cbv beta in Hsc.
    destruct (src_dep c s _ _ Hwc Hs Ht) as [Hbn Hdep].
    split; auto.
    - intros i Hi. apply Hin. right. apply Hbase. exact Hi.
    - congruence.
    - intros i g Hg. apply Hold in Hg as [_ Hg]. apply Hbuf; exact Hg.
    - apply Forall_app. split; [exact HwR|]. constructor; [exact Hfw|]. constructor; assumption.
    - eapply Permutation_NoDup with (l := bi :: (idxs (R ++ c :: st) ++ idxs order)).
      + unfold idxs. rewrite !map_app. cbn [map]. rewrite Hf'i. rewrite <- !app_assoc. cbn [app].
        apply Permutation_middle.
      + constructor; [|exact Hnd']. eapply Hdisj; eauto.
    - intros i g Hg Hi. apply Hold in Hg as [Hne Hg]. apply Hin in Hi as [Hi|Hi]; [contradiction|].
      eapply Hdisj; eauto.
    - intros i Hi. apply Hin. rewrite Hnth in Hi. destruct (Nat.eqb i bi) eqn:E.
      + apply Nat.eqb_eq in E. left; exact E.
      + right. apply Hcov. exact Hi.
    - intros g v Hb Hv. bfh Hb.
      destruct Hb as [Hb|[[Hg [Hb|[Hb|Hb]]]|[[Hg [Hb|Hb]]|[[Hg Hb]|Hb]]]].
      + exfalso. eapply unv_contra; [exact HR | eapply before_in_r; exact Hb | exact Hv].
      + subst v. congruence.
      + apply Hanc; [|exact Hv]. clear - Hg Hb. bft.
      + apply Hanc; [|exact Hv]. clear - Hg Hb. bft.
      + subst g v. rewrite Hf'i. apply t_step. exact Hdep.
      + subst g. rewrite Hf'i. eapply t_trans; [|apply t_step; exact Hdep].
        apply Hanc; [|exact Hv]. clear - Hb. bft.
      + apply Hanc; [|exact Hv]. clear - Hg Hb. bft.
      + apply Hanc; [|exact Hv]. clear - Hb. bft.
    - apply Forall_app. split; [exact HsR|]. constructor; [|constructor; assumption].
      rewrite Hf'i. eapply iscope_step; eauto.
    - intros v Hin' Hv s' Hs'.
      assert (Hv' : c = v \/ In v st).
      { bfh Hin'. destruct Hin' as [Hi|[Hi|Hi]]; [| |exact Hi].
        - exfalso. eapply unv_contra; eauto.
        - subst v. congruence. }
      assert (Hvold : In v (R ++ c :: st)) by (clear - Hv'; bft).
      destruct (Hdone v Hvold Hv s' Hs') as [[Hi [<-|Hr]]|Hd].
      + right. unfold src_done. rewrite Ht. right. exists f'. split; [|exact Hf'i]. clear - Hv'. bft.
      + left. auto.
      + right. unfold src_done in *. destruct (tbi_get t s') as [[b' i']|]; [|exact Hd].
        destruct Hd as [Hd|(g & Hb & Hg)]; [left; exact Hd|]. right. exists g. split; [|exact Hg].
        clear - Hb. bfh Hb. bft.
  Qed.

  (* ---------- expansion: a source whose frame is pending lower in the stack ---------- *)
  Lemma inv_move base buf R c p u q order leaves final s rest si :
    Inv base buf (R ++ c :: p ++ u :: q) order leaves final (fr_index c) (s :: rest) ->
    Forall unvisited R -> fr_visited c = true -> In s (r_sources (fr_rule c)) ->
    tbi_get t s = Some (fr_index u, si) -> fr_visited u = false ->
    Inv base buf (R ++ set_sub u si :: c :: p ++ q) order leaves final (fr_index c) rest.
  Proof.
    intros [Hbase Hlen Hbuf Hwv Hwo Hnd' Hdisj Hcov Hanc Hsv Hso Hdone Hord Hol Hfin Hls Hl]
           HR Hc Hs Ht Hu.
    set (f' := set_sub u si).
    assert (Hf'i : fr_index f' = fr_index u) by reflexivity.
    assert (Hf'u : fr_visited f' = false) by exact Hu.
    assert (Hperm : Permutation (idxs (R ++ f' :: c :: p ++ q)) (idxs (R ++ c :: p ++ u :: q))).
    { unfold idxs.
      transitivity (map fr_index (f' :: R ++ c :: p ++ q)).
      - apply Permutation_map. symmetry. apply Permutation_middle.
      - change (map fr_index (f' :: R ++ c :: p ++ q)) with (map fr_index (u :: R ++ c :: p ++ q)).
        apply Permutation_map.
        replace (R ++ c :: p ++ u :: q) with ((R ++ c :: p) ++ u :: q) by (rewrite <- app_assoc; reflexivity).
        replace (R ++ c :: p ++ q) with ((R ++ c :: p) ++ q) by (rewrite <- app_assoc; reflexivity).
        apply Permutation_middle. }
    assert (Hin : forall i, In i (idxs (R ++ f' :: c :: p ++ q) ++ idxs order) <->
                            In i (idxs (R ++ c :: p ++ u :: q) ++ idxs order)).
    { intro i. rewrite !in_app_iff. split; (intros [H|H]; [left|right; exact H]).
      - eapply Permutation_in; [exact Hperm | exact H].
      - eapply Permutation_in; [symmetry; exact Hperm | exact H]. }
    assert (HP : forall P : frame -> Prop, P u -> P f' ->
                 Forall P (R ++ c :: p ++ u :: q) -> Forall P (R ++ f' :: c :: p ++ q)).
    { intros P _ Pf' HF. rewrite Forall_forall in *. intros x Hx. bfh Hx.
      destruct Hx as [Hx|[Hx|[Hx|[Hx|Hx]]]];
        [apply HF; clear - Hx; bft | subst x; exact Pf' | apply HF; clear - Hx; bft ..]. }
    assert (Hwc : fwf c).
    { rewrite Forall_forall in Hwv. apply Hwv. clear. bft. }
    assert (Hsc : iscope (fr_index c)).
    { rewrite Forall_forall in Hsv. apply (Hsv c). clear. bft. }
    assert (Hwu : fwf u).
    { rewrite Forall_forall in Hwv. apply Hwv. clear. bft. }
    assert (Hsu : iscope (fr_index u)).
    { rewrite Forall_forall in Hsv. apply (Hsv u). clear. bft. }
    destruct (src_dep c s _ _ Hwc Hs Ht) as [Hbn Hdep].
    split; auto.
    - intros i Hi. apply Hin. apply Hbase. exact Hi.
    - eapply Permutation_NoDup; [|exact Hnd']. apply Permutation_app_tail. symmetry. exact Hperm.
    - intros i g Hg Hi. apply Hin in Hi. eapply Hdisj; eauto.
    - intros i Hi. apply Hin. apply Hcov. exact Hi.
    - intros g v Hb Hv. bfh Hb.
      destruct Hb as [Hb|[[Hg [Hb|[Hb|[Hb|Hb]]]]|[[Hg [Hb|[Hb|Hb]]]|[[Hg [Hb|Hb]]|[Hb|[[Hg Hb]|Hb]]]]]].
      + exfalso. eapply unv_contra; [exact HR | eapply before_in_r; exact Hb | exact Hv].
      + subst v. congruence.
      + apply Hanc; [|exact Hv]. clear - Hg Hb. bft.
      + apply Hanc; [|exact Hv]. clear - Hg Hb. bft.
      + apply Hanc; [|exact Hv]. clear - Hg Hb. bft.
      + subst g v. rewrite Hf'i. apply t_step. exact Hdep.
      + subst g. rewrite Hf'i. eapply t_trans; [|apply t_step; exact Hdep].
        apply Hanc; [|exact Hv]. clear - Hb. bft.
      + subst g. rewrite Hf'i. eapply t_trans; [|apply t_step; exact Hdep].
        apply Hanc; [|exact Hv]. clear - Hb. bft.
      + apply Hanc; [|exact Hv]. clear - Hg Hb. bft.
      + apply Hanc; [|exact Hv]. clear - Hg Hb. bft.
      + apply Hanc; [|exact Hv]. clear - Hb. bft.
      + apply Hanc; [|exact Hv]. clear - Hg Hb. bft.
      + apply Hanc; [|exact Hv]. clear - Hb. bft.
    - intros v Hin' Hv s' Hs'.
      assert (Hv' : c = v \/ In v p \/ In v q).
      { bfh Hin'. destruct Hin' as [Hi|[Hi|Hi]]; [| |exact Hi].
        - exfalso. eapply unv_contra; eauto.
        - subst v. congruence. }
      assert (Hvold : In v (R ++ c :: p ++ u :: q)) by (clear - Hv'; bft).
      destruct (Hdone v Hvold Hv s' Hs') as [[Hi [<-|Hr]]|Hd].
      + right. unfold src_done. rewrite Ht. right. exists f'. split; [|exact Hf'i]. clear - Hv'. bft.
      + left. auto.
      + right. unfold src_done in *. destruct (tbi_get t s') as [[b' i']|]; [|exact Hd].
        destruct Hd as [Hd|(g & Hb & Hg)]; [left; exact Hd|]. right.
        bfh Hb.
        destruct Hb as [Hb|[[Hg' Hb]|[[Hg' Hb]|[Hb|[[Hg' [Hb|Hb]]|[[Hg' Hb]|Hb]]]]]].
        * exists g. split; [|exact Hg]. clear - Hb. bft.
        * exists g. split; [|exact Hg].
          destruct Hb as [Hb|[Hb|[Hb|Hb]]];
            [clear - Hg' Hb; bft | clear - Hg' Hb; bft | subst v; congruence | clear - Hg' Hb; bft].
        * exists g. split; [|exact Hg].
          destruct Hb as [Hb|[Hb|Hb]]; [clear - Hg' Hb; bft | subst v; congruence | clear - Hg' Hb; bft].
        * exists g. split; [|exact Hg]. clear - Hb. bft.
        * subst v; congruence.
        * exists g. split; [|exact Hg]. clear - Hg' Hb. bft.
        * exists f'. split; [|subst g; exact Hg]. clear - Hb. bft.
        * exists g. split; [|exact Hg]. clear - Hb. bft.
  Qed.

  Lemma inv_ci base buf VS order leaves final ci ci' :
    Inv base buf VS order leaves final ci [] -> Inv base buf VS order leaves final ci' [].
  Proof.
    intros [Hbase Hlen Hbuf Hwv Hwo Hnd' Hdisj Hcov Hanc Hsv Hso Hdone Hord Hol Hfin Hls Hl].
    split; auto.
    intros v Hin Hv s Hs. destruct (Hdone v Hin Hv s Hs) as [[_ []]|Hd]. right; exact Hd.
  Qed.

  (* ---------- what an error means ---------- *)
  Definition err_sound (e : sort_err) : Prop :=
    match e with
    | SelfDependentRule x =>
        exists r, in_scope rs goal r /\ In x (r_targets r) /\
                  exists s, In s (r_sources r) /\ In s (r_targets r)
    | CircularDependence _ => cyclic rs goal
    | SortOutOfFuel => True
    | _ => False
    end.

  Definition MInv base (m : machine) (VS : list frame) (ci : nat) (rem : list bytes) : Prop :=
    Inv base (m_buffer m) VS (m_order m) (m_leaves m) (m_final m) ci rem /\ m_tbi m = t.

  Lemma nat_remove_mid p u q :
    NoDup (idxs (p ++ u :: q)) -> nat_remove (fr_index u) (idxs (p ++ u :: q)) = idxs (p ++ q).
  Proof.
    unfold idxs. rewrite !map_app. cbn [map]. intro H.
    apply NoDup_remove_2 in H. rewrite in_app_iff in H.
    rewrite nat_remove_app, nat_remove_head, !nat_remove_notin; tauto.
  Qed.

  Lemma expand_inv base cur : forall srcs R st m,
    MInv base m (R ++ visit cur :: st) (fr_index cur) srcs ->
    Forall unvisited R ->
    (forall s, In s srcs -> In s (r_sources (fr_rule cur))) ->
    match expand_sources cur st (idxs st) srcs m R with
    | Ok (m', R', st', is') =>
        MInv base m' (R' ++ visit cur :: st') (fr_index cur) [] /\ Forall unvisited R' /\ is' = idxs st'
    | Err e => err_sound e
    end.
  Proof.
    induction srcs as [|s rest IH]; intros R st m [HI Htb] HR Hsub; cbn [expand_sources].
    - split; [split; assumption|]. split; [assumption | reflexivity].
    - assert (Hs : In s (r_sources (fr_rule cur))) by (apply Hsub; left; reflexivity).
      assert (Hsub' : forall s', In s' rest -> In s' (r_sources (fr_rule cur))) by (intros s' H'; apply Hsub; right; exact H').
      assert (Hwc : fwf (visit cur)).
      { pose proof (i_wf_vs _ _ _ _ _ _ _ _ HI) as H. rewrite Forall_forall in H. apply H. bf. tauto. }
      assert (Hsc : iscope (fr_index cur)).
      { pose proof (i_scope_vs _ _ _ _ _ _ _ _ HI) as H. rewrite Forall_forall in H. apply (H (visit cur)). bf. tauto. }
      rewrite Htb. destruct (tbi_get t s) as [[bi si]|] eqn:Es.
      + destruct (take_at (m_buffer m) bi) as [[f|] buf'] eqn:Etk.
        * assert (Hfu : unvisited f).
          { pose proof (take_at_spec _ _ _ _ Etk) as (Hx & _ & _).
            destruct (nth_error (m_buffer m) bi) as [y|] eqn:Eb; [subst y | discriminate].
            exact (proj2 (proj2 (i_buf _ _ _ _ _ _ _ _ HI bi f Eb))). }
          apply IH; [|apply Forall_app; split; [exact HR | constructor; [exact Hfu | constructor]] | exact Hsub'].
          split; [|reflexivity]. cbn [m_buffer m_order m_leaves m_final]. rewrite <- app_assoc. cbn [app].
          eapply (inv_take base (m_buffer m) R (visit cur) st); eauto.
        * destruct (tbi_target _ _ _ Es) as (Hbn & Hbin & Hbt & Hbt').
          assert (Hnone : nth_error (m_buffer m) bi = Some None).
          { apply take_at_spec in Etk as (Hx & _ & _).
            destruct (nth_error (m_buffer m) bi) as [y|] eqn:Eb; [subst y; reflexivity|].
            apply nth_error_None in Eb. rewrite (i_buflen _ _ _ _ _ _ _ _ HI) in Eb. lia. }
          destruct (Nat.eqb (fr_index cur) bi) eqn:Eself.
          -- apply Nat.eqb_eq in Eself. subst bi. cbn [err_sound].
             exists (orig (fr_index cur)). split; [exact (proj2 Hsc)|].
             destruct (fwf_facts _ Hwc) as (_ & Hrule & _). cbn [visit fr_rule fr_index] in Hrule.
             assert (Htgt : target_at cur si = s).
             { unfold target_at. rewrite Hrule. apply nth_error_nth. exact Hbt. }
             rewrite Htgt. split; [exact Hbt'|]. exists s. split; [|exact Hbt'].
             apply (fwf_sources (visit cur) s Hwc). exact Hs.
          -- apply Nat.eqb_neq in Eself.
             destruct (nat_mem bi (idxs st)) eqn:Emem.
             ++ apply nat_mem_in in Emem.
                destruct (remove_pending bi st) as [[u st']|] eqn:Erp.
                ** apply remove_pending_some in Erp as (p & q & -> & -> & Hui & Huv).
                   assert (Hnd_st : NoDup (idxs (p ++ u :: q))).
                   { pose proof (i_nodup _ _ _ _ _ _ _ _ HI) as H. apply NoDup_app_iff in H as (H & _ & _).
                     unfold idxs in H. rewrite map_app in H. apply NoDup_app_iff in H as (_ & H & _).
                     cbn [map] in H. inversion H; assumption. }
                   subst bi. rewrite (nat_remove_mid _ _ _ Hnd_st).
                   apply IH; [|apply Forall_app; split; [exact HR | constructor; [exact Huv | constructor]] | exact Hsub'].
                   split; [|exact Htb]. rewrite <- app_assoc. cbn [app].
                   eapply (inv_move base (m_buffer m) R (visit cur) p u q); eauto.
                ** cbn [err_sound]. apply in_map_iff in Emem as (v & Hvi & Hvin).
                   pose proof (remove_pending_none _ _ Erp v Hvin Hvi) as Hvv.
                   assert (Htd : tdep (fr_index v) (fr_index (visit cur))).
                   { apply (i_anc _ _ _ _ _ _ _ _ HI); [|exact Hvv]. bf. tauto. }
                   destruct (src_dep (visit cur) s _ _ Hwc Hs Es) as [_ Hdep].
                   exists (orig (fr_index cur)). split; [exact (proj2 Hsc)|].
                   eapply t_trans; [apply t_step; exact Hdep|]. rewrite <- Hvi. exact Htd.
             ++ apply IH; [|exact HR | exact Hsub']. split; [|exact Htb].
                eapply inv_skip; [exact HI | exact Es |].
                pose proof (i_cover _ _ _ _ _ _ _ _ HI bi Hnone) as Hc.
                unfold idxs in Hc. rewrite !map_app, !in_app_iff in Hc. cbn [map In] in Hc.
                destruct Hc as [[Hc|[Hc|Hc]]|Hc].
                ** right. apply in_map_iff in Hc as (g & Hgi & Hgin). exists g. split; [exact Hgi|].
                   intros v Hv Hvv. bf. destruct Hv as [Hv|Hv]; [|tauto].
                   exfalso. eapply unv_contra; eauto.
                ** cbn [visit fr_index] in Hc. contradiction.
                ** exfalso. assert (nat_mem bi (idxs st) = true) by (apply nat_mem_in; exact Hc). congruence.
                ** left. exact Hc.
      + apply IH; [|exact HR | exact Hsub']. split; [|reflexivity]. cbn [m_buffer m_order m_leaves m_final].
        eapply inv_leaf; [exact HI | exact Es | exact Hsc |].
        apply (fwf_sources (visit cur) s Hwc). exact Hs.
  Qed.

  Lemma dfs_inv base fuel : forall m stack,
    MInv base m stack 0 [] ->
    match dfs_loop fuel m stack (idxs stack) with
    | Ok m' => MInv base m' [] 0 []
    | Err e => err_sound e
    end.
  Proof.
    induction fuel as [|fuel IH]; intros m stack [HI Htb].
    - destruct stack as [|cur st]; cbn [dfs_loop]; [split; assumption | exact I].
    - destruct stack as [|cur st]; cbn [dfs_loop]; [split; assumption|].
      assert (Hrem : nat_remove (fr_index cur) (idxs (cur :: st)) = idxs st).
      { cbn [idxs map]. rewrite nat_remove_head. apply nat_remove_notin.
        pose proof (i_nodup _ _ _ _ _ _ _ _ HI) as H. cbn [idxs map app] in H.
        apply NoDup_cons_iff in H as [H _]. intro Hi. apply H. apply in_or_app. left. exact Hi. }
      rewrite Hrem. destruct (fr_visited cur) eqn:Ev.
      + apply IH. split; [|exact Htb]. cbn [m_buffer m_order m_leaves m_final].
        apply inv_visit; assumption.
      + pose proof (expand_inv base cur (r_sources (fr_rule cur)) [] st m) as He.
        cbn [app] in He.
        specialize (He (conj (inv_begin _ _ _ _ _ _ _ _ HI) Htb) (Forall_nil _) (fun s H => H)).
        destruct (expand_sources cur st (idxs st) (r_sources (fr_rule cur)) m []) as [[[[m' R'] st'] is']|e];
          [|exact He].
        destruct He as ([HI' Htb'] & HR' & ->).
        replace (map fr_index R' ++ fr_index cur :: idxs st') with (idxs (R' ++ visit cur :: st'))
          by (unfold idxs; rewrite map_app; reflexivity).
        apply IH. split; [|exact Htb']. eapply inv_ci. exact HI'.
  Qed.

  (* the state between two runs of the depth-first loop *)
  Definition Idle (m : machine) : Prop := MInv [] m [] 0 [].

  Lemma inv_base base base' buf VS order leaves final ci rem :
    Inv base buf VS order leaves final ci rem -> incl base' (idxs VS ++ idxs order) ->
    Inv base' buf VS order leaves final ci rem.
  Proof.
    intros [Hbase Hlen Hbuf Hwv Hwo Hnd' Hdisj Hcov Hanc Hsv Hso Hdone Hord Hol Hfin Hls Hl] Hb.
    split; auto.
  Qed.

  Lemma sort_once_inv m index sub :
    Idle m -> iscope index ->
    match sort_once m index sub with
    | Ok m' => Idle m' /\ In index (idxs (m_order m')) /\ incl (idxs (m_order m)) (idxs (m_order m'))
    | Err e => err_sound e
    end.
  Proof.
    intros [HI Htb] Hsc. unfold sort_once.
    destruct (take_at (m_buffer m) index) as [[f|] buf'] eqn:Etk.
    - pose proof (take_at_spec _ _ _ _ Etk) as (Hx & Hlen' & Hnth).
      assert (Hbi : nth_error (m_buffer m) index = Some (Some f)).
      { destruct (nth_error (m_buffer m) index) as [y|]; [subst y; reflexivity | discriminate]. }
      rewrite Hbi in Hnth.
      destruct HI as [Hbase Hlen Hbuf Hwv Hwo Hnd' Hdisj Hcov Hanc Hsv Hso Hdone Hord Hol Hfin Hls Hl].
      destruct (Hbuf _ _ Hbi) as (Hfi & Hfw & Hfu).
      cbn [idxs map app] in *.
      pose proof (dfs_inv (index :: idxs (m_order m)) (2 * length (m_buffer m) + 1)
                    (mk_machine buf' (m_final m) (m_leaves m) (m_order m) (m_tbi m)) [set_sub f sub]) as Hd.
      change (idxs [set_sub f sub]) with [fr_index f] in Hd. rewrite Hfi in Hd.
      assert (Hold : forall i g, nth_error buf' i = Some (Some g) ->
                                 i <> index /\ nth_error (m_buffer m) i = Some (Some g)).
      { intros i g Hg. rewrite Hnth in Hg. destruct (Nat.eqb i index) eqn:E; [discriminate|].
        apply Nat.eqb_neq in E. auto. }
      match type of Hd with ?P -> _ => assert (HP : P) end.
      { split; [|exact Htb]. cbn [m_buffer m_order m_leaves m_final].
        split; auto; cbn [idxs map app set_sub fr_index]; try rewrite Hfi.
        - apply incl_refl.
        - congruence.
        - intros i g Hg. apply Hold in Hg as [_ Hg]. apply Hbuf; exact Hg.
        - constructor; [|exact Hnd']. eapply Hdisj; eauto.
        - intros i g Hg [Hi|Hi]; apply Hold in Hg as [Hne Hg]; [congruence|]. eapply Hdisj; eauto.
        - intros i Hi. rewrite Hnth in Hi. destruct (Nat.eqb i index) eqn:E.
          + apply Nat.eqb_eq in E. left. congruence.
          + right. apply Hcov. exact Hi.
        - intros g v Hb. cbn [before In] in Hb. tauto.
        - constructor; [|constructor]. cbn [set_sub fr_index]. rewrite Hfi. exact Hsc.
        - intros v [<-|[]] Hv. cbn [set_sub fr_visited] in Hv. unfold unvisited in Hfu. congruence. }
      specialize (Hd HP).
      destruct (dfs_loop _ _ _ _) as [m'|e]; [|exact Hd].
      destruct Hd as [HI' Htb']. pose proof (i_base _ _ _ _ _ _ _ _ HI') as Hb. cbn [idxs map app] in Hb.
      split; [|split].
      + split; [|exact Htb']. eapply inv_base; [exact HI' | apply incl_nil_l].
      + apply Hb. left; reflexivity.
      + intros i Hi. apply Hb. right; exact Hi.
    - split; [split; assumption|]. split; [|apply incl_refl].
      pose proof (take_at_spec _ _ _ _ Etk) as (Hx & _ & _).
      destruct Hsc as [Hlt _]. rewrite <- (i_buflen _ _ _ _ _ _ _ _ HI) in Hlt.
      destruct (nth_error (m_buffer m) index) as [y|] eqn:Eb.
      + subst y. apply (i_cover _ _ _ _ _ _ _ _ HI) in Eb. exact Eb.
      + apply nth_error_None in Eb. lia.
  Qed.

  Lemma sort_all_inv fuel : forall m index,
    Idle m -> index + fuel <= n ->
    (forall i, i < index -> In i (idxs (m_order m))) ->
    (forall i, i < n -> iscope i) ->
    match sort_all_from fuel m index with
    | Ok m' => Idle m' /\ forall i, i < index + fuel -> In i (idxs (m_order m'))
    | Err e => err_sound e
    end.
  Proof.
    induction fuel as [|fuel IH]; intros m index HI Hle Hdone Hsc; cbn [sort_all_from].
    - split; [exact HI|]. intros i Hi. apply Hdone. lia.
    - pose proof (sort_once_inv m index 0 HI (Hsc index ltac:(lia))) as H1.
      destruct (sort_once m index 0) as [m'|e]; [|exact H1].
      destruct H1 as (HI' & Hin & Hincl).
      specialize (IH m' (S index) HI' ltac:(lia)).
      assert (Hdone' : forall i, i < S index -> In i (idxs (m_order m'))).
      { intros i Hi. destruct (Nat.eq_dec i index) as [->|Hne]; [exact Hin|]. apply Hincl, Hdone. lia. }
      specialize (IH Hdone' Hsc).
      destruct (sort_all_from fuel m' (S index)) as [m''|e]; [|exact IH].
      destruct IH as [HI'' Hall]. split; [exact HI''|]. intros i Hi. apply Hall. lia.
  Qed.

  Lemma idle_init : Idle (mk_machine (frames_from 0 crs) [] [] [] t).
  Proof.
    assert (Hnth : forall i f, nth_error (frames_from 0 crs) i = Some (Some f) ->
                               fr_index f = i /\ fwf f /\ unvisited f).
    { intros i f H. rewrite frames_from_nth in H. destruct (nth_error crs i) as [r|] eqn:E; [|discriminate].
      injection H as <-. unfold fwf, unvisited. cbn [fr_index fr_rule fr_visited]. auto. }
    split; [|reflexivity]. cbn [m_buffer m_order m_leaves m_final].
    split; cbn [idxs map app ord_ok final_of ssorted]; auto.
    - apply incl_nil_l.
    - rewrite frames_from_length, map_length. reflexivity.
    - constructor.
    - intros i H. rewrite frames_from_nth in H. destruct (nth_error crs i); discriminate.
    - intros f v [].
    - intros v [].
    - intros f [].
  Qed.

  (* ---------- which rule owns a target ---------- *)
  Lemma in_rs_index r : In r rs -> exists k, k < n /\ orig k = r /\ nth_error crs k = Some (canon_rule r).
  Proof.
    intro H. apply sort_rules_in in H. apply In_nth_error in H as [k Hk].
    exists k. split; [apply nth_error_Some; congruence|]. split.
    - unfold orig. apply nth_error_nth. exact Hk.
    - rewrite nth_error_map, Hk. reflexivity.
  Qed.

  Lemma target_known r s : In r rs -> In s (r_targets r) -> tbi_get t s <> None.
  Proof.
    intros Hr Hs Hn. apply Ht_none in Hn. apply Hn. apply all_targets_canon_in.
    unfold all_targets. apply in_flat_map. exists r. auto.
  Qed.

  Lemma target_owner r s b i : In r rs -> In s (r_targets r) -> tbi_get t s = Some (b, i) -> orig b = r.
  Proof.
    intros Hr Hs Hg. apply in_rs_index in Hr as (k & Hk & Hok & Hck).
    apply Ht_some in Hg as (r' & Hb & Hi).
    assert (k = b) as <-; [|exact Hok].
    eapply (NoDup_flat_map_same_index r_targets crs Hnd k b _ _ s Hck Hb).
    - cbn [canon_rule r_targets]. apply sort_strs_in. exact Hs.
    - eapply nth_error_In; eauto.
  Qed.

  Definition Final (m : machine) : Prop :=
    Idle m /\ forall r0, is_root rs goal r0 -> exists f, In f (m_order m) /\ orig (fr_index f) = r0.

  Lemma run_goal g index sub :
    goal = Some g -> tbi_get t g = Some (index, sub) ->
    match sort_once (mk_machine (frames_from 0 crs) [] [] [] t) index sub with
    | Ok m => Final m
    | Err e => err_sound e
    end.
  Proof.
    intros Hgoal Hg. destruct (tbi_target _ _ _ Hg) as (Hlt & Hin & _ & Htg).
    assert (Hsc : iscope index).
    { split; [exact Hlt|]. exists (orig index). split; [|apply rt_refl].
      split; [exact Hin|]. rewrite Hgoal. exact Htg. }
    pose proof (sort_once_inv _ index sub idle_init Hsc) as H.
    destruct (sort_once _ index sub) as [m|e]; [|exact H].
    destruct H as (HI & Hidx & _). split; [exact HI|].
    intros r0 [Hr0 Hroot]. rewrite Hgoal in Hroot.
    apply in_map_iff in Hidx as (f & Hfi & Hf). exists f. split; [exact Hf|].
    rewrite Hfi. eapply target_owner; eauto.
  Qed.

  Lemma run_all :
    goal = None ->
    match sort_all_from n (mk_machine (frames_from 0 crs) [] [] [] t) 0 with
    | Ok m => Final m
    | Err e => err_sound e
    end.
  Proof.
    intros Hgoal.
    assert (Hsc : forall i, i < n -> iscope i).
    { intros i Hi. split; [exact Hi|]. exists (orig i). split; [|apply rt_refl].
      split; [apply orig_in; exact Hi|]. rewrite Hgoal. exact I. }
    pose proof (sort_all_inv n _ 0 idle_init ltac:(lia) ltac:(intros i Hi; lia) Hsc) as H.
    destruct (sort_all_from n _ 0) as [m|e]; [|exact H].
    destruct H as [HI Hall]. split; [exact HI|].
    intros r0 [Hr0 _]. apply in_rs_index in Hr0 as (k & Hk & Hok & _).
    specialize (Hall k ltac:(lia)). apply in_map_iff in Hall as (f & Hfi & Hf).
    exists f. split; [exact Hf|]. rewrite Hfi. exact Hok.
  Qed.

  (* ================================================================ *)
  (* consequences of the invariant in a final state                    *)
  (* ================================================================ *)

  Lemma ord_ok_split a f o : ord_ok (a ++ f :: o) ->
    forall s b i, In s (r_sources (fr_rule f)) -> tbi_get t s = Some (b, i) -> In b (idxs o).
  Proof.
    induction a as [|x a IH]; cbn [app ord_ok]; intros [H1 H2]; [exact H1 | apply IH; exact H2].
  Qed.

  Lemma ord_ok_in order f : ord_ok order -> In f order ->
    forall s b i, In s (r_sources (fr_rule f)) -> tbi_get t s = Some (b, i) -> In b (idxs order).
  Proof.
    intros Ho Hf. apply in_split in Hf as (a & o & ->). intros s b i Hs Hg.
    pose proof (ord_ok_split _ _ _ Ho s b i Hs Hg) as H.
    unfold idxs. rewrite map_app. apply in_or_app. right. right. exact H.
  Qed.

  Lemma idle_inv m : Idle m ->
    Inv [] (m_buffer m) [] (m_order m) (m_leaves m) (m_final m) 0 [] /\ m_tbi m = t.
  Proof. intro H; exact H. Qed.

  Lemma emitted_wf m f : Idle m -> In f (m_order m) -> fwf f.
  Proof.
    intros [HI _] Hf. pose proof (i_wf_ord _ _ _ _ _ _ _ _ HI) as H. rewrite Forall_forall in H. auto.
  Qed.

  Lemma emitted_scope m f : Idle m -> In f (m_order m) -> in_scope rs goal (orig (fr_index f)).
  Proof.
    intros [HI _] Hf. pose proof (i_scope_ord _ _ _ _ _ _ _ _ HI) as H. rewrite Forall_forall in H.
    apply (H f Hf).
  Qed.

  (* a dependence of an emitted rule leads to an emitted rule, named by the table *)
  Lemma dep_index f r2 : fwf f -> depends rs (orig (fr_index f)) r2 ->
    exists s b i, In s (r_sources (fr_rule f)) /\ tbi_get t s = Some (b, i) /\ orig b = r2.
  Proof.
    intros Hw (H1 & H2 & s & Hs & Hst).
    destruct (tbi_get t s) as [[b i]|] eqn:E; [|exfalso; eapply target_known; eauto].
    exists s, b, i. split; [apply (fwf_sources f s Hw); exact Hs|]. split; [exact E|].
    eapply target_owner; eauto.
  Qed.

  Lemma dep_emitted m f r2 : Idle m -> In f (m_order m) -> depends rs (orig (fr_index f)) r2 ->
    exists f2, In f2 (m_order m) /\ orig (fr_index f2) = r2.
  Proof.
    intros HI Hf Hd. pose proof (emitted_wf _ _ HI Hf) as Hw.
    destruct (dep_index _ _ Hw Hd) as (s & b & i & Hs & Hg & Hown).
    destruct HI as [HI _].
    pose proof (ord_ok_in _ _ (i_ord _ _ _ _ _ _ _ _ HI) Hf s b i Hs Hg) as Hb.
    apply in_map_iff in Hb as (f2 & Hf2i & Hf2). exists f2. split; [exact Hf2 | congruence].
  Qed.

  Lemma scope_emitted m r : Final m -> in_scope rs goal r ->
    exists f, In f (m_order m) /\ orig (fr_index f) = r.
  Proof.
    intros [HI Hroots] (r0 & Hr0 & Hrt). apply clos_rt_rtn1 in Hrt.
    induction Hrt as [|y z Hyz Hrt IH].
    - apply Hroots; exact Hr0.
    - destruct IH as (f & Hf & <-). eapply dep_emitted; eauto.
  Qed.

  (* ---------- no reachable cycle ---------- *)
  Lemma later_emitted m : Idle m -> forall r1 r2, clos_trans rule (depends rs) r1 r2 ->
    forall a f o, m_order m = a ++ f :: o -> orig (fr_index f) = r1 ->
    exists a' f' o', o = a' ++ f' :: o' /\ orig (fr_index f') = r2.
  Proof.
    intros HI r1 r2 Hct. induction Hct as [x y Hxy | x y z _ IH1 _ IH2]; intros a f o Ho Hf.
    - subst x. assert (Hfin : In f (m_order m)) by (rewrite Ho; apply in_or_app; right; left; reflexivity).
      pose proof (emitted_wf _ _ HI Hfin) as Hw.
      destruct (dep_index _ _ Hw Hxy) as (s & b & i & Hs & Hg & Hown).
      destruct HI as [HI _]. pose proof (i_ord _ _ _ _ _ _ _ _ HI) as Hord. rewrite Ho in Hord.
      pose proof (ord_ok_split _ _ _ Hord s b i Hs Hg) as Hb.
      apply in_map_iff in Hb as (f2 & Hf2i & Hf2). apply in_split in Hf2 as (a' & o' & ->).
      exists a', f2, o'. split; [reflexivity | congruence].
    - destruct (IH1 a f o Ho Hf) as (a1 & f1 & o1 & -> & Hf1).
      destruct (IH2 (a ++ f :: a1) f1 o1) as (a2 & f2 & o2 & -> & Hf2); [|exact Hf1|].
      + rewrite Ho, <- app_assoc. reflexivity.
      + exists (a1 ++ f1 :: a2), f2, o2. split; [|exact Hf2]. rewrite <- app_assoc. reflexivity.
  Qed.

  Lemma final_acyclic m : Final m -> ~ cyclic rs goal.
  Proof.
    intros HF (r & Hsc & Hct). pose proof HF as [HI _].
    destruct (scope_emitted _ _ HF Hsc) as (f & Hf & Hfr).
    assert (Hno : forall k a f o, length o = k -> m_order m = a ++ f :: o -> orig (fr_index f) = r -> False).
    { induction k as [k IHk] using lt_wf_ind. intros a f0 o Hk Ho Hr.
      destruct (later_emitted _ HI _ _ Hct a f0 o Ho Hr) as (a' & f' & o' & -> & Hr').
      apply (IHk (length o') ltac:(rewrite <- Hk, app_length; cbn [length]; lia) (a ++ f0 :: a') f' o' eq_refl);
        [|exact Hr']. rewrite Ho, <- app_assoc. reflexivity. }
    apply in_split in Hf as (a & o & Ho). eapply Hno; eauto.
  Qed.

  (* ---------- the plan ---------- *)
  Section Plan.
    Hypothesis Hne : forall r, In r rs -> r_targets r <> [].
    Variable m : machine.
    Hypothesis HF : Final m.

    Lemma emitted_rule_inj f g :
      In f (m_order m) -> In g (m_order m) -> fr_rule f = fr_rule g -> fr_index f = fr_index g.
    Proof.
      intros Hf Hg E. destruct HF as [HI _].
      pose proof (emitted_wf _ _ HI Hf) as Hwf. pose proof (emitted_wf _ _ HI Hg) as Hwg.
      destruct (fwf_facts _ Hwf) as (_ & Hrf & Hin).
      specialize (Hne _ Hin). destruct (r_targets (orig (fr_index f))) as [|x l] eqn:Et; [congruence|].
      assert (Hx : In x (r_targets (fr_rule f))).
      { rewrite Hrf. cbn [canon_rule r_targets]. apply sort_strs_in. rewrite Et. left; reflexivity. }
      eapply (NoDup_flat_map_same_index r_targets crs Hnd _ _ _ _ x Hwf Hwg); [exact Hx | rewrite <- E; exact Hx].
    Qed.

    Lemma order_nodup : NoDup (idxs (m_order m)).
    Proof. destruct HF as [[HI _] _]. exact (i_nodup _ _ _ _ _ _ _ _ HI). Qed.

    Lemma plan_nodup : NoDup (map n_rule (p_nodes (get_result m))).
    Proof.
      rewrite get_result_eq. cbn [p_nodes]. rewrite map_map. cbn [node_of n_rule].
      rewrite map_rev. apply NoDup_rev_iff.
      apply (NoDup_map_inj_on fr_index fr_rule); [exact order_nodup|].
      intros x y Hx Hy E. apply emitted_rule_inj; assumption.
    Qed.

    Lemma plan_rules r' : In r' (map n_rule (p_nodes (get_result m))) <-> In r' (map fr_rule (m_order m)).
    Proof.
      rewrite get_result_eq. cbn [p_nodes]. rewrite map_map. cbn [node_of n_rule].
      rewrite map_rev. symmetry. apply in_rev.
    Qed.

    Lemma plan_scope r' :
      In r' (map n_rule (p_nodes (get_result m))) <-> exists r, in_scope rs goal r /\ r' = canon_rule r.
    Proof.
      rewrite plan_rules. pose proof HF as [HI _]. split.
      - intro H. apply in_map_iff in H as (f & <- & Hf). exists (orig (fr_index f)). split.
        + eapply emitted_scope; eauto.
        + pose proof (emitted_wf _ _ HI Hf) as Hw. apply fwf_facts in Hw. tauto.
      - intros (r & Hsc & ->). destruct (scope_emitted _ _ HF Hsc) as (f & Hf & <-).
        apply in_map_iff. exists f. split; [|exact Hf].
        pose proof (emitted_wf _ _ HI Hf) as Hw. apply fwf_facts in Hw. tauto.
    Qed.

    Lemma not_target_iff s : tbi_get t s = None <-> ~ In s (all_targets rs).
    Proof. rewrite Ht_none. split; intros H H'; apply H; apply all_targets_canon_in; exact H'. Qed.

    Lemma plan_bindings j nd :
      nth_error (p_nodes (get_result m)) j = Some nd -> node_ok rs (get_result m) j nd.
    Proof.
      pose proof HF as [[HI Htb] _].
      rewrite get_result_eq. cbn [p_nodes]. intro Hj. rewrite nth_error_map in Hj.
      destruct (nth_error (rev (m_order m)) j) as [f|] eqn:Ef; [|discriminate].
      cbn [option_map] in Hj. injection Hj as <-.
      unfold node_ok. cbn [node_of n_targets n_rule n_command n_source_indices].
      split; [reflexivity|]. split; [reflexivity|].
      apply Forall2_map_r. intros s Hs.
      apply nth_error_rev_inv in Ef as (a & o & Ho & Hlen).
      assert (Hfin : In f (m_order m)) by (rewrite Ho; apply in_or_app; right; left; reflexivity).
      destruct (index_of s (m_leaves m) 0) as [i|] eqn:Ei.
      - apply index_of_some in Ei as [_ Ei]. rewrite Nat.sub_0_r in Ei.
        cbn [binding_ok p_leaves]. split; [exact Ei|].
        apply nth_error_In in Ei. apply (i_leaves _ _ _ _ _ _ _ _ HI) in Ei as [Ei _].
        apply not_target_iff. exact Ei.
      - apply index_of_none in Ei. rewrite Htb.
        destruct (tbi_get t s) as [[b si]|] eqn:Eg.
        + pose proof (i_ord _ _ _ _ _ _ _ _ HI) as Hord. rewrite Ho in Hord.
          pose proof (ord_ok_split _ _ _ Hord s b si Hs Eg) as Hb.
          apply in_map_iff in Hb as (g & Hgi & Hg). apply in_split in Hg as (a2 & o2 & ->).
          assert (Ho' : m_order m = (a ++ f :: a2) ++ g :: o2) by (rewrite Ho, <- app_assoc; reflexivity).
          assert (Hfg : final_get (m_final m) b = length o2).
          { rewrite (i_final _ _ _ _ _ _ _ _ HI), <- Hgi, Ho'. apply final_get_final_of.
            rewrite <- Ho'. exact order_nodup. }
          rewrite Hfg. cbn [binding_ok p_nodes]. split.
          * rewrite <- Hlen, app_length. cbn [length]. lia.
          * exists (node_of m g). split.
            -- rewrite nth_error_map, Ho', nth_error_rev_split. reflexivity.
            -- cbn [node_of n_targets].
               assert (Hgin : In g (m_order m)) by (rewrite Ho'; apply in_or_app; right; left; reflexivity).
               pose proof (emitted_wf _ _ (conj HI Htb) Hgin) as Hwg. unfold fwf in Hwg. rewrite Hgi in Hwg.
               apply Ht_some in Eg as (r & Hr1 & Hr2). congruence.
        + exfalso. apply Ei. eapply (i_ord_leaf _ _ _ _ _ _ _ _ HI); eauto.
    Qed.

    Lemma plan_leaves_nodup : NoDup (p_leaves (get_result m)).
    Proof.
      destruct HF as [[HI _] _]. rewrite get_result_eq. cbn [p_leaves].
      apply ssorted_NoDup. exact (i_leaves_sorted _ _ _ _ _ _ _ _ HI).
    Qed.

    Lemma plan_leaves s :
      In s (p_leaves (get_result m)) <->
      ~ In s (all_targets rs) /\ exists r, in_scope rs goal r /\ In s (r_sources r).
    Proof.
      pose proof HF as [[HI Htb] _]. rewrite get_result_eq. cbn [p_leaves]. split.
      - intro H. apply (i_leaves _ _ _ _ _ _ _ _ HI) in H as (H1 & i & [_ Hi] & Hs).
        split; [apply not_target_iff; exact H1|]. exists (orig i). auto.
      - intros (Hn & r & Hsc & Hs). destruct (scope_emitted _ _ HF Hsc) as (f & Hf & <-).
        pose proof (emitted_wf _ _ (conj HI Htb) Hf) as Hw.
        eapply (i_ord_leaf _ _ _ _ _ _ _ _ HI); [exact Hf | apply (fwf_sources f s Hw); exact Hs |].
        apply not_target_iff. exact Hn.
    Qed.

    Theorem final_plan_ok : plan_ok rs goal (get_result m).
    Proof.
      unfold plan_ok. split; [exact plan_nodup|]. split; [exact plan_scope|].
      split; [exact plan_bindings|]. split; [exact plan_leaves_nodup | exact plan_leaves].
    Qed.
  End Plan.
End Inv.
