(* The user's `mv` (also `cp -p`, `rsync -a`, `tar x`): a file record -- content, modification time, executable
   bit -- moves to another path, so an OLDER copy can come (back) to a path with its OLD modification time.
   World.move_file / Ops.OMove / Inv.SMove.

   What is proved here:
     - move_file creates no new (content, time) pair: every file of the new world is a file of the old one, the
       ruler directory and the clock are untouched; hence the disk invariant is kept (mv_keeps_disk_inv),
       remembered states stay sound (mv_state_ok_stable), history soundness and the state files are kept;
     - whatever older copy the user puts at q, and whatever sound state is remembered about q, the modification-
       time shortcut returns the hash of the bytes that are now at q (mv_old_copy_is_rehashed);
     - a shortcut that accepts an OLDER file (`<=` in the place of `=`, the seeded defect) does not have that
       property: on the history below it returns the hash of the content that was there before
       (mv_le_shortcut_refuted);
     - the user's mv is not one of ruler's own steps (C08): mv_not_own_step;
     - a history: build, mv t t.bak, edit, build, mv t.bak t, build -- det_history holds, so by C01 the last build
       leaves from-scratch contents; also checked by computation. *)
From Coq Require Import String Ascii.
From Coq Require Import Relations.Relation_Operators Relations.Operators_Properties.
From Ruler Require Import Tactics Bytes AList RuleSyntax Parser TopoSort World Cmdlang Work Build Ops Inv
  BuildSpec Ideal BytesFacts InvFacts BuildFacts C01Script C01Hist C01Build C01Plan C01Facts C11Facts C18Facts
  ActsFacts.
Local Open Scope N_scope.

Section Mv.
  Variable T : Type.
  Variable teqb : T -> T -> bool.
  Variable hc : bytes -> T.
  Hypothesis teqb_spec : forall a b, teqb a b = true <-> a = b.

  Notation world := (world T).
  Notation fstate := (fstate T).

  (* ---------- what move_file does to the files ---------- *)

  Lemma fget_move_dst (w : world) p q f : fget w p = Some f -> fget (move_file w p q) q = Some f.
  Proof.
    intro Ef. unfold move_file. rewrite Ef. unfold fget. cbn [set_files w_files].
    apply (InvProofs.alookup_ainsert_eq _ bytes_eqb_eq).
  Qed.

  Lemma fget_move_src (w : world) p q f : fget w p = Some f -> p <> q -> fget (move_file w p q) p = None.
  Proof.
    intros Ef Hne. unfold move_file. rewrite Ef. unfold fget. cbn [set_files w_files].
    rewrite (InvProofs.alookup_ainsert_neq _ bytes_eqb_eq) by exact Hne.
    apply (InvProofs.alookup_aremove_eq bytes_eqb).
  Qed.

  Lemma fget_move_other (w : world) p q r : r <> p -> r <> q -> fget (move_file w p q) r = fget w r.
  Proof.
    intros Hp Hq. unfold move_file. destruct (fget w p) as [f|] eqn:Ef; [|reflexivity].
    unfold fget. cbn [set_files w_files].
    rewrite (InvProofs.alookup_ainsert_neq _ bytes_eqb_eq) by exact Hq.
    apply (InvProofs.alookup_aremove_neq _ bytes_eqb_eq). exact Hp.
  Qed.

  Lemma move_file_absent (w : world) p q : fget w p = None -> move_file w p q = w.
  Proof. intro E. unfold move_file. rewrite E. reflexivity. Qed.

  (* the file found at the destination afterwards was somewhere before: at the source, or (the source being
     absent) already at the destination *)
  Lemma fget_move_dst_inv (w : world) p q f :
    fget (move_file w p q) q = Some f -> fget w p = Some f \/ (fget w p = None /\ fget w q = Some f).
  Proof.
    intro H. destruct (fget w p) as [g|] eqn:Ep.
    - left. rewrite (fget_move_dst w p q g Ep) in H. exact H.
    - right. rewrite (move_file_absent w p q Ep) in H. auto.
  Qed.

  (* nothing new appears, nothing else changes *)
  Theorem mv_no_new_file (w : world) p q g : any_file teqb (move_file w p q) g -> any_file teqb w g.
  Proof. apply InvProofs.any_file_move. Qed.

  Theorem mv_rest_untouched (w : world) p q :
    w_rd (move_file w p q) = w_rd w /\ w_clock (move_file w p q) = w_clock w /\ w_mode (move_file w p q) = w_mode w.
  Proof.
    split; [apply InvProofs.move_file_rd|]. split; [apply InvProofs.move_file_clock | apply InvProofs.move_file_mode].
  Qed.

  (* ---------- the invariant ---------- *)

  Theorem mv_keeps_disk_inv : forall (w : world) p q,
    disk_inv teqb hc w -> disk_inv teqb hc (move_file w p q).
  Proof.
    intros w p q Hinv. apply (InvProofs.step_preserves_inv T teqb hc teqb_spec w); [exact Hinv | apply SMove].
  Qed.

  (* a sound remembered state stays sound: state_ok speaks of ALL files carrying the remembered time *)
  Theorem mv_state_ok_stable : forall (w : world) p q st,
    state_ok teqb hc w st -> state_ok teqb hc (move_file w p q) st.
  Proof.
    intros w p q st [He | [H1 H2]]; [left; exact He | right]. split; [rewrite InvProofs.move_file_clock; exact H1|].
    intros f Hf Ht. apply H2; [eapply mv_no_new_file; exact Hf | exact Ht].
  Qed.

  (* every conjunct separately, without the others *)
  Theorem mv_keeps_each : forall (w : world) p q,
    (mt_unique teqb w -> mt_unique teqb (move_file w p q)) /\
    (clock_ok teqb w -> clock_ok teqb (move_file w p q)) /\
    (cache_addressed teqb hc w -> cache_addressed teqb hc (move_file w p q)) /\
    (table_sound teqb hc w -> table_sound teqb hc (move_file w p q)).
  Proof.
    intros w p q. split; [|split; [|split]].
    - intros Hu f g Hf Hg. apply Hu; eapply mv_no_new_file; eauto.
    - intros Hk f Hf. rewrite InvProofs.move_file_clock. apply Hk. eapply mv_no_new_file; eauto.
    - intros Ha c t f Hc. rewrite InvProofs.move_file_cache in Hc. eapply Ha; eauto.
    - intros Ht tbl r st Htb Hl. rewrite InvProofs.move_file_rd in Htb. apply mv_state_ok_stable. eapply Ht; eauto.
  Qed.

  (* ---------- the point: an older copy put (back) at a path is hashed again ---------- *)

  Theorem mv_old_copy_is_rehashed : forall (w : world) p q st f,
    disk_inv teqb hc w -> state_ok teqb hc w st -> fget (move_file w p q) q = Some f ->
    get_file_ticket teqb hc (move_file w p q) q st = Some (hc (f_content f)).
  Proof.
    intros w p q st f Hinv Hst Hf.
    rewrite (shortcut_transparent T teqb hc (move_file w p q) q st (mv_keeps_disk_inv w p q Hinv)
               (mv_state_ok_stable w p q st Hst)).
    rewrite Hf. reflexivity.
  Qed.

  (* in terms of the file that was at p: after `mv p q` the ticket of q is the hash of p's bytes, whatever the
     table remembers about q (in particular: a NEWER time with the hash of what was at q) *)
  Corollary mv_ticket_is_of_moved_file : forall (w : world) p q st f,
    disk_inv teqb hc w -> state_ok teqb hc w st -> fget w p = Some f ->
    get_file_ticket teqb hc (move_file w p q) q st = Some (hc (f_content f)).
  Proof.
    intros w p q st f Hinv Hst Hf. apply mv_old_copy_is_rehashed; [exact Hinv | exact Hst|].
    apply fget_move_dst. exact Hf.
  Qed.

  (* with the entries of the saved table *)
  Corollary mv_table_entry_harmless : forall (w : world) p q tbl st f,
    disk_inv teqb hc w -> rd_table (w_rd w) = Some (SF_ok tbl) -> alookup bytes_eqb tbl q = Some st ->
    fget (move_file w p q) q = Some f ->
    get_file_ticket teqb hc (move_file w p q) q st = Some (hc (f_content f)).
  Proof.
    intros w p q tbl st f Hinv Htb Hl Hf. apply mv_old_copy_is_rehashed; [exact Hinv | | exact Hf].
    destruct Hinv as (_ & _ & _ & _ & Hts). eapply Hts; eauto.
  Qed.

  (* ---------- the operation OMove ---------- *)

  Variable hl : list T -> T.
  Variable hr : rule -> T.

  Theorem omove_safe : forall p q, safe_op T (OMove p q : op T).
  Proof. intros p q. exact I. Qed.

  Theorem omove_keeps_disk_inv : forall (w : world) p q,
    disk_inv teqb hc w -> disk_inv teqb hc (fst (apply_op teqb hc hl hr w (OMove p q))).
  Proof.
    intros w p q Hinv. cbn [apply_op fst].
    apply (InvProofs.step_preserves_inv T teqb hc teqb_spec (move_file w p q)); [|apply STick].
    apply mv_keeps_disk_inv. exact Hinv.
  Qed.

  Theorem omove_keeps_state_files_good : forall (w : world) p q,
    no_bad_state_files T teqb w -> no_bad_state_files T teqb (fst (apply_op teqb hc hl hr w (OMove p q))).
  Proof.
    intros w p q Hn. cbn [apply_op fst].
    eapply C11Proofs.no_bad_same_state_files; [| |exact Hn]; cbn [tick w_rd]; rewrite InvProofs.move_file_rd; reflexivity.
  Qed.

  (* ---------- C08: mv is the user's step, not one of ruler's own ---------- *)

  (* where there is no cache, ruler's own steps leave the workspace files alone *)
  Lemma own_step_no_cache_files (w w' : world) :
    own_step teqb hc w w' -> cache_of w = None -> w_files w' = w_files w.
  Proof.
    intros Hs Hc.
    destruct Hs as [w p a t w' _ _ Hb | w t p w' _ Hr | w tbl | w hr0 r h | w w' tbl Hi].
    - destruct (InvProofs.back_up_inv _ _ _ _ _ _ Hb) as (c & f & Ec & _). congruence.
    - destruct (InvProofs.restore_inv _ _ _ _ _ _ Hr) as (c & f & Ec & _). congruence.
    - reflexivity.
    - destruct (InvProofs.write_history_inv T teqb hr0 w r h) as (H & _). exact H.
    - destruct (InvProofs.init_dir_inv T teqb _ _ _ Hi) as (H & _). exact H.
  Qed.
End Mv.

(* ================================================================== *)
(* the free symbolic hashes                                             *)
(* ================================================================== *)

Theorem mv_keeps_disk_inv_sym : forall (w : world sym) p q,
  disk_inv sym_eqb SContent w -> disk_inv sym_eqb SContent (move_file w p q).
Proof. exact (mv_keeps_disk_inv sym sym_eqb SContent sym_eqb_spec). Qed.

Theorem mv_state_ok_stable_sym : forall (w : world sym) p q st,
  state_ok sym_eqb SContent w st -> state_ok sym_eqb SContent (move_file w p q) st.
Proof. exact (mv_state_ok_stable sym sym_eqb SContent). Qed.

Theorem mv_old_copy_is_rehashed_sym : forall (w : world sym) p q st f,
  disk_inv sym_eqb SContent w -> state_ok sym_eqb SContent w st -> fget (move_file w p q) q = Some f ->
  get_file_ticket sym_eqb SContent (move_file w p q) q st = Some (SContent (f_content f)).
Proof. exact (mv_old_copy_is_rehashed sym sym_eqb SContent sym_eqb_spec). Qed.

Theorem omove_keeps_disk_inv_sym : forall (w : world sym) p q,
  disk_inv sym_eqb SContent w -> disk_inv sym_eqb SContent (fst (apply_sym w (OMove p q))).
Proof. exact (omove_keeps_disk_inv sym sym_eqb SContent sym_eqb_spec SList SRule). Qed.

(* C08: a concrete mv that is not an own_step *)
Definition nos_file : file := mk_file [1] 1 false.
Definition nos_w : world sym := mk_world [([7], nos_file)] no_rdir 5 Fine.

Example mv_not_own_step : ~ own_step sym_eqb SContent nos_w (move_file nos_w [7] [8]).
Proof.
  intro H. apply (own_step_no_cache_files sym sym_eqb SContent) in H; [|reflexivity].
  revert H. vm_compute. discriminate.
Qed.

(* ================================================================== *)
(* the history: build, mv t t.bak, edit, build, mv t.bak t, build       *)
(* ================================================================== *)

Open Scope string_scope.

(* one copy rule: t <- s *)
Definition mv_rules : bytes := join_with [NL] (map bs ["t";":";"s";":";"gen t @s";":";""]).

Definition mv_ops : list (op sym) :=
  [OWrite RULES_PATH mv_rules; OWrite (bs "s") (bs "X"); OBuild None;      (* t = "X", written at time T1 *)
   OMove (bs "t") (bs "t.bak");                                           (* the user keeps a copy, time T1 *)
   OWrite (bs "s") (bs "Y"); OBuild None;                                 (* t = "Y", time T2 > T1; the table says so *)
   OMove (bs "t.bak") (bs "t")].                                          (* the OLD copy is back at t, time T1 *)

Definition mv_w : world sym := run_sym mv_ops (init_world Fine 1).

Close Scope string_scope.

Definition mv_w1 : world sym := match init_dir sym mv_w with Ok (w1, _) => w1 | Err _ => mv_w end.
Definition mv_tbl : table sym := match init_dir sym mv_w with Ok (_, t) => t | Err _ => [] end.
Definition mv_pack : node_pack :=
  match get_nodes sym mv_w1 RULES_PATH None with Ok p => p | Err _ => mk_pack [] [] end.

Lemma det_history_firstn_sym : forall (ops : list (op sym)) (w : world sym) k,
  det_history_sym w ops -> det_history_sym w (firstn k ops).
Proof.
  induction ops as [|o rest IH]; intros w [|k] H; cbn [firstn det_history]; try exact I.
  destruct H as (H1 & H2 & H3). split; [exact H1|]. split; [exact H2|]. apply IH. exact H3.
Qed.

Lemma mv_ops_det : det_history_sym (init_world Fine 1) (mv_ops ++ [OBuild None]).
Proof.
  unfold mv_ops. cbn [app det_history op_det].
  repeat (split; [exact I|]).
  split; [apply build_detb_sound; vm_compute; reflexivity|].
  repeat (split; [exact I|]).
  split; [apply build_detb_sound; vm_compute; reflexivity|].
  repeat (split; [exact I|]).
  split; [apply build_detb_sound; vm_compute; reflexivity|].
  exact I.
Qed.

Lemma mv_ops_det_w : det_history_sym (init_world Fine 1) mv_ops.
Proof.
  unfold mv_ops. cbn [det_history op_det].
  repeat (split; [exact I|]).
  split; [apply build_detb_sound; vm_compute; reflexivity|].
  repeat (split; [exact I|]).
  split; [apply build_detb_sound; vm_compute; reflexivity|].
  repeat (split; [exact I|]). exact I.
Qed.

Lemma mv_init : init_dir sym mv_w = Ok (mv_w1, mv_tbl).
Proof. vm_compute. reflexivity. Qed.

Lemma mv_nodes : get_nodes sym mv_w1 RULES_PATH None = Ok mv_pack.
Proof. vm_compute. reflexivity. Qed.

Lemma mv_det : Forall det_node (p_nodes mv_pack).
Proof. apply det_nodesb_sound. vm_compute. reflexivity. Qed.

Lemma mv_ok : o_verdict (build_sym mv_w RULES_PATH None) = VOk.
Proof. vm_compute. reflexivity. Qed.

Open Scope string_scope.

Lemma mv_target : In (bs "t") (plan_targets mv_pack).
Proof. vm_compute. left. reflexivity. Qed.

(* before the last build: the OLD content with its OLD time is at t, the table remembers the NEW hash with a NEWER
   time for t, and the source says the NEW content is due *)
Example mv_situation :
  content_at mv_w (bs "t") = Some (bs "X") /\ content_at mv_w (bs "s") = Some (bs "Y") /\
  content_at mv_w (bs "t.bak") = None /\
  match rd_table (w_rd mv_w), fget mv_w (bs "t") with
  | Some (SF_ok tbl), Some f =>
      match alookup bytes_eqb tbl (bs "t") with
      | Some st => fs_t st = SContent (bs "Y") /\ N.ltb (f_mtime f) (fs_mtime st) = true
      | None => False
      end
  | _, _ => False
  end.
Proof. vm_compute. repeat split. Qed.

(* the invariants hold there (C01_invariants_after_every_history: OMove is in the alphabet) ... *)
Example mv_inv : disk_inv sym_eqb SContent mv_w /\ hist_sound_sym mv_w.
Proof. apply (reach_hist_sound_partial_sym 1 mv_ops); exact mv_ops_det_w. Qed.

(* ... so by C01 the last build leaves from-scratch contents at every target of its plan ... *)
Example mv_last_build_is_scratch : forall t, In t (plan_targets mv_pack) ->
  content_at (o_world (build_sym mv_w RULES_PATH None)) t = content_at (scratch_world mv_w mv_pack) t.
Proof.
  apply (c01_every_history_sym_partial 1 mv_ops None mv_w1 mv_tbl mv_pack);
    [exact mv_ops_det_w | exact mv_init | exact mv_nodes | exact mv_det | exact mv_ok].
Qed.

(* ... which is "Y": by the theorem and by computation *)
Example mv_last_build_value :
  content_at (o_world (build_sym mv_w RULES_PATH None)) (bs "t") = Some (bs "Y") /\
  content_at (scratch_world mv_w mv_pack) (bs "t") = Some (bs "Y").
Proof. vm_compute. split; reflexivity. Qed.

Example mv_last_build_computed :
  content_at (o_world (build_sym mv_w RULES_PATH None)) (bs "t") = content_at (scratch_world mv_w mv_pack) (bs "t").
Proof. vm_compute. reflexivity. Qed.

(* the shortcut on that world, through t's table entry: the old copy is hashed again (mv_old_copy_is_rehashed) *)
Example mv_shortcut_rehashes :
  match rd_table (w_rd mv_w) with
  | Some (SF_ok tbl) =>
      match alookup bytes_eqb tbl (bs "t") with
      | Some st => get_file_ticket sym_eqb SContent mv_w (bs "t") st = Some (SContent (bs "X"))
      | None => False
      end
  | _ => False
  end.
Proof. vm_compute. reflexivity. Qed.

Close Scope string_scope.

(* ---------- the seeded defect: `<=` in the place of `=` ---------- *)

(* the shortcut accepting every file that is not NEWER than what is remembered *)
Definition shortcut_le (f : file) (assumed : fstate sym) : bool :=
  (f_mtime f <=? fs_mtime assumed) && negb (is_empty_state sym_eqb SContent assumed).

Definition get_file_ticket_le (w : world sym) (p : bytes) (assumed : fstate sym) : option sym :=
  match fget w p with
  | None => None
  | Some f => if shortcut_le f assumed then Some (fs_t assumed) else Some (SContent (f_content f))
  end.

(* it agrees with the real one wherever the real one applies ... *)
Lemma shortcut_le_of_shortcut f st : shortcut sym_eqb SContent f st = true -> shortcut_le f st = true.
Proof.
  unfold shortcut, shortcut_le. intro H. apply andb_true_iff in H as [H1 H2]. apply andb_true_iff. split; [|exact H2].
  apply N.eqb_eq in H1. apply N.leb_le. lia.
Qed.

(* ... but the statement of mv_old_copy_is_rehashed is false for it: t's entry (hash of "Y", the newer time) is
   taken for the old copy ("X") that the user put back *)
Theorem mv_le_shortcut_refuted :
  ~ (forall (w : world sym) p q st f,
       disk_inv sym_eqb SContent w -> state_ok sym_eqb SContent w st -> fget (move_file w p q) q = Some f ->
       get_file_ticket_le (move_file w p q) q st = Some (SContent (f_content f))).
Proof.
  intro H.
  pose (w := run_sym (firstn 6 mv_ops) (init_world Fine 1)).
  assert (disk_inv sym_eqb SContent w) as Hinv.
  { apply (reach_hist_sound_partial_sym 1 (firstn 6 mv_ops)).
    apply det_history_firstn_sym. exact mv_ops_det_w. }
  assert (exists tbl st f, rd_table (w_rd w) = Some (SF_ok tbl) /\ alookup bytes_eqb tbl [116] = Some st /\
            fget (move_file w [116; 46; 98; 97; 107] [116]) [116] = Some f /\
            get_file_ticket_le (move_file w [116; 46; 98; 97; 107] [116]) [116] st = Some (SContent [89]) /\
            f_content f = [88]) as (tbl & st & f & Htb & Hl & Hf & Hg & Hc).
  { eexists _, _, _. vm_compute. repeat split. }
  assert (state_ok sym_eqb SContent w st) as Hst.
  { destruct Hinv as (_ & _ & _ & _ & Hts). eapply Hts; eauto. }
  pose proof (H w _ _ st f Hinv Hst Hf) as H1. rewrite Hg, Hc in H1. discriminate.
Qed.
