(* C11 at every crash point: the disk after ANY prefix of the action list of the modelled build / clean
   satisfies crash_ok (disk invariant, history soundness, no damaged state file); the next build from
   there is not wedged and satisfies C01.  Also the same along every history without user damage. *)
From Coq Require Import Relations.Relation_Operators Relations.Operators_Properties.
From Ruler Require Import Tactics Bytes AList RuleSyntax Parser TopoSort World Cmdlang Work Build Ops Inv Acts
  BuildSpec Ideal BytesFacts InvFacts BuildFacts C01Script C01Hist C01Build C01Plan C01Facts C11Facts
  ActsSound ActsGood.
Local Open Scope N_scope.

Section ActsCrash.
  Variable T : Type.
  Variable teqb : T -> T -> bool.
  Variable hc : bytes -> T.
  Variable hl : list T -> T.
  Variable hr : rule -> T.
  Hypothesis teqb_spec : forall a b, teqb a b = true <-> a = b.
  Hypothesis hc_inj : forall a b, hc a = hc b -> a = b.
  Hypothesis hl_inj : forall a b, hl a = hl b -> a = b.
  Hypothesis hr_inj : forall a b, hr a = hr b -> a = b.

  Notation world := (world T).
  Notation state_ok := (state_ok teqb hc).
  Notation disk_inv := (disk_inv teqb hc).
  Notation cache_addressed := (cache_addressed teqb hc).
  Notation step := (step teqb hc).
  Notation steps := (clos_refl_trans world step).
  Notation hist_ok := (hist_ok T teqb hc hl).
  Notation hist_sound := (hist_sound T teqb hc hl hr).
  Notation no_bad := (no_bad_state_files T teqb).
  Notation do_act := (do_act teqb hr).
  Notation run_acts := (run_acts teqb hr).
  Notation build := (build teqb hc hl hr).
  Notation clean := (clean teqb hc).
  Notation build_acts := (build_acts teqb hc hl hr).
  Notation clean_acts := (clean_acts teqb hc).
  Notation apply_op := (apply_op teqb hc hl hr).
  Notation run_ops ops w0 := (fold_left (fun w o => fst (apply_op w o)) ops w0).

  Definition crash_ok (w : world) : Prop := disk_inv w /\ hist_sound w /\ no_bad w.

  (* the histories main may write: sound ones (for DET rules) *)
  Definition HPdet (r : rule) (h : history T) : Prop := det_rule r -> hist_ok r h.
  Definition RPany (p : bytes) : Prop := True.

  Notation act_good := (act_good T teqb hc HPdet RPany).
  Notation acts_good := (acts_good T teqb hc hr HPdet RPany).

  (* ---------- one action: the state files ---------- *)

  Lemma run_line_rd (w : world) l : w_rd (snd (run_line w l)) = w_rd w.
  Proof. apply (run_line_frame T w l). Qed.

  Lemma do_act_no_bad (w : world) a : no_bad w -> no_bad (do_act w a).
  Proof.
    intros Hn. pose proof Hn as [H1 H2].
    destruct a as [| | | |p t|t p|l|r h|tbl]; cbn [Acts.do_act].
    - eapply C11Proofs.no_bad_same_state_files; [| |exact Hn]; reflexivity.
    - eapply C11Proofs.no_bad_same_state_files; [| |exact Hn]; reflexivity.
    - split; [exact H1|]. cbn. intros hs k E. destruct (rd_hist (w_rd w)) as [hs0|] eqn:Eh; injection E as <-.
      + exact (H2 hs0 k eq_refl).
      + cbn. discriminate.
    - split; [|exact H2]. cbn. destruct (rd_table (w_rd w)) as [x|]; [exact H1 | discriminate].
    - destruct (back_up teqb w t p) as [w1|] eqn:Eb; [|exact Hn].
      destruct (C11Proofs.back_up_rd _ _ _ _ _ _ Eb) as [Ht Hh]. eapply C11Proofs.no_bad_same_state_files; eauto.
    - destruct (restore teqb w t p) as [w1| |] eqn:Er; try exact Hn.
      destruct (C11Proofs.restore_rd _ _ _ _ _ _ Er) as [Ht Hh]. eapply C11Proofs.no_bad_same_state_files; eauto.
    - eapply C11Proofs.no_bad_same_state_files; [| |exact Hn]; rewrite run_line_rd; reflexivity.
    - apply (C11Proofs.write_history_no_bad T teqb teqb_spec). exact Hn.
    - split; [cbn; discriminate | exact H2].
  Qed.

  Lemma do_act_hist_sound (w : world) a :
    hist_sound w -> (forall r h, a = AWriteHist r h -> HPdet r h) -> hist_sound (do_act w a).
  Proof.
    intros Hs Hw.
    destruct a as [| | | |p t|t p|l|r h|tbl]; cbn [Acts.do_act].
    - eapply hist_sound_same; [|exact Hs]. reflexivity.
    - eapply hist_sound_same; [|exact Hs]. reflexivity.
    - eapply hist_sound_sub; [|exact Hs]. intros hs' t h Hrd Hl. cbn in Hrd.
      destruct (rd_hist (w_rd w)) as [hs|]; injection Hrd as <-; [eauto|]. cbn in Hl. discriminate.
    - eapply hist_sound_same; [|exact Hs]. reflexivity.
    - destruct (back_up teqb w t p) as [w1|] eqn:Eb; [|exact Hs].
      destruct (C11Proofs.back_up_rd _ _ _ _ _ _ Eb) as [_ Hh]. eapply hist_sound_same; eauto.
    - destruct (restore teqb w t p) as [w1| |] eqn:Er; try exact Hs.
      destruct (C11Proofs.restore_rd _ _ _ _ _ _ Er) as [_ Hh]. eapply hist_sound_same; eauto.
    - eapply hist_sound_same; [|exact Hs]. rewrite run_line_rd. reflexivity.
    - apply (write_history_sound T teqb hc hl hr teqb_spec hr_inj); [exact Hs|]. apply (Hw r h eq_refl).
    - eapply hist_sound_same; [|exact Hs]. reflexivity.
  Qed.

  Lemma act_good_crash_ok (w : world) a : crash_ok w -> act_good w a -> crash_ok (do_act w a).
  Proof.
    intros (Hinv & Hs & Hn) Hg. split; [|split].
    - eapply (InvProofs.steps_preserve_inv T teqb hc teqb_spec); [exact Hinv|].
      eapply (act_good_steps T teqb hc hr); eauto.
    - apply do_act_hist_sound; [exact Hs|]. intros r h ->. exact Hg.
    - apply do_act_no_bad. exact Hn.
  Qed.

  Lemma acts_good_crash_ok acts : forall w : world, crash_ok w -> acts_good w acts -> crash_ok (run_acts acts w).
  Proof.
    induction acts as [|a rest IH]; intros w Hc; cbn [ActsGood.acts_good]; [intros _; exact Hc|].
    intros [Ha Hr]. rewrite (run_acts_cons T teqb hr). apply IH; [|exact Hr]. apply act_good_crash_ok; auto.
  Qed.

  Lemma acts_good_prefix_crash_ok (w : world) pre suf :
    crash_ok w -> acts_good w (pre ++ suf) -> crash_ok (run_acts pre w).
  Proof.
    intros Hc Hg. apply (acts_good_app T teqb hc hr) in Hg as [Hpre _]. apply acts_good_crash_ok; auto.
  Qed.

  (* ---------- the action list of a build over a DET plan is good ---------- *)

  Lemma build_acts_good_det (w : world) goal :
    disk_inv w -> hist_sound w -> build_det T w goal -> acts_good w (build_acts w RULES_PATH goal).
  Proof.
    intros Hinv Hs Hdet. apply (build_acts_good T teqb hc hl hr teqb_spec); [exact Hinv| |intros; exact I].
    intros w1 t pack st2 r wr h Hi Hg Hrun Hin Hh Hdr.
    pose proof (get_nodes_plan_wf T _ _ _ _ Hg) as Hwf.
    pose proof (Hdet _ _ _ Hi Hg) as Hdn.
    pose proof (build_run_good T teqb hc hl hr teqb_spec hc_inj hl_inj hr_inj _ _ _ _ _ Hinv Hs Hi Hwf Hdn Hrun)
      as Hgood.
    pose proof (g_res _ _ _ _ _ _ _ _ _ Hgood) as Hres. rewrite Forall_forall in Hres.
    specialize (Hres _ Hin). cbn [res_ok] in Hres. apply Hres; assumption.
  Qed.

  Lemma clean_acts_good_any (w : world) goal : disk_inv w -> acts_good w (clean_acts w RULES_PATH goal).
  Proof. intro Hinv. apply (clean_acts_good T teqb hc hr teqb_spec). exact Hinv. Qed.

  (* ================================================================== *)
  (* D3                                                                   *)
  (* ================================================================== *)

  Theorem acts_build_crash_ok : forall (w : world) goal pre suf,
    crash_ok w -> build_det T w goal ->
    build_acts w RULES_PATH goal = pre ++ suf ->
    crash_ok (run_acts pre w).
  Proof.
    intros w goal pre suf Hc Hdet E. apply (acts_good_prefix_crash_ok w pre suf Hc).
    rewrite <- E. destruct Hc as (Hinv & Hs & _). apply build_acts_good_det; assumption.
  Qed.

  Theorem acts_clean_crash_ok : forall (w : world) goal pre suf,
    crash_ok w -> clean_acts w RULES_PATH goal = pre ++ suf -> crash_ok (run_acts pre w).
  Proof.
    intros w goal pre suf Hc E. apply (acts_good_prefix_crash_ok w pre suf Hc).
    rewrite <- E. apply clean_acts_good_any. apply Hc.
  Qed.

  (* ================================================================== *)
  (* D4                                                                   *)
  (* ================================================================== *)

  (* what crash_ok gives the next build *)
  Lemma crash_ok_recovers (wc : world) goal' :
    crash_ok wc ->
    crash_ok wc /\ cache_addressed wc /\
    o_verdict (build wc RULES_PATH goal') <> VFatal FTable /\
    o_verdict (build wc RULES_PATH goal') <> VFatal FHistory /\
    (forall w1 tbl pack,
       init_dir T wc = Ok (w1, tbl) -> get_nodes T w1 RULES_PATH goal' = Ok pack ->
       Forall det_node (p_nodes pack) ->
       o_verdict (build wc RULES_PATH goal') = VOk ->
       forall t, In t (plan_targets pack) ->
         content_at (o_world (build wc RULES_PATH goal')) t = content_at (scratch_world wc pack) t).
  Proof.
    intros Hc. pose proof Hc as (Hinv & Hs & Hn).
    destruct (C11Proofs.build_not_wedged_main T teqb hc hl hr wc RULES_PATH goal' Hn) as [V1 V2].
    split; [exact Hc|]. split; [apply Hinv|]. split; [exact V1|]. split; [exact V2|].
    intros w1 tbl pack Hi Hg Hd Hv.
    eapply (incremental_equals_scratch T teqb hc hl hr teqb_spec hc_inj hl_inj hr_inj); eauto.
  Qed.

  Lemma tick_crash_ok (w : world) : crash_ok w -> crash_ok (tick w).
  Proof.
    intros (Hinv & Hs & Hn). split; [|split].
    - eapply (InvProofs.steps_preserve_inv T teqb hc teqb_spec); [exact Hinv|]. apply rt_step. apply STick.
    - eapply hist_sound_same; [|exact Hs]. reflexivity.
    - eapply C11Proofs.no_bad_same_state_files; [| |exact Hn]; reflexivity.
  Qed.

  Theorem c11_recovery_after_build_crash : forall (w : world) goal k goal' w1 tbl pack,
    crash_ok w -> build_det T w goal ->
    let wc := run_acts (firstn k (build_acts w RULES_PATH goal)) w in
    crash_ok wc /\ cache_addressed wc /\
    o_verdict (build wc RULES_PATH goal') <> VFatal FTable /\
    o_verdict (build wc RULES_PATH goal') <> VFatal FHistory /\
    (init_dir T wc = Ok (w1, tbl) -> get_nodes T w1 RULES_PATH goal' = Ok pack ->
     Forall det_node (p_nodes pack) ->
     o_verdict (build wc RULES_PATH goal') = VOk ->
     forall t, In t (plan_targets pack) ->
       content_at (o_world (build wc RULES_PATH goal')) t = content_at (scratch_world wc pack) t).
  Proof.
    intros w goal k goal' w1 tbl pack Hc Hdet wc.
    assert (crash_ok wc) as Hwc.
    { apply (acts_build_crash_ok w goal _ (skipn k (build_acts w RULES_PATH goal)) Hc Hdet).
      symmetry. apply firstn_skipn. }
    destruct (crash_ok_recovers wc goal' Hwc) as (R1 & R2 & R3 & R4 & R5).
    repeat (split; [assumption|]). intros Hi Hg. apply (R5 w1 tbl pack Hi Hg).
  Qed.

  Theorem c11_recovery_after_clean_crash : forall (w : world) goal k goal' w1 tbl pack,
    crash_ok w ->
    let wc := run_acts (firstn k (clean_acts w RULES_PATH goal)) w in
    crash_ok wc /\ cache_addressed wc /\
    o_verdict (build wc RULES_PATH goal') <> VFatal FTable /\
    o_verdict (build wc RULES_PATH goal') <> VFatal FHistory /\
    (init_dir T wc = Ok (w1, tbl) -> get_nodes T w1 RULES_PATH goal' = Ok pack ->
     Forall det_node (p_nodes pack) ->
     o_verdict (build wc RULES_PATH goal') = VOk ->
     forall t, In t (plan_targets pack) ->
       content_at (o_world (build wc RULES_PATH goal')) t = content_at (scratch_world wc pack) t).
  Proof.
    intros w goal k goal' w1 tbl pack Hc wc.
    assert (crash_ok wc) as Hwc.
    { apply (acts_clean_crash_ok w goal _ (skipn k (clean_acts w RULES_PATH goal)) Hc).
      symmetry. apply firstn_skipn. }
    destruct (crash_ok_recovers wc goal' Hwc) as (R1 & R2 & R3 & R4 & R5).
    repeat (split; [assumption|]). intros Hi Hg. apply (R5 w1 tbl pack Hi Hg).
  Qed.

  (* the user re-invokes ruler later: the same from `tick wc` *)
  Theorem c11_recovery_after_build_crash_tick : forall (w : world) goal k goal' w1 tbl pack,
    crash_ok w -> build_det T w goal ->
    let wc := tick (run_acts (firstn k (build_acts w RULES_PATH goal)) w) in
    crash_ok wc /\ cache_addressed wc /\
    o_verdict (build wc RULES_PATH goal') <> VFatal FTable /\
    o_verdict (build wc RULES_PATH goal') <> VFatal FHistory /\
    (init_dir T wc = Ok (w1, tbl) -> get_nodes T w1 RULES_PATH goal' = Ok pack ->
     Forall det_node (p_nodes pack) ->
     o_verdict (build wc RULES_PATH goal') = VOk ->
     forall t, In t (plan_targets pack) ->
       content_at (o_world (build wc RULES_PATH goal')) t = content_at (scratch_world wc pack) t).
  Proof.
    intros w goal k goal' w1 tbl pack Hc Hdet wc.
    assert (crash_ok wc) as Hwc.
    { apply tick_crash_ok. apply (acts_build_crash_ok w goal _ (skipn k (build_acts w RULES_PATH goal)) Hc Hdet).
      symmetry. apply firstn_skipn. }
    destruct (crash_ok_recovers wc goal' Hwc) as (R1 & R2 & R3 & R4 & R5).
    repeat (split; [assumption|]). intros Hi Hg. apply (R5 w1 tbl pack Hi Hg).
  Qed.

  Theorem c11_recovery_after_clean_crash_tick : forall (w : world) goal k goal' w1 tbl pack,
    crash_ok w ->
    let wc := tick (run_acts (firstn k (clean_acts w RULES_PATH goal)) w) in
    crash_ok wc /\ cache_addressed wc /\
    o_verdict (build wc RULES_PATH goal') <> VFatal FTable /\
    o_verdict (build wc RULES_PATH goal') <> VFatal FHistory /\
    (init_dir T wc = Ok (w1, tbl) -> get_nodes T w1 RULES_PATH goal' = Ok pack ->
     Forall det_node (p_nodes pack) ->
     o_verdict (build wc RULES_PATH goal') = VOk ->
     forall t, In t (plan_targets pack) ->
       content_at (o_world (build wc RULES_PATH goal')) t = content_at (scratch_world wc pack) t).
  Proof.
    intros w goal k goal' w1 tbl pack Hc wc.
    assert (crash_ok wc) as Hwc.
    { apply tick_crash_ok. apply (acts_clean_crash_ok w goal _ (skipn k (clean_acts w RULES_PATH goal)) Hc).
      symmetry. apply firstn_skipn. }
    destruct (crash_ok_recovers wc goal' Hwc) as (R1 & R2 & R3 & R4 & R5).
    repeat (split; [assumption|]). intros Hi Hg. apply (R5 w1 tbl pack Hi Hg).
  Qed.

  (* ================================================================== *)
  (* D5: along every history without user damage to the state files       *)
  (* ================================================================== *)

  Definition undamaging (o : op T) : Prop :=
    match o with OSetTable _ | OSetHist _ _ => False | _ => True end.

  Lemma no_bad_rd (w : world) rd' :
    no_bad w ->
    rd_table rd' <> Some SF_bad ->
    (forall hs' k, rd_hist rd' = Some hs' -> alookup teqb hs' k = Some SF_bad ->
                   exists hs, rd_hist (w_rd w) = Some hs /\ alookup teqb hs k = Some SF_bad) ->
    no_bad (tick (set_rd w rd')).
  Proof.
    intros [H1 H2] Ht Hh. split; [exact Ht|]. cbn. intros hs' k E Hl.
    destruct (Hh hs' k E Hl) as (hs & E0 & Hl0). exact (H2 hs k E0 Hl0).
  Qed.

  Lemma apply_op_no_bad (w : world) (o : op T) :
    disk_inv w -> no_bad w -> undamaging o -> no_bad (fst (apply_op w o)).
  Proof.
    intros Hinv Hn Hu. pose proof Hn as [H1 H2].
    destruct o as [p c | p | p x | p q | t | | | | | t | v | t v | goal | goal];
      cbn [Ops.apply_op fst]; unfold upd_rd; try (destruct Hu; fail).
    - eapply C11Proofs.no_bad_same_state_files; [| |exact Hn]; cbn [tick w_rd]; rewrite InvProofs.write_file_rd; reflexivity.
    - exact Hn.
    - eapply C11Proofs.no_bad_same_state_files; [| |exact Hn]; cbn [tick w_rd]; rewrite InvProofs.set_exec_rd; reflexivity.
    - eapply C11Proofs.no_bad_same_state_files; [| |exact Hn]; cbn [tick w_rd]; rewrite InvProofs.move_file_rd; reflexivity.
    - apply no_bad_rd; [exact Hn | exact H1 | cbn; eauto].
    - apply no_bad_rd; [exact Hn | cbn; discriminate | cbn; intros hs' k E; discriminate].
    - apply no_bad_rd; [exact Hn | exact H1 | cbn; eauto].
    - apply no_bad_rd; [exact Hn | exact H1 | cbn; intros hs' k E; discriminate].
    - apply no_bad_rd; [exact Hn | cbn; discriminate | cbn; eauto].
    - apply no_bad_rd; [exact Hn | exact H1 |]. cbn. intros hs' k E Hl.
      destruct (rd_hist (w_rd w)) as [hs|]; [|discriminate]. injection E as <-.
      apply (InvProofs.alookup_aremove_some _ teqb_spec) in Hl as [_ Hl]. eauto.
    - eapply C11Proofs.no_bad_same_state_files;
        [| |apply (C11Proofs.build_keeps_state_files_good T teqb hc hl hr teqb_spec w RULES_PATH goal Hinv Hn)];
        reflexivity.
    - eapply C11Proofs.no_bad_same_state_files;
        [| |apply (C11Proofs.clean_keeps_state_files_good T teqb hc teqb_spec w RULES_PATH goal Hinv Hn)];
        reflexivity.
  Qed.

  Lemma history_crash_ok_from ops : forall w : world,
    crash_ok w -> det_history T teqb hc hl hr w ops -> Forall undamaging ops -> crash_ok (run_ops ops w).
  Proof.
    induction ops as [|o rest IH]; intros w Hc Hd Hu; cbn [fold_left]; [exact Hc|].
    destruct Hc as (Hinv & Hs & Hn). destruct Hd as (Hsafe & Hdet & Hrest).
    inversion Hu as [|? ? Hu1 Hu2]; subst.
    apply IH; [|exact Hrest|exact Hu2]. split; [|split].
    - eapply (InvProofs.steps_preserve_inv T teqb hc teqb_spec); [exact Hinv|].
      apply (InvProofs.apply_op_steps T teqb hc teqb_spec); assumption.
    - apply (apply_op_hist_sound T teqb hc hl hr teqb_spec hc_inj hl_inj hr_inj); assumption.
    - apply apply_op_no_bad; assumption.
  Qed.

  Theorem history_crash_ok : forall t0 (ops : list (op T)),
    det_history T teqb hc hl hr (init_world Fine t0) ops ->
    Forall (fun o => match o with OSetTable _ | OSetHist _ _ => False | _ => True end) ops ->
    crash_ok (fold_left (fun w o => fst (apply_op w o)) ops (init_world Fine t0)).
  Proof.
    intros t0 ops Hd Hu. apply history_crash_ok_from; [|exact Hd|exact Hu].
    split; [apply (InvProofs.c07_init T teqb hc)|].
    split; [apply (hist_sound_init T teqb hc hl hr)|]. apply (C11Proofs.init_world_state_files_good T teqb).
  Qed.
End ActsCrash.
