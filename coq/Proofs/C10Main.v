(* C10, part 5: build, clean, build — the end-to-end statement. *)
From Coq Require Import Relations.Relation_Operators Relations.Operators_Properties.
From Ruler Require Import Tactics Bytes AList RuleSyntax Parser TopoSort TopoSpec World Cmdlang Work Build Ops Inv
     BuildSpec Ideal BytesFacts InvFacts TopoSortFacts BuildFacts C01Script C01Hist C01Build C01Plan
     C10Facts C10Summary C10Clean C10Restore.
Local Open Scope N_scope.

Section Main.
  Variable T : Type.
  Variable teqb : T -> T -> bool.
  Variable hc : bytes -> T.
  Variable hl : list T -> T.
  Variable hr : rule -> T.
  Hypothesis teqb_spec : forall a b, teqb a b = true <-> a = b.
  Hypothesis hc_inj : forall a b, hc a = hc b -> a = b.
  Hypothesis hr_inj : forall a b, hr a = hr b -> a = b.

  Notation world := (world T).
  Notation disk_inv := (disk_inv teqb hc).
  Notation steps := (clos_refl_trans world (step teqb hc)).
  Notation has_hash := (has_hash T hc).
  Notation hist_at := (hist_at T teqb).
  Notation hist_of := (hist_of T).
  Notation tk_of := (tk_of T hc).
  Notation trace_ok := (trace_ok T teqb hl).
  Notation entry_hashes := (entry_hashes T hc).
  Notation entry_hist := (entry_hist T teqb hr).
  Notation cache_has := (cache_has T teqb hc).
  Notation build := (build teqb hc hl hr).
  Notation clean := (clean teqb hc).

  (* what may happen between two invocations here: time passes, or nothing *)
  Definition pause (k : world -> world) : Prop :=
    forall w, w_files (k w) = w_files w /\ w_rd (k w) = w_rd w /\ steps w (k w).

  Lemma pause_tick : pause tick.
  Proof. intro w. split; [reflexivity|]. split; [reflexivity|]. apply rt_step. apply STick. Qed.

  Lemma pause_id : pause (fun w => w).
  Proof. intro w. split; [reflexivity|]. split; [reflexivity|]. apply rt_refl. Qed.

  Lemma pause_fget k (w : world) p : pause k -> fget (k w) p = fget w p.
  Proof. intro H. apply files_fget. apply H. Qed.

  Lemma pause_content k (w : world) p : pause k -> content_at (k w) p = content_at w p.
  Proof. intro H. apply content_at_files. apply H. Qed.

  Lemma pause_inv k (w : world) : pause k -> disk_inv w -> disk_inv (k w).
  Proof. intros H Hinv. eapply (inv_steps T teqb hc teqb_spec); [exact Hinv | apply H]. Qed.

  Lemma in_plan_targets_tr (tr : list (tentry T)) pack t :
    map fst tr = p_nodes pack -> In t (plan_targets pack) ->
    exists e, In e tr /\ In t (n_targets (fst e)).
  Proof.
    intros E Ht. unfold plan_targets in Ht. rewrite <- E in Ht.
    apply in_flat_map in Ht as (n & Hn & Ht). apply in_map_iff in Hn as (e & <- & He). eauto.
  Qed.

  Lemma chain (k1 k2 : world -> world) : pause k1 -> pause k2 ->
    forall (w : world) rp goal w1 tbl pack,
      disk_inv w -> init_dir T w = Ok (w1, tbl) -> get_nodes T w1 rp goal = Ok pack ->
      Forall det_node (p_nodes pack) -> ~ In rp (plan_targets pack) ->
      o_verdict (build w rp goal) = VOk ->
      let wa := k1 (o_world (build w rp goal)) in
      NoDup (map (fun t => content_at wa t) (plan_targets pack)) ->
      let oc := clean wa rp goal in
      let wb := k2 (o_world oc) in
      let o3 := build wb rp goal in
      o_verdict oc = VOk /\
      (forall t, In t (plan_targets pack) -> fget (o_world oc) t = None) /\
      (forall t f, In t (plan_targets pack) -> fget wa t = Some f ->
           exists c, cache_of (o_world oc) = Some c /\ alookup teqb c (hc (f_content f)) = Some f) /\
      o_verdict o3 = VOk /\ o_commands o3 = [] /\
      (forall t, In t (plan_targets pack) -> fget (o_world o3) t = fget wa t) /\
      (forall p, ~ In p (plan_targets pack) -> fget (o_world o3) p = fget wa p) /\
      Forall (fun s => fst s = BRecovered) (o_status o3).
  Proof.
    intros Hk1 Hk2 w rp goal w1 tbl pack Hinv Hi Hg Hdet Hrp Hv wa Hdistinct oc wb o3.
    set (W := o_world (build w rp goal)) in *.
    destruct (build_summary T teqb hc hl hr teqb_spec hr_inj w rp goal w1 tbl pack Hinv Hi Hg Hdet Hv)
      as (tr & Htrd & Hleaves & Htok & Hhash & Hhist & tbl' & Htbl').
    fold W in Hleaves, Htok, Hhash, Hhist, Htbl'.
    pose proof (get_nodes_plan_wf T _ _ _ _ Hg) as Hwf. pose proof Hwf as (Hnd & Hleafnt & _).
    (* the world before the clean *)
    assert (disk_inv W) as HinvW.
    { eapply (inv_steps T teqb hc teqb_spec); [exact Hinv|]. apply InvProofs.build_steps; assumption. }
    assert (disk_inv wa) as Hinva by (apply pause_inv; assumption).
    assert (forall p, content_at wa p = content_at W p) as Hca by (intro p; apply pause_content; exact Hk1).
    assert (w_rd wa = w_rd W) as Hrda by apply Hk1.
    assert (Forall (entry_hashes wa) tr) as Hhasha.
    { eapply Forall_impl; [|exact Hhash]. intros e He. unfold C10Facts.entry_hashes in *.
      eapply Forall2_impl; [|exact He]. intros t tk Hh. eapply has_hash_content; [|exact Hh]. apply Hca. }
    assert (forall t, In t (plan_targets pack) -> fget wa t <> None) as Hexa.
    { intros t Ht X. destruct (in_plan_targets_tr tr pack t Htrd Ht) as (e & He & Hte).
      rewrite Forall_forall in Hhasha. destruct (hashes_tk T hc _ _ _ (Hhasha e He)) as [_ Hne].
      apply (Hne t Hte). apply content_at_none. exact X. }
    assert (forall p, ~ In p (plan_targets pack) -> fget wa p = fget w p) as Hframea.
    { intros p Hp. unfold wa. rewrite (pause_fget k1 _ p Hk1).
      apply (build_frame T teqb hc hl hr w rp goal w1 tbl pack p Hi Hg (det_nodes_confined _ Hdet) Hp). }
    destruct (init_dir_ok T teqb _ _ _ Hi) as (Hfiles1 & _).
    assert (fget wa rp = fget w1 rp) as Hrpa.
    { rewrite (Hframea rp Hrp). symmetry. apply files_fget. exact Hfiles1. }
    destruct (init_dir T wa) as [[wa1 tbla]|f] eqn:Hia.
    2:{ unfold init_dir in Hia. rewrite Hrda, Htbl' in Hia. discriminate. }
    destruct (init_dir_ok T teqb _ _ _ Hia) as (Hfilesa1 & Hhata1 & _).
    assert (get_nodes T wa1 rp goal = Ok pack) as Hga1.
    { rewrite (get_nodes_ext T wa wa1), (get_nodes_ext T w1 wa); auto. apply files_fget. exact Hfilesa1. }
    assert (tbla = tbl') as ->.
    { destruct (InvProofs.init_dir_inv T teqb _ _ _ Hia) as (_ & _ & _ & _ & _ & [E | ->]).
      - rewrite Hrda, Htbl' in E. congruence.
      - unfold init_dir in Hia. rewrite Hrda, Htbl' in Hia. injection Hia as _ <-. reflexivity. }
    pose proof (distinct_on_of_nodup T wa _ Hdistinct) as Hdist.
    (* the clean *)
    destruct (clean_summary T teqb hc teqb_spec hc_inj wa rp goal wa1 tbl' pack Hinva Hia Hga1 Hnd Hexa Hdist)
      as (Hvc & Hchc & Hhistc & Htblc).
    fold oc in Hvc, Hchc, Hhistc, Htblc.
    pose proof (clean_removes_all_targets T teqb hc wa rp goal wa1 tbl' pack Hia Hga1 Hvc) as Hgone.
    fold oc in Hgone.
    assert (forall p, ~ In p (plan_targets pack) -> fget (o_world oc) p = fget wa p) as Hframec.
    { intros p Hp. apply (clean_frame T teqb hc wa rp goal wa1 tbl' pack p Hia Hga1 Hp). }
    split; [exact Hvc|]. split; [exact Hgone|]. split.
    { intros t f Ht Hf. destruct Hchc as (c & Hc & Hcf). exists c. split; [exact Hc|]. apply (Hcf t f Ht Hf). }
    (* the world before the second build *)
    assert (disk_inv wb) as Hinvb.
    { apply pause_inv; [exact Hk2|]. eapply (inv_steps T teqb hc teqb_spec); [exact Hinva|].
      apply InvProofs.clean_steps; assumption. }
    assert (forall p, fget wb p = fget (o_world oc) p) as Hfb by (intro p; apply pause_fget; exact Hk2).
    assert (w_rd wb = w_rd (o_world oc)) as Hrdb by apply Hk2.
    apply (restore_build T teqb hc hl hr teqb_spec hc_inj wa wb rp goal pack tr tbl').
    - exact Hinvb.
    - rewrite Hrdb. exact Htblc.
    - rewrite (get_nodes_ext T wa wb), (get_nodes_ext T w1 wa); auto.
      rewrite Hfb. apply Hframec. exact Hrp.
    - exact Hwf.
    - exact Htrd.
    - intros t Ht. rewrite Hfb. apply Hgone. exact Ht.
    - intros q Hq. rewrite Hfb. apply Hframec. exact Hq.
    - destruct Hchc as (c & Hc & Hcf). exists c. split; [|exact Hcf]. unfold cache_of in *. rewrite Hrdb. exact Hc.
    - exact Hdist.
    - intros l Hl. rewrite Hca. apply Hleaves. exact Hl.
    - replace (map (fun l => Some [tk_of wa l]) (p_leaves pack))
        with (map (fun l => Some [tk_of W l]) (p_leaves pack)); [exact Htok|].
      apply map_ext. intro l. do 2 f_equal. symmetry. apply tk_of_content. apply Hca.
    - exact Hhasha.
    - eapply Forall_impl; [|exact Hhist]. intros e He h' Hh'.
      assert (hist_of wb = hist_of wa1) as E1.
      { unfold BuildFacts.hist_of in *. rewrite Hrdb. exact Hhistc. }
      rewrite (hist_at_of_eq T teqb wa1 wb _ E1), Hhata1.
      rewrite (hist_at_of_eq T teqb W wa); [apply He; exact Hh'|].
      unfold BuildFacts.hist_of. rewrite Hrda. reflexivity.
  Qed.

  (* B1 *)
  Theorem clean_then_build_restores : forall (w : world) rp goal w1 tbl pack,
    disk_inv w -> init_dir T w = Ok (w1, tbl) -> get_nodes T w1 rp goal = Ok pack ->
    Forall det_node (p_nodes pack) -> ~ In rp (plan_targets pack) ->
    o_verdict (build w rp goal) = VOk ->
    let wa := tick (o_world (build w rp goal)) in
    NoDup (map (fun t => content_at wa t) (plan_targets pack)) ->
    let oc := clean wa rp goal in
    let wb := tick (o_world oc) in
    let o3 := build wb rp goal in
    o_verdict oc = VOk /\
    (forall t, In t (plan_targets pack) -> fget (o_world oc) t = None) /\
    (forall t f, In t (plan_targets pack) -> fget wa t = Some f ->
         exists c, cache_of (o_world oc) = Some c /\ alookup teqb c (hc (f_content f)) = Some f) /\
    o_verdict o3 = VOk /\ o_commands o3 = [] /\
    (forall t, In t (plan_targets pack) -> fget (o_world o3) t = fget wa t) /\
    (forall p, ~ In p (plan_targets pack) -> fget (o_world o3) p = fget wa p) /\
    Forall (fun s => fst s = BRecovered) (o_status o3).
  Proof. exact (chain tick tick pause_tick pause_tick). Qed.

  Theorem clean_then_build_restores_no_tick : forall (w : world) rp goal w1 tbl pack,
    disk_inv w -> init_dir T w = Ok (w1, tbl) -> get_nodes T w1 rp goal = Ok pack ->
    Forall det_node (p_nodes pack) -> ~ In rp (plan_targets pack) ->
    o_verdict (build w rp goal) = VOk ->
    let wa := o_world (build w rp goal) in
    NoDup (map (fun t => content_at wa t) (plan_targets pack)) ->
    let oc := clean wa rp goal in
    let wb := o_world oc in
    let o3 := build wb rp goal in
    o_verdict oc = VOk /\
    (forall t, In t (plan_targets pack) -> fget (o_world oc) t = None) /\
    (forall t f, In t (plan_targets pack) -> fget wa t = Some f ->
         exists c, cache_of (o_world oc) = Some c /\ alookup teqb c (hc (f_content f)) = Some f) /\
    o_verdict o3 = VOk /\ o_commands o3 = [] /\
    (forall t, In t (plan_targets pack) -> fget (o_world o3) t = fget wa t) /\
    (forall p, ~ In p (plan_targets pack) -> fget (o_world o3) p = fget wa p) /\
    Forall (fun s => fst s = BRecovered) (o_status o3).
  Proof. exact (chain (fun w => w) (fun w => w) pause_id pause_id). Qed.
End Main.
