(* F6: the point of the repair, as a theorem about the action list of Model/Acts.v.

   Before any worker starts, main saves what is left of the table once every worker's blob has been taken out
   (`AWriteTable (table_rest t pack)`, right after the init actions). From then on and until the final write —
   the last action of a build that does not stop on an unreadable history file — the table on disk is exactly
   that remainder, and the remainder has NO entry for any leaf or any target of the plan. So whatever a worker
   does to a target (a restore from the cache, a command), a kill leaves no remembered state that could describe
   the replaced file and match the new one by modification time.

   This is a fact about alookup / aremove / take_blob and about which actions touch the table file: it holds for
   ANY clock mode and needs no invariant of the world and no hypothesis on the hashes. *)
From Ruler Require Import Tactics Bytes AList RuleSyntax Parser TopoSort World Cmdlang Work Build Ops Inv Acts
  BuildSpec BytesFacts InvFacts TableFrame BuildFacts ActsSound.
Import ListNotations.

Section F6.
  Variable T : Type.
  Variable teqb : T -> T -> bool.
  Variable hc : bytes -> T.
  Variable hl : list T -> T.
  Variable hr : rule -> T.

  Notation world := (world T).
  Notation table := (table T).
  Notation do_act := (do_act teqb hr).
  Notation run_acts := (run_acts teqb hr).

  (* ================================================================== *)
  (* 1. what take_blob / take_blobs leave has no entry for a taken path   *)
  (* ================================================================== *)

  Lemma take_blob_none_stays ps (t : table) p :
    alookup bytes_eqb t p = None -> alookup bytes_eqb (snd (take_blob T hc t ps)) p = None.
  Proof.
    intro Hn. destruct (alookup bytes_eqb (snd (take_blob T hc t ps)) p) as [s|] eqn:E; [|reflexivity].
    apply (InvProofs.take_blob_rest_sub T hc) in E. congruence.
  Qed.

  Lemma take_blobs_none_stays pss (t : table) p :
    alookup bytes_eqb t p = None -> alookup bytes_eqb (snd (take_blobs T hc t pss)) p = None.
  Proof.
    intro Hn. destruct (alookup bytes_eqb (snd (take_blobs T hc t pss)) p) as [s|] eqn:E; [|reflexivity].
    apply (InvProofs.take_blobs_rest_sub T hc) in E. congruence.
  Qed.

  Lemma take_blob_removed ps : forall (t : table) p,
    In p ps -> alookup bytes_eqb (snd (take_blob T hc t ps)) p = None.
  Proof.
    induction ps as [|q rest IH]; intros t p Hin; [destruct Hin|].
    cbn [take_blob].
    pose proof (take_blob_none_stays rest (aremove bytes_eqb t q) p) as Hstay.
    specialize (IH (aremove bytes_eqb t q) p).
    destruct (take_blob T hc (aremove bytes_eqb t q) rest) as [b t2]. cbn [snd] in *.
    destruct Hin as [-> | Hin]; [|exact (IH Hin)].
    apply Hstay. apply alookup_aremove_eq.
  Qed.

  Lemma take_blobs_removed pss : forall (t : table) p,
    In p (concat pss) -> alookup bytes_eqb (snd (take_blobs T hc t pss)) p = None.
  Proof.
    induction pss as [|ps rest IH]; intros t p Hin; [destruct Hin|].
    cbn [take_blobs concat] in *.
    pose proof (take_blob_removed ps t p) as H1.
    destruct (take_blob T hc t ps) as [b t1]. cbn [snd] in H1.
    pose proof (take_blobs_none_stays rest t1 p) as Hstay. specialize (IH t1 p).
    destruct (take_blobs T hc t1 rest) as [bs t2]. cbn [snd] in *.
    apply in_app_or in Hin as [Hin | Hin]; auto.
  Qed.

  (* the paths of the workers are the leaves and the targets of the plan *)
  Lemma worker_paths_spec pack p :
    In p (concat (worker_paths pack)) <-> In p (p_leaves pack) \/ In p (plan_targets pack).
  Proof.
    unfold worker_paths, plan_targets. rewrite concat_app, in_app_iff, <- !flat_map_concat_map.
    assert (In p (flat_map (fun l : bytes => [l]) (p_leaves pack)) <-> In p (p_leaves pack)) as ->; [|reflexivity].
    rewrite in_flat_map. split.
    - intros (l & Hl & [-> | []]). exact Hl.
    - intro Hl. exists p. split; [exact Hl | left; reflexivity].
  Qed.

  Theorem table_rest_no_entry (t : table) pack p :
    In p (concat (worker_paths pack)) -> alookup bytes_eqb (table_rest T hc t pack) p = None.
  Proof. apply take_blobs_removed. Qed.

  (* ... and it only lost entries: what it has, the table read by init_dir had *)
  Theorem table_rest_sub (t : table) pack p s :
    alookup bytes_eqb (table_rest T hc t pack) p = Some s -> alookup bytes_eqb t p = Some s.
  Proof. apply (InvProofs.take_blobs_rest_sub T hc). Qed.

  (* ================================================================== *)
  (* 2. the actions that leave the table file alone                       *)
  (* ================================================================== *)

  Definition table_neutral (a : act T) : Prop :=
    match a with
    | ABackup _ _ | ARestore _ _ | ALine _ | AWriteHist _ _ => True
    | _ => False
    end.

  Lemma run_line_table (w : world) l : rd_table (w_rd (snd (run_line w l))) = rd_table (w_rd w).
  Proof.
    pose proof (run_line_st T (rd_table (w_rd w)) w l) as H. rewrite set_tbl_same in H.
    apply (f_equal snd) in H. cbn [snd] in H. rewrite H. reflexivity.
  Qed.

  Lemma do_act_neutral (w : world) a : table_neutral a -> rd_table (w_rd (do_act w a)) = rd_table (w_rd w).
  Proof.
    destruct a as [| | | |p t|t p|l|r h|tbl]; cbn [table_neutral Acts.do_act]; intro H; try destruct H.
    - unfold back_up. destruct (cache_of w); [|reflexivity]. destruct (fget w p); reflexivity.
    - unfold restore. destruct (cache_of w) as [c|]; [|reflexivity]. destruct (alookup teqb c t); reflexivity.
    - apply run_line_table.
    - unfold write_history. destruct (rd_hist (w_rd w)); reflexivity.
  Qed.

  Lemma run_acts_neutral l : forall w : world,
    Forall table_neutral l -> rd_table (w_rd (run_acts l w)) = rd_table (w_rd w).
  Proof.
    induction l as [|a rest IH]; intros w HF; [reflexivity|].
    inversion HF as [|? ? Ha Hrest]; subst. rewrite run_acts_cons, IH by exact Hrest.
    apply do_act_neutral. exact Ha.
  Qed.

  (* ================================================================== *)
  (* 3. the workers and main's join loop emit such actions only           *)
  (* ================================================================== *)

  Lemma restore_acts_neutral (w : world) t p : Forall table_neutral (restore_acts T teqb w t p).
  Proof. unfold restore_acts. destruct (restore teqb w t p); repeat constructor. Qed.

  Lemma resolve_single_acts_neutral (w : world) rem p a :
    Forall table_neutral (resolve_single_acts T teqb hc w rem p a).
  Proof.
    unfold resolve_single_acts. destruct (get_file_ticket teqb hc w p a) as [cur|]; [|apply restore_acts_neutral].
    destruct (teqb rem cur); [constructor|]. destruct (back_up teqb w cur p) as [w1|]; [|constructor].
    constructor; [exact I | apply restore_acts_neutral].
  Qed.

  Lemma resolve_remembered_acts_neutral b : forall (w : world) rem,
    Forall table_neutral (resolve_remembered_acts T teqb hc w b rem).
  Proof.
    induction b as [|[p a] rest IH]; intros w rem; cbn [resolve_remembered_acts]; [constructor|].
    destruct rem as [|r rrest]; [constructor|]. apply Forall_app. split; [apply resolve_single_acts_neutral|].
    destruct (resolve_single teqb hc w (fs_t r) p a) as [[res w1]|e]; [apply IH | constructor].
  Qed.

  Lemma resolve_fresh_acts_neutral b : forall (w : world),
    Forall table_neutral (resolve_fresh_acts T teqb hc w b).
  Proof.
    induction b as [|[p a] rest IH]; intros w; cbn [resolve_fresh_acts]; [constructor|].
    destruct (get_file_ticket teqb hc w p a) as [cur|]; [|apply IH].
    destruct (back_up teqb w cur p) as [w1|]; [|constructor]. constructor; [exact I | apply IH].
  Qed.

  Lemma lines_neutral lines : Forall table_neutral (map (@ALine T) lines).
  Proof. apply Forall_forall. intros a Ha. apply in_map_iff in Ha as (l & <- & _). exact I. Qed.

  Lemma handle_rule_acts_neutral (w : world) b h st cmd :
    Forall table_neutral (handle_rule_acts teqb hc w b h st cmd).
  Proof.
    unfold handle_rule_acts. cbv zeta. destruct (alookup teqb h st) as [rem|].
    - destruct (resolve_remembered teqb hc w b rem) as [[ress w1]|e]; [|constructor].
      apply Forall_app. split; [apply resolve_remembered_acts_neutral|].
      destruct (needs_rebuild ress); [apply lines_neutral | constructor].
    - destruct (resolve_fresh teqb hc w b) as [[ress w1]|e]; [|constructor].
      apply Forall_app. split; [apply resolve_fresh_acts_neutral|].
      destruct (needs_rebuild ress); [apply lines_neutral | constructor].
  Qed.

  Lemma run_node_acts_neutral st n : Forall table_neutral (run_node_acts T teqb hc hl hr st n).
  Proof.
    unfold run_node_acts. destruct (take_blob T hc (rs_table T st) (n_targets n)) as [b t'].
    destruct (read_history T teqb hr (rs_world T st) (n_rule n)) as [h|]; [|constructor].
    destruct (all_some _) as [tickets|]; [apply handle_rule_acts_neutral | constructor].
  Qed.

  Lemma run_nodes_acts_neutral ns : forall st, Forall table_neutral (run_nodes_acts T teqb hc hl hr st ns).
  Proof.
    induction ns as [|n rest IH]; intro st; cbn [run_nodes_acts]; [constructor|].
    destruct (run_node T teqb hc hl hr st n) as [st1|]; [|constructor].
    apply Forall_app. split; [apply run_node_acts_neutral | apply IH].
  Qed.

  Lemma join_acts_neutral results : Forall table_neutral (join_acts T results).
  Proof.
    unfold join_acts. apply Forall_forall. intros a Ha. apply in_flat_map in Ha as (res & _ & Ha).
    destruct res as [[r|] [wr|e|]]; try destruct Ha. destruct (wr_history wr) as [h|]; [|destruct Ha].
    destruct Ha as [<- | []]. exact I.
  Qed.

  Lemma init_acts_no_write (w : world) tbl : ~ In (AWriteTable tbl) (init_acts w).
  Proof.
    unfold init_acts. intro H.
    repeat (apply in_app_or in H as [H | H]).
    - destruct (rd_exists (w_rd w)); [destruct H | destruct H as [H | []]; discriminate].
    - destruct (rd_cache (w_rd w)); [destruct H | destruct H as [H | []]; discriminate].
    - destruct (rd_hist (w_rd w)); [destruct H | destruct H as [H | []]; discriminate].
    - destruct (rd_table (w_rd w)); [destruct H | destruct H as [H | []]; discriminate].
  Qed.

  (* ================================================================== *)
  (* 4. prefixes                                                          *)
  (* ================================================================== *)

  Lemma app_split {A} (a : list A) : forall b c d,
    a ++ b = c ++ d -> (exists m, a = c ++ m /\ d = m ++ b) \/ (exists m, c = a ++ m /\ b = m ++ d).
  Proof.
    induction a as [|x a IH]; intros b c d H.
    - right. exists c. split; [reflexivity | exact H].
    - destruct c as [|y c].
      + left. exists (x :: a). split; [reflexivity | symmetry; exact H].
      + cbn [app] in H. injection H as -> H. apply IH in H as [(m & -> & ->) | (m & -> & ->)].
        * left. exists m. split; reflexivity.
        * right. exists m. split; reflexivity.
  Qed.

  (* a prefix that leaves something to do does not contain the last element *)
  Lemma prefix_of_snoc {A} (m : list A) : forall suf body z,
    m ++ suf = body ++ [z] -> suf <> [] -> exists k, body = m ++ k.
  Proof.
    induction m as [|a m IH]; intros suf body z H Hs; [exists body; reflexivity|].
    destruct body as [|b body].
    - cbn [app] in H. injection H as _ H. apply app_eq_nil in H as [_ H]. contradiction.
    - cbn [app] in H. injection H as -> H. destruct (IH _ _ _ H Hs) as (k & ->). exists k. reflexivity.
  Qed.

  (* ================================================================== *)
  (* 5. the theorem                                                       *)
  (* ================================================================== *)

  (* `pre` is what ruler had done when it was killed. If `pre` contains the early write of the table, and the
     final write is still to come (something remains to be done: the final write is the last action) or will never
     come (the build stops on an unreadable history file), then the table file on disk is table_rest t pack, which
     has no entry for any leaf and any target of the plan. *)
  Theorem f6_no_stale_entries_gen : forall (w : world) rp goal w1 t pack pre suf,
    init_dir T w = Ok (w1, t) -> get_nodes T w1 rp goal = Ok pack ->
    build_acts teqb hc hl hr w rp goal = pre ++ suf ->
    In (AWriteTable (table_rest T hc t pack)) pre ->
    (suf = [] -> o_verdict (build teqb hc hl hr w rp goal) = VFatal FHistory) ->
    rd_table (w_rd (run_acts pre w)) = Some (SF_ok (table_rest T hc t pack)) /\
    (forall p, In p (p_leaves pack) \/ In p (plan_targets pack) ->
               alookup bytes_eqb (table_rest T hc t pack) p = None).
  Proof.
    intros w rp goal w1 t pack pre suf Hi Hg Hacts Hin Hsuf.
    split; [|intros p Hp; apply table_rest_no_entry, worker_paths_spec; exact Hp].
    rewrite build_acts_eq, Hi, Hg in Hacts. cbv zeta in Hacts.
    rewrite (build_eq0 T teqb hc hl hr), Hi, Hg in Hsuf. cbv zeta in Hsuf.
    set (trest := table_rest T hc t pack) in *.
    set (st1 := st_leaves T teqb hc (write_table T w1 trest) t pack) in *.
    symmetry in Hacts. apply app_split in Hacts as [(m & Hpre & Hrest) | (m & Hinit & _)].
    2:{ exfalso. apply (init_acts_no_write w trest). rewrite Hinit. apply in_or_app. left. exact Hin. }
    destruct m as [|a m].
    { exfalso. apply (init_acts_no_write w trest). rewrite Hpre, app_nil_r in Hin. exact Hin. }
    cbn [app] in Hrest. injection Hrest as <- Hrest. subst pre.
    rewrite run_acts_app, (init_acts_ok T teqb hr _ _ _ Hi), run_acts_cons. cbn [Acts.do_act].
    rewrite run_acts_neutral; [reflexivity|].
    destruct (run_nodes T teqb hc hl hr st1 (p_nodes pack)) as [st2|] eqn:En.
    - assert (suf <> []) as Hne.
      { intro E. specialize (Hsuf E). cbn [o_verdict] in Hsuf.
        destruct (js_errors T (joined T teqb hr st2)); discriminate. }
      rewrite app_assoc in Hrest. symmetry in Hrest.
      destruct (prefix_of_snoc _ _ _ _ Hrest Hne) as (k & Hk).
      assert (Forall table_neutral (m ++ k)) as HF.
      { rewrite <- Hk. apply Forall_app. split; [apply run_nodes_acts_neutral | apply join_acts_neutral]. }
      apply Forall_app in HF. apply HF.
    - rewrite app_nil_r in Hrest.
      assert (Forall table_neutral (m ++ suf)) as HF by (rewrite <- Hrest; apply run_nodes_acts_neutral).
      apply Forall_app in HF. apply HF.
  Qed.

  (* the invocation as the history alphabet performs it (rules file RULES_PATH) *)
  Theorem f6_no_stale_entries : forall (w : world) goal w1 t pack pre suf,
    init_dir T w = Ok (w1, t) -> get_nodes T w1 RULES_PATH goal = Ok pack ->
    build_acts teqb hc hl hr w RULES_PATH goal = pre ++ suf ->
    In (AWriteTable (table_rest T hc t pack)) pre ->
    (suf = [] -> o_verdict (build teqb hc hl hr w RULES_PATH goal) = VFatal FHistory) ->
    rd_table (w_rd (run_acts pre w)) = Some (SF_ok (table_rest T hc t pack)) /\
    (forall p, In p (p_leaves pack) \/ In p (plan_targets pack) ->
               alookup bytes_eqb (table_rest T hc t pack) p = None).
  Proof. intros w goal. apply f6_no_stale_entries_gen. Qed.

  (* by position: every crash state strictly after the init actions and strictly before the end of the list *)
  Corollary f6_no_stale_entries_at : forall (w : world) goal w1 t pack k tbl,
    init_dir T w = Ok (w1, t) -> get_nodes T w1 RULES_PATH goal = Ok pack ->
    (length (init_acts w) < k < length (build_acts teqb hc hl hr w RULES_PATH goal))%nat ->
    rd_table (w_rd (run_acts (firstn k (build_acts teqb hc hl hr w RULES_PATH goal)) w)) = Some (SF_ok tbl) ->
    forall p, In p (p_leaves pack) \/ In p (plan_targets pack) -> alookup bytes_eqb tbl p = None.
  Proof.
    intros w goal w1 t pack k tbl Hi Hg [Hlo Hhi] Htbl.
    set (acts := build_acts teqb hc hl hr w RULES_PATH goal) in *.
    assert (In (AWriteTable (table_rest T hc t pack)) (firstn k acts)) as Hin.
    { unfold acts. rewrite build_acts_eq, Hi, Hg. cbv zeta.
      rewrite firstn_app. apply in_or_app. right.
      destruct (k - length (init_acts w))%nat as [|j] eqn:Ej; [lia|]. left. reflexivity. }
    destruct (f6_no_stale_entries w goal w1 t pack (firstn k acts) (skipn k acts) Hi Hg) as [Ht Hno].
    - symmetry. apply firstn_skipn.
    - exact Hin.
    - intro E. exfalso. apply (f_equal (@length _)) in E. rewrite skipn_length in E. cbn in E. lia.
    - rewrite Ht in Htbl. injection Htbl as <-. exact Hno.
  Qed.
End F6.

(* ================================================================== *)
(* the closed instance with the free symbolic hashes                     *)
(* ================================================================== *)

Theorem f6_no_stale_entries_sym : forall (w : world sym) goal w1 t pack pre suf,
  init_dir sym w = Ok (w1, t) -> get_nodes sym w1 RULES_PATH goal = Ok pack ->
  build_acts sym_eqb SContent SList SRule w RULES_PATH goal = pre ++ suf ->
  In (AWriteTable (table_rest sym SContent t pack)) pre ->
  (suf = [] -> o_verdict (build sym_eqb SContent SList SRule w RULES_PATH goal) = VFatal FHistory) ->
  rd_table (w_rd (run_acts sym_eqb SRule pre w)) = Some (SF_ok (table_rest sym SContent t pack)) /\
  (forall p, In p (p_leaves pack) \/ In p (plan_targets pack) ->
             alookup bytes_eqb (table_rest sym SContent t pack) p = None).
Proof. exact (f6_no_stale_entries sym sym_eqb SContent SList SRule). Qed.

Theorem f6_no_stale_entries_at_sym : forall (w : world sym) goal w1 t pack k tbl,
  init_dir sym w = Ok (w1, t) -> get_nodes sym w1 RULES_PATH goal = Ok pack ->
  (length (init_acts w) < k < length (build_acts sym_eqb SContent SList SRule w RULES_PATH goal))%nat ->
  rd_table (w_rd (run_acts sym_eqb SRule (firstn k (build_acts sym_eqb SContent SList SRule w RULES_PATH goal)) w))
  = Some (SF_ok tbl) ->
  forall p, In p (p_leaves pack) \/ In p (plan_targets pack) -> alookup bytes_eqb tbl p = None.
Proof. exact (f6_no_stale_entries_at sym sym_eqb SContent SList SRule). Qed.

(* ================================================================== *)
(* non-vacuity: a coarse clock, a second build killed after the first    *)
(* target has been replaced                                              *)
(* ================================================================== *)

From Coq Require Import String Ascii.
From Ruler Require Import Ideal C01Facts ActsFacts.

(* s, the rules a <- s, b <- a, c <- a; a build; s edited. The clock is coarse. *)
Definition f6_w : world sym :=
  run_sym (ex_ops0 ++ [OBuild None; OWrite (bs "s") (bs "2")]) (init_world Coarse 1).

Notation f6_acts := (build_acts_sym f6_w RULES_PATH None).

(* killed after: the early write of the table, the back-up of the old `a`, the command of `a` *)
Notation f6_wc := (run_acts_sym (firstn 3 f6_acts) f6_w).

Definition table_entry (w : world sym) (p : bytes) : option (fstate sym) :=
  match rd_table (w_rd w) with Some (SF_ok t) => alookup bytes_eqb t p | _ => None end.

(* the table the build started from remembers `a`; `a` has been replaced when ruler is killed, under a clock
   that gives the new file the time of the old one's generation; the table on disk does not mention `a` *)
Example ex_f6_crash_state :
  w_mode f6_w = Coarse /\ (3 < length f6_acts)%nat /\
  table_entry f6_w (bs "a") <> None /\
  content_at f6_w (bs "a") = Some (bs "1") /\ content_at f6_wc (bs "a") = Some (bs "2") /\
  table_entry f6_wc (bs "a") = None /\ rd_table (w_rd f6_wc) = Some (SF_ok []).
Proof. vm_compute. repeat split; try discriminate. repeat constructor. Qed.

(* the same from the theorem: its hypotheses hold on this world *)
Example ex_f6_theorem_applies : forall tbl,
  rd_table (w_rd f6_wc) = Some (SF_ok tbl) ->
  forall p, In p [bs "s"; bs "a"; bs "b"; bs "c"] -> alookup bytes_eqb tbl p = None.
Proof.
  intros tbl Ht p Hp.
  destruct (init_dir sym f6_w) as [[w1 t]|f] eqn:Ei; [|vm_compute in Ei; discriminate].
  destruct (get_nodes sym w1 RULES_PATH None) as [pack|f] eqn:Eg.
  2:{ vm_compute in Ei. injection Ei as <- <-. vm_compute in Eg. discriminate. }
  apply (f6_no_stale_entries_at_sym f6_w None w1 t pack 3 tbl Ei Eg).
  - vm_compute. lia.
  - exact Ht.
  - vm_compute in Ei. injection Ei as <- <-. vm_compute in Eg. injection Eg as <-.
    cbn [p_leaves plan_targets p_nodes flat_map n_targets app].
    destruct Hp as [<- | [<- | [<- | [<- | []]]]]; vm_compute; auto 10.
Qed.
