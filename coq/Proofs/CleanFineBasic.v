(* CLEAN-FINE, part 1: Model/CleanFine.v, definitional facts.
   - the shape of one step of one thread (cstep_cases);
   - K2: every step strictly decreases `cmeasure` (cstep_decreases); in a state in which some thread has not
     ended that thread can move (clean_no_deadlock); hence every run can be completed (clean_completable);
   - K1: the serial run is Build.clean (clean_fine_serial_main). *)
From Ruler Require Import Tactics Bytes AList RuleSyntax TopoSort World Cmdlang Work Build Ops Inv
     BuildSpec Sched CleanFine BytesFacts InvFacts BuildFacts SchedBasic FineBasic.
Local Open Scope nat_scope.

(* ================================================================== *)
(* lists                                                                *)
(* ================================================================== *)

Lemma set_nth_twice {A} k (u v : A) l : set_nth k v (set_nth k u l) = set_nth k v l.
Proof.
  revert k. induction l as [|x l IH]; intros [|k]; cbn [set_nth]; try reflexivity. f_equal. apply IH.
Qed.

Lemma nth_overflow_none {A} (l : list (option A)) k : length l <= k -> nth k l None = None.
Proof. intro H. apply nth_overflow. exact H. Qed.

Lemma nth_some_lt {A} (l : list (option A)) k x : nth k l None = Some x -> k < length l.
Proof.
  intro H. destruct (Nat.lt_ge_cases k (length l)) as [Hlt | Hge]; [exact Hlt|].
  rewrite (nth_overflow_none l k Hge) in H. discriminate.
Qed.

Lemma nth_error_none_ge {A} (l : list A) i : nth_error l i = None -> length l <= i.
Proof. apply nth_error_None. Qed.

Lemma nth_error_some_lt {A} (l : list A) i x : nth_error l i = Some x -> i < length l.
Proof. intro H. apply nth_error_Some. congruence. Qed.

Lemma skipn_nth_error_cons {A} (l : list A) : forall i x, nth_error l i = Some x -> skipn i l = x :: skipn (S i) l.
Proof.
  induction l as [|y l IH]; intros [|i] x H; cbn in H; try discriminate.
  - injection H as <-. reflexivity.
  - cbn [skipn]. rewrite (IH i x H). destruct l; reflexivity.
Qed.

Lemma skipn_all_ge {A} (l : list A) i : length l <= i -> skipn i l = [].
Proof. intro H. apply skipn_all2. exact H. Qed.

Section CleanFineBasic.
  Variable T : Type.
  Variable teqb : T -> T -> bool.
  Variable hc : bytes -> T.

  Notation world := (world T).
  Notation fstate := (fstate T).
  Notation cstate := (cstate T).
  Notation cstep := (cstep teqb hc).
  Notation crun := (crun teqb hc).

  (* ================================================================== *)
  (* the shape of a step                                                  *)
  (* ================================================================== *)

  Inductive cstep_kind (blobs : list (blob T)) (st : cstate) (k : nat) (st' : cstate) : Prop :=
  | CKEnd i :
      nth k (cs_pos st) None = Some i -> nth_error (nth k blobs []) i = None ->
      st' = mk_cs (cs_world st) (set_nth k None (cs_pos st)) (cs_err st) -> cstep_kind blobs st k st'
  | CKAbsent i p a :
      nth k (cs_pos st) None = Some i -> nth_error (nth k blobs []) i = Some (p, a) ->
      get_file_ticket teqb hc (cs_world st) p a = None ->
      st' = mk_cs (cs_world st) (set_nth k (Some (S i)) (cs_pos st)) (cs_err st) -> cstep_kind blobs st k st'
  | CKFail i p a t :
      nth k (cs_pos st) None = Some i -> nth_error (nth k blobs []) i = Some (p, a) ->
      get_file_ticket teqb hc (cs_world st) p a = Some t -> back_up teqb (cs_world st) t p = None ->
      st' = mk_cs (cs_world st) (set_nth k None (cs_pos st)) (set_nth k (Some WCacheDirMissing) (cs_err st)) ->
      cstep_kind blobs st k st'
  | CKMove i p a t w1 :
      nth k (cs_pos st) None = Some i -> nth_error (nth k blobs []) i = Some (p, a) ->
      get_file_ticket teqb hc (cs_world st) p a = Some t -> back_up teqb (cs_world st) t p = Some w1 ->
      st' = mk_cs w1 (set_nth k (Some (S i)) (cs_pos st)) (cs_err st) -> cstep_kind blobs st k st'.

  Lemma cstep_cases blobs st k st' : cstep blobs st k = Some st' -> cstep_kind blobs st k st'.
  Proof.
    unfold CleanFine.cstep. destruct (nth k (cs_pos st) None) as [i|] eqn:Ep; [|discriminate].
    destruct (nth_error (nth k blobs []) i) as [[p a]|] eqn:Eb.
    - destruct (get_file_ticket teqb hc (cs_world st) p a) as [t|] eqn:Eg.
      + destruct (back_up teqb (cs_world st) t p) as [w1|] eqn:Ebk; intro H; injection H as <-.
        * eapply CKMove; eauto.
        * eapply CKFail; eauto.
      + intro H; injection H as <-. eapply CKAbsent; eauto.
    - intro H; injection H as <-. eapply CKEnd; eauto.
  Qed.

  Lemma cstep_some blobs st k i : nth k (cs_pos st) None = Some i -> cstep blobs st k <> None.
  Proof.
    intro Ep. unfold CleanFine.cstep. rewrite Ep.
    destruct (nth_error (nth k blobs []) i) as [[p a]|]; [|discriminate].
    destruct (get_file_ticket teqb hc (cs_world st) p a) as [t|]; [|discriminate].
    destruct (back_up teqb (cs_world st) t p); discriminate.
  Qed.

  Lemma cstep_none blobs st k : nth k (cs_pos st) None = None -> cstep blobs st k = None.
  Proof. intro Ep. unfold CleanFine.cstep. rewrite Ep. reflexivity. Qed.

  Lemma cstep_pos_length blobs st k st' : cstep blobs st k = Some st' -> length (cs_pos st') = length (cs_pos st).
  Proof. intro H. destruct (cstep_cases _ _ _ _ H); subst st'; cbn [cs_pos]; apply set_nth_length. Qed.

  Lemma cstep_err_length blobs st k st' : cstep blobs st k = Some st' -> length (cs_err st') = length (cs_err st).
  Proof.
    intro H. destruct (cstep_cases _ _ _ _ H); subst st'; cbn [cs_err]; try reflexivity. apply set_nth_length.
  Qed.

  Lemma cstep_pos_other blobs st k st' j :
    cstep blobs st k = Some st' -> j <> k -> nth j (cs_pos st') None = nth j (cs_pos st) None.
  Proof.
    intros H Hne. destruct (cstep_cases _ _ _ _ H); subst st'; cbn [cs_pos]; apply nth_set_nth_neq; exact Hne.
  Qed.

  (* ================================================================== *)
  (* runs                                                                 *)
  (* ================================================================== *)

  Definition cstep' blobs (s : cstate) (k : nat) : cstate :=
    match cstep blobs s k with Some s' => s' | None => s end.

  Lemma crun_cons blobs k ch st : crun blobs (k :: ch) st = crun blobs ch (cstep' blobs st k).
  Proof. reflexivity. Qed.

  Lemma crun_nil blobs st : crun blobs [] st = st.
  Proof. reflexivity. Qed.

  Lemma crun_app blobs ch1 ch2 st : crun blobs (ch1 ++ ch2) st = crun blobs ch2 (crun blobs ch1 st).
  Proof. unfold CleanFine.crun. apply fold_left_app. Qed.

  Lemma crun_ind (P : cstate -> Prop) blobs :
    (forall st k st', P st -> cstep blobs st k = Some st' -> P st') ->
    forall ch st, P st -> P (crun blobs ch st).
  Proof.
    intros Hstep. induction ch as [|k ch IH]; intros st H; [exact H|]. rewrite crun_cons. apply IH.
    unfold cstep'. destruct (cstep blobs st k) as [st'|] eqn:E; [eapply Hstep; eauto | exact H].
  Qed.

  (* ================================================================== *)
  (* K2a: every step decreases the measure                                *)
  (* ================================================================== *)

  (* what a thread has still to do: its remaining targets, and ending *)
  Definition tmeasure (b : blob T) (o : option nat) : nat :=
    match o with
    | None => 0
    | Some i => (length b - i) + 1
    end.

  Fixpoint tsum (bs : list (blob T)) (pos : list (option nat)) : nat :=
    match pos with
    | [] => 0
    | x :: r => tmeasure (hd [] bs) x + tsum (tl bs) r
    end.

  Definition cmeasure (blobs : list (blob T)) (st : cstate) : nat := tsum blobs (cs_pos st).

  Lemma tsum_set_nth : forall pos bs k v,
    k < length pos -> tmeasure (nth k bs []) v < tmeasure (nth k bs []) (nth k pos None) ->
    tsum bs (set_nth k v pos) < tsum bs pos.
  Proof.
    induction pos as [|x pos IH]; intros bs k v Hk Hlt; [cbn in Hk; lia|].
    destruct k as [|k]; cbn [set_nth tsum nth] in *.
    - assert (nth 0 bs [] = hd [] bs) as E by (destruct bs; reflexivity). rewrite E in Hlt.
      apply Nat.add_lt_mono_r. exact Hlt.
    - apply Nat.add_lt_mono_l. apply IH; [cbn [length] in Hk; lia|]. rewrite nth_tl. exact Hlt.
  Qed.

  Theorem cstep_decreases blobs st k st' :
    cstep blobs st k = Some st' -> cmeasure blobs st' < cmeasure blobs st.
  Proof.
    intro H. unfold cmeasure.
    destruct (cstep_cases _ _ _ _ H) as [i Ep Eb E | i p a Ep Eb Eg E | i p a t Ep Eb Eg Ebk E | i p a t w1 Ep Eb Eg Ebk E];
      subst st'; cbn [cs_pos]; (apply tsum_set_nth; [eapply nth_some_lt; exact Ep|]); rewrite Ep; cbn [tmeasure];
      try lia.
    - apply nth_error_some_lt in Eb. unfold blob in *. lia.
    - apply nth_error_some_lt in Eb. unfold blob in *. lia.
  Qed.

  Lemma crun_measure blobs ch st : cmeasure blobs (crun blobs ch st) <= cmeasure blobs st.
  Proof.
    revert st. induction ch as [|k ch IH]; intro st; [apply Nat.le_refl|]. rewrite crun_cons.
    eapply Nat.le_trans; [apply IH|]. unfold cstep'.
    destruct (cstep blobs st k) as [st'|] eqn:E; [|apply Nat.le_refl].
    apply Nat.lt_le_incl. eapply cstep_decreases; eauto.
  Qed.

  (* ================================================================== *)
  (* K2b: progress                                                        *)
  (* ================================================================== *)

  Definition ended (o : option nat) : bool := match o with None => true | Some _ => false end.

  (* the first thread in spawn order that has not ended can move *)
  Theorem clean_no_deadlock blobs st : call_done st = false -> exists k, cstep blobs st k <> None.
  Proof.
    intro Hnot. unfold CleanFine.call_done in Hnot.
    destruct (forallb_first_false _ None _ Hnot) as (k & Hk & Hf & _).
    exists k. destruct (nth k (cs_pos st) None) as [i|] eqn:Ep; [|discriminate].
    eapply cstep_some; eauto.
  Qed.

  Corollary clean_stuck_is_complete blobs st : (forall k, cstep blobs st k = None) -> call_done st = true.
  Proof.
    intros Hstuck. destruct (call_done st) eqn:E; [reflexivity|].
    destruct (clean_no_deadlock blobs st E) as (k & Hk). exfalso. apply Hk. apply Hstuck.
  Qed.

  (* every state can be run to completion *)
  Theorem clean_completable_from blobs st : exists ch, call_done (crun blobs ch st) = true.
  Proof.
    remember (cmeasure blobs st) as m eqn:Em. revert st Em.
    induction m as [m IH] using lt_wf_ind. intros st Em.
    destruct (call_done st) eqn:Ed; [exists []; exact Ed|].
    destruct (clean_no_deadlock blobs st Ed) as (k & Hk).
    destruct (cstep blobs st k) as [st'|] eqn:E; [|contradiction].
    destruct (IH (cmeasure blobs st')) with (st := st') as (ch & Hch).
    - rewrite Em. eapply cstep_decreases; eauto.
    - reflexivity.
    - exists (k :: ch). rewrite crun_cons. unfold cstep'. rewrite E. exact Hch.
  Qed.

  (* every run can be continued to a complete one *)
  Theorem clean_completable blobs ch st : exists ch', call_done (crun blobs (ch ++ ch') st) = true.
  Proof.
    destruct (clean_completable_from blobs (crun blobs ch st)) as (ch' & H). exists ch'. rewrite crun_app. exact H.
  Qed.

  (* once every thread has ended nobody moves *)
  Lemma call_done_nth (st : cstate) k : call_done st = true -> nth k (cs_pos st) None = None.
  Proof.
    intro H. unfold CleanFine.call_done in H. rewrite forallb_forall in H.
    destruct (nth_in_or_default k (cs_pos st) None) as [Hin | E]; [|exact E].
    specialize (H _ Hin). destruct (nth k (cs_pos st) None); [discriminate | reflexivity].
  Qed.

  Lemma call_done_intro (st : cstate) : (forall k, nth k (cs_pos st) None = None) -> call_done st = true.
  Proof.
    intro H. unfold CleanFine.call_done. apply (forallb_nth _ None). intros i _. rewrite H. reflexivity.
  Qed.

  Lemma crun_call_done blobs ch st : call_done st = true -> crun blobs ch st = st.
  Proof.
    intro H. induction ch as [|k ch IH]; [reflexivity|]. rewrite crun_cons. unfold cstep'.
    rewrite (cstep_none blobs st k (call_done_nth st k H)). exact IH.
  Qed.

  (* the length of a run without skipped choices is bounded by the measure of its first state *)
  Lemma crun_length_bound blobs : forall ch st,
    (forall pre k post, ch = pre ++ k :: post -> cstep blobs (crun blobs pre st) k <> None) ->
    length ch + cmeasure blobs (crun blobs ch st) <= cmeasure blobs st.
  Proof.
    induction ch as [|k ch IH]; intros st Hall; [cbn; lia|].
    rewrite crun_cons. unfold cstep'.
    pose proof (Hall [] k ch eq_refl) as H0. cbn [CleanFine.crun fold_left] in H0.
    destruct (cstep blobs st k) as [st'|] eqn:E; [|contradiction].
    pose proof (cstep_decreases _ _ _ _ E) as Hd.
    assert (length ch + cmeasure blobs (crun blobs ch st') <= cmeasure blobs st') as H1.
    { apply IH. intros pre k' post Epre. specialize (Hall (k :: pre) k' post).
      rewrite crun_cons in Hall. unfold cstep' in Hall. rewrite E in Hall. apply Hall. rewrite Epre. reflexivity. }
    cbn [length]. lia.
  Qed.

  (* ================================================================== *)
  (* K1: one thread alone goes through Work.clean_targets                 *)
  (* ================================================================== *)

  Definition cinit (w : world) (n : nat) : cstate := mk_cs w (repeat (Some 0) n) (repeat None n).

  Lemma back_up_some_cache (w : world) t p w1 : back_up teqb w t p = Some w1 -> cache_of w1 <> None.
  Proof.
    unfold back_up. destruct (cache_of w) as [c|]; [|discriminate]. destruct (fget w p) as [f|]; [|discriminate].
    intro H; injection H as <-. unfold cache_of. cbn. discriminate.
  Qed.

  Lemma back_up_none_cache (w : world) t p a :
    get_file_ticket teqb hc w p a = Some t -> back_up teqb w t p = None -> cache_of w = None.
  Proof.
    unfold get_file_ticket, back_up. destruct (fget w p) as [f|]; [|discriminate].
    destruct (cache_of w); [discriminate | reflexivity].
  Qed.

  (* thread k, at target i, run alone to its end *)
  Lemma solo_run blobs k : forall m i st,
    nth k (cs_pos st) None = Some i -> cache_of (cs_world st) <> None ->
    length (nth k blobs []) - i = m -> i <= length (nth k blobs []) ->
    exists w',
      clean_targets teqb hc (cs_world st) (skipn i (nth k blobs [])) = Ok w' /\ cache_of w' <> None /\
      crun blobs (repeat k (S m)) st = mk_cs w' (set_nth k None (cs_pos st)) (cs_err st).
  Proof.
    induction m as [|m IH]; intros i st Ep Hc Hm Hi.
    - assert (length (nth k blobs []) <= i) as Hge by lia.
      exists (cs_world st). rewrite (skipn_all_ge _ _ Hge). cbn [clean_targets]. split; [reflexivity|].
      split; [exact Hc|]. cbn [repeat]. rewrite crun_cons, crun_nil. unfold cstep', CleanFine.cstep. unfold blob in *. rewrite Ep.
      assert (nth_error (nth k blobs []) i = None) as -> by (apply nth_error_None; exact Hge). reflexivity.
    - assert (i < length (nth k blobs [])) as Hlt by lia.
      destruct (nth_error (nth k blobs []) i) as [[p a]|] eqn:Eb; [|apply nth_error_None in Eb; lia].
      rewrite (skipn_nth_error_cons _ _ _ Eb). cbn [clean_targets].
      change (repeat k (S (S m))) with (k :: repeat k (S m)). rewrite crun_cons. unfold cstep', CleanFine.cstep.
      unfold blob in *. rewrite Ep, Eb.
      destruct (get_file_ticket teqb hc (cs_world st) p a) as [t|] eqn:Eg.
      + destruct (back_up teqb (cs_world st) t p) as [w1|] eqn:Ebk.
        2:{ exfalso. apply Hc. eapply back_up_none_cache; eauto. }
        destruct (IH (S i) (mk_cs w1 (set_nth k (Some (S i)) (cs_pos st)) (cs_err st))) as (w' & H1 & H2 & H3).
        * cbn [cs_pos]. apply nth_set_nth_eq. eapply nth_some_lt; exact Ep.
        * cbn [cs_world]. eapply back_up_some_cache; eauto.
        * lia.
        * lia.
        * exists w'. cbn [cs_world cs_pos cs_err] in *. split; [exact H1|]. split; [exact H2|].
          rewrite H3, set_nth_twice. reflexivity.
      + destruct (IH (S i) (mk_cs (cs_world st) (set_nth k (Some (S i)) (cs_pos st)) (cs_err st))) as (w' & H1 & H2 & H3).
        * cbn [cs_pos]. apply nth_set_nth_eq. eapply nth_some_lt; exact Ep.
        * exact Hc.
        * lia.
        * lia.
        * exists w'. cbn [cs_world cs_pos cs_err] in *. split; [exact H1|]. split; [exact H2|].
          rewrite H3, set_nth_twice. reflexivity.
  Qed.

  (* the threads j, j+1, ... one after the other, each to its end: Build.clean_nodes *)
  Lemma serial_run ns : forall (pre : list (blob T)) (t : table T) st errs,
    let blobs := pre ++ node_blobs hc t ns in
    let j := length pre in
    (forall k, j <= k -> k < j + length ns -> nth k (cs_pos st) None = Some 0) ->
    cache_of (cs_world st) <> None ->
    let st' := crun blobs (flat_map (fun k => repeat k (S (length (nth k blobs [])))) (seq j (length ns))) st in
    clean_nodes T teqb hc (cs_world st) t ns errs = (cs_world st', errs) /\ cs_err st' = cs_err st /\
    length (cs_pos st') = length (cs_pos st).
  Proof.
    induction ns as [|n rest IH]; intros pre t st errs blobs j Hpos Hc.
    - cbn [length seq flat_map]. rewrite crun_nil. cbn [clean_nodes]. auto.
    - subst blobs j. cbn [node_blobs clean_nodes length seq flat_map].
      destruct (take_blob T hc t (n_targets n)) as [b t'] eqn:Etb.
      set (blobs := pre ++ b :: node_blobs hc t' rest).
      assert (nth (length pre) blobs [] = b) as Enth.
      { unfold blobs. rewrite app_nth2 by lia. rewrite Nat.sub_diag. reflexivity. }
      rewrite crun_app. rewrite Enth.
      destruct (solo_run blobs (length pre) (length b) 0 st) as (w' & H1 & H2 & H3).
      + apply Hpos; cbn [length]; lia.
      + exact Hc.
      + unfold blob in *. rewrite Enth. lia.
      + lia.
      + unfold blob in *. rewrite Enth in H1. cbn [skipn] in H1. rewrite H1, H3.
        assert (blobs = (pre ++ [b]) ++ node_blobs hc t' rest) as Eblobs.
        { unfold blobs. rewrite <- app_assoc. reflexivity. }
        assert (S (length pre) = length (pre ++ [b])) as Elen by (rewrite app_length; cbn; lia).
        rewrite Eblobs, Elen.
        pose proof (IH (pre ++ [b]) t' (mk_cs w' (set_nth (length pre) None (cs_pos st)) (cs_err st)) errs) as IH'.
        cbv zeta in IH'. cbn [cs_world cs_pos cs_err] in IH'.
        destruct IH' as (I1 & I2 & I3).
        * intros k Hk1 Hk2. rewrite <- Elen in Hk1, Hk2. rewrite nth_set_nth_neq by lia.
          apply Hpos; cbn [length]; lia.
        * exact H2.
        * split; [exact I1|]. split; [exact I2|]. rewrite I3. apply set_nth_length.
  Qed.

  Lemma node_blobs_length ns : forall (t : table T), length (node_blobs hc t ns) = length ns.
  Proof.
    induction ns as [|n rest IH]; intro t; cbn [node_blobs]; [reflexivity|].
    destruct (take_blob T hc t (n_targets n)) as [b t']. cbn [length]. rewrite IH. reflexivity.
  Qed.

  Lemma init_dir_cache (w w1 : world) t : init_dir T w = Ok (w1, t) -> cache_of w1 <> None.
  Proof.
    unfold init_dir. destruct (rd_table (w_rd w)) as [[tb|]|]; try discriminate;
      intro H; injection H as <- <-; unfold cache_of; cbn; destruct (rd_cache (w_rd w)); discriminate.
  Qed.

  Lemma errs_of_repeat_none n :
    flat_map (fun o : option work_err => match o with Some e => [e] | None => [] end) (repeat None n) = [].
  Proof. induction n as [|n IH]; [reflexivity | exact IH]. Qed.

  (* K1 *)
  Theorem clean_fine_serial_main (w : world) rp goal :
    (forall w1 t pack, init_dir T w = Ok (w1, t) -> get_nodes T w1 rp goal = Ok pack ->
       clean_fine teqb hc (cserial (node_blobs hc t (p_nodes pack))) w rp goal = clean teqb hc w rp goal) /\
    (forall f ch, init_dir T w = Err f -> clean_fine teqb hc ch w rp goal = clean teqb hc w rp goal) /\
    (forall w1 t f ch, init_dir T w = Ok (w1, t) -> get_nodes T w1 rp goal = Err f ->
       clean_fine teqb hc ch w rp goal = clean teqb hc w rp goal).
  Proof.
    split; [|split].
    - intros w1 t pack Hi Hg. unfold clean_fine, clean. rewrite Hi, Hg. cbv zeta.
      set (blobs := node_blobs hc t (p_nodes pack)).
      pose proof (serial_run (p_nodes pack) [] t (mk_cs w1 (repeat (Some 0) (length blobs)) (repeat None (length blobs))) [])
        as H.
      cbv zeta in H. cbn [app length cs_world cs_pos cs_err] in H. fold blobs in H.
      assert (length blobs = length (p_nodes pack)) as El by apply node_blobs_length.
      destruct H as (H1 & H2 & _).
      + intros k _ Hk. apply nth_repeat_lt. rewrite El. lia.
      + eapply init_dir_cache; eauto.
      + unfold cserial. rewrite El in *. rewrite H1, H2, errs_of_repeat_none. reflexivity.
    - intros f ch Hi. unfold clean_fine, clean. rewrite Hi. reflexivity.
    - intros w1 t f ch Hi Hg. unfold clean_fine, clean. rewrite Hi, Hg. reflexivity.
  Qed.

  (* the serial choices make a complete run *)
  Lemma solo_run_pos blobs k m i st :
    nth k (cs_pos st) None = Some i -> cache_of (cs_world st) <> None ->
    length (nth k blobs []) - i = m -> i <= length (nth k blobs []) ->
    cs_pos (crun blobs (repeat k (S m)) st) = set_nth k None (cs_pos st) /\
    cache_of (cs_world (crun blobs (repeat k (S m)) st)) <> None.
  Proof.
    intros Ep Hc Hm Hi. destruct (solo_run blobs k m i st Ep Hc Hm Hi) as (w' & _ & H2 & H3).
    rewrite H3. cbn [cs_pos cs_world]. auto.
  Qed.

  Lemma serial_run_done blobs : forall m j st,
    j + m = length blobs -> length (cs_pos st) = length blobs ->
    (forall k, k < j -> nth k (cs_pos st) None = None) ->
    (forall k, j <= k -> k < length blobs -> nth k (cs_pos st) None = Some 0) ->
    cache_of (cs_world st) <> None ->
    call_done (crun blobs (flat_map (fun k => repeat k (S (length (nth k blobs [])))) (seq j m)) st) = true.
  Proof.
    induction m as [|m IH]; intros j st Hjm Hlen Hlo Hhi Hc.
    - cbn [seq flat_map]. rewrite crun_nil. apply call_done_intro. intro k.
      destruct (Nat.lt_ge_cases k j) as [Hk | Hk]; [apply Hlo; exact Hk|]. apply nth_overflow_none. lia.
    - cbn [seq flat_map]. rewrite crun_app.
      destruct (solo_run_pos blobs j (length (nth j blobs [])) 0 st) as [Hp Hc'];
        [apply Hhi; lia | exact Hc | unfold blob in *; lia | lia |].
      apply IH.
      + lia.
      + rewrite Hp, set_nth_length. exact Hlen.
      + intros k Hk. rewrite Hp. destruct (Nat.eq_dec k j) as [-> | Hne].
        * apply nth_set_nth_eq. lia.
        * rewrite nth_set_nth_neq by exact Hne. apply Hlo. lia.
      + intros k Hk1 Hk2. rewrite Hp. rewrite nth_set_nth_neq by lia. apply Hhi; lia.
      + exact Hc'.
  Qed.

  Theorem cserial_complete blobs (w : world) :
    cache_of w <> None -> call_done (crun blobs (cserial blobs) (cinit w (length blobs))) = true.
  Proof.
    intro Hc. unfold cserial. apply serial_run_done.
    - reflexivity.
    - unfold cinit. cbn [cs_pos]. apply repeat_length.
    - intros k Hk. lia.
    - intros k _ Hk. unfold cinit. cbn [cs_pos]. apply nth_repeat_lt. exact Hk.
    - exact Hc.
  Qed.
End CleanFineBasic.
