(* A small consequence of the disk invariant used by Properties/C07.v. *)
From Ruler Require Import Tactics Bytes AList RuleSyntax World Work Build Ops Inv BytesFacts InvFacts.

Lemma c07_restore_content_sym : forall (w w' : world sym) t p f,
  disk_inv sym_eqb SContent w -> restore sym_eqb w t p = RDone w' -> fget w' p = Some f ->
  t = SContent (f_content f).
Proof.
  intros w w' t p f Hinv Hr Hf.
  unfold restore in Hr. destruct (cache_of w) as [c|] eqn:Ec; [|discriminate].
  destruct (alookup sym_eqb c t) as [g|] eqn:Eg; [|discriminate].
  injection Hr as <-.
  unfold fget in Hf. cbn in Hf.
  rewrite (alookup_ainsert_eq bytes_eqb bytes_eqb_eq) in Hf. injection Hf as <-.
  destruct Hinv as (_ & _ & _ & Hca & _). exact (Hca c t g Ec Eg).
Qed.
