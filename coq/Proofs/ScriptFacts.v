(* system::to_command_script (Model/Cmdlang.v script_lines): characterising lemmas, for every command.
   A command without a lone ";" line is ONE script line (its lines joined by a space); a lone ";" ends the
   script line made of the lines before it and the rest is treated independently; the number of script lines
   is the number of lone ";" lines, plus one when lines follow the last of them. *)
From Ruler Require Import Tactics Bytes Cmdlang BytesFacts.
Local Open Scope N_scope.

Definition is_semi (l : bytes) : bool := bytes_eqb l [SEMI].

Lemma script_lines_aux_no_semi lines cur :
  forallb (fun l => negb (is_semi l)) lines = true ->
  script_lines_aux lines cur =
    match rev cur ++ lines with [] => [] | all => [join_with [SPACE] all] end.
Proof.
  revert cur; induction lines as [|l r IH]; intros cur H.
  - cbn [script_lines_aux]. rewrite app_nil_r.
    destruct cur as [|c cur']; [reflexivity|].
    destruct (rev (c :: cur')) eqn:E; [|reflexivity].
    apply (f_equal (@length bytes)) in E. rewrite rev_length in E. discriminate.
  - cbn [forallb] in H. apply andb_true_iff in H as [Hl Hr].
    cbn [script_lines_aux]. unfold is_semi in Hl. apply negb_true_iff in Hl. rewrite Hl.
    rewrite (IH (l :: cur) Hr). cbn [rev]. rewrite <- app_assoc. reflexivity.
Qed.

Lemma script_lines_no_semi command :
  command <> [] ->
  forallb (fun l => negb (is_semi l)) command = true ->
  script_lines command = [join_with [SPACE] command].
Proof.
  intros Hne H. unfold script_lines. rewrite (script_lines_aux_no_semi _ _ H). cbn [rev app].
  destruct command; [contradiction|reflexivity].
Qed.

Lemma script_lines_aux_semi a b cur :
  forallb (fun l => negb (is_semi l)) a = true ->
  script_lines_aux (a ++ [SEMI] :: b) cur =
    join_with [SPACE] (rev cur ++ a) :: script_lines_aux b [].
Proof.
  revert cur; induction a as [|l r IH]; intros cur H.
  - cbn [app script_lines_aux]. rewrite bytes_eqb_refl, app_nil_r. reflexivity.
  - cbn [forallb] in H. apply andb_true_iff in H as [Hl Hr].
    cbn [app script_lines_aux]. unfold is_semi in Hl. apply negb_true_iff in Hl. rewrite Hl.
    rewrite (IH (l :: cur) Hr). cbn [rev]. rewrite <- app_assoc. reflexivity.
Qed.

(* a lone ";" ends the script line made of what precedes it; what follows is a command of its own *)
Lemma script_lines_semi a b :
  forallb (fun l => negb (is_semi l)) a = true ->
  script_lines (a ++ [SEMI] :: b) = join_with [SPACE] a :: script_lines b.
Proof. intro H. unfold script_lines. rewrite (script_lines_aux_semi a b [] H). reflexivity. Qed.

(* how many script lines: at least one per lone ";" and at most one more *)
Lemma script_lines_aux_length_bounds lines cur :
  (length (filter is_semi lines) <= length (script_lines_aux lines cur)
   <= S (length (filter is_semi lines)))%nat.
Proof.
  revert cur; induction lines as [|l r IH]; intro cur.
  - cbn [script_lines_aux filter length]. destruct cur; cbn [length]; lia.
  - cbn [script_lines_aux filter]. change (bytes_eqb l [SEMI]) with (is_semi l).
    destruct (is_semi l).
    + cbn [length]. specialize (IH []). lia.
    + apply IH.
Qed.

Lemma script_lines_length_bounds command :
  (length (filter is_semi command) <= length (script_lines command)
   <= S (length (filter is_semi command)))%nat.
Proof. apply script_lines_aux_length_bounds. Qed.

(* no script line is lost: an empty command is the only one without script lines *)
Lemma script_lines_nil_iff command : script_lines command = [] <-> command = [].
Proof.
  split; [|intros ->; reflexivity].
  unfold script_lines. generalize (@nil bytes) at 1 as cur0.
  assert (G : forall lines cur, script_lines_aux lines cur = [] -> lines = [] /\ cur = []).
  { induction lines as [|l r IH]; intros cur H.
    - cbn [script_lines_aux] in H. destruct cur; [auto|discriminate].
    - cbn [script_lines_aux] in H. destruct (bytes_eqb l [SEMI]); [discriminate|].
      apply IH in H as [_ H]. discriminate. }
  intros cur0 H. apply G in H. tauto.
Qed.
