(* C10, part 1: what a successful build leaves behind, node by node (the "trace" of the build):
   what every rule thread received, sent and handed to main as its history.  No assumption on the
   histories found on disk (hist_sound is NOT assumed). *)
From Coq Require Import Relations.Relation_Operators Relations.Operators_Properties.
From Ruler Require Import Tactics Bytes AList RuleSyntax Parser TopoSort TopoSpec World Cmdlang Work Build Ops Inv
     BuildSpec Ideal BytesFacts InvFacts TopoSortFacts BuildFacts C01Script C01Hist C01Build C01Plan.
Local Open Scope N_scope.

(* ---------- generic list facts ---------- *)

Lemma NoDup_map_eq {A B} (f : A -> B) (l : list A) a b :
  NoDup (map f l) -> In a l -> In b l -> f a = f b -> a = b.
Proof.
  induction l as [|x l IH]; cbn [map]; intros Hnd Ha Hb E; [destruct Ha|].
  inversion Hnd as [|? ? Hnotin Hnd']; subst.
  destruct Ha as [<- | Ha]; destruct Hb as [<- | Hb]; auto.
  - exfalso. apply Hnotin. rewrite E. apply in_map. exact Hb.
  - exfalso. apply Hnotin. rewrite <- E. apply in_map. exact Ha.
Qed.

Lemma Forall2_same_r {A B} (R : A -> B -> Prop) l m m' :
  (forall a b b', R a b -> R a b' -> b = b') -> Forall2 R l m -> Forall2 R l m' -> m = m'.
Proof.
  intros Hf H. revert m'. induction H as [|a b l m Hab _ IH]; intros m' H'; inversion H'; subst; [reflexivity|].
  f_equal; [eapply Hf; eauto | apply IH; assumption].
Qed.

Section Trace.
  Variable T : Type.
  Variable teqb : T -> T -> bool.
  Variable hc : bytes -> T.
  Variable hl : list T -> T.
  Variable hr : rule -> T.
  Hypothesis teqb_spec : forall a b, teqb a b = true <-> a = b.
  Hypothesis hr_inj : forall a b, hr a = hr b -> a = b.

  Notation world := (world T).
  Notation fstate := (fstate T).
  Notation state_ok := (state_ok teqb hc).
  Notation disk_inv := (disk_inv teqb hc).
  Notation steps := (clos_refl_trans world (step teqb hc)).
  Notation blob_ok := (InvProofs.blob_ok T teqb hc).
  Notation tbl_ok := (InvProofs.tbl_ok T teqb hc).
  Notation has_hash := (has_hash T hc).
  Notation rs_inv := (InvProofs.rs_inv T teqb hc).
  Notation has_err := (has_err T).
  Notation hist_at := (hist_at T teqb).
  Notation hist_of := (hist_of T).
  Notation run_leaf := (run_leaf T teqb hc).
  Notation run_node := (run_node T teqb hc hl hr).
  Notation run_nodes := (run_nodes T teqb hc hl hr).
  Notation join_one := (join_one T teqb hr).

  (* ================================================================== *)
  (* tickets                                                              *)
  (* ================================================================== *)

  (* the hash of what is at p *)
  Definition tk_of (w : world) (p : bytes) : T :=
    match content_at w p with Some c => hc c | None => hc [] end.

  Lemma has_hash_tk (w : world) p tk : has_hash w p tk -> tk = tk_of w p /\ content_at w p <> None.
  Proof. intros (c & Hc & ->). unfold tk_of. rewrite Hc. split; [reflexivity | discriminate]. Qed.

  Lemma tk_has_hash (w : world) p : content_at w p <> None -> has_hash w p (tk_of w p).
  Proof.
    intro H. unfold tk_of. destruct (content_at w p) as [c|] eqn:E; [|contradiction]. exists c. auto.
  Qed.

  Lemma has_hash_fun (w : world) p a b : has_hash w p a -> has_hash w p b -> a = b.
  Proof. intros Ha Hb. apply has_hash_tk in Ha as [-> _]. apply has_hash_tk in Hb as [-> _]. reflexivity. Qed.

  Lemma hashes_tk (w : world) ps ts :
    Forall2 (has_hash w) ps ts -> ts = map (tk_of w) ps /\ forall p, In p ps -> content_at w p <> None.
  Proof.
    induction 1 as [|p tk ps ts Hh _ [IH1 IH2]]; [split; [reflexivity | intros p []]|].
    apply has_hash_tk in Hh as [-> Hne]. cbn [map]. split; [f_equal; exact IH1|].
    intros q [<- | Hq]; auto.
  Qed.

  Lemma tk_hashes (w : world) ps :
    (forall p, In p ps -> content_at w p <> None) -> Forall2 (has_hash w) ps (map (tk_of w) ps).
  Proof.
    induction ps as [|p ps IH]; intro H; cbn [map]; constructor.
    - apply tk_has_hash. apply H. left. reflexivity.
    - apply IH. intros q Hq. apply H. right. exact Hq.
  Qed.

  Lemma tk_of_content (w w' : world) p : content_at w' p = content_at w p -> tk_of w' p = tk_of w p.
  Proof. unfold tk_of. intros ->. reflexivity. Qed.

  Lemma content_at_of_fget (w w' : world) p : fget w' p = fget w p -> content_at w' p = content_at w p.
  Proof. unfold content_at. intros ->. reflexivity. Qed.

  (* ================================================================== *)
  (* histories                                                            *)
  (* ================================================================== *)

  (* what a thread that sent ts leaves under its key: these tickets (a longer remembered vector can only
     be met by a thread that does not run its command), or nothing at all when it has no target *)
  Definition hist_entry (h : history T) (key : T) (ts : list T) : Prop :=
    match alookup teqb h key with
    | Some rem => exists extra, map fs_t rem = ts ++ extra
    | None => ts = []
    end.

  Lemma read_history_hist_at (w : world) r :
    read_history T teqb hr w r =
    match hist_at w (hr r) with
    | None => Some []
    | Some (SF_ok h) => Some h
    | Some SF_bad => None
    end.
  Proof.
    unfold read_history, BuildFacts.hist_at, BuildFacts.hist_of.
    destruct (rd_hist (w_rd w)) as [hs|]; reflexivity.
  Qed.

  Lemma hist_at_of_eq (w w' : world) k : hist_of w' = hist_of w -> hist_at w' k = hist_at w k.
  Proof. unfold BuildFacts.hist_at. intros ->. reflexivity. Qed.

  (* ================================================================== *)
  (* one rule thread                                                      *)
  (* ================================================================== *)

  Lemma resolved_ok_prefix (w' : world) ps : forall rem ress,
    resolved_ok T hc w' ps rem ress -> needs_rebuild ress = false ->
    exists rem1 extra, rem = rem1 ++ extra /\ Forall2 (fun p r => has_hash w' p (fs_t r)) ps rem1.
  Proof.
    induction ps as [|p ps IH]; intros rem ress; destruct ress as [|res ress]; cbn [resolved_ok]; try contradiction.
    - intros _ _. exists [], rem. split; [reflexivity | constructor].
    - destruct rem as [|r rem]; [contradiction|]. intros [H1 H2] Hn.
      unfold needs_rebuild in Hn. cbn [existsb] in Hn. apply orb_false_iff in Hn as [Hn1 Hn2].
      destruct (IH _ _ H2 Hn2) as (rem1 & extra & -> & HF).
      exists (r :: rem1), extra. split; [reflexivity|]. constructor; [|exact HF].
      apply H1. intros ->. discriminate.
  Qed.

  Lemma handle_rule_entry (w : world) b h key cmd wr w' s :
    disk_inv w -> blob_ok w b -> NoDup (map fst b) ->
    handle_rule teqb hc w b h key cmd = (Ok wr, w', s) ->
    Forall2 (has_hash w') (map fst b) (wr_tickets wr) /\
    exists h', wr_history wr = Some h' /\ hist_entry h' key (wr_tickets wr).
  Proof.
    intros Hinv Hb Hnd Hhr.
    pose proof (BuildFacts.handle_rule_cases T teqb hc w b h key cmd _ _ _ Hhr) as Hc.
    destruct (resolved_of T teqb hc w b h key) as [[ress w1]|e] eqn:Eres; [|destruct Hc as (Hx & _); discriminate].
    assert (steps w w1) as Hs1.
    { unfold resolved_of in Eres. destruct (alookup teqb h key) as [rem|].
      - eapply (InvProofs.resolve_remembered_steps T teqb hc teqb_spec); eauto.
      - eapply (InvProofs.resolve_fresh_steps T teqb hc teqb_spec); eauto. }
    pose proof (inv_steps T teqb hc teqb_spec _ _ Hinv Hs1) as Hinv1.
    cbv zeta in Hc. set (b1 := forget_replaced hc b ress) in *.
    assert (blob_ok w1 b1) as Hb1.
    { unfold b1. apply InvProofs.forget_replaced_ok; [exact teqb_spec|].
      exact (blob_steps T teqb hc teqb_spec _ _ _ Hinv Hs1 Hb). }
    assert (map fst b1 = map fst b) as Hfst1 by apply C01Hist.forget_replaced_fst.
    destruct (needs_rebuild ress) eqn:Enr.
    - destruct Hc as (-> & Ew' & Hc).
      destruct (run_script w1 (script_lines cmd)) as [codes w2] eqn:Ers. cbn [fst snd] in *. subst w'.
      destruct (command_verdict codes); [discriminate|].
      destruct (update_blob teqb hc w2 b1) as [b'|p] eqn:Eu; [|discriminate].
      destruct (history_insert teqb h key (map (fun e => fs_t (snd e)) b') (map fst b1)) as [h'|e] eqn:Ehi; [|discriminate].
      injection Hc as ->. cbn [wr_tickets wr_history].
      pose proof (InvProofs.run_script_steps T teqb hc _ _ _ _ Ers) as Hs2.
      pose proof (blob_steps T teqb hc teqb_spec _ _ _ Hinv1 Hs2 Hb1) as Hb2.
      destruct (update_blob_hash T teqb hc _ _ _ Hb2 Eu) as [_ Hts]. rewrite Hfst1 in Hts.
      split; [exact Hts|]. exists h'. split; [reflexivity|].
      destruct (history_insert_ok T teqb teqb_spec _ _ _ _ _ Ehi) as ((v & Hv & Ev) & _).
      unfold hist_entry. rewrite Hv. exists []. rewrite app_nil_r. exact Ev.
    - destruct Hc as (-> & -> & Hc).
      destruct (current_tickets teqb hc w1 b1) as [ts|p] eqn:Ect; [|discriminate].
      injection Hc as ->. cbn [wr_tickets wr_history].
      pose proof (current_tickets_hash T teqb hc _ _ _ Hb1 Ect) as Hts. rewrite Hfst1 in Hts.
      split; [exact Hts|]. exists h. split; [reflexivity|]. unfold hist_entry.
      unfold resolved_of in Eres. destruct (alookup teqb h key) as [rem|].
      + destruct (resolve_remembered_spec T teqb hc teqb_spec _ _ _ _ _ Hinv Hb Hnd Eres) as (_ & _ & R).
        destruct (resolved_ok_prefix _ _ _ _ R Enr) as (rem1 & extra & -> & HF).
        exists (map fs_t extra). rewrite map_app. f_equal.
        apply Forall2_map_r in HF.
        eapply Forall2_same_r; [|exact HF|exact Hts]. intros p a a'. apply has_hash_fun.
      + destruct (resolve_fresh_spec T teqb hc _ _ _ _ Eres) as (_ & _ & _ & ->).
        destruct b as [|x b0]; [|cbn in Enr; discriminate]. cbn in Hts. inversion Hts. reflexivity.
  Qed.

  (* ================================================================== *)
  (* the trace of a build                                                 *)
  (* ================================================================== *)

  Definition tentry := (node * work_result T)%type.
  Definition sent_of (e : tentry) : option (list T) := Some (wr_tickets (snd e)).
  Definition res_of (e : tentry) : option rule * thread_result T := (Some (n_rule (fst e)), TOk (snd e)).

  (* with the leaves having sent LS and the earlier nodes pre, this node received tickets, and handed to
     main a history that holds, under the key of these tickets, what it sent *)
  Definition entry_ok (LS pre : list (option (list T))) (e : tentry) : Prop :=
    exists tickets h',
      all_some (map (received T LS pre) (n_source_indices (fst e))) = Some tickets /\
      wr_history (snd e) = Some h' /\ hist_entry h' (hl tickets) (wr_tickets (snd e)).

  Fixpoint trace_ok (LS pre : list (option (list T))) (tr : list tentry) : Prop :=
    match tr with
    | [] => True
    | e :: tr' => entry_ok LS pre e /\ trace_ok LS (pre ++ [sent_of e]) tr'
    end.

  Lemma trace_ok_snoc LS tr : forall pre e,
    trace_ok LS pre tr -> entry_ok LS (pre ++ map sent_of tr) e -> trace_ok LS pre (tr ++ [e]).
  Proof.
    induction tr as [|a tr IH]; intros pre e; cbn [trace_ok app map].
    - rewrite app_nil_r. auto.
    - intros [H1 H2] He. split; [exact H1|]. apply IH; [exact H2|].
      rewrite <- app_assoc. exact He.
  Qed.

  Definition entry_hashes (w : world) (e : tentry) : Prop :=
    Forall2 (has_hash w) (n_targets (fst e)) (wr_tickets (snd e)).

  Lemma entries_sent_ok (wc : world) tr : forall done,
    map fst tr = done -> Forall (entry_hashes wc) tr ->
    Forall2 (sent_ok T hc wc wc) done (map sent_of tr).
  Proof.
    induction tr as [|e tr IH]; intros done <- HF; cbn [map]; constructor.
    - inversion HF; subst. split; [assumption | reflexivity].
    - apply IH; [reflexivity|]. inversion HF; assumption.
  Qed.

  Lemma all_sent_map_sent tr : all_sent T (map sent_of tr).
  Proof. unfold all_sent. apply Forall_forall. intros o Ho. apply in_map_iff in Ho as (e & <- & _). discriminate. Qed.

  Lemma has_err_more results more : has_err results -> has_err (results ++ more).
  Proof. intros (r & e & H). exists r, e. apply in_or_app. left. exact H. Qed.

  Record inv1 (w : world) (pack : node_pack) (LS : list (option (list T)))
              (R0 : list (option rule * thread_result T)) (done : list node) (st : run_state T) : Prop := mk_inv1 {
    i1_rs : rs_inv w st;
    i1_frame : forall p, ~ In p (plan_targets pack) -> content_at (rs_world T st) p = content_at w p;
    i1_leaf : rs_leaf_sent T st = LS;
    i1_tr : has_err (rs_results T st) \/
            exists tr, map fst tr = done /\ rs_node_sent T st = map sent_of tr /\
                       rs_results T st = R0 ++ map res_of tr /\ trace_ok LS [] tr /\
                       Forall (entry_hashes (rs_world T st)) tr
  }.

  Lemma run_node_inv1 (w : world) pack LS R0 done n rest st st' :
    disk_inv w -> plan_wf pack -> Forall det_node (p_nodes pack) ->
    p_nodes pack = done ++ n :: rest ->
    Forall2 (leaf_ok T hc w) (p_leaves pack) LS -> has_err R0 \/ all_sent T LS ->
    inv1 w pack LS R0 done st ->
    run_node st n = Some st' ->
    inv1 w pack LS R0 (done ++ [n]) st'.
  Proof.
    intros Hinv0 Hwf Hdet E HleafW HR0 [Hrs Hframe Hleaf Htr] Hrun.
    pose proof (InvProofs.run_node_inv T teqb hc teqb_spec hl hr w st n st' Hinv0 Hrs Hrun) as Hrs'.
    destruct (run_node_spec T teqb hc hl hr _ _ _ Hrun) as (Hfr & _ & (trx & Hres') & Hleaf').
    assert (In n (p_nodes pack)) as Hnin by (rewrite E; apply in_or_app; right; left; reflexivity).
    assert (det_node n) as Hdn by (rewrite Forall_forall in Hdet; apply Hdet; exact Hnin).
    specialize (Hfr (node_confined_of_det n Hdn)).
    assert (forall q, ~ In q (n_targets n) -> content_at (rs_world T st') q = content_at (rs_world T st) q) as F.
    { intros q Hq. apply content_at_of_fget. apply (frame_at_fget T _ _ _ q Hfr Hq). }
    assert (forall p, ~ In p (plan_targets pack) -> content_at (rs_world T st') p = content_at w p) as Hframe'.
    { intros p Hp. rewrite F; [apply Hframe; exact Hp|]. intro X. apply Hp. eapply node_targets_in_plan; eauto. }
    destruct Htr as [He | (tr & Htrd & Hns & Hrr & Htok & Hhash)].
    { constructor; auto; [congruence|]. left. rewrite Hres'. apply has_err_app. exact He. }
    destruct Hrs as (Hsteps & Htbl & Hresok).
    set (wc := rs_world T st) in *.
    pose proof (inv_steps T teqb hc teqb_spec _ _ Hinv0 Hsteps) as Hinv.
    destruct (plan_wf_node _ _ _ _ Hwf E) as [Hnd Hdis].
    assert (nth_error (p_nodes pack) (length done) = Some n) as Hnth.
    { rewrite E. rewrite nth_error_app2 by lia. rewrite Nat.sub_diag. reflexivity. }
    pose proof Hwf as (_ & Hleafnt & Hbind). specialize (Hbind _ _ Hnth).
    assert (forall i, (i < length done)%nat -> nth_error (p_nodes pack) i = nth_error done i) as Hdone.
    { intros i Hi. rewrite E. apply nth_error_app1. exact Hi. }
    (* the earlier entries keep their hashes: the thread moves its own targets only *)
    assert (Forall (entry_hashes (rs_world T st')) tr) as Hhash'.
    { rewrite Forall_forall in *. intros e He. specialize (Hhash e He). unfold entry_hashes in *.
      eapply Forall2_impl_in; [|exact Hhash]. intros t tk Ht Hh. cbn in *.
      eapply has_hash_content; [|exact Hh]. apply F. apply (Hdis (fst e)); [|exact Ht].
      rewrite <- Htrd. apply in_map. exact He. }
    constructor; auto; [congruence|].
    revert Hrun Hres' Hhash' Hrs' Hfr F Hframe' Hleaf'. unfold Build.run_node.
    destruct (take_blob T hc (rs_table T st) (n_targets n)) as [b t'] eqn:Etb.
    pose proof (C01Build.take_blob_fst T hc _ _ _ _ Etb) as Hfst.
    assert (clock_ok teqb wc) as Hk by apply Hinv.
    destruct (InvProofs.take_blob_ok T teqb hc teqb_spec _ _ _ _ _ Htbl Etb) as [Hb _].
    fold wc.
    destruct (read_history T teqb hr wc (n_rule n)) as [h|] eqn:Erh; [|discriminate].
    destruct (all_some (map (received T (rs_leaf_sent T st) (rs_node_sent T st)) (n_source_indices n)))
      as [tickets|] eqn:Eall.
    - destruct (handle_rule teqb hc wc b h (hl tickets) (n_command n)) as [[res w'] script] eqn:Ehr.
      destruct res as [wr|e]; intro H; injection H as <-;
        cbn [rs_world rs_table rs_leaf_sent rs_node_sent rs_results]; intros Hres' Hhash' _ _ _ _ _.
      + right. exists (tr ++ [(n, wr)]).
        rewrite <- Hfst in Hnd.
        destruct (handle_rule_entry _ _ _ _ _ _ _ _ Hinv Hb Hnd Ehr) as (Hts & h' & Hh' & Hent).
        rewrite Hfst in Hts.
        split; [rewrite map_app, Htrd; reflexivity|].
        split; [rewrite map_app, Hns; reflexivity|].
        split; [rewrite map_app, Hrr, app_assoc; reflexivity|].
        split.
        * apply trace_ok_snoc; [exact Htok|]. cbn [app]. exists tickets, h'. cbn [fst snd].
          rewrite <- Hns, <- Hleaf. auto.
        * apply Forall_app. split; [exact Hhash'|]. constructor; [exact Hts | constructor].
      + left. exists (Some (n_rule n)), e. apply in_or_app. right. left. reflexivity.
    - (* cancelled although nothing failed upstream: impossible *)
      intro H. injection H as <-. cbn [rs_results]. intros _ _ _ _ _ _ _.
      destruct HR0 as [He0 | Hall].
      { left. rewrite Hrr, <- app_assoc. apply has_err_more. exact He0. }
      exfalso.
      assert (Forall2 (leaf_ok T hc wc) (p_leaves pack) (rs_leaf_sent T st)) as Hl1.
      { rewrite Hleaf. eapply leaf_ok_transport; [|exact HleafW]. intros l Hl. apply Hframe. apply Hleafnt. exact Hl. }
      eapply (received_total T hc pack done wc wc _ _ Hdone Hl1
                (entries_sent_ok wc tr done Htrd Hhash)); [| |exact Hbind|].
      + rewrite Hleaf. exact Hall.
      + apply all_sent_map_sent.
      + rewrite <- Hns. exact Eall.
  Qed.

  Lemma run_nodes_inv1 (w : world) pack LS R0 :
    disk_inv w -> plan_wf pack -> Forall det_node (p_nodes pack) ->
    Forall2 (leaf_ok T hc w) (p_leaves pack) LS -> has_err R0 \/ all_sent T LS ->
    forall rest done st st',
      p_nodes pack = done ++ rest -> inv1 w pack LS R0 done st ->
      run_nodes st rest = Some st' -> inv1 w pack LS R0 (p_nodes pack) st'.
  Proof.
    intros Hinv0 Hwf Hdet HleafW HR0.
    induction rest as [|n rest IH]; intros done st st' E Hg; cbn [Build.run_nodes].
    - intro H. injection H as <-. rewrite E, app_nil_r. exact Hg.
    - destruct (run_node st n) as [st1|] eqn:E1; [|discriminate].
      intro H. apply (IH (done ++ [n]) st1 st'); [rewrite <- app_assoc; exact E | | exact H].
      eapply run_node_inv1; eauto.
  Qed.
End Trace.
