(* C18 under the COARSE clock, part 3 (K3): coarse_inv is an invariant of every history of safe operations in
   which every build runs a plan of confined commands.  The heart is the build: every worker's blob is sound
   for its own paths and older than anything written from now on (held_ok); what a worker hands back has
   been re-observed after its command ran, or is what it was given minus the entries of the files ruler itself
   replaced (forget_replaced, the repair of F4); no later worker touches those paths (plan_wf, confinement). *)
From Ruler Require Import Tactics Bytes AList RuleSyntax Parser TopoSort World Cmdlang Work Build Ops Inv BuildSpec
     BytesFacts InvFacts BuildFacts C01Build C01Plan C18Facts CoarseInv.
Local Open Scope N_scope.

Module CoarseBuildProofs.
Import CoarseProofs.

Section B.
  Variable T : Type.
  Variable teqb : T -> T -> bool.
  Variable hc : bytes -> T.
  Variable hl : list T -> T.
  Variable hr : rule -> T.
  Hypothesis teqb_spec : forall a b, teqb a b = true <-> a = b.

  Notation world := (world T).
  Notation fstate := (fstate T).
  Notation blob := (blob T).
  Notation run_state := (run_state T).
  Notation join_state := (join_state T).
  Notation any_file := (any_file teqb).
  Notation cache_addressed := (cache_addressed teqb hc).
  Notation state_ok_at := (state_ok_at teqb hc).
  Notation held_ok := (held_ok teqb hc).
  Notation done_ok := (done_ok teqb hc).
  Notation blob_held := (blob_held teqb hc).
  Notation blob_done := (blob_done teqb hc).
  Notation tbl_held := (tbl_held teqb hc).
  Notation tbl_done := (tbl_done teqb hc).
  Notation files_le := (files_le teqb).
  Notation inflight := (inflight teqb hc).
  Notation pre_inv := (pre_inv teqb hc).
  Notation coarse_inv := (coarse_inv teqb hc).
  Notation frame_at := (frame_at T).
  Notation cache_sub := (InvProofs.cache_sub T teqb).

  Let beq_spec := bytes_eqb_eq.

  (* ================================================================== *)
  (* worlds with the same files, clock and cache                          *)
  (* ================================================================== *)

  Definition same3 (w w' : world) : Prop :=
    w_files w' = w_files w /\ w_clock w' = w_clock w /\ cache_of w' = cache_of w.

  Lemma same3_refl w : same3 w w.
  Proof. repeat split. Qed.

  Lemma same3_trans w1 w2 w3 : same3 w1 w2 -> same3 w2 w3 -> same3 w1 w3.
  Proof. intros (A1 & A2 & A3) (B1 & B2 & B3). repeat split; congruence. Qed.

  Lemma inflight_sub (w w' : world) :
    w_files w' = w_files w -> w_clock w' = w_clock w -> cache_sub w w' -> inflight w -> inflight w'.
  Proof.
    intros Hf Hc Hs [Ha Hl]. split.
    - eapply (InvProofs.cache_sub_addressed T teqb hc); eauto.
    - intros g Hg. rewrite Hc. apply Hl. eapply (InvProofs.any_file_same_files T teqb); eauto.
  Qed.

  Lemma inflight_same3 (w w' : world) : same3 w w' -> inflight w -> inflight w'.
  Proof.
    intros (Hf & Hc & Hca). apply inflight_sub; [exact Hf | exact Hc|]. apply InvProofs.cache_sub_same. exact Hca.
  Qed.

  Lemma write_table_same3 (w : world) t : same3 w (write_table T w t).
  Proof. repeat split. Qed.

  Lemma write_history_same3 (w : world) r h : same3 w (write_history T teqb hr w r h).
  Proof. destruct (InvProofs.write_history_inv T teqb hr w r h) as (H1 & H2 & _ & H3 & _). repeat split; assumption. Qed.

  (* ================================================================== *)
  (* the serial schedule                                                  *)
  (* ================================================================== *)

  Definition avoids (rest : list node) (q : bytes) : Prop := forall n, In n rest -> ~ In q (n_targets n).

  (* the blobs handed back so far are sound where they are, and no worker still to run has their paths *)
  Definition results_done (rest : list node) (w : world) (rs : list (option rule * thread_result T)) : Prop :=
    forall r wr, In (r, TOk wr) rs ->
      blob_done w (wr_blob wr) /\ forall q, In q (map fst (wr_blob wr)) -> avoids rest q.

  (* tr: a table carried along whose paths no worker has (what main saved at the start) *)
  Definition rs_cinv (tr : table T) (rest : list node) (st : run_state) : Prop :=
    inflight (rs_world T st) /\ tbl_held (rs_world T st) (rs_table T st) /\ tbl_held (rs_world T st) tr /\
    results_done rest (rs_world T st) (rs_results T st).

  Lemma results_done_app rest w rs x0 :
    results_done rest w rs -> results_done rest w [x0] -> results_done rest w (rs ++ [x0]).
  Proof.
    intros H1 H2 r wr Hin. apply in_app_or in Hin as [Hin | Hin]; [eapply H1 | eapply H2]; eauto.
  Qed.

  Lemma results_done_one_ok rest w r wr :
    blob_done w (wr_blob wr) -> (forall q, In q (map fst (wr_blob wr)) -> avoids rest q) ->
    results_done rest w [(r, TOk wr)].
  Proof. intros H1 H2 r' wr' [E | []]. injection E as _ <-. auto. Qed.

  Lemma results_done_one_err rest w r e : results_done rest w [(r, TErr e)].
  Proof. intros r' wr' [E | []]. discriminate. Qed.

  Lemma results_done_one_cancel rest w r : results_done rest w [(r, TCanceled)].
  Proof. intros r' wr' [E | []]. discriminate. Qed.

  Lemma blob_done_frame (w w' : world) ps b :
    w_clock w <= w_clock w' -> frame_at ps w w' -> (forall q, In q (map fst b) -> ~ In q ps) ->
    blob_done w b -> blob_done w' b.
  Proof.
    intros Hc Hf Hdis Hb. unfold Work.blob in *. apply Forall_forall. intros [q s] Hin.
    unfold CoarseInv.blob_done in Hb. rewrite Forall_forall in Hb. specialize (Hb _ Hin). cbn [fst snd] in *.
    eapply (done_ok_eq T teqb hc); [exact Hc | | exact Hb]. left. apply (frame_at_fget T ps); [exact Hf|].
    apply Hdis. apply in_map_iff. exists (q, s). auto.
  Qed.

  (* a worker with targets of node n has run: the earlier results are as sound as before, for the rest *)
  Lemma results_done_step n rest (w w' : world) rs :
    w_clock w <= w_clock w' -> frame_at (n_targets n) w w' ->
    results_done (n :: rest) w rs -> results_done rest w' rs.
  Proof.
    intros Hc Hf H r wr Hin. destruct (H r wr Hin) as [Hb Ha]. split.
    - eapply blob_done_frame; [exact Hc | exact Hf | | exact Hb]. intros q Hq. apply (Ha q Hq n). left. reflexivity.
    - intros q Hq m Hm. apply (Ha q Hq m). right. exact Hm.
  Qed.

  Lemma results_done_weaken n rest (w : world) rs : results_done (n :: rest) w rs -> results_done rest w rs.
  Proof.
    intros H r wr Hin. destruct (H r wr Hin) as [Hb Ha]. split; [exact Hb|].
    intros q Hq m Hm. apply (Ha q Hq m). right. exact Hm.
  Qed.

  Lemma run_leaf_cinv tr rest st leaf :
    avoids rest leaf -> rs_cinv tr rest st -> rs_cinv tr rest (run_leaf T teqb hc st leaf).
  Proof.
    intros Hav (Hi & Ht & Htr & Hr). unfold run_leaf.
    destruct (take_blob T hc (rs_table T st) [leaf]) as [b t'] eqn:Etb.
    destruct (take_blob_held T teqb hc teqb_spec _ _ _ _ _ Ht Etb) as (Hb & Ht' & _).
    pose proof (BuildFacts.take_blob_fst T hc [leaf] (rs_table T st)) as Hfst. rewrite Etb in Hfst. cbn [fst] in Hfst.
    unfold handle_leaf. destruct (current_tickets teqb hc (rs_world T st) b) as [ts|p]; unfold rs_cinv;
      cbn [rs_world rs_table rs_results]; (split; [exact Hi|]); (split; [exact Ht'|]); (split; [exact Htr|]);
      apply results_done_app; try exact Hr.
    - apply results_done_one_ok; cbn [wr_blob]; [apply blob_held_done; exact Hb|].
      rewrite Hfst. intros q [<- | []]. exact Hav.
    - apply results_done_one_err.
  Qed.

  Lemma run_leaves_cinv tr rest leaves : forall st,
    (forall l, In l leaves -> avoids rest l) -> rs_cinv tr rest st ->
    rs_cinv tr rest (fold_left (run_leaf T teqb hc) leaves st).
  Proof.
    induction leaves as [|l r IH]; intros st Hav H; cbn [fold_left]; [exact H|].
    apply IH; [intros l' Hl'; apply Hav; right; exact Hl'|]. apply run_leaf_cinv; [apply Hav; left; reflexivity | exact H].
  Qed.

  Lemma handle_rule_blob_fst (w : world) b h st cmd wr w' s :
    handle_rule teqb hc w b h st cmd = (Ok wr, w', s) -> map fst (wr_blob wr) = map fst b.
  Proof.
    intro H. destruct (handle_rule_ok T teqb hc _ _ _ _ _ _ _ _ H) as (ress & w1 & _ & _ & [HA | HB]).
    - apply HA.
    - destruct HB as (_ & _ & _ & _ & -> & _). apply forget_replaced_fst.
  Qed.

  Notation run_node := (run_node T teqb hc hl hr).
  Notation run_nodes := (run_nodes T teqb hc hl hr).
  Notation upto := (upto T teqb hc hl hr).

  Lemma run_node_cinv tr n rest st st' :
    NoDup (n_targets n) -> node_confined n ->
    (forall q, In q (n_targets n) -> avoids rest q) ->
    (forall q s, alookup bytes_eqb tr q = Some s -> ~ In q (n_targets n)) ->
    rs_cinv tr (n :: rest) st -> run_node st n = Some st' -> rs_cinv tr rest st'.
  Proof.
    intros Hnd Hconf Hav Htrk (Hi & Ht & Htr & Hr). unfold Build.run_node.
    destruct (take_blob T hc (rs_table T st) (n_targets n)) as [b t'] eqn:Etb.
    destruct (take_blob_held T teqb hc teqb_spec _ _ _ _ _ Ht Etb) as (Hb & Ht' & Hk').
    pose proof (BuildFacts.take_blob_fst T hc (n_targets n) (rs_table T st)) as Hfst. rewrite Etb in Hfst. cbn [fst] in Hfst.
    destruct (read_history T teqb hr (rs_world T st) (n_rule n)) as [h|]; [|discriminate].
    destruct (all_some (map (received T (rs_leaf_sent T st) (rs_node_sent T st)) (n_source_indices n)))
      as [tickets|].
    2:{ intro H; injection H as <-. unfold rs_cinv. cbn [rs_world rs_table rs_results].
        split; [exact Hi|]. split; [exact Ht'|]. split; [exact Htr|].
        apply results_done_app; [eapply results_done_weaken; eauto | apply results_done_one_cancel]. }
    destruct (handle_rule teqb hc (rs_world T st) b h (hl tickets) (n_command n)) as [[res w'] script] eqn:Eh.
    assert (NoDup (map fst b)) as Hndb by (rewrite Hfst; exact Hnd).
    destruct (handle_rule_coarse T teqb hc teqb_spec _ _ _ _ _ _ _ _ Hndb Hb Eh) as (Hck & Hi' & Hdone).
    assert (frame_at (n_targets n) (rs_world T st) w') as Hfr.
    { rewrite <- Hfst. eapply (handle_rule_frame T teqb hc); [exact Eh|]. rewrite Hfst. exact Hconf. }
    assert (tbl_held w' t') as Ht2.
    { eapply (tbl_held_frame T teqb hc); [exact Hck | exact Hfr | | exact Ht']. intros q s Hl. apply (Hk' q s Hl). }
    assert (tbl_held w' tr) as Htr2 by (eapply (tbl_held_frame T teqb hc); eauto).
    pose proof (results_done_step n rest _ _ _ Hck Hfr Hr) as Hr2.
    destruct res as [wr|e]; intro H; injection H as <-; unfold rs_cinv; cbn [rs_world rs_table rs_results];
      (split; [auto|]); (split; [exact Ht2|]); (split; [exact Htr2|]); apply results_done_app; try exact Hr2.
    - apply results_done_one_ok; [apply (Hdone Hi wr eq_refl)|].
      rewrite (handle_rule_blob_fst _ _ _ _ _ _ _ _ Eh), Hfst. exact Hav.
    - apply results_done_one_err.
  Qed.

  (* what the plan gives for a suffix of its nodes *)
  Definition nodes_good (ns : list node) : Prop :=
    NoDup (flat_map n_targets ns) /\ Forall node_confined ns.

  Lemma NoDup_app_split {A} (l1 l2 : list A) :
    NoDup (l1 ++ l2) -> NoDup l1 /\ NoDup l2 /\ forall a, In a l1 -> ~ In a l2.
  Proof.
    intro H. split; [eapply NoDup_app_l; eauto|]. split; [eapply NoDup_app_r; eauto|].
    intros a Ha. eapply NoDup_app_disjoint; eauto.
  Qed.

  Lemma nodes_good_cons n rest :
    nodes_good (n :: rest) ->
    NoDup (n_targets n) /\ node_confined n /\ (forall q, In q (n_targets n) -> avoids rest q) /\ nodes_good rest.
  Proof.
    intros [Hnd Hc]. cbn [flat_map] in Hnd. apply NoDup_app_split in Hnd as (H1 & H2 & H3).
    inversion Hc as [|? ? Hcn Hcr]; subst.
    split; [exact H1|]. split; [exact Hcn|]. split; [|split; assumption].
    intros q Hq m Hm Hqm. apply (H3 q Hq). apply in_flat_map. eauto.
  Qed.

  Lemma run_nodes_cinv tr ns : forall st st',
    nodes_good ns -> (forall q s, alookup bytes_eqb tr q = Some s -> ~ In q (flat_map n_targets ns)) ->
    rs_cinv tr ns st -> run_nodes st ns = Some st' -> rs_cinv tr [] st'.
  Proof.
    induction ns as [|n rest IH]; intros st st' Hg Htrk H; cbn [Build.run_nodes].
    - intro E. injection E as <-. exact H.
    - destruct (run_node st n) as [st1|] eqn:E1; [|discriminate].
      destruct (nodes_good_cons _ _ Hg) as (Hnd & Hcn & Hav & Hg').
      apply IH; [exact Hg'| |].
      + intros q s Hl Hin. apply (Htrk q s Hl). cbn [flat_map]. apply in_or_app. right. exact Hin.
      + eapply run_node_cinv; eauto. intros q s Hl Hin. apply (Htrk q s Hl). cbn [flat_map].
        apply in_or_app. left. exact Hin.
  Qed.

  Lemma upto_cinv tr ns : forall st,
    nodes_good ns -> (forall q s, alookup bytes_eqb tr q = Some s -> ~ In q (flat_map n_targets ns)) ->
    rs_cinv tr ns st -> inflight (rs_world T (upto st ns)) /\ tbl_held (rs_world T (upto st ns)) tr.
  Proof.
    induction ns as [|n rest IH]; intros st Hg Htrk H; cbn [BuildFacts.upto].
    - destruct H as (H1 & _ & H2 & _). auto.
    - destruct (run_node st n) as [st1|] eqn:E1.
      + destruct (nodes_good_cons _ _ Hg) as (Hnd & Hcn & Hav & Hg').
        apply IH; [exact Hg'| |].
        * intros q s Hl Hin. apply (Htrk q s Hl). cbn [flat_map]. apply in_or_app. right. exact Hin.
        * eapply run_node_cinv; eauto. intros q s Hl Hin. apply (Htrk q s Hl). cbn [flat_map].
          apply in_or_app. left. exact Hin.
      + destruct H as (H1 & _ & H2 & _). auto.
  Qed.

  (* ---------- main's join loop ---------- *)

  Notation join_one := (join_one T teqb hr).

  Lemma join_all_done (w : world) rs : forall js,
    (forall r wr, In (r, TOk wr) rs -> blob_done w (wr_blob wr)) ->
    tbl_done w (js_table T js) -> same3 w (js_world T js) ->
    tbl_done w (js_table T (fold_left join_one rs js)) /\ same3 w (js_world T (fold_left join_one rs js)).
  Proof.
    induction rs as [|[r tr] rs IH]; intros js Hr Ht Hs; cbn [fold_left]; [auto|].
    apply IH.
    - intros r' wr Hin. apply (Hr r' wr). right. exact Hin.
    - unfold Build.join_one. cbn [fst snd]. destruct tr as [wr|e|]; cbn [js_table]; try exact Ht.
      apply (insert_blob_done T teqb hc); [exact Ht|]. apply (Hr r wr). left. reflexivity.
    - unfold Build.join_one. cbn [fst snd]. destruct tr as [wr|e|]; cbn [js_world]; try exact Hs.
      destruct r as [r0|]; [|exact Hs]. destruct (wr_history wr) as [h|]; [|exact Hs].
      eapply same3_trans; [exact Hs | apply write_history_same3].
  Qed.

  (* ================================================================== *)
  (* build                                                                *)
  (* ================================================================== *)

  Lemma init_dir_coarse (w w1 : world) t :
    coarse_inv w -> init_dir T w = Ok (w1, t) ->
    inflight w1 /\ tbl_held w1 t /\ rd_table (w_rd w1) = Some (SF_ok t).
  Proof.
    intros Hinv Hi. destruct (InvProofs.init_dir_inv T teqb _ _ _ Hi) as (Hf & Hc & _ & Hcs & Htb & Ht).
    split; [eapply inflight_sub; eauto; apply coarse_inv_inflight; exact Hinv|]. split; [|exact Htb].
    destruct Ht as [Ht | ->]; [|intros q s X; discriminate].
    apply (tbl_held_sub T teqb hc w w1); [lia | | eapply coarse_inv_tbl_held; eauto].
    intro q. left. unfold fget. rewrite Hf. reflexivity.
  Qed.

  Lemma init_dir_error_pre_inv (w : world) f :
    coarse_inv w -> init_dir T w = Err f -> pre_inv (init_dir_world_on_error T w).
  Proof.
    intros Hinv Hi. split.
    - apply (inflight_sub w); [reflexivity | reflexivity | | apply coarse_inv_inflight; exact Hinv].
      intros c' t0 g Hc Hl. unfold cache_of, init_dir_world_on_error in Hc. cbn in Hc.
      destruct (rd_cache (w_rd w)) as [c|] eqn:Ec; injection Hc as <-.
      + exists c. unfold cache_of. auto.
      + cbn in Hl. discriminate.
    - intros tbl Htb. unfold init_dir_world_on_error in Htb. cbn in Htb. unfold init_dir in Hi.
      rewrite Htb in Hi. discriminate.
  Qed.

  Lemma pre_inv_write_table (w w0 : world) t :
    same3 w0 w -> inflight w0 -> tbl_done w0 t -> pre_inv (write_table T w t).
  Proof.
    intros Hs Hi Ht.
    assert (same3 w0 (write_table T w t)) as Hs' by (eapply same3_trans; [exact Hs | apply write_table_same3]).
    split; [eapply inflight_same3; eauto|].
    intros tbl E. cbn in E. injection E as <-. destruct Hs' as (Hf & Hc & _).
    eapply (tbl_done_ext T teqb hc); eauto.
  Qed.

  Theorem build_pre_inv (w : world) rp goal :
    coarse_inv w ->
    (forall w1 tbl pack, init_dir T w = Ok (w1, tbl) -> get_nodes T w1 rp goal = Ok pack ->
                         Forall node_confined (p_nodes pack)) ->
    pre_inv (o_world (build teqb hc hl hr w rp goal)).
  Proof.
    intros Hinv Hconf. rewrite (build_eq T teqb hc hl hr).
    destruct (init_dir T w) as [[w1 t]|f] eqn:Ei; [|cbn [o_world]; eapply init_dir_error_pre_inv; eauto].
    destruct (init_dir_coarse _ _ _ Hinv Ei) as (Hi1 & Ht1 & Htb1).
    destruct (get_nodes T w1 rp goal) as [pack|f] eqn:Eg.
    2:{ cbn [o_world]. split; [exact Hi1|]. intros tbl E. rewrite Htb1 in E. injection E as <-.
        apply (tbl_held_done T teqb hc). exact Ht1. }
    pose proof (get_nodes_plan_wf T _ _ _ _ Eg) as (Hnd & Hleaf & _).
    pose proof (Hconf w1 t pack eq_refl Eg) as Hc.
    assert (nodes_good (p_nodes pack)) as Hg by (split; assumption).
    set (tr := table_rest T hc t pack).
    assert (forall q s, alookup bytes_eqb tr q = Some s -> ~ In q (flat_map n_targets (p_nodes pack))) as Htrk.
    { intros q s Hl. apply (table_rest_keys T hc t pack q s Hl). }
    assert (tbl_held w1 tr) as Htr1.
    { intros q s Hl. apply (Ht1 q s). apply (table_rest_keys T hc t pack q s Hl). }
    assert (rs_cinv tr (p_nodes pack) (st_leaves T teqb hc w1 t pack)) as H1.
    { unfold st_leaves. apply run_leaves_cinv.
      - intros l Hl n Hn Hin. apply (Hleaf l Hl). unfold plan_targets. apply in_flat_map. eauto.
      - unfold rs_cinv. cbn [rs_world rs_table rs_results]. split; [exact Hi1|]. split; [exact Ht1|].
        split; [exact Htr1|]. intros r wr []. }
    cbv zeta.
    destruct (run_nodes (st_leaves T teqb hc w1 t pack) (p_nodes pack)) as [st2|] eqn:En; cbn [o_world].
    - destruct (run_nodes_cinv tr _ _ _ Hg Htrk H1 En) as (Hi2 & Ht2 & _ & Hr2).
      unfold joined.
      destruct (join_all_done (rs_world T st2) (rs_results T st2) (mk_js T (rs_world T st2) (rs_table T st2) [] []))
        as [Htd Hs3].
      + intros r wr Hin. apply (Hr2 r wr Hin).
      + cbn [js_table]. apply (tbl_held_done T teqb hc). exact Ht2.
      + apply same3_refl.
      + eapply pre_inv_write_table; eauto.
    - destruct (upto_cinv tr _ _ Hg Htrk H1) as [Hi2 Ht2].
      eapply pre_inv_write_table; [apply same3_refl | exact Hi2 | apply (tbl_held_done T teqb hc); exact Ht2].
  Qed.

  (* ================================================================== *)
  (* clean                                                                *)
  (* ================================================================== *)

  Lemma back_up_table (w : world) t p w' : back_up teqb w t p = Some w' -> rd_table (w_rd w') = rd_table (w_rd w).
  Proof. intro H. destruct (InvProofs.back_up_inv T teqb _ _ _ _ H) as (c & f & _ & _ & ->). reflexivity. Qed.

  Lemma clean_targets_table (b : blob) : forall (w w' : world),
    clean_targets teqb hc w b = Ok w' -> rd_table (w_rd w') = rd_table (w_rd w).
  Proof.
    induction b as [|[p a] rest IH]; intros w w'; cbn [clean_targets].
    - intro H. injection H as <-. reflexivity.
    - destruct (get_file_ticket teqb hc w p a) as [cur|]; [|apply IH].
      destruct (back_up teqb w cur p) as [w1|] eqn:Eb; [|discriminate]. intro H.
      rewrite (IH _ _ H). eapply back_up_table; eauto.
  Qed.

  Notation clean_nodes := (clean_nodes T teqb hc).

  Lemma clean_nodes_coarse ns : forall (w : world) t errs,
    Forall (fun n => NoDup (n_targets n)) ns -> tbl_held w t -> inflight w ->
    let w' := fst (clean_nodes w t ns errs) in
    inflight w' /\ w_clock w' = w_clock w /\ (forall q, fget w' q = fget w q \/ fget w' q = None) /\
    rd_table (w_rd w') = rd_table (w_rd w).
  Proof.
    induction ns as [|n rest IH]; intros w t errs Hg Ht Hi; cbn [Build.clean_nodes].
    - cbn [fst]. auto.
    - inversion Hg as [|? ? Hnd Hrest]; subst.
      destruct (take_blob T hc t (n_targets n)) as [b t1] eqn:E1.
      destruct (take_blob_held T teqb hc teqb_spec _ _ _ _ _ Ht E1) as (Hb & Ht1 & _).
      pose proof (BuildFacts.take_blob_fst T hc (n_targets n) t) as Hfst. rewrite E1 in Hfst. cbn [fst] in Hfst.
      assert (NoDup (map fst b)) as Hndb by (rewrite Hfst; exact Hnd).
      destruct (clean_targets teqb hc w b) as [w1|e] eqn:Ec; [|apply IH; assumption].
      destruct (clean_targets_coarse T teqb hc teqb_spec _ _ _ Hndb Hb Ec) as (Hck & Hi1 & Hsub).
      assert (tbl_held w1 t1) as Ht1' by (eapply (tbl_held_sub T teqb hc); eauto; lia).
      destruct (IH w1 t1 errs Hrest Ht1' (Hi1 Hi)) as (H1 & H2 & H3 & H4).
      split; [exact H1|]. split; [congruence|]. split.
      + intro q. destruct (H3 q) as [E | E]; [|right; exact E]. rewrite E. apply Hsub.
      + rewrite H4. eapply clean_targets_table; eauto.
  Qed.

  Theorem clean_pre_inv (w : world) rp goal :
    coarse_inv w -> pre_inv (o_world (clean teqb hc w rp goal)).
  Proof.
    intros Hinv. rewrite (clean_eq T teqb hc).
    destruct (init_dir T w) as [[w1 t]|f] eqn:Ei; [|cbn [o_world]; eapply init_dir_error_pre_inv; eauto].
    destruct (init_dir_coarse _ _ _ Hinv Ei) as (Hi1 & Ht1 & Htb1).
    destruct (get_nodes T w1 rp goal) as [pack|f] eqn:Eg; cbn [o_world].
    2:{ split; [exact Hi1|]. intros tbl E. rewrite Htb1 in E. injection E as <-.
        apply (tbl_held_done T teqb hc). exact Ht1. }
    assert (Forall (fun n => NoDup (n_targets n)) (p_nodes pack)) as Hg.
    { apply Forall_forall. intros n Hin. destruct (in_split _ _ Hin) as (done & rest & E).
      apply (plan_wf_node pack done n rest (get_nodes_plan_wf T _ _ _ _ Eg) E). }
    destruct (clean_nodes_coarse (p_nodes pack) w1 t [] Hg Ht1 Hi1) as (H1 & H2 & H3 & H4).
    split; [exact H1|]. intros tbl E. rewrite H4, Htb1 in E. injection E as <-.
    apply (tbl_held_done T teqb hc). eapply (tbl_held_sub T teqb hc); [| exact H3 | exact Ht1]. lia.
  Qed.

  (* ================================================================== *)
  (* the tick, the user's operations                                      *)
  (* ================================================================== *)

  Lemma tick_coarse (w : world) : pre_inv w -> coarse_inv (tick w).
  Proof.
    intros [[Ha Hf] Ht]. split; [exact Ha|]. split; [|split].
    - intros tbl p st Htb Hl. cbn in Htb. apply (Ht tbl Htb p st Hl).
    - intros f Hfa. cbn [tick w_clock]. assert (any_file w f) as Hfa' by exact Hfa. specialize (Hf f Hfa'). lia.
    - intros tbl p st Htb Hl. cbn in Htb. cbn [tick w_clock]. destruct (Ht tbl Htb p st Hl) as [_ H]. lia.
  Qed.

  Lemma coarse_inv_pre_inv (w : world) : coarse_inv w -> pre_inv w.
  Proof.
    intro Hinv. split; [apply coarse_inv_inflight; exact Hinv|]. intros tbl E.
    apply (tbl_held_done T teqb hc). eapply coarse_inv_tbl_held; eauto.
  Qed.

  (* a command of the user: the files move on, the ruler directory is as it was *)
  Lemma adv_pre_inv (w w' : world) :
    coarse_inv w -> adv T w w' -> w_rd w' = w_rd w -> files_le w' -> pre_inv w'.
  Proof.
    intros Hinv [Hc Hadv] Hrd Hf. split; [split; [|exact Hf]|].
    - destruct Hinv as (Ha & _). intros c t f Hca Hl. unfold cache_of in Hca. rewrite Hrd in Hca. eapply Ha; eauto.
    - intros tbl E. rewrite Hrd in E. apply (tbl_held_done T teqb hc). intros q s Hl.
      eapply (held_ok_transport T teqb hc); [exact Hc | apply Hadv|].
      eapply coarse_inv_tbl_held; eauto.
  Qed.

  (* the user deletes or damages parts of the ruler directory *)
  Lemma shrink_pre_inv (w : world) rd' :
    coarse_inv w -> rdir_shrinks T teqb (w_rd w) rd' -> pre_inv (set_rd w rd').
  Proof.
    intros Hinv Hsh. split.
    - apply (inflight_sub w); [reflexivity | reflexivity | | apply coarse_inv_inflight; exact Hinv].
      apply InvProofs.rdir_shrinks_cache_sub. exact Hsh.
    - intros tbl E. cbn in E. destruct Hsh as (_ & Htb & _). apply Htb in E.
      apply (tbl_done_ext T teqb hc w); [reflexivity | reflexivity|].
      apply (tbl_held_done T teqb hc). eapply coarse_inv_tbl_held; eauto.
  Qed.

  Definition build_confined (w : world) (goal : option bytes) : Prop :=
    forall w1 tbl pack, init_dir T w = Ok (w1, tbl) -> get_nodes T w1 RULES_PATH goal = Ok pack ->
                        Forall node_confined (p_nodes pack).

  (* the user's mv is excluded: two files written in one tick of the coarse clock carry the same time, and
     exchanging them makes the table entry of the destination match the wrong file (refuted for mv in
     C18CoarseFacts.coarse_inv_mv_refuted); C18 speaks of ruler moving files, not the user *)
  Definition op_confined (w : world) (o : op T) : Prop :=
    match o with
    | OBuild goal => build_confined w goal
    | OMove _ _ => False
    | _ => True
    end.

  Theorem coarse_inv_apply_op_main (w : world) (o : op T) :
    coarse_inv w -> safe_op T o -> op_confined w o -> coarse_inv (fst (apply_op teqb hc hl hr w o)).
  Proof.
    intros Hinv Hsafe Hconf. pose proof (coarse_inv_inflight T teqb hc w Hinv) as [_ Hfl].
    destruct o as [p c | p | p x | p q | t | | | | | t | v | t v | goal | goal];
      [| | | destruct Hconf | | | | | | | | | |];
      cbn [apply_op fst]; unfold upd_rd; apply tick_coarse.
    - apply (adv_pre_inv w); [exact Hinv | apply (write_file_adv T teqb hc teqb_spec) | apply (w_rd_write_file T)|].
      apply (write_file_files_le T teqb hc teqb_spec). exact Hfl.
    - apply (adv_pre_inv w); [exact Hinv | apply (remove_file_adv T teqb hc teqb_spec) | reflexivity|].
      apply (remove_file_files_le T teqb). exact Hfl.
    - apply (adv_pre_inv w); [exact Hinv | apply (set_exec_adv T teqb hc teqb_spec) | apply (w_rd_set_exec T)|].
      apply (set_exec_files_le T teqb). exact Hfl.
    - apply shrink_pre_inv; [exact Hinv|]. split; [|split]; cbn.
      + intros c' t' f Hc Hl. destruct (rd_cache (w_rd w)) as [c|]; [|discriminate]. injection Hc as <-.
        apply (InvProofs.alookup_aremove_some _ teqb_spec) in Hl as [_ Hl]. exists c. auto.
      + auto.
      + intros hs' t' h Hh Hl. exists hs'. auto.
    - apply shrink_pre_inv; [exact Hinv|]. split; [|split]; cbn.
      + intros c' t' f Hc. discriminate.
      + intros tbl' Ht. discriminate.
      + intros hs' t' h Hh. discriminate.
    - apply shrink_pre_inv; [exact Hinv|]. split; [|split]; cbn.
      + intros c' t' f Hc. discriminate.
      + auto.
      + intros hs' t' h Hh Hl. exists hs'. auto.
    - apply shrink_pre_inv; [exact Hinv|]. split; [|split]; cbn.
      + intros c' t' f Hc Hl. exists c'. auto.
      + auto.
      + intros hs' t' h Hh. discriminate.
    - apply shrink_pre_inv; [exact Hinv|]. split; [|split]; cbn.
      + intros c' t' f Hc Hl. exists c'. auto.
      + intros tbl' Ht. discriminate.
      + intros hs' t' h Hh Hl. exists hs'. auto.
    - apply shrink_pre_inv; [exact Hinv|]. split; [|split]; cbn.
      + intros c' t' f Hc Hl. exists c'. auto.
      + auto.
      + intros hs' t' h Hh Hl. destruct (rd_hist (w_rd w)) as [hs|]; [|discriminate]. injection Hh as <-.
        apply (InvProofs.alookup_aremove_some _ teqb_spec) in Hl as [_ Hl]. exists hs. auto.
    - destruct v as [tbl|]; [destruct Hsafe|].
      apply shrink_pre_inv; [exact Hinv|]. destruct (rd_exists (w_rd w)); split; try split; cbn.
      + intros c' t' f Hc Hl. exists c'. auto.
      + intros tbl' Ht. discriminate.
      + intros hs' t' h Hh Hl. exists hs'. auto.
      + intros c' t' f Hc Hl. exists c'. auto.
      + auto.
      + intros hs' t' h Hh Hl. exists hs'. auto.
    - destruct v as [h0|]; [destruct Hsafe|].
      apply shrink_pre_inv; [exact Hinv|]. split; [|split]; cbn.
      + intros c' t' f Hc Hl. exists c'. auto.
      + auto.
      + intros hs' t' h Hh Hl. destruct (rd_hist (w_rd w)) as [hs|]; [|discriminate]. injection Hh as <-.
        apply (InvProofs.alookup_ainsert_some _ teqb_spec) in Hl as [[_ Hl] | [_ Hl]]; [discriminate|]. exists hs. auto.
    - apply build_pre_inv; [exact Hinv | exact Hconf].
    - apply clean_pre_inv. exact Hinv.
  Qed.

  Theorem coarse_inv_init_main mode t0 : coarse_inv (init_world mode t0).
  Proof.
    unfold init_world.
    assert (forall f, ~ any_file (mk_world [] no_rdir t0 mode) f) as Hno.
    { intros f [(p & Hp) | (c & t & Hc & _)]; [cbn in Hp | cbn in Hc]; discriminate. }
    split; [|split; [|split]].
    - intros c t f Hc. cbn in Hc. discriminate.
    - intros tbl p st Htb. cbn in Htb. discriminate.
    - intros f Hf. destruct (Hno f Hf).
    - intros tbl p st Htb. cbn in Htb. discriminate.
  Qed.

  (* a history of safe operations in which every build runs a plan of confined commands *)
  Fixpoint confined_history (w : world) (ops : list (op T)) : Prop :=
    match ops with
    | [] => True
    | o :: rest => safe_op T o /\ op_confined w o /\ confined_history (fst (apply_op teqb hc hl hr w o)) rest
    end.

  Theorem coarse_inv_history ops : forall w : world,
    coarse_inv w -> confined_history w ops ->
    coarse_inv (fold_left (fun w o => fst (apply_op teqb hc hl hr w o)) ops w).
  Proof.
    induction ops as [|o rest IH]; intros w Hinv Hh; cbn [fold_left]; [exact Hinv|].
    destruct Hh as (Hsafe & Hconf & Hrest). apply IH; [|exact Hrest].
    apply coarse_inv_apply_op_main; assumption.
  Qed.
End B.

End CoarseBuildProofs.
