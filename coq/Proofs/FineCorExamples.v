(* FINE-COROLLARIES, part 5: non-vacuity examples for FineCor / FineCorFinal on FineFacts' race. *)
From Coq Require Import String Ascii.
From Coq Require Import Relations.Relation_Operators Relations.Operators_Properties.
From Ruler Require Import Tactics Bytes AList RuleSyntax Parser TopoSort TopoSpec World Cmdlang Work Build Ops Inv
     BuildSpec Ideal Sched Fine BytesFacts InvFacts TableFrame BuildFacts TopoSortFacts C01Script C01Hist C01Build C01Plan
     C01Facts C04Facts C11Facts ActsFacts F6Facts SchedBasic SchedSerial SchedRule SchedInv SchedFacts
     FineBasic FineRule FineInv FineSerial FineFacts FineCorStep FineCor FineStatus FineCorFinal.
Local Open Scope nat_scope.

(* ================================================================== *)
(* non-vacuity: FineFacts' race (rules a <- s, b <- a, c <- a; b and c  *)
(* remember the content in ONE cache slot; workers 0 = s, 1 = a, 2 = b, *)
(* 3 = c). After fx_pre both b and c have seen the entry; in            *)
(* fx_pre ++ [3] worker c has won the rename, b is still before it.     *)
(* ================================================================== *)

Definition fx_t' : table sym := snd (take_blobs sym SContent fx_tbl (worker_paths fx_pack)).
Definition fx_hists : list (history sym) :=
  match read_histories sym sym_eqb SRule fx_w1 (p_nodes fx_pack) with Some h => h | None => [] end.
Notation fx_st ch := (frun_sym fx_pack fx_blobs fx_hists ch (fn_start_sym fx_w1 fx_t' fx_pack)).

Lemma fx_hists_eq : read_histories sym sym_eqb SRule fx_w1 (p_nodes fx_pack) = Some fx_hists.
Proof. vm_compute. reflexivity. Qed.

Lemma fx_take : take_blobs sym SContent fx_tbl (worker_paths fx_pack) = (fx_blobs, fx_t').
Proof. unfold fx_blobs, fx_t'. destruct (take_blobs sym SContent fx_tbl (worker_paths fx_pack)); reflexivity. Qed.

Lemma fx_start_crash_ok : crash_ok_sym fx_w.
Proof. apply (history_crash_ok_sym 1 fx_ops); [exact fx_det_history | repeat constructor]. Qed.

Definition fx_mid : list nat := fx_pre ++ [3].

Example fx_mid_phases :
  map (phase_of sym (fx_st fx_pre)) [0; 1; 2; 3] = [WDone; WDone; WRename [] 0; WRename [] 0] /\
  map (phase_of sym (fx_st fx_mid)) [0; 1; 2; 3] = [WDone; WDone; WRename [] 0; WResolve [Recovered] 1].
Proof. vm_compute. split; reflexivity. Qed.

(* P1 in the middle of the race: the world is crash_ok ... *)
Example fx_mid_crash_ok : crash_ok_sym (fn_world (fx_st fx_mid)).
Proof.
  destruct fx_start_crash_ok as (Hinv & Hhs & Hn).
  exact (fine_crash_ok_sym fx_w RULES_PATH None fx_w1 fx_tbl fx_pack fx_hists fx_blobs fx_t' fx_mid
           Hinv Hhs Hn fx_init fx_nodes fx_det fx_hists_eq fx_take).
Qed.

(* ... it is neither the world the threads started in nor a final one (c is back, b is not, the entry is gone) ... *)
Example fx_mid_world :
  content_at (fn_world (fx_st fx_mid)) (bs "c") = Some (bs "x1") /\
  content_at (fn_world (fx_st fx_mid)) (bs "b") = None /\
  content_at (fn_world (fx_st fx_pre)) (bs "c") = None /\
  option_map (fun c => alookup sym_eqb c (SContent (bs "x1"))) (cache_of (fn_world (fx_st fx_mid))) = Some None.
Proof. vm_compute. repeat split; reflexivity. Qed.

(* ... and a build started from it (the kill happened here) recovers: it succeeds, and C01 holds for it *)
Notation fx_wc := (fn_world (fx_st fx_mid)).
Definition fx_wc1 : world sym := match init_dir sym fx_wc with Ok (w1, _) => w1 | Err _ => fx_wc end.
Definition fx_wctbl : table sym := match init_dir sym fx_wc with Ok (_, t) => t | Err _ => [] end.
Definition fx_wcpack : node_pack :=
  match get_nodes sym fx_wc1 RULES_PATH None with Ok p => p | Err _ => mk_pack [] [] end.

Example fx_mid_recovers :
  o_verdict (build_sym fx_wc RULES_PATH None) = VOk /\
  forall t, In t (plan_targets fx_wcpack) ->
    content_at (o_world (build_sym fx_wc RULES_PATH None)) t = content_at (scratch_world fx_wc fx_wcpack) t.
Proof.
  assert (o_verdict (build_sym fx_wc RULES_PATH None) = VOk) as Hok by (vm_compute; reflexivity).
  split; [exact Hok|].
  assert (init_dir sym fx_wc = Ok (fx_wc1, fx_wctbl)) as H1 by (vm_compute; reflexivity).
  assert (get_nodes sym fx_wc1 RULES_PATH None = Ok fx_wcpack) as H2 by (vm_compute; reflexivity).
  assert (Forall det_node (p_nodes fx_wcpack)) as H3 by (apply det_nodesb_sound; vm_compute; reflexivity).
  destruct fx_start_crash_ok as (Hinv & Hhs & Hn).
  pose proof (fine_crash_recovers_sym fx_w RULES_PATH None fx_w1 fx_tbl fx_pack fx_hists fx_blobs fx_t' fx_mid
                None fx_wc1 fx_wctbl fx_wcpack Hinv Hhs Hn fx_init fx_nodes fx_det fx_hists_eq fx_take) as R.
  cbv zeta in R. destruct R as (_ & _ & _ & _ & R).
  exact (R H1 H2 H3 Hok).
Qed.

Example fx_mid_table :
  rd_table (w_rd (fn_world (fx_st fx_mid))) = Some (SF_ok fx_t') /\
  alookup bytes_eqb fx_t' (bs "c") = None /\ alookup bytes_eqb fx_t' (bs "s") = None.
Proof.
  destruct (fine_no_stale_entries_sym fx_w1 fx_tbl fx_pack fx_hists fx_blobs fx_t' fx_mid fx_take) as [H1 H2].
  split; [exact H1|]. split; apply H2; vm_compute; auto.
Qed.

(* P2 at the step that wins the race: worker 3 renames the entry into c *)
Lemma fx_winning_step : fstep_sym fx_pack fx_blobs fx_hists (fx_st fx_pre) 3 = Some (fx_st fx_mid).
Proof. vm_compute. reflexivity. Qed.

Lemma fx_x1_protected_before : protected_content sym_eqb (plan_targets fx_pack) (fn_world (fx_st fx_pre)) (bs "x1").
Proof.
  right. exists (match cache_of (fn_world (fx_st fx_pre)) with Some c => c | None => [] end),
                (SContent (bs "x1")), (mk_file (bs "x1") 2006%N false).
  vm_compute. repeat split; reflexivity.
Qed.

Example fx_x1_protected_after : protected_content sym_eqb (plan_targets fx_pack) (fn_world (fx_st fx_mid)) (bs "x1").
Proof.
  destruct fx_inv as [Hinv Hhs].
  apply (fine_step_keeps_content_sym fx_w RULES_PATH None fx_w1 fx_tbl fx_pack fx_hists fx_blobs fx_t' fx_pre 3
           (fx_st fx_mid) Hinv Hhs fx_init fx_nodes fx_det fx_hists_eq fx_take fx_winning_step).
  - intros ro E. vm_compute in E. discriminate E.
  - apply incl_refl.
  - exact fx_x1_protected_before.
Qed.

(* the loser of the race (worker 2, still in WRename [] 0) finds its target absent *)
Example fx_loser_target_absent : fget (fn_world (fx_st fx_mid)) (bs "b") = None.
Proof.
  apply (fine_restore_into_absent_sym fx_w1 RULES_PATH None fx_tbl fx_pack fx_hists fx_blobs fx_t' fx_mid
           1 (nth 1 (p_nodes fx_pack) (mk_node [] [] [] (mk_rule [] [] []))) [] 0 (bs "b") fx_nodes fx_det fx_take).
  - vm_compute. reflexivity.
  - right. vm_compute. reflexivity.
  - vm_compute. reflexivity.
Qed.

(* P3: the source and the rules file are as they were *)
Example fx_mid_frame :
  fget (fn_world (fx_st fx_mid)) (bs "s") = fget fx_w1 (bs "s") /\
  fget (fn_world (fx_st fx_mid)) RULES_PATH = fget fx_w1 RULES_PATH /\ fget fx_w1 (bs "s") <> None.
Proof.
  pose proof (fine_frame_sym fx_w1 fx_tbl fx_pack fx_hists fx_blobs fx_t' fx_mid fx_take
                (det_nodes_confined _ fx_det)) as H. cbv zeta in H.
  split; [|split].
  - apply H. vm_compute. intros [E | [E | [E | []]]]; discriminate E.
  - apply H. vm_compute. intros [E | [E | [E | []]]]; discriminate E.
  - vm_compute. discriminate.
Qed.

(* P4 on the complete run in which c wins: c reports "Recovered" and did rename; b reports "Built" and did run *)
Example fx_results :
  exists rc wrc rb wrb,
    nth 3 (fn_res (fx_st fx_c_wins)) None = Some (rc, TOk wrc) /\ wr_option wrc = Resolutions [Recovered] /\
    status_lines sym wrc = [(BRecovered, bs "c")] /\
    nth 2 (fn_res (fx_st fx_c_wins)) None = Some (rb, TOk wrb) /\ wr_option wrb = CommandExecuted /\
    status_lines sym wrb = [(BBuilt, bs "b")].
Proof. vm_compute. do 4 eexists. repeat split; reflexivity. Qed.

Example fx_c_recovered : forall r wr,
  nth 3 (fn_res (fx_st fx_c_wins)) None = Some (r, TOk wr) -> wr_option wr = Resolutions [Recovered] ->
  exists pre post s' done,
    fx_c_wins = pre ++ 3 :: post /\ fstep_sym fx_pack fx_blobs fx_hists (fx_st pre) 3 = Some s' /\
    phase_of sym (fx_st pre) 3 = WRename done 0 /\ phase_of sym s' 3 = WResolve (done ++ [Recovered]) 1.
Proof.
  intros r wr Hr Ho.
  destruct (fine_status_truthful_sym fx_w1 fx_tbl fx_pack fx_hists fx_blobs fx_t' fx_c_wins 3 r wr fx_take
              ltac:(vm_compute; lia) Hr) as (n & _ & _ & _ & [(Ho' & _) | (ress & Ho' & _ & _ & _ & _ & Hdec)]).
  - rewrite Ho in Ho'. discriminate.
  - rewrite Ho in Ho'. injection Ho' as <-. apply (Hdec 0). reflexivity.
Qed.

Example fx_b_built : forall r wr,
  nth 2 (fn_res (fx_st fx_c_wins)) None = Some (r, TOk wr) -> wr_option wr = CommandExecuted ->
  exists pre post s' ro,
    fx_c_wins = pre ++ 2 :: post /\ fstep_sym fx_pack fx_blobs fx_hists (fx_st pre) 2 = Some s' /\
    phase_of sym (fx_st pre) 2 = WFinish ro /\
    fn_commands s' = fn_commands (fx_st pre) ++ [bs "gen b =x @a"].
Proof.
  intros r wr Hr Ho.
  destruct (fine_status_truthful_sym fx_w1 fx_tbl fx_pack fx_hists fx_blobs fx_t' fx_c_wins 2 r wr fx_take
              ltac:(vm_compute; lia) Hr) as (n & En & _ & _ & [(_ & _ & _ & H) | (ress & Ho' & _)]).
  - vm_compute in En. injection En as <-. exact H.
  - rewrite Ho in Ho'. discriminate.
Qed.

Example fx_status_lines :
  o_status (build_fine_sym fx_c_wins fx_w RULES_PATH None) = [(BBuilt, bs "b"); (BRecovered, bs "c"); (BRecovered, bs "a")]
  \/ o_status (build_fine_sym fx_c_wins fx_w RULES_PATH None) = [(BRecovered, bs "a"); (BBuilt, bs "b"); (BRecovered, bs "c")].
Proof. right. vm_compute. reflexivity. Qed.
