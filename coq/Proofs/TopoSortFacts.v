(* C12: the topological sorter model (Model/TopoSort.v) against its declarative specification
   (Model/TopoSpec.v).

   Proof files:
     TopoSortBasic.v  order facts for rules (R1), fuel measure (R2)
     TopoSortBuild.v  rules_to_frame_buffer: the frame buffer and the target table
     TopoSortInv.v    the machine invariant, its preservation by every step of the depth-first loop,
                      what it gives in a final state (plan_ok, no reachable cycle) and at each error
     this file        the top-level statements, under (* the theorems below are not vacuous on it *)
Example ex_diamond_plan_ok :
  exists pack, toposort ex_diamond (Some ex_a) = Ok pack /\ plan_ok ex_diamond (Some ex_a) pack /\
               valid ex_diamond (Some ex_a).
Proof.
  eexists. split; [vm_compute; reflexivity|]. split.
  - apply ok_plan; [repeat constructor; discriminate | vm_compute; reflexivity].
  - eapply ok_valid. vm_compute. reflexivity.
Qed.

(* Observation (not one of the requested statements): the list carried by CircularDependence is the
   whole stack, bottom first, followed by the current frame.  The stack also holds pending (unvisited)
   siblings, so the list can name targets that are not on any cycle: here z, which has no sources. *)
Example ex_cycle_list_includes_pending_sibling :
  let ex_z := nm 122%N in
  toposort [ex_rule ex_a [ex_b; ex_z]; ex_rule ex_b [ex_a]; ex_rule ex_z []] (Some ex_a)
  = Err (CircularDependence [ex_a; ex_z; ex_b]).
Proof. vm_compute. reflexivity. Qed.

(* ==== RESULTS ==== *) at the end *)
From Coq Require Import List Permutation Bool Arith Relations.
From Ruler Require Import Tactics Bytes SortList BytesFacts SortListFacts RuleSyntax TopoSort TopoSpec
     TopoSortBasic TopoSortBuild TopoSortInv.
Import ListNotations.
Local Open Scope nat_scope.

(* ================================================================== *)
(* one statement describing every run of toposort                      *)
(* ================================================================== *)

Local Notation crs_of rs := (map canon_rule (sort_rules rs)).

Definition run_ok (rs : list rule) (goal : option bytes) (pack : node_pack) : Prop :=
  exists buf t m,
    build_ok (crs_of rs) buf t /\
    match goal with Some g => tbi_get t g <> None | None => True end /\
    Final rs goal t m /\ pack = get_result m.

Definition run_err (rs : list rule) (goal : option bytes) (e : sort_err) : Prop :=
  (exists x l1 l2 l3, e = TargetInMultipleRules x /\ all_targets (crs_of rs) = l1 ++ x :: l2 ++ x :: l3)
  \/ (exists buf t g, build_ok (crs_of rs) buf t /\ goal = Some g /\ tbi_get t g = None /\ e = TargetMissing g)
  \/ (exists buf t, build_ok (crs_of rs) buf t /\ err_sound rs goal e /\
                    (forall x, e <> TargetInMultipleRules x) /\ (forall x, e <> TargetMissing x)).

Lemma err_sound_kinds rs goal e :
  err_sound rs goal e -> (forall x, e <> TargetInMultipleRules x) /\ (forall x, e <> TargetMissing x).
Proof. destruct e; cbn [err_sound]; intro H; try contradiction; split; intros x; discriminate. Qed.

Lemma toposort_run rs goal :
  match toposort rs goal with
  | Ok pack => run_ok rs goal pack
  | Err e => run_err rs goal e
  end.
Proof.
  unfold toposort.
  destruct (rules_to_frame_buffer rs) as [[buf t]|e] eqn:Eb.
  - pose proof (rules_to_frame_buffer_ok _ _ _ Eb) as Hb.
    pose proof (bo_some _ _ _ Hb) as H1. pose proof (bo_none _ _ _ Hb) as H2.
    pose proof (bo_nodup _ _ _ Hb) as H3. pose proof (bo_buf _ _ _ Hb) as H4. subst buf.
    destruct goal as [g|].
    + destruct (tbi_get t g) as [[index sub]|] eqn:Eg.
      * pose proof (run_goal rs (Some g) t H1 H2 H3 g index sub eq_refl Eg) as Hr.
        destruct (sort_once _ index sub) as [m|e].
        -- exists (frames_from 0 (crs_of rs)), t, m.
           split; [exact Hb|]. split; [congruence|]. split; [exact Hr | reflexivity].
        -- right. right. exists (frames_from 0 (crs_of rs)), t.
           split; [exact Hb|]. split; [exact Hr|]. apply err_sound_kinds with (1 := Hr).
      * right. left. exists (frames_from 0 (crs_of rs)), t, g. auto.
    + rewrite frames_from_length, map_length.
      pose proof (run_all rs None t H1 H2 eq_refl) as Hr.
      destruct (sort_all_from _ _ 0) as [m|e].
      * exists (frames_from 0 (crs_of rs)), t, m.
        split; [exact Hb|]. split; [exact I|]. split; [exact Hr | reflexivity].
      * right. right. exists (frames_from 0 (crs_of rs)), t.
        split; [exact Hb|]. split; [exact Hr|]. apply err_sound_kinds with (1 := Hr).
  - left. apply rules_to_frame_buffer_err. exact Eb.
Qed.

(* ================================================================== *)
(* R3: each error kind is sound                                        *)
(* ================================================================== *)

Lemma in_scope_in rs goal r : in_scope rs goal r -> In r rs.
Proof.
  intros (r0 & [Hr0 _] & Hrt). apply clos_rt_rtn1 in Hrt. destruct Hrt as [|y z Hyz _]; [exact Hr0|].
  destruct Hyz as (_ & H & _). exact H.
Qed.

Lemma err_multiple rs goal x :
  toposort rs goal = Err (TargetInMultipleRules x) ->
  exists l1 l2 l3, all_targets (map canon_rule (sort_rules rs)) = l1 ++ x :: l2 ++ x :: l3.
Proof.
  intro H. pose proof (toposort_run rs goal) as Hr. rewrite H in Hr.
  destruct Hr as [(y & l1 & l2 & l3 & E & Hl)|[(buf & t & g & _ & _ & _ & E)|(buf & t & _ & _ & Hk & _)]].
  - injection E as <-. eauto.
  - discriminate.
  - exfalso. apply (Hk x). reflexivity.
Qed.

Lemma err_missing rs goal g :
  toposort rs goal = Err (TargetMissing g) -> goal = Some g /\ ~ In g (all_targets rs).
Proof.
  intro H. pose proof (toposort_run rs goal) as Hr. rewrite H in Hr.
  destruct Hr as [(y & l1 & l2 & l3 & E & Hl)|[(buf & t & g' & Hb & Hg & Hn & E)|(buf & t & _ & _ & _ & Hk)]].
  - discriminate.
  - injection E as <-. split; [exact Hg|]. apply (bo_none _ _ _ Hb) in Hn.
    intro Hi. apply Hn. apply all_targets_canon_in. exact Hi.
  - exfalso. apply (Hk g). reflexivity.
Qed.

Lemma err_sound_of rs goal e :
  toposort rs goal = Err e -> (forall x, e <> TargetInMultipleRules x) -> (forall x, e <> TargetMissing x) ->
  err_sound rs goal e.
Proof.
  intros H K1 K2. pose proof (toposort_run rs goal) as Hr. rewrite H in Hr.
  destruct Hr as [(y & l1 & l2 & l3 & E & Hl)|[(buf & t & g' & Hb & Hg & Hn & E)|(buf & t & _ & Hs & _ & _)]].
  - exfalso. apply (K1 y). exact E.
  - exfalso. apply (K2 g'). exact E.
  - exact Hs.
Qed.

(* the self-dependent rule is, moreover, in scope *)
Lemma err_self_scope rs goal x :
  toposort rs goal = Err (SelfDependentRule x) ->
  exists r, in_scope rs goal r /\ In x (r_targets r) /\ exists s, In s (r_sources r) /\ In s (r_targets r).
Proof.
  intro H. apply err_sound_of in H; [exact H | intros y; discriminate | intros y; discriminate].
Qed.

Lemma err_self rs goal x :
  toposort rs goal = Err (SelfDependentRule x) ->
  exists r, In r rs /\ In x (r_targets r) /\ exists s, In s (r_sources r) /\ In s (r_targets r).
Proof.
  intro H. apply err_self_scope in H as (r & Hsc & Hrest). exists r. split; [|exact Hrest].
  eapply in_scope_in; eauto.
Qed.

Lemma err_circular rs goal c : toposort rs goal = Err (CircularDependence c) -> cyclic rs goal.
Proof.
  intro H. apply err_sound_of in H; [exact H | intros y; discriminate | intros y; discriminate].
Qed.

(* ================================================================== *)
(* R4: an accepted rule set gets a correct plan                        *)
(* ================================================================== *)

Lemma ok_plan rs goal pack :
  Forall (fun r => r_targets r <> []) rs -> toposort rs goal = Ok pack -> plan_ok rs goal pack.
Proof.
  intros Hne H. pose proof (toposort_run rs goal) as Hr. rewrite H in Hr.
  destruct Hr as (buf & t & m & Hb & _ & HF & ->).
  apply (final_plan_ok rs goal t (bo_some _ _ _ Hb) (bo_none _ _ _ Hb) (bo_nodup _ _ _ Hb)); [|exact HF].
  rewrite Forall_forall in Hne. exact Hne.
Qed.

(* ================================================================== *)
(* R5: acceptance is exactly validity                                  *)
(* ================================================================== *)

Lemma ok_valid rs goal pack : toposort rs goal = Ok pack -> valid rs goal.
Proof.
  intros H. pose proof (toposort_run rs goal) as Hr. rewrite H in Hr.
  destruct Hr as (buf & t & m & Hb & Hg & HF & ->).
  split; [|split].
  - eapply Permutation_NoDup; [apply all_targets_canon_perm | exact (bo_nodup _ _ _ Hb)].
  - destruct goal as [g|]; [|exact I]. cbn [goal_ok].
    apply all_targets_canon_in.
    destruct (in_dec (list_eq_dec N.eq_dec) g (all_targets (crs_of rs))) as [Hi|Hn]; [exact Hi|].
    apply (bo_none _ _ _ Hb) in Hn. contradiction.
  - exact (final_acyclic rs goal t (bo_some _ _ _ Hb) (bo_none _ _ _ Hb) (bo_nodup _ _ _ Hb) m HF).
Qed.

Lemma self_dep_cyclic rs goal :
  (exists r, in_scope rs goal r /\ exists s, In s (r_sources r) /\ In s (r_targets r)) -> cyclic rs goal.
Proof.
  intros (r & Hsc & s & Hs & Ht). exists r. split; [exact Hsc|]. apply t_step.
  pose proof (in_scope_in _ _ _ Hsc) as Hin. unfold depends. repeat split; auto. exists s; auto.
Qed.

Lemma valid_ok rs goal : valid rs goal -> exists pack, toposort rs goal = Ok pack.
Proof.
  intros (Hnd & Hgoal & Hcyc).
  destruct (toposort rs goal) as [pack|e] eqn:E; [exists pack; reflexivity|]. exfalso.
  destruct e as [g|x|c|x|].
  - apply err_missing in E as [-> Hn]. apply Hn. exact Hgoal.
  - apply err_self_scope in E as (r & Hsc & _ & Hs). apply Hcyc. apply self_dep_cyclic. exists r. auto.
  - apply err_circular in E. contradiction.
  - apply err_multiple in E as (l1 & l2 & l3 & Hl).
    assert (Hnd' : NoDup (all_targets (crs_of rs))).
    { eapply Permutation_NoDup; [apply Permutation_sym, all_targets_canon_perm | exact Hnd]. }
    rewrite Hl in Hnd'. apply NoDup_remove_2 in Hnd'. apply Hnd'.
    apply in_or_app. right. apply in_or_app. right. left. reflexivity.
  - exact (toposort_total rs goal E).
Qed.

(* ================================================================== *)
(* examples (non-vacuity)                                              *)
(* ================================================================== *)

Local Open Scope N_scope.
Definition nm (c : N) : bytes := [c].
Definition ex_a := nm 97. Definition ex_b := nm 98. Definition ex_c := nm 99.
Definition ex_d := nm 100. Definition ex_x := nm 120.
Definition ex_rule (t : bytes) (srcs : list bytes) : rule := mk_rule [t] srcs [nm 33; t].

(* a <- {b, c}, b <- {c, d}, c <- {d}, d <- {x}: a diamond with a transitive edge; this is the shape
   on which the unfixed sorter reported a false cycle *)
Definition ex_diamond : list rule :=
  [ ex_rule ex_a [ex_b; ex_c]; ex_rule ex_b [ex_c; ex_d]; ex_rule ex_c [ex_d]; ex_rule ex_d [ex_x] ].

Definition ex_two_cycle : list rule := [ ex_rule ex_a [ex_b]; ex_rule ex_b [ex_a] ].
Local Close Scope N_scope.

(* computable parts of plan_ok *)
Definition binding_okb (pack : node_pack) (targets : list bytes) (j : nat) (s : bytes) (b : source_index) : bool :=
  match b with
  | Leaf i => match nth_error (p_leaves pack) i with
              | Some s' => bytes_eqb s s' && negb (existsb (bytes_eqb s) targets)
              | None => false
              end
  | Pair i sub => Nat.ltb i j &&
                  match nth_error (p_nodes pack) i with
                  | Some n => match nth_error (n_targets n) sub with
                              | Some s' => bytes_eqb s s'
                              | None => false
                              end
                  | None => false
                  end
  end.

Fixpoint forall2b {A B} (p : A -> B -> bool) (l1 : list A) (l2 : list B) : bool :=
  match l1, l2 with
  | [], [] => true
  | x :: r1, y :: r2 => p x y && forall2b p r1 r2
  | _, _ => false
  end.

Fixpoint nodes_okb (pack : node_pack) (targets : list bytes) (j : nat) (ns : list node) : bool :=
  match ns with
  | [] => true
  | n :: r =>
      list_eqb bytes_eqb (n_targets n) (r_targets (n_rule n)) &&
      list_eqb bytes_eqb (n_command n) (r_command (n_rule n)) &&
      forall2b (binding_okb pack targets j) (r_sources (n_rule n)) (n_source_indices n) &&
      nodes_okb pack targets (S j) r
  end.

Definition plan_okb (rs : list rule) (pack : node_pack) : bool :=
  nodes_okb pack (all_targets rs) 0 (p_nodes pack).

Example ex_diamond_accepted_goal :
  match toposort ex_diamond (Some ex_a) with
  | Ok pack => plan_okb ex_diamond pack = true /\
               map n_targets (p_nodes pack) = [[ex_d]; [ex_c]; [ex_b]; [ex_a]] /\
               p_leaves pack = [ex_x]
  | Err _ => False
  end.
Proof. vm_compute. repeat split; reflexivity. Qed.

Example ex_diamond_accepted_all :
  match toposort ex_diamond None with
  | Ok pack => plan_okb ex_diamond pack = true /\ length (p_nodes pack) = 4%nat /\ p_leaves pack = [ex_x]
  | Err _ => False
  end.
Proof. vm_compute. repeat split; reflexivity. Qed.

Example ex_diamond_any_order :
  toposort (rev ex_diamond) (Some ex_a) = toposort ex_diamond (Some ex_a).
Proof. vm_compute. reflexivity. Qed.

Example ex_two_cycle_rejected :
  exists c, toposort ex_two_cycle (Some ex_a) = Err (CircularDependence c).
Proof. eexists. vm_compute. reflexivity. Qed.

Example ex_two_cycle_rejected_all :
  exists c, toposort ex_two_cycle None = Err (CircularDependence c).
Proof. eexists. vm_compute. reflexivity. Qed.

(* the theorems below are not vacuous on it *)
Example ex_diamond_plan_ok :
  exists pack, toposort ex_diamond (Some ex_a) = Ok pack /\ plan_ok ex_diamond (Some ex_a) pack /\
               valid ex_diamond (Some ex_a).
Proof.
  eexists. split; [vm_compute; reflexivity|]. split.
  - apply ok_plan; [repeat constructor; discriminate | vm_compute; reflexivity].
  - eapply ok_valid. vm_compute. reflexivity.
Qed.

(* Observation (not one of the requested statements): the list carried by CircularDependence is the
   whole stack, bottom first, followed by the current frame.  The stack also holds pending (unvisited)
   siblings, so the list can name targets that are not on any cycle: here z, which has no sources. *)
Example ex_cycle_list_includes_pending_sibling :
  let ex_z := nm 122%N in
  toposort [ex_rule ex_a [ex_b; ex_z]; ex_rule ex_b [ex_a]; ex_rule ex_z []] (Some ex_a)
  = Err (CircularDependence [ex_a; ex_z; ex_b]).
Proof. vm_compute. reflexivity. Qed.

(* ==== RESULTS ==== *)

(* R1 *)
Theorem c12_order_invariant :
  forall rs rs' goal, Permutation rs rs' -> toposort rs goal = toposort rs' goal.
Proof. exact toposort_order_invariant. Qed.

(* R2 *)
Theorem c12_total : forall rs goal, toposort rs goal <> Err SortOutOfFuel.
Proof. exact toposort_total. Qed.

(* R3 *)
Theorem c12_error_kinds : forall rs goal,
  (forall t, toposort rs goal = Err (TargetInMultipleRules t) ->
             exists l1 l2 l3, all_targets (map canon_rule (sort_rules rs)) = l1 ++ t :: l2 ++ t :: l3) /\
  (forall g, toposort rs goal = Err (TargetMissing g) -> goal = Some g /\ ~ In g (all_targets rs)) /\
  (forall t, toposort rs goal = Err (SelfDependentRule t) ->
             exists r, In r rs /\ In t (r_targets r) /\ exists s, In s (r_sources r) /\ In s (r_targets r)) /\
  (forall c, toposort rs goal = Err (CircularDependence c) -> cyclic rs goal).
Proof.
  intros rs goal. split; [|split; [|split]].
  - intros t. apply err_multiple.
  - intros g. apply err_missing.
  - intros t. apply err_self.
  - intros c. apply err_circular.
Qed.

Theorem c12_error_multiple : forall rs goal t,
  toposort rs goal = Err (TargetInMultipleRules t) ->
  exists l1 l2 l3, all_targets (map canon_rule (sort_rules rs)) = l1 ++ t :: l2 ++ t :: l3.
Proof. exact err_multiple. Qed.

Theorem c12_error_missing : forall rs goal g,
  toposort rs goal = Err (TargetMissing g) -> goal = Some g /\ ~ In g (all_targets rs).
Proof. exact err_missing. Qed.

Theorem c12_error_self : forall rs goal t,
  toposort rs goal = Err (SelfDependentRule t) ->
  exists r, In r rs /\ In t (r_targets r) /\ exists s, In s (r_sources r) /\ In s (r_targets r).
Proof. exact err_self. Qed.

Theorem c12_error_circular : forall rs goal c,
  toposort rs goal = Err (CircularDependence c) -> cyclic rs goal.
Proof. exact err_circular. Qed.

(* the same fact about TargetInMultipleRules, stated on the rules as given *)
Theorem c12_error_multiple_declared : forall rs goal t,
  toposort rs goal = Err (TargetInMultipleRules t) -> (count_occ (list_eq_dec N.eq_dec) (all_targets rs) t >= 2)%nat.
Proof.
  intros rs goal t H. apply err_multiple in H as (l1 & l2 & l3 & Hl).
  pose proof (proj1 (Permutation_count_occ (list_eq_dec N.eq_dec) _ _) (all_targets_canon_perm rs) t) as Hc.
  rewrite <- Hc, Hl. rewrite count_occ_app. cbn [count_occ].
  destruct (list_eq_dec N.eq_dec t t) as [_|Hn]; [|congruence].
  rewrite count_occ_app. cbn [count_occ]. destruct (list_eq_dec N.eq_dec t t) as [_|Hn]; [|congruence]. lia.
Qed.

(* the self-dependent rule reported is one the goal needs *)
Theorem c12_error_self_in_scope : forall rs goal t,
  toposort rs goal = Err (SelfDependentRule t) ->
  exists r, in_scope rs goal r /\ In t (r_targets r) /\ exists s, In s (r_sources r) /\ In s (r_targets r).
Proof. exact err_self_scope. Qed.

(* R4 *)
Theorem c12_plan_correct : forall rs goal pack,
  Forall (fun r => r_targets r <> []) rs ->
  toposort rs goal = Ok pack -> plan_ok rs goal pack.
Proof. exact ok_plan. Qed.

(* the conjuncts of plan_ok, individually *)
Theorem c12_plan_bindings : forall rs goal pack,
  Forall (fun r => r_targets r <> []) rs -> toposort rs goal = Ok pack ->
  forall j n, nth_error (p_nodes pack) j = Some n -> node_ok rs pack j n.
Proof. intros rs goal pack Hne H. exact (proj1 (proj2 (proj2 (ok_plan _ _ _ Hne H)))). Qed.

Theorem c12_plan_nodup : forall rs goal pack,
  Forall (fun r => r_targets r <> []) rs -> toposort rs goal = Ok pack ->
  NoDup (map n_rule (p_nodes pack)).
Proof. intros rs goal pack Hne H. exact (proj1 (ok_plan _ _ _ Hne H)). Qed.

Theorem c12_plan_leaves : forall rs goal pack,
  Forall (fun r => r_targets r <> []) rs -> toposort rs goal = Ok pack ->
  NoDup (p_leaves pack) /\
  (forall s, In s (p_leaves pack) <->
             ~ In s (all_targets rs) /\ exists r, in_scope rs goal r /\ In s (r_sources r)).
Proof. intros rs goal pack Hne H. exact (proj2 (proj2 (proj2 (ok_plan _ _ _ Hne H)))). Qed.

Theorem c12_plan_scope : forall rs goal pack,
  Forall (fun r => r_targets r <> []) rs -> toposort rs goal = Ok pack ->
  forall r', In r' (map n_rule (p_nodes pack)) <-> exists r, in_scope rs goal r /\ r' = canon_rule r.
Proof. intros rs goal pack Hne H. exact (proj1 (proj2 (ok_plan _ _ _ Hne H))). Qed.

(* R5 *)
Theorem c12_accepts_iff : forall rs goal,
  Forall (fun r => r_targets r <> []) rs ->
  ((exists pack, toposort rs goal = Ok pack) <-> valid rs goal).
Proof.
  intros rs goal _. split.
  - intros [pack H]. eapply ok_valid; eauto.
  - apply valid_ok.
Qed.

(* R5 does not need the hypothesis on targets *)
Theorem c12_accepts_iff_unconditional : forall rs goal,
  (exists pack, toposort rs goal = Ok pack) <-> valid rs goal.
Proof.
  intros rs goal. split.
  - intros [pack H]. eapply ok_valid; eauto.
  - apply valid_ok.
Qed.
