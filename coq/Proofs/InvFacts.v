(* Facts about the disk invariant of Model/Inv.v: it is preserved by every primitive step (hence by
   every interleaving of threads, commands and user actions), remembered states stay sound, ruler's
   own steps never lose protected content, and the sequential model (Build.v) only performs steps. *)
From Coq Require Import Relations.Relation_Operators Relations.Operators_Properties.
From Ruler Require Import Tactics Bytes AList RuleSyntax World Cmdlang Work Build Ops Inv BytesFacts.
Local Open Scope N_scope.

(* The development proper lives in module InvProofs; the requested statements are restated in closed
   form, under their requested names, in the RESULTS block at the end of this file. *)
Module InvProofs.

(* ================================================================== *)
(* R1: association lists, through alookup only                          *)
(* ================================================================== *)

Section AListFacts.
  Context {K V : Type}.
  Variable eqb : K -> K -> bool.
  Hypothesis eqb_spec : forall a b, eqb a b = true <-> a = b.

  Lemma eqb_refl_of_spec k : eqb k k = true.
  Proof. apply eqb_spec; reflexivity. Qed.

  Lemma eqb_false_of_spec a b : a <> b -> eqb a b = false.
  Proof.
    intro H. destruct (eqb a b) eqn:E; [|reflexivity]. apply eqb_spec in E. contradiction.
  Qed.

  Lemma alookup_ainsert_eq (m : amap K V) k v : alookup eqb (ainsert eqb m k v) k = Some v.
  Proof.
    induction m as [|[k' v'] m IH]; cbn [ainsert alookup].
    - rewrite eqb_refl_of_spec; reflexivity.
    - destruct (eqb k k') eqn:E; cbn [alookup].
      + rewrite eqb_refl_of_spec; reflexivity.
      + rewrite E. exact IH.
  Qed.

  Lemma alookup_ainsert_neq (m : amap K V) k k' v :
    k' <> k -> alookup eqb (ainsert eqb m k v) k' = alookup eqb m k'.
  Proof.
    intro Hne. induction m as [|[k1 v1] m IH]; cbn [ainsert alookup].
    - rewrite (eqb_false_of_spec k' k Hne); reflexivity.
    - destruct (eqb k k1) eqn:E; cbn [alookup].
      + apply eqb_spec in E; subst k1. rewrite (eqb_false_of_spec k' k Hne); reflexivity.
      + destruct (eqb k' k1); [reflexivity | exact IH].
  Qed.

  Lemma alookup_aremove_eq (m : amap K V) k : alookup eqb (aremove eqb m k) k = None.
  Proof.
    induction m as [|[k1 v1] m IH]; cbn [aremove alookup]; [reflexivity|].
    destruct (eqb k k1) eqn:E; [exact IH|]. cbn [alookup]. rewrite E. exact IH.
  Qed.

  Lemma alookup_aremove_neq (m : amap K V) k k' :
    k' <> k -> alookup eqb (aremove eqb m k) k' = alookup eqb m k'.
  Proof.
    intro Hne. induction m as [|[k1 v1] m IH]; cbn [aremove alookup]; [reflexivity|].
    destruct (eqb k k1) eqn:E.
    - apply eqb_spec in E; subst k1. rewrite (eqb_false_of_spec k' k Hne). exact IH.
    - cbn [alookup]. destruct (eqb k' k1); [reflexivity | exact IH].
  Qed.

  (* derived forms that are convenient in case analyses *)
  Lemma alookup_ainsert_some (m : amap K V) k v k' v' :
    alookup eqb (ainsert eqb m k v) k' = Some v' ->
    (k' = k /\ v' = v) \/ (k' <> k /\ alookup eqb m k' = Some v').
  Proof.
    intro H. destruct (eqb k' k) eqn:E.
    - apply eqb_spec in E; subst k'. rewrite alookup_ainsert_eq in H. injection H as <-. left; auto.
    - assert (k' <> k) as Hne by (intro X; apply eqb_spec in X; congruence).
      rewrite (alookup_ainsert_neq _ _ _ _ Hne) in H. right; auto.
  Qed.

  Lemma alookup_aremove_some (m : amap K V) k k' v' :
    alookup eqb (aremove eqb m k) k' = Some v' -> k' <> k /\ alookup eqb m k' = Some v'.
  Proof.
    intro H. destruct (eqb k' k) eqn:E.
    - apply eqb_spec in E; subst k'. rewrite alookup_aremove_eq in H. discriminate.
    - assert (k' <> k) as Hne by (intro X; apply eqb_spec in X; congruence).
      rewrite (alookup_aremove_neq _ _ _ Hne) in H. auto.
  Qed.

  Lemma key_dec (a b : K) : a = b \/ a <> b.
  Proof.
    destruct (eqb a b) eqn:E; [left; apply eqb_spec; exact E|].
    right; intro X; apply eqb_spec in X; congruence.
  Qed.
End AListFacts.

(* ================================================================== *)
(* The invariant                                                        *)
(* ================================================================== *)

Section Facts.
  Variable T : Type.
  Variable teqb : T -> T -> bool.
  Variable hc : bytes -> T.
  Hypothesis teqb_spec : forall a b, teqb a b = true <-> a = b.
  (* hc_inj (hc injective) is needed for R6 only and is declared in the subsection Protected below, so
     that R2-R5, R7, R8 are proved for ANY hc *)

  Notation world := (world T).
  Notation fstate := (fstate T).
  Notation any_file := (any_file teqb).
  Notation mt_unique := (mt_unique teqb).
  Notation clock_ok := (clock_ok teqb).
  Notation state_ok := (state_ok teqb hc).
  Notation cache_addressed := (cache_addressed teqb hc).
  Notation table_sound := (table_sound teqb hc).
  Notation disk_inv := (disk_inv teqb hc).
  Notation step := (step teqb hc).
  Notation own_step := (own_step teqb hc).
  Notation steps := (clos_refl_trans world step).

  Let beq_spec := bytes_eqb_eq.

  (* ---------- how the files of a world change: "nothing new appears" ---------- *)

  (* every file of w' has a counterpart in w with the same time and content, and the clock did not go back *)
  Definition sim (w w' : world) : Prop :=
    w_clock w <= w_clock w' /\
    forall g, any_file w' g ->
      exists g', any_file w g' /\ f_mtime g' = f_mtime g /\ f_content g' = f_content g.

  Lemma sim_of_sub (w w' : world) :
    w_clock w <= w_clock w' -> (forall g, any_file w' g -> any_file w g) -> sim w w'.
  Proof. intros Hc H. split; [exact Hc|]. intros g Hg. exists g. auto. Qed.

  Lemma sim_mt_unique w w' : sim w w' -> mt_unique w -> mt_unique w'.
  Proof.
    intros [_ Hs] Hu f g Hf Hg Ht.
    destruct (Hs f Hf) as (f' & Hf' & Hft & Hfc). destruct (Hs g Hg) as (g' & Hg' & Hgt & Hgc).
    rewrite <- Hfc, <- Hgc. apply Hu; auto. congruence.
  Qed.

  Lemma sim_clock_ok w w' : sim w w' -> clock_ok w -> clock_ok w'.
  Proof.
    intros [Hc Hs] Hk f Hf. destruct (Hs f Hf) as (f' & Hf' & Hft & _).
    pose proof (Hk f' Hf') as H2. rewrite <- Hft. lia.
  Qed.

  Lemma sim_state_ok w w' st : sim w w' -> state_ok w st -> state_ok w' st.
  Proof.
    intros [Hc Hs] [He | [H1 H2]]; [left; exact He | right]. split; [lia|]. intros f Hf Ht.
    destruct (Hs f Hf) as (f' & Hf' & Hft & Hfc). rewrite <- Hfc. apply H2; auto. congruence.
  Qed.

  (* ---------- any_file through the primitive operations ---------- *)

  Lemma any_file_path (w : world) p f : fget w p = Some f -> any_file w f.
  Proof. intro H. left. exists p. exact H. Qed.

  Lemma any_file_cache (w : world) c t f :
    cache_of w = Some c -> alookup teqb c t = Some f -> any_file w f.
  Proof. intros H1 H2. right. exists c, t. auto. Qed.

  Lemma back_up_inv (w : world) t p w' :
    back_up teqb w t p = Some w' ->
    exists c f, cache_of w = Some c /\ fget w p = Some f /\
                w' = set_cache (remove_file w p) (ainsert teqb c t f).
  Proof.
    unfold back_up. intro H. destruct (cache_of w) as [c|] eqn:Ec; [|discriminate].
    destruct (fget w p) as [f|] eqn:Ef; [|discriminate]. injection H as <-. exists c, f. auto.
  Qed.

  Lemma restore_inv (w : world) t p w' :
    restore teqb w t p = RDone w' ->
    exists c f, cache_of w = Some c /\ alookup teqb c t = Some f /\
                w' = set_cache (set_files w (ainsert bytes_eqb (w_files w) p f)) (aremove teqb c t).
  Proof.
    unfold restore. intro H. destruct (cache_of w) as [c|] eqn:Ec; [|discriminate].
    destruct (alookup teqb c t) as [f|] eqn:Ef; [|discriminate]. injection H as <-. exists c, f. auto.
  Qed.

  Lemma any_file_back_up (w : world) t p w' g :
    back_up teqb w t p = Some w' -> any_file w' g -> any_file w g.
  Proof.
    intros Hb Hg. destruct (back_up_inv _ _ _ _ Hb) as (c & f & Ec & Ef & ->).
    destruct Hg as [(q & Hq) | (c' & t' & Hc' & Hl)].
    - unfold fget in Hq. cbn in Hq. apply (alookup_aremove_some _ beq_spec) in Hq as [_ Hq].
      eapply any_file_path. exact Hq.
    - unfold cache_of in Hc'. cbn in Hc'. injection Hc' as <-.
      apply (alookup_ainsert_some _ teqb_spec) in Hl as [[_ ->] | [_ Hl]].
      + eapply any_file_path; exact Ef.
      + eapply any_file_cache; eauto.
  Qed.

  Lemma any_file_restore (w : world) t p w' g :
    restore teqb w t p = RDone w' -> any_file w' g -> any_file w g.
  Proof.
    intros Hb Hg. destruct (restore_inv _ _ _ _ Hb) as (c & f & Ec & Ef & ->).
    destruct Hg as [(q & Hq) | (c' & t' & Hc' & Hl)].
    - unfold fget in Hq. cbn in Hq. apply (alookup_ainsert_some _ beq_spec) in Hq as [[_ ->] | [_ Hq]].
      + eapply any_file_cache; eauto.
      + eapply any_file_path. exact Hq.
    - unfold cache_of in Hc'. cbn in Hc'. injection Hc' as <-.
      apply (alookup_aremove_some _ teqb_spec) in Hl as [_ Hl]. eapply any_file_cache; eauto.
  Qed.

  Lemma any_file_remove (w : world) p g : any_file (remove_file w p) g -> any_file w g.
  Proof.
    intros [(q & Hq) | (c' & t' & Hc' & Hl)].
    - unfold fget in Hq. cbn in Hq. apply (alookup_aremove_some _ beq_spec) in Hq as [_ Hq].
      eapply any_file_path. exact Hq.
    - eapply any_file_cache; eauto.
  Qed.

  Lemma any_file_set_exec (w : world) p x g :
    any_file (set_exec w p x) g ->
    exists g', any_file w g' /\ f_mtime g' = f_mtime g /\ f_content g' = f_content g.
  Proof.
    unfold set_exec. destruct (fget w p) as [f|] eqn:Ef; [|intro H; exists g; auto].
    intros [(q & Hq) | (c' & t' & Hc' & Hl)].
    - unfold fget in Hq. cbn in Hq. apply (alookup_ainsert_some _ beq_spec) in Hq as [[_ ->] | [_ Hq]].
      + exists f. split; [eapply any_file_path; exact Ef | auto].
      + exists g. split; [eapply any_file_path; exact Hq | auto].
    - exists g. split; [eapply any_file_cache; eauto | auto].
  Qed.

  Lemma any_file_move (w : world) p q g : any_file (move_file w p q) g -> any_file w g.
  Proof.
    unfold move_file. destruct (fget w p) as [f|] eqn:Ef; [|auto].
    intros [(r & Hr) | (c' & t' & Hc' & Hl)].
    - unfold fget in Hr. cbn in Hr. apply (alookup_ainsert_some _ beq_spec) in Hr as [[_ ->] | [_ Hr]].
      + eapply any_file_path; exact Ef.
      + apply (alookup_aremove_some _ beq_spec) in Hr as [_ Hr]. eapply any_file_path. exact Hr.
    - eapply any_file_cache; eauto.
  Qed.

  Lemma move_file_rd (w : world) p q : w_rd (move_file w p q) = w_rd w.
  Proof. unfold move_file. destruct (fget w p); reflexivity. Qed.

  Lemma move_file_clock (w : world) p q : w_clock (move_file w p q) = w_clock w.
  Proof. unfold move_file. destruct (fget w p); reflexivity. Qed.

  Lemma move_file_mode (w : world) p q : w_mode (move_file w p q) = w_mode w.
  Proof. unfold move_file. destruct (fget w p); reflexivity. Qed.

  Lemma move_file_cache (w : world) p q : cache_of (move_file w p q) = cache_of w.
  Proof. unfold cache_of. rewrite move_file_rd. reflexivity. Qed.

  Lemma write_file_fine (w : world) p c :
    w_mode w = Fine ->
    write_file w p c =
      mk_world (ainsert bytes_eqb (w_files w) p
                  (mk_file c (w_clock w + 1) (match fget w p with Some f => f_exec f | None => false end)))
               (w_rd w) (w_clock w + 1) Fine.
  Proof. intro Hm. unfold write_file, stamp. rewrite Hm. reflexivity. Qed.

  Lemma any_file_write (w : world) p c g :
    w_mode w = Fine -> any_file (write_file w p c) g ->
    (f_mtime g = w_clock w + 1 /\ f_content g = c) \/ any_file w g.
  Proof.
    intros Hm. rewrite (write_file_fine _ _ _ Hm).
    intros [(q & Hq) | (c' & t' & Hc' & Hl)].
    - unfold fget in Hq. cbn in Hq. apply (alookup_ainsert_some _ beq_spec) in Hq as [[_ ->] | [_ Hq]].
      + left. auto.
      + right. eapply any_file_path. exact Hq.
    - right. eapply any_file_cache; eauto.
  Qed.

  (* worlds that differ in the ruler directory only, the new cache showing nothing new *)
  Definition cache_sub (w w' : world) : Prop :=
    forall c' t f, cache_of w' = Some c' -> alookup teqb c' t = Some f ->
                   exists c, cache_of w = Some c /\ alookup teqb c t = Some f.

  Lemma any_file_same_files (w w' : world) g :
    w_files w' = w_files w -> cache_sub w w' -> any_file w' g -> any_file w g.
  Proof.
    intros Hf Hc [(q & Hq) | (c' & t' & Hc' & Hl)].
    - unfold fget in Hq. rewrite Hf in Hq. eapply any_file_path. exact Hq.
    - destruct (Hc _ _ _ Hc' Hl) as (c & H1 & H2). eapply any_file_cache; eauto.
  Qed.

  Lemma cache_sub_same (w w' : world) : cache_of w' = cache_of w -> cache_sub w w'.
  Proof. intros E c' t f H1 H2. exists c'. rewrite <- E. auto. Qed.

  Lemma cache_sub_addressed w w' : cache_sub w w' -> cache_addressed w -> cache_addressed w'.
  Proof.
    intros Hs Ha c' t f H1 H2. destruct (Hs _ _ _ H1 H2) as (c & H3 & H4). eapply Ha; eauto.
  Qed.

  (* ---------- a write under the fine clock ---------- *)

  Lemma write_mt_unique (w : world) p c :
    w_mode w = Fine -> clock_ok w -> mt_unique w -> mt_unique (write_file w p c).
  Proof.
    intros Hm Hk Hu f g Hf Hg Ht.
    apply (any_file_write _ _ _ _ Hm) in Hf. apply (any_file_write _ _ _ _ Hm) in Hg.
    destruct Hf as [[Hf1 Hf2] | Hf], Hg as [[Hg1 Hg2] | Hg].
    - congruence.
    - pose proof (Hk g Hg) as H. lia.
    - pose proof (Hk f Hf) as H. lia.
    - apply Hu; auto.
  Qed.

  Lemma write_clock (w : world) p c : w_mode w = Fine -> w_clock (write_file w p c) = w_clock w + 1.
  Proof. intro Hm. rewrite (write_file_fine _ _ _ Hm). reflexivity. Qed.

  Lemma write_clock_ok (w : world) p c :
    w_mode w = Fine -> clock_ok w -> clock_ok (write_file w p c).
  Proof.
    intros Hm Hk f Hf. rewrite (write_clock _ _ _ Hm).
    apply (any_file_write _ _ _ _ Hm) in Hf. destruct Hf as [[Hf1 Hf2] | Hf].
    - lia.
    - pose proof (Hk f Hf) as H2. lia.
  Qed.

  Lemma write_state_ok (w : world) p c st :
    w_mode w = Fine -> state_ok w st -> state_ok (write_file w p c) st.
  Proof.
    intros Hm [He | [H1 H2]]; [left; exact He | right]. split; [rewrite (write_clock _ _ _ Hm); lia|].
    intros f Hf Ht. apply (any_file_write _ _ _ _ Hm) in Hf. destruct Hf as [[Hf1 Hf2] | Hf].
    - lia.
    - apply H2; auto.
  Qed.

  (* ---------- the shape of every step ---------- *)

  Lemma init_dir_inv (w w' : world) tbl :
    init_dir T w = Ok (w', tbl) ->
    w_files w' = w_files w /\ w_clock w' = w_clock w /\ w_mode w' = w_mode w /\ cache_sub w w' /\
    rd_table (w_rd w') = Some (SF_ok tbl) /\ (rd_table (w_rd w) = Some (SF_ok tbl) \/ tbl = []).
  Proof.
    unfold init_dir. intro H.
    assert (forall t0, cache_sub w (set_rd w (mk_rdir true
              (match rd_cache (w_rd w) with Some c => Some c | None => Some [] end)
              (match rd_hist (w_rd w) with Some h => Some h | None => Some [] end) t0))) as Hcs.
    { intros t0 c' t f Hc Hl. unfold cache_of in Hc. cbn in Hc.
      destruct (rd_cache (w_rd w)) as [c|] eqn:Ec.
      - injection Hc as <-. exists c. unfold cache_of. auto.
      - injection Hc as <-. cbn in Hl. discriminate. }
    destruct (rd_table (w_rd w)) as [[t|]|] eqn:Et; try discriminate; injection H as <- <-;
      cbn; repeat split; auto.
  Qed.

  Lemma write_history_inv (hr : rule -> T) (w : world) r h :
    let w' := write_history T teqb hr w r h in
    w_files w' = w_files w /\ w_clock w' = w_clock w /\ w_mode w' = w_mode w /\
    cache_of w' = cache_of w /\ rd_table (w_rd w') = rd_table (w_rd w).
  Proof.
    unfold write_history. destruct (rd_hist (w_rd w)); cbn; auto.
  Qed.

  Lemma rdir_shrinks_cache_sub (w : world) rd' : rdir_shrinks T teqb (w_rd w) rd' -> cache_sub w (set_rd w rd').
  Proof. intros [H _] c' t f Hc Hl. unfold cache_of in *. cbn in Hc. eapply H; eauto. Qed.

  Lemma step_mode w w' : step w w' -> w_mode w = Fine -> w_mode w' = Fine.
  Proof.
    intros Hs Hm. destruct Hs as [w p a t w' _ _ Hb | w t p w' Hr | w p c | w p | w p x | w p q | w tbl _ | w hr r h
                                 | w w' tbl Hi | w | w rd' _].
    - destruct (back_up_inv _ _ _ _ Hb) as (c & f & _ & _ & ->). exact Hm.
    - destruct (restore_inv _ _ _ _ Hr) as (c & f & _ & _ & ->). exact Hm.
    - rewrite (write_file_fine _ _ _ Hm). reflexivity.
    - exact Hm.
    - unfold set_exec. destruct (fget w p); exact Hm.
    - rewrite move_file_mode. exact Hm.
    - exact Hm.
    - destruct (write_history_inv hr w r h) as (_ & _ & H & _). congruence.
    - destruct (init_dir_inv _ _ _ Hi) as (_ & _ & H & _). congruence.
    - exact Hm.
    - exact Hm.
  Qed.

  Lemma step_sim w w' : step w w' -> sim w w' \/ exists p c, w' = write_file w p c.
  Proof.
    intros Hs. destruct Hs as [w p a t w' _ _ Hb | w t p w' Hr | w p c | w p | w p x | w p q | w tbl _ | w hr r h
                              | w w' tbl Hi | w | w rd' Hsh].
    - left. apply sim_of_sub.
      + destruct (back_up_inv _ _ _ _ Hb) as (c & f & _ & _ & ->). cbn. lia.
      + intros g. eapply any_file_back_up; eauto.
    - left. apply sim_of_sub.
      + destruct (restore_inv _ _ _ _ Hr) as (c & f & _ & _ & ->). cbn. lia.
      + intros g. eapply any_file_restore; eauto.
    - right. eauto.
    - left. apply sim_of_sub; [cbn; lia|]. intro g. apply any_file_remove.
    - left. split; [unfold set_exec; destruct (fget w p); cbn; lia|]. intro g. apply any_file_set_exec.
    - left. apply sim_of_sub; [rewrite move_file_clock; lia|]. intro g. apply any_file_move.
    - left. apply sim_of_sub; [cbn; lia|]. intro g. apply any_file_same_files; [reflexivity|].
      apply cache_sub_same. reflexivity.
    - left. destruct (write_history_inv hr w r h) as (H1 & H2 & _ & H3 & _).
      apply sim_of_sub; [lia|]. intro g. apply any_file_same_files; [exact H1|].
      apply cache_sub_same. exact H3.
    - left. destruct (init_dir_inv _ _ _ Hi) as (H1 & H2 & _ & H3 & _).
      apply sim_of_sub; [lia|]. intro g. apply any_file_same_files; auto.
    - left. apply sim_of_sub; [cbn; lia|]. intro g. apply any_file_same_files; [reflexivity|].
      apply cache_sub_same. reflexivity.
    - left. apply sim_of_sub; [cbn; lia|]. intro g. apply any_file_same_files; [reflexivity|].
      apply rdir_shrinks_cache_sub. exact Hsh.
  Qed.

  (* ================================================================== *)
  (* R3: remembered states stay sound                                     *)
  (* ================================================================== *)

  Theorem state_ok_stable w w' st : disk_inv w -> step w w' -> state_ok w st -> state_ok w' st.
  Proof.
    intros (Hm & _) Hs Hst. destruct (step_sim _ _ Hs) as [H | (p & c & ->)].
    - eapply sim_state_ok; eauto.
    - apply write_state_ok; auto.
  Qed.


  (* ================================================================== *)
  (* R2: every step preserves the invariant                               *)
  (* ================================================================== *)

  (* the ticket the mtime shortcut yields with a sound remembered state is the hash of the content *)
  Lemma shortcut_mtime f (assumed : fstate) : shortcut teqb hc f assumed = true -> f_mtime f = fs_mtime assumed.
  Proof. unfold shortcut. intro H. apply andb_true_iff in H as [H _]. lia. Qed.

  Lemma shortcut_nonempty f (assumed : fstate) :
    shortcut teqb hc f assumed = true -> is_empty_state teqb hc assumed = false.
  Proof. unfold shortcut. intro H. apply andb_true_iff in H as [_ H]. apply negb_true_iff in H. exact H. Qed.

  (* the two ways of using a sound remembered state: the shortcut accepted some file against it, or it is
     known not to be the empty state *)
  Lemma state_ok_nonempty (w : world) (st : fstate) :
    state_ok w st -> is_empty_state teqb hc st = false ->
    fs_mtime st <= w_clock w /\
    forall f, any_file w f -> f_mtime f = fs_mtime st -> fs_t st = hc (f_content f).
  Proof. intros [He | H] Hne; [congruence | exact H]. Qed.

  Lemma state_ok_shortcut (w : world) (st : fstate) f :
    state_ok w st -> any_file w f -> shortcut teqb hc f st = true -> fs_t st = hc (f_content f).
  Proof.
    intros Hok Hf E. destruct (state_ok_nonempty _ _ Hok (shortcut_nonempty _ _ E)) as [_ H].
    apply H; [exact Hf | apply shortcut_mtime; exact E].
  Qed.

  Lemma state_ok_sound_intro (w : world) (st : fstate) :
    fs_mtime st <= w_clock w ->
    (forall f, any_file w f -> f_mtime f = fs_mtime st -> fs_t st = hc (f_content f)) -> state_ok w st.
  Proof. intros H1 H2. right. split; assumption. Qed.

  Lemma get_file_ticket_sound (w : world) p assumed t :
    state_ok w assumed -> get_file_ticket teqb hc w p assumed = Some t ->
    exists f, fget w p = Some f /\ t = hc (f_content f).
  Proof.
    intros Hok H. unfold get_file_ticket in H. destruct (fget w p) as [f|] eqn:Ef; [|discriminate].
    exists f. split; [reflexivity|].
    destruct (shortcut teqb hc f assumed) eqn:E; injection H as <-; [|reflexivity].
    eapply state_ok_shortcut; [exact Hok | eapply any_file_path; exact Ef | exact E].
  Qed.

  Lemma back_up_cache_addressed (w : world) p assumed t w' :
    state_ok w assumed -> get_file_ticket teqb hc w p assumed = Some t -> back_up teqb w t p = Some w' ->
    cache_addressed w -> cache_addressed w'.
  Proof.
    intros Hok Hg Hb Ha. destruct (get_file_ticket_sound _ _ _ _ Hok Hg) as (f0 & Ef0 & ->).
    destruct (back_up_inv _ _ _ _ Hb) as (c & f & Ec & Ef & ->).
    assert (f0 = f) by congruence. subst f0.
    intros c' t' g Hc' Hl. unfold cache_of in Hc'. cbn in Hc'. injection Hc' as <-.
    apply (alookup_ainsert_some _ teqb_spec) in Hl as [[-> ->] | [_ Hl]]; [reflexivity|].
    eapply Ha; eauto.
  Qed.

  Lemma restore_cache_sub (w : world) t p w' : restore teqb w t p = RDone w' -> cache_sub w w'.
  Proof.
    intro Hr. destruct (restore_inv _ _ _ _ Hr) as (c & f & Ec & Ef & ->).
    intros c' t' g Hc' Hl. unfold cache_of in Hc'. cbn in Hc'. injection Hc' as <-.
    apply (alookup_aremove_some _ teqb_spec) in Hl as [_ Hl]. exists c. auto.
  Qed.

  Lemma set_exec_cache (w : world) p x : cache_of (set_exec w p x) = cache_of w.
  Proof. unfold set_exec. destruct (fget w p); reflexivity. Qed.

  Lemma set_exec_rd (w : world) p x : w_rd (set_exec w p x) = w_rd w.
  Proof. unfold set_exec. destruct (fget w p); reflexivity. Qed.

  Lemma write_file_rd (w : world) p c : w_rd (write_file w p c) = w_rd w.
  Proof. unfold write_file, stamp. destruct (w_mode w); reflexivity. Qed.

  Lemma step_cache_addressed w w' : step w w' -> cache_addressed w -> cache_addressed w'.
  Proof.
    intros Hs Ha. destruct Hs as [w p a t w' Hok Hg Hb | w t p w' Hr | w p c | w p | w p x | w p q | w tbl _ | w hr r h
                                 | w w' tbl Hi | w | w rd' Hsh].
    - eapply back_up_cache_addressed; eauto.
    - eapply cache_sub_addressed; [eapply restore_cache_sub; eauto | exact Ha].
    - eapply cache_sub_addressed; [|exact Ha]. apply cache_sub_same. unfold cache_of.
      rewrite write_file_rd. reflexivity.
    - exact Ha.
    - eapply cache_sub_addressed; [|exact Ha]. apply cache_sub_same. apply set_exec_cache.
    - eapply cache_sub_addressed; [|exact Ha]. apply cache_sub_same. apply move_file_cache.
    - exact Ha.
    - eapply cache_sub_addressed; [|exact Ha]. apply cache_sub_same.
      destruct (write_history_inv hr w r h) as (_ & _ & _ & H & _). exact H.
    - eapply cache_sub_addressed; [|exact Ha]. destruct (init_dir_inv _ _ _ Hi) as (_ & _ & _ & H & _). exact H.
    - exact Ha.
    - eapply cache_sub_addressed; [|exact Ha]. apply rdir_shrinks_cache_sub. exact Hsh.
  Qed.

  (* every entry of the table that w' shows is sound in w *)
  Lemma step_new_table w w' :
    step w w' -> table_sound w ->
    forall tbl p st, rd_table (w_rd w') = Some (SF_ok tbl) -> alookup bytes_eqb tbl p = Some st -> state_ok w st.
  Proof.
    intros Hs Ht. destruct Hs as [w p a t w' Hok Hg Hb | w t p w' Hr | w p c | w p | w p x | w p p2 | w tbl0 Htbl | w hr r h
                                 | w w' tbl0 Hi | w | w rd' Hsh]; intros tbl q st Htb Hl.
    - destruct (back_up_inv _ _ _ _ Hb) as (c & f & _ & _ & ->). cbn in Htb. eapply Ht; eauto.
    - destruct (restore_inv _ _ _ _ Hr) as (c & f & _ & _ & ->). cbn in Htb. eapply Ht; eauto.
    - rewrite write_file_rd in Htb. eapply Ht; eauto.
    - cbn in Htb. eapply Ht; eauto.
    - rewrite set_exec_rd in Htb. eapply Ht; eauto.
    - rewrite move_file_rd in Htb. eapply Ht; eauto.
    - cbn in Htb. injection Htb as <-. eapply Htbl; eauto.
    - destruct (write_history_inv hr w r h) as (_ & _ & _ & _ & H). rewrite H in Htb. eapply Ht; eauto.
    - destruct (init_dir_inv _ _ _ Hi) as (_ & _ & _ & _ & H1 & H2).
      rewrite H1 in Htb. injection Htb as <-. destruct H2 as [H2 | ->].
      + eapply Ht; eauto.
      + cbn in Hl. discriminate.
    - cbn in Htb. eapply Ht; eauto.
    - destruct Hsh as (_ & H & _). cbn in Htb. apply H in Htb. eapply Ht; eauto.
  Qed.

  Theorem step_preserves_inv w w' : disk_inv w -> step w w' -> disk_inv w'.
  Proof.
    intros Hinv Hs. pose proof Hinv as (Hm & Hu & Hk & Ha & Ht).
    split; [eapply step_mode; eauto|].
    split; [|split; [|split]].
    - destruct (step_sim _ _ Hs) as [H | (p & c & ->)];
        [eapply sim_mt_unique; eauto | apply write_mt_unique; auto].
    - destruct (step_sim _ _ Hs) as [H | (p & c & ->)];
        [eapply sim_clock_ok; eauto | apply write_clock_ok; auto].
    - eapply step_cache_addressed; eauto.
    - intros tbl p st Htb Hl. eapply state_ok_stable; eauto. eapply step_new_table; eauto.
  Qed.

  (* ================================================================== *)
  (* R4, R5: along any sequence of steps                                  *)
  (* ================================================================== *)

  Theorem steps_preserve_inv w w' : disk_inv w -> steps w w' -> disk_inv w'.
  Proof.
    intros Hinv Hs. apply clos_rt_rt1n in Hs. induction Hs as [|w w1 w2 H1 _ IH]; [exact Hinv|].
    apply IH. eapply step_preserves_inv; eauto.
  Qed.

  Lemma state_ok_stable_steps w w' st : disk_inv w -> steps w w' -> state_ok w st -> state_ok w' st.
  Proof.
    intros Hinv Hs. apply clos_rt_rt1n in Hs. induction Hs as [|w w1 w2 H1 _ IH]; [auto|].
    intro Hst. apply IH; [eapply step_preserves_inv; eauto | eapply state_ok_stable; eauto].
  Qed.

  Theorem c07_cache_content_addressed w w' : disk_inv w -> steps w w' -> cache_addressed w'.
  Proof. intros Hinv Hs. apply (steps_preserve_inv _ _ Hinv Hs). Qed.

  Theorem c07_init t0 : disk_inv (init_world Fine t0).
  Proof.
    unfold init_world.
    assert (forall f, ~ any_file (mk_world [] no_rdir t0 Fine) f) as Hno.
    { intros f [(p & Hp) | (c & t & Hc & _)]; [cbn in Hp | cbn in Hc]; discriminate. }
    split; [reflexivity|]. split; [|split; [|split]].
    - intros f g Hf. destruct (Hno f Hf).
    - intros f Hf. destruct (Hno f Hf).
    - intros c t f Hc. cbn in Hc. discriminate.
    - intros tbl p st Htb. cbn in Htb. discriminate.
  Qed.


  (* ================================================================== *)
  (* R6: ruler's own steps never lose protected content                   *)
  (* ================================================================== *)

  Notation protected_content := (protected_content teqb).

  Section Protected.
  Hypothesis hc_inj : forall a b, hc a = hc b -> a = b.

  Lemma protected_path paths (w : world) p f :
    In p paths -> fget w p = Some f -> protected_content paths w (f_content f).
  Proof. intros H1 H2. left. exists p, f. auto. Qed.

  Lemma protected_cache paths (w : world) ch t f :
    cache_of w = Some ch -> alookup teqb ch t = Some f -> protected_content paths w (f_content f).
  Proof. intros H1 H2. right. exists ch, t, f. auto. Qed.

  Lemma back_up_keeps_content paths (w : world) p assumed t w' c :
    cache_addressed w -> state_ok w assumed -> get_file_ticket teqb hc w p assumed = Some t ->
    back_up teqb w t p = Some w' -> protected_content paths w c -> protected_content paths w' c.
  Proof.
    intros Ha Hok Hg Hb Hp. destruct (get_file_ticket_sound _ _ _ _ Hok Hg) as (f0 & Ef0 & ->).
    destruct (back_up_inv _ _ _ _ Hb) as (ch & f & Ec & Ef & ->).
    assert (f0 = f) by congruence. subst f0.
    set (w' := set_cache (remove_file w p) (ainsert teqb ch (hc (f_content f)) f)).
    assert (cache_of w' = Some (ainsert teqb ch (hc (f_content f)) f)) as Ec' by reflexivity.
    destruct Hp as [(q & g & Hq & Hg' & <-) | (ch0 & t0 & g & Hc0 & Hl & <-)].
    - destruct (key_dec _ beq_spec q p) as [-> | Hne].
      + assert (g = f) by congruence. subst g.
        eapply protected_cache; [exact Ec'|]. apply (alookup_ainsert_eq _ teqb_spec).
      + eapply protected_path; [exact Hq|]. unfold fget, w'. cbn.
        rewrite (alookup_aremove_neq _ beq_spec _ _ _ Hne). exact Hg'.
    - assert (ch0 = ch) by congruence. subst ch0.
      destruct (key_dec _ teqb_spec t0 (hc (f_content f))) as [-> | Hne].
      + (* the replaced entry had the same content *)
        assert (f_content g = f_content f) as ->.
        { apply hc_inj. symmetry. eapply Ha; eauto. }
        eapply protected_cache; [exact Ec'|]. apply (alookup_ainsert_eq _ teqb_spec).
      + eapply protected_cache; [exact Ec'|].
        rewrite (alookup_ainsert_neq _ teqb_spec _ _ _ _ Hne). exact Hl.
  Qed.

  Lemma restore_keeps_content paths (w : world) t p w' c :
    In p paths -> fget w p = None -> restore teqb w t p = RDone w' ->
    protected_content paths w c -> protected_content paths w' c.
  Proof.
    intros Hin Hnone Hr Hp. destruct (restore_inv _ _ _ _ Hr) as (ch & f & Ec & Ef & ->).
    set (w' := set_cache (set_files w (ainsert bytes_eqb (w_files w) p f)) (aremove teqb ch t)).
    assert (cache_of w' = Some (aremove teqb ch t)) as Ec' by reflexivity.
    assert (fget w' p = Some f) as Ep'.
    { unfold fget, w'. cbn. apply (alookup_ainsert_eq _ beq_spec). }
    destruct Hp as [(q & g & Hq & Hg' & <-) | (ch0 & t0 & g & Hc0 & Hl & <-)].
    - assert (q <> p) as Hne by (intros ->; congruence).
      eapply protected_path; [exact Hq|]. unfold fget, w'. cbn.
      rewrite (alookup_ainsert_neq _ beq_spec _ _ _ _ Hne). exact Hg'.
    - assert (ch0 = ch) by congruence. subst ch0.
      destruct (key_dec _ teqb_spec t0 t) as [-> | Hne].
      + assert (g = f) by congruence. subst g. eapply protected_path; eauto.
      + eapply protected_cache; [exact Ec'|].
        rewrite (alookup_aremove_neq _ teqb_spec _ _ _ Hne). exact Hl.
  Qed.

  (* changes of the ruler directory that keep an existing cache as it is *)
  Lemma rd_change_keeps_content paths (w w' : world) c :
    w_files w' = w_files w -> (forall ch, cache_of w = Some ch -> cache_of w' = Some ch) ->
    protected_content paths w c -> protected_content paths w' c.
  Proof.
    intros Hf Hc [(q & g & Hq & Hg' & <-) | (ch0 & t0 & g & Hc0 & Hl & <-)].
    - eapply protected_path; [exact Hq|]. unfold fget. rewrite Hf. exact Hg'.
    - eapply protected_cache; [apply Hc; exact Hc0 | exact Hl].
  Qed.

  Lemma init_dir_keeps_cache (w w' : world) tbl ch :
    init_dir T w = Ok (w', tbl) -> cache_of w = Some ch -> cache_of w' = Some ch.
  Proof.
    unfold init_dir, cache_of. intros H Hc.
    destruct (rd_table (w_rd w)) as [[t|]|]; try discriminate; injection H as <- <-; cbn; rewrite Hc; reflexivity.
  Qed.

  (* own_step with restores going into the protected paths only *)
  Inductive own_step_on (paths : list bytes) : world -> world -> Prop :=
  | OnBackup w p assumed t w' :
      state_ok w assumed -> get_file_ticket teqb hc w p assumed = Some t ->
      back_up teqb w t p = Some w' -> own_step_on paths w w'
  | OnRestore w t p w' :
      In p paths -> fget w p = None -> restore teqb w t p = RDone w' -> own_step_on paths w w'
  | OnWriteTable w tbl : own_step_on paths w (write_table T w tbl)
  | OnWriteHist w (hr : rule -> T) r h : own_step_on paths w (write_history T teqb hr w r h)
  | OnInitDir w w' tbl : init_dir T w = Ok (w', tbl) -> own_step_on paths w w'.

  Lemma own_step_on_own_step paths w w' : own_step_on paths w w' -> own_step w w'.
  Proof.
    intros [w0 p a t w1 H1 H2 H3 | w0 t p w1 _ H2 H3 | w0 tbl | w0 hr r h | w0 w1 tbl H].
    - eapply OBackup; eauto.
    - eapply ORestore; eauto.
    - apply OWriteTable.
    - apply OWriteHist.
    - eapply OInitDir; eauto.
  Qed.

  (* an own step that is not a restore into a path outside `paths` is an own_step_on *)
  Lemma own_step_own_step_on paths w w' :
    own_step w w' ->
    own_step_on paths w w' \/
    exists t p, ~ In p paths /\ fget w p = None /\ restore teqb w t p = RDone w'.
  Proof.
    intros [w0 p a t w1 H1 H2 H3 | w0 t p w1 H2 H3 | w0 tbl | w0 hr r h | w0 w1 tbl H].
    - left. eapply OnBackup; eauto.
    - destruct (in_dec (list_eq_dec N.eq_dec) p paths) as [Hin | Hnin].
      + left. eapply OnRestore; eauto.
      + right. exists t, p. auto.
    - left. apply OnWriteTable.
    - left. apply OnWriteHist.
    - left. eapply OnInitDir; eauto.
  Qed.

  Theorem c08_own_step_keeps_content paths w w' c :
    disk_inv w -> own_step_on paths w w' -> protected_content paths w c -> protected_content paths w' c.
  Proof.
    intros (_ & _ & _ & Ha & _) Hs Hp.
    destruct Hs as [w0 p a t w1 H1 H2 H3 | w0 t p w1 H1 H2 H3 | w0 tbl | w0 hr r h | w0 w1 tbl H].
    - eapply back_up_keeps_content; eauto.
    - eapply restore_keeps_content; eauto.
    - eapply rd_change_keeps_content; eauto.
    - destruct (write_history_inv hr w0 r h) as (Hf & _ & _ & Hc & _).
      eapply rd_change_keeps_content; eauto. intros ch Hch. rewrite Hc. exact Hch.
    - destruct (init_dir_inv _ _ _ H) as (Hf & _).
      eapply rd_change_keeps_content; eauto. intros ch. eapply init_dir_keeps_cache; eauto.
  Qed.

  (* the unrestricted form: a content is lost from the protected set only by being restored to a
     path outside it, where it then sits *)
  Theorem c08_own_step_content_general paths w w' c :
    disk_inv w -> own_step w w' -> protected_content paths w c ->
    protected_content paths w' c \/
    exists p f, ~ In p paths /\ fget w p = None /\ fget w' p = Some f /\ f_content f = c.
  Proof.
    intros Hinv Hs Hp.
    destruct (own_step_own_step_on paths _ _ Hs) as [Hon | (t & p & Hnin & Hnone & Hr)].
    - left. eapply c08_own_step_keeps_content; eauto.
    - (* protect p as well: the content is kept there or elsewhere *)
      assert (protected_content (p :: paths) w c) as Hp'.
      { destruct Hp as [(q & g & Hq & Hg) | H]; [left; exists q, g; cbn; tauto | right; exact H]. }
      assert (protected_content (p :: paths) w' c) as Hp''.
      { eapply restore_keeps_content; eauto. cbn; auto. }
      destruct Hp'' as [(q & g & [<- | Hq] & Hg & Hc) | H].
      + right. exists p, g. auto.
      + left. left. exists q, g. auto.
      + left. right. exact H.
  Qed.


  End Protected.

  (* own steps are steps, except that own_step lets ruler write any table at all *)
  Lemma own_step_is_step_partial w w' :
    own_step w w' ->
    (forall tbl, w' = write_table T w tbl -> forall p st, alookup bytes_eqb tbl p = Some st -> state_ok w st) ->
    step w w'.
  Proof.
    intros [w0 p a t w1 H1 H2 H3 | w0 t p w1 H2 H3 | w0 tbl | w0 hr r h | w0 w1 tbl H] Htbl.
    - eapply SBackup; eauto.
    - eapply SRestore; eauto.
    - apply SWriteTable. apply Htbl. reflexivity.
    - apply SWriteHist.
    - eapply SInitDir; eauto.
  Qed.

  Lemma own_step_cases w w' : own_step w w' -> step w w' \/ exists tbl, w' = write_table T w tbl.
  Proof.
    intros [w0 p a t w1 H1 H2 H3 | w0 t p w1 H2 H3 | w0 tbl | w0 hr r h | w0 w1 tbl H].
    - left. eapply SBackup; eauto.
    - left. eapply SRestore; eauto.
    - right. eauto.
    - left. apply SWriteHist.
    - left. eapply SInitDir; eauto.
  Qed.

  (* what own steps preserve whatever table they write: everything but table_sound *)
  Lemma own_step_preserves_inv_partial w w' :
    disk_inv w -> own_step w w' ->
    w_mode w' = Fine /\ mt_unique w' /\ clock_ok w' /\ cache_addressed w'.
  Proof.
    intros Hinv Hs. destruct (own_step_cases _ _ Hs) as [H | (tbl & ->)].
    - destruct (step_preserves_inv _ _ Hinv H) as (H1 & H2 & H3 & H4 & _). auto.
    - destruct Hinv as (H1 & H2 & H3 & H4 & _).
      assert (sim w (write_table T w tbl)) as Hsim.
      { apply sim_of_sub; [cbn; lia|]. intro g. apply any_file_same_files; [reflexivity|].
        apply cache_sub_same. reflexivity. }
      split; [exact H1|]. split; [eapply sim_mt_unique; eauto|]. split; [eapply sim_clock_ok; eauto|].
      exact H4.
  Qed.

  (* ================================================================== *)
  (* R7: the sequential model only performs steps                         *)
  (* ================================================================== *)

  Lemma steps_refl w : steps w w.
  Proof. apply rt_refl. Qed.

  Lemma steps_one w w' : step w w' -> steps w w'.
  Proof. apply rt_step. Qed.

  Lemma steps_trans w1 w2 w3 : steps w1 w2 -> steps w2 w3 -> steps w1 w3.
  Proof. apply rt_trans. Qed.

  Definition blob_ok (w : world) (b : list (bytes * fstate)) : Prop :=
    forall p st, In (p, st) b -> state_ok w st.

  Definition tbl_ok (w : world) (t : table T) : Prop :=
    forall p st, alookup bytes_eqb t p = Some st -> state_ok w st.

  Lemma blob_ok_steps w w' b : disk_inv w -> steps w w' -> blob_ok w b -> blob_ok w' b.
  Proof. intros Hinv Hs Hb p st Hin. eapply state_ok_stable_steps; eauto. Qed.

  Lemma tbl_ok_steps w w' t : disk_inv w -> steps w w' -> tbl_ok w t -> tbl_ok w' t.
  Proof. intros Hinv Hs Hb p st Hin. eapply state_ok_stable_steps; eauto. Qed.

  Lemma blob_ok_cons w p st b : blob_ok w ((p, st) :: b) -> state_ok w st /\ blob_ok w b.
  Proof.
    intro H. split; [apply (H p st); left; reflexivity|]. intros q s Hin. apply (H q s). right. exact Hin.
  Qed.

  Lemma blob_ok_cons_intro w p st b : state_ok w st -> blob_ok w b -> blob_ok w ((p, st) :: b).
  Proof. intros H1 H2 q s [E | Hin]; [injection E as <- <-; exact H1 | eapply H2; eauto]. Qed.

  (* ---------- back_up, restore, resolve ---------- *)

  Lemma back_up_steps (w : world) p assumed t w' :
    state_ok w assumed -> get_file_ticket teqb hc w p assumed = Some t -> back_up teqb w t p = Some w' ->
    steps w w'.
  Proof. intros H1 H2 H3. apply steps_one. eapply SBackup; eauto. Qed.

  Lemma restore_steps (w : world) t p w' : restore teqb w t p = RDone w' -> steps w w'.
  Proof. intro H. apply steps_one. eapply SRestore; eauto. Qed.

  Lemma restore_or_rebuild_steps (w : world) t p res w' :
    restore_or_rebuild T teqb w t p = Ok (res, w') -> steps w w'.
  Proof.
    unfold restore_or_rebuild. destruct (restore teqb w t p) as [w1| |] eqn:E; intro H; try discriminate.
    - injection H as _ <-. eapply restore_steps; eauto.
    - injection H as _ <-. apply steps_refl.
  Qed.

  Lemma resolve_single_steps (w : world) rem p assumed res w' :
    state_ok w assumed -> resolve_single teqb hc w rem p assumed = Ok (res, w') -> steps w w'.
  Proof.
    intros Hok. unfold resolve_single.
    destruct (get_file_ticket teqb hc w p assumed) as [cur|] eqn:Eg.
    - destruct (teqb rem cur) eqn:Et.
      + intro H. injection H as _ <-. apply steps_refl.
      + destruct (back_up teqb w cur p) as [w1|] eqn:Eb; [|discriminate].
        intro H. eapply steps_trans; [eapply back_up_steps; eauto | eapply restore_or_rebuild_steps; eauto].
    - apply restore_or_rebuild_steps.
  Qed.

  Lemma resolve_remembered_steps b : forall (w : world) rem ress w',
    disk_inv w -> blob_ok w b -> resolve_remembered teqb hc w b rem = Ok (ress, w') -> steps w w'.
  Proof.
    induction b as [|[p assumed] rest IH]; intros w rem ress w' Hinv Hb; cbn [resolve_remembered].
    - intro H. injection H as _ <-. apply steps_refl.
    - destruct rem as [|r rrest]; [discriminate|].
      destruct (resolve_single teqb hc w (fs_t r) p assumed) as [[res w1]|e] eqn:E1; [|discriminate].
      destruct (resolve_remembered teqb hc w1 rest rrest) as [[ress2 w2]|e] eqn:E2; [|discriminate].
      intro H. injection H as _ <-.
      apply blob_ok_cons in Hb as [Hok Hrest].
      pose proof (resolve_single_steps _ _ _ _ _ _ Hok E1) as Hs1.
      eapply steps_trans; [exact Hs1|]. eapply IH; [| |exact E2].
      + eapply steps_preserve_inv; eauto.
      + eapply blob_ok_steps; eauto.
  Qed.

  Lemma resolve_fresh_steps b : forall (w : world) ress w',
    disk_inv w -> blob_ok w b -> resolve_fresh teqb hc w b = Ok (ress, w') -> steps w w'.
  Proof.
    induction b as [|[p assumed] rest IH]; intros w ress w' Hinv Hb; cbn [resolve_fresh].
    - intro H. injection H as _ <-. apply steps_refl.
    - apply blob_ok_cons in Hb as [Hok Hrest].
      destruct (get_file_ticket teqb hc w p assumed) as [cur|] eqn:Eg.
      + destruct (back_up teqb w cur p) as [w1|] eqn:Eb; [|discriminate].
        destruct (resolve_fresh teqb hc w1 rest) as [[ress2 w2]|e] eqn:E2; [|discriminate].
        intro H. injection H as _ <-.
        pose proof (back_up_steps _ _ _ _ _ Hok Eg Eb) as Hs1.
        eapply steps_trans; [exact Hs1|]. eapply IH; [| |exact E2].
        * eapply steps_preserve_inv; eauto.
        * eapply blob_ok_steps; eauto.
      + destruct (resolve_fresh teqb hc w rest) as [[ress2 w2]|e] eqn:E2; [|discriminate].
        intro H. injection H as _ <-. eapply IH; eauto.
  Qed.

  Lemma clean_targets_steps b : forall (w : world) w',
    disk_inv w -> blob_ok w b -> clean_targets teqb hc w b = Ok w' -> steps w w'.
  Proof.
    induction b as [|[p assumed] rest IH]; intros w w' Hinv Hb; cbn [clean_targets].
    - intro H. injection H as <-. apply steps_refl.
    - apply blob_ok_cons in Hb as [Hok Hrest].
      destruct (get_file_ticket teqb hc w p assumed) as [cur|] eqn:Eg.
      + destruct (back_up teqb w cur p) as [w1|] eqn:Eb; [|discriminate].
        intro H. pose proof (back_up_steps _ _ _ _ _ Hok Eg Eb) as Hs1.
        eapply steps_trans; [exact Hs1|]. eapply IH; [| |exact H].
        * eapply steps_preserve_inv; eauto.
        * eapply blob_ok_steps; eauto.
      + intro H. eapply IH; eauto.
  Qed.

  (* ---------- the user's commands ---------- *)

  Lemma run_line_steps (w : world) line code w' : run_line w line = (code, w') -> steps w w'.
  Proof.
    unfold run_line. destruct (tokens line) as [|op args]; [intro H; injection H as _ <-; apply steps_refl|].
    destruct (bytes_eqb op [116; 114; 117; 101]); [intro H; injection H as _ <-; apply steps_refl|].
    destruct (bytes_eqb op [102; 97; 105; 108]); [intro H; injection H as _ <-; apply steps_refl|].
    destruct (bytes_eqb op [103; 101; 110]).
    { destruct args as [|out pieces]; [intro H; injection H as _ <-; apply steps_refl|].
      destruct (gather w pieces) as [e|d]; intro H; injection H as _ <-; [apply steps_refl|].
      apply steps_one. apply SWrite. }
    destruct (bytes_eqb op [99; 104; 109; 111; 100]).
    { destruct args as [|p [|q r]]; try (intro H; injection H as _ <-; apply steps_refl).
      destruct (fget w p); intro H; injection H as _ <-; [|apply steps_refl].
      apply steps_one. apply SChmod. }
    destruct (bytes_eqb op [114; 109]).
    { destruct args as [|p [|q r]]; try (intro H; injection H as _ <-; apply steps_refl).
      intro H; injection H as _ <-. apply steps_one. apply SRemove. }
    intro H; injection H as _ <-; apply steps_refl.
  Qed.

  Lemma run_script_steps lines : forall (w : world) codes w', run_script w lines = (codes, w') -> steps w w'.
  Proof.
    induction lines as [|l r IH]; intros w codes w'; cbn [run_script].
    - intro H. injection H as _ <-. apply steps_refl.
    - destruct (run_line w l) as [code w1] eqn:E1. destruct (run_script w1 r) as [codes2 w2] eqn:E2.
      intro H. injection H as _ <-. eapply steps_trans; [eapply run_line_steps; eauto | eapply IH; eauto].
  Qed.


  (* ---------- states observed through the shortcut are sound ---------- *)

  Lemma is_empty_empty_state : is_empty_state teqb hc (empty_state hc) = true.
  Proof. unfold is_empty_state, empty_state. cbn. rewrite (proj2 (teqb_spec _ _) eq_refl). reflexivity. Qed.

  (* "nothing remembered" is sound in every world, whatever times its files carry *)
  Lemma empty_state_ok (w : world) : state_ok w (empty_state hc).
  Proof. left. apply is_empty_empty_state. Qed.

  Lemma get_actual_file_state_ok (w : world) p assumed st :
    disk_inv w -> state_ok w assumed -> get_actual_file_state teqb hc w p assumed = Some st -> state_ok w st.
  Proof.
    intros (_ & Hu & Hk & _) Hok H. unfold get_actual_file_state in H.
    destruct (fget w p) as [f|] eqn:Ef; [|discriminate]. injection H as <-.
    pose proof (any_file_path _ _ _ Ef) as Hf.
    right. split; cbn [fs_mtime fs_t].
    - apply (Hk f Hf).
    - intros g Hg Ht. rewrite (Hu g f Hg Hf Ht).
      destruct (shortcut teqb hc f assumed) eqn:E; [|reflexivity].
      eapply state_ok_shortcut; eauto.
  Qed.

  Lemma update_blob_ok b : forall (w : world) b',
    disk_inv w -> blob_ok w b -> update_blob teqb hc w b = Ok b' -> blob_ok w b'.
  Proof.
    induction b as [|[p assumed] rest IH]; intros w b' Hinv Hb; cbn [update_blob].
    - intro H. injection H as <-. intros q s [].
    - apply blob_ok_cons in Hb as [Hok Hrest].
      destruct (get_actual_file_state teqb hc w p assumed) as [st|] eqn:Eg; [|discriminate].
      destruct (update_blob teqb hc w rest) as [b2|e] eqn:E2; [|discriminate].
      intro H. injection H as <-. apply blob_ok_cons_intro.
      + eapply get_actual_file_state_ok; eauto.
      + eapply IH; eauto.
  Qed.

  Lemma forget_replaced_ok b : forall (w : world) ress,
    blob_ok w b -> blob_ok w (forget_replaced hc b ress).
  Proof.
    induction b as [|[p st] rest IH]; intros w ress Hb; cbn [forget_replaced]; [exact Hb|].
    destruct ress as [|r rrest]; [exact Hb|]. apply blob_ok_cons in Hb as [Hst Hrest].
    apply blob_ok_cons_intro; [|apply IH; auto].
    destruct r; auto. apply empty_state_ok.
  Qed.

  (* ---------- one rule thread ---------- *)

  Lemma handle_rule_steps (w : world) b h st cmd res w' script :
    disk_inv w -> blob_ok w b -> handle_rule teqb hc w b h st cmd = (res, w', script) -> steps w w'.
  Proof.
    intros Hinv Hb. unfold handle_rule.
    set (resolved := match alookup teqb h st with
                     | Some remembered => resolve_remembered teqb hc w b remembered
                     | None => resolve_fresh teqb hc w b
                     end).
    assert (forall ress w1, resolved = Ok (ress, w1) -> steps w w1) as Hres.
    { intros ress w1. unfold resolved. destruct (alookup teqb h st) as [rem|].
      - eapply resolve_remembered_steps; eauto.
      - eapply resolve_fresh_steps; eauto. }
    destruct resolved as [[ress w1]|e]; [|intro H; injection H as _ <- _; apply steps_refl].
    specialize (Hres ress w1 eq_refl). cbv zeta. set (b1 := forget_replaced hc b ress).
    destruct (needs_rebuild ress).
    - destruct (run_script w1 (script_lines cmd)) as [codes w2] eqn:Er.
      pose proof (run_script_steps _ _ _ _ Er) as Hs2.
      assert (steps w w2) as Hs by (eapply steps_trans; eauto).
      destruct (command_verdict codes); [intro H; injection H as _ <- _; exact Hs|].
      destruct (update_blob teqb hc w2 b1) as [b'|p]; [|intro H; injection H as _ <- _; exact Hs].
      destruct (history_insert teqb h st (map (fun e => fs_t (snd e)) b') (map fst b1));
        intro H; injection H as _ <- _; exact Hs.
    - destruct (current_tickets teqb hc w1 b1); intro H; injection H as _ <- _; exact Hres.
  Qed.

  (* the blob a successful thread hands back is sound in the world it leaves *)
  Lemma handle_rule_blob_ok (w : world) b h st cmd wr w' script :
    disk_inv w -> blob_ok w b -> handle_rule teqb hc w b h st cmd = (Ok wr, w', script) ->
    blob_ok w' (wr_blob wr).
  Proof.
    intros Hinv Hb Hh. pose proof (handle_rule_steps _ _ _ _ _ _ _ _ Hinv Hb Hh) as Hs.
    pose proof (steps_preserve_inv _ _ Hinv Hs) as Hinv'.
    assert (clock_ok w') as Hk' by apply Hinv'.
    pose proof (blob_ok_steps _ _ _ Hinv Hs Hb) as Hb'.
    revert Hh. unfold handle_rule.
    destruct (match alookup teqb h st with
              | Some remembered => resolve_remembered teqb hc w b remembered
              | None => resolve_fresh teqb hc w b
              end) as [[ress w1]|e]; [|discriminate].
    cbv zeta. set (b1 := forget_replaced hc b ress).
    assert (blob_ok w' b1) as Hb1 by (apply forget_replaced_ok; auto).
    destruct (needs_rebuild ress).
    - destruct (run_script w1 (script_lines cmd)) as [codes w2] eqn:Er.
      destruct (command_verdict codes); [discriminate|].
      destruct (update_blob teqb hc w2 b1) as [b'|p] eqn:Eu; [|discriminate].
      destruct (history_insert teqb h st (map (fun e => fs_t (snd e)) b') (map fst b1)); [|discriminate].
      intro H. injection H as <- <- _. cbn [wr_blob]. eapply update_blob_ok; eauto.
    - destruct (current_tickets teqb hc w1 b1); [|discriminate].
      intro H. injection H as <- <- _. cbn [wr_blob]. exact Hb1.
  Qed.

  (* ---------- table and blobs ---------- *)

  Lemma tbl_ok_aremove (w : world) t p : tbl_ok w t -> tbl_ok w (aremove bytes_eqb t p).
  Proof.
    intros H q s Hl. apply (alookup_aremove_some _ beq_spec) in Hl as [_ Hl]. eapply H; eauto.
  Qed.

  Lemma tbl_ok_ainsert (w : world) t p st : tbl_ok w t -> state_ok w st -> tbl_ok w (ainsert bytes_eqb t p st).
  Proof.
    intros H Hst q s Hl. apply (alookup_ainsert_some _ beq_spec) in Hl as [[_ ->] | [_ Hl]]; [exact Hst|].
    eapply H; eauto.
  Qed.

  Lemma take_blob_ok paths : forall (w : world) t b t',
    tbl_ok w t -> take_blob T hc t paths = (b, t') -> blob_ok w b /\ tbl_ok w t'.
  Proof.
    induction paths as [|p rest IH]; intros w t b t' Ht; cbn [take_blob].
    - intro H. injection H as <- <-. split; [intros q s []| exact Ht].
    - destruct (take_blob T hc (aremove bytes_eqb t p) rest) as [b2 t2] eqn:E2.
      intro H. injection H as <- <-.
      destruct (IH w _ _ _ (tbl_ok_aremove _ _ p Ht) E2) as [Hb2 Ht2].
      split; [|exact Ht2]. apply blob_ok_cons_intro; [|exact Hb2].
      destruct (alookup bytes_eqb t p) as [s|] eqn:El; [eapply Ht; eauto | apply empty_state_ok].
  Qed.

  (* take_blob / take_blobs only remove entries: what is left are entries of the table *)
  Lemma take_blob_rest_sub paths : forall (t : table T) q s,
    alookup bytes_eqb (snd (take_blob T hc t paths)) q = Some s -> alookup bytes_eqb t q = Some s.
  Proof.
    induction paths as [|p rest IH]; intros t q s; cbn [take_blob]; [cbn [snd]; auto|].
    destruct (take_blob T hc (aremove bytes_eqb t p) rest) as [b2 t2] eqn:E2. cbn [snd].
    intro Hl. specialize (IH (aremove bytes_eqb t p) q s). rewrite E2 in IH. cbn [snd] in IH.
    apply IH in Hl. apply (alookup_aremove_some _ beq_spec) in Hl as [_ Hl]. exact Hl.
  Qed.

  Lemma take_blobs_rest_sub pss : forall (t : table T) q s,
    alookup bytes_eqb (snd (take_blobs T hc t pss)) q = Some s -> alookup bytes_eqb t q = Some s.
  Proof.
    induction pss as [|ps rest IH]; intros t q s; cbn [take_blobs]; [cbn [snd]; auto|].
    pose proof (take_blob_rest_sub ps t q s) as H1.
    destruct (take_blob T hc t ps) as [b t1]. cbn [snd] in H1.
    specialize (IH t1 q s). destruct (take_blobs T hc t1 rest) as [bs t2]. cbn [snd] in *.
    intro Hl. auto.
  Qed.

  Lemma table_rest_ok (w : world) t pack : tbl_ok w t -> tbl_ok w (table_rest T hc t pack).
  Proof. intros H q s Hl. apply take_blobs_rest_sub in Hl. eapply H; eauto. Qed.

  Lemma insert_blob_ok b : forall (w : world) t, tbl_ok w t -> blob_ok w b -> tbl_ok w (insert_blob T t b).
  Proof.
    unfold insert_blob. induction b as [|[p st] rest IH]; intros w t Ht Hb; cbn [fold_left]; [exact Ht|].
    apply blob_ok_cons in Hb as [Hst Hrest]. apply IH; [|exact Hrest]. cbn [fst snd].
    apply tbl_ok_ainsert; auto.
  Qed.


  (* ---------- build and clean ---------- *)

  Variable hl : list T -> T.
  Variable hr : rule -> T.

  Definition results_ok (w : world) (rs : list (option rule * thread_result T)) : Prop :=
    forall r wr, In (r, TOk wr) rs -> blob_ok w (wr_blob wr).

  (* what the serial schedule maintains, w0 being a world that satisfies the invariant *)
  Definition rs_inv (w0 : world) (st : run_state T) : Prop :=
    steps w0 (rs_world T st) /\ tbl_ok (rs_world T st) (rs_table T st) /\
    results_ok (rs_world T st) (rs_results T st).

  Lemma results_ok_steps w w' rs : disk_inv w -> steps w w' -> results_ok w rs -> results_ok w' rs.
  Proof. intros Hinv Hs H r wr Hin. eapply blob_ok_steps; eauto. Qed.

  Lemma results_ok_app w rs x : results_ok w rs -> results_ok w [x] -> results_ok w (rs ++ [x]).
  Proof.
    intros H1 H2 r wr Hin. apply in_app_or in Hin as [Hin | Hin]; [eapply H1 | eapply H2]; eauto.
  Qed.

  Lemma results_ok_one_ok w r wr : blob_ok w (wr_blob wr) -> results_ok w [(r, TOk wr)].
  Proof. intros H r' wr' [E | []]. injection E as _ <-. exact H. Qed.

  Lemma results_ok_one_err w r e : results_ok w [(r, TErr e)].
  Proof. intros r' wr' [E | []]. discriminate. Qed.

  Lemma results_ok_one_cancel w r : results_ok w [(r, TCanceled)].
  Proof. intros r' wr' [E | []]. discriminate. Qed.

  Lemma run_leaf_inv w0 st leaf : disk_inv w0 -> rs_inv w0 st -> rs_inv w0 (run_leaf T teqb hc st leaf).
  Proof.
    intros Hinv0 (Hs & Ht & Hr). pose proof (steps_preserve_inv _ _ Hinv0 Hs) as Hinv.
    unfold run_leaf. destruct (take_blob T hc (rs_table T st) [leaf]) as [b t'] eqn:Etb.
    assert (clock_ok (rs_world T st)) as Hk by apply Hinv.
    destruct (take_blob_ok _ _ _ _ _ Ht Etb) as [Hb Ht'].
    unfold handle_leaf. destruct (current_tickets teqb hc (rs_world T st) b) as [ts|p]; cbn.
    - split; [exact Hs|]. split; [exact Ht'|]. apply results_ok_app; [exact Hr|].
      apply results_ok_one_ok. exact Hb.
    - split; [exact Hs|]. split; [exact Ht'|]. apply results_ok_app; [exact Hr|]. apply results_ok_one_err.
  Qed.

  Lemma run_leaves_inv w0 leaves : forall st,
    disk_inv w0 -> rs_inv w0 st -> rs_inv w0 (fold_left (run_leaf T teqb hc) leaves st).
  Proof.
    induction leaves as [|l r IH]; intros st Hinv0 H; cbn [fold_left]; [exact H|].
    apply IH; [exact Hinv0|]. apply run_leaf_inv; auto.
  Qed.

  Lemma run_node_inv w0 st n st' :
    disk_inv w0 -> rs_inv w0 st -> run_node T teqb hc hl hr st n = Some st' -> rs_inv w0 st'.
  Proof.
    intros Hinv0 (Hs & Ht & Hr). pose proof (steps_preserve_inv _ _ Hinv0 Hs) as Hinv.
    unfold run_node. destruct (take_blob T hc (rs_table T st) (n_targets n)) as [b t'] eqn:Etb.
    assert (clock_ok (rs_world T st)) as Hk by apply Hinv.
    destruct (take_blob_ok _ _ _ _ _ Ht Etb) as [Hb Ht'].
    destruct (read_history T teqb hr (rs_world T st) (n_rule n)) as [h|]; [|discriminate].
    destruct (all_some (map (received T (rs_leaf_sent T st) (rs_node_sent T st)) (n_source_indices n)))
      as [tickets|].
    - destruct (handle_rule teqb hc (rs_world T st) b h (hl tickets) (n_command n)) as [[res w'] script] eqn:Eh.
      pose proof (handle_rule_steps _ _ _ _ _ _ _ _ Hinv Hb Eh) as Hs1.
      assert (steps w0 w') as Hs' by (eapply steps_trans; eauto).
      pose proof (tbl_ok_steps _ _ _ Hinv Hs1 Ht') as Ht1.
      pose proof (results_ok_steps _ _ _ Hinv Hs1 Hr) as Hr1.
      destruct res as [wr|e]; intro H; injection H as <-; cbn.
      + split; [exact Hs'|]. split; [exact Ht1|]. apply results_ok_app; [exact Hr1|].
        apply results_ok_one_ok. eapply handle_rule_blob_ok; eauto.
      + split; [exact Hs'|]. split; [exact Ht1|]. apply results_ok_app; [exact Hr1|].
        apply results_ok_one_err.
    - intro H; injection H as <-; cbn.
      split; [exact Hs|]. split; [exact Ht'|]. apply results_ok_app; [exact Hr|]. apply results_ok_one_cancel.
  Qed.

  Lemma run_nodes_inv w0 ns : forall st st',
    disk_inv w0 -> rs_inv w0 st -> run_nodes T teqb hc hl hr st ns = Some st' -> rs_inv w0 st'.
  Proof.
    induction ns as [|n r IH]; intros st st' Hinv0 H; cbn [run_nodes].
    - intro E. injection E as <-. exact H.
    - destruct (run_node T teqb hc hl hr st n) as [st1|] eqn:E1; [|discriminate].
      apply IH; [exact Hinv0|]. eapply run_node_inv; eauto.
  Qed.

  (* the local loop of `build` that finds the world in which a bad history file was met *)
  Lemma upto_inv w0 ns : forall st,
    disk_inv w0 -> rs_inv w0 st ->
    rs_inv w0 ((fix upto (st : run_state T) (ns : list node) {struct ns} : run_state T :=
                  match ns with
                  | [] => st
                  | n :: rest => match run_node T teqb hc hl hr st n with
                                 | None => st
                                 | Some st' => upto st' rest
                                 end
                  end) st ns).
  Proof.
    induction ns as [|n r IH]; intros st Hinv0 H; [exact H|].
    cbn - [run_node]. destruct (run_node T teqb hc hl hr st n) as [st1|] eqn:E1.
    - apply IH; [exact Hinv0|]. eapply run_node_inv; eauto.
    - exact H.
  Qed.

  (* main's join loop *)
  Definition js_inv (w0 : world) (js : join_state T) (rest : list (option rule * thread_result T)) : Prop :=
    steps w0 (js_world T js) /\ tbl_ok (js_world T js) (js_table T js) /\ results_ok (js_world T js) rest.

  Lemma join_one_inv w0 js res rest :
    disk_inv w0 -> js_inv w0 js (res :: rest) -> js_inv w0 (join_one T teqb hr js res) rest.
  Proof.
    intros Hinv0 (Hs & Ht & Hr). pose proof (steps_preserve_inv _ _ Hinv0 Hs) as Hinv.
    assert (results_ok (js_world T js) rest) as Hrest.
    { intros r wr Hin. apply (Hr r wr). right. exact Hin. }
    unfold join_one. destruct res as [r tr]. cbn [fst snd]. destruct tr as [wr|e|].
    - assert (blob_ok (js_world T js) (wr_blob wr)) as Hb by (apply (Hr r wr); left; reflexivity).
      set (w1 := match r, wr_history wr with
                 | Some r0, Some h => write_history T teqb hr (js_world T js) r0 h
                 | _, _ => js_world T js
                 end).
      assert (steps (js_world T js) w1) as Hs1.
      { unfold w1. destruct r as [r0|]; [|apply steps_refl].
        destruct (wr_history wr) as [h|]; [|apply steps_refl]. apply steps_one. apply SWriteHist. }
      cbn. split; [eapply steps_trans; eauto|]. split.
      + eapply tbl_ok_steps; eauto. apply insert_blob_ok; auto.
      + eapply results_ok_steps; eauto.
    - split; [exact Hs|]. split; [exact Ht | exact Hrest].
    - split; [exact Hs|]. split; [exact Ht | exact Hrest].
  Qed.

  Lemma join_all_inv w0 rest : forall js,
    disk_inv w0 -> js_inv w0 js rest -> js_inv w0 (fold_left (join_one T teqb hr) rest js) [].
  Proof.
    induction rest as [|res rest IH]; intros js Hinv0 H; cbn [fold_left]; [exact H|].
    apply IH; [exact Hinv0|]. apply join_one_inv; auto.
  Qed.

  Lemma init_dir_rs_inv (w w1 : world) t :
    disk_inv w -> init_dir T w = Ok (w1, t) -> steps w w1 /\ tbl_ok w1 t.
  Proof.
    intros Hinv Hi. assert (step w w1) as Hst by (eapply SInitDir; eauto).
    split; [apply steps_one; exact Hst|].
    destruct (step_preserves_inv _ _ Hinv Hst) as (_ & _ & _ & _ & Hts).
    destruct (init_dir_inv _ _ _ Hi) as (_ & _ & _ & _ & Htb & _).
    intros p st Hl. eapply Hts; eauto.
  Qed.

  Lemma init_dir_error_step (w : world) : step w (init_dir_world_on_error T w).
  Proof.
    unfold init_dir_world_on_error. apply SUserRd. split; [|split]; cbn.
    - intros c' t f Hc Hl. destruct (rd_cache (w_rd w)) as [c|]; injection Hc as <-.
      + exists c. auto.
      + cbn in Hl. discriminate.
    - auto.
    - intros hs' t h Hh Hl. destruct (rd_hist (w_rd w)) as [hs|]; injection Hh as <-.
      + exists hs. auto.
      + cbn in Hl. discriminate.
  Qed.

  Theorem build_steps (w : world) rp goal :
    disk_inv w -> steps w (o_world (build teqb hc hl hr w rp goal)).
  Proof.
    intro Hinv. unfold build.
    destruct (init_dir T w) as [[w1 t]|f] eqn:Ei; [|cbn; apply steps_one; apply init_dir_error_step].
    destruct (init_dir_rs_inv _ _ _ Hinv Ei) as [Hs1 Ht1].
    destruct (get_nodes T w1 rp goal) as [pack|f]; [|exact Hs1].
    pose proof (steps_preserve_inv _ _ Hinv Hs1) as Hinv1.
    assert (steps w1 (write_table T w1 (table_rest T hc t pack))) as Hsw.
    { apply steps_one. apply SWriteTable. apply (table_rest_ok w1 t pack Ht1). }
    set (w1t := write_table T w1 (table_rest T hc t pack)) in *.
    assert (rs_inv w (mk_rs T w1t t [] [] [] [])) as H0.
    { split; [eapply steps_trans; eauto|]. split; [eapply tbl_ok_steps; eauto|]. intros r wr []. }
    pose proof (run_leaves_inv w (p_leaves pack) _ Hinv H0) as H1.
    cbv zeta. fold w1t.
    destruct (run_nodes T teqb hc hl hr (fold_left (run_leaf T teqb hc) (p_leaves pack) (mk_rs T w1t t [] [] [] []))
                        (p_nodes pack)) as [st2|] eqn:En.
    - pose proof (run_nodes_inv w _ _ _ Hinv H1 En) as (Hs2 & Ht2 & Hr2).
      assert (js_inv w (mk_js T (rs_world T st2) (rs_table T st2) [] []) (rs_results T st2)) as Hj0.
      { split; [exact Hs2|]. split; [exact Ht2 | exact Hr2]. }
      pose proof (join_all_inv w _ _ Hinv Hj0) as (Hs3 & Ht3 & _).
      cbn [o_world]. eapply steps_trans; [exact Hs3|]. apply steps_one. apply SWriteTable. exact Ht3.
    - cbn [o_world]. apply (upto_inv w (p_nodes pack) _ Hinv H1).
  Qed.

  Lemma clean_nodes_steps ns : forall (w : world) t errs w' errs',
    disk_inv w -> tbl_ok w t -> clean_nodes T teqb hc w t ns errs = (w', errs') -> steps w w'.
  Proof.
    induction ns as [|n r IH]; intros w t errs w' errs' Hinv Ht; cbn [clean_nodes].
    - intro H. injection H as <- _. apply steps_refl.
    - destruct (take_blob T hc t (n_targets n)) as [b t'] eqn:Etb.
      assert (clock_ok w) as Hk by apply Hinv.
      destruct (take_blob_ok _ _ _ _ _ Ht Etb) as [Hb Ht'].
      destruct (clean_targets teqb hc w b) as [w1|e] eqn:Ec.
      + pose proof (clean_targets_steps _ _ _ Hinv Hb Ec) as Hs1. intro H.
        eapply steps_trans; [exact Hs1|]. eapply IH; [| |exact H].
        * eapply steps_preserve_inv; eauto.
        * eapply tbl_ok_steps; eauto.
      + intro H. eapply IH; eauto.
  Qed.

  Theorem clean_steps (w : world) rp goal :
    disk_inv w -> steps w (o_world (clean teqb hc w rp goal)).
  Proof.
    intro Hinv. unfold clean.
    destruct (init_dir T w) as [[w1 t]|f] eqn:Ei; [|cbn; apply steps_one; apply init_dir_error_step].
    destruct (init_dir_rs_inv _ _ _ Hinv Ei) as [Hs1 Ht1].
    destruct (get_nodes T w1 rp goal) as [pack|f]; [|exact Hs1].
    destruct (clean_nodes T teqb hc w1 t (p_nodes pack) []) as [w2 errs] eqn:Ec.
    cbn [o_world]. eapply steps_trans; [exact Hs1|]. eapply clean_nodes_steps; [| |exact Ec]; auto.
    eapply steps_preserve_inv; eauto.
  Qed.


  (* ================================================================== *)
  (* R8: every history of user actions and ruler invocations              *)
  (* ================================================================== *)

  (* everything except a user planting decodable ruler state *)
  Definition safe_op (o : op T) : Prop :=
    match o with
    | OSetTable (SF_ok _) => False
    | OSetHist _ (SF_ok _) => False
    | _ => True
    end.

  Lemma user_steps w w' : step w w' -> steps w (tick w').
  Proof. intro H. eapply steps_trans; [apply steps_one; exact H | apply steps_one; apply STick]. Qed.

  Lemma user_rd_steps (w : world) rd' : rdir_shrinks T teqb (w_rd w) rd' -> steps w (tick (set_rd w rd')).
  Proof. intro H. apply user_steps. apply SUserRd. exact H. Qed.

  Lemma apply_op_steps (w : world) o :
    disk_inv w -> safe_op o -> steps w (fst (apply_op teqb hc hl hr w o)).
  Proof.
    intros Hinv Hsafe. destruct o as [p c | p | p x | p q | t | | | | | t | v | t v | goal | goal];
      cbn [apply_op fst]; unfold upd_rd.
    - apply user_steps. apply SWrite.
    - apply user_steps. apply SRemove.
    - apply user_steps. apply SChmod.
    - apply user_steps. apply SMove.
    - apply user_rd_steps. split; [|split]; cbn.
      + intros c' t' f Hc Hl. destruct (rd_cache (w_rd w)) as [c|]; [|discriminate]. injection Hc as <-.
        apply (alookup_aremove_some _ teqb_spec) in Hl as [_ Hl]. exists c. auto.
      + auto.
      + intros hs' t' h Hh Hl. exists hs'. auto.
    - apply user_rd_steps. split; [|split]; cbn.
      + intros c' t' f Hc. discriminate.
      + intros tbl' Ht. discriminate.
      + intros hs' t' h Hh. discriminate.
    - apply user_rd_steps. split; [|split]; cbn.
      + intros c' t' f Hc. discriminate.
      + auto.
      + intros hs' t' h Hh Hl. exists hs'. auto.
    - apply user_rd_steps. split; [|split]; cbn.
      + intros c' t' f Hc Hl. exists c'. auto.
      + auto.
      + intros hs' t' h Hh. discriminate.
    - apply user_rd_steps. split; [|split]; cbn.
      + intros c' t' f Hc Hl. exists c'. auto.
      + intros tbl' Ht. discriminate.
      + intros hs' t' h Hh Hl. exists hs'. auto.
    - apply user_rd_steps. split; [|split]; cbn.
      + intros c' t' f Hc Hl. exists c'. auto.
      + auto.
      + intros hs' t' h Hh Hl. destruct (rd_hist (w_rd w)) as [hs|]; [|discriminate]. injection Hh as <-.
        apply (alookup_aremove_some _ teqb_spec) in Hl as [_ Hl]. exists hs. auto.
    - destruct v as [tbl|]; [destruct Hsafe|].
      apply user_rd_steps. destruct (rd_exists (w_rd w)); split; try split; cbn.
      + intros c' t' f Hc Hl. exists c'. auto.
      + intros tbl' Ht. discriminate.
      + intros hs' t' h Hh Hl. exists hs'. auto.
      + intros c' t' f Hc Hl. exists c'. auto.
      + auto.
      + intros hs' t' h Hh Hl. exists hs'. auto.
    - destruct v as [h0|]; [destruct Hsafe|].
      apply user_rd_steps. split; [|split]; cbn.
      + intros c' t' f Hc Hl. exists c'. auto.
      + auto.
      + intros hs' t' h Hh Hl. destruct (rd_hist (w_rd w)) as [hs|]; [|discriminate]. injection Hh as <-.
        apply (alookup_ainsert_some _ teqb_spec) in Hl as [[_ Hl] | [_ Hl]]; [discriminate|]. exists hs. auto.
    - eapply steps_trans; [apply build_steps; exact Hinv | apply steps_one; apply STick].
    - eapply steps_trans; [apply clean_steps; exact Hinv | apply steps_one; apply STick].
  Qed.

  Lemma history_steps ops : forall (w : world),
    disk_inv w -> Forall safe_op ops ->
    steps w (fold_left (fun w o => fst (apply_op teqb hc hl hr w o)) ops w).
  Proof.
    induction ops as [|o r IH]; intros w Hinv Hsafe; cbn [fold_left]; [apply steps_refl|].
    inversion Hsafe as [|o' r' Ho Hr]; subst.
    pose proof (apply_op_steps w o Hinv Ho) as Hs1.
    eapply steps_trans; [exact Hs1|]. apply IH; [|exact Hr]. eapply steps_preserve_inv; eauto.
  Qed.

  Theorem reach_inv t0 (ops : list (op T)) :
    Forall safe_op ops ->
    disk_inv (fold_left (fun w o => fst (apply_op teqb hc hl hr w o)) ops (init_world Fine t0)).
  Proof.
    intros Hsafe. pose proof (c07_init t0) as Hinv.
    eapply steps_preserve_inv; [exact Hinv|]. apply history_steps; auto.
  Qed.

  Theorem c07_every_history t0 (ops : list (op T)) :
    Forall safe_op ops ->
    cache_addressed (fold_left (fun w o => fst (apply_op teqb hc hl hr w o)) ops (init_world Fine t0)).
  Proof. intros Hsafe. apply (reach_inv t0 ops Hsafe). Qed.

End Facts.

End InvProofs.

(* ================================================================== *)
(* The free symbolic hashes: the hypotheses of Section Facts hold       *)
(* ================================================================== *)

Inductive sym := SContent (c : bytes) | SList (l : list sym) | SRule (r : rule).

Lemma list_eqb_spec {A} (eqb : A -> A -> bool) (l : list A) :
  Forall (fun x => forall y, eqb x y = true <-> x = y) l ->
  forall m, list_eqb eqb l m = true <-> l = m.
Proof.
  induction 1 as [|x l Hx _ IH]; intros [|y m]; cbn [list_eqb]; split; intro H;
    try reflexivity; try discriminate.
  - apply andb_true_iff in H as [H1 H2]. apply Hx in H1. apply IH in H2. congruence.
  - injection H as <- <-. apply andb_true_iff. split; [apply Hx | apply IH]; reflexivity.
Qed.

Definition strs_eqb : list bytes -> list bytes -> bool := list_eqb bytes_eqb.

Lemma strs_eqb_spec a b : strs_eqb a b = true <-> a = b.
Proof.
  apply list_eqb_spec. apply Forall_forall. intros x _ y. apply bytes_eqb_eq.
Qed.

Definition rule_eqb (a b : rule) : bool :=
  strs_eqb (r_targets a) (r_targets b) && strs_eqb (r_sources a) (r_sources b) &&
  strs_eqb (r_command a) (r_command b).

Lemma rule_eqb_spec a b : rule_eqb a b = true <-> a = b.
Proof.
  destruct a as [t1 s1 c1], b as [t2 s2 c2]. unfold rule_eqb. cbn [r_targets r_sources r_command].
  split; intro H.
  - apply andb_true_iff in H as [H H3]. apply andb_true_iff in H as [H1 H2].
    apply strs_eqb_spec in H1, H2, H3. congruence.
  - injection H as <- <- <-. repeat (apply andb_true_iff; split); apply strs_eqb_spec; reflexivity.
Qed.

Fixpoint sym_eqb (a b : sym) {struct a} : bool :=
  match a, b with
  | SContent c, SContent d => bytes_eqb c d
  | SList l, SList m =>
      (fix go (l m : list sym) {struct l} : bool :=
         match l, m with
         | [], [] => true
         | x :: l', y :: m' => sym_eqb x y && go l' m'
         | _, _ => false
         end) l m
  | SRule r, SRule s => rule_eqb r s
  | _, _ => false
  end.

Lemma sym_eqb_SList l m : sym_eqb (SList l) (SList m) = list_eqb sym_eqb l m.
Proof.
  cbn [sym_eqb]. revert m. induction l as [|x l IH]; intros [|y m]; cbn [list_eqb]; try reflexivity.
  rewrite IH. reflexivity.
Qed.

(* induction principle for the nested type *)
Fixpoint sym_nested_ind (P : sym -> Prop)
    (HC : forall c, P (SContent c)) (HL : forall l, Forall P l -> P (SList l)) (HR : forall r, P (SRule r))
    (s : sym) {struct s} : P s :=
  match s with
  | SContent c => HC c
  | SList l =>
      HL l ((fix go (l : list sym) : Forall P l :=
               match l with
               | [] => Forall_nil P
               | x :: r => Forall_cons x (sym_nested_ind P HC HL HR x) (go r)
               end) l)
  | SRule r => HR r
  end.

Lemma sym_eqb_spec a b : sym_eqb a b = true <-> a = b.
Proof.
  revert b. induction a as [c | l IH | r] using sym_nested_ind; intros [d | m | s];
    try (cbn [sym_eqb]; split; intro H; discriminate).
  - cbn [sym_eqb]. rewrite bytes_eqb_eq. split; intro H; [congruence | injection H; auto].
  - rewrite sym_eqb_SList. rewrite (list_eqb_spec sym_eqb l IH m).
    split; intro H; [congruence | injection H; auto].
  - cbn [sym_eqb]. rewrite rule_eqb_spec. split; intro H; [congruence | injection H; auto].
Qed.

Lemma SContent_inj a b : SContent a = SContent b -> a = b.
Proof. intro H. injection H as H. exact H. Qed.

(* ================================================================== *)
(* Two statements that are false of the model as literally written      *)
(* ================================================================== *)

(* (a) own_step is not included in step: OWriteTable carries no premise on the table *)
Definition ois_w : world sym := init_world Fine 5.
Definition ois_tbl : table sym := [([1], mk_fstate (SContent []) 9 false)].

Theorem own_step_is_step_refuted :
  ~ (forall w w' : world sym,
       disk_inv sym_eqb SContent w -> own_step sym_eqb SContent w w' -> step sym_eqb SContent w w').
Proof.
  intro H.
  assert (disk_inv sym_eqb SContent ois_w) as Hinv by (apply InvProofs.c07_init).
  specialize (H ois_w (write_table sym ois_w ois_tbl) Hinv (OWriteTable _ _ _ _ _)).
  inversion H as [w p a t w' Hok Hg Hb | w t p w' Hr | w p c | w p | w p x | w p q | w tbl0 Htbl | w hr r h
                 | w w' tbl0 Hi | w | w rd' Hsh].
  - unfold back_up in Hb. cbn in Hb. discriminate.
  - unfold restore in Hr. cbn in Hr. discriminate.
  - destruct (Htbl [1] _ eq_refl) as [He | [Hle _]]; [vm_compute in He; discriminate|].
    cbn in Hle. vm_compute in Hle. apply Hle. reflexivity.
  - cbn in Hi. discriminate.
  - destruct Hsh as (_ & Ht & _). specialize (Ht ois_tbl eq_refl). cbn in Ht. discriminate.
Qed.

(* (b) C08 as literally stated (own_step, any set of paths): a restore into a path outside `paths`
   takes the content out of the protected set *)
Definition c08_file : file := mk_file [1] 1 false.
Definition c08_w : world sym :=
  mk_world [] (mk_rdir true (Some [(SContent [1], c08_file)]) (Some []) None) 5 Fine.
Definition c08_w' : world sym :=
  mk_world [([7], c08_file)] (mk_rdir true (Some []) (Some []) None) 5 Fine.

Lemma c08_w_files f : any_file sym_eqb c08_w f -> f = c08_file.
Proof.
  intros [(p & Hp) | (c & t & Hc & Hl)].
  - cbn in Hp. discriminate.
  - cbn in Hc. injection Hc as <-. cbn [alookup] in Hl.
    destruct (sym_eqb t (SContent [1])); [injection Hl as <-; reflexivity | discriminate].
Qed.

Lemma c08_w_inv : disk_inv sym_eqb SContent c08_w.
Proof.
  split; [reflexivity|]. split; [|split; [|split]].
  - intros f g Hf Hg _. rewrite (c08_w_files f Hf), (c08_w_files g Hg). reflexivity.
  - intros f Hf. rewrite (c08_w_files f Hf). intro H; discriminate.
  - intros c t f Hc Hl. cbn in Hc. injection Hc as <-. cbn [alookup] in Hl.
    destruct (sym_eqb t (SContent [1])) eqn:E; [|discriminate].
    injection Hl as <-. apply sym_eqb_spec in E. exact E.
  - intros tbl p st Ht. cbn in Ht. discriminate.
Qed.

Theorem c08_own_step_keeps_content_literal_refuted :
  ~ (forall paths (w w' : world sym) c,
       disk_inv sym_eqb SContent w -> own_step sym_eqb SContent w w' ->
       protected_content sym_eqb paths w c -> protected_content sym_eqb paths w' c).
Proof.
  intro H.
  assert (own_step sym_eqb SContent c08_w c08_w') as Hs.
  { apply (ORestore _ _ _ c08_w (SContent [1]) [7]); reflexivity. }
  assert (protected_content sym_eqb [] c08_w [1]) as Hp.
  { right. exists [(SContent [1], c08_file)], (SContent [1]), c08_file. repeat split; reflexivity. }
  destruct (H [] c08_w c08_w' [1] c08_w_inv Hs Hp) as [(p & f & [] & _) | (ch & t & f & Hc & Hl & _)].
  cbn in Hc. injection Hc as <-. cbn in Hl. discriminate.
Qed.

(* ================================================================== *)
(* ==== RESULTS ==== *)
(* ================================================================== *)

Local Notation steps teqb hc := (clos_refl_trans _ (step teqb hc)).
Notation own_step_on := InvProofs.own_step_on.
Notation blob_ok := InvProofs.blob_ok.
Notation safe_op := InvProofs.safe_op.

(* ---- R1 ---- *)
Section R1.
  Context {K V : Type}.
  Variable eqb : K -> K -> bool.
  Hypothesis eqb_spec : forall a b, eqb a b = true <-> a = b.

  Theorem alookup_ainsert_eq (m : amap K V) k v : alookup eqb (ainsert eqb m k v) k = Some v.
  Proof. exact (InvProofs.alookup_ainsert_eq eqb eqb_spec m k v). Qed.

  Theorem alookup_ainsert_neq (m : amap K V) k k' v :
    k' <> k -> alookup eqb (ainsert eqb m k v) k' = alookup eqb m k'.
  Proof. exact (InvProofs.alookup_ainsert_neq eqb eqb_spec m k k' v). Qed.

  Theorem alookup_aremove_eq (m : amap K V) k : alookup eqb (aremove eqb m k) k = None.
  Proof. exact (InvProofs.alookup_aremove_eq eqb m k). Qed.

  Theorem alookup_aremove_neq (m : amap K V) k k' :
    k' <> k -> alookup eqb (aremove eqb m k) k' = alookup eqb m k'.
  Proof. exact (InvProofs.alookup_aremove_neq eqb eqb_spec m k k'). Qed.
End R1.

Section Results.
  Variable T : Type.
  Variable teqb : T -> T -> bool.
  Variable hc : bytes -> T.
  Hypothesis teqb_spec : forall a b, teqb a b = true <-> a = b.

  (* ---- R2 ---- *)
  Theorem step_preserves_inv : forall w w', disk_inv teqb hc w -> step teqb hc w w' -> disk_inv teqb hc w'.
  Proof. exact (InvProofs.step_preserves_inv T teqb hc teqb_spec). Qed.

  (* ---- R3 ---- *)
  Theorem state_ok_stable : forall w w' st,
    disk_inv teqb hc w -> step teqb hc w w' -> state_ok teqb hc w st -> state_ok teqb hc w' st.
  Proof. exact (InvProofs.state_ok_stable T teqb hc teqb_spec). Qed.

  Theorem state_ok_stable_steps : forall w w' st,
    disk_inv teqb hc w -> steps teqb hc w w' -> state_ok teqb hc w st -> state_ok teqb hc w' st.
  Proof. exact (InvProofs.state_ok_stable_steps T teqb hc teqb_spec). Qed.

  (* ---- R4 ---- *)
  Theorem steps_preserve_inv : forall w w', disk_inv teqb hc w -> steps teqb hc w w' -> disk_inv teqb hc w'.
  Proof. exact (InvProofs.steps_preserve_inv T teqb hc teqb_spec). Qed.

  (* ---- R5 ---- *)
  Theorem c07_cache_content_addressed : forall w w',
    disk_inv teqb hc w -> steps teqb hc w w' -> cache_addressed teqb hc w'.
  Proof. exact (InvProofs.c07_cache_content_addressed T teqb hc teqb_spec). Qed.

  Theorem c07_init : forall t0, disk_inv teqb hc (init_world Fine t0).
  Proof. exact (InvProofs.c07_init T teqb hc). Qed.

  (* ---- R6 (hc injective is needed here only) ---- *)
  Theorem own_step_on_own_step : forall paths w w', own_step_on T teqb hc paths w w' -> own_step teqb hc w w'.
  Proof. exact (InvProofs.own_step_on_own_step T teqb hc). Qed.

  Theorem own_step_own_step_on : forall paths w w',
    own_step teqb hc w w' ->
    own_step_on T teqb hc paths w w' \/
    exists t p, ~ In p paths /\ fget w p = None /\ restore teqb w t p = RDone w'.
  Proof. exact (InvProofs.own_step_own_step_on T teqb hc). Qed.

  (* own_step_on paths = own_step with ORestore restricted to In p paths *)
  Theorem c08_own_step_keeps_content :
    (forall a b, hc a = hc b -> a = b) ->
    forall paths w w' c,
      disk_inv teqb hc w -> own_step_on T teqb hc paths w w' ->
      protected_content teqb paths w c -> protected_content teqb paths w' c.
  Proof. exact (InvProofs.c08_own_step_keeps_content T teqb hc teqb_spec). Qed.

  (* for unrestricted own_step: protected content stays protected, or it now sits at a path outside
     `paths` that was empty before *)
  Theorem c08_own_step_content_general :
    (forall a b, hc a = hc b -> a = b) ->
    forall paths w w' c,
      disk_inv teqb hc w -> own_step teqb hc w w' -> protected_content teqb paths w c ->
      protected_content teqb paths w' c \/
      exists p f, ~ In p paths /\ fget w p = None /\ fget w' p = Some f /\ f_content f = c.
  Proof. exact (InvProofs.c08_own_step_content_general T teqb hc teqb_spec). Qed.

  (* own_step_is_step is FALSE as stated (own_step_is_step_refuted below): OWriteTable has no premise.
     What holds: an own step is a step provided that, if it is a table write, the table is sound.
     Missing for the full statement: the premise of SWriteTable in the constructor OWriteTable. *)
  Theorem own_step_is_step_partial : forall w w',
    own_step teqb hc w w' ->
    (forall tbl, w' = write_table T w tbl ->
                 forall p st, alookup bytes_eqb tbl p = Some st -> state_ok teqb hc w st) ->
    step teqb hc w w'.
  Proof. exact (InvProofs.own_step_is_step_partial T teqb hc). Qed.

  (* every own step, whatever table it writes, keeps all of disk_inv except table_sound *)
  Theorem own_step_preserves_inv_partial : forall w w',
    disk_inv teqb hc w -> own_step teqb hc w w' ->
    w_mode w' = Fine /\ mt_unique teqb w' /\ clock_ok teqb w' /\ cache_addressed teqb hc w'.
  Proof. exact (InvProofs.own_step_preserves_inv_partial T teqb hc teqb_spec). Qed.

  (* ---- R7 ---- *)
  Theorem back_up_steps : forall w p assumed t w',
    state_ok teqb hc w assumed -> get_file_ticket teqb hc w p assumed = Some t ->
    back_up teqb w t p = Some w' -> steps teqb hc w w'.
  Proof. exact (InvProofs.back_up_steps T teqb hc). Qed.

  Theorem restore_steps : forall w t p w', restore teqb w t p = RDone w' -> steps teqb hc w w'.
  Proof. exact (InvProofs.restore_steps T teqb hc). Qed.

  Theorem resolve_single_steps : forall w rem p assumed res w',
    state_ok teqb hc w assumed -> resolve_single teqb hc w rem p assumed = Ok (res, w') -> steps teqb hc w w'.
  Proof. exact (InvProofs.resolve_single_steps T teqb hc). Qed.

  Theorem resolve_remembered_steps : forall b w rem ress w',
    disk_inv teqb hc w -> blob_ok T teqb hc w b ->
    resolve_remembered teqb hc w b rem = Ok (ress, w') -> steps teqb hc w w'.
  Proof. exact (InvProofs.resolve_remembered_steps T teqb hc teqb_spec). Qed.

  Theorem resolve_fresh_steps : forall b w ress w',
    disk_inv teqb hc w -> blob_ok T teqb hc w b ->
    resolve_fresh teqb hc w b = Ok (ress, w') -> steps teqb hc w w'.
  Proof. exact (InvProofs.resolve_fresh_steps T teqb hc teqb_spec). Qed.

  Theorem run_script_steps : forall lines w codes w', run_script w lines = (codes, w') -> steps teqb hc w w'.
  Proof. exact (InvProofs.run_script_steps T teqb hc). Qed.

  Theorem handle_rule_steps : forall w b h st cmd res w' script,
    disk_inv teqb hc w -> blob_ok T teqb hc w b ->
    handle_rule teqb hc w b h st cmd = (res, w', script) -> steps teqb hc w w'.
  Proof. exact (InvProofs.handle_rule_steps T teqb hc teqb_spec). Qed.

  Theorem handle_rule_blob_ok : forall w b h st cmd wr w' script,
    disk_inv teqb hc w -> blob_ok T teqb hc w b ->
    handle_rule teqb hc w b h st cmd = (Ok wr, w', script) -> blob_ok T teqb hc w' (wr_blob wr).
  Proof. exact (InvProofs.handle_rule_blob_ok T teqb hc teqb_spec). Qed.

  Theorem clean_targets_steps : forall b w w',
    disk_inv teqb hc w -> blob_ok T teqb hc w b -> clean_targets teqb hc w b = Ok w' -> steps teqb hc w w'.
  Proof. exact (InvProofs.clean_targets_steps T teqb hc teqb_spec). Qed.

  Variable hl : list T -> T.
  Variable hr : rule -> T.

  Theorem build_steps : forall w rp goal,
    disk_inv teqb hc w -> steps teqb hc w (o_world (build teqb hc hl hr w rp goal)).
  Proof. exact (InvProofs.build_steps T teqb hc teqb_spec hl hr). Qed.

  Theorem clean_steps : forall w rp goal,
    disk_inv teqb hc w -> steps teqb hc w (o_world (clean teqb hc w rp goal)).
  Proof. exact (InvProofs.clean_steps T teqb hc teqb_spec). Qed.

  (* ---- R8 ---- *)
  Theorem reach_inv : forall t0 (ops : list (op T)),
    Forall (safe_op T) ops ->
    disk_inv teqb hc (fold_left (fun w o => fst (apply_op teqb hc hl hr w o)) ops (init_world Fine t0)).
  Proof. exact (InvProofs.reach_inv T teqb hc teqb_spec hl hr). Qed.

  Theorem c07_every_history : forall t0 (ops : list (op T)),
    Forall (safe_op T) ops ->
    cache_addressed teqb hc (fold_left (fun w o => fst (apply_op teqb hc hl hr w o)) ops (init_world Fine t0)).
  Proof. exact (InvProofs.c07_every_history T teqb hc teqb_spec hl hr). Qed.
End Results.

(* ---- the instance with free symbolic hashes: closed statements ---- *)

Theorem c07_cache_content_addressed_sym : forall w w' : world sym,
  disk_inv sym_eqb SContent w -> steps sym_eqb SContent w w' -> cache_addressed sym_eqb SContent w'.
Proof. exact (c07_cache_content_addressed sym sym_eqb SContent sym_eqb_spec). Qed.

Theorem c07_init_sym : forall t0, disk_inv sym_eqb SContent (init_world Fine t0).
Proof. exact (c07_init sym sym_eqb SContent). Qed.

Theorem c08_own_step_keeps_content_sym : forall paths (w w' : world sym) c,
  disk_inv sym_eqb SContent w -> own_step_on sym sym_eqb SContent paths w w' ->
  protected_content sym_eqb paths w c -> protected_content sym_eqb paths w' c.
Proof. exact (c08_own_step_keeps_content sym sym_eqb SContent sym_eqb_spec SContent_inj). Qed.

Theorem c08_own_step_content_general_sym : forall paths (w w' : world sym) c,
  disk_inv sym_eqb SContent w -> own_step sym_eqb SContent w w' -> protected_content sym_eqb paths w c ->
  protected_content sym_eqb paths w' c \/
  exists p f, ~ In p paths /\ fget w p = None /\ fget w' p = Some f /\ f_content f = c.
Proof. exact (c08_own_step_content_general sym sym_eqb SContent sym_eqb_spec SContent_inj). Qed.

Theorem build_steps_sym : forall (w : world sym) rp goal,
  disk_inv sym_eqb SContent w ->
  steps sym_eqb SContent w (o_world (build sym_eqb SContent SList SRule w rp goal)).
Proof. exact (build_steps sym sym_eqb SContent sym_eqb_spec SList SRule). Qed.

Theorem clean_steps_sym : forall (w : world sym) rp goal,
  disk_inv sym_eqb SContent w ->
  steps sym_eqb SContent w (o_world (clean sym_eqb SContent w rp goal)).
Proof. exact (clean_steps sym sym_eqb SContent sym_eqb_spec). Qed.

Theorem reach_inv_sym : forall t0 (ops : list (op sym)),
  Forall (safe_op sym) ops ->
  disk_inv sym_eqb SContent
    (fold_left (fun w o => fst (apply_op sym_eqb SContent SList SRule w o)) ops (init_world Fine t0)).
Proof. exact (reach_inv sym sym_eqb SContent sym_eqb_spec SList SRule). Qed.

Theorem c07_every_history_sym : forall t0 (ops : list (op sym)),
  Forall (safe_op sym) ops ->
  cache_addressed sym_eqb SContent
    (fold_left (fun w o => fst (apply_op sym_eqb SContent SList SRule w o)) ops (init_world Fine t0)).
Proof. exact (c07_every_history sym sym_eqb SContent sym_eqb_spec SList SRule). Qed.

(* refuted, see above: own_step_is_step_refuted, c08_own_step_keeps_content_literal_refuted *)
