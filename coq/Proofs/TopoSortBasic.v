(* Facts about the topological sorter model that need no machine invariant:
   - rule_leb is a total, transitive, antisymmetric order  => toposort is permutation invariant (R1)
   - a decreasing measure for dfs_loop                      => the fuel never runs out (R2) *)
From Coq Require Import List Permutation Bool Arith.
From Ruler Require Import Tactics Bytes SortList BytesFacts SortListFacts RuleSyntax TopoSort.
Import ListNotations.
Local Open Scope nat_scope.

(* ================================================================== *)
(* lexicographic comparison of lists                                   *)
(* ================================================================== *)

Section ListCompare.
  Context {A : Type}.
  Variable cmp : A -> A -> comparison.
  Hypothesis cmp_eq : forall a b, cmp a b = Eq <-> a = b.
  Hypothesis cmp_antisym : forall a b, cmp b a = CompOpp (cmp a b).
  Hypothesis cmp_lt_trans : forall a b c, cmp a b = Lt -> cmp b c = Lt -> cmp a c = Lt.

  Lemma list_compare_eq l1 l2 : list_compare cmp l1 l2 = Eq <-> l1 = l2.
  Proof.
    revert l2; induction l1 as [|x l1 IH]; intros [|y l2]; cbn [list_compare]; split; intro H;
      try reflexivity; try discriminate.
    - destruct (cmp x y) eqn:E; try discriminate. apply cmp_eq in E. apply IH in H. congruence.
    - injection H as -> ->. destruct (cmp y y) eqn:E.
      + apply IH; reflexivity.
      + assert (cmp y y = Eq) as E' by (apply cmp_eq; reflexivity). congruence.
      + assert (cmp y y = Eq) as E' by (apply cmp_eq; reflexivity). congruence.
  Qed.

  Lemma list_compare_antisym l1 l2 : list_compare cmp l2 l1 = CompOpp (list_compare cmp l1 l2).
  Proof.
    revert l2; induction l1 as [|x l1 IH]; intros [|y l2]; cbn [list_compare]; try reflexivity.
    rewrite (cmp_antisym x y). destruct (cmp x y); cbn [CompOpp]; auto.
  Qed.

  Lemma list_compare_lt_trans l1 l2 l3 :
    list_compare cmp l1 l2 = Lt -> list_compare cmp l2 l3 = Lt -> list_compare cmp l1 l3 = Lt.
  Proof.
    revert l2 l3; induction l1 as [|x l1 IH]; intros [|y l2] [|z l3]; cbn [list_compare]; intros H1 H2;
      try reflexivity; try discriminate.
    destruct (cmp x y) eqn:Exy; try discriminate.
    - apply cmp_eq in Exy; subst y.
      destruct (cmp x z) eqn:Exz; try discriminate; auto. eapply IH; eauto.
    - destruct (cmp y z) eqn:Eyz; try discriminate.
      + apply cmp_eq in Eyz; subst z. rewrite Exy; reflexivity.
      + rewrite (cmp_lt_trans _ _ _ Exy Eyz). reflexivity.
  Qed.
End ListCompare.

Lemma strs_compare_eq a b : strs_compare a b = Eq <-> a = b.
Proof. apply list_compare_eq, bytes_compare_eq. Qed.

Lemma strs_compare_antisym a b : strs_compare b a = CompOpp (strs_compare a b).
Proof. apply list_compare_antisym, bytes_compare_antisym. Qed.

Lemma strs_compare_lt_trans a b c :
  strs_compare a b = Lt -> strs_compare b c = Lt -> strs_compare a c = Lt.
Proof.
  apply list_compare_lt_trans; [apply bytes_compare_eq | apply bytes_compare_lt_trans].
Qed.

Lemma strs_compare_refl a : strs_compare a a = Eq.
Proof. apply strs_compare_eq; reflexivity. Qed.

(* ---------- rules ---------- *)

Lemma rule_compare_eq a b : rule_compare a b = Eq <-> a = b.
Proof.
  unfold rule_compare. split.
  - intro H.
    destruct (strs_compare (r_targets a) (r_targets b)) eqn:E1; try discriminate.
    destruct (strs_compare (r_sources a) (r_sources b)) eqn:E2; try discriminate.
    apply strs_compare_eq in E1, E2, H. destruct a, b; cbn in *; congruence.
  - intros ->. rewrite !strs_compare_refl. reflexivity.
Qed.

Lemma rule_compare_antisym a b : rule_compare b a = CompOpp (rule_compare a b).
Proof.
  unfold rule_compare.
  rewrite (strs_compare_antisym (r_targets a) (r_targets b)).
  rewrite (strs_compare_antisym (r_sources a) (r_sources b)).
  rewrite (strs_compare_antisym (r_command a) (r_command b)).
  destruct (strs_compare (r_targets a) (r_targets b)); cbn [CompOpp]; auto.
  destruct (strs_compare (r_sources a) (r_sources b)); cbn [CompOpp]; auto.
Qed.

Lemma rule_compare_lt_trans a b c :
  rule_compare a b = Lt -> rule_compare b c = Lt -> rule_compare a c = Lt.
Proof.
  unfold rule_compare. intros H1 H2.
  destruct (strs_compare (r_targets a) (r_targets b)) eqn:T1; try discriminate;
  destruct (strs_compare (r_targets b) (r_targets c)) eqn:T2; try discriminate.
  - apply strs_compare_eq in T1, T2. rewrite T1, T2, strs_compare_refl.
    destruct (strs_compare (r_sources a) (r_sources b)) eqn:S1; try discriminate;
    destruct (strs_compare (r_sources b) (r_sources c)) eqn:S2; try discriminate.
    + apply strs_compare_eq in S1, S2. rewrite S1, S2, strs_compare_refl.
      eapply strs_compare_lt_trans; eauto.
    + apply strs_compare_eq in S1. rewrite S1, S2. reflexivity.
    + apply strs_compare_eq in S2. rewrite <- S2, S1. reflexivity.
    + rewrite (strs_compare_lt_trans _ _ _ S1 S2). reflexivity.
  - apply strs_compare_eq in T1. rewrite T1, T2. reflexivity.
  - apply strs_compare_eq in T2. rewrite <- T2, T1. reflexivity.
  - rewrite (strs_compare_lt_trans _ _ _ T1 T2). reflexivity.
Qed.

Lemma rule_leb_total a b : rule_leb a b = true \/ rule_leb b a = true.
Proof.
  unfold rule_leb. rewrite (rule_compare_antisym a b).
  destruct (rule_compare a b); cbn [CompOpp]; auto.
Qed.

Lemma rule_leb_trans a b c : rule_leb a b = true -> rule_leb b c = true -> rule_leb a c = true.
Proof.
  unfold rule_leb. intros H1 H2.
  destruct (rule_compare a b) eqn:E1; try discriminate;
  destruct (rule_compare b c) eqn:E2; try discriminate.
  - apply rule_compare_eq in E1; subst. rewrite E2; reflexivity.
  - apply rule_compare_eq in E1; subst. rewrite E2; reflexivity.
  - apply rule_compare_eq in E2; subst. rewrite E1; reflexivity.
  - rewrite (rule_compare_lt_trans _ _ _ E1 E2); reflexivity.
Qed.

Lemma rule_leb_antisym a b : rule_leb a b = true -> rule_leb b a = true -> a = b.
Proof.
  unfold rule_leb. rewrite (rule_compare_antisym a b).
  destruct (rule_compare a b) eqn:E; cbn [CompOpp]; try discriminate; intros _ H; try discriminate.
  apply rule_compare_eq; assumption.
Qed.

Lemma sort_rules_perm_invariant rs rs' : Permutation rs rs' -> sort_rules rs = sort_rules rs'.
Proof.
  apply sort_perm_invariant; [apply rule_leb_total | apply rule_leb_trans | apply rule_leb_antisym].
Qed.

Lemma sort_rules_perm rs : Permutation (sort_rules rs) rs.
Proof. apply sort_perm. Qed.

Lemma sort_rules_in r rs : In r (sort_rules rs) <-> In r rs.
Proof. apply sort_in. Qed.

Lemma sort_strs_perm l : Permutation (sort_strs l) l.
Proof. apply sort_perm. Qed.

Lemma sort_strs_in x l : In x (sort_strs l) <-> In x l.
Proof. apply sort_in. Qed.

(* R1 *)
Theorem toposort_order_invariant rs rs' goal :
  Permutation rs rs' -> toposort rs goal = toposort rs' goal.
Proof.
  intros P. unfold toposort, rules_to_frame_buffer.
  rewrite (sort_rules_perm_invariant _ _ P). reflexivity.
Qed.

(* ================================================================== *)
(* R2: the fuel is sufficient                                          *)
(* ================================================================== *)

Fixpoint count_some {A} (l : list (option A)) : nat :=
  match l with
  | [] => 0
  | Some _ :: r => S (count_some r)
  | None :: r => count_some r
  end.

Lemma count_some_le {A} (l : list (option A)) : count_some l <= length l.
Proof. induction l as [|[x|] l IH]; cbn [count_some length]; lia. Qed.

Lemma take_at_length {A} (l : list (option A)) i : length (snd (take_at l i)) = length l.
Proof.
  revert i; induction l as [|x l IH]; intros [|i]; cbn [take_at length snd]; try reflexivity.
  specialize (IH i). destruct (take_at l i) as [y r']. cbn [snd length] in *. lia.
Qed.

Lemma take_at_count_some {A} (l : list (option A)) i f l' :
  take_at l i = (Some f, l') -> S (count_some l') = count_some l.
Proof.
  revert i l'; induction l as [|x l IH]; intros [|i] l' H; cbn [take_at] in H; try discriminate.
  - injection H as -> <-. reflexivity.
  - destruct (take_at l i) as [y r'] eqn:E. injection H as -> <-.
    specialize (IH _ _ E). destruct x; cbn [count_some]; lia.
Qed.

Definition fweight (f : frame) : nat := if fr_visited f then 1 else 2.
Definition sweight (l : list frame) : nat := list_sum (map fweight l).

Lemma sweight_app a b : sweight (a ++ b) = sweight a + sweight b.
Proof. unfold sweight. rewrite map_app, list_sum_app. reflexivity. Qed.

Lemma sweight_cons f l : sweight (f :: l) = fweight f + sweight l.
Proof. reflexivity. Qed.

Lemma fweight_set_sub f s : fweight (set_sub f s) = fweight f.
Proof. reflexivity. Qed.

Lemma sweight_snoc l f s : sweight (l ++ [set_sub f s]) = sweight l + fweight f.
Proof. rewrite sweight_app, sweight_cons, fweight_set_sub. change (sweight []) with 0. lia. Qed.

Lemma fweight_le f : fweight f <= 2.
Proof. unfold fweight. destruct (fr_visited f); lia. Qed.

Lemma remove_pending_sweight bi st f st' :
  remove_pending bi st = Some (f, st') -> sweight st = fweight f + sweight st'.
Proof.
  revert f st'; induction st as [|g st IH]; intros f st' H; cbn [remove_pending] in H; [discriminate|].
  destruct (Nat.eqb (fr_index g) bi && negb (fr_visited g)).
  - injection H as -> ->. reflexivity.
  - destruct (remove_pending bi st) as [[h r']|] eqn:E; [|discriminate].
    injection H as -> <-. rewrite !sweight_cons. rewrite (IH _ _ eq_refl). lia.
Qed.

Definition not_fuel (e : sort_err) : Prop := e <> SortOutOfFuel.

Lemma expand_sources_measure cur srcs : forall stack in_stack m reverser,
  match expand_sources cur stack in_stack srcs m reverser with
  | Ok (m', reverser', stack', _) =>
      2 * count_some (m_buffer m') + sweight reverser' + sweight stack'
      <= 2 * count_some (m_buffer m) + sweight reverser + sweight stack
      /\ length (m_buffer m') = length (m_buffer m)
  | Err e => e <> SortOutOfFuel
  end.
Proof.
  induction srcs as [|s rest IH]; intros stack in_stack m reverser; cbn [expand_sources].
  - split; lia.
  - destruct (tbi_get (m_tbi m) s) as [[bi si]|] eqn:Et.
    + destruct (take_at (m_buffer m) bi) as [[f|] buf'] eqn:Etk.
      * specialize (IH stack in_stack (mk_machine buf' (m_final m) (m_leaves m) (m_order m) (m_tbi m))
                       (reverser ++ [set_sub f si])).
        destruct (expand_sources _ _ _ rest _ _) as [[[[m' r'] s'] i']|e]; [|exact IH].
        cbn [m_buffer] in IH. destruct IH as [IH1 IH2].
        pose proof (take_at_count_some _ _ _ _ Etk) as Hc.
        pose proof (take_at_length (m_buffer m) bi) as Hl. rewrite Etk in Hl. cbn [snd] in Hl.
        rewrite sweight_snoc in IH1. pose proof (fweight_le f). split; lia.
      * destruct (Nat.eqb (fr_index cur) bi); [discriminate|].
        destruct (nat_mem bi in_stack).
        -- destruct (remove_pending bi stack) as [[f stack']|] eqn:Er; [|discriminate].
           specialize (IH stack' (nat_remove bi in_stack) m (reverser ++ [set_sub f si])).
           destruct (expand_sources _ _ _ rest _ _) as [[[[m' r'] s'] i']|e]; [|exact IH].
           destruct IH as [IH1 IH2].
           rewrite sweight_snoc in IH1.
           pose proof (remove_pending_sweight _ _ _ _ Er). split; lia.
        -- apply IH.
    + specialize (IH stack in_stack
                     (mk_machine (m_buffer m) (m_final m) (set_insert s (m_leaves m)) (m_order m) (m_tbi m))
                     reverser).
      destruct (expand_sources _ _ _ rest _ _) as [[[[m' r'] s'] i']|e]; [|exact IH].
      exact IH.
Qed.

Lemma dfs_loop_fuel fuel : forall m stack in_stack,
  2 * count_some (m_buffer m) + sweight stack <= fuel ->
  match dfs_loop fuel m stack in_stack with
  | Ok m' => length (m_buffer m') = length (m_buffer m)
  | Err e => e <> SortOutOfFuel
  end.
Proof.
  induction fuel as [|fuel IH]; intros m stack in_stack Hm.
  - destruct stack as [|cur stack']; cbn [dfs_loop]; [reflexivity|].
    rewrite sweight_cons in Hm. unfold fweight in Hm. destruct (fr_visited cur); lia.
  - destruct stack as [|cur stack']; cbn [dfs_loop]; [reflexivity|].
    rewrite sweight_cons in Hm. unfold fweight in Hm.
    destruct (fr_visited cur) eqn:Ev.
    + match goal with |- match dfs_loop _ ?mm ?ss ?ii with _ => _ end => specialize (IH mm ss ii) end.
      cbn [m_buffer] in IH. apply IH. lia.
    + pose proof (expand_sources_measure cur (r_sources (fr_rule cur)) stack'
                    (nat_remove (fr_index cur) in_stack) m []) as He.
      destruct (expand_sources _ _ _ _ _ _) as [[[[m' r'] s'] i']|e]; [|exact He].
      destruct He as [He Hl].
      match goal with |- match dfs_loop _ ?mm ?ss ?ii with _ => _ end => specialize (IH mm ss ii) end.
      rewrite <- Hl. apply IH.
      rewrite sweight_app, sweight_cons. unfold fweight at 1. cbn [visit fr_visited].
      change (sweight []) with 0 in He. lia.
Qed.

Lemma sort_once_fuel m index sub :
  match sort_once m index sub with
  | Ok m' => length (m_buffer m') = length (m_buffer m)
  | Err e => e <> SortOutOfFuel
  end.
Proof.
  unfold sort_once.
  destruct (take_at (m_buffer m) index) as [[f|] buf'] eqn:Etk; [|reflexivity].
  pose proof (take_at_count_some _ _ _ _ Etk) as Hc.
  pose proof (take_at_length (m_buffer m) index) as Hl. rewrite Etk in Hl. cbn [snd] in Hl.
  pose proof (count_some_le (m_buffer m)) as Hle.
  match goal with |- match dfs_loop ?ff ?mm ?ss ?ii with _ => _ end =>
    pose proof (dfs_loop_fuel ff mm ss ii) as H end.
  cbn [m_buffer] in H. rewrite Hl in H. apply H.
  rewrite sweight_cons, fweight_set_sub. change (sweight []) with 0. pose proof (fweight_le f). lia.
Qed.

Lemma sort_all_from_fuel fuel : forall m index, sort_all_from fuel m index <> Err SortOutOfFuel.
Proof.
  induction fuel as [|fuel IH]; intros m index; cbn [sort_all_from]; [discriminate|].
  pose proof (sort_once_fuel m index 0) as H.
  destruct (sort_once m index 0) as [m'|e]; [apply IH|]. congruence.
Qed.

Lemma add_targets_not_fuel ts : forall m bi sub, add_targets m bi sub ts <> Err SortOutOfFuel.
Proof.
  induction ts as [|t ts IH]; intros m bi sub; cbn [add_targets]; [discriminate|].
  destruct (tbi_get m t); [discriminate | apply IH].
Qed.

Lemma frames_of_not_fuel rs : forall m bi acc, frames_of m bi rs acc <> Err SortOutOfFuel.
Proof.
  induction rs as [|r rs IH]; intros m bi acc; cbn [frames_of]; [discriminate|].
  pose proof (add_targets_not_fuel (r_targets (canon_rule r)) m bi 0) as H.
  destruct (add_targets m bi 0 (r_targets (canon_rule r))) as [m'|e]; [apply IH | congruence].
Qed.

(* R2 *)
Theorem toposort_total rs goal : toposort rs goal <> Err SortOutOfFuel.
Proof.
  unfold toposort, rules_to_frame_buffer.
  pose proof (frames_of_not_fuel (sort_rules rs) [] 0 []) as Hf.
  destruct (frames_of [] 0 (sort_rules rs) []) as [[buf t]|e]; [|congruence].
  destruct goal as [g|].
  - destruct (tbi_get t g) as [[index sub]|]; [|discriminate].
    pose proof (sort_once_fuel (mk_machine buf [] [] [] t) index sub) as H.
    destruct (sort_once _ index sub) as [m|e]; [discriminate | congruence].
  - pose proof (sort_all_from_fuel (length buf) (mk_machine buf [] [] [] t) 0) as H.
    destruct (sort_all_from _ _ 0) as [m|e]; [discriminate | congruence].
Qed.
