(* C18 under the COARSE clock: the results (K3 - K6), the pre-repair build on which the property fails (K5),
   and a concrete history (two files written by one build share a modification time, one of them is later
   restored into the other's path) on which everything is checked by computation. *)
From Coq Require Import String.
From Ruler Require Import Tactics Bytes AList RuleSyntax Parser TopoSort World Cmdlang Work Build Ops Inv BuildSpec Ideal
     BytesFacts InvFacts BuildFacts C01Build C01Plan C01Facts C18Facts CoarseInv C18Coarse CoarseBuild.
From Ruler Require Legacy.
Local Open Scope N_scope.

Notation build_confined := CoarseBuildProofs.build_confined.
Notation op_confined := CoarseBuildProofs.op_confined.
Notation confined_history := CoarseBuildProofs.confined_history.

(* ================================================================== *)
(* ==== RESULTS (K3, K4) ==== *)
(* ================================================================== *)

Section Results.
  Variable T : Type.
  Variable teqb : T -> T -> bool.
  Variable hc : bytes -> T.
  Variable hl : list T -> T.
  Variable hr : rule -> T.
  Hypothesis teqb_spec : forall a b, teqb a b = true <-> a = b.

  Local Notation apply_op := (apply_op teqb hc hl hr).
  Local Notation run_ops ops w0 := (fold_left (fun w o => fst (apply_op w o)) ops w0).

  (* what op_confined and confined_history say *)
  Theorem op_confined_unfold : forall (w : world T) (o : op T),
    op_confined T w o <->
    match o with
    | OBuild goal =>
        forall w1 tbl pack, init_dir T w = Ok (w1, tbl) -> get_nodes T w1 RULES_PATH goal = Ok pack ->
                            Forall node_confined (p_nodes pack)
    | OMove _ _ => False      (* the user's mv is outside the coarse theorems: see coarse_inv_mv_refuted below *)
    | _ => True
    end.
  Proof. intros w o. destruct o; reflexivity. Qed.

  Theorem confined_history_unfold : forall (w : world T) (ops : list (op T)),
    confined_history T teqb hc hl hr w ops <->
    match ops with
    | [] => True
    | o :: rest => safe_op T o /\ op_confined T w o /\ confined_history T teqb hc hl hr (fst (apply_op w o)) rest
    end.
  Proof. intros w ops. destruct ops; reflexivity. Qed.

  (* ---- K3 ---- *)
  Theorem coarse_inv_init : forall mode t0, coarse_inv teqb hc (init_world mode t0).
  Proof. intros mode t0. apply CoarseBuildProofs.coarse_inv_init_main. Qed.

  Theorem coarse_inv_apply_op : forall (w : world T) (o : op T),
    coarse_inv teqb hc w -> safe_op T o -> op_confined T w o -> coarse_inv teqb hc (fst (apply_op w o)).
  Proof. exact (CoarseBuildProofs.coarse_inv_apply_op_main T teqb hc hl hr teqb_spec). Qed.

  Theorem coarse_inv_every_history : forall mode t0 (ops : list (op T)),
    confined_history T teqb hc hl hr (init_world mode t0) ops ->
    coarse_inv teqb hc (run_ops ops (init_world mode t0)).
  Proof.
    intros mode t0 ops Hh. apply (CoarseBuildProofs.coarse_inv_history T teqb hc hl hr teqb_spec); [|exact Hh].
    apply CoarseBuildProofs.coarse_inv_init_main.
  Qed.

  (* what a build / a clean leaves before the tick *)
  Theorem coarse_build_pre_inv : forall (w : world T) rp goal,
    coarse_inv teqb hc w ->
    (forall w1 tbl pack, init_dir T w = Ok (w1, tbl) -> get_nodes T w1 rp goal = Ok pack ->
                         Forall node_confined (p_nodes pack)) ->
    pre_inv teqb hc (o_world (build teqb hc hl hr w rp goal)).
  Proof. exact (CoarseBuildProofs.build_pre_inv T teqb hc hl hr teqb_spec). Qed.

  Theorem coarse_clean_pre_inv : forall (w : world T) rp goal,
    coarse_inv teqb hc w -> pre_inv teqb hc (o_world (clean teqb hc w rp goal)).
  Proof. exact (CoarseBuildProofs.clean_pre_inv T teqb hc teqb_spec). Qed.

  (* one rule thread, without any hypothesis on its command *)
  Theorem coarse_handle_rule : forall (w : world T) b h st cmd res w' s,
    NoDup (map fst b) -> blob_held teqb hc w b -> handle_rule teqb hc w b h st cmd = (res, w', s) ->
    w_clock w <= w_clock w' /\ (inflight teqb hc w -> inflight teqb hc w') /\
    (inflight teqb hc w -> forall wr, res = Ok wr -> blob_done teqb hc w' (wr_blob wr)).
  Proof. exact (CoarseProofs.handle_rule_coarse T teqb hc teqb_spec). Qed.

  (* ---- K4 ---- *)
  Theorem c18_every_history_any_clock : forall mode t0 (ops : list (op T)) goal,
    confined_history T teqb hc hl hr (init_world mode t0) ops ->
    build_confined T (run_ops ops (init_world mode t0)) goal ->
    let w := run_ops ops (init_world mode t0) in
    let o1 := build teqb hc hl hr w RULES_PATH goal in
    let o2 := build teqb hc hl hr (erase_table T w) RULES_PATH goal in
    o_verdict o1 = o_verdict o2 /\ w_files (o_world o1) = w_files (o_world o2) /\
    rd_cache (w_rd (o_world o1)) = rd_cache (w_rd (o_world o2)) /\
    rd_hist (w_rd (o_world o1)) = rd_hist (w_rd (o_world o2)) /\
    o_commands o1 = o_commands o2 /\ o_status o1 = o_status o2.
  Proof.
    intros mode t0 ops goal Hh Hc. apply (c18_coarse T teqb hc hl hr teqb_spec); [|exact Hc].
    apply coarse_inv_every_history; assumption.
  Qed.

  Theorem c18_coarse_every_history : forall t0 (ops : list (op T)) goal,
    confined_history T teqb hc hl hr (init_world Coarse t0) ops ->
    build_confined T (run_ops ops (init_world Coarse t0)) goal ->
    let w := run_ops ops (init_world Coarse t0) in
    let o1 := build teqb hc hl hr w RULES_PATH goal in
    let o2 := build teqb hc hl hr (erase_table T w) RULES_PATH goal in
    o_verdict o1 = o_verdict o2 /\ w_files (o_world o1) = w_files (o_world o2) /\
    rd_cache (w_rd (o_world o1)) = rd_cache (w_rd (o_world o2)) /\
    rd_hist (w_rd (o_world o1)) = rd_hist (w_rd (o_world o2)) /\
    o_commands o1 = o_commands o2 /\ o_status o1 = o_status o2.
  Proof. exact (c18_every_history_any_clock Coarse). Qed.

  Theorem c18_coarse_clean_every_history : forall t0 (ops : list (op T)) goal,
    confined_history T teqb hc hl hr (init_world Coarse t0) ops ->
    let w := run_ops ops (init_world Coarse t0) in
    let o1 := clean teqb hc w RULES_PATH goal in
    let o2 := clean teqb hc (erase_table T w) RULES_PATH goal in
    o_verdict o1 = o_verdict o2 /\ w_files (o_world o1) = w_files (o_world o2) /\
    rd_cache (w_rd (o_world o1)) = rd_cache (w_rd (o_world o2)) /\
    rd_hist (w_rd (o_world o1)) = rd_hist (w_rd (o_world o2)) /\
    o_commands o1 = o_commands o2 /\ o_status o1 = o_status o2.
  Proof.
    intros t0 ops goal Hh. apply (c18_coarse_clean T teqb hc teqb_spec).
    apply coarse_inv_every_history; assumption.
  Qed.

  (* stronger than K2: ANY two tables that are sound per path and older than the clock (absent or readable)
     give the same build; no hypothesis on the commands *)
  Theorem c18_coarse_table_irrelevant : forall (w : world T) x rp goal,
    coarse_inv teqb hc w -> coarse_inv teqb hc (with_table T w x) ->
    rd_table (w_rd w) <> Some SF_bad -> x <> Some SF_bad ->
    let o1 := build teqb hc hl hr w rp goal in
    let o2 := build teqb hc hl hr (with_table T w x) rp goal in
    o_verdict o1 = o_verdict o2 /\ w_files (o_world o1) = w_files (o_world o2) /\
    rd_cache (w_rd (o_world o1)) = rd_cache (w_rd (o_world o2)) /\
    rd_hist (w_rd (o_world o1)) = rd_hist (w_rd (o_world o2)) /\
    o_commands o1 = o_commands o2 /\ o_status o1 = o_status o2.
  Proof.
    intros w x rp goal Hinv Hinv' Hb Hb'.
    destruct (C18Proofs.init_dir_wt T w x Hb Hb') as (w1 & t & x' & t' & E1 & E2). cbv zeta.
    rewrite !C18Proofs.build_eq', E1, E2.
    apply (C18CoarseProofs.build_from_tr T teqb hc hl hr teqb_spec).
    - destruct (CoarseBuildProofs.init_dir_coarse T teqb hc _ _ _ Hinv E1) as (_ & H & _). exact H.
    - destruct (CoarseBuildProofs.init_dir_coarse T teqb hc _ _ _ Hinv' E2) as (_ & H & _). exact H.
  Qed.

  Lemma confined_history_firstn : forall (ops : list (op T)) (w : world T) k,
    confined_history T teqb hc hl hr w ops -> confined_history T teqb hc hl hr w (firstn k ops).
  Proof.
    induction ops as [|o rest IH]; intros w k H; destruct k; cbn [firstn]; try exact I.
    destruct H as (H1 & H2 & H3). split; [exact H1|]. split; [exact H2|]. apply IH. exact H3.
  Qed.

  (* the invariant holds after every prefix of the history *)
  Theorem coarse_inv_throughout : forall mode t0 (ops : list (op T)) k,
    confined_history T teqb hc hl hr (init_world mode t0) ops ->
    coarse_inv teqb hc (run_ops (firstn k ops) (init_world mode t0)).
  Proof.
    intros mode t0 ops k Hh. apply coarse_inv_every_history.
    apply confined_history_firstn. exact Hh.
  Qed.
End Results.

(* ================================================================== *)
(* ==== K6: the instance with free symbolic hashes ==== *)
(* ================================================================== *)

Notation confined_history_sym := (confined_history sym sym_eqb SContent SList SRule).

Theorem coarse_shortcut_transparent_sym : forall (w : world sym) p st,
  state_ok_at sym_eqb SContent w p st ->
  get_file_ticket sym_eqb SContent w p st = option_map (fun f => SContent (f_content f)) (fget w p).
Proof. exact (coarse_shortcut_transparent sym sym_eqb SContent). Qed.

Theorem c18_coarse_sym : forall (w : world sym) rp goal,
  coarse_inv sym_eqb SContent w ->
  (forall w1 tbl pack, init_dir sym w = Ok (w1, tbl) -> get_nodes sym w1 rp goal = Ok pack ->
                       Forall node_confined (p_nodes pack)) ->
  let o1 := build_sym w rp goal in
  let o2 := build_sym (erase_table sym w) rp goal in
  o_verdict o1 = o_verdict o2 /\ w_files (o_world o1) = w_files (o_world o2) /\
  rd_cache (w_rd (o_world o1)) = rd_cache (w_rd (o_world o2)) /\
  rd_hist (w_rd (o_world o1)) = rd_hist (w_rd (o_world o2)) /\
  o_commands o1 = o_commands o2 /\ o_status o1 = o_status o2.
Proof. exact (c18_coarse sym sym_eqb SContent SList SRule sym_eqb_spec). Qed.

Theorem c18_coarse_clean_sym : forall (w : world sym) rp goal,
  coarse_inv sym_eqb SContent w ->
  let o1 := clean sym_eqb SContent w rp goal in
  let o2 := clean sym_eqb SContent (erase_table sym w) rp goal in
  o_verdict o1 = o_verdict o2 /\ w_files (o_world o1) = w_files (o_world o2) /\
  rd_cache (w_rd (o_world o1)) = rd_cache (w_rd (o_world o2)) /\
  rd_hist (w_rd (o_world o1)) = rd_hist (w_rd (o_world o2)) /\
  o_commands o1 = o_commands o2 /\ o_status o1 = o_status o2.
Proof. exact (c18_coarse_clean sym sym_eqb SContent sym_eqb_spec). Qed.

Theorem coarse_inv_init_sym : forall mode t0, coarse_inv sym_eqb SContent (init_world mode t0).
Proof. exact (coarse_inv_init sym sym_eqb SContent). Qed.

Theorem coarse_inv_apply_op_sym : forall (w : world sym) (o : op sym),
  coarse_inv sym_eqb SContent w -> safe_op sym o -> op_confined sym w o ->
  coarse_inv sym_eqb SContent (fst (apply_sym w o)).
Proof. exact (coarse_inv_apply_op sym sym_eqb SContent SList SRule sym_eqb_spec). Qed.

Theorem coarse_inv_every_history_sym : forall mode t0 (ops : list (op sym)),
  confined_history_sym (init_world mode t0) ops ->
  coarse_inv sym_eqb SContent (run_sym ops (init_world mode t0)).
Proof. exact (coarse_inv_every_history sym sym_eqb SContent SList SRule sym_eqb_spec). Qed.

Theorem c18_coarse_every_history_sym : forall t0 (ops : list (op sym)) goal,
  confined_history_sym (init_world Coarse t0) ops ->
  build_confined sym (run_sym ops (init_world Coarse t0)) goal ->
  let w := run_sym ops (init_world Coarse t0) in
  let o1 := build_sym w RULES_PATH goal in
  let o2 := build_sym (erase_table sym w) RULES_PATH goal in
  o_verdict o1 = o_verdict o2 /\ w_files (o_world o1) = w_files (o_world o2) /\
  rd_cache (w_rd (o_world o1)) = rd_cache (w_rd (o_world o2)) /\
  rd_hist (w_rd (o_world o1)) = rd_hist (w_rd (o_world o2)) /\
  o_commands o1 = o_commands o2 /\ o_status o1 = o_status o2.
Proof. exact (c18_coarse_every_history sym sym_eqb SContent SList SRule sym_eqb_spec). Qed.

(* ================================================================== *)
(* ==== K5: the build as it was before the repair of F4 ==== *)
(* ================================================================== *)

Section LegacyBuild.
  Variable T : Type.
  Variable teqb : T -> T -> bool.
  Variable hc : bytes -> T.
  Variable hl : list T -> T.
  Variable hr : rule -> T.

  (* work::handle_rule_node before fix d0a0e42: no forget_replaced, the blob goes on as it was taken *)
  Definition legacy_handle_rule (w : world T) (b : blob T) (h : Work.history T) (sources_ticket : T)
      (command : list bytes) : result (work_result T) work_err * world T * list bytes :=
    let resolved :=
      match alookup teqb h sources_ticket with
      | Some remembered => resolve_remembered teqb hc w b remembered
      | None => resolve_fresh teqb hc w b
      end in
    match resolved with
    | Err e => (Err e, w, [])
    | Ok (ress, w1) =>
        if needs_rebuild ress then
          let script := script_lines command in
          let (codes, w2) := run_script w1 script in
          match command_verdict codes with
          | Some e => (Err e, w2, script)
          | None =>
              match update_blob teqb hc w2 b with
              | Err p => (Err (WTargetNotGenerated p), w2, script)
              | Ok b' =>
                  let ts := map (fun e => fs_t (snd e)) b' in
                  match history_insert teqb h sources_ticket ts (map fst b) with
                  | Err e => (Err e, w2, script)
                  | Ok h' => (Ok (mk_wr ts b' CommandExecuted (Some h')), w2, script)
                  end
              end
          end
        else
          match current_tickets teqb hc w1 b with
          | Err p => (Err (WFileNotFound p), w1, [])
          | Ok ts => (Ok (mk_wr ts b (Resolutions ress) (Some h)), w1, [])
          end
    end.

  Definition legacy_run_node (st : run_state T) (n : node) : option (run_state T) :=
    let (b, t') := take_blob T hc (rs_table T st) (n_targets n) in
    match read_history T teqb hr (rs_world T st) (n_rule n) with
    | None => None
    | Some h =>
        match all_some (map (received T (rs_leaf_sent T st) (rs_node_sent T st)) (n_source_indices n)) with
        | None =>
            Some (mk_rs T (rs_world T st) t' (rs_leaf_sent T st) (rs_node_sent T st ++ [None])
                        (rs_results T st ++ [(Some (n_rule n), TCanceled)]) (rs_commands T st))
        | Some tickets =>
            match legacy_handle_rule (rs_world T st) b h (hl tickets) (n_command n) with
            | (Ok wr, w', script) =>
                Some (mk_rs T w' t' (rs_leaf_sent T st) (rs_node_sent T st ++ [Some (wr_tickets wr)])
                            (rs_results T st ++ [(Some (n_rule n), TOk wr)]) (rs_commands T st ++ script))
            | (Err e, w', script) =>
                Some (mk_rs T w' t' (rs_leaf_sent T st) (rs_node_sent T st ++ [None])
                            (rs_results T st ++ [(Some (n_rule n), TErr e)]) (rs_commands T st ++ script))
            end
        end
    end.

  Fixpoint legacy_run_nodes (st : run_state T) (ns : list node) : option (run_state T) :=
    match ns with
    | [] => Some st
    | n :: rest => match legacy_run_node st n with
                   | None => None
                   | Some st' => legacy_run_nodes st' rest
                   end
    end.

  Fixpoint legacy_upto (st : run_state T) (ns : list node) : run_state T :=
    match ns with
    | [] => st
    | n :: rest => match legacy_run_node st n with None => st | Some st' => legacy_upto st' rest end
    end.

  (* Build.build with legacy_handle_rule in the place of handle_rule, nothing else changed *)
  Definition legacy_build (w : world T) (rules_path : bytes) (goal : option bytes) : outcome T :=
    match init_dir T w with
    | Err f => mk_outcome (init_dir_world_on_error T w) (VFatal f) [] []
    | Ok (w1, t) =>
        match get_nodes T w1 rules_path goal with
        | Err f => mk_outcome w1 (VFatal f) [] []
        | Ok pack =>
            let w1t := write_table T w1 (table_rest T hc t pack) in
            let st0 := mk_rs T w1t t [] [] [] [] in
            let st1 := fold_left (run_leaf T teqb hc) (p_leaves pack) st0 in
            match legacy_run_nodes st1 (p_nodes pack) with
            | None =>
                let stx := legacy_upto st1 (p_nodes pack) in
                mk_outcome (rs_world T stx) (VFatal FHistory) (rs_commands T stx) []
            | Some st2 =>
                let js := fold_left (join_one T teqb hr) (rs_results T st2)
                                    (mk_js T (rs_world T st2) (rs_table T st2) [] []) in
                let w3 := write_table T (js_world T js) (js_table T js) in
                mk_outcome w3 (match js_errors T js with [] => VOk | es => VWorkErrors es end)
                           (rs_commands T st2) (js_status T js)
            end
        end
    end.
End LegacyBuild.

Notation legacy_build_sym := (legacy_build sym sym_eqb SContent SList SRule).

(* ================================================================== *)
(* ==== the swap history ==== *)
(* ================================================================== *)

Open Scope string_scope.

(* p <- s1, q <- s2 (two copy rules), rp <- p, rq <- q *)
Definition sw_rules : bytes := join_with [NL] (map bs
  ["p";":";"s1";":";"gen p @s1";":";
   "q";":";"s2";":";"gen q @s2";":";
   "rp";":";"p";":";"gen rp @p";":";
   "rq";":";"q";":";"gen rq @q";":";""]).

Definition sw_ops0 : list (op sym) :=
  [OWrite RULES_PATH sw_rules; OWrite (bs "s1") (bs "X"); OWrite (bs "s2") (bs "Y")].
(* build; swap the contents of the two sources; build *)
Definition sw_ops1 : list (op sym) := sw_ops0 ++ [OBuild None; OWrite (bs "s1") (bs "Y"); OWrite (bs "s2") (bs "X")].
Definition sw_ops2 : list (op sym) := sw_ops1 ++ [OBuild None].
(* swap back *)
Definition sw_ops : list (op sym) := sw_ops2 ++ [OWrite (bs "s1") (bs "X"); OWrite (bs "s2") (bs "Y")].

Definition sw_w0 : world sym := run_sym sw_ops0 (init_world Coarse 1).
Definition sw_w1 : world sym := run_sym sw_ops1 (init_world Coarse 1).
Definition sw_w2 : world sym := run_sym sw_ops2 (init_world Coarse 1).
Definition sw_w : world sym := run_sym sw_ops (init_world Coarse 1).

Close Scope string_scope.

Definition build_confinedb (w : world sym) (goal : option bytes) : bool :=
  match init_dir sym w with
  | Ok (w1, _) =>
      match get_nodes sym w1 RULES_PATH goal with
      | Ok pack => forallb node_confinedb (p_nodes pack)
      | Err _ => true
      end
  | Err _ => true
  end.

Lemma build_confinedb_sound w goal : build_confinedb w goal = true -> build_confined sym w goal.
Proof.
  unfold build_confinedb. intros H w1 tbl pack Hi Hg. rewrite Hi, Hg in H. apply nodes_confinedb_sound. exact H.
Qed.

Lemma sw_confined : confined_history_sym (init_world Coarse 1) (sw_ops ++ [OBuild None]).
Proof.
  unfold sw_ops, sw_ops2, sw_ops1, sw_ops0. cbn [app CoarseBuildProofs.confined_history CoarseBuildProofs.op_confined].
  repeat (split; [exact I|]).
  split; [apply build_confinedb_sound; vm_compute; reflexivity|].
  repeat (split; [exact I|]).
  split; [apply build_confinedb_sound; vm_compute; reflexivity|].
  repeat (split; [exact I|]).
  split; [apply build_confinedb_sound; vm_compute; reflexivity|].
  exact I.
Qed.

Lemma sw_confined_w : confined_history_sym (init_world Coarse 1) sw_ops.
Proof.
  change sw_ops with (firstn 9 (sw_ops ++ [OBuild None])).
  apply (confined_history_firstn sym sym_eqb SContent SList SRule). exact sw_confined.
Qed.

(* coarse_inv holds after every prefix of the history, the last build included (by K3) *)
Example sw_inv_throughout : forall k,
  coarse_inv sym_eqb SContent (run_sym (firstn k (sw_ops ++ [OBuild None])) (init_world Coarse 1)).
Proof.
  intro k. apply (coarse_inv_throughout sym sym_eqb SContent SList SRule sym_eqb_spec); exact sw_confined.
Qed.

Example sw_inv : coarse_inv sym_eqb SContent sw_w.
Proof. exact (sw_inv_throughout 9). Qed.

Lemma sw_build_confined : forall w1 tbl pack,
  init_dir sym sw_w = Ok (w1, tbl) -> get_nodes sym w1 RULES_PATH None = Ok pack -> Forall node_confined (p_nodes pack).
Proof. apply build_confinedb_sound. vm_compute. reflexivity. Qed.

Definition mtime_at (w : world sym) (p : bytes) : option N := option_map f_mtime (fget w p).

Open Scope string_scope.

(* the second build wrote p and q in one invocation: different contents, the same modification time
   (the global fine-clock fact mt_unique is false here) *)
Example sw_shared_time :
  w_mode sw_w2 = Coarse /\
  content_at sw_w2 (bs "p") = Some (bs "Y") /\ content_at sw_w2 (bs "q") = Some (bs "X") /\
  mtime_at sw_w2 (bs "p") = Some 6001 /\ mtime_at sw_w2 (bs "q") = Some 6001.
Proof. vm_compute. repeat split. Qed.

Example sw_not_mt_unique : ~ mt_unique sym_eqb sw_w2.
Proof.
  intro H.
  assert (exists f g, fget sw_w2 (bs "p") = Some f /\ fget sw_w2 (bs "q") = Some g /\
                      f_mtime f = f_mtime g /\ f_content f <> f_content g) as (f & g & Hf & Hg & Ht & Hc).
  { eexists _, _. split; [vm_compute; reflexivity|]. split; [vm_compute; reflexivity|].
    split; [reflexivity|]. cbn. discriminate. }
  apply Hc. apply H; [left; eauto | left; eauto | exact Ht].
Qed.

(* the third build restores into q the very file that the second build had written at p (ruler moved p into the
   cache and out again), and q's table entry carries exactly that time *)
Example sw_restored_across_paths :
  fget (o_world (build_sym sw_w RULES_PATH None)) (bs "q") = fget sw_w (bs "p") /\
  content_at (o_world (build_sym sw_w RULES_PATH None)) (bs "q") = Some (bs "Y") /\
  match rd_table (w_rd sw_w) with
  | Some (SF_ok tbl) => option_map fs_mtime (alookup bytes_eqb tbl (bs "q")) = mtime_at sw_w (bs "p")
  | _ => False
  end.
Proof. vm_compute. repeat split. Qed.

Example sw_build_result :
  o_verdict (build_sym sw_w RULES_PATH None) = VOk /\
  o_status (build_sym sw_w RULES_PATH None) =
    [(BRecovered, bs "p"); (BRecovered, bs "q"); (BRecovered, bs "rp"); (BRecovered, bs "rq")] /\
  content_at (o_world (build_sym sw_w RULES_PATH None)) (bs "rq") = Some (bs "Y").
Proof. vm_compute. repeat split. Qed.

Close Scope string_scope.

(* K2 on this world, by the theorem ... *)
Example sw_c18 :
  let o1 := build_sym sw_w RULES_PATH None in
  let o2 := build_sym (erase_table sym sw_w) RULES_PATH None in
  o_verdict o1 = o_verdict o2 /\ w_files (o_world o1) = w_files (o_world o2) /\
  rd_cache (w_rd (o_world o1)) = rd_cache (w_rd (o_world o2)) /\
  rd_hist (w_rd (o_world o1)) = rd_hist (w_rd (o_world o2)) /\
  o_commands o1 = o_commands o2 /\ o_status o1 = o_status o2.
Proof. apply c18_coarse_sym; [exact sw_inv | exact sw_build_confined]. Qed.

(* ... and by computation; the table that is erased is not empty *)
Example sw_c18_computed :
  let o1 := build_sym sw_w RULES_PATH None in
  let o2 := build_sym (erase_table sym sw_w) RULES_PATH None in
  o_verdict o1 = o_verdict o2 /\ w_files (o_world o1) = w_files (o_world o2) /\
  rd_cache (w_rd (o_world o1)) = rd_cache (w_rd (o_world o2)) /\
  rd_hist (w_rd (o_world o1)) = rd_hist (w_rd (o_world o2)) /\
  o_commands o1 = o_commands o2 /\ o_status o1 = o_status o2.
Proof. vm_compute. repeat split. Qed.

(* K1 on this world: q's entry is consulted, the shortcut applies (no hashing), and the ticket is the true one *)
Example sw_shortcut_used :
  match rd_table (w_rd sw_w), fget sw_w [113] with
  | Some (SF_ok tbl), Some f =>
      match alookup bytes_eqb tbl [113] with
      | Some st =>
          shortcut sym_eqb SContent f st = true /\
          get_file_ticket sym_eqb SContent sw_w [113] st = Some (SContent (f_content f))
      | None => False
      end
  | _, _ => False
  end.
Proof. vm_compute. split; reflexivity. Qed.

Example sw_state_ok_at : forall tbl p st,
  rd_table (w_rd sw_w) = Some (SF_ok tbl) -> alookup bytes_eqb tbl p = Some st ->
  get_file_ticket sym_eqb SContent sw_w p st = option_map (fun f => SContent (f_content f)) (fget sw_w p).
Proof.
  intros tbl p st Htb Hl. apply coarse_shortcut_transparent_sym.
  destruct sw_inv as (_ & Hs & _). eapply Hs; eauto.
Qed.

(* K4 on this history *)
Example sw_c18_history :
  let w := run_sym sw_ops (init_world Coarse 1) in
  let o1 := build_sym w RULES_PATH None in
  let o2 := build_sym (erase_table sym w) RULES_PATH None in
  o_verdict o1 = o_verdict o2 /\ w_files (o_world o1) = w_files (o_world o2) /\
  rd_cache (w_rd (o_world o1)) = rd_cache (w_rd (o_world o2)) /\
  rd_hist (w_rd (o_world o1)) = rd_hist (w_rd (o_world o2)) /\
  o_commands o1 = o_commands o2 /\ o_status o1 = o_status o2.
Proof. apply c18_coarse_every_history_sym; [exact sw_confined_w | exact sw_build_confined]. Qed.

Example sw_table_not_trivial :
  erase_table sym sw_w <> sw_w /\
  match rd_table (w_rd sw_w) with Some (SF_ok tbl) => length tbl = 6%nat | _ => False end.
Proof. split; [vm_compute; discriminate | vm_compute; reflexivity]. Qed.

(* ---------- K5 ---------- *)

(* the first two builds of the history recover nothing, so the pre-repair build does literally what the
   repaired one does: sw_w is the world the pre-repair ruler reaches as well *)
Example sw_legacy_same_past :
  legacy_build_sym sw_w0 RULES_PATH None = build_sym sw_w0 RULES_PATH None /\
  legacy_build_sym sw_w1 RULES_PATH None = build_sym sw_w1 RULES_PATH None.
Proof. split; vm_compute; reflexivity. Qed.

Open Scope string_scope.

(* the third build before the repair: q is recovered (it is the file written at p by the second build), then
   observed through the entry of the file it replaced: its ticket comes out as the hash of "X"; rq, keyed by
   that ticket, is found "up to date" and stays "X" although q is "Y" *)
Example sw_legacy_values :
  content_at (o_world (legacy_build_sym sw_w RULES_PATH None)) (bs "q") = Some (bs "Y") /\
  content_at (o_world (legacy_build_sym sw_w RULES_PATH None)) (bs "rq") = Some (bs "X") /\
  content_at (o_world (legacy_build_sym (erase_table sym sw_w) RULES_PATH None)) (bs "rq") = Some (bs "Y") /\
  o_status (legacy_build_sym sw_w RULES_PATH None) =
    [(BRecovered, bs "p"); (BRecovered, bs "q"); (BRecovered, bs "rp"); (BUpToDate, bs "rq")] /\
  o_verdict (legacy_build_sym sw_w RULES_PATH None) = VOk.
Proof. vm_compute. repeat split. Qed.

Close Scope string_scope.

(* K2 is false for the build as it was before the repair of F4 *)
Theorem c18_coarse_legacy_refuted :
  ~ (forall (w : world sym) rp goal,
       coarse_inv sym_eqb SContent w ->
       (forall w1 tbl pack, init_dir sym w = Ok (w1, tbl) -> get_nodes sym w1 rp goal = Ok pack ->
                            Forall node_confined (p_nodes pack)) ->
       let o1 := legacy_build_sym w rp goal in
       let o2 := legacy_build_sym (erase_table sym w) rp goal in
       o_verdict o1 = o_verdict o2 /\ w_files (o_world o1) = w_files (o_world o2) /\
       rd_cache (w_rd (o_world o1)) = rd_cache (w_rd (o_world o2)) /\
       rd_hist (w_rd (o_world o1)) = rd_hist (w_rd (o_world o2)) /\
       o_commands o1 = o_commands o2 /\ o_status o1 = o_status o2).
Proof.
  intro H. destruct (H sw_w RULES_PATH None sw_inv sw_build_confined) as (_ & Hf & _).
  revert Hf. vm_compute. discriminate.
Qed.

(* the same defect at the level of one restore and one ticket (Model/Legacy.v), restated *)
Theorem c18_legacy_primitive_refuted :
  match restore Concrete.c_teqb Legacy.f4_world (Concrete.c_hc [89]) [80] with
  | RDone w' =>
      Legacy.legacy_get_file_ticket Concrete.c_hc w' [80] Legacy.f4_entry = Some (Concrete.c_hc [88]) /\
      option_map f_content (fget w' [80]) = Some [89]
  | _ => False
  end.
Proof. exact Legacy.C18_legacy_coarse_refuted. Qed.

(* ================================================================== *)
(* ==== the user's mv is outside the coarse invariant ==== *)
(* ================================================================== *)

(* After the second build of the swap history p ("Y") and q ("X") were written in one tick of the coarse clock:
   same modification time, different contents, and coarse_inv holds (sw_inv_throughout).  The user's `mv p q` puts
   at q a file that q's table entry (hash of "X", that very time) accepts: the per-path soundness is gone.  This is
   why op_confined is False for OMove (confined_history contains no OMove); under the fine clock the user's mv is
   harmless (MvFacts.mv_keeps_disk_inv). *)
Definition mv_p : bytes := [112].   (* p *)
Definition mv_q : bytes := [113].   (* q *)
Definition sw_w2_mv : world sym := fst (apply_sym sw_w2 (OMove mv_p mv_q)).

Example sw_w2_inv : coarse_inv sym_eqb SContent sw_w2.
Proof. exact (sw_inv_throughout 7). Qed.

Lemma sw_w2_mv_unsound :
  exists tbl st f,
    rd_table (w_rd sw_w2_mv) = Some (SF_ok tbl) /\ alookup bytes_eqb tbl mv_q = Some st /\
    fget sw_w2_mv mv_q = Some f /\ shortcut sym_eqb SContent f st = true /\
    fs_t st = SContent [88] /\ f_content f = [89].
Proof. eexists _, _, _. vm_compute. repeat split. Qed.

Lemma sw_w2_mv_not_inv : ~ coarse_inv sym_eqb SContent sw_w2_mv.
Proof.
  intros (_ & Hs & _). destruct sw_w2_mv_unsound as (tbl & st & f & Htb & Hl & Hf & Hsc & Ht & Hc).
  pose proof (Hs tbl mv_q st Htb Hl f Hf Hsc) as H. rewrite Ht, Hc in H. discriminate.
Qed.

Theorem coarse_inv_mv_refuted :
  exists (w : world sym) p q,
    coarse_inv sym_eqb SContent w /\ safe_op sym (OMove p q) /\
    ~ coarse_inv sym_eqb SContent (fst (apply_sym w (OMove p q))).
Proof. exists sw_w2, mv_p, mv_q. split; [exact sw_w2_inv|]. split; [exact I | exact sw_w2_mv_not_inv]. Qed.

(* the same, as the refutation of "coarse_inv_apply_op without the exclusion of OMove" *)
Theorem coarse_inv_apply_op_mv_refuted :
  ~ (forall (w : world sym) (o : op sym),
       coarse_inv sym_eqb SContent w -> safe_op sym o ->
       match o with OBuild goal => build_confined sym w goal | _ => True end ->
       coarse_inv sym_eqb SContent (fst (apply_sym w o))).
Proof. intro H. apply sw_w2_mv_not_inv. apply (H sw_w2 (OMove mv_p mv_q) sw_w2_inv I I). Qed.

(* and it is not only the invariant: on that world the conclusion of C18 itself fails -- with the saved table q
   ("Y" now) is taken for "X" through the shortcut and left alone, with the table erased it is hashed and rebuilt *)
Example sw_w2_mv_c18_fails :
  content_at (o_world (build_sym sw_w2_mv RULES_PATH None)) mv_q = Some [89] /\
  content_at (o_world (build_sym (erase_table sym sw_w2_mv) RULES_PATH None)) mv_q = Some [88] /\
  o_verdict (build_sym sw_w2_mv RULES_PATH None) = VOk /\
  o_verdict (build_sym (erase_table sym sw_w2_mv) RULES_PATH None) = VOk.
Proof. vm_compute. repeat split. Qed.
