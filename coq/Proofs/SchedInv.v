(* SCHED, part 4: the order-independent specification of every worker's result, and the invariant that
   every worker that has worked agrees with it, preserved by EVERY work step (so along every order). *)
From Coq Require Import Relations.Relation_Operators Relations.Operators_Properties.
From Ruler Require Import Tactics Bytes AList RuleSyntax TopoSort World Cmdlang Work Build Ops Inv
     BuildSpec Ideal Sched BytesFacts InvFacts BuildFacts C01Script C01Hist C01Build C01Plan C04Facts
     SchedBasic SchedSerial SchedRule.
Local Open Scope nat_scope.

(* ================================================================== *)
(* lists, plans                                                         *)
(* ================================================================== *)

Lemma firstn_succ_nth {A} (l : list A) j x : nth_error l j = Some x -> firstn (S j) l = firstn j l ++ [x].
Proof.
  revert j. induction l as [|a l IH]; intros [|j] H; cbn in *; try discriminate.
  - injection H as <-. reflexivity.
  - f_equal. apply IH. exact H.
Qed.

Lemma nth_error_firstn_some {A} (l : list A) j i x : nth_error (firstn j l) i = Some x -> i < j /\ nth_error l i = Some x.
Proof.
  revert j i. induction l as [|a l IH]; intros [|j] [|i] H; cbn in *; try discriminate.
  - split; [lia | exact H].
  - destruct (IH _ _ H). split; [lia | assumption].
Qed.

Lemma nth_error_skipn_some {A} (l : list A) j i : nth_error (skipn j l) i = nth_error l (j + i).
Proof.
  revert j. induction l as [|a l IH]; intros [|j]; cbn; try reflexivity.
  - destruct i; reflexivity.
  - apply IH.
Qed.

Lemma match_nonempty {A B} (l : list A) (a b : B) : l <> [] -> match l with [] => a | _ :: _ => b end = b.
Proof. destruct l; [contradiction | reflexivity]. Qed.

Lemma NoDup_flat_map_nth {A B} (f : A -> list B) l : forall i j a b x,
  NoDup (flat_map f l) -> nth_error l i = Some a -> nth_error l j = Some b -> i <> j ->
  In x (f a) -> ~ In x (f b).
Proof.
  induction l as [|c l IH]; intros i j a b x Hnd Hi Hj Hne Ha Hb; [destruct i; discriminate|].
  cbn [flat_map] in Hnd. destruct i as [|i]; destruct j as [|j]; cbn in Hi, Hj.
  - congruence.
  - injection Hi as ->. apply (NoDup_app_disjoint _ _ x Hnd Ha). apply in_flat_map. exists b.
    split; [eapply nth_error_In; eauto | exact Hb].
  - injection Hj as ->. apply (NoDup_app_disjoint _ _ x Hnd Hb). apply in_flat_map. exists a.
    split; [eapply nth_error_In; eauto | exact Ha].
  - apply (IH i j a b x); auto. eapply NoDup_app_r; eauto.
Qed.

Lemma plan_targets_disjoint pack i j a b t :
  plan_wf pack -> nth_error (p_nodes pack) i = Some a -> nth_error (p_nodes pack) j = Some b -> i <> j ->
  In t (n_targets a) -> ~ In t (n_targets b).
Proof. intros (Hnd & _). apply (NoDup_flat_map_nth n_targets). exact Hnd. Qed.

Lemma plan_node_facts pack j nd :
  plan_wf pack -> nth_error (p_nodes pack) j = Some nd ->
  NoDup (n_targets nd) /\ (forall s, In s (r_sources (n_rule nd)) -> ~ In s (n_targets nd)) /\
  Forall2 (bind_ok pack j) (r_sources (n_rule nd)) (n_source_indices nd).
Proof.
  intros Hwf Hn. destruct (nth_error_split _ _ Hn) as (l1 & l2 & E & _).
  split; [apply (plan_wf_node _ _ _ _ Hwf E)|]. split; [apply (plan_wf_self _ _ _ _ Hwf E)|].
  destruct Hwf as (_ & _ & Hbind). apply Hbind. exact Hn.
Qed.

Inductive skind := KOk | KErr (e : work_err) | KCanceled.

Definition kind_of {T} (tr : thread_result T) : skind :=
  match tr with TOk _ => KOk | TErr e => KErr e | TCanceled => KCanceled end.

Section Inv.
  Variable T : Type.
  Variable teqb : T -> T -> bool.
  Variable hc : bytes -> T.
  Variable hl : list T -> T.
  Hypothesis teqb_spec : forall a b, teqb a b = true <-> a = b.
  Hypothesis hc_inj : forall a b, hc a = hc b -> a = b.
  Hypothesis hl_inj : forall a b, hl a = hl b -> a = b.

  Notation world := (world T).
  Notation fstate := (fstate T).
  Notation sstate := (sstate T).
  Notation state_ok := (state_ok teqb hc).
  Notation disk_inv := (disk_inv teqb hc).
  Notation steps := (clos_refl_trans world (step teqb hc)).
  Notation blob_ok := (InvProofs.blob_ok T teqb hc).
  Notation has_hash := (has_hash T hc).
  Notation src_contents := (src_contents T).
  Notation hist_ok := (hist_ok T teqb hc hl).
  Notation has_worked := (has_worked T).
  Notation work_step := (work_step teqb hc hl).
  Notation hashes := (hashes T hc).
  Notation first_missing := (first_missing T).
  Notation upd := (upd T).
  Notation ready := (ready T).
  Notation lens := (lens T).

  Variable w : world.           (* the world the build was started in: only its files matter *)
  Variable w1 : world.          (* after init_dir *)
  Variable pack : node_pack.
  Variable blobs : list (blob T).
  Variable hists : list (history T).
  Hypothesis Hinv1 : disk_inv w1.
  Hypothesis Hfiles : forall p, content_at w1 p = content_at w p.
  Hypothesis Hcache1 : cache_of w1 <> None.
  Hypothesis Hwf : plan_wf pack.
  Hypothesis Hdet : Forall det_node (p_nodes pack).
  Hypothesis Hshape : blobs_shaped T pack blobs.
  Hypothesis Hblobs : forall k, blob_ok w1 (nth k blobs []).
  Hypothesis Hhok : forall j nd, nth_error (p_nodes pack) j = Some nd -> hist_ok (n_rule nd) (nth j hists []).

  Let nl := length (p_leaves pack).

  (* ================================================================== *)
  (* the from-scratch worlds                                              *)
  (* ================================================================== *)

  Definition S0 : world := strip_targets w pack.
  Definition Sat (j : nat) : world := scratch_from T S0 (firstn j (p_nodes pack)).
  Definition Sfin : world := scratch_from T S0 (p_nodes pack).

  Lemma Sfin_scratch : Sfin = scratch_world w pack.
  Proof. reflexivity. Qed.

  Lemma det_node_nth j nd : nth_error (p_nodes pack) j = Some nd -> det_node nd.
  Proof. intro H. rewrite Forall_forall in Hdet. apply Hdet. eapply nth_error_In; eauto. Qed.

  Lemma Sat_succ j nd :
    nth_error (p_nodes pack) j = Some nd -> Sat (S j) = snd (run_script (Sat j) (script_lines (n_command nd))).
  Proof. intro H. unfold Sat. rewrite (firstn_succ_nth _ _ _ H). apply scratch_from_snoc. Qed.

  Lemma Sat_frame j t :
    (forall j' b, j' < j -> nth_error (p_nodes pack) j' = Some b -> ~ In t (n_targets b)) ->
    content_at (Sat j) t = content_at S0 t.
  Proof.
    intro H. unfold Sat. apply scratch_from_frame.
    - rewrite Forall_forall in *. intros x Hx. apply Hdet. apply In_nth_error in Hx as (i & Hi).
      apply nth_error_firstn_some in Hi as [_ Hi]. eapply nth_error_In; eauto.
    - intro Hin. apply in_flat_map in Hin as (b & Hb & Ht). apply In_nth_error in Hb as (i & Hi).
      apply nth_error_firstn_some in Hi as [Hlt Hi]. exact (H i b Hlt Hi Ht).
  Qed.

  Lemma Sfin_Sat j t :
    (forall j' b, j <= j' -> nth_error (p_nodes pack) j' = Some b -> ~ In t (n_targets b)) ->
    content_at Sfin t = content_at (Sat j) t.
  Proof.
    intro H. unfold Sfin, Sat. rewrite <- (firstn_skipn j (p_nodes pack)) at 1.
    unfold scratch_from at 1. rewrite fold_left_app.
    change (content_at (scratch_from T (scratch_from T S0 (firstn j (p_nodes pack))) (skipn j (p_nodes pack))) t =
            content_at (scratch_from T S0 (firstn j (p_nodes pack))) t).
    apply scratch_from_frame.
    - rewrite Forall_forall in *. intros x Hx. apply Hdet. apply In_nth_error in Hx as (i & Hi).
      rewrite nth_error_skipn_some in Hi. eapply nth_error_In; eauto.
    - intro Hin. apply in_flat_map in Hin as (b & Hb & Ht). apply In_nth_error in Hb as (i & Hi).
      rewrite nth_error_skipn_some in Hi. apply (H (j + i) b); [lia | exact Hi | exact Ht].
  Qed.

  Lemma node_target_in_plan j nd t :
    nth_error (p_nodes pack) j = Some nd -> In t (n_targets nd) -> In t (plan_targets pack).
  Proof. intros Hn Ht. eapply node_targets_in_plan; [eapply nth_error_In; eauto | exact Ht]. Qed.

  Lemma leaf_not_target l : In l (p_leaves pack) -> ~ In l (plan_targets pack).
  Proof. destruct Hwf as (_ & H & _). apply H. Qed.

  Lemma Sat_target_absent j nd t :
    nth_error (p_nodes pack) j = Some nd -> In t (n_targets nd) -> content_at (Sat j) t = None.
  Proof.
    intros Hn Ht. rewrite Sat_frame.
    - apply strip_content_in. eapply node_target_in_plan; eauto.
    - intros j' b Hlt Hb Hin. apply (plan_targets_disjoint pack j' j b nd t Hwf Hb Hn); [lia | exact Hin | exact Ht].
  Qed.

  Lemma Sat_nontarget j p : ~ In p (plan_targets pack) -> content_at (Sat j) p = content_at w p.
  Proof.
    intro Hp. rewrite Sat_frame.
    - apply strip_content_out. exact Hp.
    - intros j' b _ Hb Hin. apply Hp. eapply node_target_in_plan; eauto.
  Qed.

  Lemma Sfin_nontarget p : ~ In p (plan_targets pack) -> content_at Sfin p = content_at w p.
  Proof.
    intro Hp. rewrite (Sfin_Sat 0).
    - apply Sat_nontarget. exact Hp.
    - intros j' b _ Hb Hin. apply Hp. eapply node_target_in_plan; eauto.
  Qed.

  Lemma Sfin_target j nd t :
    nth_error (p_nodes pack) j = Some nd -> In t (n_targets nd) -> content_at Sfin t = content_at (Sat (S j)) t.
  Proof.
    intros Hn Ht. apply Sfin_Sat. intros j' b Hle Hb Hin.
    apply (plan_targets_disjoint pack j j' nd b t Hwf Hn Hb); [lia | exact Ht | exact Hin].
  Qed.

  Lemma Sat_earlier i j ndi t :
    i < j -> nth_error (p_nodes pack) i = Some ndi -> In t (n_targets ndi) -> content_at (Sat j) t = content_at Sfin t.
  Proof.
    intros Hlt Hn Ht. symmetry. apply Sfin_Sat. intros j' b Hle Hb Hin.
    apply (plan_targets_disjoint pack i j' ndi b t Hwf Hn Hb); [lia | exact Ht | exact Hin].
  Qed.

  (* ================================================================== *)
  (* the specification of one worker, given what its producers sent       *)
  (* ================================================================== *)

  Definition leaf_spec (l : bytes) : option (list T) * skind :=
    match content_at w l with
    | Some c => (Some [hc c], KOk)
    | None => (None, KErr (WFileNotFound l))
    end.

  Definition node_spec (S : world) (sent : list (option (option (list T)))) (nd : node) (h : history T)
    : option (list T) * skind :=
    match all_some (map (sreceived nl sent) (n_source_indices nd)) with
    | None => (None, KCanceled)
    | Some tickets =>
        let codes := fst (run_script S (script_lines (n_command nd))) in
        let S' := snd (run_script S (script_lines (n_command nd))) in
        match alookup teqb h (hl tickets) with
        | Some _ => (Some (hashes S' (n_targets nd)), KOk)
        | None =>
            match n_targets nd with
            | [] => (Some [], KOk)
            | _ :: _ =>
                match command_verdict codes with
                | Some e => (None, KErr e)
                | None =>
                    match first_missing S' (n_targets nd) with
                    | Some p => (None, KErr (WTargetNotGenerated p))
                    | None => (Some (hashes S' (n_targets nd)), KOk)
                    end
                end
            end
        end
    end.

  Lemma node_spec_sent_ok S sent nd h ts : fst (node_spec S sent nd h) = Some ts -> snd (node_spec S sent nd h) = KOk.
  Proof.
    unfold node_spec. destruct (all_some (map (sreceived nl sent) (n_source_indices nd))) as [tickets|]; [|discriminate].
    cbv zeta.
    destruct (alookup teqb h (hl tickets)); [reflexivity|].
    destruct (n_targets nd); [reflexivity|].
    destruct (command_verdict _); [discriminate|]. destruct (first_missing _ _); [discriminate | reflexivity].
  Qed.

  Lemma sreceived_ext (sent sent' : list (option (option (list T)))) si :
    nth (si_dep nl si) sent None = nth (si_dep nl si) sent' None -> sreceived nl sent si = sreceived nl sent' si.
  Proof. destruct si as [i | i sub]; cbn [si_dep sreceived]; intros ->; reflexivity. Qed.

  Lemma tickets_ext (sent sent' : list (option (option (list T)))) nd :
    (forall si, In si (n_source_indices nd) -> nth (si_dep nl si) sent None = nth (si_dep nl si) sent' None) ->
    all_some (map (sreceived nl sent) (n_source_indices nd)) = all_some (map (sreceived nl sent') (n_source_indices nd)).
  Proof. intro H. apply all_some_ext. intros si Hsi. apply sreceived_ext. apply H. exact Hsi. Qed.

  Lemma node_spec_ext S sent sent' nd h :
    (forall si, In si (n_source_indices nd) -> nth (si_dep nl si) sent None = nth (si_dep nl si) sent' None) ->
    node_spec S sent nd h = node_spec S sent' nd h.
  Proof. intro H. unfold node_spec. rewrite (tickets_ext _ _ _ H). reflexivity. Qed.

  Definition tgt_world (kd : skind) : world := match kd with KCanceled => w | _ => Sfin end.

  (* ================================================================== *)
  (* the invariant                                                        *)
  (* ================================================================== *)

  Definition leaf_inv (st : sstate) (i : nat) (l : bytes) : Prop :=
    has_worked st i = true ->
    nth i (ss_sent st) None = Some (fst (leaf_spec l)) /\
    exists tr, nth i (ss_res st) None = Some (None, tr) /\ kind_of tr = snd (leaf_spec l).

  Definition node_inv (st : sstate) (j : nat) (nd : node) : Prop :=
    (has_worked st (nl + j) = false ->
     forall t, In t (n_targets nd) -> content_at (ss_world st) t = content_at w t) /\
    (has_worked st (nl + j) = true ->
     (forall d, In d (deps pack (nl + j)) -> has_worked st d = true) /\
     nth (nl + j) (ss_sent st) None = Some (fst (node_spec (Sat j) (ss_sent st) nd (nth j hists []))) /\
     (exists tr, nth (nl + j) (ss_res st) None = Some (Some (n_rule nd), tr) /\
                 kind_of tr = snd (node_spec (Sat j) (ss_sent st) nd (nth j hists []))) /\
     (forall t, In t (n_targets nd) ->
        content_at (ss_world st) t =
        content_at (tgt_world (snd (node_spec (Sat j) (ss_sent st) nd (nth j hists [])))) t) /\
     (forall ts, fst (node_spec (Sat j) (ss_sent st) nd (nth j hists [])) = Some ts ->
                 Forall2 (has_hash (ss_world st)) (n_targets nd) ts)).

  Record winv (st : sstate) : Prop := mk_winv {
    wi_lens : lens pack st;
    wi_steps : steps w1 (ss_world st);
    wi_cache : cache_of (ss_world st) <> None;
    wi_frame : forall p, ~ In p (plan_targets pack) -> content_at (ss_world st) p = content_at w p;
    wi_leaf : forall i l, nth_error (p_leaves pack) i = Some l -> leaf_inv st i l;
    wi_node : forall j nd, nth_error (p_nodes pack) j = Some nd -> node_inv st j nd
  }.

  Lemma winv_init : winv (st_init T w1 pack).
  Proof.
    constructor.
    - apply st_init_lens.
    - apply rt_refl.
    - exact Hcache1.
    - intros p _. apply Hfiles.
    - intros i l _ H. rewrite st_init_unworked in H. discriminate.
    - intros j nd _. split.
      + intros _ t _. apply Hfiles.
      + intro H. rewrite st_init_unworked in H. discriminate.
  Qed.

  (* ---------- what a node receives ---------- *)

  Lemma source_received st j s si tk :
    winv st -> bind_ok pack j s si -> has_worked st (si_dep nl si) = true ->
    sreceived nl (ss_sent st) si = Some tk ->
    has_hash (ss_world st) s tk /\ content_at (ss_world st) s = content_at (Sat j) s.
  Proof.
    intros Hw Hb Hd Hr. destruct si as [i | i sub]; cbn [bind_ok si_dep sreceived] in *.
    - destruct (wi_leaf _ Hw i s Hb Hd) as [Hs _]. rewrite Hs in Hr. unfold leaf_spec in Hr.
      assert (In s (p_leaves pack)) as Hin by (eapply nth_error_In; eauto).
      pose proof (leaf_not_target _ Hin) as Hnt.
      destruct (content_at w s) as [c|] eqn:Ec; cbn [fst] in Hr; [|discriminate]. injection Hr as <-.
      rewrite (wi_frame _ Hw s Hnt), (Sat_nontarget j s Hnt). split; [|reflexivity].
      exists c. split; [rewrite (wi_frame _ Hw s Hnt); exact Ec | reflexivity].
    - destruct Hb as (Hlt & n' & Hn' & Hsub). fold nl in Hd, Hr.
      destruct (wi_node _ Hw i n' Hn') as [_ Hwk]. destruct (Hwk Hd) as (_ & Hs & _ & Hc & Hf).
      rewrite Hs in Hr.
      destruct (fst (node_spec (Sat i) (ss_sent st) n' (nth i hists []))) as [ts|] eqn:Efst; [|discriminate].
      pose proof (node_spec_sent_ok _ _ _ _ _ Efst) as Eok. rewrite Eok in Hc. cbn [tgt_world] in Hc.
      assert (In s (n_targets n')) as Hin by (eapply nth_error_In; eauto).
      split.
      + exact (Forall2_nth_error _ _ _ (Hf ts eq_refl) _ _ _ Hsub Hr).
      + rewrite (Hc s Hin). symmetry. eapply Sat_earlier; eauto.
  Qed.

  Lemma sources_received st j : forall srcs idxs,
    winv st -> Forall2 (bind_ok pack j) srcs idxs ->
    (forall si, In si idxs -> has_worked st (si_dep nl si) = true) ->
    forall tickets, all_some (map (sreceived nl (ss_sent st)) idxs) = Some tickets ->
      Forall2 (has_hash (ss_world st)) srcs tickets /\
      forall s, In s srcs -> content_at (ss_world st) s = content_at (Sat j) s.
  Proof.
    intros srcs idxs Hw Hb. induction Hb as [|s si srcs idxs Hb1 _ IH]; intros Hd tickets; cbn [map all_some].
    - intro H. injection H as <-. split; [constructor | intros s []].
    - destruct (sreceived nl (ss_sent st) si) as [tk|] eqn:Er; [|discriminate].
      destruct (all_some (map (sreceived nl (ss_sent st)) idxs)) as [tks|] eqn:Ea; [|discriminate].
      intro H. injection H as <-.
      destruct (IH (fun si' H' => Hd si' (or_intror H')) _ eq_refl) as [I1 I2].
      destruct (source_received st j s si tk Hw Hb1 (Hd si (or_introl eq_refl)) Er) as [H1 H2].
      split; [constructor; assumption|]. intros s' [<- | Hs']; auto.
  Qed.

  (* ---------- the worker that works: a leaf ---------- *)

  Lemma leaf_step st i l :
    winv st -> nth_error (p_leaves pack) i = Some l ->
    res_sent T (handle_leaf teqb hc (ss_world st) (nth i blobs [])) = fst (leaf_spec l) /\
    kind_of (res_tr T (handle_leaf teqb hc (ss_world st) (nth i blobs []))) = snd (leaf_spec l).
  Proof.
    intros Hw Hl. pose proof (blobs_shaped_leaf T pack blobs i l Hshape Hl) as Hfst.
    pose proof (blob_steps T teqb hc teqb_spec _ _ _ Hinv1 (wi_steps _ Hw) (Hblobs i)) as Hb.
    assert (In l (p_leaves pack)) as Hin by (eapply nth_error_In; eauto).
    pose proof (wi_frame _ Hw l (leaf_not_target _ Hin)) as Hfr.
    destruct (nth i blobs []) as [|[p a] [|x rest]]; try discriminate. cbn in Hfst. injection Hfst as ->.
    apply InvProofs.blob_ok_cons in Hb as [Hok _].
    unfold handle_leaf, leaf_spec. cbn [current_tickets].
    destruct (get_file_ticket teqb hc (ss_world st) l a) as [t|] eqn:Eg.
    - destruct (gft_hash T teqb hc _ _ _ _ Hok Eg) as (c & Hc & ->). rewrite <- Hfr, Hc. split; reflexivity.
    - apply gft_none in Eg. rewrite <- Hfr, Eg. split; reflexivity.
  Qed.

  (* ---------- the worker that works: a rule node that is not canceled ---------- *)

  Lemma node_step st j nd tickets res w' script :
    winv st -> nth_error (p_nodes pack) j = Some nd ->
    (forall d, In d (deps pack (nl + j)) -> has_worked st d = true) ->
    node_tickets T pack st nd = Some tickets ->
    handle_rule teqb hc (ss_world st) (nth (nl + j) blobs []) (nth j hists []) (hl tickets) (n_command nd)
    = (res, w', script) ->
    steps (ss_world st) w' /\ cache_of w' <> None /\
    (forall q, ~ In q (n_targets nd) -> content_at w' q = content_at (ss_world st) q) /\
    res_sent T res = fst (node_spec (Sat j) (ss_sent st) nd (nth j hists [])) /\
    kind_of (res_tr T res) = snd (node_spec (Sat j) (ss_sent st) nd (nth j hists [])) /\
    (forall t, In t (n_targets nd) ->
       content_at w' t = content_at (tgt_world (snd (node_spec (Sat j) (ss_sent st) nd (nth j hists [])))) t) /\
    (forall ts, fst (node_spec (Sat j) (ss_sent st) nd (nth j hists [])) = Some ts ->
                Forall2 (has_hash w') (n_targets nd) ts).
  Proof.
    intros Hw Hn Hdeps Htk Hhr. set (wc := ss_world st) in *.
    pose proof (det_node_nth _ _ Hn) as (Hdr & Etg & Ecmd). set (r := n_rule nd) in *.
    destruct (plan_node_facts pack j nd Hwf Hn) as (Hnd & Hself & Hbind). fold r in Hself, Hbind.
    pose proof (inv_steps T teqb hc teqb_spec _ _ Hinv1 (wi_steps _ Hw)) as Hinv.
    pose proof (blob_steps T teqb hc teqb_spec _ _ _ Hinv1 (wi_steps _ Hw) (Hblobs (nl + j))) as Hb.
    pose proof (blobs_shaped_node T pack blobs j nd Hshape Hn) as Hfst. fold nl in Hfst.
    set (b := nth (nl + j) blobs []) in *. set (h := nth j hists []) in *.
    pose proof (Hhok j nd Hn) as Hh. fold r h in Hh.
    assert (forall si, In si (n_source_indices nd) -> has_worked st (si_dep nl si) = true) as Hdeps'.
    { intros si Hsi. apply Hdeps. unfold nl. rewrite (deps_node pack j nd Hn). apply in_map. exact Hsi. }
    unfold node_tickets in Htk. fold nl in Htk.
    destruct (sources_received st j _ _ Hw Hbind Hdeps' _ Htk) as [Hhash HsrcS]. fold wc in Hhash, HsrcS.
    destruct (src_contents_of_hashes T hc _ _ _ Hhash) as (cs & Hcs & ->).
    assert (src_contents (Sat j) (r_sources r) cs) as HcsS.
    { eapply src_contents_transport; [|exact Hcs]. intros s Hs. symmetry. apply HsrcS. exact Hs. }
    rewrite Etg in Hfst, Hnd, Hself. rewrite Ecmd in Hhr.
    pose proof (InvProofs.handle_rule_steps T teqb hc teqb_spec _ _ _ _ _ _ _ _ Hinv Hb Hhr) as Hsteps.
    pose proof (handle_rule_cache T teqb hc hl teqb_spec hc_inj _ _ _ _ _ Hfst Hcs Hh (wi_cache _ Hw) _ _ _ Hhr) as Hcache'.
    pose proof Hdr as [Hconf Hreads].
    destruct (C01Hist.handle_rule_frame T teqb hc teqb_spec _ _ _ _ _ _ _ _ Hinv Hb Hfst Hnd Hconf Hhr) as [F _].
    split; [exact Hsteps|]. split; [exact Hcache'|]. split; [rewrite Etg; exact F|].
    unfold node_spec. fold nl. rewrite Htk. cbv zeta. rewrite Etg, Ecmd.
    pose proof (Sat_succ j nd Hn) as ES. rewrite Ecmd in ES.
    assert (forall t, In t (r_targets r) -> content_at Sfin t = content_at (Sat (S j)) t) as HSfin.
    { intros t Ht. eapply Sfin_target; [exact Hn | rewrite Etg; exact Ht]. }
    destruct (alookup teqb h (hl (map hc cs))) as [old|] eqn:El.
    - (* an entry for the key *)
      destruct (handle_rule_hit T teqb hc hl teqb_spec hc_inj _ _ _ _ _ Hinv Hb Hfst Hnd Hself Hcs Hh (wi_cache _ Hw)
                  _ _ _ _ El Hhr) as (wr & ->).
      destruct (C01Hist.handle_rule_ok T teqb hc hl teqb_spec hc_inj hl_inj _ _ _ _ _ _ _ _ Hinv Hb Hfst Hnd Hdr Hself
                  Hcs Hh Hhr) as (_ & _ & R3 & R4 & _).
      cbn [fst snd res_sent res_tr kind_of tgt_world]. rewrite <- ES.
      assert (forall t, In t (r_targets r) -> content_at w' t = content_at (Sat (S j)) t) as Hcont.
      { intros t Ht. rewrite ES. apply R4; assumption. }
      split; [f_equal; apply (hashes_of_has_hash T hc w'); assumption|]. split; [reflexivity|].
      split; [intros t Ht; rewrite (HSfin t Ht); apply Hcont; exact Ht|].
      intros ts E. injection E as <-.
      rewrite <- (hashes_of_has_hash T hc w' (Sat (S j)) _ _ R3 Hcont). exact R3.
    - destruct (list_eq_dec bytes_dec (r_targets r) []) as [Hempty | Hne].
      + (* no entry, no target *)
        destruct (handle_rule_miss_empty T teqb hc hl _ _ _ _ _ Hb Hfst _ _ _ El Hempty Hhr) as (-> & wr & -> & Etk).
        rewrite Hempty. cbn [fst snd res_sent res_tr kind_of tgt_world]. rewrite Etk.
        split; [reflexivity|]. split; [reflexivity|]. split; [intros t []|].
        intros ts E. injection E as <-. constructor.
      + (* no entry: the command runs from absent targets *)
        rewrite (match_nonempty _ _ _ Hne).
        assert (forall t, In t (r_targets r) -> content_at (Sat j) t = None) as Habs.
        { intros t Ht. eapply Sat_target_absent; [exact Hn | rewrite Etg; exact Ht]. }
        destruct (handle_rule_miss T teqb hc hl teqb_spec _ _ _ _ _ Hinv Hb Hfst Hdr Hself Hcs (wi_cache _ Hw)
                    _ _ _ (Sat j) El Hne HcsS Habs Hhr) as [Hcont Hres].
        rewrite <- ES in *.
        assert (forall kd, kd <> KCanceled ->
                  forall t, In t (r_targets r) -> content_at w' t = content_at (tgt_world kd) t) as Hc2.
        { intros kd Hkd t Ht. destruct kd; try contradiction; cbn [tgt_world]; rewrite (HSfin t Ht); apply Hcont; exact Ht. }
        destruct (command_verdict (fst (run_script (Sat j) (script_lines (r_command r))))) as [e|].
        * subst res. cbn [fst snd res_sent res_tr kind_of].
          split; [reflexivity|]. split; [reflexivity|]. split; [apply Hc2; discriminate | discriminate].
        * destruct (first_missing (Sat (S j)) (r_targets r)) as [p|].
          -- subst res. cbn [fst snd res_sent res_tr kind_of].
             split; [reflexivity|]. split; [reflexivity|]. split; [apply Hc2; discriminate | discriminate].
          -- destruct Hres as (wr & -> & Hts). cbn [fst snd res_sent res_tr kind_of].
             split; [f_equal; apply (hashes_of_has_hash T hc w'); assumption|]. split; [reflexivity|].
             split; [apply Hc2; discriminate|].
             intros ts E. injection E as <-.
             rewrite <- (hashes_of_has_hash T hc w' (Sat (S j)) _ _ Hts Hcont). exact Hts.
  Qed.

  (* ---------- every other worker keeps what it has ---------- *)

  Lemma others_kept st w' k0 o r tr script :
    winv st -> ready pack st k0 -> k0 < nworkers pack ->
    steps (ss_world st) w' -> cache_of w' <> None ->
    (forall p, ~ In p (plan_targets pack) -> content_at w' p = content_at (ss_world st) p) ->
    (forall j nd, nth_error (p_nodes pack) j = Some nd -> nl + j <> k0 ->
                  forall t, In t (n_targets nd) -> content_at w' t = content_at (ss_world st) t) ->
    lens pack (upd st w' k0 o r tr script) /\
    steps w1 w' /\
    (forall p, ~ In p (plan_targets pack) -> content_at w' p = content_at w p) /\
    (forall i l, nth_error (p_leaves pack) i = Some l -> i <> k0 -> leaf_inv (upd st w' k0 o r tr script) i l) /\
    (forall j nd, nth_error (p_nodes pack) j = Some nd -> nl + j <> k0 -> node_inv (upd st w' k0 o r tr script) j nd).
  Proof.
    intros Hw [Hun Hdeps] Hk0 Hsteps Hcache Hfr Hoth. pose proof (wi_lens _ Hw) as [Hl1 Hl2].
    assert (forall k, has_worked (upd st w' k0 o r tr script) k = if Nat.eqb k k0 then true else has_worked st k) as Hwk.
    { intro k. apply has_worked_upd. lia. }
    assert (forall k, k <> k0 -> has_worked (upd st w' k0 o r tr script) k = has_worked st k) as Hwk'.
    { intros k Hne. rewrite Hwk. apply Nat.eqb_neq in Hne. rewrite Hne. reflexivity. }
    split; [|split; [|split; [|split]]].
    - unfold SchedBasic.lens, SchedBasic.upd. cbn [ss_sent ss_res]. rewrite !set_nth_length. split; assumption.
    - eapply rt_trans; [exact (wi_steps _ Hw) | exact Hsteps].
    - intros p Hp. rewrite (Hfr p Hp). apply (wi_frame _ Hw). exact Hp.
    - intros i l Hl Hne. unfold leaf_inv. rewrite (Hwk' i Hne). intro Hi.
      destruct (wi_leaf _ Hw i l Hl Hi) as [H1 H2]. unfold SchedBasic.upd. cbn [ss_sent ss_res].
      rewrite !nth_set_nth_neq by exact Hne. split; assumption.
    - intros j nd Hn Hne. destruct (wi_node _ Hw j nd Hn) as [Hu Hd]. unfold node_inv. rewrite (Hwk' _ Hne). split.
      + intros Hj t Ht. cbn [ss_world SchedBasic.upd]. rewrite (Hoth j nd Hn Hne t Ht). apply Hu; assumption.
      + intro Hj. destruct (Hd Hj) as (D1 & D2 & D3 & D4 & D5).
        assert (node_spec (Sat j) (ss_sent (upd st w' k0 o r tr script)) nd (nth j hists []) =
                node_spec (Sat j) (ss_sent st) nd (nth j hists [])) as Esp.
        { apply node_spec_ext. intros si Hsi. unfold SchedBasic.upd. cbn [ss_sent]. apply nth_set_nth_neq.
          intros E. assert (has_worked st k0 = true); [|congruence]. rewrite <- E. apply D1.
          unfold nl. rewrite (deps_node pack j nd Hn). apply in_map. exact Hsi. }
        rewrite Esp. unfold SchedBasic.upd at 2 3 4 5. cbn [ss_sent ss_res ss_world].
        rewrite !nth_set_nth_neq by exact Hne.
        split; [|split; [|split; [|split]]].
        * intros d Hd'. rewrite Hwk. destruct (Nat.eqb d k0); [reflexivity | apply D1; exact Hd'].
        * exact D2.
        * exact D3.
        * intros t Ht. rewrite (Hoth j nd Hn Hne t Ht). apply D4. exact Ht.
        * intros ts E. eapply Forall2_impl_in; [|exact (D5 ts E)]. intros t tk Ht Hh. cbn in *.
          eapply has_hash_content; [|exact Hh]. apply (Hoth j nd Hn Hne t Ht).
  Qed.

  (* ================================================================== *)
  (* every work step preserves the invariant                              *)
  (* ================================================================== *)

  Lemma winv_step st k0 : winv st -> winv (work_step pack blobs hists st k0).
  Proof.
    intro Hw. pose proof (wi_lens _ Hw) as [Hl1 Hl2].
    destruct (work_step_cases T teqb hc hl pack blobs hists st k0) as [E | [(Hr & Hlt & E) | (Hr & Hge & nd & Hn & E)]].
    - rewrite E. exact Hw.
    - (* a leaf *)
      fold nl in Hlt. rewrite E.
      assert (k0 < nworkers pack) as Hk0 by (unfold nworkers; fold nl; lia).
      destruct (nth_error (p_leaves pack) k0) as [l|] eqn:El; [|apply nth_error_None in El; fold nl in El; lia].
      destruct (others_kept st (ss_world st) k0 (res_sent T (handle_leaf teqb hc (ss_world st) (nth k0 blobs []))) None
                  (res_tr T (handle_leaf teqb hc (ss_world st) (nth k0 blobs []))) [] Hw Hr Hk0 (rt_refl _ _ _)
                  (wi_cache _ Hw) (fun p _ => eq_refl) (fun j nd _ _ t _ => eq_refl)) as (O1 & O2 & O3 & O4 & O5).
      constructor; try assumption.
      + exact (wi_cache _ Hw).
      + intros i l' Hl'. destruct (Nat.eq_dec i k0) as [-> | Hne]; [|apply O4; assumption].
        rewrite El in Hl'. injection Hl' as <-. intros _.
        destruct (leaf_step st k0 l Hw El) as [L1 L2].
        unfold SchedBasic.upd. cbn [ss_sent ss_res]. rewrite !nth_set_nth_eq by lia.
        split; [rewrite L1; reflexivity|]. eexists. split; [reflexivity | exact L2].
      + intros j nd Hn. apply O5; [exact Hn | lia].
    - (* a rule node *)
      fold nl in Hge, Hn, E. set (j0 := k0 - nl) in *. assert (k0 = nl + j0) as Ek0 by lia.
      assert (j0 < length (p_nodes pack)) as Hj0 by (apply nth_error_Some; rewrite Hn; discriminate).
      assert (k0 < nworkers pack) as Hk0 by (unfold nworkers; fold nl; lia).
      destruct (wi_node _ Hw j0 nd Hn) as [Hunw _]. pose proof Hr as [Hun Hdeps].
      assert (has_worked st (nl + j0) = false) as Hun' by (rewrite <- Ek0; exact Hun). specialize (Hunw Hun').
      assert (forall d, In d (deps pack (nl + j0)) -> has_worked st d = true) as Hdw.
      { rewrite <- Ek0. rewrite forallb_forall in Hdeps. exact Hdeps. }
      assert (forall d, In d (deps pack (nl + j0)) -> d <> k0) as Hdk.
      { intros d Hd ->. rewrite (Hdw _ Hd) in Hun. discriminate. }
      assert (forall w' o tr script,
                node_spec (Sat j0) (ss_sent (upd st w' k0 o (Some (n_rule nd)) tr script)) nd (nth j0 hists []) =
                node_spec (Sat j0) (ss_sent st) nd (nth j0 hists [])) as Esp.
      { intros w' o tr script. apply node_spec_ext. intros si Hsi. unfold SchedBasic.upd. cbn [ss_sent].
        apply nth_set_nth_neq. apply Hdk. unfold nl. rewrite (deps_node pack j0 nd Hn). apply in_map. exact Hsi. }
      (* the goal for the node itself, from the facts about the step *)
      assert (forall w' o tr script,
                o = fst (node_spec (Sat j0) (ss_sent st) nd (nth j0 hists [])) ->
                kind_of tr = snd (node_spec (Sat j0) (ss_sent st) nd (nth j0 hists [])) ->
                (forall t, In t (n_targets nd) ->
                   content_at w' t = content_at (tgt_world (snd (node_spec (Sat j0) (ss_sent st) nd (nth j0 hists [])))) t) ->
                (forall ts, fst (node_spec (Sat j0) (ss_sent st) nd (nth j0 hists [])) = Some ts ->
                            Forall2 (has_hash w') (n_targets nd) ts) ->
                node_inv (upd st w' k0 o (Some (n_rule nd)) tr script) j0 nd) as Hown.
      { intros w' o tr script Ho Htr Hc Hf. unfold node_inv. rewrite <- Ek0.
        rewrite (has_worked_upd T st w' k0 o (Some (n_rule nd)) tr script k0) by lia. rewrite Nat.eqb_refl.
        split; [discriminate|]. intros _. rewrite Esp.
        unfold SchedBasic.upd at 2 3 4 5. cbn [ss_sent ss_res ss_world]. rewrite !nth_set_nth_eq by lia.
        split; [|split; [|split; [|split]]].
        - intros d Hd. rewrite has_worked_upd by lia. rewrite Ek0 in Hd.
          destruct (Nat.eqb d k0); [reflexivity | apply Hdw; exact Hd].
        - rewrite Ho. reflexivity.
        - eexists. split; [reflexivity | exact Htr].
        - exact Hc.
        - exact Hf. }
      destruct E as [[Hnone E] | (tickets & res & w' & script & Hsome & Hh & E)]; rewrite E.
      + (* canceled *)
        destruct (others_kept st (ss_world st) k0 None (Some (n_rule nd)) TCanceled [] Hw Hr Hk0 (rt_refl _ _ _)
                    (wi_cache _ Hw) (fun p _ => eq_refl) (fun j nd _ _ t _ => eq_refl)) as (O1 & O2 & O3 & O4 & O5).
        assert (node_spec (Sat j0) (ss_sent st) nd (nth j0 hists []) = (None, KCanceled)) as Ecan.
        { unfold node_spec. unfold node_tickets in Hnone. fold nl in Hnone. rewrite Hnone. reflexivity. }
        constructor; try assumption.
        * exact (wi_cache _ Hw).
        * intros i l Hl. apply O4; [exact Hl|]. assert (i < nl); [|lia]. apply nth_error_Some. rewrite Hl. discriminate.
        * intros j nd' Hn'. destruct (Nat.eq_dec j j0) as [-> | Hne]; [|apply O5; [exact Hn' | lia]].
          rewrite Hn in Hn'. injection Hn' as <-. apply Hown; rewrite Ecan; cbn [fst snd tgt_world]; auto.
          discriminate.
      + (* handled *)
        rewrite Ek0 in Hh. replace (nl + j0 - nl) with j0 in Hh by lia. fold nl in Hh.
        destruct (node_step st j0 nd tickets res w' script Hw Hn Hdw Hsome Hh) as (N1 & N2 & N3 & N4 & N5 & N6 & N7).
        assert (forall p, ~ In p (plan_targets pack) -> content_at w' p = content_at (ss_world st) p) as Hfr.
        { intros p Hp. apply N3. intro X. apply Hp. eapply node_target_in_plan; eauto. }
        assert (forall j nd', nth_error (p_nodes pack) j = Some nd' -> nl + j <> k0 ->
                  forall t, In t (n_targets nd') -> content_at w' t = content_at (ss_world st) t) as Hoth.
        { intros j nd' Hn' Hne t Ht. apply N3. apply (plan_targets_disjoint pack j j0 nd' nd t Hwf Hn' Hn); [lia | exact Ht]. }
        destruct (others_kept st w' k0 (res_sent T res) (Some (n_rule nd)) (res_tr T res) script Hw Hr Hk0 N1 N2 Hfr Hoth)
          as (O1 & O2 & O3 & O4 & O5).
        constructor; try assumption.
        * intros i l Hl. apply O4; [exact Hl|]. assert (i < nl); [|lia]. apply nth_error_Some. rewrite Hl. discriminate.
        * intros j nd' Hn'. destruct (Nat.eq_dec j j0) as [-> | Hne]; [|apply O5; [exact Hn' | lia]].
          rewrite Hn in Hn'. injection Hn' as <-. apply Hown; assumption.
  Qed.

  Lemma winv_fold ord : winv (fold_left (work_step pack blobs hists) ord (st_init T w1 pack)).
  Proof. apply (fold_step_ind T teqb hc hl winv); [intros st k; apply winv_step | apply winv_init]. Qed.

  (* ================================================================== *)
  (* two states in which everybody has worked agree                       *)
  (* ================================================================== *)

  Definition all_worked (st : sstate) : Prop := forall k, k < nworkers pack -> has_worked st k = true.

  Lemma winv_sent_det st st' :
    winv st -> winv st' -> all_worked st -> all_worked st' ->
    forall k, k < nworkers pack -> nth k (ss_sent st) None = nth k (ss_sent st') None.
  Proof.
    intros Hw Hw' Ha Ha'. induction k as [k IH] using lt_wf_ind. intro Hk.
    destruct (Nat.lt_ge_cases k nl) as [Hlt | Hge].
    - destruct (nth_error (p_leaves pack) k) as [l|] eqn:El; [|apply nth_error_None in El; fold nl in El; lia].
      destruct (wi_leaf _ Hw k l El (Ha k Hk)) as [-> _]. destruct (wi_leaf _ Hw' k l El (Ha' k Hk)) as [-> _]. reflexivity.
    - set (j := k - nl). assert (k = nl + j) as Ek by lia.
      destruct (nth_error (p_nodes pack) j) as [nd|] eqn:En;
        [|apply nth_error_None in En; unfold nworkers in Hk; fold nl in Hk; lia].
      destruct (wi_node _ Hw j nd En) as [_ H1]. destruct (wi_node _ Hw' j nd En) as [_ H2].
      rewrite <- Ek in H1, H2. destruct (H1 (Ha k Hk)) as (_ & -> & _). destruct (H2 (Ha' k Hk)) as (_ & -> & _).
      f_equal. f_equal. apply node_spec_ext. intros si Hsi.
      assert (In (si_dep nl si) (deps pack k)) as Hd.
      { rewrite Ek. unfold nl. rewrite (deps_node pack j nd En). apply in_map. exact Hsi. }
      pose proof (deps_lt pack k _ Hwf Hd) as Hlt. apply IH; [exact Hlt | lia].
  Qed.

  Definition res_kind (st : sstate) (k : nat) : option skind :=
    match nth k (ss_res st) None with Some (_, tr) => Some (kind_of tr) | None => None end.

  Lemma winv_kind_det st st' :
    winv st -> winv st' -> all_worked st -> all_worked st' ->
    forall k, k < nworkers pack -> res_kind st k = res_kind st' k.
  Proof.
    intros Hw Hw' Ha Ha' k Hk. unfold res_kind.
    destruct (Nat.lt_ge_cases k nl) as [Hlt | Hge].
    - destruct (nth_error (p_leaves pack) k) as [l|] eqn:El; [|apply nth_error_None in El; fold nl in El; lia].
      destruct (wi_leaf _ Hw k l El (Ha k Hk)) as [_ (tr & -> & E1)].
      destruct (wi_leaf _ Hw' k l El (Ha' k Hk)) as [_ (tr' & -> & E2)]. congruence.
    - set (j := k - nl). assert (k = nl + j) as Ek by lia.
      destruct (nth_error (p_nodes pack) j) as [nd|] eqn:En;
        [|apply nth_error_None in En; unfold nworkers in Hk; fold nl in Hk; lia].
      destruct (wi_node _ Hw j nd En) as [_ H1]. destruct (wi_node _ Hw' j nd En) as [_ H2].
      rewrite <- Ek in H1, H2.
      destruct (H1 (Ha k Hk)) as (_ & _ & (tr & -> & E1) & _). destruct (H2 (Ha' k Hk)) as (_ & _ & (tr' & -> & E2) & _).
      rewrite E1, E2. f_equal. f_equal. apply node_spec_ext. intros si Hsi.
      assert (In (si_dep nl si) (deps pack k)) as Hd.
      { rewrite Ek. unfold nl. rewrite (deps_node pack j nd En). apply in_map. exact Hsi. }
      pose proof (deps_lt pack k _ Hwf Hd) as Hlt.
      apply (winv_sent_det st st' Hw Hw' Ha Ha'). lia.
  Qed.

  Lemma winv_content_det st st' :
    winv st -> winv st' -> all_worked st -> all_worked st' ->
    forall p, content_at (ss_world st) p = content_at (ss_world st') p.
  Proof.
    intros Hw Hw' Ha Ha' p. destruct (in_bytes_dec p (plan_targets pack)) as [Hin | Hnin].
    2:{ rewrite (wi_frame _ Hw p Hnin), (wi_frame _ Hw' p Hnin). reflexivity. }
    unfold plan_targets in Hin. apply in_flat_map in Hin as (nd & Hnd & Ht). apply In_nth_error in Hnd as (j & En).
    assert (nl + j < nworkers pack) as Hk.
    { unfold nworkers. fold nl. assert (j < length (p_nodes pack)); [|lia]. apply nth_error_Some. rewrite En. discriminate. }
    destruct (wi_node _ Hw j nd En) as [_ H1]. destruct (wi_node _ Hw' j nd En) as [_ H2].
    destruct (H1 (Ha _ Hk)) as (_ & _ & _ & C1 & _). destruct (H2 (Ha' _ Hk)) as (_ & _ & _ & C2 & _).
    rewrite (C1 p Ht), (C2 p Ht). f_equal. f_equal. f_equal. apply node_spec_ext. intros si Hsi.
    assert (In (si_dep nl si) (deps pack (nl + j))) as Hd.
    { unfold nl. rewrite (deps_node pack j nd En). apply in_map. exact Hsi. }
    pose proof (deps_lt pack _ _ Hwf Hd) as Hlt.
    apply (winv_sent_det st st' Hw Hw' Ha Ha'). lia.
  Qed.

  (* ================================================================== *)
  (* the verdict, from the specification alone                            *)
  (* ================================================================== *)

  (* every leaf exists, and every command of the plan, run in plan order from the stripped world, succeeds
     and leaves all its targets present *)
  Definition spec_success : Prop :=
    (forall l, In l (p_leaves pack) -> content_at w l <> None) /\
    forall j nd, nth_error (p_nodes pack) j = Some nd ->
      command_verdict (fst (run_script (Sat j) (script_lines (n_command nd)))) = None /\
      forall t, In t (n_targets nd) -> content_at (Sat (S j)) t <> None.

  Lemma res_kind_ok_sent st d :
    cinv T pack st -> d < nworkers pack -> res_kind st d = Some KOk -> ~ sent_cancel T st d.
  Proof.
    intros [_ Hall] Hd Hk. specialize (Hall d Hd). unfold worker_ok in Hall. unfold res_kind in Hk.
    destruct (nth d (ss_res st) None) as [[r tr]|]; [|discriminate].
    destruct Hall as (_ & C2 & _). destruct tr as [wr|e|]; try discriminate.
    destruct C2 as [C2 _]. unfold sent_cancel. rewrite C2. discriminate.
  Qed.

  (* no worker failed: then none was canceled either *)
  Lemma kinds_no_cancel st :
    cinv T pack st -> all_worked st ->
    (forall k e, k < nworkers pack -> res_kind st k <> Some (KErr e)) ->
    forall k, k < nworkers pack -> res_kind st k = Some KOk.
  Proof.
    intros Hc Ha Hnoerr. induction k as [k IH] using lt_wf_ind. intro Hk.
    pose proof Hc as [_ Hall]. specialize (Hall k Hk). unfold worker_ok in Hall.
    pose proof (Ha k Hk) as Hwk. unfold Sched.has_worked in Hwk.
    pose proof (Hnoerr k) as Hne. unfold res_kind in *.
    destruct (nth k (ss_res st) None) as [[r tr]|]; [|discriminate].
    destruct Hall as (_ & _ & C3 & C4). destruct tr as [wr|e|]; [reflexivity | exfalso; apply (Hne e Hk); reflexivity|].
    exfalso. destruct (Nat.lt_ge_cases k nl) as [Hlt | Hge]; [apply (C3 Hlt); reflexivity|].
    destruct (proj1 (C4 Hge) eq_refl) as (d & Hd & Hcan).
    pose proof (deps_lt pack k d Hwf Hd) as Hlt.
    apply (res_kind_ok_sent st d Hc ltac:(lia)); [|exact Hcan]. apply IH; [exact Hlt | lia].
  Qed.

  Lemma node_deps_worked st j nd :
    all_worked st -> nth_error (p_nodes pack) j = Some nd ->
    forall d, In d (deps pack (nl + j)) -> has_worked st d = true.
  Proof.
    intros Ha Hn d Hd. apply Ha. pose proof (deps_lt pack _ d Hwf Hd) as Hlt.
    assert (j < length (p_nodes pack)) by (apply nth_error_Some; rewrite Hn; discriminate).
    unfold nworkers. fold nl. lia.
  Qed.

  (* every worker succeeded: the from-scratch build succeeds *)
  Lemma ok_spec_success st :
    winv st -> all_worked st ->
    (forall j nd, nth_error (p_nodes pack) j = Some nd -> n_targets nd <> []) ->
    (forall k, k < nworkers pack -> res_kind st k = Some KOk) -> spec_success.
  Proof.
    intros Hw Ha Hne Hok. split.
    - intros l Hl. apply In_nth_error in Hl as (i & Hi).
      assert (i < nworkers pack) as Hk.
      { assert (i < nl) by (apply nth_error_Some; fold nl; rewrite Hi; discriminate). unfold nworkers. fold nl. lia. }
      destruct (wi_leaf _ Hw i l Hi (Ha i Hk)) as (_ & tr & E & Ek).
      specialize (Hok i Hk). unfold res_kind in Hok. rewrite E in Hok. injection Hok as Hok. rewrite Ek in Hok.
      unfold leaf_spec in Hok. destruct (content_at w l); [discriminate | discriminate].
    - intros j nd Hn.
      assert (nl + j < nworkers pack) as Hk.
      { assert (j < length (p_nodes pack)) by (apply nth_error_Some; rewrite Hn; discriminate). unfold nworkers. fold nl. lia. }
      destruct (wi_node _ Hw j nd Hn) as [_ Hd]. destruct (Hd (Ha _ Hk)) as (D1 & _ & (tr & E & Ek) & _).
      specialize (Hok _ Hk). unfold res_kind in Hok. rewrite E in Hok. injection Hok as Hok. rewrite Ek in Hok.
      pose proof (det_node_nth _ _ Hn) as (Hdr & Etg & Ecmd).
      destruct (plan_node_facts pack j nd Hwf Hn) as (_ & _ & Hbind).
      unfold node_spec in Hok.
      destruct (all_some (map (sreceived nl (ss_sent st)) (n_source_indices nd))) as [tickets|] eqn:Ea; [|discriminate].
      cbv zeta in Hok.
      assert (forall si, In si (n_source_indices nd) -> has_worked st (si_dep nl si) = true) as Hdeps'.
      { intros si Hsi. apply D1. unfold nl. rewrite (deps_node pack j nd Hn). apply in_map. exact Hsi. }
      destruct (sources_received st j _ _ Hw Hbind Hdeps' _ Ea) as [Hhash HsrcS].
      destruct (src_contents_of_hashes T hc _ _ _ Hhash) as (cs & Hcs & ->).
      assert (src_contents (Sat j) (r_sources (n_rule nd)) cs) as HcsS.
      { eapply src_contents_transport; [|exact Hcs]. intros s Hs. symmetry. apply HsrcS. exact Hs. }
      rewrite (Sat_succ j nd Hn).
      destruct (alookup teqb (nth j hists []) (hl (map hc cs))) as [old|] eqn:El.
      + destruct (Hhok j nd Hn _ _ El (Sat j) cs HcsS eq_refl) as [Hv F2]. rewrite Ecmd. split; [exact Hv|].
        intros t Ht. rewrite Etg in Ht. destruct (Forall2_in_l _ _ _ _ F2 Ht) as (o & _ & Hp).
        eapply has_hash_present; eauto.
      + rewrite (match_nonempty _ _ _ (Hne j nd Hn)) in Hok.
        destruct (command_verdict (fst (run_script (Sat j) (script_lines (n_command nd))))) as [e|] eqn:Ev; [discriminate|].
        destruct (first_missing (snd (run_script (Sat j) (script_lines (n_command nd)))) (n_targets nd)) as [p|] eqn:Em;
          [discriminate|].
        split; [reflexivity|]. intros t Ht. eapply first_missing_none; eauto.
  Qed.

  (* the from-scratch build succeeds: every worker succeeded *)
  Lemma spec_success_ok st :
    winv st -> cinv T pack st -> all_worked st -> spec_success ->
    forall k, k < nworkers pack -> res_kind st k = Some KOk.
  Proof.
    intros Hw Hc Ha [SL SN]. induction k as [k IH] using lt_wf_ind. intro Hk.
    destruct (Nat.lt_ge_cases k nl) as [Hlt | Hge].
    - destruct (nth_error (p_leaves pack) k) as [l|] eqn:El; [|apply nth_error_None in El; fold nl in El; lia].
      destruct (wi_leaf _ Hw k l El (Ha k Hk)) as (_ & tr & E & Ek). unfold res_kind. rewrite E. f_equal. rewrite Ek.
      unfold leaf_spec. destruct (content_at w l) eqn:Ec; [reflexivity|].
      exfalso. apply (SL l); [eapply nth_error_In; eauto | exact Ec].
    - set (j := k - nl). assert (k = nl + j) as Ek0 by lia.
      destruct (nth_error (p_nodes pack) j) as [nd|] eqn:En;
        [|apply nth_error_None in En; unfold nworkers in Hk; fold nl in Hk; lia].
      destruct (wi_node _ Hw j nd En) as [_ Hd]. rewrite <- Ek0 in Hd.
      destruct (Hd (Ha k Hk)) as (D1 & _ & (tr & E & Ek) & _). unfold res_kind. rewrite E. f_equal. rewrite Ek.
      assert (node_tickets T pack st nd <> None) as Htk.
      { intro Hnone. rewrite Ek0 in D1.
        apply (node_tickets_none_iff T teqb hc hl pack st j nd Hwf Hc En D1) in Hnone as (d & Hdin & Hcan). fold nl in Hdin.
        rewrite <- Ek0 in Hdin. pose proof (deps_lt pack k d Hwf Hdin) as Hlt.
        apply (res_kind_ok_sent st d Hc ltac:(lia)); [|exact Hcan]. apply IH; [exact Hlt | lia]. }
      unfold node_tickets in Htk. fold nl in Htk. unfold node_spec.
      destruct (all_some (map (sreceived nl (ss_sent st)) (n_source_indices nd))) as [tickets|]; [|contradiction].
      cbv zeta. destruct (alookup teqb (nth j hists []) (hl tickets)); [reflexivity|].
      destruct (list_eq_dec bytes_dec (n_targets nd) []) as [E0 | Hne0]; [rewrite E0; reflexivity|].
      rewrite (match_nonempty _ _ _ Hne0). destruct (SN j nd En) as [Hv Hex]. rewrite Hv.
      rewrite <- (Sat_succ j nd En). rewrite (first_missing_present T _ _ Hex). reflexivity.
  Qed.
End Inv.
