(* C03 at the level of file CONTENTS, on every schedule: at the moment a rule's worker starts its work step
   (under any valid order of the work steps), every declared source of the rule already has the content it has
   at the end of the build, it exists, and this content is the one of the from-scratch build.
   R1: sources_final_when_worker_starts (+ sources_stay_final, worker_starts_ready, build_ord_final_content);
   R2: the serial build (Build.build), both through build_ord_spawn_order and on Build's own run states;
   R3: the instances for the free symbolic hashes; a concrete example on cx_pack with the order [0;1;3;2]. *)
From Coq Require Import String Ascii.
From Coq Require Import Relations.Relation_Operators Relations.Operators_Properties.
From Ruler Require Import Tactics Bytes AList RuleSyntax Parser TopoSort TopoSpec World Cmdlang Work Build Ops Inv
     BuildSpec Ideal Sched BytesFacts InvFacts TableFrame BuildFacts TopoSortFacts C01Script C01Hist C01Build C01Plan C01Facts
     C04Facts SchedBasic SchedSerial SchedRule SchedInv SchedFacts.
Local Open Scope nat_scope.

(* ================================================================== *)
(* orders: what a prefix of a valid order has done                      *)
(* ================================================================== *)

Lemma order_okb_app pack : forall pre done rest,
  order_okb pack done (pre ++ rest) = order_okb pack done pre && order_okb pack (rev pre ++ done) rest.
Proof.
  induction pre as [|a pre IH]; intros done rest; cbn [app order_okb rev]; [reflexivity|].
  rewrite IH. rewrite <- app_assoc. cbn [app]. rewrite !andb_assoc. reflexivity.
Qed.

Lemma valid_order_split pack pre k post :
  valid_order pack (pre ++ k :: post) ->
  order_okb pack [] pre = true /\ (forall x, In x pre -> x < nworkers pack) /\ k < nworkers pack /\
  ~ In k pre /\ (forall d, In d (deps pack k) -> In d pre).
Proof.
  intro Hv. destruct (valid_order_facts pack _ Hv) as (_ & Hlt & Hok & _).
  rewrite order_okb_app in Hok. apply andb_true_iff in Hok as [Hpre Hrest]. rewrite app_nil_r in Hrest.
  cbn [order_okb] in Hrest. apply andb_true_iff in Hrest as [Hk _]. apply andb_true_iff in Hk as [Hnot Hdeps].
  split; [exact Hpre|]. split; [intros x Hx; apply Hlt; apply in_or_app; left; exact Hx|].
  split; [apply Hlt; apply in_or_app; right; left; reflexivity|]. split.
  - intro Hin. apply negb_true_iff in Hnot.
    assert (existsb (Nat.eqb k) (rev pre) = true) as E by (apply existsb_eqb_in; apply in_rev in Hin; exact Hin).
    congruence.
  - intros d Hd. rewrite forallb_forall in Hdeps. specialize (Hdeps d Hd). apply existsb_eqb_in in Hdeps.
    apply in_rev. exact Hdeps.
Qed.

Lemma seq_split_at n k : k < n -> seq 0 n = seq 0 k ++ k :: seq (S k) (n - S k).
Proof.
  intro H. replace n with (k + S (n - S k)) at 1 by lia. rewrite seq_app. cbn [Nat.add seq]. reflexivity.
Qed.

Section C03.
  Variable T : Type.
  Variable teqb : T -> T -> bool.
  Variable hc : bytes -> T.
  Variable hl : list T -> T.
  Variable hr : rule -> T.
  Hypothesis teqb_spec : forall a b, teqb a b = true <-> a = b.
  Hypothesis hc_inj : forall a b, hc a = hc b -> a = b.
  Hypothesis hl_inj : forall a b, hl a = hl b -> a = b.
  Hypothesis hr_inj : forall a b, hr a = hr b -> a = b.

  Notation world := (world T).
  Notation sstate := (sstate T).
  Notation disk_inv := (disk_inv teqb hc).
  Notation hist_sound := (hist_sound T teqb hc hl hr).
  Notation has_worked := (has_worked T).
  Notation work_step := (work_step teqb hc hl).
  Notation bo := (build_ord teqb hc hl hr).

  (* ---------- what has been recorded stays, along any sequence of steps ---------- *)

  Lemma fold_stable pack blobs hists j : forall ord (st : sstate),
    has_worked st j = true ->
    has_worked (fold_left (work_step pack blobs hists) ord st) j = true /\
    nth j (ss_res (fold_left (work_step pack blobs hists) ord st)) None = nth j (ss_res st) None /\
    nth j (ss_sent (fold_left (work_step pack blobs hists) ord st)) None = nth j (ss_sent st) None.
  Proof.
    induction ord as [|k ord IH]; intros st Hj; cbn [fold_left]; [auto|].
    destruct (work_step_stable T teqb hc hl pack blobs hists st k j Hj) as [E1 E2].
    destruct (IH _ (work_step_worked_mono T teqb hc hl pack blobs hists st k j Hj)) as (I1 & I2 & I3).
    split; [exact I1|]. split; congruence.
  Qed.

  Lemma fold_unworked pack blobs hists j : forall ord (st : sstate),
    ~ In j ord -> has_worked (fold_left (work_step pack blobs hists) ord st) j = has_worked st j.
  Proof.
    induction ord as [|k ord IH]; intros st Hj; cbn [fold_left]; [reflexivity|].
    rewrite IH by (intro H; apply Hj; right; exact H).
    destruct (work_step_shape T teqb hc hl pack blobs hists st k) as [-> | (_ & _ & w' & o & r & tr & s & -> & _)];
      [reflexivity|].
    unfold Sched.has_worked, upd. cbn [ss_res]. rewrite nth_set_nth_neq; [reflexivity|].
    intros ->. apply Hj. left. reflexivity.
  Qed.

  (* ================================================================== *)
  (* inside one build                                                     *)
  (* ================================================================== *)

  Section Setup.
    Variable w w1 : world.
    Variable rp : bytes.
    Variable goal : option bytes.
    Variable tbl : table T.
    Variable pack : node_pack.
    Variable hists : list (history T).
    Variable blobs : list (blob T).
    Variable t' : table T.
    Hypothesis Hinv : disk_inv w.
    Hypothesis Hhs : hist_sound w.
    Hypothesis Hi : init_dir T w = Ok (w1, tbl).
    Hypothesis Hg : get_nodes T w1 rp goal = Ok pack.
    Hypothesis Hdet : Forall det_node (p_nodes pack).
    Hypothesis Hh : read_histories T teqb hr w1 (p_nodes pack) = Some hists.
    Hypothesis Htb : take_blobs T hc tbl (worker_paths pack) = (blobs, t').

    Let nl := length (p_leaves pack).
    Notation fs := (final_st T teqb hc hl w1 pack hists blobs).
    Notation winv := (winv T teqb hc hl w w1 pack hists).

    Let Hwf : plan_wf pack := setup_wf T w1 rp goal pack Hg.
    Let Hfiles : forall p, content_at w1 p = content_at w p := setup_files T teqb w w1 tbl Hi.
    Let Hblobs : forall k, InvProofs.blob_ok T teqb hc w1 (nth k blobs []) :=
      setup_blobs T teqb hc teqb_spec w w1 tbl pack blobs t' Hinv Hi Htb.
    Let Hhok : forall j nd, nth_error (p_nodes pack) j = Some nd -> hist_ok T teqb hc hl (n_rule nd) (nth j hists []) :=
      setup_hists T teqb hc hl hr w w1 tbl pack hists Hhs Hi Hdet Hh.

    Lemma fs_winv ord : winv (fs ord).
    Proof.
      exact (final_winv T teqb hc hl hr teqb_spec hc_inj hl_inj w w1 rp goal tbl pack hists blobs t'
               Hinv Hhs Hi Hg Hdet Hh Htb ord).
    Qed.

    (* a source of node j: its from-scratch content is already there in the from-scratch world before node j *)
    Lemma Sat_source_final j nd s :
      nth_error (p_nodes pack) j = Some nd -> In s (r_sources (n_rule nd)) ->
      content_at (Sat T w pack j) s = content_at (scratch_world w pack) s.
    Proof.
      intros Hn Hs. destruct (plan_node_facts pack j nd Hwf Hn) as (_ & _ & Hbind).
      destruct (Forall2_in_l _ _ _ _ Hbind Hs) as (si & _ & Hb).
      change (scratch_world w pack) with (Sfin T w pack).
      destruct si as [i | i sub]; cbn [bind_ok] in Hb.
      - assert (~ In s (plan_targets pack)) as Hnt.
        { apply (leaf_not_target pack Hwf). eapply nth_error_In; eauto. }
        rewrite (Sat_nontarget T w pack Hdet j s Hnt).
        rewrite (Sfin_nontarget T teqb hc hl hc_inj w w1 pack blobs hists Hfiles Hdet Hblobs Hhok s Hnt). reflexivity.
      - destruct Hb as (Hlt & n' & Hn' & Hsub).
        apply (Sat_earlier T teqb hc hl hc_inj w w1 pack blobs hists Hfiles Hwf Hdet Hblobs Hhok i j n' s Hlt Hn').
        eapply nth_error_In; eauto.
    Qed.

    (* a state of the run in which everything node j waits for has been sent, none of it a cancel *)
    Lemma sources_at (st : sstate) j nd tickets :
      winv st -> nth_error (p_nodes pack) j = Some nd ->
      (forall d, In d (deps pack (nl + j)) -> has_worked st d = true) ->
      node_tickets T pack st nd = Some tickets ->
      forall s, In s (r_sources (n_rule nd)) ->
        content_at (ss_world st) s = content_at (Sat T w pack j) s /\ content_at (ss_world st) s <> None.
    Proof.
      intros Hw Hn Hdeps Htk s Hs. destruct (plan_node_facts pack j nd Hwf Hn) as (_ & _ & Hbind).
      assert (forall si, In si (n_source_indices nd) -> has_worked st (si_dep nl si) = true) as Hdeps'.
      { intros si Hsi. apply Hdeps. unfold nl. rewrite (deps_node pack j nd Hn). apply in_map. exact Hsi. }
      unfold node_tickets in Htk.
      destruct (sources_received T teqb hc hl hc_inj w w1 pack blobs hists Hfiles Hwf Hdet Hblobs Hhok st j _ _ Hw Hbind
                  Hdeps' _ Htk) as [Hhash Hsrc].
      split; [apply Hsrc; exact Hs|].
      destruct (Forall2_in_l _ _ _ _ Hhash Hs) as (tk & _ & Hp). eapply has_hash_present; eauto.
    Qed.

    (* a worker that has worked and is not canceled received a ticket on every in-edge *)
    Lemma not_canceled_tickets (st : sstate) j nd r tr :
      winv st -> nth_error (p_nodes pack) j = Some nd ->
      nth (nl + j) (ss_res st) None = Some (r, tr) -> tr <> TCanceled ->
      (forall d, In d (deps pack (nl + j)) -> has_worked st d = true) /\
      exists tickets, node_tickets T pack st nd = Some tickets.
    Proof.
      intros Hw Hn Hres Htr. destruct (wi_node _ _ _ _ _ _ _ _ _ Hw j nd Hn) as [_ Hd].
      assert (has_worked st (nl + j) = true) as Hwk by (unfold Sched.has_worked; rewrite Hres; reflexivity).
      destruct (Hd Hwk) as (D1 & _ & (tr' & E & Ek) & _). split; [exact D1|].
      pose proof Hres as Hres'. unfold nl in Hres'. rewrite Hres' in E. injection E as _ <-. unfold node_tickets. unfold node_spec in Ek.
      destruct (all_some (map (sreceived (length (p_leaves pack)) (ss_sent st)) (n_source_indices nd))) as [tickets|].
      - exists tickets. reflexivity.
      - exfalso. apply Htr. destruct tr; cbn in Ek; try discriminate. reflexivity.
    Qed.

    (* the tickets a node finds are those it finds in any later state *)
    Lemma tickets_later pre mid j nd :
      nth_error (p_nodes pack) j = Some nd ->
      (forall d, In d (deps pack (nl + j)) -> has_worked (fs pre) d = true) ->
      node_tickets T pack (fs (pre ++ mid)) nd = node_tickets T pack (fs pre) nd.
    Proof.
      intros Hn Hdeps. unfold node_tickets. apply all_some_ext. intros si Hsi.
      apply (sreceived_ext T pack). fold nl.
      assert (In (si_dep nl si) (deps pack (nl + j))) as Hd.
      { unfold nl. rewrite (deps_node pack j nd Hn). apply in_map. exact Hsi. }
      unfold final_st. rewrite fold_left_app.
      destruct (fold_stable pack blobs hists (si_dep nl si) mid _ (Hdeps _ Hd)) as (_ & _ & E). exact E.
    Qed.

    Lemma deps_later pre mid j :
      (forall d, In d (deps pack (nl + j)) -> has_worked (fs pre) d = true) ->
      forall d, In d (deps pack (nl + j)) -> has_worked (fs (pre ++ mid)) d = true.
    Proof.
      intros Hdeps d Hd. unfold final_st. rewrite fold_left_app.
      destruct (fold_stable pack blobs hists d mid _ (Hdeps _ Hd)) as (E & _). exact E.
    Qed.

    (* when worker k = nl + j is about to work (after the steps `pre` of a valid order), it is ready *)
    Lemma prefix_ready pre k post :
      valid_order pack (pre ++ k :: post) ->
      k < nworkers pack /\ has_worked (fs pre) k = false /\
      forall d, In d (deps pack k) -> has_worked (fs pre) d = true.
    Proof.
      intro Hv. destruct (valid_order_split pack pre k post Hv) as (Hok & Hlt & Hk & Hnin & Hdeps).
      split; [exact Hk|]. split.
      - unfold final_st. rewrite fold_unworked by exact Hnin. apply st_init_unworked.
      - intros d Hd. unfold final_st.
        apply (order_all_worked T teqb hc hl pack blobs hists pre [] _ (st_init_lens T w1 pack)); auto.
    Qed.

    (* the core: from the moment worker nl + j starts, in every later state of the run (the end included), every
       source of its rule has the from-scratch content, provided the worker is not canceled at the end *)
    Lemma sources_core pre k post j nd r tr :
      valid_order pack (pre ++ k :: post) -> k = nl + j -> nth_error (p_nodes pack) j = Some nd ->
      nth k (ss_res (fs (pre ++ k :: post))) None = Some (r, tr) -> tr <> TCanceled ->
      forall mid s, In s (r_sources (n_rule nd)) ->
        content_at (ss_world (fs (pre ++ mid))) s = content_at (scratch_world w pack) s /\
        content_at (ss_world (fs (pre ++ mid))) s <> None.
    Proof.
      intros Hv Ek Hn Hres Htr mid s Hs. subst k.
      destruct (prefix_ready pre _ post Hv) as (_ & _ & Hdeps).
      destruct (not_canceled_tickets _ j nd r tr (fs_winv _) Hn Hres Htr) as (_ & tickets & Htk).
      rewrite (tickets_later pre (_ :: post) j nd Hn Hdeps) in Htk.
      rewrite <- (tickets_later pre mid j nd Hn Hdeps) in Htk.
      destruct (sources_at _ j nd tickets (fs_winv _) Hn (deps_later pre mid j Hdeps) Htk s Hs) as [E1 E2].
      split; [|exact E2]. rewrite E1. apply (Sat_source_final j nd s Hn Hs).
    Qed.
  End Setup.

  (* ================================================================== *)
  (* R1                                                                   *)
  (* ================================================================== *)

  (* the states of build_ord (they start from the world in which main has already saved the table without the
     plan's entries, repair of F6) and those of the invariant (which start from init_dir's world) *)
  Lemma st0_fold (w1 : world) pack blobs hists t' ord :
    fold_left (work_step pack blobs hists) ord
              (mk_ss (write_table T w1 t') (repeat None (nworkers pack)) (repeat None (nworkers pack)) []) =
    ss_st T (Some (SF_ok t')) (final_st T teqb hc hl w1 pack hists blobs ord).
  Proof.
    change (mk_ss (write_table T w1 t') (repeat None (nworkers pack)) (repeat None (nworkers pack)) [])
      with (ss_st T (Some (SF_ok t')) (st_init T w1 pack)).
    apply work_steps_st.
  Qed.

  Lemma ss_st_content x (st : sstate) p : content_at (ss_world (ss_st T x st)) p = content_at (ss_world st) p.
  Proof. apply content_at_files. cbn [ss_st ss_world]. apply set_tbl_files. Qed.

  Theorem sources_final_when_worker_starts : forall (w : world) rp goal w1 tbl pack hists blobs t' ord pre k post n,
    disk_inv w -> hist_sound w -> init_dir T w = Ok (w1, tbl) -> get_nodes T w1 rp goal = Ok pack ->
    Forall det_node (p_nodes pack) -> valid_order pack ord ->
    read_histories T teqb hr w1 (p_nodes pack) = Some hists ->
    take_blobs T hc tbl (worker_paths pack) = (blobs, t') ->
    ord = pre ++ k :: post ->
    nth_error (p_nodes pack) (k - length (p_leaves pack)) = Some n -> length (p_leaves pack) <= k ->
    let st0 := mk_ss (write_table T w1 t') (repeat None (nworkers pack)) (repeat None (nworkers pack)) [] in
    let st_before := fold_left (work_step pack blobs hists) pre st0 in
    let st_end := fold_left (work_step pack blobs hists) ord st0 in
    (exists r tr, nth k (ss_res st_end) None = Some (r, tr) /\ tr <> TCanceled) ->
    forall s, In s (r_sources (n_rule n)) ->
      content_at (ss_world st_before) s = content_at (ss_world st_end) s
      /\ content_at (ss_world st_before) s <> None
      /\ content_at (ss_world st_before) s = content_at (scratch_world w pack) s.
  Proof.
    intros w rp goal w1 tbl pack hists blobs t' ord pre k post n Hinv Hhs Hi Hg Hdet Hv Hh Htb Eord Hn Hge
           st0 st_before st_end (r & tr & Hres & Htr) s Hs.
    subst st_before st_end st0. rewrite !st0_fold in *. rewrite !ss_st_content. cbn [ss_st ss_res] in Hres.
    subst ord. set (j := k - length (p_leaves pack)) in *.
    assert (k = length (p_leaves pack) + j) as Ek by lia.
    pose proof (sources_core w w1 rp goal tbl pack hists blobs t' Hinv Hhs Hi Hg Hdet Hh Htb pre k post j n r tr
                  Hv Ek Hn Hres Htr) as Hcore.
    destruct (Hcore [] s Hs) as [B1 B2]. destruct (Hcore (k :: post) s Hs) as [E1 _].
    rewrite app_nil_r in B1, B2. split; [congruence|]. split; assumption.
  Qed.

  (* the same in every state between the start of the worker and the end of the run: a source never changes again *)
  Theorem sources_stay_final : forall (w : world) rp goal w1 tbl pack hists blobs t' ord pre k mid rest n,
    disk_inv w -> hist_sound w -> init_dir T w = Ok (w1, tbl) -> get_nodes T w1 rp goal = Ok pack ->
    Forall det_node (p_nodes pack) -> valid_order pack ord ->
    read_histories T teqb hr w1 (p_nodes pack) = Some hists ->
    take_blobs T hc tbl (worker_paths pack) = (blobs, t') ->
    ord = pre ++ k :: mid ++ rest ->
    nth_error (p_nodes pack) (k - length (p_leaves pack)) = Some n -> length (p_leaves pack) <= k ->
    let st0 := mk_ss (write_table T w1 t') (repeat None (nworkers pack)) (repeat None (nworkers pack)) [] in
    let st_before := fold_left (work_step pack blobs hists) pre st0 in
    let st_mid := fold_left (work_step pack blobs hists) (pre ++ k :: mid) st0 in
    let st_end := fold_left (work_step pack blobs hists) ord st0 in
    (exists r tr, nth k (ss_res st_end) None = Some (r, tr) /\ tr <> TCanceled) ->
    forall s, In s (r_sources (n_rule n)) ->
      content_at (ss_world st_mid) s = content_at (ss_world st_before) s.
  Proof.
    intros w rp goal w1 tbl pack hists blobs t' ord pre k mid rest n Hinv Hhs Hi Hg Hdet Hv Hh Htb Eord Hn Hge
           st0 st_before st_mid st_end (r & tr & Hres & Htr) s Hs.
    subst st_before st_mid st_end st0. rewrite !st0_fold in *. rewrite !ss_st_content. cbn [ss_st ss_res] in Hres.
    subst ord. set (j := k - length (p_leaves pack)) in *.
    assert (k = length (p_leaves pack) + j) as Ek by lia.
    pose proof (sources_core w w1 rp goal tbl pack hists blobs t' Hinv Hhs Hi Hg Hdet Hh Htb pre k (mid ++ rest) j n r tr
                  Hv Ek Hn Hres Htr) as Hcore.
    destruct (Hcore [] s Hs) as [B1 _]. destruct (Hcore (k :: mid) s Hs) as [E1 _].
    rewrite app_nil_r in B1. congruence.
  Qed.

  (* st_before really is the state in which worker k performs its work step: it has not worked, everything it
     waits for has *)
  Theorem worker_starts_ready : forall (w1 : world) pack hists blobs t' pre k post,
    valid_order pack (pre ++ k :: post) ->
    let st0 := mk_ss (write_table T w1 t') (repeat None (nworkers pack)) (repeat None (nworkers pack)) [] in
    ready T pack (fold_left (work_step pack blobs hists) pre st0) k.
  Proof.
    intros w1 pack hists blobs t' pre k post Hv st0. subst st0. rewrite st0_fold.
    destruct (valid_order_split pack pre k post Hv) as (Hok & Hlt & Hk & Hnin & Hdeps).
    assert (forall d, Sched.has_worked T (ss_st T (Some (SF_ok t')) (final_st T teqb hc hl w1 pack hists blobs pre)) d =
                      Sched.has_worked T (final_st T teqb hc hl w1 pack hists blobs pre) d) as Esame by reflexivity.
    split.
    - rewrite Esame. unfold final_st. rewrite fold_unworked by exact Hnin. apply st_init_unworked.
    - apply forallb_forall. intros d Hd. rewrite Esame. unfold final_st.
      apply (order_all_worked T teqb hc hl pack blobs hists pre [] _ (st_init_lens T w1 pack)); auto.
  Qed.

  (* st_end is the state from which build_ord's outcome is made: same files *)
  Theorem build_ord_final_content : forall (w : world) rp goal w1 tbl pack hists blobs t' ord,
    init_dir T w = Ok (w1, tbl) -> get_nodes T w1 rp goal = Ok pack ->
    read_histories T teqb hr w1 (p_nodes pack) = Some hists ->
    take_blobs T hc tbl (worker_paths pack) = (blobs, t') ->
    let st0 := mk_ss (write_table T w1 t') (repeat None (nworkers pack)) (repeat None (nworkers pack)) [] in
    forall p, content_at (o_world (bo ord w rp goal)) p =
              content_at (ss_world (fold_left (work_step pack blobs hists) ord st0)) p.
  Proof.
    intros w rp goal w1 tbl pack hists blobs t' ord Hi Hg Hh Htb st0 p. subst st0.
    rewrite (build_ord_eq T teqb hc hl hr ord w rp goal w1 tbl pack hists blobs t' Hi Hg Hh Htb). cbv zeta. cbn [o_world].
    rewrite (joined_content T teqb hr). rewrite st0_fold, ss_st_content. reflexivity.
  Qed.

  (* ================================================================== *)
  (* R2: the serial build                                                 *)
  (* ================================================================== *)

  (* through build_ord_spawn_order: the spawn order is a valid order, worker k starts after the workers 0..k-1 *)
  Theorem sources_final_when_worker_starts_serial : forall (w : world) rp goal w1 tbl pack hists blobs t' j n,
    disk_inv w -> hist_sound w -> init_dir T w = Ok (w1, tbl) -> get_nodes T w1 rp goal = Ok pack ->
    Forall det_node (p_nodes pack) ->
    read_histories T teqb hr w1 (p_nodes pack) = Some hists ->
    take_blobs T hc tbl (worker_paths pack) = (blobs, t') ->
    nth_error (p_nodes pack) j = Some n ->
    let k := length (p_leaves pack) + j in
    let st0 := mk_ss (write_table T w1 t') (repeat None (nworkers pack)) (repeat None (nworkers pack)) [] in
    let st_before := fold_left (work_step pack blobs hists) (seq 0 k) st0 in
    let st_end := fold_left (work_step pack blobs hists) (spawn_order pack) st0 in
    (exists r tr, nth k (ss_res st_end) None = Some (r, tr) /\ tr <> TCanceled) ->
    forall s, In s (r_sources (n_rule n)) ->
      content_at (ss_world st_before) s = content_at (o_world (build teqb hc hl hr w rp goal)) s
      /\ content_at (ss_world st_before) s <> None
      /\ content_at (ss_world st_before) s = content_at (scratch_world w pack) s.
  Proof.
    intros w rp goal w1 tbl pack hists blobs t' j n Hinv Hhs Hi Hg Hdet Hh Htb Hn k st0 st_before st_end Hnc s Hs.
    pose proof (get_nodes_plan_wf T _ _ _ _ Hg) as Hwf.
    assert (k < nworkers pack) as Hk.
    { assert (j < length (p_nodes pack)) by (apply nth_error_Some; rewrite Hn; discriminate). unfold nworkers. lia. }
    assert (nth_error (p_nodes pack) (k - length (p_leaves pack)) = Some n) as Hn'.
    { replace (k - length (p_leaves pack)) with j by lia. exact Hn. }
    pose proof (sources_final_when_worker_starts w rp goal w1 tbl pack hists blobs t' (spawn_order pack) (seq 0 k) k
                  (seq (S k) (nworkers pack - S k)) n Hinv Hhs Hi Hg Hdet (spawn_order_valid pack Hwf) Hh Htb
                  (seq_split_at _ _ Hk) Hn' ltac:(lia) Hnc s Hs) as (R1 & R2 & R3).
    split; [|split; assumption].
    rewrite <- (build_ord_spawn_order T teqb hc hl hr w rp goal w1 tbl pack Hi Hg).
    rewrite (build_ord_final_content w rp goal w1 tbl pack hists blobs t' (spawn_order pack) Hi Hg Hh Htb). exact R1.
  Qed.

  (* ---------- on Build.build's own run states ---------- *)

  (* the serial run of a block of consecutive nodes and the same work steps in spawn order (SchedSerial.sim_nodes
     for a block that need not reach the last node) *)
  Lemma sim_nodes_block pack (w1 : world) hists blobs t' :
    plan_wf pack -> read_histories T teqb hr w1 (p_nodes pack) = Some hists ->
    forall ns pre rest rs ss,
      p_nodes pack = pre ++ ns ++ rest ->
      sim T hc pack w1 blobs t' (length (p_leaves pack) + length pre) rs ss ->
      exists rs', run_nodes T teqb hc hl hr rs ns = Some rs' /\
                  sim T hc pack w1 blobs t' (length (p_leaves pack) + (length pre + length ns)) rs'
                      (fold_left (work_step pack blobs hists) (seq (length (p_leaves pack) + length pre) (length ns)) ss).
  Proof.
    intros Hwf Hh. induction ns as [|nd ns IH]; intros pre rest rs ss E H; cbn [fold_left seq length run_nodes].
    - exists rs. split; [reflexivity|]. rewrite Nat.add_0_r. exact H.
    - assert (nth_error (p_nodes pack) (length pre) = Some nd) as Hn.
      { rewrite E, nth_error_app2 by lia. rewrite Nat.sub_diag. reflexivity. }
      destruct (sim_node_step T teqb hc hl hr pack w1 hists blobs t' Hwf Hh _ _ _ _ H Hn) as (rs1 & Hrun & H1).
      rewrite Hrun.
      assert (length (p_leaves pack) + length (pre ++ [nd]) = S (length (p_leaves pack) + length pre)) as Elen.
      { rewrite app_length. cbn [length]. lia. }
      rewrite <- Elen in H1.
      assert (p_nodes pack = (pre ++ [nd]) ++ ns ++ rest) as E' by (rewrite <- app_assoc; exact E).
      destruct (IH (pre ++ [nd]) rest rs1 _ E' H1) as (rs' & Hrun' & H2).
      exists rs'. split; [exact Hrun'|]. rewrite Elen in H2.
      replace (length (p_leaves pack) + (length pre + S (length ns)))
        with (length (p_leaves pack) + (length (pre ++ [nd]) + length ns)) by (rewrite app_length; cbn [length]; lia).
      exact H2.
  Qed.

  (* Build.build runs the leaves, then the rule nodes in plan order (run_nodes). rs_before is the state in which
     node j is about to run, rs_end the state after the last node, from which the outcome is made *)
  Theorem sources_final_when_node_runs_serial : forall (w : world) rp goal w1 tbl pack j n rs_before rs_end r tr,
    disk_inv w -> hist_sound w -> init_dir T w = Ok (w1, tbl) -> get_nodes T w1 rp goal = Ok pack ->
    Forall det_node (p_nodes pack) ->
    nth_error (p_nodes pack) j = Some n ->
    let rs_leaves := st_leaves T teqb hc (write_table T w1 (table_rest T hc tbl pack)) tbl pack in
    run_nodes T teqb hc hl hr rs_leaves (firstn j (p_nodes pack)) = Some rs_before ->
    run_nodes T teqb hc hl hr rs_leaves (p_nodes pack) = Some rs_end ->
    nth_error (rs_results T rs_end) (length (p_leaves pack) + j) = Some (r, tr) -> tr <> TCanceled ->
    forall s, In s (r_sources (n_rule n)) ->
      content_at (rs_world T rs_before) s = content_at (rs_world T rs_end) s
      /\ content_at (rs_world T rs_end) s = content_at (o_world (build teqb hc hl hr w rp goal)) s
      /\ content_at (rs_world T rs_before) s <> None
      /\ content_at (rs_world T rs_before) s = content_at (scratch_world w pack) s.
  Proof.
    intros w rp goal w1 tbl pack j n rs_before rs_end r tr Hinv Hhs Hi Hg Hdet Hn rs_leaves Hrb Hre Hres Htr s Hs.
    pose proof (get_nodes_plan_wf T _ _ _ _ Hg) as Hwf.
    destruct (take_blobs T hc tbl (worker_paths pack)) as [blobs t'] eqn:Htb.
    assert (table_rest T hc tbl pack = t') as Etr by (unfold table_rest; rewrite Htb; reflexivity).
    subst rs_leaves. rewrite Etr in Hrb, Hre. set (W := write_table T w1 t') in *.
    destruct (read_histories T teqb hr w1 (p_nodes pack)) as [hists|] eqn:Hh.
    2:{ exfalso. unfold read_histories in Hh. apply all_some_none_iff in Hh. apply in_map_iff in Hh as (nd & Hnone & Hin).
        apply (run_nodes_reads T teqb hc hl hr _ _ _ Hre nd Hin). rewrite (st_leaves_world T teqb hc). exact Hnone. }
    assert (read_histories T teqb hr W (p_nodes pack) = Some hists) as HhW by exact Hh.
    assert (j < length (p_nodes pack)) as Hj by (apply nth_error_Some; rewrite Hn; discriminate).
    set (nl := length (p_leaves pack)) in *.
    (* the leaves *)
    assert (sim T hc pack W blobs t' 0 (mk_rs T W tbl [] [] [] []) (st_init T W pack)) as H0.
    { constructor; cbn; try reflexivity; try (rewrite Nat.sub_0_r; reflexivity). exact Htb. }
    pose proof (sim_leaves T teqb hc hl pack W hists blobs t' (p_leaves pack) [] _ _ eq_refl H0) as H1.
    cbn [length] in H1. fold nl in H1. fold (st_leaves T teqb hc W tbl pack) in H1.
    (* the nodes before node j *)
    assert (p_nodes pack = [] ++ firstn j (p_nodes pack) ++ skipn j (p_nodes pack)) as Esplit.
    { cbn [app]. symmetry. apply firstn_skipn. }
    replace nl with (nl + length (@nil node)) in H1 at 1 by (cbn [length]; lia).
    destruct (sim_nodes_block pack W hists blobs t' Hwf HhW _ _ _ _ _ Esplit H1) as (rsb & Hrunb & Hb).
    rewrite Hrb in Hrunb. injection Hrunb as <-.
    rewrite firstn_length_le in Hb by lia. cbn [length] in Hb. rewrite Nat.add_0_r in Hb.
    rewrite <- fold_left_app, <- seq_app in Hb. cbn [Nat.add] in Hb.
    (* all nodes *)
    destruct (sim_all T teqb hc hl hr pack W hists blobs t' Hwf HhW tbl Htb) as (rse & Hrune & He).
    rewrite Hre in Hrune. injection Hrune as <-.
    (* the scheduled statement *)
    assert (exists r0 tr0,
              nth (nl + j) (ss_res (fold_left (work_step pack blobs hists) (spawn_order pack) (st_init T W pack))) None
              = Some (r0, tr0) /\ tr0 <> TCanceled) as Hnc.
    { exists r, tr. split; [|exact Htr]. rewrite (sim_res _ _ _ _ _ _ _ _ _ He).
      assert (nl + j < length (rs_results T rs_end)) as Hlt by (apply nth_error_Some; rewrite Hres; discriminate).
      rewrite (nth_map_some_app _ _ _ (r, tr)) by exact Hlt. f_equal. apply nth_error_nth. exact Hres. }
    pose proof (sources_final_when_worker_starts_serial w rp goal w1 tbl pack hists blobs t' j n Hinv Hhs Hi Hg Hdet Hh Htb Hn
                  Hnc s Hs) as (R1 & R2 & R3).
    cbv zeta in R1, R2, R3. fold nl in R1, R2, R3.
    change (mk_ss (write_table T w1 t') (repeat None (nworkers pack)) (repeat None (nworkers pack)) [])
      with (st_init T W pack) in R1, R2, R3.
    rewrite (sim_world _ _ _ _ _ _ _ _ _ Hb) in R1, R2, R3.
    assert (content_at (rs_world T rs_end) s = content_at (o_world (build teqb hc hl hr w rp goal)) s) as Eend.
    { rewrite <- (build_ord_spawn_order T teqb hc hl hr w rp goal w1 tbl pack Hi Hg).
      rewrite (build_ord_final_content w rp goal w1 tbl pack hists blobs t' (spawn_order pack) Hi Hg Hh Htb).
      change (mk_ss (write_table T w1 t') (repeat None (nworkers pack)) (repeat None (nworkers pack)) [])
        with (st_init T W pack).
      rewrite (sim_world _ _ _ _ _ _ _ _ _ He). reflexivity. }
    split; [congruence|]. split; [exact Eend|]. split; assumption.
  Qed.
End C03.

(* ================================================================== *)
(* R3: the free symbolic hashes                                         *)
(* ================================================================== *)

Theorem sources_final_when_worker_starts_sym : forall (w : world sym) rp goal w1 tbl pack hists blobs t' ord pre k post n,
  disk_inv sym_eqb SContent w -> hist_sound_sym w -> init_dir sym w = Ok (w1, tbl) -> get_nodes sym w1 rp goal = Ok pack ->
  Forall det_node (p_nodes pack) -> valid_order pack ord ->
  read_histories sym sym_eqb SRule w1 (p_nodes pack) = Some hists ->
  take_blobs sym SContent tbl (worker_paths pack) = (blobs, t') ->
  ord = pre ++ k :: post ->
  nth_error (p_nodes pack) (k - length (p_leaves pack)) = Some n -> length (p_leaves pack) <= k ->
  let st0 := mk_ss (write_table sym w1 t') (repeat None (nworkers pack)) (repeat None (nworkers pack)) [] in
  let st_before := fold_left (work_step sym_eqb SContent SList pack blobs hists) pre st0 in
  let st_end := fold_left (work_step sym_eqb SContent SList pack blobs hists) ord st0 in
  (exists r tr, nth k (ss_res st_end) None = Some (r, tr) /\ tr <> TCanceled) ->
  forall s, In s (r_sources (n_rule n)) ->
    content_at (ss_world st_before) s = content_at (ss_world st_end) s
    /\ content_at (ss_world st_before) s <> None
    /\ content_at (ss_world st_before) s = content_at (scratch_world w pack) s.
Proof.
  exact (sources_final_when_worker_starts sym sym_eqb SContent SList SRule sym_eqb_spec SContent_inj SList_inj).
Qed.

Theorem sources_stay_final_sym : forall (w : world sym) rp goal w1 tbl pack hists blobs t' ord pre k mid rest n,
  disk_inv sym_eqb SContent w -> hist_sound_sym w -> init_dir sym w = Ok (w1, tbl) -> get_nodes sym w1 rp goal = Ok pack ->
  Forall det_node (p_nodes pack) -> valid_order pack ord ->
  read_histories sym sym_eqb SRule w1 (p_nodes pack) = Some hists ->
  take_blobs sym SContent tbl (worker_paths pack) = (blobs, t') ->
  ord = pre ++ k :: mid ++ rest ->
  nth_error (p_nodes pack) (k - length (p_leaves pack)) = Some n -> length (p_leaves pack) <= k ->
  let st0 := mk_ss (write_table sym w1 t') (repeat None (nworkers pack)) (repeat None (nworkers pack)) [] in
  let st_before := fold_left (work_step sym_eqb SContent SList pack blobs hists) pre st0 in
  let st_mid := fold_left (work_step sym_eqb SContent SList pack blobs hists) (pre ++ k :: mid) st0 in
  let st_end := fold_left (work_step sym_eqb SContent SList pack blobs hists) ord st0 in
  (exists r tr, nth k (ss_res st_end) None = Some (r, tr) /\ tr <> TCanceled) ->
  forall s, In s (r_sources (n_rule n)) ->
    content_at (ss_world st_mid) s = content_at (ss_world st_before) s.
Proof.
  exact (sources_stay_final sym sym_eqb SContent SList SRule sym_eqb_spec SContent_inj SList_inj).
Qed.

Theorem sources_final_when_worker_starts_serial_sym : forall (w : world sym) rp goal w1 tbl pack hists blobs t' j n,
  disk_inv sym_eqb SContent w -> hist_sound_sym w -> init_dir sym w = Ok (w1, tbl) -> get_nodes sym w1 rp goal = Ok pack ->
  Forall det_node (p_nodes pack) ->
  read_histories sym sym_eqb SRule w1 (p_nodes pack) = Some hists ->
  take_blobs sym SContent tbl (worker_paths pack) = (blobs, t') ->
  nth_error (p_nodes pack) j = Some n ->
  let k := length (p_leaves pack) + j in
  let st0 := mk_ss (write_table sym w1 t') (repeat None (nworkers pack)) (repeat None (nworkers pack)) [] in
  let st_before := fold_left (work_step sym_eqb SContent SList pack blobs hists) (seq 0 k) st0 in
  let st_end := fold_left (work_step sym_eqb SContent SList pack blobs hists) (spawn_order pack) st0 in
  (exists r tr, nth k (ss_res st_end) None = Some (r, tr) /\ tr <> TCanceled) ->
  forall s, In s (r_sources (n_rule n)) ->
    content_at (ss_world st_before) s = content_at (o_world (build_sym w rp goal)) s
    /\ content_at (ss_world st_before) s <> None
    /\ content_at (ss_world st_before) s = content_at (scratch_world w pack) s.
Proof.
  exact (sources_final_when_worker_starts_serial sym sym_eqb SContent SList SRule sym_eqb_spec SContent_inj SList_inj).
Qed.

Theorem sources_final_when_node_runs_serial_sym : forall (w : world sym) rp goal w1 tbl pack j n rs_before rs_end r tr,
  disk_inv sym_eqb SContent w -> hist_sound_sym w -> init_dir sym w = Ok (w1, tbl) -> get_nodes sym w1 rp goal = Ok pack ->
  Forall det_node (p_nodes pack) ->
  nth_error (p_nodes pack) j = Some n ->
  let rs_leaves := st_leaves sym sym_eqb SContent (write_table sym w1 (table_rest sym SContent tbl pack)) tbl pack in
  run_nodes sym sym_eqb SContent SList SRule rs_leaves (firstn j (p_nodes pack)) = Some rs_before ->
  run_nodes sym sym_eqb SContent SList SRule rs_leaves (p_nodes pack) = Some rs_end ->
  nth_error (rs_results sym rs_end) (length (p_leaves pack) + j) = Some (r, tr) -> tr <> TCanceled ->
  forall s, In s (r_sources (n_rule n)) ->
    content_at (rs_world sym rs_before) s = content_at (rs_world sym rs_end) s
    /\ content_at (rs_world sym rs_end) s = content_at (o_world (build_sym w rp goal)) s
    /\ content_at (rs_world sym rs_before) s <> None
    /\ content_at (rs_world sym rs_before) s = content_at (scratch_world w pack) s.
Proof.
  exact (sources_final_when_node_runs_serial sym sym_eqb SContent SList SRule sym_eqb_spec SContent_inj SList_inj).
Qed.

(* ================================================================== *)
(* a concrete build on which R1 is exercised: cx_pack, order [0;1;3;2]  *)
(* ================================================================== *)

(* SchedFacts.ex_w: rules a <- s, b <- a, c <- a; built with s = "1", then with s = "2", then s is set back to "1".
   In ex_w the file a is the stale one (made from s = "2"). Workers: 0 = leaf s, 1 = a, 2 = b, 3 = c.
   Under the order [0;1;3;2] worker 3 (rule c) starts after the steps [0;1]: a has been recovered by then. *)
Definition c03_hists : list (history sym) :=
  match read_histories sym sym_eqb SRule ex_w1 (p_nodes cx_pack) with Some h => h | None => [] end.
Definition c03_blobs : list (blob sym) := fst (take_blobs sym SContent ex_tbl (worker_paths cx_pack)).
Definition c03_t' : table sym := snd (take_blobs sym SContent ex_tbl (worker_paths cx_pack)).
Definition c03_node_c : node := nth 2 (p_nodes cx_pack) (mk_node [] [] [] (mk_rule [] [] [])).
Definition c03_node_b : node := nth 1 (p_nodes cx_pack) (mk_node [] [] [] (mk_rule [] [] [])).

Definition c03_st0 : sstate sym :=
  mk_ss (write_table sym ex_w1 c03_t') (repeat None (nworkers cx_pack)) (repeat None (nworkers cx_pack)) [].
Definition c03_run (ord : list nat) : sstate sym :=
  fold_left (work_step sym_eqb SContent SList cx_pack c03_blobs c03_hists) ord c03_st0.

Lemma c03_hh : read_histories sym sym_eqb SRule ex_w1 (p_nodes cx_pack) = Some c03_hists.
Proof. vm_compute. reflexivity. Qed.

Lemma c03_tb : take_blobs sym SContent ex_tbl (worker_paths cx_pack) = (c03_blobs, c03_t').
Proof. unfold c03_blobs, c03_t'. destruct (take_blobs sym SContent ex_tbl (worker_paths cx_pack)); reflexivity. Qed.

(* the hypotheses of R1 hold for worker 3 = rule c after [0;1], and for worker 2 = rule b after [0;1;3] *)
Example c03_ex_worker_c : forall s, In s (r_sources (n_rule c03_node_c)) ->
  content_at (ss_world (c03_run [0; 1])) s = content_at (ss_world (c03_run [0; 1; 3; 2])) s
  /\ content_at (ss_world (c03_run [0; 1])) s <> None
  /\ content_at (ss_world (c03_run [0; 1])) s = content_at (scratch_world ex_w cx_pack) s.
Proof.
  destruct ex_inv as [Hinv Hhs]. destruct ex_orders_valid as [V1 _].
  apply (sources_final_when_worker_starts_sym ex_w RULES_PATH None ex_w1 ex_tbl cx_pack c03_hists c03_blobs c03_t'
           [0; 1; 3; 2] [0; 1] 3 [2] c03_node_c Hinv Hhs ex_init ex_nodes cx_det V1 c03_hh c03_tb eq_refl).
  - vm_compute. reflexivity.
  - vm_compute. lia.
  - vm_compute. eexists. eexists. split; [reflexivity | discriminate].
Qed.

Example c03_ex_worker_b : forall s, In s (r_sources (n_rule c03_node_b)) ->
  content_at (ss_world (c03_run [0; 1; 3])) s = content_at (ss_world (c03_run [0; 1; 3; 2])) s
  /\ content_at (ss_world (c03_run [0; 1; 3])) s <> None
  /\ content_at (ss_world (c03_run [0; 1; 3])) s = content_at (scratch_world ex_w cx_pack) s.
Proof.
  destruct ex_inv as [Hinv Hhs]. destruct ex_orders_valid as [V1 _].
  apply (sources_final_when_worker_starts_sym ex_w RULES_PATH None ex_w1 ex_tbl cx_pack c03_hists c03_blobs c03_t'
           [0; 1; 3; 2] [0; 1; 3] 2 [] c03_node_b Hinv Hhs ex_init ex_nodes cx_det V1 c03_hh c03_tb eq_refl).
  - vm_compute. reflexivity.
  - vm_compute. lia.
  - vm_compute. eexists. eexists. split; [reflexivity | discriminate].
Qed.

(* ... and the conclusion is not trivial: c's only source is a; when worker c starts a holds "1", the content of the
   from-scratch build, whereas the build started with the stale a = "2": worker 1 really had to do its work before.
   st_end is the state of build_ord: same files as its outcome. *)
Example c03_ex_values :
  r_sources (n_rule c03_node_c) = [bs "a"] /\
  content_at ex_w (bs "a") = Some (bs "2") /\
  content_at (ss_world c03_st0) (bs "a") = Some (bs "2") /\
  content_at (ss_world (c03_run [0])) (bs "a") = Some (bs "2") /\
  content_at (ss_world (c03_run [0; 1])) (bs "a") = Some (bs "1") /\
  content_at (ss_world (c03_run [0; 1; 3; 2])) (bs "a") = Some (bs "1") /\
  content_at (o_world (build_ord_sym [0; 1; 3; 2] ex_w RULES_PATH None)) (bs "a") = Some (bs "1") /\
  content_at (scratch_world ex_w cx_pack) (bs "a") = Some (bs "1").
Proof. vm_compute. repeat split; reflexivity. Qed.

(* the hypothesis "not canceled" cannot be dropped from the second and third conjunct: with the leaf s missing
   (SchedFacts.ex_wf) every rule is canceled, and a, the source of c, does not exist when worker 3 "starts" *)
Definition c03f_w1 : world sym := match init_dir sym ex_wf with Ok (w1, _) => w1 | Err _ => ex_wf end.
Definition c03f_tbl : table sym := match init_dir sym ex_wf with Ok (_, t) => t | Err _ => [] end.
Definition c03f_run (ord : list nat) : sstate sym :=
  fold_left (work_step sym_eqb SContent SList cx_pack
               (fst (take_blobs sym SContent c03f_tbl (worker_paths cx_pack)))
               (match read_histories sym sym_eqb SRule c03f_w1 (p_nodes cx_pack) with Some h => h | None => [] end))
            ord
            (mk_ss (write_table sym c03f_w1 (snd (take_blobs sym SContent c03f_tbl (worker_paths cx_pack))))
                   (repeat None (nworkers cx_pack)) (repeat None (nworkers cx_pack)) []).

Example c03_ex_canceled :
  get_nodes sym c03f_w1 RULES_PATH None = Ok cx_pack /\
  (exists r, nth 3 (ss_res (c03f_run [0; 1; 3; 2])) None = Some (r, TCanceled)) /\
  content_at (ss_world (c03f_run [0; 1])) (bs "a") = None.
Proof. vm_compute. split; [reflexivity|]. split; [eexists; reflexivity | reflexivity]. Qed.

(* R2 on the same build, serial: node c (j = 2) runs after the leaves and the nodes a, b *)
Definition c03_rs_leaves : run_state sym :=
  st_leaves sym sym_eqb SContent (write_table sym ex_w1 (table_rest sym SContent ex_tbl cx_pack)) ex_tbl cx_pack.
Definition c03_rs (ns : list node) : run_state sym :=
  match run_nodes sym sym_eqb SContent SList SRule c03_rs_leaves ns with Some rs => rs | None => c03_rs_leaves end.

Example c03_ex_serial_c : forall s, In s (r_sources (n_rule c03_node_c)) ->
  content_at (rs_world sym (c03_rs (firstn 2 (p_nodes cx_pack)))) s = content_at (rs_world sym (c03_rs (p_nodes cx_pack))) s
  /\ content_at (rs_world sym (c03_rs (p_nodes cx_pack))) s = content_at (o_world (build_sym ex_w RULES_PATH None)) s
  /\ content_at (rs_world sym (c03_rs (firstn 2 (p_nodes cx_pack)))) s <> None
  /\ content_at (rs_world sym (c03_rs (firstn 2 (p_nodes cx_pack)))) s = content_at (scratch_world ex_w cx_pack) s.
Proof.
  destruct ex_inv as [Hinv Hhs].
  assert (exists r tr, nth_error (rs_results sym (c03_rs (p_nodes cx_pack))) (length (p_leaves cx_pack) + 2) = Some (r, tr) /\
                       tr <> TCanceled) as (r & tr & Hres & Htr).
  { vm_compute. eexists. eexists. split; [reflexivity | discriminate]. }
  apply (sources_final_when_node_runs_serial_sym ex_w RULES_PATH None ex_w1 ex_tbl cx_pack 2 c03_node_c
           (c03_rs (firstn 2 (p_nodes cx_pack))) (c03_rs (p_nodes cx_pack)) r tr Hinv Hhs ex_init ex_nodes cx_det).
  - vm_compute. reflexivity.
  - vm_compute. reflexivity.
  - vm_compute. reflexivity.
  - exact Hres.
  - exact Htr.
Qed.

Example c03_ex_serial_values :
  content_at (rs_world sym c03_rs_leaves) (bs "a") = Some (bs "2") /\
  content_at (rs_world sym (c03_rs (firstn 2 (p_nodes cx_pack)))) (bs "a") = Some (bs "1").
Proof. vm_compute. split; reflexivity. Qed.
