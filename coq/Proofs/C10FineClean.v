(* C10 under interleavings, part 2: the clean, under EVERY interleaving of its threads (Model/CleanFine.v), when the
   targets have pairwise different contents: no two byte-identical files race for a cache entry, so whatever the
   order each target's VERY file (bytes, modification time, executable bit) ends up in the cache under its hash. *)
From Coq Require Import Relations.Relation_Operators Relations.Operators_Properties.
From Ruler Require Import Tactics Bytes AList RuleSyntax Parser TopoSort TopoSpec World Cmdlang Work Build Ops Inv
     BuildSpec Ideal Sched Fine CleanFine BytesFacts InvFacts TopoSortFacts BuildFacts C01Script C01Hist C01Build C01Plan C04Facts
     SchedBasic FineBasic CleanFineBasic CleanFineInv CleanFineFacts C10Facts C10Summary C10Clean C10Restore C10FineBuild.
Local Open Scope nat_scope.

Section CleanDistinct.
  Variable T : Type.
  Variable teqb : T -> T -> bool.
  Variable hc : bytes -> T.
  Hypothesis teqb_spec : forall a b, teqb a b = true <-> a = b.
  Hypothesis hc_inj : forall a b, hc a = hc b -> a = b.

  Notation world := (world T).
  Notation cstate := (cstate T).
  Notation cstep := (cstep teqb hc).
  Notation crun := (crun teqb hc).
  Notation disk_inv := (disk_inv teqb hc).
  Notation steps := (clos_refl_trans world (step teqb hc)).
  Notation blob_ok := (InvProofs.blob_ok T teqb hc).

  Variable F : bytes -> option file.       (* the files of reference: the workspace before the clean *)
  Variable w0 : world.
  Variable blobs : list (blob T).
  Hypothesis Hinv0 : disk_inv w0.
  Hypothesis Hb0 : forall b, In b blobs -> blob_ok w0 b.
  Hypothesis Hnd : NoDup (flat_map (map fst) blobs).
  Hypothesis HF : forall p, In p (flat_map (map fst) blobs) -> fget w0 p = F p /\ F p <> None.
  Hypothesis Hdist : distinct_on F (flat_map (map fst) blobs).
  Hypothesis Hc0 : cache_of w0 <> None.

  (* thread k has dealt with its target i *)
  Definition vis (pos : list (option nat)) (k i : nat) : Prop :=
    match nth k pos None with None => True | Some i' => i < i' end.

  Definition cached (w : world) (p : bytes) : Prop :=
    exists c f, cache_of w = Some c /\ F p = Some f /\ alookup teqb c (hc (f_content f)) = Some f.

  Record dinv (st : cstate) : Prop := mk_dinv {
    di_len : length (cs_pos st) = length blobs;
    di_steps : steps w0 (cs_world st);
    di_cache : cache_of (cs_world st) <> None;
    di_tgt : forall k i p a, nth_error (nth k blobs []) i = Some (p, a) ->
        (vis (cs_pos st) k i -> fget (cs_world st) p = None /\ cached (cs_world st) p) /\
        (~ vis (cs_pos st) k i -> fget (cs_world st) p = F p)
  }.

  Lemma blob_at k i p a :
    nth_error (nth k blobs []) i = Some (p, a) ->
    k < length blobs /\ nth_error blobs k = Some (nth k blobs []) /\ nth_error (map fst (nth k blobs [])) i = Some p /\
    In p (flat_map (map fst) blobs) /\ In (p, a) (nth k blobs []) /\ In (nth k blobs []) blobs.
  Proof.
    intro H.
    assert (k < length blobs) as Hk.
    { destruct (Nat.lt_ge_cases k (length blobs)) as [X | X]; [exact X|].
      rewrite (nth_overflow _ _ X) in H. destruct i; discriminate. }
    pose proof (nth_error_nth' blobs [] Hk) as E.
    split; [exact Hk|]. split; [exact E|]. split; [rewrite nth_error_map, H; reflexivity|].
    assert (In (nth k blobs []) blobs) as Hin by (eapply nth_error_In; eauto).
    split; [|split; [eapply nth_error_In; eauto | exact Hin]].
    apply in_flat_map. exists (nth k blobs []). split; [exact Hin|].
    apply in_map_iff. exists (p, a). split; [reflexivity | eapply nth_error_In; eauto].
  Qed.

  Lemma dinv_init : dinv (cinit T w0 (length blobs)).
  Proof.
    constructor; unfold CleanFineBasic.cinit; cbn [cs_pos cs_world].
    - apply repeat_length.
    - apply rt_refl.
    - exact Hc0.
    - intros k i p a H. destruct (blob_at k i p a H) as (Hk & _ & _ & Hin & _).
      unfold vis. rewrite (nth_repeat_lt (Some 0) None (length blobs) k Hk).
      split; [lia|]. intros _. apply HF. exact Hin.
  Qed.

  Lemma vis_other pos k v k' i : k' <> k -> (vis (set_nth k v pos) k' i <-> vis pos k' i).
  Proof. intro H. unfold vis. rewrite nth_set_nth_neq by exact H. reflexivity. Qed.

  Lemma vis_self pos k v i : k < length pos -> (vis (set_nth k v pos) k i <-> match v with None => True | Some i' => i < i' end).
  Proof. intro H. unfold vis. rewrite nth_set_nth_eq by exact H. reflexivity. Qed.

  Lemma dinv_step st k st' : dinv st -> cstep blobs st k = Some st' -> dinv st'.
  Proof.
    intros [Hlen Hst Hca Htg] H.
    destruct (cstep_cases T teqb hc _ _ _ _ H) as [i Ep Eb E | i q a Ep Eb Eg E | i q a t Ep Eb Eg Ebk E | i q a t w2 Ep Eb Eg Ebk E].
    - (* the thread ends *)
      subst st'. assert (k < length (cs_pos st)) as Hk by (eapply nth_some_lt; eauto).
      constructor; cbn [cs_pos cs_world]; [rewrite set_nth_length; exact Hlen | exact Hst | exact Hca |].
      intros k' i' p a Hb. destruct (Nat.eq_dec k' k) as [-> | Hne].
      + rewrite vis_self by exact Hk.
        assert (vis (cs_pos st) k i') as Hv.
        { unfold vis. rewrite Ep. apply nth_error_lt in Hb. apply nth_error_ge in Eb. lia. }
        split; [intros _; apply (Htg k i' p a Hb); exact Hv | intro X; exfalso; apply X; exact I].
      + rewrite vis_other by exact Hne. exact (Htg k' i' p a Hb).
    - (* the target is not there: impossible *)
      exfalso. destruct (blob_at k i q a Eb) as (_ & _ & _ & Hin & _).
      destruct (Htg k i q a Eb) as [_ Hnv].
      assert (fget (cs_world st) q = F q) as Hf by (apply Hnv; unfold vis; rewrite Ep; lia).
      apply (get_file_ticket_none T teqb hc) in Eg. rewrite Eg in Hf. apply (proj2 (HF q Hin)). symmetry. exact Hf.
    - (* no cache directory: impossible *)
      exfalso. unfold back_up in Ebk. destruct (cache_of (cs_world st)) as [c|]; [|contradiction].
      apply (InvProofs.get_file_ticket_sound T teqb hc) in Eg.
      + destruct Eg as (f & Ef & _). rewrite Ef in Ebk. discriminate.
      + destruct (blob_at k i q a Eb) as (_ & _ & _ & _ & Hpa & Hbin).
        eapply (InvProofs.state_ok_stable_steps T teqb hc teqb_spec); [exact Hinv0 | exact Hst | eapply Hb0; eauto].
    - (* the target moves into the cache *)
      subst st'. assert (k < length (cs_pos st)) as Hk by (eapply nth_some_lt; eauto).
      destruct (blob_at k i q a Eb) as (Hkb & Ekb & Eqi & Hin & Hpa & Hbin).
      assert (state_ok teqb hc (cs_world st) a) as Hok.
      { eapply (InvProofs.state_ok_stable_steps T teqb hc teqb_spec); [exact Hinv0 | exact Hst | eapply Hb0; eauto]. }
      destruct (InvProofs.get_file_ticket_sound T teqb hc _ _ _ _ Hok Eg) as (f & Ef & Et).
      destruct (back_up_spec T teqb _ _ _ _ Ebk) as (c & f' & Hc & Hf' & Ew2).
      assert (f' = f) as -> by congruence.
      destruct (Htg k i q a Eb) as [_ Hnv].
      assert (F q = Some f) as HFq. { rewrite <- Hnv; [exact Ef|]. unfold vis. rewrite Ep. lia. }
      constructor; cbn [cs_pos cs_world].
      + rewrite set_nth_length. exact Hlen.
      + eapply rt_trans; [exact Hst|]. eapply InvProofs.back_up_steps; eauto.
      + subst w2. cbn. discriminate.
      + intros k' i' p a' Hb. destruct (blob_at k' i' p a' Hb) as (_ & Ekb' & Epi' & Hin' & _).
        destruct (bytes_eqb p q) eqn:Epq.
        * apply bytes_eqb_eq in Epq. subst p.
          destruct (flat_pos_unique (map fst) blobs Hnd k' k _ _ i' i q Ekb' Epi' Ekb Eqi) as [-> ->].
          rewrite vis_self by exact Hk. split; [|intro X; exfalso; apply X; lia].
          intros _. split.
          -- subst w2. unfold fget. cbn. apply (BuildFacts.alookup_aremove_eq bytes_eqb).
          -- exists (ainsert teqb c t f), f. split; [subst w2; reflexivity|]. split; [exact HFq|].
             rewrite <- Et. apply (BuildFacts.alookup_ainsert_eq teqb teqb_spec).
        * assert (p <> q) as Hneq.
          { intro X. assert (bytes_eqb p q = true) as Y by (apply bytes_eqb_eq; exact X). congruence. }
          rewrite (back_up_fget_neq T teqb _ _ _ _ p Ebk Hneq).
          assert (vis (set_nth k (Some (S i)) (cs_pos st)) k' i' <-> vis (cs_pos st) k' i') as Hv.
          { destruct (Nat.eq_dec k' k) as [-> | Hne]; [|apply vis_other; exact Hne].
            rewrite vis_self by exact Hk. unfold vis. rewrite Ep.
            assert (i' <> i) by (intros ->; congruence). lia. }
          destruct (Htg k' i' p a' Hb) as [H1 H2]. split.
          -- intro X. apply Hv in X. destruct (H1 X) as [Habs (c0 & g & Hc0g & Hg & Hcg)]. split; [exact Habs|].
             assert (c0 = c) as -> by congruence.
             exists (ainsert teqb c t f), g. split; [subst w2; reflexivity|]. split; [exact Hg|].
             rewrite (BuildFacts.alookup_ainsert_neq teqb teqb_spec); [exact Hcg|].
             intro E. rewrite Et in E. apply hc_inj in E. apply Hneq. apply (Hdist p q g f); auto.
          -- intro X. apply H2. intro Y. apply X. apply Hv. exact Y.
  Qed.

  Theorem dinv_run ch : dinv (crun blobs ch (cinit T w0 (length blobs))).
  Proof. apply (crun_ind T teqb hc dinv); [intros st k st' Hd H; eapply dinv_step; eauto | exact dinv_init]. Qed.

  (* a complete run leaves every target's very file in the cache *)
  Theorem crun_distinct_cached ch :
    call_done (crun blobs ch (cinit T w0 (length blobs))) = true ->
    cache_has T teqb hc (cs_world (crun blobs ch (cinit T w0 (length blobs)))) F (flat_map (map fst) blobs).
  Proof.
    intro Hd. pose proof (dinv_run ch) as Hi. set (st := crun blobs ch (cinit T w0 (length blobs))) in *.
    destruct (cache_of (cs_world st)) as [c|] eqn:Ec; [|exfalso; apply (di_cache _ Hi); exact Ec].
    exists c. split; [exact Ec|]. intros p f Hp Hf.
    apply in_flat_map in Hp as (b & Hb & Hp). apply in_map_iff in Hp as ([p' a] & Ep & Hpa). cbn in Ep. subst p'.
    destruct (In_nth_error _ _ Hb) as (k & Hk). destruct (In_nth_error _ _ Hpa) as (i & Hi').
    assert (nth k blobs [] = b) as Eb by (apply nth_error_nth; exact Hk).
    rewrite <- Eb in Hi'.
    destruct (di_tgt _ Hi k i p a Hi') as [Hv _].
    destruct Hv as [_ (c' & g & Hc' & Hg & Hcg)]; [unfold vis; rewrite (call_done_nth T st k Hd); exact I|].
    assert (c' = c) as -> by congruence. assert (g = f) as -> by congruence. exact Hcg.
  Qed.
End CleanDistinct.

Section CleanFineDistinct.
  Variable T : Type.
  Variable teqb : T -> T -> bool.
  Variable hc : bytes -> T.
  Hypothesis teqb_spec : forall a b, teqb a b = true <-> a = b.
  Hypothesis hc_inj : forall a b, hc a = hc b -> a = b.

  Notation world := (world T).
  Notation disk_inv := (disk_inv teqb hc).
  Notation clean_fine := (clean_fine teqb hc).
  Notation clean := (clean teqb hc).
  Notation clean_complete := (clean_complete teqb hc).
  Notation cache_has := (cache_has T teqb hc).

  Lemma clean_fine_cache_has_when_distinct : forall (wa : world) rp goal wa1 tbl pack ch,
    disk_inv wa -> init_dir T wa = Ok (wa1, tbl) -> get_nodes T wa1 rp goal = Ok pack ->
    (forall t, In t (plan_targets pack) -> fget wa t <> None) ->
    distinct_on (fget wa) (plan_targets pack) ->
    clean_complete ch wa rp goal ->
    cache_has (o_world (clean_fine ch wa rp goal)) (fget wa) (plan_targets pack).
  Proof.
    intros wa rp goal wa1 tbl pack ch Hinv Hi Hg Hex Hdist Hc.
    apply (clean_complete_eq T teqb hc _ _ _ _ _ _ _ Hi Hg) in Hc.
    rewrite (clean_fine_eq T teqb hc _ _ _ _ _ _ _ Hi Hg). cbv zeta. cbn [o_world].
    destruct (InvProofs.init_dir_rs_inv T teqb hc teqb_spec _ _ _ Hinv Hi) as [Hs1 Ht1].
    destruct (init_dir_ok T teqb _ _ _ Hi) as (Hfiles & _ & Hcsome & _).
    pose proof (get_nodes_plan_wf T _ _ _ _ Hg) as (Hnd & _).
    pose proof (node_blobs_paths T hc (p_nodes pack) tbl) as Epaths. fold (plan_targets pack) in Epaths.
    rewrite <- Epaths.
    apply (crun_distinct_cached T teqb hc teqb_spec hc_inj (fget wa) wa1 (node_blobs hc tbl (p_nodes pack))).
    - exact (inv_steps T teqb hc teqb_spec _ _ Hinv Hs1).
    - apply (node_blobs_ok T teqb hc teqb_spec). exact Ht1.
    - rewrite Epaths. exact Hnd.
    - rewrite Epaths. intros p Hp. split; [apply files_fget; exact Hfiles | apply Hex; exact Hp].
    - rewrite Epaths. exact Hdist.
    - exact Hcsome.
    - exact Hc.
  Qed.

  (* with pairwise different contents every complete run of the clean's threads leaves, for each target, the SAME
     FILE in the cache as the serial clean: the very file that was in the workspace *)
  Theorem clean_fine_same_files_when_distinct : forall (wa : world) rp goal wa1 tbl pack ch,
    disk_inv wa -> init_dir T wa = Ok (wa1, tbl) -> get_nodes T wa1 rp goal = Ok pack ->
    (forall t, In t (plan_targets pack) -> fget wa t <> None) ->
    distinct_on (fget wa) (plan_targets pack) ->
    clean_complete ch wa rp goal ->
    forall t f, In t (plan_targets pack) -> fget wa t = Some f ->
      exists c c', cache_of (o_world (clean_fine ch wa rp goal)) = Some c /\
                   cache_of (o_world (clean wa rp goal)) = Some c' /\
                   alookup teqb c (hc (f_content f)) = Some f /\ alookup teqb c' (hc (f_content f)) = Some f.
  Proof.
    intros wa rp goal wa1 tbl pack ch Hinv Hi Hg Hex Hdist Hc t f Ht Hf.
    destruct (clean_fine_cache_has_when_distinct wa rp goal wa1 tbl pack ch Hinv Hi Hg Hex Hdist Hc) as (c & Ec & Hcf).
    pose proof (get_nodes_plan_wf T _ _ _ _ Hg) as (Hnd & _).
    destruct (clean_summary T teqb hc teqb_spec hc_inj wa rp goal wa1 tbl pack Hinv Hi Hg Hnd Hex Hdist)
      as (_ & (c' & Ec' & Hcf') & _).
    exists c, c'. split; [exact Ec|]. split; [exact Ec'|]. split; [apply (Hcf t f Ht Hf) | apply (Hcf' t f Ht Hf)].
  Qed.
End CleanFineDistinct.
