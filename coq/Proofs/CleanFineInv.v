(* CLEAN-FINE, part 2: the invariant of the runs of Model/CleanFine.v.

   The only thing a thread of clean() does to shared state is `back_up`: a file leaves the workspace and becomes the
   cache entry named by the hash of its bytes.  What is needed of the remembered states is that each is sound FOR ITS
   PATH (CoarseInv.state_ok_at): then the ticket the shortcut yields is the hash of the file that is there, under
   every interleaving (a path loses its file, it never gets another one).  This holds under the fine clock
   (disk_inv) and under any clock (coarse_inv); the section Run below is common to both.

   cinv st: no thread has failed; the history directory, the saved table, the clock are as at the start; the file at
   a path is the one of the start or is gone, and it is gone exactly when it was missing at the start or some thread
   has been through the path (`moved`); the cache is content-addressed and its NAMES are those of the start plus the
   hashes of the files moved so far.  At the end of a complete run `moved` is "is a target of the plan", whatever
   the order: K3.  Which FILE (modification time, permission bit) sits under a name is not determined. *)
From Coq Require Import Relations.Relation_Operators Relations.Operators_Properties.
From Ruler Require Import Tactics Bytes AList RuleSyntax TopoSort World Cmdlang Work Build Ops Inv
     BuildSpec Sched CleanFine BytesFacts InvFacts BuildFacts SchedBasic FineBasic CoarseInv CoarseBuild CleanFineBasic.
Local Open Scope nat_scope.

Section Defs.
  Variable T : Type.
  Variable teqb : T -> T -> bool.
  Variable hc : bytes -> T.

  (* the bytes stored in the cache under the name t *)
  Definition cache_content (w : world T) (t : T) : option bytes :=
    match cache_of w with
    | Some c => option_map f_content (alookup teqb c t)
    | None => None
    end.

  (* every entry of the table is sound for its own path *)
  Definition tbl_at (w : world T) (t : table T) : Prop :=
    forall p st, alookup bytes_eqb t p = Some st -> state_ok_at teqb hc w p st.

  (* the state in which the threads of clean_fine end; None when clean stops before spawning them *)
  Definition clean_final (ch : list nat) (w : world T) (rp : bytes) (goal : option bytes) : option (cstate T) :=
    match init_dir T w with
    | Err _ => None
    | Ok (w1, t) =>
        match get_nodes T w1 rp goal with
        | Err _ => None
        | Ok pack =>
            let blobs := node_blobs hc t (p_nodes pack) in
            Some (crun teqb hc blobs ch (cinit T w1 (length blobs)))
        end
    end.

  (* the choices let every thread end *)
  Definition clean_complete (ch : list nat) (w : world T) (rp : bytes) (goal : option bytes) : Prop :=
    match clean_final ch w rp goal with Some st => call_done st = true | None => True end.
End Defs.

Arguments cache_content {T}.
Arguments tbl_at {T}.
Arguments clean_final {T}.
Arguments clean_complete {T}.

Section CleanFineInv.
  Variable T : Type.
  Variable teqb : T -> T -> bool.
  Variable hc : bytes -> T.
  Hypothesis teqb_spec : forall a b, teqb a b = true <-> a = b.

  Notation world := (world T).
  Notation fstate := (fstate T).
  Notation cstate := (cstate T).
  Notation cstep := (cstep teqb hc).
  Notation crun := (crun teqb hc).
  Notation any_file := (any_file teqb).
  Notation cache_addressed := (cache_addressed teqb hc).
  Notation state_ok_at := (state_ok_at teqb hc).
  Notation protected_content := (protected_content teqb).

  Let beq_spec := bytes_eqb_eq.

  (* ================================================================== *)
  (* one back-up under the hash of the file's bytes                       *)
  (* ================================================================== *)

  Lemma ticket_at (w : world) p a t :
    state_ok_at w p a -> get_file_ticket teqb hc w p a = Some t ->
    exists f, fget w p = Some f /\ t = hc (f_content f).
  Proof.
    intros Hok Hg. rewrite (coarse_shortcut_transparent_main T teqb hc w p a Hok) in Hg.
    destruct (fget w p) as [f|]; [|discriminate]. cbn [option_map] in Hg. injection Hg as <-.
    exists f. auto.
  Qed.

  Lemma ainsert_keeps (c : list (T * file)) t f t' g :
    alookup teqb c t' = Some g -> exists g', alookup teqb (ainsert teqb c t f) t' = Some g'.
  Proof.
    intro H. destruct (InvProofs.key_dec _ teqb_spec t' t) as [-> | Hne].
    - exists f. apply (InvProofs.alookup_ainsert_eq _ teqb_spec).
    - exists g. rewrite (InvProofs.alookup_ainsert_neq _ teqb_spec _ _ _ _ Hne). exact H.
  Qed.

  Lemma back_up_addressed (w : world) p f w1 :
    cache_addressed w -> back_up teqb w (hc (f_content f)) p = Some w1 -> fget w p = Some f -> cache_addressed w1.
  Proof.
    intros Ha Hb Hf. destruct (back_up_spec T teqb _ _ _ _ Hb) as (c & f' & Hc & Hf' & ->).
    assert (f' = f) as -> by congruence.
    intros c' t' g Hc' Hl. unfold cache_of in Hc'. cbn in Hc'. injection Hc' as <-.
    apply (InvProofs.alookup_ainsert_some _ teqb_spec) in Hl as [[-> ->] | [_ Hl]]; [reflexivity|].
    eapply Ha; eauto.
  Qed.

  (* C08 for one back-up, with the ticket known to be the hash of the bytes *)
  Lemma back_up_keeps_content_at (hc_inj : forall a b, hc a = hc b -> a = b) paths (w : world) p f w1 c :
    cache_addressed w -> fget w p = Some f -> back_up teqb w (hc (f_content f)) p = Some w1 ->
    protected_content paths w c -> protected_content paths w1 c.
  Proof.
    intros Ha Hf Hb Hp. destruct (back_up_spec T teqb _ _ _ _ Hb) as (ch & f' & Ec & Ef & ->).
    assert (f' = f) as -> by congruence.
    set (w' := set_cache (remove_file w p) (ainsert teqb ch (hc (f_content f)) f)).
    assert (cache_of w' = Some (ainsert teqb ch (hc (f_content f)) f)) as Ec' by reflexivity.
    destruct Hp as [(q & g & Hq & Hg' & <-) | (ch0 & t0 & g & Hc0 & Hl & <-)].
    - destruct (InvProofs.key_dec _ beq_spec q p) as [-> | Hne].
      + assert (g = f) by congruence. subst g.
        right. exists (ainsert teqb ch (hc (f_content f)) f), (hc (f_content f)), f.
        split; [exact Ec'|]. split; [apply (InvProofs.alookup_ainsert_eq _ teqb_spec) | reflexivity].
      + left. exists q, g. split; [exact Hq|]. split; [|reflexivity].
        unfold fget, w'. cbn. rewrite (InvProofs.alookup_aremove_neq _ beq_spec _ _ _ Hne). exact Hg'.
    - assert (ch0 = ch) by congruence. subst ch0.
      destruct (InvProofs.key_dec _ teqb_spec t0 (hc (f_content f))) as [-> | Hne].
      + assert (f_content g = f_content f) as ->.
        { apply hc_inj. symmetry. eapply Ha; eauto. }
        right. exists (ainsert teqb ch (hc (f_content f)) f), (hc (f_content f)), f.
        split; [exact Ec'|]. split; [apply (InvProofs.alookup_ainsert_eq _ teqb_spec) | reflexivity].
      + right. exists (ainsert teqb ch (hc (f_content f)) f), t0, g. split; [exact Ec'|]. split; [|reflexivity].
        rewrite (InvProofs.alookup_ainsert_neq _ teqb_spec _ _ _ _ Hne). exact Hl.
  Qed.

  (* ================================================================== *)
  (* the invariant                                                        *)
  (* ================================================================== *)

  Section Run.
    Variable w0 : world.
    Variable blobs : list (list (bytes * fstate)).
    Hypothesis Hc0 : cache_of w0 <> None.
    Hypothesis Haddr0 : cache_addressed w0.
    Hypothesis Hok0 : forall k i p a, nth_error (nth k blobs []) i = Some (p, a) -> state_ok_at w0 p a.

    (* thread k has been through its target number i *)
    Definition visited (pos : list (option nat)) (k i : nat) : Prop :=
      match nth k pos None with Some j => i < j | None => True end.

    (* some thread has been through the path p *)
    Definition moved (pos : list (option nat)) (p : bytes) : Prop :=
      exists k i a, visited pos k i /\ nth_error (nth k blobs []) i = Some (p, a).

    (* p is a path of some thread *)
    Definition target (p : bytes) : Prop := exists k i a, nth_error (nth k blobs []) i = Some (p, a).

    Lemma moved_target pos p : moved pos p -> target p.
    Proof. intros (k & i & a & _ & H). exists k, i, a. exact H. Qed.

    Lemma visited_other pos k v k' i : k' <> k -> (visited (set_nth k v pos) k' i <-> visited pos k' i).
    Proof. intro H. unfold visited. rewrite nth_set_nth_neq by exact H. reflexivity. Qed.

    Lemma visited_self pos k v i :
      k < length pos -> (visited (set_nth k v pos) k i <-> match v with Some j => i < j | None => True end).
    Proof. intro H. unfold visited. rewrite nth_set_nth_eq by exact H. reflexivity. Qed.

    Lemma moved_next_inv pos k i p a q :
      nth k pos None = Some i -> nth_error (nth k blobs []) i = Some (p, a) ->
      moved (set_nth k (Some (S i)) pos) q -> moved pos q \/ q = p.
    Proof.
      intros Ep Eb (k' & i' & a' & Hv & Hn).
      destruct (Nat.eq_dec k' k) as [-> | Hne].
      - apply visited_self in Hv; [|eapply nth_some_lt; exact Ep].
        destruct (Nat.eq_dec i' i) as [-> | Hni].
        + right. rewrite Eb in Hn. injection Hn as -> _. reflexivity.
        + left. exists k, i', a'. split; [|exact Hn]. unfold visited. rewrite Ep. lia.
      - left. exists k', i', a'. split; [|exact Hn]. apply (visited_other pos k (Some (S i)) k' i' Hne). exact Hv.
    Qed.

    Lemma moved_next_mono pos k i q :
      nth k pos None = Some i -> moved pos q -> moved (set_nth k (Some (S i)) pos) q.
    Proof.
      intros Ep (k' & i' & a' & Hv & Hn). exists k', i', a'. split; [|exact Hn].
      destruct (Nat.eq_dec k' k) as [-> | Hne].
      - apply visited_self; [eapply nth_some_lt; exact Ep|]. unfold visited in Hv. rewrite Ep in Hv. lia.
      - apply (visited_other pos k (Some (S i)) k' i' Hne). exact Hv.
    Qed.

    Lemma moved_next_self pos k i p a :
      nth k pos None = Some i -> nth_error (nth k blobs []) i = Some (p, a) -> moved (set_nth k (Some (S i)) pos) p.
    Proof.
      intros Ep Eb. exists k, i, a. split; [|exact Eb]. apply visited_self; [eapply nth_some_lt; exact Ep | lia].
    Qed.

    Lemma moved_end_inv pos k i q :
      nth k pos None = Some i -> nth_error (nth k blobs []) i = None -> moved (set_nth k None pos) q -> moved pos q.
    Proof.
      intros Ep Eb (k' & i' & a' & Hv & Hn). exists k', i', a'. split; [|exact Hn].
      destruct (Nat.eq_dec k' k) as [-> | Hne].
      - unfold visited. rewrite Ep. apply nth_error_none_ge in Eb. apply nth_error_some_lt in Hn. lia.
      - apply (visited_other pos k None k' i' Hne). exact Hv.
    Qed.

    Lemma moved_end_mono pos k i q : nth k pos None = Some i -> moved pos q -> moved (set_nth k None pos) q.
    Proof.
      intros Ep (k' & i' & a' & Hv & Hn). exists k', i', a'. split; [|exact Hn].
      destruct (Nat.eq_dec k' k) as [-> | Hne].
      - apply visited_self; [eapply nth_some_lt; exact Ep | exact I].
      - apply (visited_other pos k None k' i' Hne). exact Hv.
    Qed.

    (* the world, compared with the world at the start *)
    Record winv (w : world) : Prop := mk_winv {
      wi_clock : w_clock w = w_clock w0;
      wi_mode : w_mode w = w_mode w0;
      wi_hist : rd_hist (w_rd w) = rd_hist (w_rd w0);
      wi_table : rd_table (w_rd w) = rd_table (w_rd w0);
      wi_exists : rd_exists (w_rd w) = rd_exists (w_rd w0);
      wi_cache : cache_of w <> None;
      wi_addr : cache_addressed w;
      wi_any : forall g, any_file w g -> any_file w0 g;
      wi_sub : forall p, fget w p = None \/ fget w p = fget w0 p
    }.

    (* the world and the positions of the threads *)
    Record tinv (w : world) (pos : list (option nat)) : Prop := mk_tinv {
      ti_moved : forall p, moved pos p -> fget w p = None;
      ti_gone : forall p, fget w p = None -> fget w0 p = None \/ moved pos p;
      ti_new : forall c t f, cache_of w = Some c -> alookup teqb c t = Some f ->
               (exists c0 f0, cache_of w0 = Some c0 /\ alookup teqb c0 t = Some f0) \/
               (exists p f', moved pos p /\ fget w0 p = Some f' /\ t = hc (f_content f'));
      ti_old : forall c0 t f0, cache_of w0 = Some c0 -> alookup teqb c0 t = Some f0 ->
               exists c f, cache_of w = Some c /\ alookup teqb c t = Some f;
      ti_in : forall p f', moved pos p -> fget w0 p = Some f' ->
              exists c f, cache_of w = Some c /\ alookup teqb c (hc (f_content f')) = Some f
    }.

    Definition cinv (st : cstate) : Prop :=
      length (cs_pos st) = length blobs /\ cs_err st = repeat None (length blobs) /\
      winv (cs_world st) /\ tinv (cs_world st) (cs_pos st).

    Lemma winv_ok_at (w : world) k i p a :
      winv w -> nth_error (nth k blobs []) i = Some (p, a) -> state_ok_at w p a.
    Proof.
      intros Hw Hn f Hf Hs. apply (Hok0 k i p a Hn f); [|exact Hs].
      destruct (wi_sub w Hw p) as [E | E]; congruence.
    Qed.

    Lemma tinv_end (w : world) pos k i :
      nth k pos None = Some i -> nth_error (nth k blobs []) i = None -> tinv w pos -> tinv w (set_nth k None pos).
    Proof.
      intros Ep Eb Ht. constructor.
      - intros p Hm. apply (ti_moved _ _ Ht). eapply moved_end_inv; eauto.
      - intros p Hp. destruct (ti_gone _ _ Ht p Hp) as [H | H]; [left; exact H | right]. eapply moved_end_mono; eauto.
      - intros c t f Hc Hl. destruct (ti_new _ _ Ht c t f Hc Hl) as [H | (p & f' & Hm & H)]; [left; exact H | right].
        exists p, f'. split; [eapply moved_end_mono; eauto | exact H].
      - apply (ti_old _ _ Ht).
      - intros p f' Hm. apply (ti_in _ _ Ht). eapply moved_end_inv; eauto.
    Qed.

    Lemma tinv_absent (w : world) pos k i p a :
      nth k pos None = Some i -> nth_error (nth k blobs []) i = Some (p, a) -> fget w p = None ->
      tinv w pos -> tinv w (set_nth k (Some (S i)) pos).
    Proof.
      intros Ep Eb Hnone Ht. constructor.
      - intros q Hm. destruct (moved_next_inv _ _ _ _ _ _ Ep Eb Hm) as [H | ->]; [apply (ti_moved _ _ Ht); exact H | exact Hnone].
      - intros q Hq. destruct (ti_gone _ _ Ht q Hq) as [H | H]; [left; exact H | right]. eapply moved_next_mono; eauto.
      - intros c t f Hc Hl. destruct (ti_new _ _ Ht c t f Hc Hl) as [H | (q & f' & Hm & H)]; [left; exact H | right].
        exists q, f'. split; [eapply moved_next_mono; eauto | exact H].
      - apply (ti_old _ _ Ht).
      - intros q f' Hm Hq. destruct (moved_next_inv _ _ _ _ _ _ Ep Eb Hm) as [H | ->]; [apply (ti_in _ _ Ht q f' H Hq)|].
        destruct (ti_gone _ _ Ht p Hnone) as [H | H]; [congruence | apply (ti_in _ _ Ht p f' H Hq)].
    Qed.

    Lemma winv_move (w : world) p f w1 :
      winv w -> fget w p = Some f -> back_up teqb w (hc (f_content f)) p = Some w1 -> winv w1.
    Proof.
      intros Hw Hf Hb. pose proof (back_up_spec T teqb _ _ _ _ Hb) as (c & f' & Hc & Hf' & E).
      constructor.
      - subst w1. cbn. apply (wi_clock _ Hw).
      - subst w1. cbn. apply (wi_mode _ Hw).
      - subst w1. cbn. apply (wi_hist _ Hw).
      - subst w1. cbn. apply (wi_table _ Hw).
      - subst w1. cbn. apply (wi_exists _ Hw).
      - subst w1. unfold cache_of. cbn. discriminate.
      - eapply back_up_addressed; [apply (wi_addr _ Hw) | exact Hb | exact Hf].
      - intros g Hg. apply (wi_any _ Hw). eapply (InvProofs.any_file_back_up T teqb teqb_spec); eauto.
      - intro q. destruct (InvProofs.key_dec _ beq_spec q p) as [-> | Hne].
        + left. eapply back_up_fget_eq; eauto.
        + rewrite (back_up_fget_neq T teqb _ _ _ _ q Hb Hne). apply (wi_sub _ Hw).
    Qed.

    Lemma tinv_move (w : world) pos k i p a f w1 :
      winv w -> tinv w pos -> nth k pos None = Some i -> nth_error (nth k blobs []) i = Some (p, a) ->
      fget w p = Some f -> back_up teqb w (hc (f_content f)) p = Some w1 ->
      tinv w1 (set_nth k (Some (S i)) pos).
    Proof.
      intros Hw Ht Ep Eb Hf Hb. pose proof (back_up_spec T teqb _ _ _ _ Hb) as (c & f' & Hc & Hf' & E).
      assert (f' = f) as -> by congruence.
      assert (fget w0 p = Some f) as Hf0 by (destruct (wi_sub _ Hw p) as [X | X]; congruence).
      assert (cache_of w1 = Some (ainsert teqb c (hc (f_content f)) f)) as Hc1 by (subst w1; reflexivity).
      assert (forall q, fget w q = None -> fget w1 q = None) as Hmono.
      { intros q Hq. destruct (InvProofs.key_dec _ beq_spec q p) as [-> | Hne]; [congruence|].
        rewrite (back_up_fget_neq T teqb _ _ _ _ q Hb Hne). exact Hq. }
      constructor.
      - intros q Hm. destruct (moved_next_inv _ _ _ _ _ _ Ep Eb Hm) as [H | ->].
        + apply Hmono. apply (ti_moved _ _ Ht). exact H.
        + eapply back_up_fget_eq; eauto.
      - intros q Hq. destruct (InvProofs.key_dec _ beq_spec q p) as [-> | Hne].
        + right. eapply moved_next_self; eauto.
        + rewrite (back_up_fget_neq T teqb _ _ _ _ q Hb Hne) in Hq.
          destruct (ti_gone _ _ Ht q Hq) as [H | H]; [left; exact H | right]. eapply moved_next_mono; eauto.
      - intros c1 t g Hc1' Hl. rewrite Hc1 in Hc1'. injection Hc1' as <-.
        apply (InvProofs.alookup_ainsert_some _ teqb_spec) in Hl as [[-> ->] | [_ Hl]].
        + right. exists p, f. split; [eapply moved_next_self; eauto|]. auto.
        + destruct (ti_new _ _ Ht c t g Hc Hl) as [H | (q & f' & Hm & H)]; [left; exact H | right].
          exists q, f'. split; [eapply moved_next_mono; eauto | exact H].
      - intros c0 t f0 Hc0' Hl0. destruct (ti_old _ _ Ht c0 t f0 Hc0' Hl0) as (c' & g & Hc' & Hl).
        assert (c' = c) as -> by congruence.
        destruct (ainsert_keeps c (hc (f_content f)) f t g Hl) as (g' & Hg').
        exists (ainsert teqb c (hc (f_content f)) f), g'. auto.
      - intros q f' Hm Hq. destruct (moved_next_inv _ _ _ _ _ _ Ep Eb Hm) as [H | ->].
        + destruct (ti_in _ _ Ht q f' H Hq) as (c' & g & Hc' & Hl).
          assert (c' = c) as -> by congruence.
          destruct (ainsert_keeps c (hc (f_content f)) f _ g Hl) as (g' & Hg').
          exists (ainsert teqb c (hc (f_content f)) f), g'. auto.
        + assert (f' = f) as -> by congruence.
          exists (ainsert teqb c (hc (f_content f)) f), f. split; [exact Hc1|].
          apply (InvProofs.alookup_ainsert_eq _ teqb_spec).
    Qed.

    (* what a step is, for a state that satisfies the invariant *)
    Inductive cstep_good (st : cstate) (k : nat) (st' : cstate) : Prop :=
    | CGEnd i :
        nth k (cs_pos st) None = Some i -> nth_error (nth k blobs []) i = None ->
        st' = mk_cs (cs_world st) (set_nth k None (cs_pos st)) (cs_err st) -> cstep_good st k st'
    | CGAbsent i p a :
        nth k (cs_pos st) None = Some i -> nth_error (nth k blobs []) i = Some (p, a) ->
        fget (cs_world st) p = None ->
        st' = mk_cs (cs_world st) (set_nth k (Some (S i)) (cs_pos st)) (cs_err st) -> cstep_good st k st'
    | CGMove i p a f w1 :
        nth k (cs_pos st) None = Some i -> nth_error (nth k blobs []) i = Some (p, a) ->
        fget (cs_world st) p = Some f -> back_up teqb (cs_world st) (hc (f_content f)) p = Some w1 ->
        st' = mk_cs w1 (set_nth k (Some (S i)) (cs_pos st)) (cs_err st) -> cstep_good st k st'.

    Lemma cstep_good_cases st k st' : cinv st -> cstep blobs st k = Some st' -> cstep_good st k st'.
    Proof.
      intros (_ & _ & Hw & _) H.
      destruct (cstep_cases T teqb hc _ _ _ _ H) as [i Ep Eb E | i p a Ep Eb Eg E | i p a t Ep Eb Eg Ebk E | i p a t w1 Ep Eb Eg Ebk E];
        unfold blob in *.
      - eapply CGEnd; eauto.
      - eapply CGAbsent; eauto. apply (get_file_ticket_none T teqb hc) in Eg. exact Eg.
      - exfalso. apply (wi_cache _ Hw). eapply back_up_none_cache; eauto.
      - destruct (ticket_at _ _ _ _ (winv_ok_at _ _ _ _ _ Hw Eb) Eg) as (f & Hf & ->).
        eapply CGMove; eauto.
    Qed.

    Lemma cinv_step st k st' : cinv st -> cstep blobs st k = Some st' -> cinv st'.
    Proof.
      intros Hi H. pose proof (cstep_good_cases _ _ _ Hi H) as Hg. destruct Hi as (Hl & He & Hw & Ht).
      destruct Hg as [i Ep Eb E | i p a Ep Eb Hn E | i p a f w1 Ep Eb Hf Hb E]; subst st'; unfold cinv;
        cbn [cs_world cs_pos cs_err]; rewrite set_nth_length; (split; [exact Hl|]); (split; [exact He|]).
      - split; [exact Hw|]. eapply tinv_end; eauto.
      - split; [exact Hw|]. eapply tinv_absent; eauto.
      - split; [eapply winv_move; eauto | eapply tinv_move; eauto].
    Qed.

    Lemma cinv_init : cinv (cinit T w0 (length blobs)).
    Proof.
      unfold cinv, cinit. cbn [cs_world cs_pos cs_err]. split; [apply repeat_length|]. split; [reflexivity|].
      assert (forall p, ~ moved (repeat (Some 0) (length blobs)) p) as Hnm.
      { intros p (k & i & a & Hv & Hn). unfold visited in Hv.
        destruct (Nat.lt_ge_cases k (length blobs)) as [Hk | Hk].
        - rewrite nth_repeat_lt in Hv by exact Hk. lia.
        - rewrite (nth_overflow blobs [] Hk) in Hn. destruct i; discriminate. }
      split.
      - constructor; auto.
      - constructor.
        + intros p Hm. destruct (Hnm p Hm).
        + intros p Hp. left. exact Hp.
        + intros c t f Hc Hl. left. exists c, f. auto.
        + intros c t f Hc Hl. exists c, f. auto.
        + intros p f' Hm. destruct (Hnm p Hm).
    Qed.

    Theorem cinv_run ch : cinv (crun blobs ch (cinit T w0 (length blobs))).
    Proof. apply (crun_ind T teqb hc cinv blobs); [intros st k st' Hi H; eapply cinv_step; eauto | apply cinv_init]. Qed.

    (* ---------- consequences for one state ---------- *)

    Lemma cinv_errs st :
      cinv st -> flat_map (fun o : option work_err => match o with Some e => [e] | None => [] end) (cs_err st) = [].
    Proof. intros (_ & -> & _). apply errs_of_repeat_none. Qed.

    (* paths that are no thread's keep their file *)
    Lemma cinv_frame st p : cinv st -> ~ target p -> fget (cs_world st) p = fget w0 p.
    Proof.
      intros (_ & _ & Hw & Ht) Hnt. destruct (wi_sub _ Hw p) as [E | E]; [|exact E].
      destruct (ti_gone _ _ Ht p E) as [H | H]; [congruence|]. exfalso. apply Hnt. eapply moved_target; eauto.
    Qed.

    Lemma call_done_moved (st : cstate) p : call_done st = true -> target p -> moved (cs_pos st) p.
    Proof.
      intros Hd (k & i & a & Hn). exists k, i, a. split; [|exact Hn]. unfold visited.
      rewrite (call_done_nth T st k Hd). exact I.
    Qed.

    (* at the end: no target is left, and each is in the cache under the hash of its bytes *)
    Lemma cinv_complete_gone st p : cinv st -> call_done st = true -> target p -> fget (cs_world st) p = None.
    Proof. intros (_ & _ & _ & Ht) Hd Hp. apply (ti_moved _ _ Ht). apply call_done_moved; assumption. Qed.

    Lemma cinv_complete_cached (hc_inj : forall a b, hc a = hc b -> a = b) st p f :
      cinv st -> call_done st = true -> target p -> fget w0 p = Some f ->
      exists c g, cache_of (cs_world st) = Some c /\ alookup teqb c (hc (f_content f)) = Some g /\
                  f_content g = f_content f.
    Proof.
      intros (_ & _ & Hw & Ht) Hd Hp Hf.
      destruct (ti_in _ _ Ht p f (call_done_moved st p Hd Hp) Hf) as (c & g & Hc & Hl).
      exists c, g. split; [exact Hc|]. split; [exact Hl|]. apply hc_inj. symmetry. eapply (wi_addr _ Hw); eauto.
    Qed.

    (* ---------- two complete states ---------- *)

    Lemma complete_files st1 st2 p :
      cinv st1 -> cinv st2 -> call_done st1 = true -> call_done st2 = true ->
      fget (cs_world st1) p = fget (cs_world st2) p.
    Proof.
      assert (forall sa sb, cinv sa -> cinv sb -> call_done sb = true ->
                fget (cs_world sa) p = None -> fget (cs_world sb) p = None) as Hone.
      { intros sa sb (_ & _ & Hwa & Hta) (_ & _ & Hwb & Htb) Hdb Ha.
        destruct (ti_gone _ _ Hta p Ha) as [H | H].
        - destruct (wi_sub _ Hwb p) as [E | E]; congruence.
        - apply (ti_moved _ _ Htb). apply call_done_moved; [exact Hdb | eapply moved_target; eauto]. }
      intros H1 H2 Hd1 Hd2.
      destruct H1 as (L1 & E1 & Hw1 & Ht1). destruct H2 as (L2 & E2 & Hw2 & Ht2).
      destruct (wi_sub _ Hw1 p) as [Ea | Ea].
      - rewrite Ea. symmetry. apply (Hone st1 st2); unfold cinv; auto.
      - destruct (wi_sub _ Hw2 p) as [Eb | Eb]; [|congruence].
        rewrite Eb. apply (Hone st2 st1); unfold cinv; auto.
    Qed.

    Lemma complete_cache_names st1 st2 t f1 :
      cinv st1 -> cinv st2 -> call_done st2 = true ->
      forall c1, cache_of (cs_world st1) = Some c1 -> alookup teqb c1 t = Some f1 ->
      exists c2 f2, cache_of (cs_world st2) = Some c2 /\ alookup teqb c2 t = Some f2.
    Proof.
      intros (_ & _ & Hw1 & Ht1) (_ & _ & Hw2 & Ht2) Hd2 c1 Hc1 Hl1.
      destruct (ti_new _ _ Ht1 c1 t f1 Hc1 Hl1) as [(c0 & f0 & Hc & Hl) | (p & f' & Hm & Hf & ->)].
      - apply (ti_old _ _ Ht2 c0 t f0 Hc Hl).
      - apply (ti_in _ _ Ht2 p f'); [|exact Hf]. apply call_done_moved; [exact Hd2 | eapply moved_target; eauto].
    Qed.

    Lemma complete_cache_content (hc_inj : forall a b, hc a = hc b -> a = b) st1 st2 t :
      cinv st1 -> cinv st2 -> call_done st1 = true -> call_done st2 = true ->
      cache_content teqb (cs_world st1) t = cache_content teqb (cs_world st2) t.
    Proof.
      assert (forall sa sb, cinv sa -> cinv sb -> call_done sb = true ->
                forall b, cache_content teqb (cs_world sa) t = Some b -> cache_content teqb (cs_world sb) t = Some b) as Hone.
      { intros sa sb Ha Hb Hdb b Hca. unfold cache_content in *.
        destruct (cache_of (cs_world sa)) as [ca|] eqn:Eca; [|discriminate].
        destruct (alookup teqb ca t) as [fa|] eqn:Ela; [|discriminate]. cbn [option_map] in Hca. injection Hca as <-.
        destruct (complete_cache_names sa sb t fa Ha Hb Hdb ca Eca Ela) as (cb & fb & Ecb & Elb).
        rewrite Ecb, Elb. cbn [option_map]. f_equal. apply hc_inj.
        destruct Ha as (_ & _ & Hwa & _). destruct Hb as (_ & _ & Hwb & _).
        rewrite <- (wi_addr _ Hwa ca t fa Eca Ela). symmetry. apply (wi_addr _ Hwb cb t fb Ecb Elb). }
      intros H1 H2 Hd1 Hd2.
      destruct (cache_content teqb (cs_world st1) t) as [b|] eqn:E1.
      - symmetry. apply (Hone st1 st2); assumption.
      - destruct (cache_content teqb (cs_world st2) t) as [b|] eqn:E2; [|reflexivity].
        rewrite (Hone st2 st1 H2 H1 Hd1 b E2) in E1. discriminate.
    Qed.

    Lemma cinv_rd st : cinv st ->
      rd_hist (w_rd (cs_world st)) = rd_hist (w_rd w0) /\ rd_table (w_rd (cs_world st)) = rd_table (w_rd w0).
    Proof. intros (_ & _ & Hw & _). split; [apply (wi_hist _ Hw) | apply (wi_table _ Hw)]. Qed.

    (* ---------- C08 along the steps ---------- *)

    Lemma cinv_step_keeps_content (hc_inj : forall a b, hc a = hc b -> a = b) st k st' paths c :
      cinv st -> cstep blobs st k = Some st' ->
      protected_content paths (cs_world st) c -> protected_content paths (cs_world st') c.
    Proof.
      intros Hi H Hp. pose proof (cstep_good_cases _ _ _ Hi H) as Hg. destruct Hi as (_ & _ & Hw & _).
      destruct Hg as [i Ep Eb E | i p a Ep Eb Hn E | i p a f w1 Ep Eb Hf Hb E]; subst st'; cbn [cs_world]; try exact Hp.
      exact (back_up_keeps_content_at hc_inj paths (cs_world st) p f w1 c (wi_addr _ Hw) Hf Hb Hp).
    Qed.

    (* ---------- the in-flight invariant of CoarseInv.v ---------- *)

    Lemma cinv_files_le st : cinv st -> files_le teqb w0 -> files_le teqb (cs_world st).
    Proof.
      intros (_ & _ & Hw & _) Hf g Hg. rewrite (wi_clock _ Hw). apply Hf. apply (wi_any _ Hw). exact Hg.
    Qed.
  End Run.

  (* ================================================================== *)
  (* the blobs of the plan                                                *)
  (* ================================================================== *)

  Lemma tbl_at_aremove (w : world) t p : tbl_at teqb hc w t -> tbl_at teqb hc w (aremove bytes_eqb t p).
  Proof.
    intros H q s Hl. apply (InvProofs.alookup_aremove_some _ beq_spec) in Hl as [_ Hl]. eapply H; eauto.
  Qed.

  Lemma take_blob_at paths : forall (w : world) t b t',
    tbl_at teqb hc w t -> take_blob T hc t paths = (b, t') ->
    (forall p a, In (p, a) b -> state_ok_at w p a) /\ tbl_at teqb hc w t'.
  Proof.
    induction paths as [|p rest IH]; intros w t b t' Ht; cbn [take_blob].
    - intro H. injection H as <- <-. split; [intros q a []| exact Ht].
    - destruct (take_blob T hc (aremove bytes_eqb t p) rest) as [b2 t2] eqn:E2.
      intro H. injection H as <- <-.
      destruct (IH w _ _ _ (tbl_at_aremove _ _ p Ht) E2) as [Hb2 Ht2].
      split; [|exact Ht2]. intros q a [E | Hin]; [|apply Hb2; exact Hin]. injection E as <- <-.
      destruct (alookup bytes_eqb t p) as [s|] eqn:El; [eapply Ht; eauto|].
      apply (CoarseProofs.state_ok_at_empty T teqb hc teqb_spec).
  Qed.

  Lemma node_blobs_at ns : forall (w : world) t,
    tbl_at teqb hc w t -> forall b p a, In b (node_blobs hc t ns) -> In (p, a) b -> state_ok_at w p a.
  Proof.
    induction ns as [|n rest IH]; intros w t Ht b p a; cbn [node_blobs]; [intros []|].
    destruct (take_blob T hc t (n_targets n)) as [b1 t1] eqn:E1.
    destruct (take_blob_at _ _ _ _ _ Ht E1) as [Hb1 Ht1].
    intros [<- | Hin] Hpa; [apply Hb1; exact Hpa | eapply IH; eauto].
  Qed.

  Lemma nth_error_blobs_in (blobs : list (list (bytes * fstate))) k i p a :
    nth_error (nth k blobs []) i = Some (p, a) -> In (nth k blobs []) blobs /\ In (p, a) (nth k blobs []).
  Proof.
    intro H. split; [|eapply nth_error_In; eauto].
    destruct (Nat.lt_ge_cases k (length blobs)) as [Hk | Hk]; [apply nth_In; exact Hk|].
    rewrite (nth_overflow blobs [] Hk) in H. destruct i; discriminate.
  Qed.

  Lemma node_blobs_ok_at ns (w : world) t :
    tbl_at teqb hc w t ->
    forall k i p a, nth_error (nth k (node_blobs hc t ns) []) i = Some (p, a) -> state_ok_at w p a.
  Proof.
    intros Ht k i p a H. destruct (nth_error_blobs_in _ _ _ _ _ H) as [H1 H2]. eapply node_blobs_at; eauto.
  Qed.

  Lemma node_blobs_paths ns : forall (t : table T), flat_map (map fst) (node_blobs hc t ns) = flat_map n_targets ns.
  Proof.
    induction ns as [|n rest IH]; intro t; cbn [node_blobs flat_map]; [reflexivity|].
    pose proof (take_blob_fst T hc (n_targets n) t) as Hf.
    destruct (take_blob T hc t (n_targets n)) as [b t']. cbn [fst] in Hf. cbn [flat_map]. rewrite Hf, IH. reflexivity.
  Qed.

  Lemma target_iff (blobs : list (list (bytes * fstate))) p : target blobs p <-> In p (flat_map (map fst) blobs).
  Proof.
    split.
    - intros (k & i & a & H). destruct (nth_error_blobs_in _ _ _ _ _ H) as [H1 H2].
      apply in_flat_map. exists (nth k blobs []). split; [exact H1|].
      apply in_map_iff. exists (p, a). auto.
    - intro H. apply in_flat_map in H as (b & Hb & Hp). apply in_map_iff in Hp as ([q a] & E & Hin).
      cbn [fst] in E. subst q. apply (In_nth _ _ []) in Hb as (k & Hk & <-).
      apply In_nth_error in Hin as (i & Hi). exists k, i, a. exact Hi.
  Qed.

  Lemma target_plan t pack p : target (node_blobs hc t (p_nodes pack)) p <-> In p (plan_targets pack).
  Proof. rewrite target_iff, node_blobs_paths. reflexivity. Qed.

  Lemma tbl_ok_at (w : world) t : InvProofs.tbl_ok T teqb hc w t -> tbl_at teqb hc w t.
  Proof.
    intros H p st Hl f Hf Hs.
    eapply (InvProofs.state_ok_shortcut T teqb hc); [eapply H; eauto | | exact Hs]. left. exists p. exact Hf.
  Qed.

  Lemma tbl_held_at (w : world) t : tbl_held teqb hc w t -> tbl_at teqb hc w t.
  Proof. intros H p st Hl. apply (H p st Hl). Qed.
End CleanFineInv.
