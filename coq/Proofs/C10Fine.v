(* C10 under interleavings, part 3: build, clean, build — the second and the third invocation under EVERY
   interleaving of the rule threads.  With pairwise different contents nothing is contested (every cache entry
   is wanted by exactly one target), so every complete run behaves like the serial one: the clean leaves each
   target's very file in the cache, the build after it RUNS NO COMMAND and puts the very files back. *)
From Coq Require Import Relations.Relation_Operators Relations.Operators_Properties.
From Ruler Require Import Tactics Bytes AList RuleSyntax Parser TopoSort TopoSpec World Cmdlang Work Build Ops Inv
     BuildSpec Ideal Sched Fine CleanFine BytesFacts InvFacts TopoSortFacts BuildFacts C01Script C01Hist C01Build C01Plan
     C01Facts C04Facts SchedBasic FineBasic FineInv FineFacts CleanFineBasic CleanFineInv CleanFineFacts
     C10Facts C10Summary C10Clean C10Restore C10Main C10Examples C10FineBuild C10FineClean.
Local Open Scope nat_scope.

Section C10Fine.
  Variable T : Type.
  Variable teqb : T -> T -> bool.
  Variable hc : bytes -> T.
  Variable hl : list T -> T.
  Variable hr : rule -> T.
  Hypothesis teqb_spec : forall a b, teqb a b = true <-> a = b.
  Hypothesis hc_inj : forall a b, hc a = hc b -> a = b.
  Hypothesis hr_inj : forall a b, hr a = hr b -> a = b.

  Notation world := (world T).
  Notation disk_inv := (disk_inv teqb hc).
  Notation steps := (clos_refl_trans world (step teqb hc)).
  Notation hist_at := (hist_at T teqb).
  Notation hist_of := (hist_of T).
  Notation tk_of := (tk_of T hc).
  Notation trace_ok := (trace_ok T teqb hl).
  Notation entry_hashes := (entry_hashes T hc).
  Notation entry_hist := (entry_hist T teqb hr).
  Notation cache_has := (cache_has T teqb hc).
  Notation build := (build teqb hc hl hr).
  Notation build_fine := (build_fine teqb hc hl hr).
  Notation clean := (clean teqb hc).
  Notation clean_fine := (clean_fine teqb hc).
  Notation complete_run := (complete_run T teqb hc hl hr).
  Notation clean_complete := (clean_complete teqb hc).

  (* ================================================================== *)
  (* the world before the clean                                           *)
  (* ================================================================== *)

  Record prepared (wa wa1 : world) (tbl' : table T) (pack : node_pack) (tr : list (tentry T)) (rp : bytes)
         (goal : option bytes) : Prop := mk_prepared {
    pr_inv : disk_inv wa;
    pr_init : init_dir T wa = Ok (wa1, tbl');
    pr_nodes : get_nodes T wa1 rp goal = Ok pack;
    pr_trd : map fst tr = p_nodes pack;
    pr_ex : forall t, In t (plan_targets pack) -> fget wa t <> None;
    pr_leaves : forall l, In l (p_leaves pack) -> content_at wa l <> None;
    pr_tok : trace_ok (map (fun l => Some [tk_of wa l]) (p_leaves pack)) [] tr;
    pr_hash : Forall (entry_hashes wa) tr;
    pr_hist : Forall (entry_hist wa1) tr
  }.

  Lemma tick_inv (w : world) : disk_inv w -> disk_inv (tick w).
  Proof. intro H. eapply (inv_steps T teqb hc teqb_spec); [exact H|]. apply rt_step. apply STick. Qed.

  Lemma prepare : forall (w : world) rp goal w1 tbl pack,
    disk_inv w -> init_dir T w = Ok (w1, tbl) -> get_nodes T w1 rp goal = Ok pack ->
    Forall det_node (p_nodes pack) -> ~ In rp (plan_targets pack) ->
    o_verdict (build w rp goal) = VOk ->
    exists wa1 tbl' tr, prepared (tick (o_world (build w rp goal))) wa1 tbl' pack tr rp goal.
  Proof.
    intros w rp goal w1 tbl pack Hinv Hi Hg Hdet Hrp Hv.
    set (W := o_world (build w rp goal)). set (wa := tick W).
    destruct (build_summary T teqb hc hl hr teqb_spec hr_inj w rp goal w1 tbl pack Hinv Hi Hg Hdet Hv)
      as (tr & Htrd & Hleaves & Htok & Hhash & Hhist & tbl' & Htbl').
    fold W in Hleaves, Htok, Hhash, Hhist, Htbl'.
    assert (disk_inv W) as HinvW.
    { eapply (inv_steps T teqb hc teqb_spec); [exact Hinv|]. apply InvProofs.build_steps; assumption. }
    assert (disk_inv wa) as Hinva by (apply tick_inv; exact HinvW).
    assert (forall p, content_at wa p = content_at W p) as Hca by reflexivity.
    assert (w_rd wa = w_rd W) as Hrda by reflexivity.
    assert (Forall (entry_hashes wa) tr) as Hhasha.
    { eapply Forall_impl; [|exact Hhash]. intros e He. unfold C10Facts.entry_hashes in *.
      eapply Forall2_impl; [|exact He]. intros t tk Hh. eapply has_hash_content; [|exact Hh]. apply Hca. }
    assert (forall t, In t (plan_targets pack) -> fget wa t <> None) as Hexa.
    { intros t Ht X. destruct (in_plan_targets_tr T tr pack t Htrd Ht) as (e & He & Hte).
      rewrite Forall_forall in Hhasha. destruct (hashes_tk T hc _ _ _ (Hhasha e He)) as [_ Hne].
      apply (Hne t Hte). apply content_at_none. exact X. }
    assert (fget wa rp = fget w rp) as Hframea.
    { change (fget W rp = fget w rp).
      apply (build_frame T teqb hc hl hr w rp goal w1 tbl pack rp Hi Hg (det_nodes_confined _ Hdet) Hrp). }
    destruct (init_dir_ok T teqb _ _ _ Hi) as (Hfiles1 & _).
    assert (fget wa rp = fget w1 rp) as Hrpa.
    { rewrite Hframea. symmetry. apply files_fget. exact Hfiles1. }
    destruct (init_dir T wa) as [[wa1 tbla]|f] eqn:Hia.
    2:{ unfold init_dir in Hia. rewrite Hrda, Htbl' in Hia. discriminate. }
    destruct (init_dir_ok T teqb _ _ _ Hia) as (Hfilesa1 & Hhata1 & _).
    assert (get_nodes T wa1 rp goal = Ok pack) as Hga1.
    { rewrite (get_nodes_ext T wa wa1), (get_nodes_ext T w1 wa); auto. apply files_fget. exact Hfilesa1. }
    exists wa1, tbla, tr. constructor; [exact Hinva | exact Hia | exact Hga1 | exact Htrd | exact Hexa | | exact Htok | exact Hhasha |].
    - intros l Hl. rewrite Hca. apply Hleaves. exact Hl.
    - eapply Forall_impl; [|exact Hhist]. intros e He h' Hh'.
      rewrite Hhata1. rewrite (hist_at_of_eq T teqb W wa); [apply He; exact Hh'|].
      unfold BuildFacts.hist_of. rewrite Hrda. reflexivity.
  Qed.

  (* ================================================================== *)
  (* the build after a clean that left each target's very file in the cache *)
  (* ================================================================== *)

  Lemma build_fine_after_clean (wa wa1 : world) tbl' pack tr rp goal (wc : world) ch :
    prepared wa wa1 tbl' pack tr rp goal -> ~ In rp (plan_targets pack) ->
    distinct_on (fget wa) (plan_targets pack) ->
    disk_inv wc ->
    (forall t, In t (plan_targets pack) -> fget wc t = None) ->
    (forall q, ~ In q (plan_targets pack) -> fget wc q = fget wa q) ->
    cache_has wc (fget wa) (plan_targets pack) ->
    rd_hist (w_rd wc) = rd_hist (w_rd wa1) ->
    rd_table (w_rd wc) = Some (SF_ok tbl') ->
    complete_run ch (tick wc) rp goal ->
    let o3 := build_fine ch (tick wc) rp goal in
    o_verdict o3 = VOk /\ o_commands o3 = [] /\
    (forall t, In t (plan_targets pack) -> fget (o_world o3) t = fget wa t) /\
    (forall p, ~ In p (plan_targets pack) -> fget (o_world o3) p = fget wa p) /\
    Forall (fun s : banner * bytes => fst s = BRecovered) (o_status o3).
  Proof.
    intros [Hinva Hia Hga1 Htrd Hexa Hleaves Htok Hhasha Hhista] Hrp Hdist Hinvc Hgone Hframec Hchc Hhistc Htblc Hcomp o3.
    destruct (init_dir_ok T teqb _ _ _ Hia) as (Hfilesa1 & _).
    apply (fine_restore_build T teqb hc hl hr teqb_spec hc_inj wa (tick wc) rp goal pack tr tbl' ch).
    - apply tick_inv. exact Hinvc.
    - exact Htblc.
    - rewrite (get_nodes_ext T wa1 (tick wc)); [exact Hga1|].
      change (fget wc rp = fget wa1 rp). rewrite (Hframec rp Hrp). symmetry. apply files_fget. exact Hfilesa1.
    - exact (get_nodes_plan_wf T _ _ _ _ Hga1).
    - exact Htrd.
    - exact Hgone.
    - exact Hframec.
    - destruct Hchc as (c & Hc & Hcf). exists c. split; [exact Hc | exact Hcf].
    - exact Hdist.
    - exact Hleaves.
    - exact Htok.
    - exact Hhasha.
    - eapply Forall_impl; [|exact Hhista]. intros e He h' Hh'.
      rewrite (hist_at_of_eq T teqb wa1 (tick wc)); [apply He; exact Hh'|].
      unfold BuildFacts.hist_of. exact Hhistc.
    - exact Hcomp.
  Qed.

  (* ================================================================== *)
  (* F1: serial clean, then the build under every interleaving            *)
  (* ================================================================== *)

  Theorem c10_fine_build_runs_nothing_strong : forall (w : world) rp goal w1 tbl pack ch,
    disk_inv w -> init_dir T w = Ok (w1, tbl) -> get_nodes T w1 rp goal = Ok pack ->
    Forall det_node (p_nodes pack) -> ~ In rp (plan_targets pack) ->
    o_verdict (build w rp goal) = VOk ->
    let wa := tick (o_world (build w rp goal)) in
    NoDup (map (fun t => content_at wa t) (plan_targets pack)) ->
    let wb := tick (o_world (clean wa rp goal)) in
    complete_run ch wb rp goal ->
    let o3 := build_fine ch wb rp goal in
    o_verdict o3 = VOk /\ o_commands o3 = [] /\
    (forall t, In t (plan_targets pack) -> fget (o_world o3) t = fget wa t) /\
    (forall p, ~ In p (plan_targets pack) -> fget (o_world o3) p = fget wa p) /\
    Forall (fun s => fst s = BRecovered) (o_status o3).
  Proof.
    intros w rp goal w1 tbl pack ch Hinv Hi Hg Hdet Hrp Hv wa Hdistinct wb Hcomp o3.
    destruct (prepare w rp goal w1 tbl pack Hinv Hi Hg Hdet Hrp Hv) as (wa1 & tbl' & tr & Hp).
    fold wa in Hp. pose proof Hp as [Hinva Hia Hga1 Htrd Hexa Hleaves Htok Hhasha Hhista].
    pose proof (get_nodes_plan_wf T _ _ _ _ Hga1) as (Hnd & _).
    pose proof (distinct_on_of_nodup T wa _ Hdistinct) as Hdist.
    destruct (clean_summary T teqb hc teqb_spec hc_inj wa rp goal wa1 tbl' pack Hinva Hia Hga1 Hnd Hexa Hdist)
      as (Hvc & Hchc & Hhistc & Htblc).
    apply (build_fine_after_clean wa wa1 tbl' pack tr rp goal (o_world (clean wa rp goal)) ch); try assumption.
    - eapply (inv_steps T teqb hc teqb_spec); [exact Hinva|]. apply InvProofs.clean_steps; assumption.
    - exact (clean_removes_all_targets T teqb hc wa rp goal wa1 tbl' pack Hia Hga1 Hvc).
    - intros q Hq. apply (clean_frame T teqb hc wa rp goal wa1 tbl' pack q Hia Hga1 Hq).
  Qed.

  Theorem c10_fine_build_runs_nothing : forall (w : world) rp goal w1 tbl pack ch,
    disk_inv w -> init_dir T w = Ok (w1, tbl) -> get_nodes T w1 rp goal = Ok pack ->
    Forall det_node (p_nodes pack) -> ~ In rp (plan_targets pack) ->
    o_verdict (build w rp goal) = VOk ->
    let wa := tick (o_world (build w rp goal)) in
    NoDup (map (fun t => content_at wa t) (plan_targets pack)) ->
    let wb := tick (o_world (clean wa rp goal)) in
    complete_run ch wb rp goal ->
    let o3 := build_fine ch wb rp goal in
    o_verdict o3 = VOk /\ o_commands o3 = [] /\
    (forall t, In t (plan_targets pack) -> content_at (o_world o3) t = content_at wa t) /\
    (forall p, ~ In p (plan_targets pack) -> fget (o_world o3) p = fget wa p) /\
    Forall (fun s => fst s = BRecovered) (o_status o3).
  Proof.
    intros w rp goal w1 tbl pack ch Hinv Hi Hg Hdet Hrp Hv wa Hdistinct wb Hcomp o3.
    destruct (c10_fine_build_runs_nothing_strong w rp goal w1 tbl pack ch Hinv Hi Hg Hdet Hrp Hv Hdistinct Hcomp)
      as (H1 & H2 & H3 & H4 & H5).
    split; [exact H1|]. split; [exact H2|]. split; [|split; [exact H4 | exact H5]].
    intros t Ht. apply content_at_of_fget. apply H3. exact Ht.
  Qed.

  (* ================================================================== *)
  (* F2: the clean under every interleaving too                           *)
  (* ================================================================== *)

  Theorem c10_fine_clean_then_fine_build_strong : forall (w : world) rp goal w1 tbl pack chc ch,
    disk_inv w -> init_dir T w = Ok (w1, tbl) -> get_nodes T w1 rp goal = Ok pack ->
    Forall det_node (p_nodes pack) -> ~ In rp (plan_targets pack) ->
    o_verdict (build w rp goal) = VOk ->
    let wa := tick (o_world (build w rp goal)) in
    NoDup (map (fun t => content_at wa t) (plan_targets pack)) ->
    clean_complete chc wa rp goal ->
    let wb' := tick (o_world (clean_fine chc wa rp goal)) in
    complete_run ch wb' rp goal ->
    let o3 := build_fine ch wb' rp goal in
    o_verdict o3 = VOk /\ o_commands o3 = [] /\
    (forall t, In t (plan_targets pack) -> fget (o_world o3) t = fget wa t) /\
    (forall p, ~ In p (plan_targets pack) -> fget (o_world o3) p = fget wa p) /\
    Forall (fun s => fst s = BRecovered) (o_status o3).
  Proof.
    intros w rp goal w1 tbl pack chc ch Hinv Hi Hg Hdet Hrp Hv wa Hdistinct Hcc wb' Hcomp o3.
    destruct (prepare w rp goal w1 tbl pack Hinv Hi Hg Hdet Hrp Hv) as (wa1 & tbl' & tr & Hp).
    fold wa in Hp. pose proof Hp as [Hinva Hia Hga1 Htrd Hexa Hleaves Htok Hhasha Hhista].
    pose proof (get_nodes_plan_wf T _ _ _ _ Hga1) as (Hnd & _).
    pose proof (distinct_on_of_nodup T wa _ Hdistinct) as Hdist.
    destruct (clean_summary T teqb hc teqb_spec hc_inj wa rp goal wa1 tbl' pack Hinva Hia Hga1 Hnd Hexa Hdist)
      as (Hvc & _ & Hhistc & Htblc).
    destruct (clean_fine_equals_clean T teqb hc teqb_spec hc_inj wa rp goal chc Hinva Hcc) as (_ & Ef & _ & Eh & Et).
    apply (build_fine_after_clean wa wa1 tbl' pack tr rp goal (o_world (clean_fine chc wa rp goal)) ch); try assumption.
    - apply (clean_fine_world_inv T teqb hc teqb_spec). exact Hinva.
    - intros t Ht. rewrite Ef. exact (clean_removes_all_targets T teqb hc wa rp goal wa1 tbl' pack Hia Hga1 Hvc t Ht).
    - intros q Hq. rewrite Ef. apply (clean_frame T teqb hc wa rp goal wa1 tbl' pack q Hia Hga1 Hq).
    - exact (clean_fine_cache_has_when_distinct T teqb hc teqb_spec hc_inj wa rp goal wa1 tbl' pack chc
               Hinva Hia Hga1 Hexa Hdist Hcc).
    - rewrite Eh. exact Hhistc.
    - rewrite Et. exact Htblc.
  Qed.

  Theorem c10_fine_clean_then_fine_build : forall (w : world) rp goal w1 tbl pack chc ch,
    disk_inv w -> init_dir T w = Ok (w1, tbl) -> get_nodes T w1 rp goal = Ok pack ->
    Forall det_node (p_nodes pack) -> ~ In rp (plan_targets pack) ->
    o_verdict (build w rp goal) = VOk ->
    let wa := tick (o_world (build w rp goal)) in
    NoDup (map (fun t => content_at wa t) (plan_targets pack)) ->
    clean_complete chc wa rp goal ->
    let wb' := tick (o_world (clean_fine chc wa rp goal)) in
    complete_run ch wb' rp goal ->
    let o3 := build_fine ch wb' rp goal in
    o_verdict o3 = VOk /\ o_commands o3 = [] /\
    (forall t, In t (plan_targets pack) -> content_at (o_world o3) t = content_at wa t) /\
    (forall p, ~ In p (plan_targets pack) -> fget (o_world o3) p = fget wa p) /\
    Forall (fun s => fst s = BRecovered) (o_status o3).
  Proof.
    intros w rp goal w1 tbl pack chc ch Hinv Hi Hg Hdet Hrp Hv wa Hdistinct Hcc wb' Hcomp o3.
    destruct (c10_fine_clean_then_fine_build_strong w rp goal w1 tbl pack chc ch Hinv Hi Hg Hdet Hrp Hv Hdistinct Hcc Hcomp)
      as (H1 & H2 & H3 & H4 & H5).
    split; [exact H1|]. split; [exact H2|]. split; [|split; [exact H4 | exact H5]].
    intros t Ht. apply content_at_of_fget. apply H3. exact Ht.
  Qed.
End C10Fine.

(* ================================================================== *)
(* F3: the free symbolic hashes                                         *)
(* ================================================================== *)

Local Notation build_sym := (build sym_eqb SContent SList SRule).
Local Notation clean_sym := (clean sym_eqb SContent).

Theorem c10_fine_build_runs_nothing_sym : forall (w : world sym) rp goal w1 tbl pack ch,
  disk_inv sym_eqb SContent w -> init_dir sym w = Ok (w1, tbl) -> get_nodes sym w1 rp goal = Ok pack ->
  Forall det_node (p_nodes pack) -> ~ In rp (plan_targets pack) ->
  o_verdict (build_sym w rp goal) = VOk ->
  let wa := tick (o_world (build_sym w rp goal)) in
  NoDup (map (fun t => content_at wa t) (plan_targets pack)) ->
  let wb := tick (o_world (clean_sym wa rp goal)) in
  complete_run_sym ch wb rp goal ->
  let o3 := build_fine_sym ch wb rp goal in
  o_verdict o3 = VOk /\ o_commands o3 = [] /\
  (forall t, In t (plan_targets pack) -> content_at (o_world o3) t = content_at wa t) /\
  (forall p, ~ In p (plan_targets pack) -> fget (o_world o3) p = fget wa p) /\
  Forall (fun s => fst s = BRecovered) (o_status o3).
Proof. exact (c10_fine_build_runs_nothing sym sym_eqb SContent SList SRule sym_eqb_spec SContent_inj SRule_inj). Qed.

Theorem c10_fine_build_runs_nothing_strong_sym : forall (w : world sym) rp goal w1 tbl pack ch,
  disk_inv sym_eqb SContent w -> init_dir sym w = Ok (w1, tbl) -> get_nodes sym w1 rp goal = Ok pack ->
  Forall det_node (p_nodes pack) -> ~ In rp (plan_targets pack) ->
  o_verdict (build_sym w rp goal) = VOk ->
  let wa := tick (o_world (build_sym w rp goal)) in
  NoDup (map (fun t => content_at wa t) (plan_targets pack)) ->
  let wb := tick (o_world (clean_sym wa rp goal)) in
  complete_run_sym ch wb rp goal ->
  let o3 := build_fine_sym ch wb rp goal in
  o_verdict o3 = VOk /\ o_commands o3 = [] /\
  (forall t, In t (plan_targets pack) -> fget (o_world o3) t = fget wa t) /\
  (forall p, ~ In p (plan_targets pack) -> fget (o_world o3) p = fget wa p) /\
  Forall (fun s => fst s = BRecovered) (o_status o3).
Proof. exact (c10_fine_build_runs_nothing_strong sym sym_eqb SContent SList SRule sym_eqb_spec SContent_inj SRule_inj). Qed.

Theorem c10_fine_clean_then_fine_build_sym : forall (w : world sym) rp goal w1 tbl pack chc ch,
  disk_inv sym_eqb SContent w -> init_dir sym w = Ok (w1, tbl) -> get_nodes sym w1 rp goal = Ok pack ->
  Forall det_node (p_nodes pack) -> ~ In rp (plan_targets pack) ->
  o_verdict (build_sym w rp goal) = VOk ->
  let wa := tick (o_world (build_sym w rp goal)) in
  NoDup (map (fun t => content_at wa t) (plan_targets pack)) ->
  clean_complete_sym chc wa rp goal ->
  let wb' := tick (o_world (clean_fine_sym chc wa rp goal)) in
  complete_run_sym ch wb' rp goal ->
  let o3 := build_fine_sym ch wb' rp goal in
  o_verdict o3 = VOk /\ o_commands o3 = [] /\
  (forall t, In t (plan_targets pack) -> content_at (o_world o3) t = content_at wa t) /\
  (forall p, ~ In p (plan_targets pack) -> fget (o_world o3) p = fget wa p) /\
  Forall (fun s => fst s = BRecovered) (o_status o3).
Proof. exact (c10_fine_clean_then_fine_build sym sym_eqb SContent SList SRule sym_eqb_spec SContent_inj SRule_inj). Qed.

Theorem c10_fine_clean_then_fine_build_strong_sym : forall (w : world sym) rp goal w1 tbl pack chc ch,
  disk_inv sym_eqb SContent w -> init_dir sym w = Ok (w1, tbl) -> get_nodes sym w1 rp goal = Ok pack ->
  Forall det_node (p_nodes pack) -> ~ In rp (plan_targets pack) ->
  o_verdict (build_sym w rp goal) = VOk ->
  let wa := tick (o_world (build_sym w rp goal)) in
  NoDup (map (fun t => content_at wa t) (plan_targets pack)) ->
  clean_complete_sym chc wa rp goal ->
  let wb' := tick (o_world (clean_fine_sym chc wa rp goal)) in
  complete_run_sym ch wb' rp goal ->
  let o3 := build_fine_sym ch wb' rp goal in
  o_verdict o3 = VOk /\ o_commands o3 = [] /\
  (forall t, In t (plan_targets pack) -> fget (o_world o3) t = fget wa t) /\
  (forall p, ~ In p (plan_targets pack) -> fget (o_world o3) p = fget wa p) /\
  Forall (fun s => fst s = BRecovered) (o_status o3).
Proof. exact (c10_fine_clean_then_fine_build_strong sym sym_eqb SContent SList SRule sym_eqb_spec SContent_inj SRule_inj). Qed.

Theorem clean_fine_same_files_when_distinct_sym : forall (wa : world sym) rp goal wa1 tbl pack ch,
  disk_inv sym_eqb SContent wa -> init_dir sym wa = Ok (wa1, tbl) -> get_nodes sym wa1 rp goal = Ok pack ->
  (forall t, In t (plan_targets pack) -> fget wa t <> None) ->
  distinct_on (fget wa) (plan_targets pack) ->
  clean_complete_sym ch wa rp goal ->
  forall t f, In t (plan_targets pack) -> fget wa t = Some f ->
    exists c c', cache_of (o_world (clean_fine_sym ch wa rp goal)) = Some c /\
                 cache_of (o_world (clean_sym wa rp goal)) = Some c' /\
                 alookup sym_eqb c (SContent (f_content f)) = Some f /\ alookup sym_eqb c' (SContent (f_content f)) = Some f.
Proof. exact (clean_fine_same_files_when_distinct sym sym_eqb SContent sym_eqb_spec SContent_inj). Qed.

(* ================================================================== *)
(* F4: non-vacuity — a chain a -> b and an independent rule d, pairwise different contents, a non-serial
   complete run of the clean and a non-serial complete run of the build after it *)
(* ================================================================== *)

From Coq Require Import String Ascii.

Definition fv_rules : bytes := join_with [NL] (map bs
  ["a";":";"s";":";"gen a @s =A";":";
   "b";":";"a";":";"gen b @a =B";":";
   "d";":";"u";":";"gen d @u =D";":";""]%string).

Definition fv_ops : list (op sym) := [OWrite (bs "s") (bs "1"); OWrite (bs "u") (bs "2"); OWrite RULES_PATH fv_rules].
Definition fv_w : world sym := run_sym fv_ops (init_world Fine 1).
Definition fv_w1 : world sym := match init_dir sym fv_w with Ok (w1, _) => w1 | Err _ => fv_w end.
Definition fv_tbl : table sym := match init_dir sym fv_w with Ok (_, t) => t | Err _ => [] end.
Definition fv_pack : node_pack :=
  match get_nodes sym fv_w1 RULES_PATH None with Ok p => p | Err _ => mk_pack [] [] end.
(* the clean: the three threads take turns, last node first *)
Definition fv_chc : list nat := [2; 1; 0; 2; 1; 0].
(* the build: the two leaves (second first), then the three rule threads take turns, last node first; a thread that
   cannot move (b waits for a) is skipped *)
Definition fv_ch : list nat := [1; 0] ++ List.concat (repeat [4; 2; 3] 14).
(* notations, not definitions: the statements below are then syntactically instances of the theorems *)
Notation fv_wa := (tick (o_world (build_sym fv_w RULES_PATH None))).
Notation fv_oc := (clean_fine_sym fv_chc fv_wa RULES_PATH None).
Notation fv_o3 := (build_fine_sym fv_ch (tick (o_world fv_oc)) RULES_PATH None).

Lemma fv_inv : disk_inv sym_eqb SContent fv_w.
Proof. apply reach_inv_sym; repeat constructor. Qed.

Lemma fv_init : init_dir sym fv_w = Ok (fv_w1, fv_tbl).
Proof. vm_compute. reflexivity. Qed.

Lemma fv_nodes : get_nodes sym fv_w1 RULES_PATH None = Ok fv_pack.
Proof. vm_compute. reflexivity. Qed.

Lemma fv_det : Forall det_node (p_nodes fv_pack).
Proof. apply det_nodesb_sound. vm_compute. reflexivity. Qed.

Lemma fv_targets : plan_targets fv_pack = [bs "a"; bs "b"; bs "d"].
Proof. vm_compute. reflexivity. Qed.

Lemma fv_shape : p_leaves fv_pack = [bs "s"; bs "u"] /\ List.length (p_nodes fv_pack) = 3.
Proof. vm_compute. split; reflexivity. Qed.

Lemma fv_rp : ~ In RULES_PATH (plan_targets fv_pack).
Proof. rewrite fv_targets. vm_compute. intros [H | [H | [H | []]]]; discriminate. Qed.

Lemma fv_ok : o_verdict (build_sym fv_w RULES_PATH None) = VOk.
Proof. vm_compute. reflexivity. Qed.

Lemma fv_first_build_ran : List.length (o_commands (build_sym fv_w RULES_PATH None)) = 3.
Proof. vm_compute. reflexivity. Qed.

Lemma fv_distinct : NoDup (map (fun t => content_at fv_wa t) (plan_targets fv_pack)).
Proof.
  rewrite fv_targets. vm_compute.
  repeat constructor; cbn [In]; intros H; repeat (destruct H as [H | H]; [discriminate|]); exact H.
Qed.

Lemma fv_clean_complete : clean_complete_sym fv_chc fv_wa RULES_PATH None.
Proof. vm_compute. reflexivity. Qed.

Lemma fv_build_complete : complete_run_sym fv_ch (tick (o_world fv_oc)) RULES_PATH None.
Proof. vm_compute. reflexivity. Qed.

(* the runs are not the serial ones *)
Lemma fv_not_serial :
  fv_chc <> cserial (node_blobs SContent fv_tbl (p_nodes fv_pack)) /\
  fv_ch <> serial_choices sym fv_pack (fst (take_blobs sym SContent fv_tbl (worker_paths fv_pack))).
Proof. split; vm_compute; discriminate. Qed.

(* the theorem applies ... *)
Example c10_fine_clean_then_fine_build_applies :
  o_verdict fv_o3 = VOk /\ o_commands fv_o3 = [] /\
  (forall t, In t (plan_targets fv_pack) -> fget (o_world fv_o3) t = fget fv_wa t) /\
  (forall p, ~ In p (plan_targets fv_pack) -> fget (o_world fv_o3) p = fget fv_wa p) /\
  Forall (fun s => fst s = BRecovered) (o_status fv_o3).
Proof.
  exact (c10_fine_clean_then_fine_build_strong_sym fv_w RULES_PATH None fv_w1 fv_tbl fv_pack fv_chc fv_ch
           fv_inv fv_init fv_nodes fv_det fv_rp fv_ok fv_distinct fv_clean_complete fv_build_complete).
Qed.

(* ... and what it says is what the model computes: after the clean no target is there, after the build the three very
   files are back, nothing ran *)
Example c10_fine_clean_then_fine_build_computed :
  map (fun t => fget (o_world fv_oc) t) (plan_targets fv_pack) = [None; None; None] /\
  map (fun t => fget (o_world fv_o3) t) (plan_targets fv_pack) = map (fun t => fget fv_wa t) (plan_targets fv_pack) /\
  map (fun t => content_at fv_wa t) (plan_targets fv_pack) = [Some (bs "1A"); Some (bs "1AB"); Some (bs "2D")] /\
  o_verdict fv_o3 = VOk /\ o_commands fv_o3 = [] /\
  o_status fv_o3 = [(BRecovered, bs "a"); (BRecovered, bs "b"); (BRecovered, bs "d")].
Proof. vm_compute. repeat split; reflexivity. Qed.

(* the same build after the SERIAL clean (F1) *)
Example c10_fine_build_runs_nothing_applies :
  let o3 := build_fine_sym fv_ch (tick (o_world (clean_sym fv_wa RULES_PATH None))) RULES_PATH None in
  complete_run_sym fv_ch (tick (o_world (clean_sym fv_wa RULES_PATH None))) RULES_PATH None /\
  o_verdict o3 = VOk /\ o_commands o3 = [] /\
  (forall t, In t (plan_targets fv_pack) -> fget (o_world o3) t = fget fv_wa t) /\
  (forall p, ~ In p (plan_targets fv_pack) -> fget (o_world o3) p = fget fv_wa p) /\
  Forall (fun s => fst s = BRecovered) (o_status o3).
Proof.
  assert (complete_run_sym fv_ch (tick (o_world (clean_sym fv_wa RULES_PATH None))) RULES_PATH None) as Hc
    by (vm_compute; reflexivity).
  split; [exact Hc|].
  exact (c10_fine_build_runs_nothing_strong_sym fv_w RULES_PATH None fv_w1 fv_tbl fv_pack fv_ch
           fv_inv fv_init fv_nodes fv_det fv_rp fv_ok fv_distinct Hc).
Qed.

Print Assumptions c10_fine_build_runs_nothing.
Print Assumptions c10_fine_build_runs_nothing_strong.
Print Assumptions c10_fine_clean_then_fine_build.
Print Assumptions c10_fine_clean_then_fine_build_strong.
Print Assumptions clean_fine_same_files_when_distinct.
Print Assumptions c10_fine_build_runs_nothing_sym.
Print Assumptions c10_fine_clean_then_fine_build_sym.
Print Assumptions c10_fine_build_runs_nothing_strong_sym.
Print Assumptions c10_fine_clean_then_fine_build_strong_sym.
Print Assumptions clean_fine_same_files_when_distinct_sym.
Print Assumptions c10_fine_clean_then_fine_build_applies.
Print Assumptions c10_fine_clean_then_fine_build_computed.
Print Assumptions c10_fine_build_runs_nothing_applies.
