(* The any-clock invariant AT EVERY CRASH POINT of a build or a clean (the statement whose failure was F6).

   A crash state is the disk after a prefix of the action list of Model/Acts.v.  Under ANY clock (nothing below
   looks at w_mode) every such state satisfies CoarseInv.pre_inv: the cache is content-addressed, no file is newer
   than the clock, and every entry of the table that is on disk is sound for the file that is NOW at its path.
   The point is the work phase: the table on disk is `table_rest t pack` (written before any worker starts, the
   repair of F6), it has no entry for a path a worker owns, and a restore only ever goes to such a path; whatever
   a command writes elsewhere is not older than the clock and cannot be taken for a remembered file (adv). *)
From Ruler Require Import Tactics Bytes AList RuleSyntax Parser TopoSort World Cmdlang Work Build Ops Inv Acts BuildSpec
     BytesFacts InvFacts TableFrame BuildFacts C01Build C01Plan C18Facts ActsSound F6Facts CoarseInv C18Coarse CoarseBuild.
Local Open Scope N_scope.

Module CoarseCrashProofs.
Import CoarseProofs CoarseBuildProofs.

Section CC.
  Variable T : Type.
  Variable teqb : T -> T -> bool.
  Variable hc : bytes -> T.
  Variable hl : list T -> T.
  Variable hr : rule -> T.
  Hypothesis teqb_spec : forall a b, teqb a b = true <-> a = b.

  Notation world := (world T).
  Notation fstate := (fstate T).
  Notation blob := (blob T).
  Notation run_state := (run_state T).
  Notation any_file := (any_file teqb).
  Notation cache_addressed := (cache_addressed teqb hc).
  Notation state_ok_at := (state_ok_at teqb hc).
  Notation held_ok := (held_ok teqb hc).
  Notation done_ok := (done_ok teqb hc).
  Notation blob_held := (blob_held teqb hc).
  Notation blob_done := (blob_done teqb hc).
  Notation tbl_held := (tbl_held teqb hc).
  Notation tbl_done := (tbl_done teqb hc).
  Notation files_le := (files_le teqb).
  Notation inflight := (inflight teqb hc).
  Notation pre_inv := (pre_inv teqb hc).
  Notation coarse_inv := (coarse_inv teqb hc).
  Notation frame_at := (frame_at T).
  Notation cache_sub := (InvProofs.cache_sub T teqb).
  Notation do_act := (do_act teqb hr).
  Notation run_acts := (run_acts teqb hr).
  Notation rs_cinv := (rs_cinv T teqb hc).

  Let beq_spec := bytes_eqb_eq.

  (* ================================================================== *)
  (* every prefix of an action list                                       *)
  (* ================================================================== *)

  Definition all_pre (P : world -> Prop) (acts : list (act T)) (w : world) : Prop :=
    forall pre suf, acts = pre ++ suf -> P (run_acts pre w).

  Lemma all_pre_nil (P : world -> Prop) w : P w -> all_pre P [] w.
  Proof.
    intros H pre suf E. symmetry in E. apply app_eq_nil in E as [-> _]. exact H.
  Qed.

  Lemma all_pre_cons (P : world -> Prop) a l w : P w -> all_pre P l (do_act w a) -> all_pre P (a :: l) w.
  Proof.
    intros H0 H pre suf E. destruct pre as [|b pre]; [exact H0|].
    cbn [app] in E. injection E as <- E. rewrite run_acts_cons. apply (H pre suf E).
  Qed.

  Lemma all_pre_whole (P : world -> Prop) l w : all_pre P l w -> P (run_acts l w).
  Proof. intro H. apply (H l []). symmetry. apply app_nil_r. Qed.

  Lemma all_pre_start (P : world -> Prop) l w : all_pre P l w -> P w.
  Proof. intro H. apply (H [] l). reflexivity. Qed.

  Lemma all_pre_app (P : world -> Prop) l1 l2 w :
    all_pre P l1 w -> all_pre P l2 (run_acts l1 w) -> all_pre P (l1 ++ l2) w.
  Proof.
    intros H1 H2 pre suf E. apply app_split in E as [(m & -> & ->) | (m & -> & ->)].
    - apply (H1 pre m). reflexivity.
    - rewrite run_acts_app. apply (H2 m suf). reflexivity.
  Qed.

  Lemma all_pre_impl (P Q : world -> Prop) l w : (forall x, P x -> Q x) -> all_pre P l w -> all_pre Q l w.
  Proof. intros HPQ H pre suf E. apply HPQ. apply (H pre suf E). Qed.

  (* ================================================================== *)
  (* the work phase: tr is the table on disk                              *)
  (* ================================================================== *)

  (* in flight, with the table tr on disk, every entry of which is sound for its path and older than anything
     written from now on *)
  Definition work_inv (tr : table T) (w : world) : Prop :=
    inflight w /\ tbl_held w tr /\ rd_table (w_rd w) = Some (SF_ok tr).

  Lemma work_inv_pre_inv tr w : work_inv tr w -> pre_inv w.
  Proof.
    intros (Hi & Ht & Htb). split; [exact Hi|]. intros tbl E. rewrite Htb in E. injection E as <-.
    apply (tbl_held_done T teqb hc). exact Ht.
  Qed.

  (* an action that is legitimate in the world where it is performed, given the table tr on disk:
     a back-up under the true hash of the file moved, a restore to a path tr does not mention *)
  Definition cact_ok (tr : table T) (w : world) (a : act T) : Prop :=
    match a with
    | ABackup p t => exists assumed, state_ok_at w p assumed /\ get_file_ticket teqb hc w p assumed = Some t
    | ARestore t p => alookup bytes_eqb tr p = None
    | ALine _ | AWriteHist _ _ => True
    | _ => False
    end.

  Fixpoint cacts_ok (tr : table T) (w : world) (acts : list (act T)) : Prop :=
    match acts with
    | [] => True
    | a :: rest => cact_ok tr w a /\ cacts_ok tr (do_act w a) rest
    end.

  Lemma cacts_ok_app tr l1 : forall (w : world) l2,
    cacts_ok tr w (l1 ++ l2) <-> cacts_ok tr w l1 /\ cacts_ok tr (run_acts l1 w) l2.
  Proof.
    induction l1 as [|a l1 IH]; intros w l2; cbn [app cacts_ok].
    - rewrite run_acts_nil. tauto.
    - rewrite run_acts_cons, IH. tauto.
  Qed.

  Lemma tbl_held_same_files (w w' : world) t :
    w_files w' = w_files w -> w_clock w' = w_clock w -> tbl_held w t -> tbl_held w' t.
  Proof.
    intros Hf Hc. apply (tbl_held_sub T teqb hc); [lia|]. intro q. left. unfold fget. rewrite Hf. reflexivity.
  Qed.

  Lemma cact_ok_step tr (w : world) a : work_inv tr w -> cact_ok tr w a -> work_inv tr (do_act w a).
  Proof.
    intros (Hi & Ht & Htb) Hok.
    destruct a as [| | | |p t|t p|l|r h|tbl]; cbn [cact_ok] in Hok; try contradiction.
    - (* back-up *)
      cbn [Acts.do_act]. destruct (back_up teqb w t p) as [w1|] eqn:Eb; [|split; auto].
      destruct Hok as (a & Hok & Hg). pose proof (back_up_clock T teqb _ _ _ _ Eb) as Hc.
      split; [eapply (back_up_inflight T teqb hc teqb_spec); eauto|]. split.
      + apply (tbl_held_sub T teqb hc w w1); [lia | | exact Ht]. intro q.
        destruct (InvProofs.key_dec _ beq_spec q p) as [-> | Hne].
        * right. eapply (back_up_fget_eq T); eauto.
        * left. eapply (back_up_fget_neq T); eauto.
      + rewrite <- Htb. eapply back_up_table; eauto.
    - (* restore *)
      cbn [Acts.do_act]. destruct (restore teqb w t p) as [w1| |] eqn:Er; try (split; auto; fail).
      pose proof (restore_clock T teqb _ _ _ _ Er) as Hc.
      split; [eapply (restore_inflight T teqb hc teqb_spec); eauto|]. split.
      + apply (tbl_held_frame T teqb hc w w1 [p]); [lia | eapply (restore_frame T); eauto | | exact Ht].
        intros q s Hl [<- | []]. congruence.
      + rewrite <- Htb. pose proof (do_act_neutral T teqb hr w (ARestore t p) I) as H.
        cbn [Acts.do_act] in H. rewrite Er in H. exact H.
    - (* one script line *)
      cbn [Acts.do_act]. pose proof (run_line_adv T teqb hc teqb_spec w l) as [Hc Hadv].
      split; [apply (run_line_inflight T teqb hc teqb_spec); exact Hi|]. split.
      + apply (tbl_held_transport T teqb hc w); [exact Hc | | exact Ht]. intros q s _. apply Hadv.
      + rewrite (run_line_table T). exact Htb.
    - (* a history file *)
      cbn [Acts.do_act]. pose proof (write_history_same3 T teqb hr w r h) as Hs.
      split; [eapply inflight_same3; eauto|]. destruct Hs as (Hf & Hc & _). split.
      + eapply tbl_held_same_files; eauto.
      + rewrite <- Htb. apply (do_act_neutral T teqb hr w (AWriteHist r h) I).
  Qed.

  Lemma cacts_ok_all_pre tr acts : forall w : world,
    work_inv tr w -> cacts_ok tr w acts -> all_pre (work_inv tr) acts w.
  Proof.
    induction acts as [|a rest IH]; intros w Hw Hok; [apply all_pre_nil; exact Hw|].
    destruct Hok as [Ha Hrest]. apply all_pre_cons; [exact Hw|]. apply IH; [|exact Hrest].
    apply cact_ok_step; assumption.
  Qed.

  (* ================================================================== *)
  (* one worker                                                           *)
  (* ================================================================== *)

  Definition tr_avoids (tr : table T) (ps : list bytes) : Prop :=
    forall q s, alookup bytes_eqb tr q = Some s -> ~ In q ps.

  Lemma tr_avoids_none tr ps p : tr_avoids tr ps -> In p ps -> alookup bytes_eqb tr p = None.
  Proof.
    intros Hav Hin. destruct (alookup bytes_eqb tr p) as [s|] eqn:E; [|reflexivity].
    destruct (Hav p s E Hin).
  Qed.

  Lemma restore_acts_cok tr (w : world) t p :
    alookup bytes_eqb tr p = None -> cacts_ok tr w (restore_acts T teqb w t p).
  Proof. intro H. unfold restore_acts. destruct (restore teqb w t p); cbn [cacts_ok cact_ok]; auto. Qed.

  Lemma resolve_single_acts_cok tr (w : world) rem p a :
    state_ok_at w p a -> alookup bytes_eqb tr p = None -> cacts_ok tr w (resolve_single_acts T teqb hc w rem p a).
  Proof.
    intros Hok Hp. unfold resolve_single_acts.
    destruct (get_file_ticket teqb hc w p a) as [cur|] eqn:Eg.
    - destruct (teqb rem cur); [exact I|].
      destruct (back_up teqb w cur p) as [w1|] eqn:Eb; [|exact I].
      cbn [cacts_ok]. split; [exists a; auto|].
      rewrite (backup_act_world T teqb hr _ _ _ _ Eb). apply restore_acts_cok. exact Hp.
    - apply restore_acts_cok. exact Hp.
  Qed.

  Lemma resolve_remembered_acts_cok tr b : forall (w : world) rem,
    NoDup (map fst b) -> blob_held w b -> tr_avoids tr (map fst b) ->
    cacts_ok tr w (resolve_remembered_acts T teqb hc w b rem).
  Proof.
    induction b as [|[p a] rest IH]; intros w rem Hnd Hb Hav; cbn [resolve_remembered_acts]; [exact I|].
    destruct rem as [|r rrest]; [exact I|].
    cbn [map fst] in Hnd. apply NoDup_cons_inv in Hnd as [Hnin Hnd].
    inversion Hb as [|? ? Ha Hrest]; subst. cbn [fst snd] in Ha.
    apply cacts_ok_app. split.
    - apply resolve_single_acts_cok; [apply Ha|]. apply (tr_avoids_none tr _ p Hav). left. reflexivity.
    - destruct (resolve_single teqb hc w (fs_t r) p a) as [[res w1]|e] eqn:E1; [|exact I].
      rewrite (resolve_single_acts_world T teqb hc hr _ _ _ _ _ _ E1).
      destruct (resolve_single_coarse T teqb hc teqb_spec _ _ _ _ _ _ (proj1 Ha) E1) as (Hc1 & _ & _).
      pose proof (resolve_single_frame T teqb hc _ _ _ _ _ _ E1) as Hf1.
      apply IH; [exact Hnd | | intros q s Hl Hq; apply (Hav q s Hl); right; exact Hq].
      eapply (blob_held_frame T teqb hc); [| exact Hf1 | | exact Hrest]; [lia|].
      intros q Hq [<- | []]. contradiction.
  Qed.

  Lemma resolve_fresh_acts_cok tr b : forall (w : world),
    NoDup (map fst b) -> blob_held w b -> cacts_ok tr w (resolve_fresh_acts T teqb hc w b).
  Proof.
    induction b as [|[p a] rest IH]; intros w Hnd Hb; cbn [resolve_fresh_acts]; [exact I|].
    cbn [map fst] in Hnd. apply NoDup_cons_inv in Hnd as [Hnin Hnd].
    inversion Hb as [|? ? Ha Hrest]; subst. cbn [fst snd] in Ha.
    destruct (get_file_ticket teqb hc w p a) as [cur|] eqn:Eg; [|apply IH; assumption].
    destruct (back_up teqb w cur p) as [w1|] eqn:Eb; [|exact I].
    cbn [cacts_ok]. split; [exists a; split; [apply Ha | exact Eg]|].
    rewrite (backup_act_world T teqb hr _ _ _ _ Eb).
    pose proof (back_up_clock T teqb _ _ _ _ Eb) as Hc1. pose proof (back_up_frame T teqb _ _ _ _ Eb) as Hf1.
    apply IH; [exact Hnd|].
    eapply (blob_held_frame T teqb hc); [| exact Hf1 | | exact Hrest]; [lia|].
    intros q Hq [<- | []]. contradiction.
  Qed.

  Lemma lines_acts_cok tr lines : forall w : world, cacts_ok tr w (map ALine lines).
  Proof. induction lines as [|l r IH]; intros w; cbn [map cacts_ok cact_ok]; auto. Qed.

  Lemma handle_rule_acts_cok tr (w : world) b h st cmd :
    NoDup (map fst b) -> blob_held w b -> tr_avoids tr (map fst b) ->
    cacts_ok tr w (handle_rule_acts teqb hc w b h st cmd).
  Proof.
    intros Hnd Hb Hav. rewrite (handle_rule_acts_eq T teqb hc).
    destruct (resolved_of T teqb hc w b h st) as [[ress w1]|e]; [|exact I].
    apply cacts_ok_app. split.
    - unfold resolved_acts. destruct (alookup teqb h st) as [rem|].
      + apply resolve_remembered_acts_cok; auto.
      + apply resolve_fresh_acts_cok; auto.
    - destruct (needs_rebuild ress); [apply lines_acts_cok | exact I].
  Qed.

  Lemma run_node_acts_cok tr n rest st :
    NoDup (n_targets n) -> tr_avoids tr (n_targets n) -> rs_cinv tr (n :: rest) st ->
    cacts_ok tr (rs_world T st) (run_node_acts T teqb hc hl hr st n).
  Proof.
    intros Hnd Hav (_ & Ht & _). unfold run_node_acts.
    destruct (take_blob T hc (rs_table T st) (n_targets n)) as [b t'] eqn:Etb.
    destruct (take_blob_held T teqb hc teqb_spec _ _ _ _ _ Ht Etb) as (Hb & _).
    pose proof (BuildFacts.take_blob_fst T hc (n_targets n) (rs_table T st)) as Hfst. rewrite Etb in Hfst. cbn [fst] in Hfst.
    destruct (read_history T teqb hr (rs_world T st) (n_rule n)) as [h|]; [|exact I].
    destruct (all_some _) as [tickets|]; [|exact I].
    apply handle_rule_acts_cok; rewrite ?Hfst; assumption.
  Qed.

  Lemma run_nodes_acts_cok tr ns : forall st (w : world),
    nodes_good ns -> tr_avoids tr (flat_map n_targets ns) -> rs_cinv tr ns st -> w = rs_world T st ->
    cacts_ok tr w (run_nodes_acts T teqb hc hl hr st ns).
  Proof.
    induction ns as [|n rest IH]; intros st w Hg Hav Hrs ->; cbn [run_nodes_acts]; [exact I|].
    destruct (run_node T teqb hc hl hr st n) as [st1|] eqn:E1; [|exact I].
    destruct (nodes_good_cons _ _ Hg) as (Hnd & Hcn & Havn & Hg').
    assert (tr_avoids tr (n_targets n)) as Hav1.
    { intros q s Hl Hin. apply (Hav q s Hl). cbn [flat_map]. apply in_or_app. left. exact Hin. }
    assert (tr_avoids tr (flat_map n_targets rest)) as Hav2.
    { intros q s Hl Hin. apply (Hav q s Hl). cbn [flat_map]. apply in_or_app. right. exact Hin. }
    apply cacts_ok_app. split.
    - eapply run_node_acts_cok; eauto.
    - rewrite (run_node_acts_world T teqb hc hl hr _ _ _ E1).
      apply (IH st1); [exact Hg' | exact Hav2 | | reflexivity].
      eapply (run_node_cinv T teqb hc hl hr teqb_spec); eauto.
  Qed.

  Lemma join_acts_cok tr results : forall w : world, cacts_ok tr w (join_acts T results).
  Proof.
    induction results as [|res rest IH]; intros w; [exact I|].
    rewrite join_acts_cons. apply cacts_ok_app. split; [|apply IH].
    destruct res as [[r|] [wr|e|]]; try exact I. cbn [join_one_acts].
    destruct (wr_history wr) as [h|]; cbn [cacts_ok cact_ok]; auto.
  Qed.

  (* ================================================================== *)
  (* directory::init                                                      *)
  (* ================================================================== *)

  Definition init_like (a : act T) : Prop :=
    match a with AMkRuler | AMkCache | AMkHist | ANewTable => True | _ => False end.

  (* w is w0 with some of the missing parts of the ruler directory created *)
  Definition init_rel (w0 w : world) : Prop :=
    w_files w = w_files w0 /\ w_clock w = w_clock w0 /\ cache_sub w0 w /\
    (rd_table (w_rd w) = rd_table (w_rd w0) \/ rd_table (w_rd w) = Some (SF_ok [])).

  Lemma init_rel_refl w : init_rel w w.
  Proof.
    split; [reflexivity|]. split; [reflexivity|]. split; [apply InvProofs.cache_sub_same; reflexivity|].
    left. reflexivity.
  Qed.

  Lemma init_like_step w0 (w : world) a : init_like a -> init_rel w0 w -> init_rel w0 (do_act w a).
  Proof.
    intros Hl (Hf & Hc & Hcs & Ht).
    destruct a as [| | | |p t|t p|l|r h|tbl]; cbn [init_like] in Hl; try contradiction; cbn [Acts.do_act];
      (split; [exact Hf|]); (split; [exact Hc|]).
    - split; [|exact Ht]. intros c' t f Hc' Hl'. apply (Hcs c' t f); [|exact Hl']. exact Hc'.
    - split; [|exact Ht]. intros c' t f Hc' Hl'. unfold cache_of in Hc'. cbn in Hc'.
      destruct (rd_cache (w_rd w)) as [c|] eqn:E; injection Hc' as <-.
      + apply (Hcs c t f); [exact E | exact Hl'].
      + cbn in Hl'. discriminate.
    - split; [|exact Ht]. intros c' t f Hc' Hl'. apply (Hcs c' t f); [|exact Hl']. exact Hc'.
    - split; [intros c' t f Hc' Hl'; apply (Hcs c' t f); [exact Hc' | exact Hl']|]. cbn.
      destruct (rd_table (w_rd w)) as [x|] eqn:E; [exact Ht | right; reflexivity].
  Qed.

  Lemma init_like_all_pre w0 acts : forall w : world,
    Forall init_like acts -> init_rel w0 w -> all_pre (init_rel w0) acts w.
  Proof.
    induction acts as [|a rest IH]; intros w HF Hw; [apply all_pre_nil; exact Hw|].
    inversion HF as [|? ? Ha Hrest]; subst. apply all_pre_cons; [exact Hw|].
    apply IH; [exact Hrest|]. apply init_like_step; assumption.
  Qed.

  Lemma init_acts_like (w : world) : Forall init_like (init_acts w).
  Proof.
    unfold init_acts. destruct (rd_exists (w_rd w)), (rd_cache (w_rd w)), (rd_hist (w_rd w)), (rd_table (w_rd w));
      cbn [app]; repeat constructor.
  Qed.

  Lemma init_rel_pre_inv w0 (w : world) : coarse_inv w0 -> init_rel w0 w -> pre_inv w.
  Proof.
    intros Hinv (Hf & Hc & Hcs & Ht). split.
    - apply (inflight_sub T teqb hc w0); [exact Hf | exact Hc | exact Hcs|].
      apply (coarse_inv_inflight T teqb hc). exact Hinv.
    - intros tbl E. destruct Ht as [Ht | Ht]; rewrite Ht in E.
      + apply (tbl_done_ext T teqb hc w0); [exact Hf | exact Hc|]. apply (tbl_held_done T teqb hc).
        eapply (coarse_inv_tbl_held T teqb hc); eauto.
      + injection E as <-. intros q s Hl. cbn in Hl. discriminate.
  Qed.

  Lemma init_acts_all_pre (w : world) : coarse_inv w -> all_pre pre_inv (init_acts w) w.
  Proof.
    intro Hinv. apply (all_pre_impl (init_rel w)); [intros x; apply init_rel_pre_inv; exact Hinv|].
    apply init_like_all_pre; [apply init_acts_like | apply init_rel_refl].
  Qed.

  (* ================================================================== *)
  (* build                                                                *)
  (* ================================================================== *)

  Theorem build_all_pre (w : world) rp goal :
    coarse_inv w ->
    (forall w1 tbl pack, init_dir T w = Ok (w1, tbl) -> get_nodes T w1 rp goal = Ok pack ->
                         Forall node_confined (p_nodes pack)) ->
    all_pre pre_inv (build_acts teqb hc hl hr w rp goal) w.
  Proof.
    intros Hinv Hconf. rewrite (build_acts_eq T teqb hc hl hr).
    apply all_pre_app; [apply init_acts_all_pre; exact Hinv|].
    destruct (init_dir T w) as [[w1 t]|f] eqn:Ei.
    2:{ apply all_pre_nil. rewrite (init_acts_err T teqb hr _ _ Ei). eapply init_dir_error_pre_inv; eauto. }
    rewrite (init_acts_ok T teqb hr _ _ _ Ei).
    destruct (init_dir_coarse T teqb hc _ _ _ Hinv Ei) as (Hi1 & Ht1 & Htb1).
    assert (pre_inv w1) as Hp1.
    { split; [exact Hi1|]. intros tbl E. rewrite Htb1 in E. injection E as <-.
      apply (tbl_held_done T teqb hc). exact Ht1. }
    destruct (get_nodes T w1 rp goal) as [pack|f] eqn:Eg; [|apply all_pre_nil; exact Hp1].
    cbv zeta. apply all_pre_cons; [exact Hp1|]. cbn [Acts.do_act].
    pose proof (get_nodes_plan_wf T _ _ _ _ Eg) as (Hnd & Hleaf & _).
    pose proof (Hconf w1 t pack eq_refl Eg) as Hc.
    assert (nodes_good (p_nodes pack)) as Hg by (split; assumption).
    set (tr := table_rest T hc t pack).
    set (w1t := write_table T w1 tr).
    assert (tr_avoids tr (flat_map n_targets (p_nodes pack))) as Htrk.
    { intros q s Hl. apply (table_rest_keys T hc t pack q s Hl). }
    assert (tbl_held w1 tr) as Htr1.
    { intros q s Hl. apply (Ht1 q s). apply (table_rest_keys T hc t pack q s Hl). }
    assert (inflight w1t) as Hi1t by (eapply inflight_same3; [apply write_table_same3 | exact Hi1]).
    assert (work_inv tr w1t) as Hw1t.
    { split; [exact Hi1t|]. split; [|reflexivity]. apply (tbl_held_same_files w1); auto. }
    set (st1 := st_leaves T teqb hc w1t t pack).
    assert (rs_cinv tr (p_nodes pack) st1) as H1.
    { unfold st1, st_leaves. apply (run_leaves_cinv T teqb hc teqb_spec).
      - intros l Hl n Hn Hin. apply (Hleaf l Hl). unfold plan_targets. apply in_flat_map. eauto.
      - unfold CoarseBuildProofs.rs_cinv. cbn [rs_world rs_table rs_results]. split; [exact Hi1t|].
        split; [apply (tbl_held_same_files w1); auto|]. split; [apply Hw1t|]. intros r wr []. }
    assert (rs_world T st1 = w1t) as Hst1w by apply st_leaves_world.
    assert (all_pre (work_inv tr) (run_nodes_acts T teqb hc hl hr st1 (p_nodes pack)) w1t) as Hall.
    { apply cacts_ok_all_pre; [exact Hw1t|]. apply run_nodes_acts_cok; auto. }
    apply all_pre_app; [eapply all_pre_impl; [apply work_inv_pre_inv | exact Hall]|].
    apply all_pre_whole in Hall.
    rewrite (run_nodes_acts_world T teqb hc hl hr (p_nodes pack) st1 w1t) in * by (symmetry; exact Hst1w).
    destruct (run_nodes T teqb hc hl hr st1 (p_nodes pack)) as [st2|] eqn:En.
    2:{ apply all_pre_nil. eapply work_inv_pre_inv; eauto. }
    rewrite (upto_some T teqb hc hl hr _ _ _ En) in Hall |- *.
    assert (all_pre (work_inv tr) (join_acts T (rs_results T st2)) (rs_world T st2)) as Hallj.
    { apply cacts_ok_all_pre; [exact Hall | apply join_acts_cok]. }
    apply all_pre_app; [eapply all_pre_impl; [apply work_inv_pre_inv | exact Hallj]|].
    apply all_pre_whole in Hallj.
    apply all_pre_cons; [eapply work_inv_pre_inv; eauto|]. apply all_pre_nil. cbn [Acts.do_act].
    change (rs_world T st2) with (js_world T (mk_js T (rs_world T st2) (rs_table T st2) [] [])).
    rewrite (join_acts_world T teqb hr). fold (joined T teqb hr st2).
    destruct (run_nodes_cinv T teqb hc hl hr teqb_spec tr _ _ _ Hg Htrk H1 En) as (Hi2 & Ht2 & _ & Hr2).
    destruct (join_all_done T teqb hc hr (rs_world T st2) (rs_results T st2)
                (mk_js T (rs_world T st2) (rs_table T st2) [] [])) as [Htd Hs3].
    - intros r wr Hin. apply (Hr2 r wr Hin).
    - cbn [js_table]. apply (tbl_held_done T teqb hc). exact Ht2.
    - apply same3_refl.
    - eapply (pre_inv_write_table T teqb hc); eauto.
  Qed.

  (* ================================================================== *)
  (* clean: the table on disk is the one clean started from               *)
  (* ================================================================== *)

  Lemma clean_targets_acts_cok tr b : forall (w : world),
    NoDup (map fst b) -> blob_held w b -> cacts_ok tr w (clean_targets_acts T teqb hc w b).
  Proof.
    induction b as [|[p a] rest IH]; intros w Hnd Hb; cbn [clean_targets_acts]; [exact I|].
    cbn [map fst] in Hnd. apply NoDup_cons_inv in Hnd as [Hnin Hnd].
    inversion Hb as [|? ? Ha Hrest]; subst. cbn [fst snd] in Ha.
    destruct (get_file_ticket teqb hc w p a) as [cur|] eqn:Eg; [|apply IH; assumption].
    destruct (back_up teqb w cur p) as [w1|] eqn:Eb; [|exact I].
    cbn [cacts_ok]. split; [exists a; split; [apply Ha | exact Eg]|].
    rewrite (backup_act_world T teqb hr _ _ _ _ Eb).
    pose proof (back_up_clock T teqb _ _ _ _ Eb) as Hc1. pose proof (back_up_frame T teqb _ _ _ _ Eb) as Hf1.
    apply IH; [exact Hnd|].
    eapply (blob_held_frame T teqb hc); [| exact Hf1 | | exact Hrest]; [lia|].
    intros q Hq [<- | []]. contradiction.
  Qed.

  Lemma clean_nodes_acts_cok tr ns : forall (w : world) t,
    Forall (fun n => NoDup (n_targets n)) ns -> tbl_held w t ->
    cacts_ok tr w (clean_nodes_acts T teqb hc w t ns).
  Proof.
    induction ns as [|n rest IH]; intros w t Hg Ht; cbn [clean_nodes_acts]; [exact I|].
    inversion Hg as [|? ? Hnd Hrest]; subst.
    destruct (take_blob T hc t (n_targets n)) as [b t1] eqn:E1.
    destruct (take_blob_held T teqb hc teqb_spec _ _ _ _ _ Ht E1) as (Hb & Ht1 & _).
    pose proof (BuildFacts.take_blob_fst T hc (n_targets n) t) as Hfst. rewrite E1 in Hfst. cbn [fst] in Hfst.
    assert (NoDup (map fst b)) as Hndb by (rewrite Hfst; exact Hnd).
    destruct (clean_targets teqb hc w b) as [w1|e] eqn:Ec; [|apply IH; assumption].
    apply cacts_ok_app. split; [apply clean_targets_acts_cok; assumption|].
    rewrite (clean_targets_acts_world T teqb hc hr _ _ _ Ec).
    destruct (clean_targets_coarse T teqb hc teqb_spec _ _ _ Hndb Hb Ec) as (Hck & _ & Hsub).
    apply IH; [exact Hrest|]. eapply (tbl_held_sub T teqb hc); eauto. lia.
  Qed.

  Theorem clean_all_pre (w : world) rp goal :
    coarse_inv w -> all_pre pre_inv (clean_acts teqb hc w rp goal) w.
  Proof.
    intros Hinv. unfold clean_acts.
    apply all_pre_app; [apply init_acts_all_pre; exact Hinv|].
    destruct (init_dir T w) as [[w1 t]|f] eqn:Ei.
    2:{ apply all_pre_nil. rewrite (init_acts_err T teqb hr _ _ Ei). eapply init_dir_error_pre_inv; eauto. }
    rewrite (init_acts_ok T teqb hr _ _ _ Ei).
    destruct (init_dir_coarse T teqb hc _ _ _ Hinv Ei) as (Hi1 & Ht1 & Htb1).
    assert (work_inv t w1) as Hw1 by (split; [exact Hi1|]; split; assumption).
    destruct (get_nodes T w1 rp goal) as [pack|f] eqn:Eg; [|apply all_pre_nil; eapply work_inv_pre_inv; eauto].
    assert (Forall (fun n => NoDup (n_targets n)) (p_nodes pack)) as Hg.
    { apply Forall_forall. intros n Hin. destruct (in_split _ _ Hin) as (done & rest & E).
      apply (plan_wf_node pack done n rest (get_nodes_plan_wf T _ _ _ _ Eg) E). }
    eapply all_pre_impl; [apply work_inv_pre_inv|].
    apply cacts_ok_all_pre; [exact Hw1|]. apply clean_nodes_acts_cok; assumption.
  Qed.

  (* ================================================================== *)
  (* the deliverables                                                     *)
  (* ================================================================== *)

  Theorem coarse_build_crash_point_main (w : world) goal pre suf :
    coarse_inv w -> build_confined T w goal ->
    build_acts teqb hc hl hr w RULES_PATH goal = pre ++ suf ->
    pre_inv (run_acts pre w).
  Proof. intros Hinv Hc E. exact (build_all_pre w RULES_PATH goal Hinv Hc pre suf E). Qed.

  Theorem coarse_clean_crash_point_main (w : world) goal pre suf :
    coarse_inv w -> clean_acts teqb hc w RULES_PATH goal = pre ++ suf -> pre_inv (run_acts pre w).
  Proof. intros Hinv E. exact (clean_all_pre w RULES_PATH goal Hinv pre suf E). Qed.
End CC.
End CoarseCrashProofs.
