(* C11, crash safety: whatever prefix of its actions ruler (and the commands it runs) got through
   before being killed, the state files it leaves are good ones: the disk invariant holds, the cache
   is content-addressed, no state file is damaged, and the next build is not wedged on a fatal
   "table unreadable" / "history unreadable" error.  Only the user (SUserRd) can damage a state file. *)
From Coq Require Import Relations.Relation_Operators Relations.Operators_Properties.
From Ruler Require Import Tactics Bytes AList RuleSyntax Parser TopoSort World Cmdlang Work Build Ops Inv
  BytesFacts InvFacts BuildFacts.
Local Open Scope N_scope.

Module C11Proofs.

Section C11.
  Variable T : Type.
  Variable teqb : T -> T -> bool.
  Variable hc : bytes -> T.
  Variable hl : list T -> T.
  Variable hr : rule -> T.
  Hypothesis teqb_spec : forall a b, teqb a b = true <-> a = b.

  Notation world := (world T).
  Notation fstate := (fstate T).
  Notation state_ok := (state_ok teqb hc).
  Notation disk_inv := (disk_inv teqb hc).
  Notation cache_addressed := (cache_addressed teqb hc).
  Notation step := (step teqb hc).
  Notation steps := (clos_refl_trans world step).
  Notation blob_ok := (InvProofs.blob_ok T teqb hc).
  Notation tbl_ok := (InvProofs.tbl_ok T teqb hc).

  Let beq_spec := bytes_eqb_eq.

  (* ================================================================== *)
  (* K1: only the user can damage a state file                            *)
  (* ================================================================== *)

  Definition no_bad_state_files (w : world) : Prop :=
    rd_table (w_rd w) <> Some SF_bad /\
    forall hs k, rd_hist (w_rd w) = Some hs -> alookup teqb hs k <> Some SF_bad.

  (* no_bad_state_files looks at two fields only *)
  Lemma no_bad_same_state_files (w w' : world) :
    rd_table (w_rd w') = rd_table (w_rd w) -> rd_hist (w_rd w') = rd_hist (w_rd w) ->
    no_bad_state_files w -> no_bad_state_files w'.
  Proof. intros Ht Hh [H1 H2]. split; [rewrite Ht; exact H1 | rewrite Hh; exact H2]. Qed.

  Lemma back_up_rd (w : world) t p w' :
    back_up teqb w t p = Some w' ->
    rd_table (w_rd w') = rd_table (w_rd w) /\ rd_hist (w_rd w') = rd_hist (w_rd w).
  Proof.
    intro H. destruct (InvProofs.back_up_inv _ _ _ _ _ _ H) as (c & f & _ & _ & ->). split; reflexivity.
  Qed.

  Lemma restore_rd (w : world) t p w' :
    restore teqb w t p = RDone w' ->
    rd_table (w_rd w') = rd_table (w_rd w) /\ rd_hist (w_rd w') = rd_hist (w_rd w).
  Proof.
    intro H. destruct (InvProofs.restore_inv _ _ _ _ _ _ H) as (c & f & _ & _ & ->). split; reflexivity.
  Qed.

  Lemma write_history_no_bad (hr0 : rule -> T) (w : world) r h :
    no_bad_state_files w -> no_bad_state_files (write_history T teqb hr0 w r h).
  Proof.
    intros [H1 H2]. unfold write_history. destruct (rd_hist (w_rd w)) as [hs|] eqn:Eh; [|split; [exact H1|]].
    - split; [exact H1|]. cbn. intros hs' k E. injection E as <-. intro Hl.
      apply (InvProofs.alookup_ainsert_some _ teqb_spec) in Hl as [[_ Hl] | [_ Hl]]; [discriminate|].
      exact (H2 hs k eq_refl Hl).
    - intros hs k E. rewrite Eh in E. discriminate.
  Qed.

  Lemma init_dir_no_bad (w w' : world) tbl :
    init_dir T w = Ok (w', tbl) -> no_bad_state_files w -> no_bad_state_files w'.
  Proof.
    intros Hi [H1 H2]. unfold init_dir in Hi.
    assert (forall hs k, match rd_hist (w_rd w) with Some h => Some h | None => Some [] end = Some hs ->
                         alookup teqb hs k <> Some SF_bad) as Hh.
    { intros hs k E. destruct (rd_hist (w_rd w)) as [hs0|] eqn:Eh.
      - injection E as <-. exact (H2 hs0 k eq_refl).
      - injection E as <-. cbn. discriminate. }
    destruct (rd_table (w_rd w)) as [[t|]|]; try discriminate; injection Hi as <- <-;
      (split; [cbn; discriminate | exact Hh]).
  Qed.

  Theorem step_keeps_state_files_good_main (w w' : world) :
    step w w' -> no_bad_state_files w ->
    no_bad_state_files w' \/ exists rd', w' = set_rd w rd' /\ rdir_shrinks T teqb (w_rd w) rd'.
  Proof.
    intros Hs Hn.
    destruct Hs as [w p a t w' _ _ Hb | w t p w' Hr | w p c | w p | w p x | w p q | w tbl _ | w hr0 r h
                   | w w' tbl Hi | w | w rd' Hsh].
    - left. destruct (back_up_rd _ _ _ _ Hb) as [Ht Hh]. eapply no_bad_same_state_files; eauto.
    - left. destruct (restore_rd _ _ _ _ Hr) as [Ht Hh]. eapply no_bad_same_state_files; eauto.
    - left. eapply no_bad_same_state_files; [| |exact Hn]; rewrite InvProofs.write_file_rd; reflexivity.
    - left. exact Hn.
    - left. eapply no_bad_same_state_files; [| |exact Hn]; rewrite InvProofs.set_exec_rd; reflexivity.
    - left. eapply no_bad_same_state_files; [| |exact Hn]; rewrite InvProofs.move_file_rd; reflexivity.
    - left. destruct Hn as [_ H2]. split; [cbn; discriminate | exact H2].
    - left. apply write_history_no_bad. exact Hn.
    - left. eapply init_dir_no_bad; eauto.
    - left. exact Hn.
    - right. exists rd'. auto.
  Qed.

  (* ================================================================== *)
  (* ruler's steps and its commands' steps: every step but the user's     *)
  (* ================================================================== *)

  Inductive ruler_step : world -> world -> Prop :=
  | RBackup w p assumed t w' :
      state_ok w assumed -> get_file_ticket teqb hc w p assumed = Some t ->
      back_up teqb w t p = Some w' -> ruler_step w w'
  | RRestore w t p w' : restore teqb w t p = RDone w' -> ruler_step w w'
  | RWrite w p c : ruler_step w (write_file w p c)
  | RRemove w p : ruler_step w (remove_file w p)
  | RChmod w p x : ruler_step w (set_exec w p x)
  | RWriteTable w tbl :
      (forall p st, alookup bytes_eqb tbl p = Some st -> state_ok w st) ->
      ruler_step w (write_table T w tbl)
  | RWriteHist w (hr0 : rule -> T) r h : ruler_step w (write_history T teqb hr0 w r h)
  | RInitDir w w' tbl : init_dir T w = Ok (w', tbl) -> ruler_step w w'
  | RTick w : ruler_step w (tick w).

  Notation rsteps := (clos_refl_trans world ruler_step).

  Lemma ruler_step_step w w' : ruler_step w w' -> step w w'.
  Proof.
    intros [w0 p a t w1 H1 H2 H3 | w0 t p w1 H | w0 p c | w0 p | w0 p x | w0 tbl H | w0 hr0 r h
           | w0 w1 tbl H | w0].
    - eapply SBackup; eauto.
    - eapply SRestore; eauto.
    - apply SWrite.
    - apply SRemove.
    - apply SChmod.
    - apply SWriteTable; exact H.
    - apply SWriteHist.
    - eapply SInitDir; eauto.
    - apply STick.
  Qed.

  (* the converse: a step is ruler's, or it is the user's: tampering with the ruler directory, or moving
     a workspace file together with its modification time (mv, cp -p) -- neither ruler nor the modelled
     commands do the latter *)
  Lemma step_cases w w' :
    step w w' ->
    ruler_step w w' \/ (exists rd', w' = set_rd w rd' /\ rdir_shrinks T teqb (w_rd w) rd') \/
    (exists p q, w' = move_file w p q).
  Proof.
    intros [w0 p a t w1 H1 H2 H3 | w0 t p w1 H | w0 p c | w0 p | w0 p x | w0 p q | w0 tbl H | w0 hr0 r h
           | w0 w1 tbl H | w0 | w0 rd' H].
    - left. eapply RBackup; eauto.
    - left. eapply RRestore; eauto.
    - left. apply RWrite.
    - left. apply RRemove.
    - left. apply RChmod.
    - right. right. exists p, q. reflexivity.
    - left. apply RWriteTable; exact H.
    - left. apply RWriteHist.
    - left. eapply RInitDir; eauto.
    - left. apply RTick.
    - right. left. exists rd'. auto.
  Qed.

  (* the user's mv is not one of ruler's steps: it can bring back an older (content, time) pair at a path,
     which no ruler_step does; but like them it leaves the state files alone *)
  Lemma move_keeps_state_files_good (w : world) p q :
    no_bad_state_files w -> no_bad_state_files (move_file w p q).
  Proof.
    intro Hn. eapply no_bad_same_state_files; [| |exact Hn]; rewrite InvProofs.move_file_rd; reflexivity.
  Qed.

  Lemma rsteps_steps w w' : rsteps w w' -> steps w w'.
  Proof.
    induction 1 as [x y H | x | x y z _ IH1 _ IH2].
    - apply rt_step. apply ruler_step_step. exact H.
    - apply rt_refl.
    - eapply rt_trans; eauto.
  Qed.

  Theorem ruler_step_keeps_state_files_good w w' :
    ruler_step w w' -> no_bad_state_files w -> no_bad_state_files w'.
  Proof.
    intros Hs Hn.
    destruct Hs as [w p a t w' _ _ Hb | w t p w' Hr | w p c | w p | w p x | w tbl _ | w hr0 r h
                   | w w' tbl Hi | w].
    - destruct (back_up_rd _ _ _ _ Hb) as [Ht Hh]. eapply no_bad_same_state_files; eauto.
    - destruct (restore_rd _ _ _ _ Hr) as [Ht Hh]. eapply no_bad_same_state_files; eauto.
    - eapply no_bad_same_state_files; [| |exact Hn]; rewrite InvProofs.write_file_rd; reflexivity.
    - exact Hn.
    - eapply no_bad_same_state_files; [| |exact Hn]; rewrite InvProofs.set_exec_rd; reflexivity.
    - destruct Hn as [_ H2]. split; [cbn; discriminate | exact H2].
    - apply write_history_no_bad. exact Hn.
    - eapply init_dir_no_bad; eauto.
    - exact Hn.
  Qed.

  Theorem rsteps_keep_state_files_good w w' :
    rsteps w w' -> no_bad_state_files w -> no_bad_state_files w'.
  Proof.
    induction 1 as [x y H | x | x y z _ IH1 _ IH2]; intro Hn.
    - eapply ruler_step_keeps_state_files_good; eauto.
    - exact Hn.
    - auto.
  Qed.

  Lemma rsteps_preserve_inv w w' : disk_inv w -> rsteps w w' -> disk_inv w'.
  Proof.
    intros Hinv Hs. eapply (InvProofs.steps_preserve_inv T teqb hc teqb_spec); eauto. apply rsteps_steps; exact Hs.
  Qed.

  Lemma rsteps_refl w : rsteps w w.
  Proof. apply rt_refl. Qed.

  Lemma rsteps_one w w' : ruler_step w w' -> rsteps w w'.
  Proof. apply rt_step. Qed.

  Lemma rsteps_trans w1 w2 w3 : rsteps w1 w2 -> rsteps w2 w3 -> rsteps w1 w3.
  Proof. apply rt_trans. Qed.

  Lemma blob_ok_rsteps w w' b : disk_inv w -> rsteps w w' -> blob_ok w b -> blob_ok w' b.
  Proof.
    intros Hinv Hs. apply (InvProofs.blob_ok_steps T teqb hc teqb_spec); auto. apply rsteps_steps; exact Hs.
  Qed.

  Lemma tbl_ok_rsteps w w' t : disk_inv w -> rsteps w w' -> tbl_ok w t -> tbl_ok w' t.
  Proof.
    intros Hinv Hs. apply (InvProofs.tbl_ok_steps T teqb hc teqb_spec); auto. apply rsteps_steps; exact Hs.
  Qed.

  (* ================================================================== *)
  (* the sequential model performs ruler_steps only (InvFacts R7, redone) *)
  (* ================================================================== *)

  Lemma back_up_rsteps (w : world) p assumed t w' :
    state_ok w assumed -> get_file_ticket teqb hc w p assumed = Some t -> back_up teqb w t p = Some w' ->
    rsteps w w'.
  Proof. intros H1 H2 H3. apply rsteps_one. eapply RBackup; eauto. Qed.

  Lemma restore_or_rebuild_rsteps (w : world) t p res w' :
    restore_or_rebuild T teqb w t p = Ok (res, w') -> rsteps w w'.
  Proof.
    unfold restore_or_rebuild. destruct (restore teqb w t p) as [w1| |] eqn:E; intro H; try discriminate.
    - injection H as _ <-. apply rsteps_one. eapply RRestore; eauto.
    - injection H as _ <-. apply rsteps_refl.
  Qed.

  Lemma resolve_single_rsteps (w : world) rem p assumed res w' :
    state_ok w assumed -> resolve_single teqb hc w rem p assumed = Ok (res, w') -> rsteps w w'.
  Proof.
    intros Hok. unfold resolve_single.
    destruct (get_file_ticket teqb hc w p assumed) as [cur|] eqn:Eg.
    - destruct (teqb rem cur) eqn:Et.
      + intro H. injection H as _ <-. apply rsteps_refl.
      + destruct (back_up teqb w cur p) as [w1|] eqn:Eb; [|discriminate].
        intro H. eapply rsteps_trans; [eapply back_up_rsteps; eauto | eapply restore_or_rebuild_rsteps; eauto].
    - apply restore_or_rebuild_rsteps.
  Qed.

  Lemma resolve_remembered_rsteps b : forall (w : world) rem ress w',
    disk_inv w -> blob_ok w b -> resolve_remembered teqb hc w b rem = Ok (ress, w') -> rsteps w w'.
  Proof.
    induction b as [|[p assumed] rest IH]; intros w rem ress w' Hinv Hb; cbn [resolve_remembered].
    - intro H. injection H as _ <-. apply rsteps_refl.
    - destruct rem as [|r rrest]; [discriminate|].
      destruct (resolve_single teqb hc w (fs_t r) p assumed) as [[res w1]|e] eqn:E1; [|discriminate].
      destruct (resolve_remembered teqb hc w1 rest rrest) as [[ress2 w2]|e] eqn:E2; [|discriminate].
      intro H. injection H as _ <-.
      apply InvProofs.blob_ok_cons in Hb as [Hok Hrest].
      pose proof (resolve_single_rsteps _ _ _ _ _ _ Hok E1) as Hs1.
      eapply rsteps_trans; [exact Hs1|]. eapply IH; [| |exact E2].
      + eapply rsteps_preserve_inv; eauto.
      + eapply blob_ok_rsteps; eauto.
  Qed.

  Lemma resolve_fresh_rsteps b : forall (w : world) ress w',
    disk_inv w -> blob_ok w b -> resolve_fresh teqb hc w b = Ok (ress, w') -> rsteps w w'.
  Proof.
    induction b as [|[p assumed] rest IH]; intros w ress w' Hinv Hb; cbn [resolve_fresh].
    - intro H. injection H as _ <-. apply rsteps_refl.
    - apply InvProofs.blob_ok_cons in Hb as [Hok Hrest].
      destruct (get_file_ticket teqb hc w p assumed) as [cur|] eqn:Eg.
      + destruct (back_up teqb w cur p) as [w1|] eqn:Eb; [|discriminate].
        destruct (resolve_fresh teqb hc w1 rest) as [[ress2 w2]|e] eqn:E2; [|discriminate].
        intro H. injection H as _ <-.
        pose proof (back_up_rsteps _ _ _ _ _ Hok Eg Eb) as Hs1.
        eapply rsteps_trans; [exact Hs1|]. eapply IH; [| |exact E2].
        * eapply rsteps_preserve_inv; eauto.
        * eapply blob_ok_rsteps; eauto.
      + destruct (resolve_fresh teqb hc w rest) as [[ress2 w2]|e] eqn:E2; [|discriminate].
        intro H. injection H as _ <-. eapply IH; eauto.
  Qed.

  Lemma clean_targets_rsteps b : forall (w : world) w',
    disk_inv w -> blob_ok w b -> clean_targets teqb hc w b = Ok w' -> rsteps w w'.
  Proof.
    induction b as [|[p assumed] rest IH]; intros w w' Hinv Hb; cbn [clean_targets].
    - intro H. injection H as <-. apply rsteps_refl.
    - apply InvProofs.blob_ok_cons in Hb as [Hok Hrest].
      destruct (get_file_ticket teqb hc w p assumed) as [cur|] eqn:Eg.
      + destruct (back_up teqb w cur p) as [w1|] eqn:Eb; [|discriminate].
        intro H. pose proof (back_up_rsteps _ _ _ _ _ Hok Eg Eb) as Hs1.
        eapply rsteps_trans; [exact Hs1|]. eapply IH; [| |exact H].
        * eapply rsteps_preserve_inv; eauto.
        * eapply blob_ok_rsteps; eauto.
      + intro H. eapply IH; eauto.
  Qed.

  Lemma run_line_rsteps (w : world) line code w' : run_line w line = (code, w') -> rsteps w w'.
  Proof.
    unfold run_line. destruct (tokens line) as [|op args]; [intro H; injection H as _ <-; apply rsteps_refl|].
    destruct (bytes_eqb op [116; 114; 117; 101]); [intro H; injection H as _ <-; apply rsteps_refl|].
    destruct (bytes_eqb op [102; 97; 105; 108]); [intro H; injection H as _ <-; apply rsteps_refl|].
    destruct (bytes_eqb op [103; 101; 110]).
    { destruct args as [|out pieces]; [intro H; injection H as _ <-; apply rsteps_refl|].
      destruct (gather w pieces) as [e|d]; intro H; injection H as _ <-; [apply rsteps_refl|].
      apply rsteps_one. apply RWrite. }
    destruct (bytes_eqb op [99; 104; 109; 111; 100]).
    { destruct args as [|p [|q r]]; try (intro H; injection H as _ <-; apply rsteps_refl).
      destruct (fget w p); intro H; injection H as _ <-; [|apply rsteps_refl].
      apply rsteps_one. apply RChmod. }
    destruct (bytes_eqb op [114; 109]).
    { destruct args as [|p [|q r]]; try (intro H; injection H as _ <-; apply rsteps_refl).
      intro H; injection H as _ <-. apply rsteps_one. apply RRemove. }
    intro H; injection H as _ <-; apply rsteps_refl.
  Qed.

  Lemma run_script_rsteps lines : forall (w : world) codes w', run_script w lines = (codes, w') -> rsteps w w'.
  Proof.
    induction lines as [|l r IH]; intros w codes w'; cbn [run_script].
    - intro H. injection H as _ <-. apply rsteps_refl.
    - destruct (run_line w l) as [code w1] eqn:E1. destruct (run_script w1 r) as [codes2 w2] eqn:E2.
      intro H. injection H as _ <-. eapply rsteps_trans; [eapply run_line_rsteps; eauto | eapply IH; eauto].
  Qed.

  Theorem handle_rule_rsteps (w : world) b h st cmd res w' script :
    disk_inv w -> blob_ok w b -> handle_rule teqb hc w b h st cmd = (res, w', script) -> rsteps w w'.
  Proof.
    intros Hinv Hb. unfold handle_rule.
    set (resolved := match alookup teqb h st with
                     | Some remembered => resolve_remembered teqb hc w b remembered
                     | None => resolve_fresh teqb hc w b
                     end).
    assert (forall ress w1, resolved = Ok (ress, w1) -> rsteps w w1) as Hres.
    { intros ress w1. unfold resolved. destruct (alookup teqb h st) as [rem|].
      - eapply resolve_remembered_rsteps; eauto.
      - eapply resolve_fresh_rsteps; eauto. }
    destruct resolved as [[ress w1]|e]; [|intro H; injection H as _ <- _; apply rsteps_refl].
    specialize (Hres ress w1 eq_refl). cbv zeta. set (b1 := forget_replaced hc b ress).
    destruct (needs_rebuild ress).
    - destruct (run_script w1 (script_lines cmd)) as [codes w2] eqn:Er.
      pose proof (run_script_rsteps _ _ _ _ Er) as Hs2.
      assert (rsteps w w2) as Hs by (eapply rsteps_trans; eauto).
      destruct (command_verdict codes); [intro H; injection H as _ <- _; exact Hs|].
      destruct (update_blob teqb hc w2 b1) as [b'|p]; [|intro H; injection H as _ <- _; exact Hs].
      destruct (history_insert teqb h st (map (fun e => fs_t (snd e)) b') (map fst b1));
        intro H; injection H as _ <- _; exact Hs.
    - destruct (current_tickets teqb hc w1 b1); intro H; injection H as _ <- _; exact Hres.
  Qed.

  (* ---------- build ---------- *)

  Notation results_ok := (InvProofs.results_ok T teqb hc).

  Definition rs_rinv (w0 : world) (st : run_state T) : Prop :=
    rsteps w0 (rs_world T st) /\ tbl_ok (rs_world T st) (rs_table T st) /\
    results_ok (rs_world T st) (rs_results T st).

  Lemma results_ok_rsteps w w' rs : disk_inv w -> rsteps w w' -> results_ok w rs -> results_ok w' rs.
  Proof. intros Hinv Hs H r wr Hin. eapply blob_ok_rsteps; eauto. Qed.

  Lemma run_leaf_rinv w0 st leaf : disk_inv w0 -> rs_rinv w0 st -> rs_rinv w0 (run_leaf T teqb hc st leaf).
  Proof.
    intros Hinv0 (Hs & Ht & Hr). pose proof (rsteps_preserve_inv _ _ Hinv0 Hs) as Hinv.
    unfold run_leaf. destruct (take_blob T hc (rs_table T st) [leaf]) as [b t'] eqn:Etb.
    assert (clock_ok teqb (rs_world T st)) as Hk by apply Hinv.
    destruct (InvProofs.take_blob_ok T teqb hc teqb_spec _ _ _ _ _ Ht Etb) as [Hb Ht'].
    unfold handle_leaf. destruct (current_tickets teqb hc (rs_world T st) b) as [ts|p]; cbn.
    - split; [exact Hs|]. split; [exact Ht'|]. apply InvProofs.results_ok_app; [exact Hr|].
      apply InvProofs.results_ok_one_ok. exact Hb.
    - split; [exact Hs|]. split; [exact Ht'|]. apply InvProofs.results_ok_app; [exact Hr|].
      apply InvProofs.results_ok_one_err.
  Qed.

  Lemma run_leaves_rinv w0 leaves : forall st,
    disk_inv w0 -> rs_rinv w0 st -> rs_rinv w0 (fold_left (run_leaf T teqb hc) leaves st).
  Proof.
    induction leaves as [|l r IH]; intros st Hinv0 H; cbn [fold_left]; [exact H|].
    apply IH; [exact Hinv0|]. apply run_leaf_rinv; auto.
  Qed.

  Lemma run_node_rinv w0 st n st' :
    disk_inv w0 -> rs_rinv w0 st -> run_node T teqb hc hl hr st n = Some st' -> rs_rinv w0 st'.
  Proof.
    intros Hinv0 (Hs & Ht & Hr). pose proof (rsteps_preserve_inv _ _ Hinv0 Hs) as Hinv.
    unfold run_node. destruct (take_blob T hc (rs_table T st) (n_targets n)) as [b t'] eqn:Etb.
    assert (clock_ok teqb (rs_world T st)) as Hk by apply Hinv.
    destruct (InvProofs.take_blob_ok T teqb hc teqb_spec _ _ _ _ _ Ht Etb) as [Hb Ht'].
    destruct (read_history T teqb hr (rs_world T st) (n_rule n)) as [h|]; [|discriminate].
    destruct (all_some (map (received T (rs_leaf_sent T st) (rs_node_sent T st)) (n_source_indices n)))
      as [tickets|].
    - destruct (handle_rule teqb hc (rs_world T st) b h (hl tickets) (n_command n)) as [[res w'] script] eqn:Eh.
      pose proof (handle_rule_rsteps _ _ _ _ _ _ _ _ Hinv Hb Eh) as Hs1.
      assert (rsteps w0 w') as Hs' by (eapply rsteps_trans; eauto).
      pose proof (tbl_ok_rsteps _ _ _ Hinv Hs1 Ht') as Ht1.
      pose proof (results_ok_rsteps _ _ _ Hinv Hs1 Hr) as Hr1.
      destruct res as [wr|e]; intro H; injection H as <-; cbn.
      + split; [exact Hs'|]. split; [exact Ht1|]. apply InvProofs.results_ok_app; [exact Hr1|].
        apply InvProofs.results_ok_one_ok.
        eapply (InvProofs.handle_rule_blob_ok T teqb hc teqb_spec); eauto.
      + split; [exact Hs'|]. split; [exact Ht1|]. apply InvProofs.results_ok_app; [exact Hr1|].
        apply InvProofs.results_ok_one_err.
    - intro H; injection H as <-; cbn.
      split; [exact Hs|]. split; [exact Ht'|]. apply InvProofs.results_ok_app; [exact Hr|].
      apply InvProofs.results_ok_one_cancel.
  Qed.

  Lemma run_nodes_rinv w0 ns : forall st st',
    disk_inv w0 -> rs_rinv w0 st -> run_nodes T teqb hc hl hr st ns = Some st' -> rs_rinv w0 st'.
  Proof.
    induction ns as [|n r IH]; intros st st' Hinv0 H; cbn [run_nodes].
    - intro E. injection E as <-. exact H.
    - destruct (run_node T teqb hc hl hr st n) as [st1|] eqn:E1; [|discriminate].
      apply IH; [exact Hinv0|]. eapply run_node_rinv; eauto.
  Qed.

  Lemma upto_rinv w0 ns : forall st,
    disk_inv w0 -> rs_rinv w0 st -> rs_rinv w0 (upto T teqb hc hl hr st ns).
  Proof.
    induction ns as [|n r IH]; intros st Hinv0 H; cbn [upto]; [exact H|].
    destruct (run_node T teqb hc hl hr st n) as [st1|] eqn:E1.
    - apply IH; [exact Hinv0|]. eapply run_node_rinv; eauto.
    - exact H.
  Qed.

  Definition js_rinv (w0 : world) (js : join_state T) (rest : list (option rule * thread_result T)) : Prop :=
    rsteps w0 (js_world T js) /\ tbl_ok (js_world T js) (js_table T js) /\ results_ok (js_world T js) rest.

  Lemma join_one_rinv w0 js res rest :
    disk_inv w0 -> js_rinv w0 js (res :: rest) -> js_rinv w0 (join_one T teqb hr js res) rest.
  Proof.
    intros Hinv0 (Hs & Ht & Hr). pose proof (rsteps_preserve_inv _ _ Hinv0 Hs) as Hinv.
    assert (results_ok (js_world T js) rest) as Hrest.
    { intros r wr Hin. apply (Hr r wr). right. exact Hin. }
    unfold join_one. destruct res as [r tr]. cbn [fst snd]. destruct tr as [wr|e|].
    - assert (blob_ok (js_world T js) (wr_blob wr)) as Hb by (apply (Hr r wr); left; reflexivity).
      set (w1 := match r, wr_history wr with
                 | Some r0, Some h => write_history T teqb hr (js_world T js) r0 h
                 | _, _ => js_world T js
                 end).
      assert (rsteps (js_world T js) w1) as Hs1.
      { unfold w1. destruct r as [r0|]; [|apply rsteps_refl].
        destruct (wr_history wr) as [h|]; [|apply rsteps_refl]. apply rsteps_one. apply RWriteHist. }
      cbn. split; [eapply rsteps_trans; eauto|]. split.
      + eapply tbl_ok_rsteps; eauto. apply InvProofs.insert_blob_ok; auto.
      + eapply results_ok_rsteps; eauto.
    - split; [exact Hs|]. split; [exact Ht | exact Hrest].
    - split; [exact Hs|]. split; [exact Ht | exact Hrest].
  Qed.

  Lemma join_all_rinv w0 rest : forall js,
    disk_inv w0 -> js_rinv w0 js rest -> js_rinv w0 (fold_left (join_one T teqb hr) rest js) [].
  Proof.
    induction rest as [|res rest IH]; intros js Hinv0 H; cbn [fold_left]; [exact H|].
    apply IH; [exact Hinv0|]. apply join_one_rinv; auto.
  Qed.

  Lemma init_dir_rs_rinv (w w1 : world) t :
    disk_inv w -> init_dir T w = Ok (w1, t) -> rsteps w w1 /\ tbl_ok w1 t.
  Proof.
    intros Hinv Hi. split; [apply rsteps_one; eapply RInitDir; eauto|].
    apply (InvProofs.init_dir_rs_inv T teqb hc teqb_spec _ _ _ Hinv Hi).
  Qed.

  (* init_dir fails on a damaged table only *)
  Lemma init_dir_err (w : world) f : init_dir T w = Err f -> rd_table (w_rd w) = Some SF_bad /\ f = FTable.
  Proof.
    unfold init_dir. destruct (rd_table (w_rd w)) as [[t|]|]; try discriminate.
    intro H. injection H as <-. auto.
  Qed.

  (* the init_dir-error branch (table damaged by the user) is excluded by the premise; there ruler
     creates the missing directories only, which is no ruler_step of the alphabet (InvFacts expresses
     it as an SUserRd step) *)
  Theorem build_rsteps (w : world) rp goal :
    disk_inv w -> rd_table (w_rd w) <> Some SF_bad -> rsteps w (o_world (build teqb hc hl hr w rp goal)).
  Proof.
    intros Hinv Hnb. rewrite (build_eq0 T teqb hc hl hr).
    destruct (init_dir T w) as [[w1 t]|f] eqn:Ei; [|apply init_dir_err in Ei as [E _]; contradiction].
    destruct (init_dir_rs_rinv _ _ _ Hinv Ei) as [Hs1 Ht1].
    destruct (get_nodes T w1 rp goal) as [pack|f]; [|exact Hs1].
    (* the early write of what the workers leave of the table (repair of F6): one more ruler step *)
    pose proof (rsteps_preserve_inv _ _ Hinv Hs1) as Hinv1.
    assert (rsteps w1 (write_table T w1 (table_rest T hc t pack))) as Hsw.
    { apply rsteps_one. apply RWriteTable. apply (InvProofs.table_rest_ok T teqb hc w1 t pack Ht1). }
    set (w1t := write_table T w1 (table_rest T hc t pack)) in *.
    assert (rs_rinv w (mk_rs T w1t t [] [] [] [])) as H0.
    { split; [eapply rsteps_trans; eauto|]. split; [eapply tbl_ok_rsteps; eauto|]. intros r wr []. }
    pose proof (run_leaves_rinv w (p_leaves pack) _ Hinv H0) as H1.
    cbv zeta. fold (st_leaves T teqb hc w1t t pack) in H1.
    destruct (run_nodes T teqb hc hl hr (st_leaves T teqb hc w1t t pack) (p_nodes pack)) as [st2|] eqn:En.
    - pose proof (run_nodes_rinv w _ _ _ Hinv H1 En) as (Hs2 & Ht2 & Hr2).
      assert (js_rinv w (mk_js T (rs_world T st2) (rs_table T st2) [] []) (rs_results T st2)) as Hj0.
      { split; [exact Hs2|]. split; [exact Ht2 | exact Hr2]. }
      pose proof (join_all_rinv w _ _ Hinv Hj0) as (Hs3 & Ht3 & _).
      cbn [o_world]. eapply rsteps_trans; [exact Hs3|]. apply rsteps_one. apply RWriteTable. exact Ht3.
    - cbn [o_world]. apply (upto_rinv w (p_nodes pack) _ Hinv H1).
  Qed.

  Lemma clean_nodes_rsteps ns : forall (w : world) t errs w' errs',
    disk_inv w -> tbl_ok w t -> clean_nodes T teqb hc w t ns errs = (w', errs') -> rsteps w w'.
  Proof.
    induction ns as [|n r IH]; intros w t errs w' errs' Hinv Ht; cbn [clean_nodes].
    - intro H. injection H as <- _. apply rsteps_refl.
    - destruct (take_blob T hc t (n_targets n)) as [b t'] eqn:Etb.
      assert (clock_ok teqb w) as Hk by apply Hinv.
      destruct (InvProofs.take_blob_ok T teqb hc teqb_spec _ _ _ _ _ Ht Etb) as [Hb Ht'].
      destruct (clean_targets teqb hc w b) as [w1|e] eqn:Ec.
      + pose proof (clean_targets_rsteps _ _ _ Hinv Hb Ec) as Hs1. intro H.
        eapply rsteps_trans; [exact Hs1|]. eapply IH; [| |exact H].
        * eapply rsteps_preserve_inv; eauto.
        * eapply tbl_ok_rsteps; eauto.
      + intro H. eapply IH; eauto.
  Qed.

  Theorem clean_rsteps (w : world) rp goal :
    disk_inv w -> rd_table (w_rd w) <> Some SF_bad -> rsteps w (o_world (clean teqb hc w rp goal)).
  Proof.
    intros Hinv Hnb. unfold clean.
    destruct (init_dir T w) as [[w1 t]|f] eqn:Ei; [|apply init_dir_err in Ei as [E _]; contradiction].
    destruct (init_dir_rs_rinv _ _ _ Hinv Ei) as [Hs1 Ht1].
    destruct (get_nodes T w1 rp goal) as [pack|f]; [|exact Hs1].
    destruct (clean_nodes T teqb hc w1 t (p_nodes pack) []) as [w2 errs] eqn:Ec.
    cbn [o_world]. eapply rsteps_trans; [exact Hs1|]. eapply clean_nodes_rsteps; [| |exact Ec]; auto.
    eapply rsteps_preserve_inv; eauto.
  Qed.

  (* a build / a clean started on good state files leaves good state files *)
  Theorem build_keeps_state_files_good (w : world) rp goal :
    disk_inv w -> no_bad_state_files w -> no_bad_state_files (o_world (build teqb hc hl hr w rp goal)).
  Proof.
    intros Hinv Hn. eapply rsteps_keep_state_files_good; [|exact Hn]. apply build_rsteps; [exact Hinv | apply Hn].
  Qed.

  Theorem clean_keeps_state_files_good (w : world) rp goal :
    disk_inv w -> no_bad_state_files w -> no_bad_state_files (o_world (clean teqb hc w rp goal)).
  Proof.
    intros Hinv Hn. eapply rsteps_keep_state_files_good; [|exact Hn]. apply clean_rsteps; [exact Hinv | apply Hn].
  Qed.

  (* ================================================================== *)
  (* K2: with good state files, build and clean are not wedged            *)
  (* ================================================================== *)

  Definition no_bad_hist (w : world) : Prop :=
    forall hs k, hist_of T w = Some hs -> alookup teqb hs k <> Some SF_bad.

  Lemma no_bad_hist_of (w w' : world) : hist_of T w' = hist_of T w -> no_bad_hist w -> no_bad_hist w'.
  Proof. intros E H hs k Hh. rewrite E in Hh. exact (H hs k Hh). Qed.

  Lemma get_nodes_err (w : world) rp goal f :
    get_nodes T w rp goal = Err f -> f <> FTable /\ f <> FHistory.
  Proof.
    unfold get_nodes. destruct (fget w rp) as [fl|]; [|intro H; injection H as <-; split; discriminate].
    destruct (negb (utf8_valid (f_content fl))); [intro H; injection H as <-; split; discriminate|].
    destruct (parse (f_content fl)) as [rules|e]; [|intro H; injection H as <-; split; discriminate].
    destruct (toposort rules goal) as [pack|e]; [discriminate|].
    intro H; injection H as <-; split; discriminate.
  Qed.

  Lemma read_history_some (w : world) r : no_bad_hist w -> read_history T teqb hr w r <> None.
  Proof.
    intro Hn. unfold read_history. fold (hist_of T w). destruct (hist_of T w) as [hs|] eqn:Eh; [|discriminate].
    destruct (alookup teqb hs (hr r)) as [[h|]|] eqn:El; try discriminate.
    exfalso. exact (Hn hs (hr r) Eh El).
  Qed.

  Lemma run_node_some st n : no_bad_hist (rs_world T st) -> run_node T teqb hc hl hr st n <> None.
  Proof.
    intro Hn. unfold run_node. destruct (take_blob T hc (rs_table T st) (n_targets n)) as [b t'].
    destruct (read_history T teqb hr (rs_world T st) (n_rule n)) as [h|] eqn:Er;
      [|exfalso; exact (read_history_some _ _ Hn Er)].
    destruct (all_some _) as [tickets|]; [|discriminate].
    destruct (handle_rule teqb hc (rs_world T st) b h (hl tickets) (n_command n)) as [[[wr|e] w'] s]; discriminate.
  Qed.

  Lemma run_nodes_some ns : forall st, no_bad_hist (rs_world T st) -> run_nodes T teqb hc hl hr st ns <> None.
  Proof.
    induction ns as [|n rest IH]; intros st Hn; cbn [run_nodes]; [discriminate|].
    destruct (run_node T teqb hc hl hr st n) as [st1|] eqn:E1; [|exfalso; exact (run_node_some _ _ Hn E1)].
    apply IH. eapply no_bad_hist_of; [|exact Hn]. eapply run_node_hist; eauto.
  Qed.

  Theorem build_not_wedged_main (w : world) rp goal :
    no_bad_state_files w ->
    o_verdict (build teqb hc hl hr w rp goal) <> VFatal FTable /\
    o_verdict (build teqb hc hl hr w rp goal) <> VFatal FHistory.
  Proof.
    intros Hn. rewrite (build_eq T teqb hc hl hr).
    destruct (init_dir T w) as [[w1 t]|f] eqn:Ei.
    2:{ apply init_dir_err in Ei as [E _]. destruct Hn as [Hn _]. contradiction. }
    pose proof (init_dir_no_bad _ _ _ Ei Hn) as [_ Hn1].
    destruct (get_nodes T w1 rp goal) as [pack|f] eqn:Eg.
    2:{ apply get_nodes_err in Eg as [H1 H2]. cbn [o_verdict]. split; congruence. }
    cbv zeta.
    destruct (run_nodes T teqb hc hl hr (st_leaves T teqb hc w1 t pack) (p_nodes pack)) as [st2|] eqn:En.
    - cbn [o_verdict]. destruct (js_errors T (joined T teqb hr st2)); split; discriminate.
    - exfalso. eapply run_nodes_some; [|exact En]. rewrite st_leaves_world. exact Hn1.
  Qed.

  Theorem clean_not_wedged_main (w : world) rp goal :
    (no_bad_state_files w -> o_verdict (clean teqb hc w rp goal) <> VFatal FTable) /\
    o_verdict (clean teqb hc w rp goal) <> VFatal FHistory.
  Proof.
    rewrite (clean_eq T teqb hc).
    destruct (init_dir T w) as [[w1 t]|f] eqn:Ei.
    2:{ apply init_dir_err in Ei as [E ->]. cbn [o_verdict]. split; [|discriminate].
        intros [Hn _]. contradiction. }
    destruct (get_nodes T w1 rp goal) as [pack|f] eqn:Eg.
    2:{ apply get_nodes_err in Eg as [H1 H2]. cbn [o_verdict]. split; [intros _|]; congruence. }
    cbn [o_verdict]. destruct (snd (clean_nodes T teqb hc w1 t (p_nodes pack) [])); (split; [intros _|]; discriminate).
  Qed.

  (* ================================================================== *)
  (* K3: the state a killed ruler leaves                                  *)
  (* ================================================================== *)

  (* the premise is satisfiable: a fresh workspace has no state files at all *)
  Lemma init_world_state_files_good mode t0 : no_bad_state_files (init_world mode t0).
  Proof. split; cbn; [discriminate|]. intros hs k E. discriminate. Qed.

  Theorem c11_crash_state_recovers_main (w w' : world) :
    disk_inv w -> no_bad_state_files w -> rsteps w w' ->
    disk_inv w' /\ cache_addressed w' /\ no_bad_state_files w' /\
    (forall rp goal, o_verdict (build teqb hc hl hr w' rp goal) <> VFatal FTable /\
                     o_verdict (build teqb hc hl hr w' rp goal) <> VFatal FHistory).
  Proof.
    intros Hinv Hn Hs. pose proof (rsteps_preserve_inv _ _ Hinv Hs) as Hinv'.
    pose proof (rsteps_keep_state_files_good _ _ Hs Hn) as Hn'.
    split; [exact Hinv'|]. split; [apply Hinv'|]. split; [exact Hn'|].
    intros rp goal. apply build_not_wedged_main. exact Hn'.
  Qed.

End C11.
End C11Proofs.

(* ================================================================== *)
(* ==== RESULTS ==== *)
(* ================================================================== *)

Notation no_bad_state_files := C11Proofs.no_bad_state_files.
Notation ruler_step := C11Proofs.ruler_step.

Section Results.
  Variable T : Type.
  Variable teqb : T -> T -> bool.
  Variable hc : bytes -> T.
  Variable hl : list T -> T.
  Variable hr : rule -> T.
  Hypothesis teqb_spec : forall a b, teqb a b = true <-> a = b.

  (* ---- K1 ---- *)
  Theorem step_keeps_state_files_good : forall w w',
    step teqb hc w w' -> no_bad_state_files T teqb w ->
    no_bad_state_files T teqb w' \/ exists rd', w' = set_rd w rd' /\ rdir_shrinks T teqb (w_rd w) rd'.
  Proof. exact (C11Proofs.step_keeps_state_files_good_main T teqb hc teqb_spec). Qed.

  (* ruler_step = the constructors of step except the user's SUserRd and SMove *)
  Theorem ruler_step_step : forall w w', ruler_step T teqb hc w w' -> step teqb hc w w'.
  Proof. exact (C11Proofs.ruler_step_step T teqb hc). Qed.

  Theorem step_cases : forall w w',
    step teqb hc w w' ->
    ruler_step T teqb hc w w' \/ (exists rd', w' = set_rd w rd' /\ rdir_shrinks T teqb (w_rd w) rd') \/
    (exists p q, w' = move_file w p q).
  Proof. exact (C11Proofs.step_cases T teqb hc). Qed.

  Theorem ruler_step_keeps_state_files_good : forall w w',
    ruler_step T teqb hc w w' -> no_bad_state_files T teqb w -> no_bad_state_files T teqb w'.
  Proof. exact (C11Proofs.ruler_step_keeps_state_files_good T teqb hc teqb_spec). Qed.

  Theorem rsteps_keep_state_files_good : forall w w',
    clos_refl_trans _ (ruler_step T teqb hc) w w' -> no_bad_state_files T teqb w -> no_bad_state_files T teqb w'.
  Proof. exact (C11Proofs.rsteps_keep_state_files_good T teqb hc teqb_spec). Qed.

  Theorem rsteps_steps : forall w w',
    clos_refl_trans _ (ruler_step T teqb hc) w w' -> clos_refl_trans _ (step teqb hc) w w'.
  Proof. exact (C11Proofs.rsteps_steps T teqb hc). Qed.

  (* handle_rule / build / clean are sequences of ruler_steps *)
  Theorem handle_rule_rsteps : forall w b h st cmd res w' script,
    disk_inv teqb hc w -> InvProofs.blob_ok T teqb hc w b ->
    handle_rule teqb hc w b h st cmd = (res, w', script) -> clos_refl_trans _ (ruler_step T teqb hc) w w'.
  Proof. exact (C11Proofs.handle_rule_rsteps T teqb hc teqb_spec). Qed.

  (* the premise on the table excludes the init_dir-error branch, where ruler only creates the
     missing directories next to the damaged table (no constructor of step but SUserRd covers that) *)
  Theorem build_rsteps : forall w rp goal,
    disk_inv teqb hc w -> rd_table (w_rd w) <> Some SF_bad ->
    clos_refl_trans _ (ruler_step T teqb hc) w (o_world (build teqb hc hl hr w rp goal)).
  Proof. exact (C11Proofs.build_rsteps T teqb hc hl hr teqb_spec). Qed.

  Theorem clean_rsteps : forall w rp goal,
    disk_inv teqb hc w -> rd_table (w_rd w) <> Some SF_bad ->
    clos_refl_trans _ (ruler_step T teqb hc) w (o_world (clean teqb hc w rp goal)).
  Proof. exact (C11Proofs.clean_rsteps T teqb hc teqb_spec). Qed.

  Theorem build_keeps_state_files_good : forall w rp goal,
    disk_inv teqb hc w -> no_bad_state_files T teqb w ->
    no_bad_state_files T teqb (o_world (build teqb hc hl hr w rp goal)).
  Proof. exact (C11Proofs.build_keeps_state_files_good T teqb hc hl hr teqb_spec). Qed.

  Theorem clean_keeps_state_files_good : forall w rp goal,
    disk_inv teqb hc w -> no_bad_state_files T teqb w ->
    no_bad_state_files T teqb (o_world (clean teqb hc w rp goal)).
  Proof. exact (C11Proofs.clean_keeps_state_files_good T teqb hc teqb_spec). Qed.

  (* ---- K2 ---- *)
  Theorem build_not_wedged : forall w rp goal,
    no_bad_state_files T teqb w ->
    o_verdict (build teqb hc hl hr w rp goal) <> VFatal FTable /\
    o_verdict (build teqb hc hl hr w rp goal) <> VFatal FHistory.
  Proof. exact (C11Proofs.build_not_wedged_main T teqb hc hl hr). Qed.

  (* clean: no FTable under the same premise, and no FHistory at all *)
  Theorem clean_not_wedged : forall w rp goal,
    (no_bad_state_files T teqb w -> o_verdict (clean teqb hc w rp goal) <> VFatal FTable) /\
    o_verdict (clean teqb hc w rp goal) <> VFatal FHistory.
  Proof. exact (C11Proofs.clean_not_wedged_main T teqb hc). Qed.

  Theorem init_world_state_files_good : forall mode t0, no_bad_state_files T teqb (init_world mode t0).
  Proof. exact (C11Proofs.init_world_state_files_good T teqb). Qed.

  (* ---- K3 ---- *)
  Theorem c11_crash_state_recovers : forall w w',
    disk_inv teqb hc w -> no_bad_state_files T teqb w ->
    clos_refl_trans _ (ruler_step T teqb hc) w w' ->
    disk_inv teqb hc w' /\ cache_addressed teqb hc w' /\ no_bad_state_files T teqb w' /\
    (forall rp goal, o_verdict (build teqb hc hl hr w' rp goal) <> VFatal FTable /\
                     o_verdict (build teqb hc hl hr w' rp goal) <> VFatal FHistory).
  Proof. exact (C11Proofs.c11_crash_state_recovers_main T teqb hc hl hr teqb_spec). Qed.
End Results.

(* ---- the instance with free symbolic hashes: closed statements ---- *)

Theorem c11_crash_state_recovers_sym : forall w w' : world sym,
  disk_inv sym_eqb SContent w -> no_bad_state_files sym sym_eqb w ->
  clos_refl_trans _ (ruler_step sym sym_eqb SContent) w w' ->
  disk_inv sym_eqb SContent w' /\ cache_addressed sym_eqb SContent w' /\ no_bad_state_files sym sym_eqb w' /\
  (forall rp goal, o_verdict (build sym_eqb SContent SList SRule w' rp goal) <> VFatal FTable /\
                   o_verdict (build sym_eqb SContent SList SRule w' rp goal) <> VFatal FHistory).
Proof. exact (c11_crash_state_recovers sym sym_eqb SContent SList SRule sym_eqb_spec). Qed.

Theorem build_not_wedged_sym : forall (w : world sym) rp goal,
  no_bad_state_files sym sym_eqb w ->
  o_verdict (build sym_eqb SContent SList SRule w rp goal) <> VFatal FTable /\
  o_verdict (build sym_eqb SContent SList SRule w rp goal) <> VFatal FHistory.
Proof. exact (build_not_wedged sym sym_eqb SContent SList SRule). Qed.

Theorem build_rsteps_sym : forall (w : world sym) rp goal,
  disk_inv sym_eqb SContent w -> rd_table (w_rd w) <> Some SF_bad ->
  clos_refl_trans _ (ruler_step sym sym_eqb SContent) w (o_world (build sym_eqb SContent SList SRule w rp goal)).
Proof. exact (build_rsteps sym sym_eqb SContent SList SRule sym_eqb_spec). Qed.
