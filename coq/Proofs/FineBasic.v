(* FINE, part 1: Model/Fine.v, definitional facts.
   - the shape of one step of one worker (fstep_cases);
   - G1: every step strictly decreases `fmeasure` (fstep_decreases); a state of a well-formed plan in which
     some worker is not done has a worker that can move (fine_no_deadlock), so every run can be completed and
     a run in which nobody can move any more is complete;
   - a worker running alone goes through exactly Work.resolve_remembered / resolve_fresh / the tail of
     handle_rule (the solo lemmas), used for "the serial run is the serial build" in FineFacts.v. *)
From Coq Require Import Relations.Relation_Operators Relations.Operators_Properties.
From Ruler Require Import Tactics Bytes AList RuleSyntax TopoSort World Cmdlang Work Build Ops Inv
     BuildSpec Ideal Sched Fine BytesFacts InvFacts BuildFacts C01Script C01Hist C01Build C01Plan C04Facts
     SchedBasic SchedSerial SchedRule.
Local Open Scope nat_scope.

(* ================================================================== *)
(* lists                                                                *)
(* ================================================================== *)

Lemma nth_error_set_nth_eq {A} k (v : A) l : k < length l -> nth_error (set_nth k v l) k = Some v.
Proof.
  revert k. induction l as [|x l IH]; intros [|k] H; cbn in *; try lia; auto. apply IH. lia.
Qed.

Lemma set_nth_overflow {A} k (v : A) l : length l <= k -> set_nth k v l = l.
Proof.
  revert k. induction l as [|x l IH]; intros [|k] H; cbn in *; try lia; auto. f_equal. apply IH. lia.
Qed.

Lemma forallb_first_false {A} (f : A -> bool) (d : A) : forall l,
  forallb f l = false ->
  exists i, i < length l /\ f (nth i l d) = false /\ forall i', i' < i -> f (nth i' l d) = true.
Proof.
  induction l as [|x l IH]; cbn [forallb]; [discriminate|].
  destruct (f x) eqn:Ex; cbn [andb].
  - intro H. destruct (IH H) as (i & Hi & Hf & Hlt). exists (S i). cbn [length nth].
    split; [lia|]. split; [exact Hf|]. intros [|i'] Hi'; [exact Ex | apply Hlt; lia].
  - intros _. exists 0. cbn [length nth]. split; [lia|]. split; [exact Ex|]. intros i' Hi'. lia.
Qed.

Lemma nth_repeat_lt {A} (a d : A) n k : k < n -> nth k (repeat a n) d = a.
Proof. revert k. induction n as [|n IH]; intros [|k] H; cbn; try lia; auto. apply IH. lia. Qed.

Lemma forallb_nth {A} (f : A -> bool) (d : A) l :
  (forall i, i < length l -> f (nth i l d) = true) -> forallb f l = true.
Proof.
  intro H. apply forallb_forall. intros x Hx. apply (In_nth _ _ d) in Hx as (i & Hi & <-). apply H. exact Hi.
Qed.

Section FineBasic.
  Variable T : Type.
  Variable teqb : T -> T -> bool.
  Variable hc : bytes -> T.
  Variable hl : list T -> T.

  Notation world := (world T).
  Notation fstate := (fstate T).
  Notation fnstate := (fnstate T).
  Notation wstate := (wstate T).
  Notation fstep := (fstep teqb hc hl).
  Notation frun := (frun teqb hc hl).
  Notation rule_tail := (rule_tail T teqb hc).
  Notation phase_of := (phase_of T).
  Notation sent_by := (sent_by T).
  Notation upd_worker := (upd_worker T).
  Notation finish_worker := (finish_worker T).
  Notation set_world := (set_world T).

  Notation wdone := (mk_wst T WDone None []).

  Definition wsk (st : fnstate) (k : nat) : wstate := nth k (fn_workers st) wdone.

  Lemma phase_of_wsk st k : phase_of st k = wst_phase T (wsk st k).
  Proof. reflexivity. Qed.

  Lemma set_world_same (st : fnstate) : set_world st (fn_world st) = st.
  Proof. destruct st; reflexivity. Qed.

  (* ================================================================== *)
  (* one step, case by case                                               *)
  (* ================================================================== *)

  (* the three shapes of a step: a rule thread starts (WWait -> WResolve/WFresh, nothing else changes); a rule
     thread moves between its middle phases (its key and remembered vector stay); a worker ends *)
  Definition is_mid (ph : wphase) : Prop := ph <> WWait /\ ph <> WDone.

  Lemma fstep_cases pack blobs hists st k st' :
    fstep pack blobs hists st k = Some st' ->
    k < length (fn_workers st) /\ phase_of st k <> WDone /\
    ((exists key rem ph, length (p_leaves pack) <= k /\ phase_of st k = WWait /\ is_mid ph /\
                         st' = upd_worker st k (mk_wst T ph (Some key) rem)) \/
     (exists w' ph, length (p_leaves pack) <= k /\ is_mid (phase_of st k) /\ is_mid ph /\
                    st' = upd_worker (set_world st w') k (mk_wst T ph (wst_key T (wsk st k)) (wst_rem T (wsk st k)))) \/
     (exists w' sent res script, st' = finish_worker st k w' sent res script)).
  Proof.
    intro H.
    assert (phase_of st k <> WDone) as Hnd.
    { intro E. revert H. unfold Fine.fstep. cbv zeta. unfold Fine.phase_of in E. rewrite E.
      destruct (Nat.ltb k (length (p_leaves pack))); [discriminate|].
      destruct (nth_error (p_nodes pack) (k - length (p_leaves pack))); discriminate. }
    assert (k < length (fn_workers st)) as Hk.
    { destruct (Nat.lt_ge_cases k (length (fn_workers st))) as [Hlt | Hge]; [exact Hlt|].
      exfalso. apply Hnd. unfold Fine.phase_of. rewrite nth_overflow by exact Hge. reflexivity. }
    split; [exact Hk|]. split; [exact Hnd|].
    revert H. unfold Fine.fstep. cbv zeta. fold (wsk st k). rewrite phase_of_wsk in *.
    destruct (Nat.ltb k (length (p_leaves pack))) eqn:Ek.
    { destruct (wst_phase T (wsk st k)); try discriminate.
      destruct (handle_leaf teqb hc (fn_world st) (nth k blobs [])); intro H; injection H as <-;
        right; right; do 4 eexists; reflexivity. }
    apply Nat.ltb_ge in Ek.
    destruct (nth_error (p_nodes pack) (k - length (p_leaves pack))) as [n|]; [|discriminate].
    assert (forall ph w', is_mid (wst_phase T (wsk st k)) -> is_mid ph ->
              Some (upd_worker (set_world st w') k (mk_wst T ph (wst_key T (wsk st k)) (wst_rem T (wsk st k)))) = Some st' ->
              (exists key rem ph0, length (p_leaves pack) <= k /\ wst_phase T (wsk st k) = WWait /\ is_mid ph0 /\
                         st' = upd_worker st k (mk_wst T ph0 (Some key) rem)) \/
              (exists w'0 ph0, length (p_leaves pack) <= k /\ is_mid (wst_phase T (wsk st k)) /\ is_mid ph0 /\
                    st' = upd_worker (set_world st w'0) k (mk_wst T ph0 (wst_key T (wsk st k)) (wst_rem T (wsk st k)))) \/
              (exists w'0 sent res script, st' = finish_worker st k w'0 sent res script)) as Hgoto.
    { intros ph w' Hm1 Hm2 E. injection E as <-. right. left. exists w', ph. auto. }
    assert (forall w' sent res script,
              Some (finish_worker st k w' sent res script) = Some st' ->
              (exists key rem ph0, length (p_leaves pack) <= k /\ wst_phase T (wsk st k) = WWait /\ is_mid ph0 /\
                         st' = upd_worker st k (mk_wst T ph0 (Some key) rem)) \/
              (exists w'0 ph0, length (p_leaves pack) <= k /\ is_mid (wst_phase T (wsk st k)) /\ is_mid ph0 /\
                    st' = upd_worker (set_world st w'0) k (mk_wst T ph0 (wst_key T (wsk st k)) (wst_rem T (wsk st k)))) \/
              (exists w'0 sent0 res0 script0, st' = finish_worker st k w'0 sent0 res0 script0)) as Hfin.
    { intros w' sent res script E. injection E as <-. right. right. do 4 eexists. reflexivity. }
    destruct (wst_phase T (wsk st k)) as [|done i|done i|done i|i|ro|] eqn:Eph.
    - (* WWait *)
      destruct (negb (forallb (sent_by st) (deps pack k))); [discriminate|].
      destruct (all_some _) as [tickets|]; [|apply Hfin].
      destruct (alookup teqb _ (hl tickets)) as [rem|]; intro H; injection H as <-; left;
        do 3 eexists; (split; [exact Ek|]); (split; [reflexivity|]); (split; [|reflexivity]); split; discriminate.
    - (* WResolve *)
      destruct (nth_error (nth k blobs []) i) as [[p a]|]; [|apply Hgoto; split; discriminate].
      destruct (nth_error (wst_rem T (wsk st k)) i) as [r|]; [|apply Hfin].
      destruct (get_file_ticket teqb hc (fn_world st) p a) as [cur|]; [|apply Hgoto; split; discriminate].
      destruct (teqb (fs_t r) cur); [apply Hgoto; split; discriminate|].
      destruct (back_up teqb (fn_world st) cur p); [apply Hgoto; split; discriminate | apply Hfin].
    - (* WCheck *)
      destruct (nth_error (wst_rem T (wsk st k)) i) as [r|]; [|apply Hfin].
      destruct (cache_of (fn_world st)) as [c|]; [|apply Hfin].
      destruct (alookup teqb c (fs_t r)); apply Hgoto; split; discriminate.
    - (* WRename *)
      destruct (nth_error (nth k blobs []) i) as [[p a]|]; [|apply Hfin].
      destruct (nth_error (wst_rem T (wsk st k)) i) as [r|]; [|apply Hfin].
      destruct (restore teqb (fn_world st) (fs_t r) p); [apply Hgoto; split; discriminate | apply Hgoto; split; discriminate | apply Hfin].
    - (* WFresh *)
      destruct (nth_error (nth k blobs []) i) as [[p a]|]; [|apply Hgoto; split; discriminate].
      destruct (get_file_ticket teqb hc (fn_world st) p a) as [cur|]; [|apply Hgoto; split; discriminate].
      destruct (back_up teqb (fn_world st) cur p); [apply Hgoto; split; discriminate | apply Hfin].
    - (* WFinish *)
      destruct (wst_key T (wsk st k)) as [key|]; [|discriminate].
      destruct (rule_tail _ _ _ _ _ _) as [[[wr|e] w'] script]; apply Hfin.
    - discriminate.
  Qed.

  (* what a step leaves alone *)
  Lemma upd_worker_other st k ws j : j <> k -> wsk (upd_worker st k ws) j = wsk st j.
  Proof. intro H. unfold wsk, Fine.upd_worker. cbn [fn_workers]. apply nth_set_nth_neq. exact H. Qed.

  Lemma upd_worker_self st k ws : k < length (fn_workers st) -> wsk (upd_worker st k ws) k = ws.
  Proof. intro H. unfold wsk, Fine.upd_worker. cbn [fn_workers]. apply nth_set_nth_eq. exact H. Qed.

  Lemma finish_worker_other st k w' sent res script j : j <> k -> wsk (finish_worker st k w' sent res script) j = wsk st j.
  Proof. intro H. unfold wsk, Fine.finish_worker. cbn [fn_workers]. apply nth_set_nth_neq. exact H. Qed.

  Lemma finish_worker_self st k w' sent res script :
    k < length (fn_workers st) -> wsk (finish_worker st k w' sent res script) k = wdone.
  Proof. intro H. unfold wsk, Fine.finish_worker. cbn [fn_workers]. apply nth_set_nth_eq. exact H. Qed.

  Lemma fstep_other pack blobs hists st k st' j :
    fstep pack blobs hists st k = Some st' -> j <> k -> wsk st' j = wsk st j.
  Proof.
    intros H Hne. apply fstep_cases in H as (_ & _ & [(key & rem & ph & _ & _ & _ & ->) | [(w' & ph & _ & _ & _ & ->) | (w' & s & r & sc & ->)]]).
    - apply upd_worker_other. exact Hne.
    - rewrite upd_worker_other by exact Hne. reflexivity.
    - apply finish_worker_other. exact Hne.
  Qed.

  Lemma fstep_workers_length pack blobs hists st k st' :
    fstep pack blobs hists st k = Some st' -> length (fn_workers st') = length (fn_workers st).
  Proof.
    intro H. apply fstep_cases in H as (_ & _ & [(key & rem & ph & _ & _ & _ & ->) | [(w' & ph & _ & _ & _ & ->) | (w' & s & r & sc & ->)]]);
      cbn [Fine.upd_worker Fine.finish_worker Fine.set_world fn_workers]; apply set_nth_length.
  Qed.

  (* ================================================================== *)
  (* G1a: every step decreases the measure                                *)
  (* ================================================================== *)

  (* the number of steps a worker can still make, at most *)
  Definition wmeasure (b : blob T) (ws : wstate) : nat :=
    match wst_phase T ws with
    | WWait => worker_fuel T b
    | WResolve _ i => 2 + 3 * (length b - i)
    | WCheck _ i => 4 + 3 * (length b - S i)
    | WRename _ i => 3 + 3 * (length b - S i)
    | WFresh i => 2 + 3 * (length b - i)
    | WFinish _ => 1
    | WDone => 0
    end.

  Fixpoint msum (bs : list (blob T)) (ws : list wstate) : nat :=
    match ws with
    | [] => 0
    | x :: r => wmeasure (hd [] bs) x + msum (tl bs) r
    end.

  Definition fmeasure (pack : node_pack) (blobs : list (blob T)) (st : fnstate) : nat := msum blobs (fn_workers st).

  Lemma nth_tl {A} (l : list A) k d : nth k (tl l) d = nth (S k) l d.
  Proof. destruct l; [destruct k; reflexivity | reflexivity]. Qed.

  Lemma msum_set_nth : forall ws bs k v,
    k < length ws -> wmeasure (nth k bs []) v < wmeasure (nth k bs []) (nth k ws wdone) ->
    msum bs (set_nth k v ws) < msum bs ws.
  Proof.
    induction ws as [|x ws IH]; intros bs k v Hk Hlt; [cbn in Hk; lia|].
    destruct k as [|k]; cbn [set_nth msum nth] in *.
    - assert (nth 0 bs [] = hd [] bs) as E by (destruct bs; reflexivity). rewrite E in Hlt.
      apply Nat.add_lt_mono_r. exact Hlt.
    - apply Nat.add_lt_mono_l. apply IH; [cbn [length] in Hk; lia|]. rewrite nth_tl. exact Hlt.
  Qed.

  Lemma step_measure pack blobs hists st k st' :
    fstep pack blobs hists st k = Some st' ->
    wmeasure (nth k blobs []) (wsk st' k) < wmeasure (nth k blobs []) (wsk st k).
  Proof.
    intro H. pose proof (fstep_cases _ _ _ _ _ _ H) as (Hk & Hnd & _).
    revert H. unfold Fine.fstep. cbv zeta. fold (wsk st k). rewrite phase_of_wsk in Hnd.
    set (b := nth k blobs []).
    assert (forall w' sent res script, wmeasure b (wsk (finish_worker st k w' sent res script) k) < wmeasure b (wsk st k)) as Hfin.
    { intros w' sent res script. rewrite finish_worker_self by exact Hk. unfold wmeasure at 1. cbn [wst_phase].
      unfold wmeasure, worker_fuel. destruct (wst_phase T (wsk st k)); try lia. contradiction. }
    destruct (Nat.ltb k (length (p_leaves pack))).
    { destruct (wst_phase T (wsk st k)); try discriminate.
      destruct (handle_leaf teqb hc (fn_world st) b); intro H; injection H as <-; apply Hfin. }
    destruct (nth_error (p_nodes pack) (k - length (p_leaves pack))) as [n|]; [|discriminate].
    assert (forall ph w' key rem st1, Some (upd_worker (set_world st w') k (mk_wst T ph key rem)) = Some st1 ->
              wmeasure b (wsk st1 k) = wmeasure b (mk_wst T ph key rem)) as Hgoto.
    { intros ph w' key rem st1 E. injection E as <-. rewrite upd_worker_self; [reflexivity|]. exact Hk. }
    assert (forall w' sent res script st1, Some (finish_worker st k w' sent res script) = Some st1 ->
              wmeasure b (wsk st1 k) < wmeasure b (wsk st k)) as Hfin'.
    { intros w' sent res script st1 E. injection E as <-. apply Hfin. }
    assert (forall i x, nth_error b i = Some x -> i < length b) as Hlen.
    { intros i x E. apply nth_error_Some. rewrite E. discriminate. }
    unfold wmeasure at 2. destruct (wst_phase T (wsk st k)) as [|done i|done i|done i|i|ro|] eqn:Eph.
    - destruct (negb (forallb (sent_by st) (deps pack k))); [discriminate|].
      destruct (all_some _) as [tickets|].
      2:{ intro H. specialize (Hfin' _ _ _ _ _ H). unfold wmeasure in Hfin' at 2. rewrite Eph in Hfin'. exact Hfin'. }
      destruct (alookup teqb _ (hl tickets)) as [rem|]; intro H; injection H as <-;
        rewrite upd_worker_self by exact Hk; unfold wmeasure, worker_fuel; cbn [wst_phase]; lia.
    - destruct (nth_error b i) as [[p a]|] eqn:Eb.
      2:{ intro H. rewrite (Hgoto _ _ _ _ _ H). unfold wmeasure. cbn [wst_phase]. lia. }
      pose proof (Hlen _ _ Eb) as Hi.
      destruct (nth_error (wst_rem T (wsk st k)) i) as [r|].
      2:{ intro H. specialize (Hfin' _ _ _ _ _ H). unfold wmeasure in Hfin' at 2. rewrite Eph in Hfin'. exact Hfin'. }
      destruct (get_file_ticket teqb hc (fn_world st) p a) as [cur|].
      2:{ intro H. rewrite (Hgoto _ _ _ _ _ H). unfold wmeasure. cbn [wst_phase]. lia. }
      destruct (teqb (fs_t r) cur).
      { intro H. rewrite (Hgoto _ _ _ _ _ H). unfold wmeasure. cbn [wst_phase]. lia. }
      destruct (back_up teqb (fn_world st) cur p).
      + intro H. rewrite (Hgoto _ _ _ _ _ H). unfold wmeasure. cbn [wst_phase]. lia.
      + intro H. specialize (Hfin' _ _ _ _ _ H). unfold wmeasure in Hfin' at 2. rewrite Eph in Hfin'. exact Hfin'.
    - destruct (nth_error (wst_rem T (wsk st k)) i) as [r|].
      2:{ intro H. specialize (Hfin' _ _ _ _ _ H). unfold wmeasure in Hfin' at 2. rewrite Eph in Hfin'. exact Hfin'. }
      destruct (cache_of (fn_world st)) as [c|].
      2:{ intro H. specialize (Hfin' _ _ _ _ _ H). unfold wmeasure in Hfin' at 2. rewrite Eph in Hfin'. exact Hfin'. }
      destruct (alookup teqb c (fs_t r)); intro H; rewrite (Hgoto _ _ _ _ _ H); unfold wmeasure; cbn [wst_phase]; lia.
    - destruct (nth_error b i) as [[p a]|] eqn:Eb.
      2:{ intro H. specialize (Hfin' _ _ _ _ _ H). unfold wmeasure in Hfin' at 2. rewrite Eph in Hfin'. exact Hfin'. }
      destruct (nth_error (wst_rem T (wsk st k)) i) as [r|].
      2:{ intro H. specialize (Hfin' _ _ _ _ _ H). unfold wmeasure in Hfin' at 2. rewrite Eph in Hfin'. exact Hfin'. }
      destruct (restore teqb (fn_world st) (fs_t r) p).
      + intro H. rewrite (Hgoto _ _ _ _ _ H). unfold wmeasure. cbn [wst_phase]. lia.
      + intro H. rewrite (Hgoto _ _ _ _ _ H). unfold wmeasure. cbn [wst_phase]. lia.
      + intro H. specialize (Hfin' _ _ _ _ _ H). unfold wmeasure in Hfin' at 2. rewrite Eph in Hfin'. exact Hfin'.
    - destruct (nth_error b i) as [[p a]|] eqn:Eb.
      2:{ intro H. rewrite (Hgoto _ _ _ _ _ H). unfold wmeasure. cbn [wst_phase]. lia. }
      pose proof (Hlen _ _ Eb) as Hi.
      destruct (get_file_ticket teqb hc (fn_world st) p a) as [cur|].
      2:{ intro H. rewrite (Hgoto _ _ _ _ _ H). unfold wmeasure. cbn [wst_phase]. lia. }
      destruct (back_up teqb (fn_world st) cur p).
      + intro H. rewrite (Hgoto _ _ _ _ _ H). unfold wmeasure. cbn [wst_phase]. lia.
      + intro H. specialize (Hfin' _ _ _ _ _ H). unfold wmeasure in Hfin' at 2. rewrite Eph in Hfin'. exact Hfin'.
    - destruct (wst_key T (wsk st k)) as [key|]; [|discriminate].
      destruct (rule_tail _ _ _ _ _ _) as [[[wr|e] w'] script]; intro H;
        specialize (Hfin' _ _ _ _ _ H); unfold wmeasure in Hfin' at 2; rewrite Eph in Hfin'; exact Hfin'.
    - discriminate.
  Qed.

  Lemma fstep_workers pack blobs hists st k st' :
    fstep pack blobs hists st k = Some st' -> fn_workers st' = set_nth k (wsk st' k) (fn_workers st).
  Proof.
    intro H. pose proof (fstep_cases _ _ _ _ _ _ H) as (Hk & _ & [(key & rem & ph & _ & _ & _ & ->) | [(w' & ph & _ & _ & _ & ->) | (w' & s & r & sc & ->)]]).
    - rewrite upd_worker_self by exact Hk. reflexivity.
    - rewrite upd_worker_self by exact Hk. reflexivity.
    - rewrite finish_worker_self by exact Hk. reflexivity.
  Qed.

  (* G1, first statement *)
  Theorem fstep_decreases pack blobs hists st k st' :
    fstep pack blobs hists st k = Some st' -> fmeasure pack blobs st' < fmeasure pack blobs st.
  Proof.
    intro H. unfold fmeasure. rewrite (fstep_workers _ _ _ _ _ _ H).
    pose proof (fstep_cases _ _ _ _ _ _ H) as (Hk & _ & _).
    apply msum_set_nth; [exact Hk|]. exact (step_measure _ _ _ _ _ _ H).
  Qed.

  (* ================================================================== *)
  (* runs                                                                 *)
  (* ================================================================== *)

  Definition fstep' pack blobs hists (s : fnstate) (k : nat) : fnstate :=
    match fstep pack blobs hists s k with Some s' => s' | None => s end.

  Lemma frun_cons pack blobs hists k ch st :
    frun pack blobs hists (k :: ch) st = frun pack blobs hists ch (fstep' pack blobs hists st k).
  Proof. reflexivity. Qed.

  Lemma frun_app pack blobs hists ch1 ch2 st :
    frun pack blobs hists (ch1 ++ ch2) st = frun pack blobs hists ch2 (frun pack blobs hists ch1 st).
  Proof. unfold Fine.frun. apply fold_left_app. Qed.

  Lemma frun_ind (P : fnstate -> Prop) pack blobs hists :
    (forall st k st', P st -> fstep pack blobs hists st k = Some st' -> P st') ->
    forall ch st, P st -> P (frun pack blobs hists ch st).
  Proof.
    intros Hstep. induction ch as [|k ch IH]; intros st H; [exact H|]. rewrite frun_cons. apply IH.
    unfold fstep'. destruct (fstep pack blobs hists st k) as [st'|] eqn:E; [eapply Hstep; eauto | exact H].
  Qed.

  Lemma frun_measure pack blobs hists ch st :
    fmeasure pack blobs (frun pack blobs hists ch st) <= fmeasure pack blobs st.
  Proof.
    revert st. induction ch as [|k ch IH]; intro st; [apply Nat.le_refl|]. rewrite frun_cons.
    eapply Nat.le_trans; [apply IH|]. unfold fstep'.
    destruct (fstep pack blobs hists st k) as [st'|] eqn:E; [|apply Nat.le_refl].
    apply Nat.lt_le_incl. eapply fstep_decreases; eauto.
  Qed.

  (* ================================================================== *)
  (* G1b: no deadlock                                                     *)
  (* ================================================================== *)

  (* the initial state of build_fine *)
  Definition fn_init (w1 : world) (pack : node_pack) : fnstate :=
    mk_fn w1 (repeat (mk_wst T WWait None []) (nworkers pack)) (repeat None (nworkers pack))
          (repeat None (nworkers pack)) [].

  Record fwf (pack : node_pack) (st : fnstate) : Prop := mk_fwf {
    fw_len_w : length (fn_workers st) = nworkers pack;
    fw_len_s : length (fn_sent st) = nworkers pack;
    fw_len_r : length (fn_res st) = nworkers pack;
    fw_done : forall k, k < nworkers pack -> phase_of st k = WDone -> sent_by st k = true;
    fw_key : forall k, is_mid (phase_of st k) -> wst_key T (wsk st k) <> None;
    fw_leaf : forall k, k < length (p_leaves pack) -> phase_of st k = WWait \/ phase_of st k = WDone
  }.

  Lemma fwf_init w1 pack : fwf pack (fn_init w1 pack).
  Proof.
    assert (forall k, phase_of (fn_init w1 pack) k = WWait \/ phase_of (fn_init w1 pack) k = WDone) as Hph.
    { intro k. unfold Fine.phase_of, fn_init. cbn [fn_workers].
      destruct (Nat.lt_ge_cases k (nworkers pack)) as [H | H].
      - left. rewrite nth_repeat_lt by exact H. reflexivity.
      - right. rewrite nth_overflow; [reflexivity|]. rewrite repeat_length. exact H. }
    constructor; cbn [fn_init fn_workers fn_sent fn_res]; try apply repeat_length.
    - intros k Hk E. exfalso. unfold Fine.phase_of, fn_init in E. cbn [fn_workers] in E. rewrite nth_repeat_lt in E by exact Hk. discriminate.
    - intros k [H1 H2]. destruct (Hph k); contradiction.
    - intros k _. apply Hph.
  Qed.

  Lemma sent_by_finish st k w' sent res script j :
    k < length (fn_sent st) ->
    sent_by (finish_worker st k w' sent res script) j = if Nat.eqb j k then true else sent_by st j.
  Proof.
    intro Hk. unfold Fine.sent_by, Fine.finish_worker. cbn [fn_sent]. destruct (Nat.eqb j k) eqn:E.
    - apply Nat.eqb_eq in E. subst j. rewrite nth_set_nth_eq by exact Hk. reflexivity.
    - apply Nat.eqb_neq in E. rewrite nth_set_nth_neq by exact E. reflexivity.
  Qed.

  Lemma fstep_fwf pack blobs hists st k st' :
    fwf pack st -> fstep pack blobs hists st k = Some st' -> fwf pack st'.
  Proof.
    intros Hw H. pose proof (fun j => fstep_other _ _ _ _ _ _ j H) as Hoth.
    pose proof (fstep_cases _ _ _ _ _ _ H) as (Hk & Hnd & Hc).
    assert (forall j, j <> k -> phase_of st' j = phase_of st j) as Hpo.
    { intros j Hj. rewrite !phase_of_wsk, (Hoth j Hj). reflexivity. }
    destruct Hc as [(key & rem & ph & Hge & Eph & Hm & ->) | [(w' & ph & Hge & Hm0 & Hm & ->) | (w' & s & r & sc & ->)]].
    - constructor; cbn [Fine.upd_worker fn_workers fn_sent fn_res]; try (rewrite ?set_nth_length; apply Hw).
      + intros j Hj E. destruct (Nat.eq_dec j k) as [-> | Hne].
        * exfalso. rewrite phase_of_wsk, upd_worker_self in E by exact Hk. cbn in E. destruct Hm; contradiction.
        * rewrite (Hpo j Hne) in E. apply (fw_done _ _ Hw j Hj E).
      + intros j Hj. destruct (Nat.eq_dec j k) as [-> | Hne].
        * rewrite upd_worker_self by exact Hk. discriminate.
        * rewrite (Hoth j Hne). apply (fw_key _ _ Hw). rewrite <- (Hpo j Hne). exact Hj.
      + intros j Hj. rewrite (Hpo j ltac:(lia)). apply (fw_leaf _ _ Hw j Hj).
    - constructor; cbn [Fine.upd_worker Fine.set_world fn_workers fn_sent fn_res]; try (rewrite ?set_nth_length; apply Hw).
      + intros j Hj E. destruct (Nat.eq_dec j k) as [-> | Hne].
        * exfalso. rewrite phase_of_wsk, upd_worker_self in E by exact Hk. cbn in E. destruct Hm; contradiction.
        * rewrite (Hpo j Hne) in E. apply (fw_done _ _ Hw j Hj E).
      + intros j Hj. destruct (Nat.eq_dec j k) as [-> | Hne].
        * rewrite upd_worker_self by exact Hk. cbn [wst_key]. apply (fw_key _ _ Hw). exact Hm0.
        * rewrite (Hoth j Hne). apply (fw_key _ _ Hw). rewrite <- (Hpo j Hne). exact Hj.
      + intros j Hj. rewrite (Hpo j ltac:(lia)). apply (fw_leaf _ _ Hw j Hj).
    - assert (k < length (fn_sent st)) as Hks by (rewrite (fw_len_s _ _ Hw), <- (fw_len_w _ _ Hw); exact Hk).
      constructor; cbn [Fine.finish_worker fn_workers fn_sent fn_res]; try (rewrite ?set_nth_length; apply Hw).
      + intros j Hj E. rewrite sent_by_finish by exact Hks. destruct (Nat.eqb j k) eqn:Ejk; [reflexivity|].
        apply Nat.eqb_neq in Ejk. rewrite (Hpo j Ejk) in E. apply (fw_done _ _ Hw j Hj E).
      + intros j Hj. destruct (Nat.eq_dec j k) as [-> | Hne].
        * exfalso. rewrite phase_of_wsk, finish_worker_self in Hj by exact Hk. destruct Hj as [_ Hj]. apply Hj. reflexivity.
        * rewrite (Hoth j Hne). apply (fw_key _ _ Hw). rewrite <- (Hpo j Hne). exact Hj.
      + intros j Hj. destruct (Nat.eq_dec j k) as [-> | Hne].
        * right. rewrite phase_of_wsk, finish_worker_self by exact Hk. reflexivity.
        * rewrite (Hpo j Hne). apply (fw_leaf _ _ Hw j Hj).
  Qed.

  Lemma frun_fwf pack blobs hists ch st : fwf pack st -> fwf pack (frun pack blobs hists ch st).
  Proof. apply frun_ind. intros s k s' Hs E. eapply fstep_fwf; eauto. Qed.

  Definition wnot_done (ws : wstate) : bool := match wst_phase T ws with WDone => true | _ => false end.

  (* a worker that is not waiting for a packet can move *)
  Lemma fstep_some pack blobs hists st k :
    fwf pack st -> k < nworkers pack -> phase_of st k <> WDone ->
    (phase_of st k = WWait -> forall d, In d (deps pack k) -> sent_by st d = true) ->
    fstep pack blobs hists st k <> None.
  Proof.
    intros Hw Hk Hnd Hdeps. pose proof (fw_key _ _ Hw k) as Hkey. pose proof (fw_leaf _ _ Hw k) as Hleaf.
    unfold Fine.fstep. cbv zeta. fold (wsk st k). rewrite phase_of_wsk in *.
    destruct (Nat.ltb k (length (p_leaves pack))) eqn:Ek.
    { apply Nat.ltb_lt in Ek. destruct (Hleaf Ek) as [E | E]; [|contradiction]. rewrite E.
      destruct (handle_leaf teqb hc (fn_world st) (nth k blobs [])); discriminate. }
    apply Nat.ltb_ge in Ek.
    destruct (nth_error (p_nodes pack) (k - length (p_leaves pack))) as [n|] eqn:En.
    2:{ apply nth_error_None in En. unfold nworkers in Hk. lia. }
    destruct (wst_phase T (wsk st k)) as [|done i|done i|done i|i|ro|] eqn:Eph.
    - assert (forallb (sent_by st) (deps pack k) = true) as ->.
      { apply forallb_forall. apply Hdeps. reflexivity. }
      cbn [negb]. destruct (all_some _) as [tickets|]; [|discriminate].
      destruct (alookup teqb _ (hl tickets)); discriminate.
    - destruct (nth_error (nth k blobs []) i) as [[p a]|]; [|discriminate].
      destruct (nth_error (wst_rem T (wsk st k)) i) as [r|]; [|discriminate].
      destruct (get_file_ticket teqb hc (fn_world st) p a) as [cur|]; [|discriminate].
      destruct (teqb (fs_t r) cur); [discriminate|].
      destruct (back_up teqb (fn_world st) cur p); discriminate.
    - destruct (nth_error (wst_rem T (wsk st k)) i) as [r|]; [|destruct (cache_of (fn_world st)); discriminate].
      destruct (cache_of (fn_world st)) as [c|]; [|discriminate].
      destruct (alookup teqb c (fs_t r)); discriminate.
    - destruct (nth_error (nth k blobs []) i) as [[p a]|]; [|discriminate].
      destruct (nth_error (wst_rem T (wsk st k)) i) as [r|]; [|discriminate].
      destruct (restore teqb (fn_world st) (fs_t r) p); discriminate.
    - destruct (nth_error (nth k blobs []) i) as [[p a]|]; [|discriminate].
      destruct (get_file_ticket teqb hc (fn_world st) p a) as [cur|]; [|discriminate].
      destruct (back_up teqb (fn_world st) cur p); discriminate.
    - destruct (wst_key T (wsk st k)) as [key|] eqn:Ekey.
      + destruct (rule_tail _ _ _ _ _ _) as [[[wr|e] w'] script]; discriminate.
      + exfalso. apply Hkey; [split; discriminate | reflexivity].
    - contradiction.
  Qed.

  (* G1, second statement: the first worker in spawn order that is not done can move *)
  Theorem fine_no_deadlock pack blobs hists st :
    plan_wf pack -> fwf pack st -> all_done st = false -> exists k, fstep pack blobs hists st k <> None.
  Proof.
    intros Hwf Hw Hnot. unfold Fine.all_done in Hnot.
    destruct (forallb_first_false _ wdone _ Hnot) as (k & Hk & Hf & Hlt). rewrite (fw_len_w _ _ Hw) in Hk.
    exists k. apply fstep_some; [exact Hw | exact Hk | |].
    - unfold Fine.phase_of. intro E. rewrite E in Hf. discriminate.
    - intros _ d Hd. pose proof (deps_lt pack k d Hwf Hd) as Hdk.
      apply (fw_done _ _ Hw d); [lia|]. specialize (Hlt d Hdk). unfold Fine.phase_of.
      destruct (wst_phase T (nth d (fn_workers st) wdone)); try discriminate. reflexivity.
  Qed.

  Corollary fine_stuck_is_complete pack blobs hists st :
    plan_wf pack -> fwf pack st -> (forall k, fstep pack blobs hists st k = None) -> all_done st = true.
  Proof.
    intros Hwf Hw Hstuck. destruct (all_done st) eqn:E; [reflexivity|].
    destruct (fine_no_deadlock pack blobs hists st Hwf Hw E) as (k & Hk). exfalso. apply Hk. apply Hstuck.
  Qed.

  (* every run can be extended to a complete one *)
  Theorem fine_completable pack blobs hists st :
    plan_wf pack -> fwf pack st -> exists ch, all_done (frun pack blobs hists ch st) = true.
  Proof.
    intros Hwf. remember (fmeasure pack blobs st) as m eqn:Em. revert st Em.
    induction m as [m IH] using lt_wf_ind. intros st Em Hw.
    destruct (all_done st) eqn:Ed; [exists []; exact Ed|].
    destruct (fine_no_deadlock pack blobs hists st Hwf Hw Ed) as (k & Hk).
    destruct (fstep pack blobs hists st k) as [st'|] eqn:E; [|contradiction].
    destruct (IH (fmeasure pack blobs st')) with (st := st') as (ch & Hch).
    - rewrite Em. eapply fstep_decreases; eauto.
    - reflexivity.
    - eapply fstep_fwf; eauto.
    - exists (k :: ch). rewrite frun_cons. unfold fstep'. rewrite E. exact Hch.
  Qed.

  (* once everybody is done nobody moves *)
  Lemma all_done_phase st k : all_done st = true -> phase_of st k = WDone.
  Proof.
    intro H. unfold Fine.all_done in H. rewrite forallb_forall in H. unfold Fine.phase_of.
    destruct (nth_in_or_default k (fn_workers st) (mk_wst T WDone None [])) as [Hin | ->]; [|reflexivity].
    specialize (H _ Hin). destruct (wst_phase T (nth k (fn_workers st) (mk_wst T WDone None []))); try discriminate. reflexivity.
  Qed.

  Lemma fstep_done pack blobs hists st k : phase_of st k = WDone -> fstep pack blobs hists st k = None.
  Proof.
    intro E. destruct (fstep pack blobs hists st k) as [st'|] eqn:H; [|reflexivity].
    apply fstep_cases in H as (_ & Hnd & _). contradiction.
  Qed.

  Lemma frun_all_done pack blobs hists ch st : all_done st = true -> frun pack blobs hists ch st = st.
  Proof.
    intro H. induction ch as [|k ch IH]; [reflexivity|]. rewrite frun_cons. unfold fstep'.
    rewrite (fstep_done _ _ _ _ _ (all_done_phase st k H)). exact IH.
  Qed.
End FineBasic.
