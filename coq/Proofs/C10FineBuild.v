(* C10 under interleavings, part 1: the build after a clean, under EVERY interleaving of the rule threads
   (Model/Fine.v).  The setting is that of Proofs/C10Restore.v (restore_build): every target of the plan is
   absent, its very file is in the cache under the hash of its bytes, the contents are pairwise different and
   every rule finds, under the key of its sources, the hashes of its targets.  Invariant of the run (rinv):
   no worker ever reaches NeedsRebuild; a rule thread that has got to target i has put the very files of its
   targets < i back and the others are still in the cache (nobody else wants these entries). *)
From Coq Require Import Relations.Relation_Operators Relations.Operators_Properties.
From Ruler Require Import Tactics Bytes AList RuleSyntax Parser TopoSort TopoSpec World Cmdlang Work Build Ops Inv
     BuildSpec Ideal Sched Fine BytesFacts InvFacts TopoSortFacts BuildFacts C01Script C01Hist C01Build C01Plan C04Facts
     SchedBasic SchedSerial SchedRule SchedFacts FineBasic FineInv FineFacts C10Facts C10Summary C10Clean C10Restore.
Local Open Scope nat_scope.

(* ================================================================== *)
(* lists                                                                *)
(* ================================================================== *)

Lemma repeat_snoc {A} (x : A) n : repeat x (S n) = repeat x n ++ [x].
Proof. cbn [repeat]. apply repeat_cons. Qed.

Lemma map_const_repeat {A B} (b : B) (l : list A) : map (fun _ => b) l = repeat b (length l).
Proof. induction l as [|x l IH]; cbn [map length repeat]; [reflexivity | f_equal; exact IH]. Qed.

Lemma nth_error_firstn_lt {A} (l : list A) : forall i j, i < j -> nth_error (firstn j l) i = nth_error l i.
Proof.
  induction l as [|x l IH]; intros i j H; [destruct j; reflexivity|].
  destruct j as [|j]; [lia|]. destruct i as [|i]; cbn [firstn nth_error]; [reflexivity|]. apply IH. lia.
Qed.

Lemma nth_error_lt {A} (l : list A) i x : nth_error l i = Some x -> i < length l.
Proof. intro H. apply nth_error_Some. rewrite H. discriminate. Qed.

Lemma nth_error_ge {A} (l : list A) i : nth_error l i = None -> length l <= i.
Proof. apply nth_error_None. Qed.

Lemma flat_pos_unique {A B} (f : A -> list B) (l : list A) :
  NoDup (flat_map f l) -> forall j j' x x' i i' t,
  nth_error l j = Some x -> nth_error (f x) i = Some t ->
  nth_error l j' = Some x' -> nth_error (f x') i' = Some t -> j = j' /\ i = i'.
Proof.
  induction l as [|a l IH]; intros Hnd j j' x x' i i' t Hj Hi Hj' Hi'; [destruct j; discriminate|].
  cbn [flat_map] in Hnd.
  destruct j as [|j]; destruct j' as [|j']; cbn [nth_error] in Hj, Hj'.
  - injection Hj as <-. injection Hj' as <-. split; [reflexivity|].
    apply NoDup_app_l in Hnd. rewrite NoDup_nth_error in Hnd. apply Hnd; [eapply nth_error_lt; eauto | congruence].
  - exfalso. injection Hj as <-. apply (NoDup_app_disjoint _ _ t Hnd); [eapply nth_error_In; eauto|].
    apply in_flat_map. exists x'. split; eapply nth_error_In; eauto.
  - exfalso. injection Hj' as <-. apply (NoDup_app_disjoint _ _ t Hnd); [eapply nth_error_In; eauto|].
    apply in_flat_map. exists x. split; eapply nth_error_In; eauto.
  - apply NoDup_app_r in Hnd. destruct (IH Hnd j j' x x' i i' t Hj Hi Hj' Hi') as [-> ->]. split; reflexivity.
Qed.

Lemma trace_ok_nth T teqb hl LS : forall tr pre j e,
  trace_ok T teqb hl LS pre tr -> nth_error tr j = Some e ->
  entry_ok T teqb hl LS (pre ++ map (sent_of T) (firstn j tr)) e.
Proof.
  induction tr as [|a tr IH]; intros pre j e Htok Hn; [destruct j; discriminate|].
  destruct Htok as [Ha Htok]. destruct j as [|j]; cbn [nth_error firstn map] in *.
  - injection Hn as <-. rewrite app_nil_r. exact Ha.
  - specialize (IH _ _ _ Htok Hn). rewrite <- app_assoc in IH. exact IH.
Qed.

Section FineRestore.
  Variable T : Type.
  Variable teqb : T -> T -> bool.
  Variable hc : bytes -> T.
  Variable hl : list T -> T.
  Hypothesis teqb_spec : forall a b, teqb a b = true <-> a = b.
  Hypothesis hc_inj : forall a b, hc a = hc b -> a = b.

  Notation world := (world T).
  Notation fstate := (fstate T).
  Notation fnstate := (fnstate T).
  Notation wstate := (wstate T).
  Notation disk_inv := (disk_inv teqb hc).
  Notation steps := (clos_refl_trans world (step teqb hc)).
  Notation blob_ok := (InvProofs.blob_ok T teqb hc).
  Notation fstep := (fstep teqb hc hl).
  Notation frun := (frun teqb hc hl).
  Notation rule_tail := (rule_tail T teqb hc).
  Notation phase_of := (phase_of T).
  Notation sent_by := (sent_by T).
  Notation upd_worker := (upd_worker T).
  Notation finish_worker := (finish_worker T).
  Notation set_world := (set_world T).
  Notation wsk := (wsk T).
  Notation tk_of := (tk_of T hc).
  Notation sent_of := (sent_of T).
  Notation res_good := (res_good T).
  Notation wdone := (mk_wst T WDone None []).

  Variable wa : world.          (* the world of reference: before the clean *)
  Variable w1 : world.          (* the world the workers start in *)
  Variable pack : node_pack.
  Variable blobs : list (blob T).
  Variable hists : list (history T).
  Variable tr : list (tentry T).

  Let nl := length (p_leaves pack).
  Let LS := map (fun l => Some [tk_of wa l]) (p_leaves pack).

  Hypothesis Hinv1 : disk_inv w1.
  Hypothesis Hwf : plan_wf pack.
  Hypothesis Hshape : blobs_shaped T pack blobs.
  Hypothesis Hblobs : forall k, blob_ok w1 (nth k blobs []).
  Hypothesis Htrd : map fst tr = p_nodes pack.
  Hypothesis Hleaves : forall l, In l (p_leaves pack) -> content_at wa l <> None.
  Hypothesis Htok : trace_ok T teqb hl LS [] tr.
  Hypothesis Hhash : Forall (entry_hashes T hc wa) tr.
  Hypothesis Hhists : forall j e h', nth_error tr j = Some e -> wr_history (snd e) = Some h' -> nth j hists [] = h'.
  Hypothesis Hdist : distinct_on (fget wa) (plan_targets pack).
  Hypothesis Habs1 : forall t, In t (plan_targets pack) -> fget w1 t = None.
  Hypothesis Hout1 : forall q, ~ In q (plan_targets pack) -> fget w1 q = fget wa q.
  Hypothesis Hch1 : cache_has T teqb hc w1 (fget wa) (plan_targets pack).

  (* ================================================================== *)
  (* what the trace says about node j                                     *)
  (* ================================================================== *)

  Record efacts (j : nat) (e : tentry T) : Prop := mk_efacts {
    ef_node : nth_error (p_nodes pack) j = Some (fst e);
    ef_ts : wr_tickets (snd e) = map (tk_of wa) (n_targets (fst e));
    ef_ex : forall t, In t (n_targets (fst e)) -> fget wa t <> None;
    ef_fst : map fst (nth (nl + j) blobs []) = n_targets (fst e);
    ef_in : forall t, In t (n_targets (fst e)) -> In t (plan_targets pack);
    ef_entry : exists tickets,
      all_some (map (received T LS (map sent_of (firstn j tr))) (n_source_indices (fst e))) = Some tickets /\
      hist_entry T teqb (nth j hists []) (hl tickets) (wr_tickets (snd e))
  }.

  Lemma efacts_of j e : nth_error tr j = Some e -> efacts j e.
  Proof.
    intro Hn.
    assert (nth_error (p_nodes pack) j = Some (fst e)) as Hnd by (rewrite <- Htrd; apply map_nth_error; exact Hn).
    assert (In e tr) as Hin by (eapply nth_error_In; eauto).
    rewrite Forall_forall in Hhash. pose proof (Hhash e Hin) as Hh. unfold entry_hashes in Hh.
    destruct (hashes_tk T hc _ _ _ Hh) as [Ets Hex].
    constructor.
    - exact Hnd.
    - exact Ets.
    - intros t Ht X. apply (Hex t Ht). apply content_at_none. exact X.
    - exact (blobs_shaped_node T pack blobs j (fst e) Hshape Hnd).
    - intros t Ht. eapply node_targets_in_plan; [eapply nth_error_In; exact Hnd | exact Ht].
    - destruct (trace_ok_nth T teqb hl LS tr [] j e Htok Hn) as (tickets & h' & Eall & Hh' & Hent).
      cbn [app] in Eall. exists tickets. split; [exact Eall|]. rewrite (Hhists j e h' Hn Hh'). exact Hent.
  Qed.

  Lemma node_tr j nd : nth_error (p_nodes pack) j = Some nd -> exists e, nth_error tr j = Some e /\ fst e = nd.
  Proof.
    intro Hn. destruct (nth_error tr j) as [e|] eqn:E.
    - exists e. split; [reflexivity|]. pose proof (map_nth_error fst j tr E) as X. rewrite Htrd in X. congruence.
    - exfalso. apply nth_error_None in E. apply nth_error_lt in Hn. rewrite <- Htrd, map_length in Hn. unfold tentry in *. lia.
  Qed.

  (* ================================================================== *)
  (* the invariant                                                        *)
  (* ================================================================== *)

  (* how many of its targets a rule thread has put back *)
  Definition prog (ws : wstate) (len : nat) : nat :=
    match wst_phase T ws with
    | WWait | WFresh _ => 0
    | WResolve _ i | WCheck _ i | WRename _ i => i
    | WFinish _ | WDone => len
    end.

  Definition rem_ok (ws : wstate) (nd : node) : Prop :=
    wst_key T ws <> None /\
    exists rem1 extra, wst_rem T ws = rem1 ++ extra /\ map fs_t rem1 = map (tk_of wa) (n_targets nd).

  Definition node_ok (st : fnstate) (j : nat) (e : tentry T) : Prop :=
    let ws := wsk st (nl + j) in
    let len := length (n_targets (fst e)) in
    match wst_phase T ws with
    | WWait => nth (nl + j) (fn_sent st) None = None
    | WResolve done i => nth (nl + j) (fn_sent st) None = None /\ done = repeat Recovered i /\ i <= len /\ rem_ok ws (fst e)
    | WCheck done i => nth (nl + j) (fn_sent st) None = None /\ done = repeat Recovered i /\ i < len /\ rem_ok ws (fst e)
    | WRename done i => nth (nl + j) (fn_sent st) None = None /\ done = repeat Recovered i /\ i < len /\ rem_ok ws (fst e)
    | WFresh i => nth (nl + j) (fn_sent st) None = None /\ len = 0 /\ wst_key T ws <> None
    | WFinish ro => nth (nl + j) (fn_sent st) None = None /\ wst_key T ws <> None /\
                    (ro = Some (repeat Recovered len) \/ (ro = None /\ len = 0))
    | WDone => nth (nl + j) (fn_sent st) None = Some (sent_of e)
    end.

  Definition in_cache (w : world) (t : bytes) : Prop :=
    exists c f, cache_of w = Some c /\ fget wa t = Some f /\ alookup teqb c (hc (f_content f)) = Some f.

  Definition tgt_ok (st : fnstate) : Prop :=
    forall j e i t, nth_error tr j = Some e -> nth_error (n_targets (fst e)) i = Some t ->
      (i < prog (wsk st (nl + j)) (length (n_targets (fst e))) -> fget (fn_world st) t = fget wa t) /\
      (prog (wsk st (nl + j)) (length (n_targets (fst e))) <= i -> fget (fn_world st) t = None /\ in_cache (fn_world st) t).

  Definition leaves_ok (st : fnstate) : Prop :=
    forall i l, nth_error (p_leaves pack) i = Some l ->
      (phase_of st i = WWait /\ nth i (fn_sent st) None = None) \/
      (phase_of st i = WDone /\ nth i (fn_sent st) None = Some (Some [tk_of wa l])).

  Record rinv (st : fnstate) : Prop := mk_rinv {
    ri_cmd : fn_commands st = [];
    ri_res : forall k r, nth k (fn_res st) None = Some r -> res_good r;
    ri_frame : forall q, ~ In q (plan_targets pack) -> fget (fn_world st) q = fget wa q;
    ri_steps : steps w1 (fn_world st);
    ri_leaf : leaves_ok st;
    ri_node : forall j e, nth_error tr j = Some e -> node_ok st j e;
    ri_tgt : tgt_ok st
  }.

  (* ---------- the start ---------- *)

  Lemma init_wsk k : wst_phase T (wsk (fn_init T w1 pack) k) = WWait \/ wst_phase T (wsk (fn_init T w1 pack) k) = WDone.
  Proof.
    unfold FineBasic.wsk, fn_init. cbn [fn_workers].
    destruct (Nat.lt_ge_cases k (nworkers pack)) as [H | H].
    - left. rewrite nth_repeat_lt by exact H. reflexivity.
    - right. rewrite nth_overflow; [reflexivity|]. rewrite repeat_length. exact H.
  Qed.

  Lemma nth_repeat_none {A} n k : nth k (repeat (@None A) n) None = None.
  Proof. revert k. induction n as [|n IH]; intros [|k]; cbn; auto. Qed.

  Lemma node_index_lt j nd : nth_error (p_nodes pack) j = Some nd -> nl + j < nworkers pack.
  Proof. intro H. apply nth_error_lt in H. unfold nworkers, nl. lia. Qed.

  Lemma rinv_init : rinv (fn_init T w1 pack).
  Proof.
    constructor.
    - reflexivity.
    - intros k r H. unfold fn_init in H. cbn [fn_res] in H. rewrite nth_repeat_none in H. discriminate.
    - exact Hout1.
    - apply rt_refl.
    - intros i l Hl. left. split; [|unfold fn_init; cbn [fn_sent]; apply nth_repeat_none].
      unfold Fine.phase_of, fn_init. cbn [fn_workers]. rewrite nth_repeat_lt; [reflexivity|].
      apply nth_error_lt in Hl. unfold nworkers. lia.
    - intros j e Hn. unfold node_ok. cbv zeta.
      assert (wst_phase T (wsk (fn_init T w1 pack) (nl + j)) = WWait) as ->.
      { unfold FineBasic.wsk, fn_init. cbn [fn_workers]. rewrite nth_repeat_lt; [reflexivity|].
        eapply node_index_lt. exact (ef_node _ _ (efacts_of j e Hn)). }
      unfold fn_init. cbn [fn_sent]. apply nth_repeat_none.
    - intros j e i t Hn Ht. pose proof (efacts_of j e Hn) as F.
      assert (prog (wsk (fn_init T w1 pack) (nl + j)) (length (n_targets (fst e))) = 0) as ->.
      { unfold prog. assert (wst_phase T (wsk (fn_init T w1 pack) (nl + j)) = WWait) as ->; [|reflexivity].
        unfold FineBasic.wsk, fn_init. cbn [fn_workers]. rewrite nth_repeat_lt; [reflexivity|].
        eapply node_index_lt. exact (ef_node _ _ F). }
      split; [lia|]. intros _. cbn [fn_init fn_world].
      assert (In t (plan_targets pack)) as Hin by (apply (ef_in _ _ F); eapply nth_error_In; eauto).
      split; [apply Habs1; exact Hin|].
      destruct Hch1 as (c & Hc & Hcf).
      destruct (fget wa t) as [f|] eqn:Ef.
      + exists c, f. split; [exact Hc|]. split; [exact Ef|]. apply (Hcf t f Hin Ef).
      + exfalso. apply (ef_ex _ _ F t); [eapply nth_error_In; eauto | exact Ef].
  Qed.

  (* ---------- reading the invariant ---------- *)

  Lemma node_ok_sent st j e :
    node_ok st j e -> sent_by st (nl + j) = true -> nth (nl + j) (fn_sent st) None = Some (sent_of e).
  Proof.
    unfold node_ok, Fine.sent_by. cbv zeta.
    destruct (wst_phase T (wsk st (nl + j))); intros H Hs; try exact H;
      exfalso; (try destruct H as (H & _)); rewrite H in Hs; discriminate.
  Qed.

  Lemma leaf_sent st i l :
    leaves_ok st -> nth_error (p_leaves pack) i = Some l -> sent_by st i = true ->
    nth i (fn_sent st) None = Some (Some [tk_of wa l]).
  Proof.
    intros Hl Hi Hs. destruct (Hl i l Hi) as [[_ E] | [_ E]]; [|exact E].
    unfold Fine.sent_by in Hs. rewrite E in Hs. discriminate.
  Qed.

  Lemma LS_nth i l : nth_error (p_leaves pack) i = Some l -> nth i LS None = Some [tk_of wa l].
  Proof. intro H. apply nth_error_nth. unfold LS. rewrite nth_error_map, H. reflexivity. Qed.

  (* what a rule thread receives is what the trace says *)
  Lemma recv_eq st j s si :
    rinv st -> j <= length tr -> bind_ok pack j s si ->
    sent_by st (match si with Leaf i => i | Pair i _ => nl + i end) = true ->
    sreceived nl (fn_sent st) si = received T LS (map sent_of (firstn j tr)) si.
  Proof.
    intros Hr Hj Hb Hs. destruct si as [i | i sub]; cbn [sreceived received bind_ok] in *.
    - rewrite (leaf_sent st i s (ri_leaf _ Hr) Hb Hs), (LS_nth i s Hb). reflexivity.
    - destruct Hb as (Hlt & n & Hn & _). destruct (node_tr i n Hn) as (ei & Hei & _).
      rewrite (node_ok_sent st i ei (ri_node _ Hr i ei Hei) Hs).
      assert (nth i (map sent_of (firstn j tr)) None = sent_of ei) as ->; [|reflexivity].
      apply nth_error_nth. rewrite nth_error_map, (nth_error_firstn_lt tr i j Hlt), Hei. reflexivity.
  Qed.

  Lemma rem_nth ws nd i p :
    rem_ok ws nd -> nth_error (n_targets nd) i = Some p ->
    exists r, nth_error (wst_rem T ws) i = Some r /\ fs_t r = tk_of wa p.
  Proof.
    intros (_ & rem1 & extra & -> & Hm) Hp.
    assert (nth_error (map fs_t rem1) i = Some (tk_of wa p)) as H.
    { rewrite Hm, nth_error_map, Hp. reflexivity. }
    rewrite nth_error_map in H. destruct (nth_error rem1 i) as [r|] eqn:Er; [|discriminate].
    cbn in H. injection H as H. exists r. split; [|exact H].
    rewrite nth_error_app1; [exact Er | eapply nth_error_lt; eauto].
  Qed.

  (* ---------- frames: what a step of worker k leaves alone ---------- *)

  Lemma phase_upd_other st w' k ws' k' : k' <> k -> wsk (upd_worker (set_world st w') k ws') k' = wsk st k'.
  Proof. intro H. rewrite upd_worker_other by exact H. reflexivity. Qed.

  Lemma node_ok_ext st st' j e :
    wsk st' (nl + j) = wsk st (nl + j) -> nth (nl + j) (fn_sent st') None = nth (nl + j) (fn_sent st) None ->
    node_ok st j e -> node_ok st' j e.
  Proof. unfold node_ok. intros -> ->. exact (fun H => H). Qed.

  Lemma leaves_ok_ext st st' :
    (forall i, i < nl -> wsk st' i = wsk st i) -> (forall i, i < nl -> nth i (fn_sent st') None = nth i (fn_sent st) None) ->
    leaves_ok st -> leaves_ok st'.
  Proof.
    intros Hw Hs H i l Hl. pose proof (nth_error_lt _ _ _ Hl) as Hi. fold nl in Hi.
    rewrite !phase_of_wsk, (Hw i Hi), (Hs i Hi). rewrite <- phase_of_wsk. exact (H i l Hl).
  Qed.

  (* a middle step of the thread of node j *)
  Lemma rinv_goto st j e w' ws' :
    rinv st -> nl + j < length (fn_workers st) -> nth_error tr j = Some e ->
    (forall q, ~ In q (plan_targets pack) -> fget w' q = fget wa q) ->
    steps (fn_world st) w' ->
    node_ok (upd_worker (set_world st w') (nl + j) ws') j e ->
    tgt_ok (upd_worker (set_world st w') (nl + j) ws') ->
    rinv (upd_worker (set_world st w') (nl + j) ws').
  Proof.
    intros Hr Hk Hn Hfr Hs Hno Htg. constructor.
    - exact (ri_cmd _ Hr).
    - exact (ri_res _ Hr).
    - exact Hfr.
    - cbn [Fine.upd_worker Fine.set_world fn_world]. eapply rt_trans; [exact (ri_steps _ Hr) | exact Hs].
    - apply (leaves_ok_ext st); [| |exact (ri_leaf _ Hr)].
      + intros i Hi. apply phase_upd_other. lia.
      + intros i Hi. reflexivity.
    - intros j' e' Hn'. destruct (Nat.eq_dec j' j) as [-> | Hne].
      + assert (e' = e) as -> by congruence. exact Hno.
      + apply (node_ok_ext st); [apply phase_upd_other; lia | reflexivity | exact (ri_node _ Hr j' e' Hn')].
    - exact Htg.
  Qed.

  (* the targets when the world and everybody's progress stay *)
  Lemma tgt_ok_same st st' :
    fn_world st' = fn_world st ->
    (forall j e, nth_error tr j = Some e ->
       prog (wsk st' (nl + j)) (length (n_targets (fst e))) = prog (wsk st (nl + j)) (length (n_targets (fst e)))) ->
    tgt_ok st -> tgt_ok st'.
  Proof. intros Ew Ep H j e i t Hn Ht. rewrite Ew, (Ep j e Hn). exact (H j e i t Hn Ht). Qed.

  Lemma prog_upd st w' j ws' len :
    nl + j < length (fn_workers st) -> prog ws' len = prog (wsk st (nl + j)) len ->
    forall j', prog (wsk (upd_worker (set_world st w') (nl + j) ws') (nl + j')) len = prog (wsk st (nl + j')) len.
  Proof.
    intros Hk E j'. destruct (Nat.eq_dec j' j) as [-> | Hne].
    - rewrite upd_worker_self by exact Hk. exact E.
    - rewrite phase_upd_other by lia. reflexivity.
  Qed.

  (* a middle step that neither touches the world nor puts a target back *)
  Lemma rinv_goto_same st j e ws' :
    rinv st -> nl + j < length (fn_workers st) -> nth_error tr j = Some e ->
    prog ws' (length (n_targets (fst e))) = prog (wsk st (nl + j)) (length (n_targets (fst e))) ->
    node_ok (upd_worker (set_world st (fn_world st)) (nl + j) ws') j e ->
    rinv (upd_worker (set_world st (fn_world st)) (nl + j) ws').
  Proof.
    intros Hr Hk Hn Hp Hno. apply (rinv_goto st j e); try assumption.
    - exact (ri_frame _ Hr).
    - apply rt_refl.
    - apply (tgt_ok_same st); [reflexivity | | exact (ri_tgt _ Hr)].
      intros j' e' Hn'. destruct (Nat.eq_dec j' j) as [-> | Hne].
      + assert (e' = e) as -> by congruence. rewrite upd_worker_self by exact Hk. exact Hp.
      + rewrite phase_upd_other by lia. reflexivity.
  Qed.

  Lemma own_sent_upd st w' k ws' d : nth d (fn_sent (upd_worker (set_world st w') k ws')) None = nth d (fn_sent st) None.
  Proof. reflexivity. Qed.

  (* ================================================================== *)
  (* the steps                                                            *)
  (* ================================================================== *)

  Lemma ltb_node j : Nat.ltb (nl + j) (length (p_leaves pack)) = false.
  Proof. apply Nat.ltb_ge. unfold nl. lia. Qed.

  Lemma sub_node j : nl + j - length (p_leaves pack) = j.
  Proof. unfold nl. lia. Qed.

  Ltac open_fstep H Hn Eph :=
    unfold Fine.fstep in H; cbv zeta in H; rewrite ltb_node, sub_node, Hn in H;
    let E := fresh "E" in pose proof Eph as E; unfold FineBasic.wsk in E; rewrite E in H; clear E.

  Ltac own_phase Hk :=
    unfold node_ok; cbv zeta; rewrite upd_worker_self by exact Hk;
    cbn [wst_phase wst_key wst_rem Fine.upd_worker Fine.set_world fn_sent].

  (* ---------- a leaf thread ---------- *)

  Lemma step_leaf st i l st' :
    fwf T pack st -> rinv st -> nth_error (p_leaves pack) i = Some l -> fstep pack blobs hists st i = Some st' -> rinv st'.
  Proof.
    intros Hw Hr Hl H. pose proof (nth_error_lt _ _ _ Hl) as Hi. fold nl in Hi.
    assert (i < nworkers pack) as Hin by (unfold nworkers; fold nl; lia).
    destruct (ri_leaf _ Hr i l Hl) as [[E1 E2] | [E1 E2]].
    2:{ rewrite (fstep_done T teqb hc hl _ _ _ _ _ E1) in H. discriminate. }
    unfold Fine.fstep in H. cbv zeta in H.
    assert (Nat.ltb i (length (p_leaves pack)) = true) as Eltb by (apply Nat.ltb_lt; exact Hi).
    rewrite Eltb in H. unfold Fine.phase_of in E1. rewrite E1 in H.
    pose proof (blobs_shaped_leaf T pack blobs i l Hshape Hl) as Hfst.
    assert (blob_ok (fn_world st) (nth i blobs [])) as Hb.
    { exact (blob_steps T teqb hc teqb_spec _ _ _ Hinv1 (ri_steps _ Hr) (Hblobs i)). }
    assert (In l (p_leaves pack)) as Hlin by (eapply nth_error_In; eauto).
    pose proof Hwf as (_ & Hleafnt & _).
    pose proof (ri_frame _ Hr l (Hleafnt l Hlin)) as Hfr.
    assert (exists wr, handle_leaf teqb hc (fn_world st) (nth i blobs []) = Ok wr /\ wr_tickets wr = [tk_of wa l] /\
                       wr_option wr = SourceOnly) as (wr & Ehl & Ets & Eopt).
    { destruct (nth i blobs []) as [|[p a] [|x rest]]; try discriminate. cbn in Hfst. injection Hfst as ->.
      apply InvProofs.blob_ok_cons in Hb as [Hok _].
      unfold handle_leaf. cbn [current_tickets].
      destruct (get_file_ticket teqb hc (fn_world st) l a) as [t|] eqn:Eg.
      - destruct (gft_hash T teqb hc _ _ _ _ Hok Eg) as (c & Hc & ->).
        eexists. split; [reflexivity|]. cbn [wr_tickets wr_option]. split; [|reflexivity].
        unfold C10Facts.tk_of. rewrite <- (content_at_of_fget T _ _ l Hfr), Hc. reflexivity.
      - exfalso. apply (Hleaves l Hlin). rewrite <- (content_at_of_fget T _ _ l Hfr). eapply gft_none; eauto. }
    rewrite Ehl in H. injection H as <-.
    assert (i < length (fn_sent st)) as Hls by (rewrite (fw_len_s _ _ _ Hw); exact Hin).
    assert (i < length (fn_res st)) as Hlr by (rewrite (fw_len_r _ _ _ Hw); exact Hin).
    assert (i < length (fn_workers st)) as Hlw by (rewrite (fw_len_w _ _ _ Hw); exact Hin).
    constructor; cbn [Fine.finish_worker fn_commands fn_res fn_world fn_sent].
    - rewrite (ri_cmd _ Hr). reflexivity.
    - intros k r Hk. destruct (Nat.eq_dec k i) as [-> | Hne].
      + rewrite nth_set_nth_eq in Hk by exact Hlr. injection Hk as <-. apply leaf_res_good.
        split; [reflexivity|]. exists wr. auto.
      + rewrite nth_set_nth_neq in Hk by exact Hne. exact (ri_res _ Hr k r Hk).
    - exact (ri_frame _ Hr).
    - exact (ri_steps _ Hr).
    - intros i' l' Hl'. destruct (Nat.eq_dec i' i) as [-> | Hne].
      + right. assert (l' = l) as -> by congruence. split.
        * rewrite phase_of_wsk, finish_worker_self by exact Hlw. reflexivity.
        * cbn [Fine.finish_worker fn_sent]. rewrite nth_set_nth_eq by exact Hls. rewrite Ets. reflexivity.
      + rewrite phase_of_wsk, finish_worker_other by exact Hne. cbn [Fine.finish_worker fn_sent].
        rewrite nth_set_nth_neq by exact Hne. rewrite <- phase_of_wsk. exact (ri_leaf _ Hr i' l' Hl').
    - intros j e Hn. apply (node_ok_ext st); [apply finish_worker_other; lia | | exact (ri_node _ Hr j e Hn)].
      cbn [Fine.finish_worker fn_sent]. apply nth_set_nth_neq. lia.
    - apply (tgt_ok_same st); [reflexivity | | exact (ri_tgt _ Hr)].
      intros j e _. rewrite finish_worker_other by lia. reflexivity.
  Qed.

  (* ---------- a rule thread starts ---------- *)

  Lemma step_wait st j e st' :
    fwf T pack st -> rinv st -> nth_error tr j = Some e -> wst_phase T (wsk st (nl + j)) = WWait ->
    fstep pack blobs hists st (nl + j) = Some st' -> rinv st'.
  Proof.
    intros Hw Hr Hne Eph H. pose proof (efacts_of j e Hne) as F. pose proof (ef_node _ _ F) as Hn.
    assert (nl + j < length (fn_workers st)) as Hk by (rewrite (fw_len_w _ _ _ Hw); eapply node_index_lt; eauto).
    open_fstep H Hn Eph.
    destruct (forallb (sent_by st) (deps pack (nl + j))) eqn:Ed; cbn [negb] in H; [|discriminate].
    destruct (ef_entry _ _ F) as (tickets & Eall & Hent).
    pose proof Hwf as (_ & _ & Hbind). specialize (Hbind _ _ Hn).
    fold nl in H.
    assert (all_some (map (sreceived nl (fn_sent st)) (n_source_indices (fst e))) = Some tickets) as Es.
    { rewrite <- Eall. apply all_some_ext. intros si Hsi.
      destruct (Forall2_in_r _ _ _ _ Hbind Hsi) as (s & _ & Hb).
      apply (recv_eq st j s si Hr); [apply Nat.lt_le_incl; eapply nth_error_lt; eauto | exact Hb|].
      rewrite forallb_forall in Ed. apply Ed. unfold deps. rewrite ltb_node, sub_node, Hn. fold nl.
      apply in_map_iff. exists si. auto. }
    rewrite Es in H. unfold hist_entry in Hent.
    destruct (alookup teqb (nth j hists []) (hl tickets)) as [rem|] eqn:El; injection H as <-.
    - destruct Hent as (extra0 & Hrem). apply map_eq_app in Hrem as (rem1 & extra & -> & Hrem & _).
      rewrite <- (set_world_same T st) at 1.
      apply (rinv_goto_same st j e); try assumption.
      + unfold prog. rewrite Eph. reflexivity.
      + own_phase Hk.
        pose proof (ri_node _ Hr j e Hne) as Hno. unfold node_ok in Hno. cbv zeta in Hno. rewrite Eph in Hno.
        split; [exact Hno|]. split; [reflexivity|]. split; [lia|]. split; [discriminate|].
        exists rem1, extra. split; [reflexivity|]. rewrite Hrem. exact (ef_ts _ _ F).
    - rewrite (ef_ts _ _ F) in Hent. apply map_eq_nil in Hent.
      rewrite <- (set_world_same T st) at 1.
      apply (rinv_goto_same st j e); try assumption.
      + unfold prog. rewrite Eph. reflexivity.
      + own_phase Hk.
        pose proof (ri_node _ Hr j e Hne) as Hno. unfold node_ok in Hno. cbv zeta in Hno. rewrite Eph in Hno.
        split; [exact Hno|]. split; [rewrite Hent; reflexivity | discriminate].
  Qed.

  (* ---------- it looks at target i ---------- *)

  Lemma blob_nth j e i p :
    efacts j e -> nth_error (n_targets (fst e)) i = Some p -> exists a, nth_error (nth (nl + j) blobs []) i = Some (p, a).
  Proof.
    intros F Hp. rewrite <- (ef_fst _ _ F), nth_error_map in Hp.
    destruct (nth_error (nth (nl + j) blobs []) i) as [[p' a]|]; [|discriminate]. cbn in Hp. injection Hp as <-. eauto.
  Qed.

  Lemma blob_len j e : efacts j e -> length (nth (nl + j) blobs []) = length (n_targets (fst e)).
  Proof. intro F. rewrite <- (ef_fst _ _ F), map_length. reflexivity. Qed.

  Lemma step_resolve st j e done i st' :
    fwf T pack st -> rinv st -> nth_error tr j = Some e -> wst_phase T (wsk st (nl + j)) = WResolve done i ->
    fstep pack blobs hists st (nl + j) = Some st' -> rinv st'.
  Proof.
    intros Hw Hr Hne Eph H. pose proof (efacts_of j e Hne) as F. pose proof (ef_node _ _ F) as Hn.
    assert (nl + j < length (fn_workers st)) as Hk by (rewrite (fw_len_w _ _ _ Hw); eapply node_index_lt; eauto).
    pose proof (ri_node _ Hr j e Hne) as Hno. unfold node_ok in Hno. cbv zeta in Hno. rewrite Eph in Hno.
    destruct Hno as (Hsent & Hdone & Hle & Hrem).
    open_fstep H Hn Eph. fold (wsk st (nl + j)) in H.
    destruct (nth_error (nth (nl + j) blobs []) i) as [[p a]|] eqn:Eb.
    - assert (nth_error (n_targets (fst e)) i = Some p) as Hp.
      { rewrite <- (ef_fst _ _ F), nth_error_map, Eb. reflexivity. }
      destruct (rem_nth _ _ i p Hrem Hp) as (r & Er & Hr').
      rewrite Er in H.
      destruct (ri_tgt _ Hr j e i p Hne Hp) as [_ Hpend].
      destruct Hpend as [Habs _]; [unfold prog; rewrite Eph; lia|].
      rewrite (proj2 (get_file_ticket_none T teqb hc (fn_world st) p a) Habs) in H. injection H as <-.
      apply (rinv_goto_same st j e); try assumption.
      + unfold prog. rewrite Eph. reflexivity.
      + own_phase Hk. split; [exact Hsent|]. split; [exact Hdone|]. split; [eapply nth_error_lt; eauto | exact Hrem].
    - apply nth_error_ge in Eb. rewrite (blob_len j e F) in Eb.
      assert (i = length (n_targets (fst e))) as Ei by lia.
      injection H as <-.
      apply (rinv_goto_same st j e); try assumption.
      + unfold prog. rewrite Eph. cbn [wst_phase]. lia.
      + own_phase Hk. split; [exact Hsent|]. split; [apply Hrem|]. left. rewrite <- Ei, Hdone. reflexivity.
  Qed.

  (* ---------- is the entry there? ---------- *)

  Lemma step_check st j e done i st' :
    fwf T pack st -> rinv st -> nth_error tr j = Some e -> wst_phase T (wsk st (nl + j)) = WCheck done i ->
    fstep pack blobs hists st (nl + j) = Some st' -> rinv st'.
  Proof.
    intros Hw Hr Hne Eph H. pose proof (efacts_of j e Hne) as F. pose proof (ef_node _ _ F) as Hn.
    assert (nl + j < length (fn_workers st)) as Hk by (rewrite (fw_len_w _ _ _ Hw); eapply node_index_lt; eauto).
    pose proof (ri_node _ Hr j e Hne) as Hno. unfold node_ok in Hno. cbv zeta in Hno. rewrite Eph in Hno.
    destruct Hno as (Hsent & Hdone & Hlt & Hrem).
    open_fstep H Hn Eph. fold (wsk st (nl + j)) in H.
    destruct (nth_error (n_targets (fst e)) i) as [p|] eqn:Hp; [|apply nth_error_ge in Hp; lia].
    destruct (rem_nth _ _ i p Hrem Hp) as (r & Er & Hr'). rewrite Er in H.
    destruct (ri_tgt _ Hr j e i p Hne Hp) as [_ Hpend].
    destruct Hpend as [Habs (c & f & Hc & Hf & Hcf)]; [unfold prog; rewrite Eph; lia|].
    rewrite Hc, Hr', (tk_of_fget T hc wa p f Hf), Hcf in H. injection H as <-.
    apply (rinv_goto_same st j e); try assumption.
    - unfold prog. rewrite Eph. reflexivity.
    - own_phase Hk. auto.
  Qed.

  (* ---------- the rename: the very file comes back, nobody else's entry goes ---------- *)

  Lemma fget_restored (w : world) p f c h q :
    fget (set_cache (set_files w (ainsert bytes_eqb (w_files w) p f)) (aremove teqb c h)) q =
    if bytes_eqb q p then Some f else fget w q.
  Proof.
    unfold fget. cbn. destruct (bytes_eqb q p) eqn:E.
    - apply bytes_eqb_eq in E. subst q. apply (BuildFacts.alookup_ainsert_eq bytes_eqb bytes_eqb_eq).
    - apply (BuildFacts.alookup_ainsert_neq bytes_eqb bytes_eqb_eq). intro X.
      assert (bytes_eqb q p = true) as Y by (apply bytes_eqb_eq; congruence). congruence.
  Qed.

  Lemma tgt_ok_restore st j e i p f c ws' :
    tgt_ok st -> nl + j < length (fn_workers st) -> nth_error tr j = Some e ->
    nth_error (n_targets (fst e)) i = Some p ->
    prog (wsk st (nl + j)) (length (n_targets (fst e))) = i ->
    prog ws' (length (n_targets (fst e))) = S i ->
    cache_of (fn_world st) = Some c -> fget wa p = Some f ->
    tgt_ok (upd_worker (set_world st (set_cache (set_files (fn_world st) (ainsert bytes_eqb (w_files (fn_world st)) p f))
                                                 (aremove teqb c (hc (f_content f)))))
                       (nl + j) ws').
  Proof.
    intros Htg Hk Hne Hp Hprog Hprog' Hc Hf j' e' i' t Hne' Ht.
    pose proof (efacts_of j e Hne) as F. pose proof (efacts_of j' e' Hne') as F'.
    cbn [Fine.upd_worker Fine.set_world fn_world]. rewrite fget_restored.
    destruct (Htg j' e' i' t Hne' Ht) as [Hdone Hpend].
    pose proof Hwf as (Hnd & _).
    destruct (bytes_eqb t p) eqn:Etp.
    - apply bytes_eqb_eq in Etp. subst t.
      destruct (flat_pos_unique n_targets (p_nodes pack) Hnd j' j (fst e') (fst e) i' i p
                  (ef_node _ _ F') Ht (ef_node _ _ F) Hp) as [-> ->].
      assert (e' = e) as -> by congruence.
      rewrite upd_worker_self by exact Hk. rewrite Hprog'. split; [intros _; symmetry; exact Hf | lia].
    - assert (t <> p) as Hneq.
      { intro X. assert (bytes_eqb t p = true) as Y by (apply bytes_eqb_eq; exact X). congruence. }
      assert ((i' < prog (wsk (upd_worker (set_world st (set_cache (set_files (fn_world st) (ainsert bytes_eqb (w_files (fn_world st)) p f)) (aremove teqb c (hc (f_content f))))) (nl + j) ws') (nl + j')) (length (n_targets (fst e'))) ->
               i' < prog (wsk st (nl + j')) (length (n_targets (fst e')))) /\
              (prog (wsk (upd_worker (set_world st (set_cache (set_files (fn_world st) (ainsert bytes_eqb (w_files (fn_world st)) p f)) (aremove teqb c (hc (f_content f))))) (nl + j) ws') (nl + j')) (length (n_targets (fst e'))) <= i' ->
               prog (wsk st (nl + j')) (length (n_targets (fst e'))) <= i')) as [P1 P2].
      { destruct (Nat.eq_dec j' j) as [-> | Hj].
        - assert (e' = e) as -> by congruence. rewrite upd_worker_self by exact Hk. rewrite Hprog', Hprog.
          assert (i' <> i) by (intros ->; congruence). split; lia.
        - rewrite phase_upd_other by lia. split; auto. }
      split; [intro X; apply Hdone; apply P1; exact X|].
      intro X. destruct (Hpend (P2 X)) as [Habs (c0 & g & Hc0 & Hg & Hcg)]. split; [exact Habs|].
      assert (c0 = c) as -> by congruence.
      exists (aremove teqb c (hc (f_content f))), g. split; [reflexivity|]. split; [exact Hg|].
      rewrite (BuildFacts.alookup_aremove_neq teqb teqb_spec); [exact Hcg|].
      intro E. apply hc_inj in E. apply Hneq.
      apply (Hdist t p g f); auto.
      + apply (ef_in _ _ F'). eapply nth_error_In; eauto.
      + apply (ef_in _ _ F). eapply nth_error_In; eauto.
  Qed.

  Lemma step_rename st j e done i st' :
    fwf T pack st -> rinv st -> nth_error tr j = Some e -> wst_phase T (wsk st (nl + j)) = WRename done i ->
    fstep pack blobs hists st (nl + j) = Some st' -> rinv st'.
  Proof.
    intros Hw Hr Hne Eph H. pose proof (efacts_of j e Hne) as F. pose proof (ef_node _ _ F) as Hn.
    assert (nl + j < length (fn_workers st)) as Hk by (rewrite (fw_len_w _ _ _ Hw); eapply node_index_lt; eauto).
    pose proof (ri_node _ Hr j e Hne) as Hno. unfold node_ok in Hno. cbv zeta in Hno. rewrite Eph in Hno.
    destruct Hno as (Hsent & Hdone & Hlt & Hrem).
    open_fstep H Hn Eph. fold (wsk st (nl + j)) in H.
    destruct (nth_error (n_targets (fst e)) i) as [p|] eqn:Hp; [|apply nth_error_ge in Hp; lia].
    destruct (blob_nth j e i p F Hp) as (a & Eb). rewrite Eb in H.
    destruct (rem_nth _ _ i p Hrem Hp) as (r & Er & Hr'). rewrite Er in H.
    destruct (ri_tgt _ Hr j e i p Hne Hp) as [_ Hpend].
    destruct Hpend as [Habs (c & f & Hc & Hf & Hcf)]; [unfold prog; rewrite Eph; lia|].
    rewrite Hr', (tk_of_fget T hc wa p f Hf) in H.
    assert (restore teqb (fn_world st) (hc (f_content f)) p =
            RDone (set_cache (set_files (fn_world st) (ainsert bytes_eqb (w_files (fn_world st)) p f))
                             (aremove teqb c (hc (f_content f))))) as Ers.
    { unfold restore. rewrite Hc, Hcf. reflexivity. }
    rewrite Ers in H. injection H as <-.
    apply (rinv_goto st j e); try assumption.
    - intros q Hq. rewrite fget_restored.
      destruct (bytes_eqb q p) eqn:E; [|exact (ri_frame _ Hr q Hq)].
      exfalso. apply bytes_eqb_eq in E. subst q. apply Hq. apply (ef_in _ _ F). eapply nth_error_In; eauto.
    - eapply InvProofs.restore_steps; eauto.
    - own_phase Hk. split; [exact Hsent|]. split; [rewrite Hdone; symmetry; apply repeat_snoc|]. split; [lia | exact Hrem].
    - apply (tgt_ok_restore st j e i p f c); try assumption; try exact (ri_tgt _ Hr).
      + unfold prog. rewrite Eph. reflexivity.
      + reflexivity.
  Qed.

  (* ---------- a rule without targets and without a history entry ---------- *)

  Lemma step_fresh st j e i st' :
    fwf T pack st -> rinv st -> nth_error tr j = Some e -> wst_phase T (wsk st (nl + j)) = WFresh i ->
    fstep pack blobs hists st (nl + j) = Some st' -> rinv st'.
  Proof.
    intros Hw Hr Hne Eph H. pose proof (efacts_of j e Hne) as F. pose proof (ef_node _ _ F) as Hn.
    assert (nl + j < length (fn_workers st)) as Hk by (rewrite (fw_len_w _ _ _ Hw); eapply node_index_lt; eauto).
    pose proof (ri_node _ Hr j e Hne) as Hno. unfold node_ok in Hno. cbv zeta in Hno. rewrite Eph in Hno.
    destruct Hno as (Hsent & Hlen & Hkey).
    open_fstep H Hn Eph. fold (wsk st (nl + j)) in H.
    destruct (nth_error (nth (nl + j) blobs []) i) as [[p a]|] eqn:Eb.
    { exfalso. apply nth_error_lt in Eb. rewrite (blob_len j e F) in Eb. lia. }
    injection H as <-.
    apply (rinv_goto_same st j e); try assumption.
    - unfold prog. rewrite Eph. cbn [wst_phase]. lia.
    - own_phase Hk. split; [exact Hsent|]. split; [exact Hkey|]. right. auto.
  Qed.

  (* ---------- the end of a rule thread: no command ---------- *)

  Lemma rinv_finish st j e wr :
    fwf T pack st -> rinv st -> nth_error tr j = Some e ->
    prog (wsk st (nl + j)) (length (n_targets (fst e))) = length (n_targets (fst e)) ->
    wr_tickets wr = wr_tickets (snd e) -> all_recovered T wr ->
    rinv (finish_worker st (nl + j) (fn_world st) (Some (wr_tickets wr)) (Some (n_rule (fst e)), TOk wr) []).
  Proof.
    intros Hw Hr Hne Hprog Ets Hrec. pose proof (efacts_of j e Hne) as F. pose proof (ef_node _ _ F) as Hn.
    pose proof (node_index_lt j _ Hn) as Hin.
    assert (nl + j < length (fn_sent st)) as Hls by (rewrite (fw_len_s _ _ _ Hw); exact Hin).
    assert (nl + j < length (fn_res st)) as Hlr by (rewrite (fw_len_r _ _ _ Hw); exact Hin).
    assert (nl + j < length (fn_workers st)) as Hlw by (rewrite (fw_len_w _ _ _ Hw); exact Hin).
    constructor; cbn [Fine.finish_worker fn_commands fn_res fn_world fn_sent].
    - rewrite (ri_cmd _ Hr). reflexivity.
    - intros k r Hk. destruct (Nat.eq_dec k (nl + j)) as [-> | Hne'].
      + rewrite nth_set_nth_eq in Hk by exact Hlr. injection Hk as <-. exists wr. auto.
      + rewrite nth_set_nth_neq in Hk by exact Hne'. exact (ri_res _ Hr k r Hk).
    - exact (ri_frame _ Hr).
    - exact (ri_steps _ Hr).
    - apply (leaves_ok_ext st); [| |exact (ri_leaf _ Hr)].
      + intros i Hi. apply finish_worker_other. lia.
      + intros i Hi. cbn [Fine.finish_worker fn_sent]. apply nth_set_nth_neq. lia.
    - intros j' e' Hne'. destruct (Nat.eq_dec j' j) as [-> | Hj].
      + assert (e' = e) as -> by congruence. unfold node_ok. cbv zeta.
        rewrite finish_worker_self by exact Hlw. cbn [wst_phase Fine.finish_worker fn_sent].
        rewrite nth_set_nth_eq by exact Hls. unfold C10Facts.sent_of. rewrite Ets. reflexivity.
      + apply (node_ok_ext st); [apply finish_worker_other; lia | | exact (ri_node _ Hr j' e' Hne')].
        cbn [Fine.finish_worker fn_sent]. apply nth_set_nth_neq. lia.
    - intros j' e' i t Hne' Ht. cbn [Fine.finish_worker fn_world].
      destruct (Nat.eq_dec j' j) as [-> | Hj].
      + assert (e' = e) as -> by congruence. rewrite finish_worker_self by exact Hlw.
        unfold prog at 1 2. cbn [wst_phase]. rewrite <- Hprog. exact (ri_tgt _ Hr j e i t Hne Ht).
      + rewrite finish_worker_other by lia. exact (ri_tgt _ Hr j' e' i t Hne' Ht).
  Qed.

  Lemma step_finish st j e ro st' :
    fwf T pack st -> rinv st -> nth_error tr j = Some e -> wst_phase T (wsk st (nl + j)) = WFinish ro ->
    fstep pack blobs hists st (nl + j) = Some st' -> rinv st'.
  Proof.
    intros Hw Hr Hne Eph H. pose proof (efacts_of j e Hne) as F. pose proof (ef_node _ _ F) as Hn.
    pose proof (ri_node _ Hr j e Hne) as Hno. unfold node_ok in Hno. cbv zeta in Hno. rewrite Eph in Hno.
    destruct Hno as (Hsent & Hkey & Hro).
    open_fstep H Hn Eph. fold (wsk st (nl + j)) in H.
    destruct (wst_key T (wsk st (nl + j))) as [key|] eqn:Ekey; [|contradiction].
    set (b := nth (nl + j) blobs []) in *.
    assert (match ro with Some r => r | None => map (fun _ => NeedsRebuild) b end = map (fun _ => Recovered) b) as Eress.
    { destruct Hro as [-> | [-> Hlen]].
      - rewrite map_const_repeat. unfold b. rewrite (blob_len j e F). reflexivity.
      - pose proof (blob_len j e F) as Hbl. fold b in Hbl. rewrite Hlen in Hbl.
        destruct b; [reflexivity | discriminate]. }
    rewrite Eress in H.
    assert (prog (wsk st (nl + j)) (length (n_targets (fst e))) = length (n_targets (fst e))) as Hprog.
    { unfold prog. rewrite Eph. reflexivity. }
    assert (forall p, In p (map fst b) -> fget (fn_world st) p = fget wa p /\ fget wa p <> None) as Hall.
    { intros p Hp. unfold b in Hp. rewrite (ef_fst _ _ F) in Hp. split; [|apply (ef_ex _ _ F); exact Hp].
      destruct (In_nth_error _ _ Hp) as (i & Hi).
      destruct (ri_tgt _ Hr j e i p Hne Hi) as [Hdone _]. apply Hdone. rewrite Hprog. eapply nth_error_lt; eauto. }
    unfold Fine.rule_tail in H. cbv zeta in H.
    rewrite needs_rebuild_recovered, (current_tickets_recovered T teqb hc teqb_spec wa b (fn_world st) Hall) in H.
    injection H as <-. cbn [wr_tickets].
    match goal with |- rinv (finish_worker _ _ _ (Some ?ts) (_, TOk ?wr) _) => change ts with (wr_tickets wr) end.
    apply (rinv_finish st j e); try assumption.
    - cbn [wr_tickets]. unfold b. rewrite (ef_fst _ _ F). symmetry. exact (ef_ts _ _ F).
    - apply status_recovered.
  Qed.

  (* ================================================================== *)
  (* every step, every run                                                *)
  (* ================================================================== *)

  Theorem rinv_step st k st' : fwf T pack st -> rinv st -> fstep pack blobs hists st k = Some st' -> rinv st'.
  Proof.
    intros Hw Hr H. pose proof (fstep_cases T teqb hc hl _ _ _ _ _ _ H) as (Hk & Hnd & _).
    rewrite (fw_len_w _ _ _ Hw) in Hk.
    destruct (Nat.lt_ge_cases k nl) as [Hlt | Hge].
    - destruct (nth_error (p_leaves pack) k) as [l|] eqn:El; [|apply nth_error_None in El; fold nl in El; lia].
      eapply step_leaf; eauto.
    - set (j := k - nl). assert (k = nl + j) as Ek by lia.
      destruct (nth_error (p_nodes pack) j) as [nd|] eqn:En;
        [|apply nth_error_None in En; unfold nworkers in Hk; fold nl in Hk; lia].
      destruct (node_tr j nd En) as (e & Hne & _).
      rewrite Ek in H, Hnd. rewrite phase_of_wsk in Hnd.
      destruct (wst_phase T (wsk st (nl + j))) as [|done i|done i|done i|i|ro|] eqn:Eph.
      + eapply step_wait; eauto.
      + eapply step_resolve; eauto.
      + eapply step_check; eauto.
      + eapply step_rename; eauto.
      + eapply step_fresh; eauto.
      + eapply step_finish; eauto.
      + contradiction.
  Qed.

  Theorem rinv_run ch : rinv (frun pack blobs hists ch (fn_init T w1 pack)) /\ fwf T pack (frun pack blobs hists ch (fn_init T w1 pack)).
  Proof.
    apply (frun_ind T teqb hc hl (fun st => rinv st /\ fwf T pack st)).
    - intros st k st' [Hr Hw] H. split; [eapply rinv_step; eauto | eapply fstep_fwf; eauto].
    - split; [exact rinv_init | apply fwf_init].
  Qed.

  Lemma results_good (l : list (option (option rule * thread_result T))) :
    (forall k r, nth k l None = Some r -> res_good r) -> Forall res_good (flat_map unopt l).
  Proof.
    intro H. apply Forall_forall. intros r Hr. apply in_flat_map in Hr as (o & Ho & Hr).
    destruct o as [r'|]; [|destruct Hr]. destruct Hr as [<- | []].
    destruct (In_nth _ _ None Ho) as (k & _ & Ek). exact (H k r' Ek).
  Qed.

  (* what a complete run leaves *)
  Theorem fine_restore_final ch :
    all_done (frun pack blobs hists ch (fn_init T w1 pack)) = true ->
    fn_commands (frun pack blobs hists ch (fn_init T w1 pack)) = [] /\
    Forall res_good (flat_map unopt (fn_res (frun pack blobs hists ch (fn_init T w1 pack)))) /\
    (forall t, In t (plan_targets pack) -> fget (fn_world (frun pack blobs hists ch (fn_init T w1 pack))) t = fget wa t) /\
    (forall q, ~ In q (plan_targets pack) -> fget (fn_world (frun pack blobs hists ch (fn_init T w1 pack))) q = fget wa q).
  Proof.
    intro Hd. destruct (rinv_run ch) as [Hr Hw]. set (st := frun pack blobs hists ch (fn_init T w1 pack)) in *.
    split; [exact (ri_cmd _ Hr)|]. split; [apply results_good; exact (ri_res _ Hr)|]. split; [|exact (ri_frame _ Hr)].
    intros t Ht. unfold plan_targets in Ht. apply in_flat_map in Ht as (nd & Hnd & Ht).
    destruct (In_nth_error _ _ Hnd) as (j & Hj). destruct (In_nth_error _ _ Ht) as (i & Hi).
    destruct (node_tr j nd Hj) as (e & Hne & <-).
    destruct (ri_tgt _ Hr j e i t Hne Hi) as [Hdone _]. apply Hdone.
    unfold prog. pose proof (all_done_phase T st (nl + j) Hd) as Eph. rewrite phase_of_wsk in Eph. rewrite Eph.
    eapply nth_error_lt; eauto.
  Qed.
End FineRestore.

(* ================================================================== *)
(* build_fine after a clean                                             *)
(* ================================================================== *)

Lemma all_some_map_some {A B} (f : A -> option B) (g : A -> B) (l : list A) :
  (forall x, In x l -> f x = Some (g x)) -> all_some (map f l) = Some (map g l).
Proof.
  induction l as [|x l IH]; intro H; cbn [map all_some]; [reflexivity|].
  rewrite (H x (or_introl eq_refl)), IH; [reflexivity|]. intros y Hy. apply H. right. exact Hy.
Qed.

Section FineRestoreBuild.
  Variable T : Type.
  Variable teqb : T -> T -> bool.
  Variable hc : bytes -> T.
  Variable hl : list T -> T.
  Variable hr : rule -> T.
  Hypothesis teqb_spec : forall a b, teqb a b = true <-> a = b.
  Hypothesis hc_inj : forall a b, hc a = hc b -> a = b.

  Notation world := (world T).
  Notation disk_inv := (disk_inv teqb hc).
  Notation tk_of := (tk_of T hc).
  Notation trace_ok := (trace_ok T teqb hl).
  Notation entry_hashes := (entry_hashes T hc).
  Notation entry_hist := (entry_hist T teqb hr).
  Notation cache_has := (cache_has T teqb hc).
  Notation build_fine := (build_fine teqb hc hl hr).
  Notation complete_run := (complete_run T teqb hc hl hr).

  Definition hist_given (e : tentry T) : history T := match wr_history (snd e) with Some h => h | None => [] end.

  (* the counterpart of C10Restore.restore_build for every complete interleaving *)
  Theorem fine_restore_build (wa wb : world) rp goal pack tr tbl ch :
    disk_inv wb -> rd_table (w_rd wb) = Some (SF_ok tbl) ->
    get_nodes T wb rp goal = Ok pack -> plan_wf pack ->
    map fst tr = p_nodes pack ->
    (forall t, In t (plan_targets pack) -> fget wb t = None) ->
    (forall q, ~ In q (plan_targets pack) -> fget wb q = fget wa q) ->
    cache_has wb (fget wa) (plan_targets pack) -> distinct_on (fget wa) (plan_targets pack) ->
    (forall l, In l (p_leaves pack) -> content_at wa l <> None) ->
    trace_ok (map (fun l => Some [tk_of wa l]) (p_leaves pack)) [] tr ->
    Forall (entry_hashes wa) tr -> Forall (entry_hist wb) tr ->
    complete_run ch wb rp goal ->
    o_verdict (build_fine ch wb rp goal) = VOk /\ o_commands (build_fine ch wb rp goal) = [] /\
    (forall t, In t (plan_targets pack) -> fget (o_world (build_fine ch wb rp goal)) t = fget wa t) /\
    (forall p, ~ In p (plan_targets pack) -> fget (o_world (build_fine ch wb rp goal)) p = fget wa p) /\
    Forall (fun s : banner * bytes => fst s = BRecovered) (o_status (build_fine ch wb rp goal)).
  Proof.
    intros Hinv Htbl Hg Hwf Htrd Habs Hout Hch Hdist Hleaves Htok Hhash Hhist Hcomp.
    destruct (init_dir T wb) as [[wb1 tbl1]|f] eqn:Hi.
    2:{ unfold init_dir in Hi. rewrite Htbl in Hi. discriminate. }
    destruct (init_dir_ok T teqb _ _ _ Hi) as (Hfiles & Hhat & _ & _).
    assert (forall p, fget wb1 p = fget wb p) as Hf1 by (intro p; apply files_fget; exact Hfiles).
    assert (get_nodes T wb1 rp goal = Ok pack) as Hg1 by (rewrite (get_nodes_ext T wb wb1); [exact Hg | apply Hf1]).
    (* the histories main reads *)
    assert (forall e, In e tr -> exists h', wr_history (snd e) = Some h') as Hsome.
    { intros e He. destruct (In_nth_error _ _ He) as (j & Hj).
      destruct (trace_ok_nth T teqb hl _ tr [] j e Htok Hj) as (_ & h' & _ & Hh' & _). eauto. }
    assert (read_histories T teqb hr wb1 (p_nodes pack) = Some (map hist_given tr)) as Hh.
    { unfold read_histories. rewrite <- Htrd, map_map. apply all_some_map_some. intros e He.
      destruct (Hsome e He) as (h' & Hh'). rewrite Forall_forall in Hhist.
      rewrite (read_history_hist_at T teqb hr), Hhat, (Hhist e He h' Hh'). unfold hist_given. rewrite Hh'. reflexivity. }
    destruct (take_blobs T hc tbl1 (worker_paths pack)) as [blobs t'] eqn:Htb.
    apply (complete_run_eq T teqb hc hl hr _ _ _ _ _ _ _ _ _ _ Hi Hg1 Hh Htb) in Hcomp.
    rewrite (build_fine_eq T teqb hc hl hr _ _ _ _ _ _ _ _ _ _ Hi Hg1 Hh Htb).
    set (w1t := write_table T wb1 t') in *.
    pose proof (setup_inv1 T teqb hc teqb_spec wb wb1 tbl1 Hinv Hi) as Hinv1.
    pose proof (fs_steps T teqb hc teqb_spec wb wb1 tbl1 pack blobs t' Hinv Hi Htb) as Hst. fold w1t in Hst.
    assert (forall p, fget w1t p = fget wb p) as Hft by (intro p; rewrite <- Hf1; reflexivity).
    destruct (fine_restore_final T teqb hc hl teqb_spec hc_inj wa w1t pack blobs (map hist_given tr) tr) with (ch := ch)
      as (Hcmd & Hgood & Htg & Hfr).
    - exact (inv_steps T teqb hc teqb_spec _ _ Hinv1 Hst).
    - exact Hwf.
    - exact (setup_shape T hc tbl1 pack blobs t' Htb).
    - intro k. apply (blob_steps T teqb hc teqb_spec wb1 w1t _ Hinv1 Hst).
      exact (setup_blobs T teqb hc teqb_spec wb wb1 tbl1 pack blobs t' Hinv Hi Htb k).
    - exact Htrd.
    - exact Hleaves.
    - exact Htok.
    - exact Hhash.
    - intros j e h' Hj Hh'. apply nth_error_nth. rewrite nth_error_map.
      unfold tentry in *. rewrite Hj. cbn. unfold hist_given. rewrite Hh'. reflexivity.
    - exact Hdist.
    - intros t Ht. rewrite Hft. apply Habs. exact Ht.
    - intros q Hq. rewrite Hft. apply Hout. exact Hq.
    - apply (init_dir_cache_has T teqb hc _ _ _ _ _ Hi) in Hch. destruct Hch as (c & Hc & Hcf).
      exists c. split; [exact Hc | exact Hcf].
    - exact Hcomp.
    - set (st := frun teqb hc hl pack blobs (map hist_given tr) ch (fn_init T w1t pack)) in *.
      unfold outcome_of. cbv zeta. cbn [o_verdict o_commands o_world o_status]. unfold joined_ord.
      cbn [fproj ss_res ss_world ss_commands].
      destruct (join_all_good T teqb hr (flat_map unopt (fn_res st)) (mk_js T (fn_world st) t' [] []) Hgood) as [Hje Hjs].
      cbn [js_errors] in Hje. rewrite Hje.
      assert (forall p, fget (write_table T (js_world T (fold_left (join_one T teqb hr) (flat_map unopt (fn_res st))
                                                                 (mk_js T (fn_world st) t' [] [])))
                                          (js_table T (fold_left (join_one T teqb hr) (flat_map unopt (fn_res st))
                                                                 (mk_js T (fn_world st) t' [] [])))) p =
                         fget (fn_world st) p) as HfW.
      { intro p. apply files_fget. cbn. rewrite BuildFacts.join_all_files. reflexivity. }
      split; [reflexivity|]. split; [exact Hcmd|]. split; [|split].
      + intros t Ht. rewrite HfW. apply Htg. exact Ht.
      + intros p Hp. rewrite HfW. apply Hfr. exact Hp.
      + rewrite join_all_status. cbn [js_status app]. exact Hjs.
  Qed.
End FineRestoreBuild.
