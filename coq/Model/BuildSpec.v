(* Vocabulary for stating the build-level properties about Model/Build.v. *)
From Ruler Require Export Bytes AList RuleSyntax TopoSort World Cmdlang Work Build Ops.

(* the one path a script line may create, change or delete (None: the line writes nothing) *)
Definition line_writes (line : bytes) : option bytes :=
  match tokens line with
  | op :: arg :: _ =>
      if bytes_eqb op [103; 101; 110] (* gen *) then Some arg
      else if bytes_eqb op [99; 104; 109; 111; 100] (* chmod *) then Some arg
      else if bytes_eqb op [114; 109] (* rm *) then Some arg
      else None
  | _ => None
  end.

(* a command that writes nothing but its own rule's targets (C09's "apart from what the user's
   commands do" made precise for the mini-language; DET's "writes only its targets") *)
Definition confined (targets : list bytes) (script : list bytes) : Prop :=
  forall line p, In line script -> line_writes line = Some p -> In p targets.

Definition node_confined (n : node) : Prop := confined (n_targets n) (script_lines (n_command n)).

Definition plan_targets (pack : node_pack) : list bytes := flat_map n_targets (p_nodes pack).
