(* The two state files as ruler reads them: decode, then build the HashMap by successive inserts
   (later duplicate wins). canon_map is that finite map as a key-sorted association list. *)
From Coq Require Import String.
From Ruler Require Export Bytes Bincode Show.

Fixpoint insert_sorted {V} (k : bytes) (v : V) (l : list (bytes * V)) : list (bytes * V) :=
  match l with
  | [] => [(k, v)]
  | (k', v') :: r =>
      match bytes_compare k k' with
      | Lt => (k, v) :: l
      | Eq => (k, v) :: r
      | Gt => (k', v') :: insert_sorted k v r
      end
  end.

Definition canon_map {V} (l : list (bytes * V)) : list (bytes * V) :=
  fold_left (fun acc e => insert_sorted (fst e) (snd e) acc) l [].

Fixpoint lookup_sorted {V} (k : bytes) (l : list (bytes * V)) : option V :=
  match l with
  | [] => None
  | (k', v') :: r => if bytes_eqb k k' then Some v' else lookup_sorted k r
  end.

Definition show_file_state (s : file_state) : bytes :=
  paren [show_bytes (fs_ticket s); show_N (fs_time s); show_bool (fs_exec s)].

Definition show_history (l : list history_entry) : bytes :=
  show_list (fun e => paren [show_bytes (fst e); show_list show_file_state (snd e)]) (canon_map l).

Definition show_table (l : list table_entry) : bytes :=
  show_list (fun e => paren [show_bytes (fst e); show_file_state (snd e)]) (canon_map l).

Definition show_de_history (b : bytes) : bytes :=
  match de_history b with
  | Some l => paren [lit "ok"; show_history l]
  | None => lit "(err)"
  end.

Definition show_de_table (b : bytes) : bytes :=
  match de_table b with
  | Some l => paren [lit "ok"; show_table l]
  | None => lit "(err)"
  end.
