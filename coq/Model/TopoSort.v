(* Model of sort.rs, construct by construct: rules_to_frame_buffer, the iterative depth-first
   TopologicalSortMachine (frame buffer with take(), explicit stack, indices_in_stack, reverser,
   final_index) and get_result. *)
From Ruler Require Export Bytes SortList RuleSyntax.

Inductive sort_err :=
| TargetMissing (t : bytes)
| SelfDependentRule (t : bytes)
| CircularDependence (cycle : list bytes)
| TargetInMultipleRules (t : bytes)
| SortOutOfFuel.     (* model artefact; excluded by Proofs/TopoSortFacts.v *)

Inductive source_index :=
| Leaf (i : nat)
| Pair (node sub : nat).

Record node := mk_node {
  n_targets : list bytes;
  n_source_indices : list source_index;
  n_command : list bytes;
  n_rule : rule            (* the sorted rule the node came from; rule_ticket = its identity *)
}.

Record node_pack := mk_pack { p_leaves : list bytes; p_nodes : list node }.

Record frame := mk_frame {
  fr_rule : rule;          (* targets and sources already sorted *)
  fr_index : nat;
  fr_sub : nat;
  fr_visited : bool
}.

Definition set_sub (f : frame) (s : nat) : frame := mk_frame (fr_rule f) (fr_index f) s (fr_visited f).
Definition visit (f : frame) : frame := mk_frame (fr_rule f) (fr_index f) (fr_sub f) true.

(* to_buffer_index : target -> (buffer index, sub index) *)
Definition tbi := list (bytes * (nat * nat)).

Fixpoint tbi_get (m : tbi) (k : bytes) : option (nat * nat) :=
  match m with
  | [] => None
  | (k', v) :: r => if bytes_eqb k k' then Some v else tbi_get r k
  end.

Fixpoint add_targets (m : tbi) (bi : nat) (sub : nat) (ts : list bytes) : result tbi sort_err :=
  match ts with
  | [] => Ok m
  | t :: r =>
      match tbi_get m t with
      | Some _ => Err (TargetInMultipleRules t)
      | None => add_targets ((t, (bi, sub)) :: m) bi (S sub) r
      end
  end.

Fixpoint frames_of (m : tbi) (bi : nat) (rs : list rule) (acc : list (option frame))
  : result (list (option frame) * tbi) sort_err :=
  match rs with
  | [] => Ok (rev acc, m)
  | r :: rest =>
      let r' := canon_rule r in
      match add_targets m bi O (r_targets r') with
      | Err e => Err e
      | Ok m' => frames_of m' (S bi) rest (Some (mk_frame r' bi O false) :: acc)
      end
  end.

Definition rules_to_frame_buffer (rules : list rule) : result (list (option frame) * tbi) sort_err :=
  frames_of [] O (sort_rules rules) [].

Record machine := mk_machine {
  m_buffer : list (option frame);
  m_final : list (nat * nat);      (* buffer index -> final index (assignments, latest first) *)
  m_leaves : list bytes;           (* the BTreeSet, kept sorted and duplicate-free *)
  m_order : list frame;            (* frames_in_order, most recent first *)
  m_tbi : tbi
}.

Fixpoint take_at {A} (l : list (option A)) (i : nat) : option A * list (option A) :=
  match l, i with
  | [], _ => (None, [])
  | x :: r, O => (x, None :: r)
  | x :: r, S j => let (y, r') := take_at r j in (y, x :: r')
  end.

Fixpoint set_insert (x : bytes) (l : list bytes) : list bytes :=
  match l with
  | [] => [x]
  | y :: r => match bytes_compare x y with
              | Lt => x :: l
              | Eq => l
              | Gt => y :: set_insert x r
              end
  end.

Definition nat_mem (x : nat) (l : list nat) : bool := existsb (Nat.eqb x) l.
Definition nat_remove (x : nat) (l : list nat) : list nat := filter (fun y => negb (Nat.eqb x y)) l.

Definition target_at (f : frame) (sub : nat) : bytes := nth sub (r_targets (fr_rule f)) [].

(* stack.iter().position(|f| f.index == bi && !f.visited) followed by stack.remove(position):
   the stack is kept top first here, the code scans bottom first; a frame index occurs at most once
   in the stack, so the direction of the scan is not observable *)
Fixpoint remove_pending (bi : nat) (stack : list frame) : option (frame * list frame) :=
  match stack with
  | [] => None
  | f :: r =>
      if Nat.eqb (fr_index f) bi && negb (fr_visited f) then Some (f, r)
      else match remove_pending bi r with
           | Some (g, r') => Some (g, f :: r')
           | None => None
           end
  end.

(* the `for source in frame.sources` loop of an unvisited frame.
   stack is the stack *without* the frame being expanded, top first. A source whose frame is an
   unvisited (pending) frame lower in the stack is moved into the reverser; only a visited frame in
   the stack (an ancestor of the current frame) is a cycle. *)
Fixpoint expand_sources (cur : frame) (stack : list frame) (in_stack : list nat)
         (srcs : list bytes) (m : machine) (reverser : list frame)
  : result (machine * list frame * list frame * list nat) sort_err :=
  match srcs with
  | [] => Ok (m, reverser, stack, in_stack)
  | s :: rest =>
      match tbi_get (m_tbi m) s with
      | None =>
          expand_sources cur stack in_stack rest
            (mk_machine (m_buffer m) (m_final m) (set_insert s (m_leaves m)) (m_order m) (m_tbi m)) reverser
      | Some (bi, si) =>
          match take_at (m_buffer m) bi with
          | (Some f, buf') =>
              expand_sources cur stack in_stack rest
                (mk_machine buf' (m_final m) (m_leaves m) (m_order m) (m_tbi m))
                (reverser ++ [set_sub f si])
          | (None, _) =>
              if Nat.eqb (fr_index cur) bi then Err (SelfDependentRule (target_at cur si))
              else if nat_mem bi in_stack then
                match remove_pending bi stack with
                | Some (f, stack') =>
                    expand_sources cur stack' (nat_remove bi in_stack) rest m (reverser ++ [set_sub f si])
                | None =>
                    Err (CircularDependence
                           (map (fun f => target_at f (fr_sub f)) (rev stack) ++ [target_at cur (fr_sub cur)]))
                end
              else expand_sources cur stack in_stack rest m reverser
          end
      end
  end.

(* while let Some(frame) = stack.pop() *)
Fixpoint dfs_loop (fuel : nat) (m : machine) (stack : list frame) (in_stack : list nat)
  : result machine sort_err :=
  match stack with
  | [] => Ok m
  | cur :: stack' =>
      match fuel with
      | O => Err SortOutOfFuel
      | S f =>
          let in_stack' := nat_remove (fr_index cur) in_stack in
          if fr_visited cur then
            dfs_loop f
              (mk_machine (m_buffer m) ((fr_index cur, length (m_order m)) :: m_final m)
                          (m_leaves m) (cur :: m_order m) (m_tbi m))
              stack' in_stack'
          else
            match expand_sources cur stack' in_stack' (r_sources (fr_rule cur)) m [] with
            | Err e => Err e
            | Ok (m', reverser, stack'', in_stack'') =>
                (* push the visited frame, then pop the reverser onto the stack: the frame of the
                   first source ends on top *)
                dfs_loop f m' (reverser ++ visit cur :: stack'')
                         (map fr_index reverser ++ fr_index cur :: in_stack'')
            end
      end
  end.

Definition sort_once (m : machine) (index sub : nat) : result machine sort_err :=
  match take_at (m_buffer m) index with
  | (None, _) => Ok m
  | (Some f, buf') =>
      dfs_loop (2 * length (m_buffer m) + 1)
               (mk_machine buf' (m_final m) (m_leaves m) (m_order m) (m_tbi m))
               [set_sub f sub] [index]
  end.

Fixpoint final_get (l : list (nat * nat)) (bi : nat) : nat :=
  match l with
  | [] => O
  | (k, v) :: r => if Nat.eqb k bi then v else final_get r bi
  end.

Fixpoint index_of (x : bytes) (l : list bytes) (i : nat) : option nat :=
  match l with
  | [] => None
  | y :: r => if bytes_eqb x y then Some i else index_of x r (S i)
  end.

Definition get_result (m : machine) : node_pack :=
  let leaves := m_leaves m in
  let mk (f : frame) : node :=
    mk_node (r_targets (fr_rule f))
            (map (fun s =>
                    match index_of s leaves O with
                    | Some i => Leaf i
                    | None =>
                        match tbi_get (m_tbi m) s with
                        | Some (bi, si) => Pair (final_get (m_final m) bi) si
                        | None => Leaf O     (* unreachable: every source is a leaf or a target *)
                        end
                    end) (r_sources (fr_rule f)))
            (r_command (fr_rule f))
            (fr_rule f) in
  mk_pack leaves (map mk (rev (m_order m))).

Fixpoint sort_all_from (fuel : nat) (m : machine) (index : nat) : result machine sort_err :=
  match fuel with
  | O => Ok m
  | S f =>
      match sort_once m index O with
      | Err e => Err e
      | Ok m' => sort_all_from f m' (S index)
      end
  end.

Definition toposort (rules : list rule) (goal : option bytes) : result node_pack sort_err :=
  match rules_to_frame_buffer rules with
  | Err e => Err e
  | Ok (buf, t) =>
      let m0 := mk_machine buf [] [] [] t in
      match goal with
      | Some g =>
          match tbi_get t g with
          | None => Err (TargetMissing g)
          | Some (index, sub) =>
              match sort_once m0 index sub with
              | Err e => Err e
              | Ok m => Ok (get_result m)
              end
          end
      | None =>
          match sort_all_from (length buf) m0 O with
          | Err e => Err e
          | Ok m => Ok (get_result m)
          end
      end
  end.
