(* Model of rule.rs parse / parse_all: the four-mode line machine over content.split('\n'). *)
From Ruler Require Export Bytes Bundle RuleSyntax.

Inductive parse_err :=
| UnexpectedEmptyLine (line : nat)
| UnexpectedExtraColon (line : nat)
| EofMidTargets (line : nat)
| EofMidSources (line : nat)
| EofMidCommand (line : nat)
| BundleError (e : bundle_err).

Inductive mode := Pending | Targets | Sources | Command.

Record pstate := mk_pstate {
  ps_mode : mode;
  ps_rules : list rule;          (* most recent first *)
  ps_targets : list bytes;       (* most recent first *)
  ps_sources : list bytes;
  ps_command : list bytes;
  ps_line : nat                  (* 1-based number of the line about to be read *)
}.

Definition is_empty (l : bytes) : bool := match l with [] => true | _ => false end.
Definition is_colon (l : bytes) : bool := bytes_eqb l [COLON].

Definition finish_rule (st : pstate) : result pstate parse_err :=
  match parse_lines (rev (ps_targets st)) with
  | Err e => Err (BundleError e)
  | Ok tb =>
      match parse_lines (rev (ps_sources st)) with
      | Err e => Err (BundleError e)
      | Ok sb =>
          Ok (mk_pstate Pending
                (mk_rule (flatten tb) (flatten sb) (rev (ps_command st)) :: ps_rules st)
                [] [] [] (S (ps_line st)))
      end
  end.

Definition step_line (st : pstate) (l : bytes) : result pstate parse_err :=
  let next m := mk_pstate m (ps_rules st) (ps_targets st) (ps_sources st) (ps_command st) (S (ps_line st)) in
  match ps_mode st with
  | Pending =>
      if is_empty l then Ok (next Pending)
      else if is_colon l then Err (UnexpectedExtraColon (ps_line st))
      else Ok (mk_pstate Targets (ps_rules st) (l :: ps_targets st) (ps_sources st) (ps_command st) (S (ps_line st)))
  | Targets =>
      if is_empty l then Err (UnexpectedEmptyLine (ps_line st))
      else if is_colon l then Ok (next Sources)
      else Ok (mk_pstate Targets (ps_rules st) (l :: ps_targets st) (ps_sources st) (ps_command st) (S (ps_line st)))
  | Sources =>
      if is_empty l then Err (UnexpectedEmptyLine (ps_line st))
      else if is_colon l then Ok (next Command)
      else Ok (mk_pstate Sources (ps_rules st) (ps_targets st) (l :: ps_sources st) (ps_command st) (S (ps_line st)))
  | Command =>
      if is_empty l then Err (UnexpectedEmptyLine (ps_line st))
      else if is_colon l then finish_rule st
      else Ok (mk_pstate Command (ps_rules st) (ps_targets st) (ps_sources st) (l :: ps_command st) (S (ps_line st)))
  end.

Fixpoint run_lines (st : pstate) (ls : list bytes) : result pstate parse_err :=
  match ls with
  | [] => Ok st
  | l :: r => match step_line st l with
              | Ok st' => run_lines st' r
              | Err e => Err e
              end
  end.

Definition init_pstate : pstate := mk_pstate Pending [] [] [] [] 1.

Definition finish (st : pstate) : result (list rule) parse_err :=
  match ps_mode st with
  | Pending => Ok (rev (ps_rules st))
  | Targets => Err (EofMidTargets (ps_line st))
  | Sources => Err (EofMidSources (ps_line st))
  | Command => Err (EofMidCommand (ps_line st))
  end.

Definition parse (content : bytes) : result (list rule) parse_err :=
  match run_lines init_pstate (split_on NL content) with
  | Ok st => finish st
  | Err e => Err e
  end.

(* parse_all: files in order, first error wins *)
Fixpoint parse_all (contents : list bytes) : result (list rule) parse_err :=
  match contents with
  | [] => Ok []
  | c :: r =>
      match parse c with
      | Err e => Err e
      | Ok rs => match parse_all r with
                 | Ok rs' => Ok (rs ++ rs')
                 | Err e => Err e
                 end
      end
  end.
