(* Rules as rule.rs holds them, their derived order, canonical form and identity preimage. *)
From Ruler Require Export Bytes SortList TicketModel.

Record rule := mk_rule { r_targets : list bytes; r_sources : list bytes; r_command : list bytes }.

Definition strs_compare := list_compare bytes_compare.

(* #[derive(Ord)] on struct Rule: field by field, each a Vec<String> compared lexicographically *)
Definition rule_compare (a b : rule) : comparison :=
  match strs_compare (r_targets a) (r_targets b) with
  | Eq => match strs_compare (r_sources a) (r_sources b) with
          | Eq => strs_compare (r_command a) (r_command b)
          | c => c
          end
  | c => c
  end.
Definition rule_leb (a b : rule) : bool := match rule_compare a b with Gt => false | _ => true end.

Definition sort_strs (l : list bytes) : list bytes := sort bytes_leb l.
Definition sort_rules (l : list rule) : list rule := sort rule_leb l.

(* Rule::get_ticket: targets and sources sorted, command as is *)
Definition canon_rule (r : rule) : rule :=
  mk_rule (sort_strs (r_targets r)) (sort_strs (r_sources r)) (r_command r).
Definition ser_rule (r : rule) : bytes := rule_preimage (r_targets r) (r_sources r) (r_command r).
Definition rule_ticket (r : rule) : bytes := sha256 (ser_rule (canon_rule r)).
