(* Definitions as they were BEFORE the repairs of F1, F4 and F5 (see DESIGN.md section 6 and
   known_findings.json), each with the witness on which the property failed. No property theorem uses
   anything from this file; it documents what the corpus cases guard against. *)
From Coq Require Import String.
From Ruler Require Import Bytes AList RuleSyntax TopoSort World Work Concrete Sha256.

(* ---------- F1 (C12): an unvisited sibling in the stack was taken for an ancestor ---------- *)

Fixpoint legacy_expand_sources (cur : frame) (stack : list frame) (in_stack : list nat)
         (srcs : list bytes) (m : machine) (reverser : list frame)
  : result (machine * list frame) sort_err :=
  match srcs with
  | [] => Ok (m, reverser)
  | s :: rest =>
      match tbi_get (m_tbi m) s with
      | None =>
          legacy_expand_sources cur stack in_stack rest
            (mk_machine (m_buffer m) (m_final m) (set_insert s (m_leaves m)) (m_order m) (m_tbi m)) reverser
      | Some (bi, si) =>
          match take_at (m_buffer m) bi with
          | (Some f, buf') =>
              legacy_expand_sources cur stack in_stack rest
                (mk_machine buf' (m_final m) (m_leaves m) (m_order m) (m_tbi m)) (reverser ++ [set_sub f si])
          | (None, _) =>
              if Nat.eqb (fr_index cur) bi then Err (SelfDependentRule (target_at cur si))
              else if nat_mem bi in_stack then
                Err (CircularDependence
                       (map (fun f => target_at f (fr_sub f)) (rev stack) ++ [target_at cur (fr_sub cur)]))
              else legacy_expand_sources cur stack in_stack rest m reverser
          end
      end
  end.

Fixpoint legacy_dfs_loop (fuel : nat) (m : machine) (stack : list frame) (in_stack : list nat)
  : result machine sort_err :=
  match stack with
  | [] => Ok m
  | cur :: stack' =>
      match fuel with
      | O => Err SortOutOfFuel
      | S f =>
          let in_stack' := nat_remove (fr_index cur) in_stack in
          if fr_visited cur then
            legacy_dfs_loop f
              (mk_machine (m_buffer m) ((fr_index cur, length (m_order m)) :: m_final m)
                          (m_leaves m) (cur :: m_order m) (m_tbi m)) stack' in_stack'
          else
            match legacy_expand_sources cur stack' in_stack' (r_sources (fr_rule cur)) m [] with
            | Err e => Err e
            | Ok (m', reverser) =>
                legacy_dfs_loop f m' (reverser ++ visit cur :: stack')
                                (map fr_index reverser ++ fr_index cur :: in_stack')
            end
      end
  end.

Definition legacy_sort_goal (rules : list rule) (g : bytes) : result machine sort_err :=
  match rules_to_frame_buffer rules with
  | Err e => Err e
  | Ok (buf, t) =>
      match tbi_get t g with
      | None => Err (TargetMissing g)
      | Some (index, sub) =>
          match take_at buf index with
          | (None, _) => Ok (mk_machine buf [] [] [] t)
          | (Some f, buf') =>
              legacy_dfs_loop (2 * length buf + 1) (mk_machine buf' [] [] [] t) [set_sub f sub] [index]
          end
      end
  end.

Definition tri_a : rule := mk_rule [[97]] [[98]; [99]] [[120]].   (* a <- b, c *)
Definition tri_b : rule := mk_rule [[98]] [[99]] [[120]].         (* b <- c    *)
Definition tri_c : rule := mk_rule [[99]] [[122]] [[120]].        (* c <- z    *)

(* the acyclic rules a<-{b,c}, b<-{c}, c<-{z} were rejected as circular ... *)
Lemma C12_legacy_refuted :
  legacy_sort_goal [tri_a; tri_b; tri_c] [97] = Err (CircularDependence [[97]; [99]; [98]]).
Proof. vm_compute. reflexivity. Qed.

(* ... and are accepted now, c before b before a *)
Lemma C12_repaired_witness :
  match toposort [tri_a; tri_b; tri_c] (Some [97]) with
  | Ok pack => map n_targets (p_nodes pack) = [[[99]]; [[98]]; [[97]]]
  | Err _ => False
  end.
Proof. vm_compute. reflexivity. Qed.

(* ---------- F5 (C01): "nothing remembered" (time 0) matched a file whose mtime is 0 ---------- *)

Definition legacy_get_file_ticket {T} (hc : bytes -> T) (w : world T) (p : bytes) (assumed : fstate T) : option T :=
  match fget w p with
  | None => None
  | Some f => if f_mtime f =? fs_mtime assumed then Some (fs_t assumed) else Some (hc (f_content f))
  end.

Definition epoch_world : cworld :=
  mk_world [([97], mk_file [88] 0 false)] no_rdir 1000 Coarse.    (* file "a" = "X" with mtime 0 *)

Lemma C01_legacy_mtime_zero_refuted :
  legacy_get_file_ticket c_hc epoch_world [97] (empty_state c_hc) = Some (c_hc [])      (* hash of "" *)
  /\ c_hc [] <> c_hc [88].
Proof. split; [vm_compute; reflexivity | vm_compute; discriminate]. Qed.

Lemma C01_repaired_mtime_zero :
  get_file_ticket c_teqb c_hc epoch_world [97] (empty_state c_hc) = Some (c_hc [88]).
Proof. vm_compute. reflexivity. Qed.

(* ---------- F4 (C18): a recovered file was observed through the entry of the file it replaced ---------- *)

(* P's table entry says (hash "X", time 7); the cache holds "Y" under its hash in a file that also carries
   time 7 (it was written in the same tick); P is absent. Restoring "Y" to P and then asking for P's
   ticket through the old entry answered hash "X". *)
Definition f4_world : cworld :=
  mk_world [] (mk_rdir true (Some [(c_hc [89], mk_file [89] 7 false)]) (Some []) (Some (SF_ok []))) 1000 Coarse.
Definition f4_entry : fstate cticket := mk_fstate (c_hc [88]) 7 false.

Lemma C18_legacy_coarse_refuted :
  match restore c_teqb f4_world (c_hc [89]) [80] with
  | RDone w' =>
      legacy_get_file_ticket c_hc w' [80] f4_entry = Some (c_hc [88]) /\
      option_map f_content (fget w' [80]) = Some [89]
  | _ => False
  end.
Proof. vm_compute. split; reflexivity. Qed.

Lemma C18_repaired_coarse :
  match restore c_teqb f4_world (c_hc [89]) [80] with
  | RDone w' =>
      current_tickets c_teqb c_hc w' (forget_replaced c_hc [([80], f4_entry)] [Recovered]) = Ok [c_hc [89]]
  | _ => False
  end.
Proof. vm_compute. reflexivity. Qed.
