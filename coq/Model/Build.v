(* Model of build.rs build() and clean() under the serial schedule: threads in spawn order, each to
   completion (what the scheduler shim's Serial policy produces and what main's join loop observes). *)
From Ruler Require Export Bytes AList RuleSyntax Parser TopoSort World Cmdlang Work Bincode.

Inductive fatal :=
| FTable                       (* current_file_states present but unreadable *)
| FRulesOpen                   (* rules file missing *)
| FNotUtf8
| FParse (e : parse_err)
| FSort (e : sort_err)
| FHistory.                    (* a rule's history file is present but unreadable *)

Inductive verdict :=
| VOk
| VWorkErrors (es : list work_err)
| VFatal (f : fatal).

Inductive banner := BUpToDate | BRecovered | BOutdated | BBuilt.

Section Build.
  Variable T : Type.
  Variable teqb : T -> T -> bool.
  Variable hc : bytes -> T.
  Variable hl : list T -> T.           (* hash of the source tickets, in source order *)
  Variable hr : rule -> T.             (* identity of a (canonical) rule *)

  Notation world := (world T).
  Notation fstate := (fstate T).
  Notation table := (table T).
  Notation history := (history T).
  Notation work_result := (work_result T).

  Inductive thread_result :=
  | TOk (wr : work_result)
  | TErr (e : work_err)
  | TCanceled.

  (* directory::init: create whatever part of the ruler directory is missing; read the table *)
  Definition init_dir (w : world) : result (world * table) fatal :=
    let rd := w_rd w in
    let cache := match rd_cache rd with Some c => Some c | None => Some [] end in
    let hist := match rd_hist rd with Some h => Some h | None => Some [] end in
    match rd_table rd with
    | Some SF_bad => Err FTable   (* directories were created before the read failed *)
    | Some (SF_ok t) => Ok (set_rd w (mk_rdir true cache hist (Some (SF_ok t))), t)
    | None => Ok (set_rd w (mk_rdir true cache hist (Some (SF_ok []))), [])
    end.

  Definition init_dir_world_on_error (w : world) : world :=
    let rd := w_rd w in
    set_rd w (mk_rdir true (match rd_cache rd with Some c => Some c | None => Some [] end)
                      (match rd_hist rd with Some h => Some h | None => Some [] end) (rd_table rd)).

  (* build::get_nodes for one rules file *)
  Definition get_nodes (w : world) (rules_path : bytes) (goal : option bytes) : result node_pack fatal :=
    match fget w rules_path with
    | None => Err FRulesOpen
    | Some f =>
        if negb (utf8_valid (f_content f)) then Err FNotUtf8
        else match parse (f_content f) with
             | Err e => Err (FParse e)
             | Ok rules =>
                 match toposort rules goal with
                 | Err e => Err (FSort e)
                 | Ok pack => Ok pack
                 end
             end
    end.

  (* CurrentFileStates::take_blob *)
  Fixpoint take_blob (t : table) (paths : list bytes) : list (bytes * fstate) * table :=
    match paths with
    | [] => ([], t)
    | p :: rest =>
        let st := match alookup bytes_eqb t p with Some s => s | None => empty_state hc end in
        let (b, t') := take_blob (aremove bytes_eqb t p) rest in
        ((p, st) :: b, t')
    end.

  Definition insert_blob (t : table) (b : list (bytes * fstate)) : table :=
    fold_left (fun acc e => ainsert bytes_eqb acc (fst e) (snd e)) b t.

  (* one blob per worker, in spawn order, each taken out of what the previous ones left of the table *)
  Fixpoint take_blobs (t : table) (pathss : list (list bytes)) : list (list (bytes * fstate)) * table :=
    match pathss with
    | [] => ([], t)
    | ps :: rest =>
        let (b, t1) := take_blob t ps in
        let (bs, t2) := take_blobs t1 rest in
        (b :: bs, t2)
    end.

  (* the paths whose remembered states a build takes out of the table: every leaf, every target of the plan *)
  Definition worker_paths (pack : node_pack) : list (list bytes) :=
    map (fun l => [l]) (p_leaves pack) ++ map n_targets (p_nodes pack).

  (* what is left of the table once every worker's blob has been taken *)
  Definition table_rest (t : table) (pack : node_pack) : table := snd (take_blobs t (worker_paths pack)).

  (* the packet a dependent receives on one edge: None = cancel *)
  Definition received (leaf_sent node_sent : list (option (list T))) (si : source_index) : option T :=
    match si with
    | Leaf i => match nth i leaf_sent None with Some (t :: _) => Some t | _ => None end
    | Pair i sub => match nth i node_sent None with Some ts => nth_error ts sub | None => None end
    end.

  Fixpoint all_some {A} (l : list (option A)) : option (list A) :=
    match l with
    | [] => Some []
    | Some x :: r => match all_some r with Some xs => Some (x :: xs) | None => None end
    | None :: _ => None
    end.

  Record run_state := mk_rs {
    rs_world : world;
    rs_table : table;
    rs_leaf_sent : list (option (list T));
    rs_node_sent : list (option (list T));
    rs_results : list (option rule * thread_result);     (* in spawn order; Some rule for rule nodes *)
    rs_commands : list bytes                              (* script lines executed, in order *)
  }.

  Definition run_leaf (st : run_state) (leaf : bytes) : run_state :=
    let (b, t') := take_blob (rs_table st) [leaf] in
    match handle_leaf teqb hc (rs_world st) b with
    | Ok wr =>
        mk_rs (rs_world st) t' (rs_leaf_sent st ++ [Some (wr_tickets wr)]) (rs_node_sent st)
              (rs_results st ++ [(None, TOk wr)]) (rs_commands st)
    | Err e =>
        mk_rs (rs_world st) t' (rs_leaf_sent st ++ [None]) (rs_node_sent st)
              (rs_results st ++ [(None, TErr e)]) (rs_commands st)
    end.

  Definition read_history (w : world) (r : rule) : option history :=
    match rd_hist (w_rd w) with
    | None => Some []
    | Some hs =>
        match alookup teqb hs (hr r) with
        | None => Some []
        | Some (SF_ok h) => Some h
        | Some SF_bad => None
        end
    end.

  (* None: the history file of this node is unreadable; build() returns at once *)
  Definition run_node (st : run_state) (n : node) : option run_state :=
    let (b, t') := take_blob (rs_table st) (n_targets n) in
    match read_history (rs_world st) (n_rule n) with
    | None => None
    | Some h =>
        match all_some (map (received (rs_leaf_sent st) (rs_node_sent st)) (n_source_indices n)) with
        | None =>
            Some (mk_rs (rs_world st) t' (rs_leaf_sent st) (rs_node_sent st ++ [None])
                        (rs_results st ++ [(Some (n_rule n), TCanceled)]) (rs_commands st))
        | Some tickets =>
            match handle_rule teqb hc (rs_world st) b h (hl tickets) (n_command n) with
            | (Ok wr, w', script) =>
                Some (mk_rs w' t' (rs_leaf_sent st) (rs_node_sent st ++ [Some (wr_tickets wr)])
                            (rs_results st ++ [(Some (n_rule n), TOk wr)]) (rs_commands st ++ script))
            | (Err e, w', script) =>
                Some (mk_rs w' t' (rs_leaf_sent st) (rs_node_sent st ++ [None])
                            (rs_results st ++ [(Some (n_rule n), TErr e)]) (rs_commands st ++ script))
            end
        end
    end.

  Fixpoint run_nodes (st : run_state) (ns : list node) : option run_state :=
    match ns with
    | [] => Some st
    | n :: rest => match run_node st n with
                   | None => None
                   | Some st' => run_nodes st' rest
                   end
    end.

  (* main's join loop: status lines, history files, table entries, errors *)
  Definition status_lines (wr : work_result) : list (banner * bytes) :=
    match wr_option wr with
    | SourceOnly => []
    | Resolutions rs =>
        map (fun pr => (match snd pr with
                        | AlreadyCorrect => BUpToDate
                        | Recovered => BRecovered
                        | NeedsRebuild => BOutdated
                        end, fst (fst pr)))
            (combine (wr_blob wr) rs)
    | CommandExecuted => map (fun e => (BBuilt, fst e)) (wr_blob wr)
    end.

  Definition write_history (w : world) (r : rule) (h : history) : world :=
    let rd := w_rd w in
    match rd_hist rd with
    | None => w        (* create_file fails: main panics in the code; cannot happen after init *)
    | Some hs => set_rd w (mk_rdir (rd_exists rd) (rd_cache rd) (Some (ainsert teqb hs (hr r) (SF_ok h))) (rd_table rd))
    end.

  Record join_state := mk_js {
    js_world : world;
    js_table : table;
    js_status : list (banner * bytes);
    js_errors : list work_err
  }.

  Definition join_one (js : join_state) (res : option rule * thread_result) : join_state :=
    match snd res with
    | TOk wr =>
        let w1 := match fst res, wr_history wr with
                  | Some r, Some h => write_history (js_world js) r h
                  | _, _ => js_world js
                  end in
        mk_js w1 (insert_blob (js_table js) (wr_blob wr)) (js_status js ++ status_lines wr) (js_errors js)
    | TErr e => mk_js (js_world js) (js_table js) (js_status js) (js_errors js ++ [e])
    | TCanceled => js
    end.

  Definition write_table (w : world) (t : table) : world :=
    let rd := w_rd w in
    set_rd w (mk_rdir (rd_exists rd) (rd_cache rd) (rd_hist rd) (Some (SF_ok t))).

  Record outcome := mk_outcome {
    o_world : world;
    o_verdict : verdict;
    o_commands : list bytes;
    o_status : list (banner * bytes)
  }.

  Definition build (w : world) (rules_path : bytes) (goal : option bytes) : outcome :=
    match init_dir w with
    | Err f => mk_outcome (init_dir_world_on_error w) (VFatal f) [] []
    | Ok (w1, t) =>
        match get_nodes w1 rules_path goal with
        | Err f => mk_outcome w1 (VFatal f) [] []
        | Ok pack =>
            (* before any worker runs, main takes every worker's blob out of the table and saves what is left
               (after the repair of F6): what is remembered about a file a worker is about to replace must not
               survive on disk if ruler is killed before the final write_table below. The workers' blobs are
               still taken one by one from t (run_leaf / run_node), which gives the same blobs. *)
            let w1t := write_table w1 (table_rest t pack) in
            let st0 := mk_rs w1t t [] [] [] [] in
            let st1 := fold_left run_leaf (p_leaves pack) st0 in
            match run_nodes st1 (p_nodes pack) with
            | None =>
                (* a history file was unreadable: everything spawned so far has run, nothing is recorded.
                   The world is the one reached when the bad file was met. *)
                let fix upto (st : run_state) (ns : list node) : run_state :=
                  match ns with
                  | [] => st
                  | n :: rest => match run_node st n with None => st | Some st' => upto st' rest end
                  end in
                let stx := upto st1 (p_nodes pack) in
                mk_outcome (rs_world stx) (VFatal FHistory) (rs_commands stx) []
            | Some st2 =>
                let js := fold_left join_one (rs_results st2) (mk_js (rs_world st2) (rs_table st2) [] []) in
                let w3 := write_table (js_world js) (js_table js) in
                mk_outcome w3 (match js_errors js with [] => VOk | es => VWorkErrors es end)
                           (rs_commands st2) (js_status js)
            end
        end
    end.

  (* clean: one thread per node in the plan, each target that exists moved into the cache; the table
     on disk is not rewritten *)
  Fixpoint clean_nodes (w : world) (t : table) (ns : list node) (errs : list work_err) : world * list work_err :=
    match ns with
    | [] => (w, errs)
    | n :: rest =>
        let (b, t') := take_blob t (n_targets n) in
        match clean_targets teqb hc w b with
        | Ok w' => clean_nodes w' t' rest errs
        | Err e => clean_nodes w t' rest (errs ++ [e])
        end
    end.

  Definition clean (w : world) (rules_path : bytes) (goal : option bytes) : outcome :=
    match init_dir w with
    | Err f => mk_outcome (init_dir_world_on_error w) (VFatal f) [] []
    | Ok (w1, t) =>
        match get_nodes w1 rules_path goal with
        | Err f => mk_outcome w1 (VFatal f) [] []
        | Ok pack =>
            let (w2, errs) := clean_nodes w1 t (p_nodes pack) [] in
            mk_outcome w2 (match errs with [] => VOk | es => VWorkErrors es end) [] []
        end
    end.
End Build.

Arguments TOk {T}.
Arguments TErr {T}.
Arguments TCanceled {T}.
Arguments build {T}.
Arguments clean {T}.
Arguments mk_outcome {T}.
Arguments o_world {T}.
Arguments o_verdict {T}.
Arguments o_commands {T}.
Arguments o_status {T}.
