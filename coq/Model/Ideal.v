(* The from-scratch specification of a build (C01's right-hand side) and what makes a command a
   deterministic function of its declared sources in the command mini-language. *)
From Ruler Require Export Bytes AList RuleSyntax TopoSort World Cmdlang Work Build Ops BuildSpec.

(* the files a script line reads: the @path pieces of a gen line *)
Definition line_reads (line : bytes) : list bytes :=
  match tokens line with
  | op :: _ :: pieces =>
      if bytes_eqb op [103; 101; 110] (* gen *) then
        flat_map (fun p => match p with
                           | c :: body => if c =? AT then [body] else []
                           | [] => []
                           end) pieces
      else []
  | _ => []
  end.

(* DET for one rule: its command writes only its own targets and reads only its declared sources *)
Definition det_rule (r : rule) : Prop :=
  confined (r_targets r) (script_lines (r_command r)) /\
  forall line p, In line (script_lines (r_command r)) -> In p (line_reads line) -> In p (r_sources r).

Definition det_node (n : node) : Prop := det_rule (n_rule n) /\ n_targets n = r_targets (n_rule n) /\ n_command n = r_command (n_rule n).

Section Ideal.
  Variable T : Type.
  Notation world := (world T).

  Definition content_at (w : world) (p : bytes) : option bytes := option_map f_content (fget w p).

  (* from scratch: none of the plan's targets exists ... *)
  Definition strip_targets (w : world) (pack : node_pack) : world :=
    set_files w (filter (fun e => negb (existsb (bytes_eqb (fst e)) (plan_targets pack))) (w_files w)).

  (* ... and every command of the plan runs once, in plan (= dependency) order *)
  Definition scratch_world (w : world) (pack : node_pack) : world :=
    fold_left (fun acc n => snd (run_script acc (script_lines (n_command n)))) (p_nodes pack)
              (strip_targets w pack).
End Ideal.

Arguments content_at {T}.
Arguments strip_targets {T}.
Arguments scratch_world {T}.
