(* Declarative specification of dependency analysis (what C12 demands of the sorter), written
   independently of the machine in TopoSort.v: plain reachability over the rules. *)
From Coq Require Import Relations Permutation.
From Ruler Require Export Bytes RuleSyntax TopoSort.

Definition all_targets (rs : list rule) : list bytes := flat_map r_targets rs.

(* r1 needs r2: some declared source of r1 is a target of r2 *)
Definition depends (rs : list rule) (r1 r2 : rule) : Prop :=
  In r1 rs /\ In r2 rs /\ exists s, In s (r_sources r1) /\ In s (r_targets r2).

Definition is_root (rs : list rule) (goal : option bytes) (r : rule) : Prop :=
  In r rs /\ match goal with None => True | Some g => In g (r_targets r) end.

(* in scope: a root, or needed (transitively) by a root *)
Definition in_scope (rs : list rule) (goal : option bytes) (r : rule) : Prop :=
  exists r0, is_root rs goal r0 /\ clos_refl_trans rule (depends rs) r0 r.

(* a dependency cycle (of any length, self-dependence included) is reachable *)
Definition cyclic (rs : list rule) (goal : option bytes) : Prop :=
  exists r, in_scope rs goal r /\ clos_trans rule (depends rs) r r.

Definition goal_ok (rs : list rule) (goal : option bytes) : Prop :=
  match goal with None => True | Some g => In g (all_targets rs) end.

Definition valid (rs : list rule) (goal : option bytes) : Prop :=
  NoDup (all_targets rs) /\ goal_ok rs goal /\ ~ cyclic rs goal.

(* ---- what a correct plan is ---- *)

Definition binding_ok (rs : list rule) (pack : node_pack) (j : nat) (s : bytes) (b : source_index) : Prop :=
  match b with
  | Leaf i => nth_error (p_leaves pack) i = Some s /\ ~ In s (all_targets rs)
  | Pair i sub =>
      (i < j)%nat /\ exists n, nth_error (p_nodes pack) i = Some n /\ nth_error (n_targets n) sub = Some s
  end.

Definition node_ok (rs : list rule) (pack : node_pack) (j : nat) (n : node) : Prop :=
  n_targets n = r_targets (n_rule n) /\
  n_command n = r_command (n_rule n) /\
  Forall2 (binding_ok rs pack j) (r_sources (n_rule n)) (n_source_indices n).

Definition plan_ok (rs : list rule) (goal : option bytes) (pack : node_pack) : Prop :=
  (* exactly the rules in scope, each once, in canonical (sorted) form *)
  NoDup (map n_rule (p_nodes pack)) /\
  (forall r', In r' (map n_rule (p_nodes pack)) <-> exists r, in_scope rs goal r /\ r' = canon_rule r) /\
  (* every node carries its rule's data and every source is bound to the right earlier target or leaf *)
  (forall j n, nth_error (p_nodes pack) j = Some n -> node_ok rs pack j n) /\
  (* leaves: exactly the sources of plan rules that no rule produces, duplicate-free *)
  NoDup (p_leaves pack) /\
  (forall s, In s (p_leaves pack) <->
             ~ In s (all_targets rs) /\ exists r, in_scope rs goal r /\ In s (r_sources r)).
