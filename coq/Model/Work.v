(* Model of blob.rs / cache.rs / work.rs: what one rule thread (or leaf thread) does. *)
From Ruler Require Export Bytes AList RuleSyntax World Cmdlang.

Inductive resolution := AlreadyCorrect | Recovered | NeedsRebuild.

Inductive work_err :=
| WFileNotFound (p : bytes)
| WTargetNotGenerated (p : bytes)
| WCommandErrored
| WNoCommand
| WContradiction (ps : list bytes)
| WWeird
| WCacheDirMissing.

Inductive work_option :=
| SourceOnly
| Resolutions (rs : list resolution)
| CommandExecuted.

Section Work.
  Variable T : Type.
  Variable teqb : T -> T -> bool.
  Variable hc : bytes -> T.            (* hash of a file's content *)

  Notation world := (world T).
  Notation fstate := (fstate T).

  Definition blob := list (bytes * fstate).

  (* FileState::empty(): what a path has when the table knows nothing about it *)
  Definition empty_state : fstate := mk_fstate (hc []) 0 false.

  (* *assumed != FileState::empty() *)
  Definition is_empty_state (st : fstate) : bool :=
    teqb (fs_t st) (hc []) && (fs_mtime st =? 0) && negb (fs_x st).

  (* the modification-time shortcut applies: same time, and something is remembered at all *)
  Definition shortcut (f : file) (assumed : fstate) : bool :=
    (f_mtime f =? fs_mtime assumed) && negb (is_empty_state assumed).

  (* blob::get_file_ticket *)
  Definition get_file_ticket (w : world) (p : bytes) (assumed : fstate) : option T :=
    match fget w p with
    | None => None
    | Some f => if shortcut f assumed then Some (fs_t assumed) else Some (hc (f_content f))
    end.

  (* blob::get_actual_file_state *)
  Definition get_actual_file_state (w : world) (p : bytes) (assumed : fstate) : option fstate :=
    match fget w p with
    | None => None
    | Some f =>
        Some (mk_fstate (if shortcut f assumed then fs_t assumed else hc (f_content f))
                        (f_mtime f) (f_exec f))
    end.

  Definition cache_of (w : world) : option (list (T * file)) := rd_cache (w_rd w).
  Definition set_cache (w : world) (c : list (T * file)) : world :=
    set_rd w (mk_rdir (rd_exists (w_rd w)) (Some c) (rd_hist (w_rd w)) (rd_table (w_rd w))).

  (* SysCache::back_up_file_with_ticket: rename(path -> cache/<ticket>), replacing an entry of that name.
     None: the rename fails (no cache directory). *)
  Definition back_up (w : world) (t : T) (p : bytes) : option world :=
    match cache_of w, fget w p with
    | Some c, Some f => Some (set_cache (remove_file w p) (ainsert teqb c t f))
    | _, _ => None
    end.

  Inductive restore_result := RDone (w : world) | RNotThere | RCacheMissing.

  (* SysCache::restore_file: is_dir(cache), is_file(cache/<t>), rename(cache/<t> -> path) *)
  Definition restore (w : world) (t : T) (p : bytes) : restore_result :=
    match cache_of w with
    | None => RCacheMissing
    | Some c =>
        match alookup teqb c t with
        | None => RNotThere
        | Some f =>
            RDone (set_cache (set_files w (ainsert bytes_eqb (w_files w) p f)) (aremove teqb c t))
        end
    end.

  (* blob::restore_or_download with no download urls *)
  Definition restore_or_rebuild (w : world) (t : T) (p : bytes) : result (resolution * world) work_err :=
    match restore w t p with
    | RDone w' => Ok (Recovered, w')
    | RNotThere => Ok (NeedsRebuild, w)
    | RCacheMissing => Err WCacheDirMissing
    end.

  (* blob::resolve_single_target *)
  Definition resolve_single (w : world) (remembered : T) (p : bytes) (assumed : fstate)
    : result (resolution * world) work_err :=
    match get_file_ticket w p assumed with
    | Some cur =>
        if teqb remembered cur then Ok (AlreadyCorrect, w)
        else match back_up w cur p with
             | None => Err WCacheDirMissing
             | Some w1 => restore_or_rebuild w1 remembered p
             end
    | None => restore_or_rebuild w remembered p
    end.

  (* Blob::resolve_remembered_file_state_vec; a remembered vector shorter than the blob makes
     get_info(i) index out of bounds in the code: WWeird here (never produced by ruler itself, the
     vector always has one entry per target) *)
  Fixpoint resolve_remembered (w : world) (b : blob) (remembered : list fstate)
    : result (list resolution * world) work_err :=
    match b with
    | [] => Ok ([], w)
    | (p, assumed) :: rest =>
        match remembered with
        | [] => Err WWeird
        | r :: rrest =>
            match resolve_single w (fs_t r) p assumed with
            | Err e => Err e
            | Ok (res, w1) =>
                match resolve_remembered w1 rest rrest with
                | Err e => Err e
                | Ok (ress, w2) => Ok (res :: ress, w2)
                end
            end
        end
    end.

  (* Blob::resolve_with_no_current_file_states: nothing remembered; displace whatever is there *)
  Fixpoint resolve_fresh (w : world) (b : blob) : result (list resolution * world) work_err :=
    match b with
    | [] => Ok ([], w)
    | (p, assumed) :: rest =>
        let step (w1 : world) :=
          match resolve_fresh w1 rest with
          | Err e => Err e
          | Ok (ress, w2) => Ok (NeedsRebuild :: ress, w2)
          end in
        match get_file_ticket w p assumed with
        | Some cur =>
            match back_up w cur p with
            | None => Err WCacheDirMissing
            | Some w1 => step w1
            end
        | None => step w
        end
    end.

  Definition needs_rebuild (rs : list resolution) : bool :=
    existsb (fun r => match r with NeedsRebuild => true | _ => false end) rs.

  (* Blob::get_current_file_state_vec: tickets through the shortcut; the first missing file is the error *)
  Fixpoint current_tickets (w : world) (b : blob) : result (list T) bytes :=
    match b with
    | [] => Ok []
    | (p, assumed) :: rest =>
        match get_file_ticket w p assumed with
        | None => Err p
        | Some t => match current_tickets w rest with
                    | Err e => Err e
                    | Ok ts => Ok (t :: ts)
                    end
        end
    end.

  (* Blob::update_to_match_system_file_state *)
  Fixpoint update_blob (w : world) (b : blob) : result blob bytes :=
    match b with
    | [] => Ok []
    | (p, assumed) :: rest =>
        match get_actual_file_state w p assumed with
        | None => Err p
        | Some st => match update_blob w rest with
                     | Err e => Err e
                     | Ok b' => Ok ((p, st) :: b')
                     end
        end
    end.

  (* work::to_command_line_input: no script line at all, or the first non-zero exit code *)
  Definition command_verdict (codes : list N) : option work_err :=
    match codes with
    | [] => Some WNoCommand
    | _ => if forallb (fun c => c =? 0) codes then None else Some WCommandErrored
    end.

  (* FileStateVec::compare through RuleHistory::insert *)
  Fixpoint differing_indices (i : nat) (old new : list T) : list nat :=
    match old, new with
    | o :: orest, n :: nrest =>
        if teqb o n then differing_indices (S i) orest nrest else i :: differing_indices (S i) orest nrest
    | _, _ => []
    end.

  Definition history := history T.

  Definition history_insert (h : history) (key : T) (tickets : list T) (paths : list bytes)
    : result history work_err :=
    match alookup teqb h key with
    | None => Ok (h ++ [(key, map (fun t => mk_fstate t 0 false) tickets)])
    | Some old =>
        if negb (Nat.eqb (length old) (length tickets)) then Err WWeird
        else match differing_indices O (map fs_t old) tickets with
             | [] => Ok h
             | idx => Err (WContradiction (map (fun i => nth i paths []) idx))
             end
    end.

  Record work_result := mk_wr {
    wr_tickets : list T;        (* file_state_vec: one ticket per target *)
    wr_blob : blob;
    wr_option : work_option;
    wr_history : option history
  }.

  (* work::handle_source_only_node *)
  Definition handle_leaf (w : world) (b : blob) : result work_result work_err :=
    match current_tickets w b with
    | Err p => Err (WFileNotFound p)
    | Ok ts => Ok (mk_wr ts b SourceOnly None)
    end.

  (* Blob::forget_replaced_file_states: what was remembered about a file that ruler itself has just
     replaced (recovered from the cache) says nothing about the new file *)
  Fixpoint forget_replaced (b : blob) (ress : list resolution) : blob :=
    match b, ress with
    | (p, st) :: brest, r :: rrest =>
        (p, match r with Recovered => empty_state | _ => st end) :: forget_replaced brest rrest
    | _, _ => b
    end.

  (* work::handle_rule_node. Returns the thread's result, the world afterwards and the script lines
     that were executed. *)
  Definition handle_rule (w : world) (b : blob) (h : history) (sources_ticket : T) (command : list bytes)
    : result work_result work_err * world * list bytes :=
    let resolved :=
      match alookup teqb h sources_ticket with
      | Some remembered => resolve_remembered w b remembered
      | None => resolve_fresh w b
      end in
    match resolved with
    | Err e => (Err e, w, [])      (* the world changes made before a resolution error are not modelled: the error needs a missing cache directory *)
    | Ok (ress, w1) =>
        let b := forget_replaced b ress in
        if needs_rebuild ress then
          let script := script_lines command in
          let (codes, w2) := run_script w1 script in
          match command_verdict codes with
          | Some e => (Err e, w2, script)
          | None =>
              match update_blob w2 b with
              | Err p => (Err (WTargetNotGenerated p), w2, script)
              | Ok b' =>
                  let ts := map (fun e => fs_t (snd e)) b' in
                  match history_insert h sources_ticket ts (map fst b) with
                  | Err e => (Err e, w2, script)
                  | Ok h' => (Ok (mk_wr ts b' CommandExecuted (Some h')), w2, script)
                  end
              end
          end
        else
          match current_tickets w1 b with
          | Err p => (Err (WFileNotFound p), w1, [])
          | Ok ts => (Ok (mk_wr ts b (Resolutions ress) (Some h)), w1, [])
          end
    end.

  (* work::clean_targets *)
  Fixpoint clean_targets (w : world) (b : blob) : result world work_err :=
    match b with
    | [] => Ok w
    | (p, assumed) :: rest =>
        match get_file_ticket w p assumed with
        | None => clean_targets w rest
        | Some t =>
            match back_up w t p with
            | None => Err WCacheDirMissing
            | Some w1 => clean_targets w1 rest
            end
        end
    end.
End Work.

Arguments RDone {T}.
Arguments RNotThere {T}.
Arguments RCacheMissing {T}.
Arguments empty_state {T}.
Arguments is_empty_state {T}.
Arguments shortcut {T}.
Arguments forget_replaced {T}.
Arguments get_file_ticket {T}.
Arguments get_actual_file_state {T}.
Arguments back_up {T}.
Arguments restore {T}.
Arguments resolve_single {T}.
Arguments resolve_remembered {T}.
Arguments resolve_fresh {T}.
Arguments current_tickets {T}.
Arguments update_blob {T}.
Arguments history_insert {T}.
Arguments handle_leaf {T}.
Arguments handle_rule {T}.
Arguments clean_targets {T}.
Arguments mk_wr {T}.
Arguments wr_tickets {T}.
Arguments wr_blob {T}.
Arguments wr_option {T}.
Arguments wr_history {T}.
Arguments cache_of {T}.
Arguments set_cache {T}.
