(* Canonical rendering of parser / sorter results (mirrored by harness/src/sexp.rs users). *)
From Coq Require Import String.
From Ruler Require Import Bytes Show Bundle RuleSyntax Parser TopoSort.

Definition show_strs (l : list bytes) : bytes := show_list show_bytes l.

Definition show_rule (r : rule) : bytes :=
  paren [lit "rule"; show_strs (r_targets r); show_strs (r_sources r); show_strs (r_command r)].

Definition show_bundle_err (e : bundle_err) : bytes :=
  match e with
  | BEmpty => lit "Empty"
  | BContainsEmptyLines idx => paren [lit "ContainsEmptyLines"; show_list show_nat idx]
  | BContradiction a b => paren [lit "Contradiction"; show_nat a; show_nat b]
  | BWrongIndent n => paren [lit "WrongIndent"; show_nat n]
  | BOutOfFuel => lit "MODEL-OUT-OF-FUEL"
  end.

Definition show_parse_err (e : parse_err) : bytes :=
  match e with
  | UnexpectedEmptyLine n => paren [lit "UnexpectedEmptyLine"; show_nat n]
  | UnexpectedExtraColon n => paren [lit "UnexpectedExtraColon"; show_nat n]
  | EofMidTargets n => paren [lit "UnexpectedEndOfFileMidTargets"; show_nat n]
  | EofMidSources n => paren [lit "UnexpectedEndOfFileMidSources"; show_nat n]
  | EofMidCommand n => paren [lit "UnexpectedEndOfFileMidCommand"; show_nat n]
  | BundleError b => paren [lit "BundleError"; show_bundle_err b]
  end.

Definition show_res {A E} (f : A -> bytes) (g : E -> bytes) (r : result A E) : bytes :=
  match r with
  | Ok a => paren [lit "ok"; f a]
  | Err e => paren [lit "err"; g e]
  end.

Definition show_parse (r : result (list rule) parse_err) : bytes :=
  show_res (show_list show_rule) show_parse_err r.

Definition show_bundle (r : result (list pnode) bundle_err) : bytes :=
  show_res (fun ns => show_strs (flatten ns)) show_bundle_err r.

Definition show_sort_err (e : sort_err) : bytes :=
  match e with
  | TargetMissing t => paren [lit "TargetMissing"; show_bytes t]
  | SelfDependentRule t => paren [lit "SelfDependentRule"; show_bytes t]
  | CircularDependence c => paren [lit "CircularDependence"; show_strs c]
  | TargetInMultipleRules t => paren [lit "TargetInMultipleRules"; show_bytes t]
  | SortOutOfFuel => lit "MODEL-OUT-OF-FUEL"
  end.

Definition show_source_index (s : source_index) : bytes :=
  match s with
  | Leaf i => paren [lit "Leaf"; show_nat i]
  | Pair a b => paren [lit "Pair"; show_nat a; show_nat b]
  end.

Definition show_node (n : node) : bytes :=
  paren [lit "node"; show_strs (n_targets n); show_list show_source_index (n_source_indices n);
         show_strs (n_command n)].

Definition show_pack (p : node_pack) : bytes :=
  paren [lit "pack"; show_strs (p_leaves p); show_list show_node (p_nodes p)].

Definition show_toposort (r : result node_pack sort_err) : bytes := show_res show_pack show_sort_err r.
