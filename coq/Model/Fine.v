(* Model of build.rs build() under interleavings INSIDE the workers' work steps.
   Model/Sched.v lets the workers' work steps happen in any order, each step atomic. Here a rule thread's
   work is split at every operation on the one piece of state the threads share, the cache directory:
       rename(target -> cache/<hash>)        back-up                      (SysCache::back_up_file_with_ticket)
       is_file(cache/<hash>)                 the check of restore_file
       rename(cache/<hash> -> target)        the rename of restore_file; it may find the entry gone
                                             (NotFound => NotThere, the repair of F2)
   Everything else a rule thread does touches only its own targets (hashing them, running its command, which reads
   sources that are final by C03 and writes the rule's targets) or its private data, so it is attached to the
   neighbouring step: the granularity is that of the scheduler shim's yield points in the schedule exploration.
   A global step = one step of one worker that is able to move; a run = a list of worker numbers (choices).
   Proofs/FineFacts.v: running every worker to completion in spawn order is Build.build; every complete run gives
   the same verdict and the same content of every file (C06 for these interleavings). *)
From Ruler Require Export Bytes AList RuleSyntax Parser TopoSort World Cmdlang Work Build Ops Sched.
Local Open Scope nat_scope.

Section Fine.
  Variable T : Type.
  Variable teqb : T -> T -> bool.
  Variable hc : bytes -> T.
  Variable hl : list T -> T.
  Variable hr : rule -> T.

  Notation world := (world T).
  Notation fstate := (fstate T).
  Notation history := (history T).
  Notation thread_result := (thread_result T).

  Inductive wphase :=
  | WWait                                       (* has not started: waits for its sources' packets *)
  | WResolve (done : list resolution) (i : nat) (* history entry found; targets < i resolved; next: look at target i *)
  | WCheck (done : list resolution) (i : nat)   (* target i is out of the way; next: is_file(cache/<remembered i>) *)
  | WRename (done : list resolution) (i : nat)  (* the check said yes; next: rename(cache/<remembered i> -> target i) *)
  | WFresh (i : nat)                            (* no history entry; targets < i displaced; next: displace target i *)
  | WFinish (ress : option (list resolution))   (* targets resolved (Some) / displaced (None); next: the rest of
                                                   handle_rule_node in one step (command if needed, observe, record) *)
  | WDone.

  Record wstate := mk_wst { wst_phase : wphase; wst_key : option T; wst_rem : list fstate }.

  Record fnstate := mk_fn {
    fn_world : world;
    fn_workers : list wstate;                                  (* per worker, in spawn order (leaves first) *)
    fn_sent : list (option (option (list T)));
    fn_res : list (option (option rule * thread_result));
    fn_commands : list bytes
  }.

  Definition upd_worker (st : fnstate) (k : nat) (ws : wstate) : fnstate :=
    mk_fn (fn_world st) (set_nth k ws (fn_workers st)) (fn_sent st) (fn_res st) (fn_commands st).

  Definition set_world (st : fnstate) (w : world) : fnstate :=
    mk_fn w (fn_workers st) (fn_sent st) (fn_res st) (fn_commands st).

  (* worker k ends: what it sends, its result, the script lines it executed *)
  Definition finish_worker (st : fnstate) (k : nat) (w : world) (sent : option (list T))
             (res : option rule * thread_result) (script : list bytes) : fnstate :=
    mk_fn w (set_nth k (mk_wst WDone None []) (fn_workers st)) (set_nth k (Some sent) (fn_sent st))
          (set_nth k (Some res) (fn_res st)) (fn_commands st ++ script).

  Definition phase_of (st : fnstate) (k : nat) : wphase := wst_phase (nth k (fn_workers st) (mk_wst WDone None [])).

  Definition sent_by (st : fnstate) (d : nat) : bool :=
    match nth d (fn_sent st) None with Some _ => true | None => false end.

  (* the rest of work::handle_rule_node once every target is resolved (Work.handle_rule from `forget_replaced` on) *)
  Definition rule_tail (w1 : world) (b : blob T) (h : history) (key : T) (command : list bytes)
             (ress : list resolution) : result (work_result T) work_err * world * list bytes :=
    let b := forget_replaced hc b ress in
    if needs_rebuild ress then
      let script := script_lines command in
      let (codes, w2) := run_script w1 script in
      match command_verdict codes with
      | Some e => (Err e, w2, script)
      | None =>
          match update_blob teqb hc w2 b with
          | Err p => (Err (WTargetNotGenerated p), w2, script)
          | Ok b' =>
              let ts := map (fun e => fs_t (snd e)) b' in
              match history_insert teqb h key ts (map fst b) with
              | Err e => (Err e, w2, script)
              | Ok h' => (Ok (mk_wr ts b' CommandExecuted (Some h')), w2, script)
              end
          end
      end
    else
      match current_tickets teqb hc w1 b with
      | Err p => (Err (WFileNotFound p), w1, [])
      | Ok ts => (Ok (mk_wr ts b (Resolutions ress) (Some h)), w1, [])
      end.

  (* one step of worker k; None: it cannot move (done, out of range, or still waiting for a packet) *)
  Definition fstep (pack : node_pack) (blobs : list (blob T)) (hists : list history)
             (st : fnstate) (k : nat) : option fnstate :=
    let nl := length (p_leaves pack) in
    let b := nth k blobs [] in
    let ws := nth k (fn_workers st) (mk_wst WDone None []) in
    let w := fn_world st in
    if Nat.ltb k nl then
      match wst_phase ws with
      | WWait =>
          match handle_leaf teqb hc w b with
          | Ok wr => Some (finish_worker st k w (Some (wr_tickets wr)) (None, TOk wr) [])
          | Err e => Some (finish_worker st k w None (None, TErr e) [])
          end
      | _ => None
      end
    else
      match nth_error (p_nodes pack) (k - nl) with
      | None => None
      | Some n =>
          let h := nth (k - nl) hists [] in
          let fail (w' : world) (e : work_err) := Some (finish_worker st k w' None (Some (n_rule n), TErr e) []) in
          let goto (w' : world) (ph : wphase) :=
            Some (upd_worker (set_world st w') k (mk_wst ph (wst_key ws) (wst_rem ws))) in
          match wst_phase ws with
          | WWait =>
              if negb (forallb (sent_by st) (deps pack k)) then None
              else
                match all_some (map (sreceived nl (fn_sent st)) (n_source_indices n)) with
                | None => Some (finish_worker st k w None (Some (n_rule n), TCanceled) [])
                | Some tickets =>
                    let key := hl tickets in
                    match alookup teqb h key with
                    | Some rem => Some (upd_worker st k (mk_wst (WResolve [] 0) (Some key) rem))
                    | None => Some (upd_worker st k (mk_wst (WFresh 0) (Some key) []))
                    end
                end
          | WResolve done i =>
              match nth_error b i with
              | None => goto w (WFinish (Some done))
              | Some (p, assumed) =>
                  match nth_error (wst_rem ws) i with
                  | None => fail w WWeird
                  | Some r =>
                      match get_file_ticket teqb hc w p assumed with
                      | Some cur =>
                          if teqb (fs_t r) cur then goto w (WResolve (done ++ [AlreadyCorrect]) (S i))
                          else match back_up teqb w cur p with
                               | None => fail w WCacheDirMissing
                               | Some w1 => goto w1 (WCheck done i)
                               end
                      | None => goto w (WCheck done i)
                      end
                  end
              end
          | WCheck done i =>
              match nth_error (wst_rem ws) i, cache_of w with
              | Some r, Some c =>
                  match alookup teqb c (fs_t r) with
                  | Some _ => goto w (WRename done i)
                  | None => goto w (WResolve (done ++ [NeedsRebuild]) (S i))
                  end
              | Some _, None => fail w WCacheDirMissing
              | None, _ => fail w WWeird
              end
          | WRename done i =>
              match nth_error b i, nth_error (wst_rem ws) i with
              | Some (p, _), Some r =>
                  match restore teqb w (fs_t r) p with
                  | RDone w1 => goto w1 (WResolve (done ++ [Recovered]) (S i))
                  | RNotThere => goto w (WResolve (done ++ [NeedsRebuild]) (S i))     (* another rule took the entry *)
                  | RCacheMissing => fail w WCacheDirMissing
                  end
              | _, _ => fail w WWeird
              end
          | WFresh i =>
              match nth_error b i with
              | None => goto w (WFinish None)
              | Some (p, assumed) =>
                  match get_file_ticket teqb hc w p assumed with
                  | Some cur =>
                      match back_up teqb w cur p with
                      | None => fail w WCacheDirMissing
                      | Some w1 => goto w1 (WFresh (S i))
                      end
                  | None => goto w (WFresh (S i))
                  end
              end
          | WFinish ro =>
              let ress := match ro with Some r => r | None => map (fun _ => NeedsRebuild) b end in
              match wst_key ws with
              | None => None
              | Some key =>
                  match rule_tail w b h key (n_command n) ress with
                  | (Ok wr, w', script) => Some (finish_worker st k w' (Some (wr_tickets wr)) (Some (n_rule n), TOk wr) script)
                  | (Err e, w', script) => Some (finish_worker st k w' None (Some (n_rule n), TErr e) script)
                  end
              end
          | WDone => None
          end
      end.

  (* a run: the listed workers move one step each, in that order; a worker that cannot move is skipped *)
  Definition frun (pack : node_pack) (blobs : list (blob T)) (hists : list history)
             (choices : list nat) (st : fnstate) : fnstate :=
    fold_left (fun s k => match fstep pack blobs hists s k with Some s' => s' | None => s end) choices st.

  Definition all_done (st : fnstate) : bool :=
    forallb (fun ws => match wst_phase ws with WDone => true | _ => false end) (fn_workers st).

  (* an upper bound on the number of steps one worker makes: start + per target (look, check, rename) + finish *)
  Definition worker_fuel (b : blob T) : nat := 3 + 3 * length b.

  (* every worker in spawn order, each to completion *)
  Definition serial_choices (pack : node_pack) (blobs : list (blob T)) : list nat :=
    flat_map (fun k => repeat k (worker_fuel (nth k blobs []))) (seq 0 (nworkers pack)).

  Definition build_fine (choices : list nat) (w : world) (rules_path : bytes) (goal : option bytes) : outcome T :=
    match init_dir T w with
    | Err f => mk_outcome (init_dir_world_on_error T w) (VFatal f) [] []
    | Ok (w1, t) =>
        match get_nodes T w1 rules_path goal with
        | Err f => mk_outcome w1 (VFatal f) [] []
        | Ok pack =>
            match read_histories T teqb hr w1 (p_nodes pack) with
            | None => build teqb hc hl hr w rules_path goal
            | Some hists =>
                let (blobs, t') := take_blobs T hc t (worker_paths pack) in
                let n := nworkers pack in
                let st0 := mk_fn (write_table T w1 t') (repeat (mk_wst WWait None []) n) (repeat None n) (repeat None n) [] in
                let st1 := frun pack blobs hists choices st0 in
                let results := flat_map (fun o => match o with Some r => [r] | None => [] end) (fn_res st1) in
                let js := fold_left (join_one T teqb hr) results (mk_js T (fn_world st1) t' [] []) in
                let w3 := write_table T (js_world T js) (js_table T js) in
                mk_outcome w3 (match js_errors T js with [] => VOk | es => VWorkErrors es end)
                           (fn_commands st1) (js_status T js)
            end
        end
    end.
End Fine.

Arguments mk_fn {T}.
Arguments fn_world {T}.
Arguments fn_workers {T}.
Arguments fn_sent {T}.
Arguments fn_res {T}.
Arguments fn_commands {T}.
Arguments fstep {T}.
Arguments frun {T}.
Arguments all_done {T}.
Arguments build_fine {T}.
