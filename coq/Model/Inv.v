(* The disk invariant shared by the build-level theorems (DESIGN.md 4.4), and the primitive steps
   ruler's threads perform on shared state. Everything is generic in the ticket type T; hashing is
   idealised as an injective function hc (the free symbolic instance satisfies it, see Proofs/). *)
From Ruler Require Export Bytes AList RuleSyntax World Cmdlang Work Build Ops.

Section Inv.
  Variable T : Type.
  Variable teqb : T -> T -> bool.
  Variable hc : bytes -> T.

  Notation world := (world T).
  Notation fstate := (fstate T).

  (* a file anywhere ruler can move it: in the workspace or in the cache *)
  Definition any_file (w : world) (f : file) : Prop :=
    (exists p, fget w p = Some f) \/
    (exists c t, cache_of w = Some c /\ alookup teqb c t = Some f).

  (* MT1: equal modification times mean equal content, across workspace and cache *)
  Definition mt_unique (w : world) : Prop :=
    forall f g, any_file w f -> any_file w g -> f_mtime f = f_mtime g -> f_content f = f_content g.

  (* a remembered state is sound: either it is the whole state FileState::empty() ("nothing is remembered
     about this path": the shortcut never applies to it, see Work.shortcut), or its (ticket, time) pair is
     sound: whichever existing file carries that time has that hash.  Files may carry ANY time, 0 (the
     Unix epoch) included: the empty state is recognised by all three of its fields, not by its time. *)
  Definition state_ok (w : world) (st : fstate) : Prop :=
    is_empty_state teqb hc st = true \/
    (fs_mtime st <= w_clock w /\
     forall f, any_file w f -> f_mtime f = fs_mtime st -> fs_t st = hc (f_content f)).

  (* the clock is not behind any file (nothing is assumed about time 0) *)
  Definition clock_ok (w : world) : Prop :=
    forall f, any_file w f -> f_mtime f <= w_clock w.

  (* CA: every cache entry is stored under the hash of its own content *)
  Definition cache_addressed (w : world) : Prop :=
    forall c t f, cache_of w = Some c -> alookup teqb c t = Some f -> t = hc (f_content f).

  Definition table_sound (w : world) : Prop :=
    forall tbl p st, rd_table (w_rd w) = Some (SF_ok tbl) -> alookup bytes_eqb tbl p = Some st -> state_ok w st.

  Definition disk_inv (w : world) : Prop :=
    w_mode w = Fine /\ mt_unique w /\ clock_ok w /\ cache_addressed w /\ table_sound w.

  (* rd' is rd with things removed or damaged: every cache entry / history file / table entry that
     rd' shows was there before *)
  Definition rdir_shrinks (rd rd' : rdir T) : Prop :=
    (forall c' t f, rd_cache rd' = Some c' -> alookup teqb c' t = Some f ->
                    exists c, rd_cache rd = Some c /\ alookup teqb c t = Some f) /\
    (forall tbl', rd_table rd' = Some (SF_ok tbl') -> rd_table rd = Some (SF_ok tbl')) /\
    (forall hs' t h, rd_hist rd' = Some hs' -> alookup teqb hs' t = Some (SF_ok h) ->
                     exists hs, rd_hist rd = Some hs /\ alookup teqb hs t = Some (SF_ok h)).

  (* ---- the primitive steps on shared state ---- *)

  Inductive step : world -> world -> Prop :=
  (* rename(path -> cache/<t>) where t came out of the mtime shortcut with a sound remembered state *)
  | SBackup w p assumed t w' :
      state_ok w assumed -> get_file_ticket teqb hc w p assumed = Some t ->
      back_up teqb w t p = Some w' -> step w w'
  (* rename(cache/<t> -> path) *)
  | SRestore w t p w' :
      restore teqb w t p = RDone w' -> step w w'
  (* effects of a user's command (or of the user): write, delete, chmod a workspace file *)
  | SWrite w p c : step w (write_file w p c)
  | SRemove w p : step w (remove_file w p)
  | SChmod w p x : step w (set_exec w p x)
  | SMove w p q : step w (move_file w p q)
  (* main thread: state files and directories *)
  | SWriteTable w tbl :
      (forall p st, alookup bytes_eqb tbl p = Some st -> state_ok w st) ->
      step w (write_table T w tbl)
  | SWriteHist w (hr : rule -> T) r h : step w (write_history T teqb hr w r h)
  | SInitDir w w' tbl : init_dir T w = Ok (w', tbl) -> step w w'
  | STick w : step w (tick w)
  (* the user deletes or damages parts of the ruler directory (never adds decodable content) *)
  | SUserRd w rd' : rdir_shrinks (w_rd w) rd' -> step w (set_rd w rd').

  (* ruler's own steps (everything except what commands / the user do) *)
  Inductive own_step : world -> world -> Prop :=
  | OBackup w p assumed t w' :
      state_ok w assumed -> get_file_ticket teqb hc w p assumed = Some t ->
      back_up teqb w t p = Some w' -> own_step w w'
  | ORestore w t p w' :
      fget w p = None ->                      (* ruler restores only into a path it found or made empty *)
      restore teqb w t p = RDone w' -> own_step w w'
  | OWriteTable w tbl : own_step w (write_table T w tbl)
  | OWriteHist w (hr : rule -> T) r h : own_step w (write_history T teqb hr w r h)
  | OInitDir w w' tbl : init_dir T w = Ok (w', tbl) -> own_step w w'.

  (* the contents that C08 protects: what is in the cache, and what sits at one of the given paths *)
  Definition protected_content (paths : list bytes) (w : world) (c : bytes) : Prop :=
    (exists p f, In p paths /\ fget w p = Some f /\ f_content f = c) \/
    (exists ch t f, cache_of w = Some ch /\ alookup teqb ch t = Some f /\ f_content f = c).
End Inv.

Arguments any_file {T}.
Arguments mt_unique {T}.
Arguments state_ok {T}.
Arguments clock_ok {T}.
Arguments cache_addressed {T}.
Arguments table_sound {T}.
Arguments disk_inv {T}.
Arguments step {T}.
Arguments own_step {T}.
Arguments protected_content {T}.
