(* Model of build.rs clean() under interleavings of its rule threads.
   Build.clean is the serial schedule (one node after the other, each node's targets in order). In the code every node
   of the plan gets a thread (work::clean_targets) that, for each of its targets in order, hashes the file if it exists
   (through the shortcut) and renames it into the cache under that hash. The threads share nothing but the cache
   directory; they exchange no packets. Here a thread's work is split at every target (one step = look at one target and,
   if it is there, move it into the cache); a run is a list of node numbers, as in Model/Fine.v.
   Proofs/CleanFineFacts.v: the serial run is Build.clean; every complete run gives the same verdict, the same workspace
   and the same cache CONTENTS (name -> bytes); which of two byte-identical files ends up as the cache entry (its
   modification time and executable bit) depends on the order and on nothing else. *)
From Ruler Require Export Bytes AList RuleSyntax Parser TopoSort World Cmdlang Work Build Ops Sched.
Local Open Scope nat_scope.

Section CleanFine.
  Variable T : Type.
  Variable teqb : T -> T -> bool.
  Variable hc : bytes -> T.

  Notation world := (world T).

  (* per node: Some i = its thread looks at target i next; None = the thread has ended (all targets done, or an error) *)
  Record cstate := mk_cs {
    cs_world : world;
    cs_pos : list (option nat);
    cs_err : list (option work_err)        (* per node: the error its thread ended with *)
  }.

  Definition cstep (blobs : list (blob T)) (st : cstate) (k : nat) : option cstate :=
    match nth k (cs_pos st) None with
    | None => None
    | Some i =>
        match nth_error (nth k blobs []) i with
        | None => Some (mk_cs (cs_world st) (set_nth k None (cs_pos st)) (cs_err st))
        | Some (p, assumed) =>
            match get_file_ticket teqb hc (cs_world st) p assumed with
            | None => Some (mk_cs (cs_world st) (set_nth k (Some (S i)) (cs_pos st)) (cs_err st))
            | Some t =>
                match back_up teqb (cs_world st) t p with
                | None => Some (mk_cs (cs_world st) (set_nth k None (cs_pos st)) (set_nth k (Some WCacheDirMissing) (cs_err st)))
                | Some w1 => Some (mk_cs w1 (set_nth k (Some (S i)) (cs_pos st)) (cs_err st))
                end
            end
        end
    end.

  Definition crun (blobs : list (blob T)) (choices : list nat) (st : cstate) : cstate :=
    fold_left (fun s k => match cstep blobs s k with Some s' => s' | None => s end) choices st.

  Definition call_done (st : cstate) : bool :=
    forallb (fun o => match o with None => true | Some _ => false end) (cs_pos st).

  (* the blobs of the nodes, taken from the table in plan order as Build.clean_nodes does *)
  Fixpoint node_blobs (t : table T) (ns : list node) : list (blob T) :=
    match ns with
    | [] => []
    | n :: rest => let (b, t') := take_blob T hc t (n_targets n) in b :: node_blobs t' rest
    end.

  (* every node in plan order, each to completion *)
  Definition cserial (blobs : list (blob T)) : list nat :=
    flat_map (fun k => repeat k (S (length (nth k blobs [])))) (seq 0 (length blobs)).

  Definition clean_fine (choices : list nat) (w : world) (rules_path : bytes) (goal : option bytes) : outcome T :=
    match init_dir T w with
    | Err f => mk_outcome (init_dir_world_on_error T w) (VFatal f) [] []
    | Ok (w1, t) =>
        match get_nodes T w1 rules_path goal with
        | Err f => mk_outcome w1 (VFatal f) [] []
        | Ok pack =>
            let blobs := node_blobs t (p_nodes pack) in
            let n := length blobs in
            let st := crun blobs choices (mk_cs w1 (repeat (Some 0) n) (repeat None n)) in
            let errs := flat_map (fun o => match o with Some e => [e] | None => [] end) (cs_err st) in
            mk_outcome (cs_world st) (match errs with [] => VOk | es => VWorkErrors es end) [] []
        end
    end.
End CleanFine.

Arguments mk_cs {T}.
Arguments cs_world {T}.
Arguments cs_pos {T}.
Arguments cs_err {T}.
Arguments cstep {T}.
Arguments crun {T}.
Arguments call_done {T}.
Arguments node_blobs {T}.
Arguments cserial {T}.
Arguments clean_fine {T}.
