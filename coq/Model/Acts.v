(* The primitive actions ruler performs on the disk, listed in the order in which the modelled (serial)
   build and clean perform them. One action = one atomic change of the disk as another process (or a
   kill) can observe it: a mkdir, a rename into or out of the cache, one script line of a user command
   (the mini-language writes at most one file per line), the replacement of a state file under its real
   name (after the repair of F3 that is one rename of a complete `.partial` file).
   A crash state is the disk after a PREFIX of this list: `run_acts (firstn k (build_acts w rp goal)) w`.
   Proofs/ActsFacts.v proves that the whole list reproduces Build.build / Build.clean exactly; the crash
   suite compares the implementation's mutation log and snapshots with this list and its prefix states. *)
From Ruler Require Export Bytes AList RuleSyntax World Cmdlang Work Build Ops.

Section Acts.
  Variable T : Type.
  Variable teqb : T -> T -> bool.
  Variable hc : bytes -> T.
  Variable hl : list T -> T.
  Variable hr : rule -> T.

  Notation world := (world T).
  Notation fstate := (fstate T).
  Notation table := (table T).
  Notation history := (history T).

  Inductive act :=
  | AMkRuler                              (* create_dir(.ruler) *)
  | AMkCache                              (* create_dir(.ruler/cache) *)
  | AMkHist                               (* create_dir(.ruler/history) *)
  | ANewTable                             (* current_file_states absent: an empty table is put there *)
  | ABackup (p : bytes) (t : T)           (* rename(p -> cache/<t>) *)
  | ARestore (t : T) (p : bytes)          (* rename(cache/<t> -> p) *)
  | ALine (line : bytes)                  (* one script line of a command *)
  | AWriteHist (r : rule) (h : history)   (* the rule's history file is replaced *)
  | AWriteTable (tbl : table).            (* current_file_states is replaced *)

  Definition do_act (w : world) (a : act) : world :=
    let rd := w_rd w in
    match a with
    | AMkRuler => set_rd w (mk_rdir true (rd_cache rd) (rd_hist rd) (rd_table rd))
    | AMkCache =>
        set_rd w (mk_rdir (rd_exists rd) (match rd_cache rd with Some c => Some c | None => Some [] end)
                          (rd_hist rd) (rd_table rd))
    | AMkHist =>
        set_rd w (mk_rdir (rd_exists rd) (rd_cache rd)
                          (match rd_hist rd with Some h => Some h | None => Some [] end) (rd_table rd))
    | ANewTable =>
        set_rd w (mk_rdir (rd_exists rd) (rd_cache rd) (rd_hist rd)
                          (match rd_table rd with Some x => Some x | None => Some (SF_ok []) end))
    | ABackup p t => match back_up teqb w t p with Some w' => w' | None => w end
    | ARestore t p => match restore teqb w t p with RDone w' => w' | _ => w end
    | ALine l => snd (run_line w l)
    | AWriteHist r h => write_history T teqb hr w r h
    | AWriteTable tbl => write_table T w tbl
    end.

  Definition run_acts (acts : list act) (w : world) : world := fold_left do_act acts w.

  (* directory::init *)
  Definition init_acts (w : world) : list act :=
    let rd := w_rd w in
    (if rd_exists rd then [] else [AMkRuler]) ++
    (match rd_cache rd with Some _ => [] | None => [AMkCache] end) ++
    (match rd_hist rd with Some _ => [] | None => [AMkHist] end) ++
    (match rd_table rd with Some _ => [] | None => [ANewTable] end).

  (* ---- one rule thread (Work.v, same case analysis) ---- *)

  Definition restore_acts (w : world) (t : T) (p : bytes) : list act :=
    match restore teqb w t p with RDone _ => [ARestore t p] | _ => [] end.

  Definition resolve_single_acts (w : world) (remembered : T) (p : bytes) (assumed : fstate) : list act :=
    match get_file_ticket teqb hc w p assumed with
    | Some cur =>
        if teqb remembered cur then []
        else match back_up teqb w cur p with
             | None => []
             | Some w1 => ABackup p cur :: restore_acts w1 remembered p
             end
    | None => restore_acts w remembered p
    end.

  Fixpoint resolve_remembered_acts (w : world) (b : blob T) (remembered : list fstate) : list act :=
    match b with
    | [] => []
    | (p, assumed) :: rest =>
        match remembered with
        | [] => []
        | r :: rrest =>
            resolve_single_acts w (fs_t r) p assumed ++
            match resolve_single teqb hc w (fs_t r) p assumed with
            | Err _ => []
            | Ok (_, w1) => resolve_remembered_acts w1 rest rrest
            end
        end
    end.

  Fixpoint resolve_fresh_acts (w : world) (b : blob T) : list act :=
    match b with
    | [] => []
    | (p, assumed) :: rest =>
        match get_file_ticket teqb hc w p assumed with
        | Some cur =>
            match back_up teqb w cur p with
            | None => []
            | Some w1 => ABackup p cur :: resolve_fresh_acts w1 rest
            end
        | None => resolve_fresh_acts w rest
        end
    end.

  (* work::handle_rule_node. As in Work.handle_rule, what was done before a resolution error (which needs
     a missing cache directory) is not modelled: no action then. *)
  Definition handle_rule_acts (w : world) (b : blob T) (h : history) (sources_ticket : T)
             (command : list bytes) : list act :=
    let remembered_opt := alookup teqb h sources_ticket in
    let resolved :=
      match remembered_opt with
      | Some remembered => resolve_remembered teqb hc w b remembered
      | None => resolve_fresh teqb hc w b
      end in
    match resolved with
    | Err _ => []
    | Ok (ress, _) =>
        (match remembered_opt with
         | Some remembered => resolve_remembered_acts w b remembered
         | None => resolve_fresh_acts w b
         end) ++
        (if needs_rebuild ress then map ALine (script_lines command) else [])
    end.

  (* ---- the rule threads in spawn order (Build.run_node / run_nodes) ---- *)

  Definition run_node_acts (st : run_state T) (n : node) : list act :=
    let (b, _) := take_blob T hc (rs_table T st) (n_targets n) in
    match read_history T teqb hr (rs_world T st) (n_rule n) with
    | None => []
    | Some h =>
        match all_some (map (received T (rs_leaf_sent T st) (rs_node_sent T st)) (n_source_indices n)) with
        | None => []
        | Some tickets => handle_rule_acts (rs_world T st) b h (hl tickets) (n_command n)
        end
    end.

  (* stops where run_nodes stops (an unreadable history file) *)
  Fixpoint run_nodes_acts (st : run_state T) (ns : list node) : list act :=
    match ns with
    | [] => []
    | n :: rest =>
        match run_node T teqb hc hl hr st n with
        | None => []
        | Some st' => run_node_acts st n ++ run_nodes_acts st' rest
        end
    end.

  (* main's join loop: one history file per successful rule thread, in spawn order *)
  Definition join_acts (results : list (option rule * thread_result T)) : list act :=
    flat_map (fun res =>
                match res with
                | (Some r, TOk wr) => match wr_history wr with Some h => [AWriteHist r h] | None => [] end
                | _ => []
                end) results.

  Definition build_acts (w : world) (rules_path : bytes) (goal : option bytes) : list act :=
    init_acts w ++
    match init_dir T w with
    | Err _ => []
    | Ok (w1, t) =>
        match get_nodes T w1 rules_path goal with
        | Err _ => []
        | Ok pack =>
            let t_rest := table_rest T hc t pack in
            let st0 := mk_rs T (write_table T w1 t_rest) t [] [] [] [] in
            let st1 := fold_left (run_leaf T teqb hc) (p_leaves pack) st0 in
            AWriteTable t_rest ::
            run_nodes_acts st1 (p_nodes pack) ++
            match run_nodes T teqb hc hl hr st1 (p_nodes pack) with
            | None => []
            | Some st2 =>
                let js := fold_left (join_one T teqb hr) (rs_results T st2)
                                    (mk_js T (rs_world T st2) (rs_table T st2) [] []) in
                join_acts (rs_results T st2) ++ [AWriteTable (js_table T js)]
            end
        end
    end.

  (* ---- clean ---- *)

  Fixpoint clean_targets_acts (w : world) (b : blob T) : list act :=
    match b with
    | [] => []
    | (p, assumed) :: rest =>
        match get_file_ticket teqb hc w p assumed with
        | None => clean_targets_acts w rest
        | Some t =>
            match back_up teqb w t p with
            | None => []
            | Some w1 => ABackup p t :: clean_targets_acts w1 rest
            end
        end
    end.

  Fixpoint clean_nodes_acts (w : world) (t : table) (ns : list node) : list act :=
    match ns with
    | [] => []
    | n :: rest =>
        let (b, t') := take_blob T hc t (n_targets n) in
        match clean_targets teqb hc w b with
        | Ok w' => clean_targets_acts w b ++ clean_nodes_acts w' t' rest
        | Err _ => clean_nodes_acts w t' rest
        end
    end.

  Definition clean_acts (w : world) (rules_path : bytes) (goal : option bytes) : list act :=
    init_acts w ++
    match init_dir T w with
    | Err _ => []
    | Ok (w1, t) =>
        match get_nodes T w1 rules_path goal with
        | Err _ => []
        | Ok pack => clean_nodes_acts w1 t (p_nodes pack)
        end
    end.

  (* the crash states of an invocation: the disk after every prefix of its actions *)
  Definition crash_states (acts : list act) (w : world) : list world :=
    map (fun k => run_acts (firstn k acts) w) (seq 0 (S (length acts))).
End Acts.

Arguments AMkRuler {T}.
Arguments AMkCache {T}.
Arguments AMkHist {T}.
Arguments ANewTable {T}.
Arguments ABackup {T}.
Arguments ARestore {T}.
Arguments ALine {T}.
Arguments AWriteHist {T}.
Arguments AWriteTable {T}.
Arguments do_act {T}.
Arguments run_acts {T}.
Arguments init_acts {T}.
Arguments handle_rule_acts {T}.
Arguments build_acts {T}.
Arguments clean_acts {T}.
Arguments crash_states {T}.
