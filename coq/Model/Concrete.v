(* The executable instance: tickets are SHA-256 values, names are their base-62 text form. *)
From Coq Require Import String.
From Ruler Require Import Bytes Show Base62 Sha256 TicketModel RuleSyntax Bincode StateFiles
     Parser TopoSort ShowRules World Cmdlang Work Build Ops.

Definition cticket := bytes.
Definition c_teqb : cticket -> cticket -> bool := bytes_eqb.
Definition c_hc (content : bytes) : cticket := sha256 content.
Definition c_hl (ts : list cticket) : cticket := sha256 (concat ts).
Definition c_hr (r : rule) : cticket := sha256 (ser_rule r).

Definition cworld := world cticket.
Definition cop := op cticket.

Definition c_apply : cworld -> cop -> cworld * option (outcome cticket) :=
  apply_op c_teqb c_hc c_hl c_hr.

(* state files given as raw bytes (user damage, torn writes): decoded the way ruler decodes them *)
Definition fstate_of (s : file_state) : fstate cticket := mk_fstate (fs_ticket s) (Bincode.fs_time s) (fs_exec s).

Definition table_of_raw (b : bytes) : sf (table cticket) :=
  match de_table b with
  | Some l => SF_ok (map (fun e => (fst e, fstate_of (snd e))) (canon_map l))
  | None => SF_bad
  end.

Definition history_of_raw (b : bytes) : sf (history cticket) :=
  match de_history b with
  | Some l => SF_ok (map (fun e => (fst e, map fstate_of (snd e))) (canon_map l))
  | None => SF_bad
  end.

(* ---------- observations ---------- *)

Definition show_work_err (e : work_err) : bytes :=
  match e with
  | WFileNotFound p => paren [lit "FileNotFound"; show_bytes p]
  | WTargetNotGenerated p => paren [lit "TargetFileNotGenerated"; show_bytes p]
  | WCommandErrored => lit "CommandExecutedButErrored"
  | WNoCommand => lit "NoCommandExecuted"
  | WContradiction ps => paren [lit "Contradiction"; show_list show_bytes ps]
  | WWeird => lit "Weird"
  | WCacheDirMissing => lit "CacheDirectoryMissing"
  end.

Definition show_fatal (f : fatal) : bytes :=
  match f with
  | FTable => lit "Table"
  | FRulesOpen => lit "RulesOpen"
  | FNotUtf8 => lit "NotUtf8"
  | FParse e => paren [lit "Parse"; show_parse_err e]
  | FSort e => paren [lit "Sort"; show_sort_err e]
  | FHistory => lit "History"
  end.

Definition show_verdict (v : verdict) : bytes :=
  match v with
  | VOk => lit "ok"
  | VWorkErrors es => paren (lit "errs" :: map show_work_err es)
  | VFatal f => paren [lit "fatal"; show_fatal f]
  end.

Definition show_banner (b : banner) : bytes :=
  match b with
  | BUpToDate => lit "Up-to-date"
  | BRecovered => lit "Recovered"
  | BOutdated => lit "Outdated"
  | BBuilt => lit "Built"
  end.

Definition show_file (f : file) : list bytes := [show_bytes (f_content f); show_bool (f_exec f)].

Definition show_files (fs : list (bytes * file)) : bytes :=
  show_list (fun e => paren (show_bytes (fst e) :: show_file (snd e))) (canon_map fs).

Definition show_cache (c : option (list (cticket * file))) : bytes :=
  match c with
  | None => lit "none"
  | Some l => show_list (fun e => paren (show_bytes (fst e) :: show_file (snd e)))
                        (canon_map (map (fun e => (encode62 (fst e), snd e)) l))
  end.

Definition show_fstate (s : fstate cticket) : bytes :=
  paren [show_bytes (fs_t s); show_N (fs_mtime s); show_bool (fs_x s)].

Definition show_hist_file (h : sf (history cticket)) : bytes :=
  match h with
  | SF_bad => lit "bad"
  | SF_ok l => show_list (fun e => paren [show_bytes (fst e); show_list show_fstate (snd e)]) (canon_map l)
  end.

Definition show_hist (h : option (list (cticket * sf (history cticket)))) : bytes :=
  match h with
  | None => lit "none"
  | Some l => show_list (fun e => paren [show_bytes (fst e); show_hist_file (snd e)])
                        (canon_map (map (fun e => (encode62 (fst e), snd e)) l))
  end.

(* table entries are shown with "fresh": does the remembered time equal the file's current mtime
   (that is all the shortcut ever asks); absolute times are not compared between model and code *)
Definition show_table_entry (w : cworld) (e : bytes * fstate cticket) : bytes :=
  let fresh := match fget w (fst e) with
               | Some f => show_bool (f_mtime f =? fs_mtime (snd e))
               | None => lit "-"
               end in
  paren [show_bytes (fst e); show_bytes (fs_t (snd e)); fresh; show_bool (fs_x (snd e))].

Definition show_tbl (w : cworld) (t : option (sf (table cticket))) : bytes :=
  match t with
  | None => lit "none"
  | Some SF_bad => lit "bad"
  | Some (SF_ok l) => show_list (show_table_entry w) (canon_map l)
  end.

Definition show_world (w : cworld) : list bytes :=
  [show_files (w_files w); show_cache (rd_cache (w_rd w)); show_hist (rd_hist (w_rd w));
   show_tbl w (rd_table (w_rd w))].

Definition show_obs (w : cworld) (o : option (outcome cticket)) : bytes :=
  match o with
  | None => paren (lit "obs" :: lit "-" :: lit "-" :: lit "-" :: show_world w)
  | Some oc =>
      paren (lit "obs" :: show_verdict (o_verdict oc) :: show_list show_bytes (o_commands oc)
               :: show_list (fun s => paren [show_banner (fst s); show_bytes (snd s)]) (o_status oc)
               :: show_world w)
  end.

Fixpoint run_history (w : cworld) (ops : list cop) : list bytes :=
  match ops with
  | [] => []
  | o :: rest =>
      let (w', oc) := c_apply w o in
      show_obs w' oc :: run_history w' rest
  end.

Definition show_history_run (mode : clock_mode) (t0 : N) (ops : list cop) : bytes :=
  paren (lit "l" :: run_history (init_world mode t0) ops).
