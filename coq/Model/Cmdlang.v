(* The command mini-language that stands for the user's shell commands; MemSys (harness/src/memsys.rs,
   run_script_line) implements the same language on the implementation side.
     gen OUT PIECE...  OUT := concatenation of pieces; `@path` = content of that file (exit 1, nothing
                       written, if it is missing), `=text` = literal (%XX escapes)
     fail              exit 1
     chmod OUT         set OUT's executable bit (exit 1 if missing)
     rm PATH           remove PATH
     true              nothing
     anything else     exit 127 *)
From Ruler Require Export Bytes World.

Definition SPACE : N := 32.
Definition SEMI : N := 59.
Definition AT : N := 64.
Definition EQUALS : N := 61.
Definition PERCENT : N := 37.

(* system::to_command_script: command lines joined by " ", a lone ";" line ends a script line *)
Fixpoint script_lines_aux (lines : list bytes) (cur : list bytes) : list bytes :=
  match lines with
  | [] => match cur with [] => [] | _ => [join_with [SPACE] (rev cur)] end
  | l :: r =>
      if bytes_eqb l [SEMI] then join_with [SPACE] (rev cur) :: script_lines_aux r []
      else script_lines_aux r (l :: cur)
  end.
Definition script_lines (command : list bytes) : list bytes := script_lines_aux command [].

Definition tokens (line : bytes) : list bytes :=
  filter (fun t => match t with [] => false | _ => true end) (split_on SPACE line).

Definition hexval (c : N) : option N :=
  if (48 <=? c) && (c <=? 57) then Some (c - 48)
  else if (65 <=? c) && (c <=? 70) then Some (c - 55)
  else if (97 <=? c) && (c <=? 102) then Some (c - 87)
  else None.

Fixpoint unescape (s : bytes) : bytes :=
  match s with
  | [] => []
  | c :: r =>
      if c =? PERCENT then
        match r with
        | h1 :: h2 :: r' =>
            match hexval h1, hexval h2 with
            | Some a, Some b => (a * 16 + b) :: unescape r'
            | _, _ => c :: unescape r
            end
        | _ => c :: unescape r
        end
      else c :: unescape r
  end.

Section Cmd.
  Variable T : Type.
  Notation world := (world T).

  (* None: a piece is missing or malformed (code) *)
  Fixpoint gather (w : world) (pieces : list bytes) : N + bytes :=
    match pieces with
    | [] => inr []
    | p :: r =>
        match p with
        | c :: body =>
            if c =? AT then
              match fget w body with
              | None => inl 1
              | Some f => match gather w r with inl e => inl e | inr d => inr (f_content f ++ d) end
              end
            else if c =? EQUALS then
              match gather w r with inl e => inl e | inr d => inr (unescape body ++ d) end
            else inl 2
        | [] => inl 2
        end
    end.

  (* one script line: exit code and the world afterwards *)
  Definition run_line (w : world) (line : bytes) : N * world :=
    match tokens line with
    | [] => (0, w)
    | op :: args =>
        if bytes_eqb op [116; 114; 117; 101] (* true *) then (0, w)
        else if bytes_eqb op [102; 97; 105; 108] (* fail *) then (1, w)
        else if bytes_eqb op [103; 101; 110] (* gen *) then
          match args with
          | [] => (2, w)
          | out :: pieces =>
              match gather w pieces with
              | inl e => (e, w)
              | inr d => (0, write_file w out d)
              end
          end
        else if bytes_eqb op [99; 104; 109; 111; 100] (* chmod *) then
          match args with
          | [p] => match fget w p with Some _ => (0, set_exec w p true) | None => (1, w) end
          | _ => (2, w)
          end
        else if bytes_eqb op [114; 109] (* rm *) then
          match args with
          | [p] => (0, remove_file w p)
          | _ => (2, w)
          end
        else (127, w)
    end.

  (* execute_command: every script line runs, whatever the earlier ones returned *)
  Fixpoint run_script (w : world) (lines : list bytes) : list N * world :=
    match lines with
    | [] => ([], w)
    | l :: r =>
        let (code, w1) := run_line w l in
        let (codes, w2) := run_script w1 r in
        (code :: codes, w2)
    end.
End Cmd.

Arguments gather {T}.
Arguments run_line {T}.
Arguments run_script {T}.
