(* Model of bundle.rs: tab-indented path bundles. *)
From Ruler Require Export Bytes SortList.

Inductive pnode :=
| PLeaf (name : bytes)
| PParent (name : bytes) (children : list pnode).

Definition pnode_name (n : pnode) : bytes :=
  match n with PLeaf s => s | PParent s _ => s end.

Fixpoint pnode_eqb (a b : pnode) : bool :=
  match a, b with
  | PLeaf x, PLeaf y => bytes_eqb x y
  | PParent x cs, PParent y ds =>
      bytes_eqb x y &&
      (fix go (l1 l2 : list pnode) : bool :=
         match l1, l2 with
         | [], [] => true
         | p :: r1, q :: r2 => pnode_eqb p q && go r1 r2
         | _, _ => false
         end) cs ds
  | _, _ => false
  end.

(* node_type equality of add_to_nodes: same kind, and for directories the same children *)
Definition same_type (a b : pnode) : bool :=
  match a, b with
  | PLeaf _, PLeaf _ => true
  | PParent _ cs, PParent _ ds => pnode_eqb (PParent [] cs) (PParent [] ds)
  | _, _ => false
  end.

Inductive bundle_err :=
| BEmpty
| BContainsEmptyLines (indices : list nat)
| BContradiction (first second : nat)
| BWrongIndent (line : nat)
| BOutOfFuel.       (* model artefact; excluded by Proofs/BundleFacts.v *)

Record nline := mk_nline { nl_num : nat; nl_level : nat; nl_text : bytes }.

Fixpoint strip_tabs (s : bytes) : nat * bytes :=
  match s with
  | c :: r => if c =? TAB then let (n, t) := strip_tabs r in (S n, t) else (O, s)
  | [] => (O, [])
  end.

Definition all_tabs (s : bytes) : bool := forallb (fun c => c =? TAB) s.

Fixpoint number_from (n : nat) (ls : list bytes) : list nline :=
  match ls with
  | [] => []
  | l :: r => let (lvl, t) := strip_tabs l in mk_nline n lvl t :: number_from (S n) r
  end.

Fixpoint empty_indices (n : nat) (ls : list bytes) : list nat :=
  match ls with
  | [] => []
  | l :: r => if all_tabs l then n :: empty_indices (S n) r else empty_indices (S n) r
  end.

(* lines[i+1..j]: the run of strictly deeper lines that follows an entry *)
Fixpoint span_deeper (lvl : nat) (ls : list nline) : list nline * list nline :=
  match ls with
  | [] => ([], [])
  | l :: r =>
      if Nat.ltb lvl (nl_level l) then let (a, b) := span_deeper lvl r in (l :: a, b)
      else ([], ls)
  end.

(* the BTreeMap<String, (PathNode, usize)> of parse_recusrive_helper, as a key-sorted list *)
Fixpoint add_to_nodes (acc : list (pnode * nat)) (n : pnode) (idx : nat)
  : result (list (pnode * nat)) bundle_err :=
  match acc with
  | [] => Ok [(n, idx)]
  | (m, i) :: rest =>
      match bytes_compare (pnode_name n) (pnode_name m) with
      | Lt => Ok ((n, idx) :: acc)
      | Eq => if same_type m n then Ok acc else Err (BContradiction i idx)
      | Gt => match add_to_nodes rest n idx with
              | Ok rest' => Ok ((m, i) :: rest')
              | Err e => Err e
              end
      end
  end.

Fixpoint parse_level (fuel : nat) (lvl : nat) (ls : list nline) : result (list pnode) bundle_err :=
  match fuel with
  | O => Err BOutOfFuel
  | S f =>
      match ls with
      | [] => Err BEmpty
      | first :: _ =>
          if Nat.eqb (nl_level first) lvl then
            (fix entries (fuel2 : nat) (ls : list nline) (acc : list (pnode * nat)) {struct fuel2}
               : result (list pnode) bundle_err :=
               match ls with
               | [] => Ok (map fst acc)
               | l :: rest =>
                   match fuel2 with
                   | O => Err BOutOfFuel
                   | S f2 =>
                       let (kids, rest') := span_deeper lvl rest in
                       let node :=
                         match kids with
                         | [] => Ok (PLeaf (nl_text l))
                         | _ => match parse_level f (S lvl) kids with
                                | Ok cs => Ok (PParent (nl_text l) cs)
                                | Err e => Err e
                                end
                         end in
                       match node with
                       | Err e => Err e
                       | Ok nd =>
                           match add_to_nodes acc nd (nl_num l) with
                           | Err e => Err e
                           | Ok acc' => entries f2 rest' acc'
                           end
                       end
                   end
               end) (length ls) ls []
          else Err (BWrongIndent (nl_num first))
      end
  end.

Definition drop_last_empty (ls : list bytes) : list bytes :=
  match rev ls with
  | [] :: r => rev r
  | _ => ls
  end.

Definition parse_lines (ls0 : list bytes) : result (list pnode) bundle_err :=
  let ls := drop_last_empty ls0 in
  match empty_indices O ls with
  | (_ :: _) as idx => Err (BContainsEmptyLines idx)
  | [] => parse_level (S (length ls)) O (number_from O ls)
  end.

(* get_path_strings('/') *)
Fixpoint flatten_node (prefix : bytes) (n : pnode) : list bytes :=
  match n with
  | PLeaf s => [prefix ++ s]
  | PParent s cs =>
      (fix go (l : list pnode) : list bytes :=
         match l with
         | [] => []
         | c :: r => flatten_node (prefix ++ s ++ [SLASH]) c ++ go r
         end) cs
  end.
Definition flatten (ns : list pnode) : list bytes := flat_map (flatten_node []) ns.
